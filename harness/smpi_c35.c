/* C35 end to end: messages between SMPI_PARTIAL_SHARED_MALLOC buffers.
 * argv[1] = case file; each line: mode soff doff size ssize ns (b e)*ns dsize nd (b e)*nd
 *   mode 0 = MPI_Send, 1 = MPI_Isend+Wait, 2 = MPI_Ssend   (eager/detached/rendezvous are selected by the thresholds
 *   given on the smpirun command line)
 * Rank 0 sends sbuf+soff (size bytes), rank 1 receives into rbuf+doff.  Rank 1 prints, per case, the maximal runs of
 * message-relative byte indices x whose destination byte now equals the source pattern: "k b1 e1 b2 e2 ..." */
#include <mpi.h>
#include <stdio.h>
#include <stdlib.h>
#include <string.h>
#define PAT(i) ((unsigned char)(((i) * 7 + 13) % 251))
#define POISON 0xFF
static size_t* read_blocks(FILE* f, int n)
{
  size_t* o = (size_t*)malloc(sizeof(size_t) * 2 * (n > 0 ? n : 1));
  for (int i = 0; i < 2 * n; i++) {
    long long v;
    if (fscanf(f, "%lld", &v) != 1)
      exit(3);
    o[i] = (size_t)v;
  }
  return o;
}
int main(int argc, char** argv)
{
  MPI_Init(&argc, &argv);
  int rank;
  MPI_Comm_rank(MPI_COMM_WORLD, &rank);
  FILE* f = fopen(argv[1], "r");
  if (!f)
    return 2;
  long long mode, soff, doff, size, ssize, dsize;
  int k = 0;
  while (fscanf(f, "%lld %lld %lld %lld %lld", &mode, &soff, &doff, &size, &ssize) == 5) {
    int ns, nd;
    if (fscanf(f, "%d", &ns) != 1)
      return 3;
    size_t* so = read_blocks(f, ns);
    if (fscanf(f, "%lld %d", &dsize, &nd) != 2)
      return 3;
    size_t* dof = read_blocks(f, nd);
    if (rank == 0) {
      unsigned char* sbuf = ns > 0 ? (unsigned char*)SMPI_PARTIAL_SHARED_MALLOC(ssize, so, ns) : (unsigned char*)malloc(ssize);
      for (long long i = 0; i < ssize; i++)
        sbuf[i] = PAT(i);
      MPI_Barrier(MPI_COMM_WORLD); /* rank 1 has poisoned its buffer (possibly aliasing our shared pages) */
      /* re-write the private bytes only: shared pages may alias the receiver's */
      for (long long i = 0; i < ssize; i++)
        sbuf[i] = PAT(i);
      MPI_Barrier(MPI_COMM_WORLD);
      if (mode == 0)
        MPI_Send(sbuf + soff, (int)size, MPI_BYTE, 1, k, MPI_COMM_WORLD);
      else if (mode == 1) {
        MPI_Request r;
        MPI_Isend(sbuf + soff, (int)size, MPI_BYTE, 1, k, MPI_COMM_WORLD, &r);
        MPI_Wait(&r, MPI_STATUS_IGNORE);
      } else
        MPI_Ssend(sbuf + soff, (int)size, MPI_BYTE, 1, k, MPI_COMM_WORLD);
      MPI_Barrier(MPI_COMM_WORLD);
      if (ns > 0)
        SMPI_SHARED_FREE(sbuf);
      else
        free(sbuf);
    } else if (rank == 1) {
      unsigned char* rbuf = nd > 0 ? (unsigned char*)SMPI_PARTIAL_SHARED_MALLOC(dsize, dof, nd) : (unsigned char*)malloc(dsize);
      memset(rbuf, POISON, dsize);
      MPI_Barrier(MPI_COMM_WORLD);
      MPI_Barrier(MPI_COMM_WORLD);
      MPI_Recv(rbuf + doff, (int)size, MPI_BYTE, 0, k, MPI_COMM_WORLD, MPI_STATUS_IGNORE);
      /* look at the bytes before anybody else runs: pages mapped on the shared file alias other allocations */
      printf("%d", k);
      long long run = -1;
      for (long long x = 0; x <= size; x++) {
        int ok = x < size && rbuf[doff + x] == PAT(soff + x);
        if (ok && run < 0)
          run = x;
        if (!ok && run >= 0) {
          printf(" %lld %lld", run, x);
          run = -1;
        }
      }
      printf("\n");
      fflush(stdout);
      MPI_Barrier(MPI_COMM_WORLD);
      if (nd > 0)
        SMPI_SHARED_FREE(rbuf);
      else
        free(rbuf);
    } else {
      MPI_Barrier(MPI_COMM_WORLD);
      MPI_Barrier(MPI_COMM_WORLD);
      MPI_Barrier(MPI_COMM_WORLD);
    }
    free(so);
    free(dof);
    k++;
  }
  MPI_Finalize();
  return 0;
}
