// k2_cv: S4U interpreter for condition-variable programs (C06). One condition variable, one mutex, up to 5 actors.
// One case per input line, one observation line per case (forked child per case).
// input : nact { nops {kind arg}^nops }^nact        dates and durations in ticks of 1/1024 s
//   kind 0 SLEEP arg | 1 LOCK | 2 UNLOCK | 3 WAIT | 4 WAIT_FOR arg (may be <= 0) | 5 WAIT_UNTIL arg (absolute) |
//        6 NOTIFY_ONE | 7 NOTIFY_ALL | 8 NOTIFY_ONE through the public API only (no queue snapshot)
// output: events separated by " | " (seq = global issue counter, d = date in ticks)
//   L seq a d | A seq a d (lock returned) | U seq a d | W seq a d t (t = -1: wait(); wait_until logged with t = arg - now)
//   R seq a d timedout owner_is_me | N seq a d all before after (queues as a,b,c or -) | X deadlock | F final cv queue | E d
#include "drv.hpp"
#include <cmath>
#include <cstdarg>
#include <sys/wait.h>
#include <unistd.h>
#include <simgrid/s4u.hpp>
#include "src/kernel/activity/ConditionVariableImpl.hpp"
#include "src/kernel/activity/MutexImpl.hpp"
#include "src/kernel/actor/ActorImpl.hpp"
#include "src/kernel/actor/Simcall.hpp"

namespace sg4 = simgrid::s4u;
namespace ka  = simgrid::kernel::activity;
namespace kr  = simgrid::kernel::actor;

static long g_seq = 0;
static std::vector<std::string> g_log;
static sg4::ConditionVariablePtr g_cv;
static sg4::MutexPtr g_mx;
static std::map<long, int> g_pid2idx;

static void logf(const char* fmt, ...)
{
  char b[512];
  va_list ap;
  va_start(ap, fmt);
  vsnprintf(b, sizeof b, fmt, ap);
  va_end(ap);
  g_log.emplace_back(b);
}
static long now()
{
  return std::llround(sg4::Engine::get_clock() * 1024);
}
static std::string snapshot()
{
  std::string s;
  for (auto const& acq : g_cv->pimpl_->ongoing_acquisitions_) {
    if (not s.empty())
      s += ",";
    s += std::to_string(g_pid2idx.at(acq->get_issuer()->get_pid()));
  }
  return s.empty() ? "-" : s;
}
static void finish_and_exit()
{
  logf("F %s", snapshot().c_str());
  logf("E %ld", now());
  std::string out;
  for (auto const& l : g_log)
    out += (out.empty() ? "" : " | ") + l;
  printf("%s\n", out.c_str());
  fflush(stdout);
  _exit(0);
}

static void actor_code(int me, std::vector<std::pair<long, long>> ops)
{
  for (auto const& [kind, arg] : ops) {
    long seq = kind == 0 ? 0 : ++g_seq;
    switch (kind) {
      case 0:
        sg4::this_actor::sleep_for(arg / 1024.0);
        break;
      case 1:
        logf("L %ld %d %ld", seq, me, now());
        g_mx->lock();
        logf("A %ld %d %ld", seq, me, now());
        break;
      case 2:
        logf("U %ld %d %ld", seq, me, now());
        g_mx->unlock();
        break;
      case 3:
      case 4:
      case 5: {
        long t = kind == 3 ? -1 : kind == 4 ? arg : arg - now();
        // wait() is logged with t = -1; a wait_for with a negative timeout is logged with its own (negative) value - 1
        logf("W %ld %d %ld %ld %ld", seq, me, now(), (long)kind, t);
        bool timedout = false;
        if (kind == 3)
          g_cv->wait(g_mx);
        else if (kind == 4)
          timedout = g_cv->wait_for(g_mx, arg / 1024.0) == std::cv_status::timeout;
        else
          timedout = g_cv->wait_until(g_mx, arg / 1024.0) == std::cv_status::timeout;
        auto owner = g_mx->get_owner();
        logf("R %ld %d %ld %d %d", seq, me, now(), timedout ? 1 : 0, (owner && owner->get_pid() == sg4::this_actor::get_pid()) ? 1 : 0);
        break;
      }
      case 6:
      case 7: {
        std::string before, after;
        bool all = kind == 7;
        kr::simcall_answered([&before, &after, all] {
          before = snapshot();
          if (all)
            g_cv->pimpl_->broadcast();
          else
            g_cv->pimpl_->signal();
          after = snapshot();
        });
        logf("N %ld %d %ld %d %s %s", seq, me, now(), all ? 1 : 0, before.c_str(), after.c_str());
        break;
      }
      case 8:
        g_cv->notify_one();
        logf("N %ld %d %ld 0 ? ?", seq, me, now());
        break;
      case 9:
        g_cv->notify_all();
        logf("N %ld %d %ld 1 ? ?", seq, me, now());
        break;
      default:
        break;
    }
  }
}

static int run_case(const std::vector<long long>& v)
{
  size_t i     = 0;
  long nact    = v.at(i++);
  int argc     = 2;
  char a0[]    = "k2_cv";
  char a1[]    = "--log=root.thres:critical";
  char* argv[] = {a0, a1, nullptr};
  sg4::Engine e(&argc, argv);
  auto* zone = e.get_netzone_root();
  auto* host = zone->add_host("h0", 1e9);
  zone->seal();
  g_cv = sg4::ConditionVariable::create();
  g_mx = sg4::Mutex::create();
  for (long a = 0; a < nact; a++) {
    long nops = v.at(i++);
    std::vector<std::pair<long, long>> ops;
    for (long k = 0; k < nops; k++) {
      ops.emplace_back(v.at(i), v.at(i + 1));
      i += 2;
    }
    auto act = host->add_actor("a" + std::to_string(a), [a, ops]() { actor_code((int)a, ops); });
    g_pid2idx[act->get_pid()] = (int)a;
  }
  sg4::Engine::on_deadlock_cb([]() {
    logf("X");
    finish_and_exit();
  });
  e.run();
  finish_and_exit();
  return 0;
}

int main(int argc, char** argv)
{
  std::vector<long long> v;
  while (drv::next_case(v)) {
    fflush(stdout);
    pid_t pid = fork();
    if (pid == 0) {
      alarm(90);
      int rc = 1;
      try {
        rc = run_case(v);
      } catch (std::exception const& ex) {
        printf("CRASH exception %s\n", ex.what());
        fflush(stdout);
      }
      _exit(rc);
    }
    int st = 0;
    waitpid(pid, &st, 0);
    if (WIFSIGNALED(st))
      printf("CRASH signal %d\n", WTERMSIG(st));
    else if (WIFEXITED(st) && WEXITSTATUS(st) != 0 && WEXITSTATUS(st) != 1)
      printf("CRASH exit %d\n", WEXITSTATUS(st));
    fflush(stdout);
  }
  return 0;
}
