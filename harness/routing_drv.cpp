// routing_drv: build ONE platform through the C++ platform API from a textual description (stdin) and dump routes.
// A process can build only one Engine: run once per platform.
//
//   zone <name> <parent|-> <full|floyd|dijkstra|dijkstracache|star|empty|vivaldi>
//         parent "-" = child of the default root zone "_world_" (a Full zone)
//   torus <name> <parent|-> <d1,d2,..> <loopback 0/1> <limiter 0/1> <shared|split> <lat> [gw]   (gw: router <name>_gw created after the hosts, default gateway)
//   fattree <name> <parent|-> <levels> <down,..> <up,..> <count,..> <loopback> <limiter> <shared|split> <lat>
//   dragonfly <name> <parent|-> <g,gl> <c,cl> <r,rl> <n> <loopback> <limiter> <shared|split> <lat>
//         hosts are "<zone>_h<id>", loopbacks "<zone>_lb<id>" (latency 100+id), limiters "<zone>_lim<id>" (1000+id)
//   host <name> <zone> | router <name> <zone>
//   link <name> <zone> <latency> [split]
//   route <zone> <src|-> <dst|-> <gwsrc|-> <gwdst|-> <sym 0/1> <link[:U|:D]>...     (kernel add_route)
//   bypass <zone> <src> <dst> <gwsrc|-> <gwdst|-> <link>...
//   gateway <zone> <netpoint>
//   sealall                            seal the root zone (recursively everything)
//   dump                               all ordered host pairs (hosts sorted by name), including src == dst
//   pair <src> <dst>
//   dumptree                           Z <zone> <parent|-> <netpoint> <default gateway|->  /  N <netpoint> <zone> <host|router|zone>
//   dumplinks                          K <link> <latency>
//   dumpbypass                         every zone's bypass_routes_ table:
//                                      P <zone> <src> <dst> <sum of the links' latencies> <gw_src|-> <gw_dst|-> <links...>
//   dumplocal                          every zone's own get_local_route for all ordered pairs of its vertices:
//                                      L <zone> <src> <dst> <latency> <gw_src|-> <gw_dst|-> <links...>  or  LX <zone> <src> <dst> <msg>
// Output, one line per pair:  R <src> <dst> <latency %.17g> <link names...>   or   X <src> <dst> <exception text>
#include "drv.hpp"
#include <map>
#include <algorithm>
#include <simgrid/s4u.hpp>
#define protected public
#define private public
#include <simgrid/kernel/routing/NetZoneImpl.hpp>
#undef protected
#undef private
#include <simgrid/kernel/routing/NetPoint.hpp>
#include <simgrid/kernel/routing/NetZoneImpl.hpp>
#include <xbt/log.h>

namespace sg4 = simgrid::s4u;
using simgrid::kernel::routing::NetPoint;

static std::map<std::string, sg4::NetZone*> zones;
static sg4::Engine* eng;

static std::vector<unsigned long> csv(const std::string& s)
{
  std::vector<unsigned long> v;
  std::istringstream is(s);
  std::string t;
  while (std::getline(is, t, ','))
    v.push_back(std::stoul(t));
  return v;
}
static std::vector<unsigned int> csvu(const std::string& s)
{
  std::vector<unsigned int> v;
  for (auto x : csv(s))
    v.push_back((unsigned int)x);
  return v;
}
static sg4::NetZone* parent_of(const std::string& p)
{
  return p == "-" ? eng->get_netzone_root() : zones.at(p);
}
static NetPoint* np(const std::string& n)
{
  if (n == "-")
    return nullptr;
  auto it = zones.find(n);
  if (it != zones.end())
    return it->second->get_netpoint();
  return eng->netpoint_by_name(n);
}
static std::vector<sg4::LinkInRoute> links_of(const std::vector<std::string>& t, size_t from)
{
  std::vector<sg4::LinkInRoute> v;
  for (size_t i = from; i < t.size(); i++) {
    std::string n = t[i];
    auto d        = sg4::LinkInRoute::Direction::NONE;
    if (n.size() > 2 && n[n.size() - 2] == ':') {
      d = n.back() == 'U' ? sg4::LinkInRoute::Direction::UP : sg4::LinkInRoute::Direction::DOWN;
      n = n.substr(0, n.size() - 2);
    }
    if (d == sg4::LinkInRoute::Direction::NONE)
      v.emplace_back(eng->link_by_name(n));
    else
      v.emplace_back(eng->split_duplex_link_by_name(n), d);
  }
  return v;
}
static void cluster_cbs(sg4::NetZone* z, const std::string& name, bool lb, bool lim, unsigned long gw_after = 0)
{
  // gw_after = n > 0: once the n-th (last) host exists, add a router "<zone>_gw" (netpoint id n) and make it the gateway
  z->set_host_cb([name, gw_after](sg4::NetZone* zone, const std::vector<unsigned long>&, unsigned long id) {
    auto* h = zone->add_host(name + "_h" + std::to_string(id), 1e9);
    if (gw_after > 0 && id + 1 == gw_after)
      zone->set_gateway(zone->add_router(name + "_gw"));
    return h;
  });
  if (lb)
    z->set_loopback_cb([name](sg4::NetZone* zone, const std::vector<unsigned long>&, unsigned long id) {
      return zone->add_link(name + "_lb" + std::to_string(id), 1e9)->set_latency(100.0 + id)->seal();
    });
  if (lim)
    z->set_limiter_cb([name](sg4::NetZone* zone, const std::vector<unsigned long>&, unsigned long id) {
      return zone->add_link(name + "_lim" + std::to_string(id), 1e9)->set_latency(1000.0 + id)->seal();
    });
}
static sg4::Link::SharingPolicy pol(const std::string& s)
{
  return s == "split" ? sg4::Link::SharingPolicy::SPLITDUPLEX : sg4::Link::SharingPolicy::SHARED;
}
static std::map<const void*, std::string> link_names;
static const char* lname(const void* impl)
{
  if (link_names.empty())
    for (auto* l : eng->get_all_links())
      link_names[l->get_impl()] = l->get_name();
  auto it = link_names.find(impl);
  return it == link_names.end() ? "__loopback__" : it->second.c_str();
}
static void dump_zone(simgrid::kernel::routing::NetZoneImpl* z, bool local)
{
  using simgrid::kernel::routing::Route;
  if (not local) {
    std::string gw = "-";
    try {
      gw = z->get_gateway()->get_name();
    } catch (const std::exception&) {
    }
    printf("Z %s %s %s %s\n", z->get_cname(), z->get_parent() ? z->get_parent()->get_cname() : "-",
           z->get_netpoint()->get_cname(), gw.c_str());
    for (auto* v : z->get_vertices())
      printf("N %s %s %s\n", v->get_cname(), z->get_cname(), v->is_host() ? "host" : v->is_router() ? "router" : "zone");
  } else {
    for (auto* a : z->get_vertices())
      for (auto* b : z->get_vertices()) {
        try {
          Route r;
          double lat = 0;
          z->get_local_route(a, b, &r, &lat);
          printf("L %s %s %s %.17g %s %s", z->get_cname(), a->get_cname(), b->get_cname(), lat,
                 r.gw_src_ ? r.gw_src_->get_cname() : "-", r.gw_dst_ ? r.gw_dst_->get_cname() : "-");
          for (auto* l : r.link_list_)
            printf(" %s", lname(l));
          printf("\n");
        } catch (const std::exception& e) {
          std::string m = e.what();
          std::replace(m.begin(), m.end(), '\n', ' ');
          printf("LX %s %s %s %s\n", z->get_cname(), a->get_cname(), b->get_cname(), m.substr(0, 120).c_str());
        }
      }
  }
  for (auto* c : z->get_children())
    dump_zone(c, local);
}
// bypass_routes_ sits in the class's leading (implicitly private) section, out of reach of "#define private public":
// explicit instantiation may name private members
using BypassTable = std::map<std::pair<const NetPoint*, const NetPoint*>, simgrid::kernel::routing::BypassRoute*>;
template <typename Tag, typename Tag::type M> struct Rob {
  friend typename Tag::type rob_get(Tag) { return M; }
};
struct BpTag {
  typedef BypassTable simgrid::kernel::routing::NetZoneImpl::*type;
  friend type rob_get(BpTag);
};
template struct Rob<BpTag, &simgrid::kernel::routing::NetZoneImpl::bypass_routes_>;
static void dump_bypass(simgrid::kernel::routing::NetZoneImpl* z)
{
  for (auto const& [key, r] : z->*rob_get(BpTag())) {
    double lat = 0; // what add_link_latency adds: the sum of the links' latencies, in list order
    for (auto* l : r->links)
      lat += eng->link_by_name(lname(l))->get_latency();
    printf("P %s %s %s %.17g %s %s", z->get_cname(), key.first->get_cname(), key.second->get_cname(), lat,
           r->gw_src ? r->gw_src->get_cname() : "-", r->gw_dst ? r->gw_dst->get_cname() : "-");
    for (auto* l : r->links)
      printf(" %s", lname(l));
    printf("\n");
  }
  for (auto* c : z->get_children())
    dump_bypass(c);
}
static void one_pair(sg4::Host* a, sg4::Host* b)
{
  try {
    std::vector<sg4::Link*> links;
    double lat = 0;
    a->route_to(b, links, &lat);
    printf("R %s %s %.17g", a->get_cname(), b->get_cname(), lat);
    for (auto* l : links)
      printf(" %s", l->get_cname());
    printf("\n");
  } catch (const std::exception& e) {
    std::string m = e.what();
    std::replace(m.begin(), m.end(), '\n', ' ');
    printf("X %s %s %s\n", a->get_cname(), b->get_cname(), m.substr(0, 200).c_str());
  }
}

int main(int argc, char** argv)
{
  sg4::Engine e(&argc, argv);
  eng = &e;
  xbt_log_control_set("root.thres:critical");
  std::vector<std::string> t;
  while (drv::next_tokens(t)) {
    if (t.empty())
      continue;
    const std::string& c = t[0];
    try {
      if (c == "zone") {
        sg4::NetZone* p = parent_of(t[2]);
        sg4::NetZone* z = nullptr;
        const std::string& k = t[3];
        if (k == "full")
          z = p->add_netzone_full(t[1]);
        else if (k == "floyd")
          z = p->add_netzone_floyd(t[1]);
        else if (k == "dijkstra")
          z = p->add_netzone_dijkstra(t[1], false);
        else if (k == "dijkstracache")
          z = p->add_netzone_dijkstra(t[1], true);
        else if (k == "star")
          z = p->add_netzone_star(t[1]);
        else if (k == "empty")
          z = p->add_netzone_empty(t[1]);
        else if (k == "vivaldi")
          z = p->add_netzone_vivaldi(t[1]);
        else {
          printf("BAD zone kind %s\n", k.c_str());
          return 3;
        }
        zones[t[1]] = z;
      } else if (c == "torus") {
        auto* z = parent_of(t[2])->add_netzone_torus(t[1], csv(t[3]), 1e9, std::stod(t[7]), pol(t[6]));
        unsigned long n = 1;
        for (auto d : csv(t[3]))
          n *= d;
        bool gw = t.size() > 8 && t[8] == "gw";
        cluster_cbs(z, t[1], t[4] == "1", t[5] == "1", gw ? n : 0);
        zones[t[1]] = z;
        if (gw)
          z->seal(); // as the XML loader does: the hosts (and the gateway router) exist from now on
      } else if (c == "fattree") {
        auto* z = parent_of(t[2])->add_netzone_fatTree(t[1], std::stoul(t[3]), csvu(t[4]), csvu(t[5]), csvu(t[6]), 1e9,
                                                       std::stod(t[10]), pol(t[9]));
        cluster_cbs(z, t[1], t[7] == "1", t[8] == "1");
        zones[t[1]] = z;
      } else if (c == "dragonfly") {
        auto g  = csvu(t[3]);
        auto ch = csvu(t[4]);
        auto r  = csvu(t[5]);
        auto* z = parent_of(t[2])->add_netzone_dragonfly(t[1], {g[0], g[1]}, {ch[0], ch[1]}, {r[0], r[1]},
                                                         std::stoul(t[6]), 1e9, std::stod(t[10]), pol(t[9]));
        cluster_cbs(z, t[1], t[7] == "1", t[8] == "1");
        zones[t[1]] = z;
      } else if (c == "host") {
        zones.at(t[2])->add_host(t[1], 1e9);
      } else if (c == "router") {
        zones.at(t[2])->add_router(t[1]);
      } else if (c == "link") {
        if (t.size() > 4 && t[4] == "split")
          zones.at(t[2])->add_split_duplex_link(t[1], 1e9)->set_latency(std::stod(t[3]))->seal();
        else
          zones.at(t[2])->add_link(t[1], 1e9)->set_latency(std::stod(t[3]))->seal();
      } else if (c == "route") {
        zones.at(t[1])->get_impl()->add_route(np(t[2]), np(t[3]), np(t[4]), np(t[5]), links_of(t, 7), t[6] == "1");
      } else if (c == "bypass") {
        zones.at(t[1])->add_bypass_route(np(t[2]), np(t[3]), np(t[4]), np(t[5]), links_of(t, 6));
      } else if (c == "gateway") {
        zones.at(t[1])->set_gateway(np(t[2]));
      } else if (c == "sealall") {
        e.get_netzone_root()->seal();
      } else if (c == "dump") {
        auto hosts = e.get_all_hosts();
        std::sort(hosts.begin(), hosts.end(),
                  [](sg4::Host* a, sg4::Host* b) { return a->get_name() < b->get_name(); });
        for (auto* a : hosts)
          for (auto* b : hosts)
            one_pair(a, b);
      } else if (c == "dumplinks") {
        for (auto* l : e.get_all_links())
          printf("K %s %.17g\n", l->get_cname(), l->get_latency());
      } else if (c == "dumptree") {
        dump_zone(e.get_netzone_root()->get_impl(), false);
      } else if (c == "dumplocal") {
        dump_zone(e.get_netzone_root()->get_impl(), true);
      } else if (c == "dumpbypass") {
        dump_bypass(e.get_netzone_root()->get_impl());
      } else if (c == "pair") {
        one_pair(e.host_by_name(t[1]), e.host_by_name(t[2]));
      } else {
        printf("BAD command %s\n", c.c_str());
        return 3;
      }
    } catch (const std::exception& ex) {
      std::string m = ex.what();
      std::replace(m.begin(), m.end(), '\n', ' ');
      printf("B %s %s\n", c.c_str(), m.substr(0, 300).c_str());
    }
    fflush(stdout);
  }
  return 0;
}
