// c12_comm — S4U program interpreter for C12 on communications and I/Os (timed waits), counterpart of the Coq model
// SGV.Kernel.TimedComm.run_tc. One case per input line (integers):
//   k p n  (tick = 2^-k s, precision/timing = p ticks, n actors, actor i on host H<i>)  then per actor:  nops  op...
//   op = 1 d      this_actor::sleep_for(d)
//      | 2 c d    Mailbox("mb<c>")->put_async(payload of d bytes): lasts d ticks on the dedicated link once matched
//      | 3 c      Mailbox("mb<c>")->get_async()
//      | 4 c t    wait_for(t) on one's own side of c (t < 0: wait())          | 8 c t   wait_for_or_cancel(t)
//      | 5 c d t  Mailbox::put(payload, d, t)                                  | 6 c t   Mailbox::get(t)
//      | 7 c d    Disk("D<c>")->read_async(d) (c even) / write_async(d) (c odd), private disk on the actor's host
//      | 9 c d t  put_init(payload, d)->wait_for(t): Comm::send in ONE simcall  | 10 c t  get_init()->wait_for(t): Comm::recv
// Platform: full routing, every pair of hosts has its own FATPIPE link of 2^k B/s without latency, network model CM02
// without cross-traffic, so a matched comm of d bytes lasts exactly d ticks whatever else is going on; disks 2^k B/s.
// Output line: "R pid opidx t0 t1 res | ..." then "E clock"; res: 0 completed, 1 TimeoutException (wait_for_or_cancel: and the
// activity state is CANCELED afterwards; 11 if it is not), 2 CancelException, 3 NetworkFailureException, 4 StorageFailureException,
// -9 rejected operation (executes this_actor::yield()): second put/get on a mailbox, id clash, wait on something not posted by
// this actor or already completed/cancelled for it, duration < 1.  "CRASH ..." when the child died.
#include "drv.hpp"
#include <simgrid/Exception.hpp>
#include <simgrid/s4u.hpp>
#include <cmath>
#include <map>
#include <set>
#include <sys/wait.h>
#include <unistd.h>

namespace sg4 = simgrid::s4u;

struct Op {
  int code;
  std::vector<long long> a;
};
using Key = std::pair<long, long long>;
static double tick;
static std::vector<std::vector<Op>> progs;
static std::map<Key, sg4::ActivityPtr> handle;
static std::set<Key> posted, closed;
static std::set<long long> put_by, get_by, io_ids;
static int payload = 42;
static std::map<long long, sg4::Disk*> disk_of;
static FILE* out;

static long long timed(const std::function<void()>& f)
{
  try {
    f();
    return 0;
  } catch (const simgrid::TimeoutException&) {
    return 1;
  } catch (const simgrid::CancelException&) {
    return 2;
  } catch (const simgrid::NetworkFailureException&) {
    return 3;
  } catch (const simgrid::StorageFailureException&) {
    return 4;
  }
}

static void actor_code(int me)
{
  const auto& prog = progs[me];
  long pid         = sg4::this_actor::get_pid();
  for (size_t i = 0; i < prog.size(); i++) {
    const Op& o   = prog[i];
    double t0     = sg4::Engine::get_clock();
    long long res = 0;
    auto bad      = [&]() { sg4::this_actor::yield(); res = -9; };
    long long c   = o.a.empty() ? 0 : o.a[0];
    Key key{pid, c};
    auto mb       = [&]() { return sg4::Mailbox::by_name("mb" + std::to_string(c)); };
    auto to       = [&](long long t) { return t < 0 ? -1.0 : t * tick; };
    bool can_put  = not put_by.count(c) && not io_ids.count(c) && not posted.count(key);
    bool can_get  = not get_by.count(c) && not io_ids.count(c) && not posted.count(key);
    switch (o.code) {
      case 1:
        sg4::this_actor::sleep_for(o.a[0] * tick);
        break;
      case 2:
        if (o.a[1] < 1 || not can_put) {
          bad();
          break;
        }
        put_by.insert(c);
        posted.insert(key);
        handle[key] = mb()->put_async(&payload, (uint64_t)o.a[1]);
        break;
      case 3: {
        if (not can_get) {
          bad();
          break;
        }
        get_by.insert(c);
        posted.insert(key);
        handle[key] = mb()->get_async();
        break;
      }
      case 7: {
        if (o.a[1] < 1 || put_by.count(c) || get_by.count(c) || io_ids.count(c) || not disk_of.count(c)) {
          bad();
          break;
        }
        io_ids.insert(c);
        posted.insert(key);
        const auto* disk = disk_of.at(c);
        handle[key]      = (c % 2 == 0) ? disk->read_async((sg_size_t)o.a[1]) : disk->write_async((sg_size_t)o.a[1]);
        break;
      }
      case 4:
      case 8: {
        if (not handle.count(key) || closed.count(key)) {
          bad();
          break;
        }
        sg4::ActivityPtr a = handle[key];
        if (o.code == 4)
          res = timed([&]() { a->wait_for(to(o.a[1])); });
        else {
          res = timed([&]() { a->wait_for_or_cancel(to(o.a[1])); });
          if (res == 1 && a->get_state() != sg4::Activity::State::CANCELED)
            res = 11;
        }
        if (o.code == 8 || res != 1)
          closed.insert(key);
        break;
      }
      case 5:
        if (o.a[1] < 1 || not can_put) {
          bad();
          break;
        }
        put_by.insert(c);
        posted.insert(key);
        res = timed([&]() { mb()->put(&payload, (uint64_t)o.a[1], to(o.a[2])); });
        break;
      case 6:
        if (not can_get) {
          bad();
          break;
        }
        get_by.insert(c);
        posted.insert(key);
        res = timed([&]() { mb()->get<int>(to(o.a[1])); });
        break;
      case 9: {
        if (o.a[1] < 1 || not can_put) {
          bad();
          break;
        }
        put_by.insert(c);
        posted.insert(key);
        sg4::CommPtr comm = mb()->put_init(&payload, (uint64_t)o.a[1]);
        res               = timed([&]() { comm->wait_for(to(o.a[2])); });
        break;
      }
      case 10: {
        if (not can_get) {
          bad();
          break;
        }
        get_by.insert(c);
        posted.insert(key);
        sg4::CommPtr comm = mb()->get_init()->set_dst_data(nullptr, sizeof(void*));
        res               = timed([&]() { comm->wait_for(to(o.a[1])); });
        break;
      }
      default:
        bad();
    }
    fprintf(out, "R %ld %zu %.17g %.17g %lld | ", pid, i, t0, sg4::Engine::get_clock(), res);
  }
}

static int run_case(const std::vector<long long>& v)
{
  size_t pos  = 0;
  auto next   = [&]() -> long long { return pos < v.size() ? v[pos++] : 0; };
  long long k = next(), p = next(), n = next();
  tick = std::ldexp(1.0, -(int)k);
  progs.assign(n, {});
  std::vector<std::pair<long long, long long>> disks; // (actor, id)
  for (long long a = 0; a < n; a++) {
    long long nops = next();
    for (long long i = 0; i < nops; i++) {
      Op o;
      o.code = (int)next();
      int ar = 0;
      switch (o.code) {
        case 1: case 3: ar = 1; break;
        case 2: case 4: case 6: case 7: case 8: case 10: ar = 2; break;
        case 5: case 9: ar = 3; break;
        default: ar = 0;
      }
      for (int j = 0; j < ar; j++)
        o.a.push_back(next());
      if (o.code == 7)
        disks.emplace_back(a, o.a[0]);
      progs[a].push_back(o);
    }
  }
  char precarg[64];
  snprintf(precarg, sizeof precarg, "--cfg=precision/timing:%.17g", p * tick);
  const char* args[] = {"c12_comm", precarg, "--cfg=network/model:CM02", "--cfg=network/crosstraffic:0", "--log=root.thres:critical", nullptr};
  int argc           = 5;
  char** argv        = const_cast<char**>(args);
  sg4::Engine e(&argc, argv);
  auto* zone = e.get_netzone_root();
  double bw  = std::ldexp(1.0, (int)k);
  std::vector<sg4::Host*> hs;
  for (long long a = 0; a < n; a++)
    hs.push_back(zone->add_host("H" + std::to_string(a + 1), 1.0));
  for (auto [a, id] : disks)
    if (not disk_of.count(id))
      disk_of[id] = hs[a]->add_disk("D" + std::to_string(id), bw, bw);
  for (long long a = 0; a < n; a++)
    for (long long b = a + 1; b < n; b++) {
      const auto* l = zone->add_link("L" + std::to_string(a + 1) + "_" + std::to_string(b + 1), bw)
                          ->set_sharing_policy(sg4::Link::SharingPolicy::FATPIPE)
                          ->seal();
      zone->add_route(hs[a], hs[b], {l});
    }
  zone->seal();
  for (long long a = 0; a < n; a++) {
    int me = (int)a;
    e.add_actor("a" + std::to_string(a + 1), hs[a], [me]() { actor_code(me); });
  }
  e.run();
  fprintf(out, "E %.17g", sg4::Engine::get_clock());
  fflush(out);
  return 0;
}

int main()
{
  std::vector<long long> v;
  while (drv::next_case(v)) {
    fflush(stdout);
    int fds[2];
    if (pipe(fds) != 0)
      return 3;
    pid_t c = fork();
    if (c == 0) {
      close(fds[0]);
      out = fdopen(fds[1], "w");
      setvbuf(out, nullptr, _IONBF, 0);
      alarm(90);
      run_case(v);
      fflush(out);
      _exit(0);
    }
    close(fds[1]);
    std::string got;
    char buf[4096];
    ssize_t r;
    while ((r = read(fds[0], buf, sizeof buf)) > 0)
      got.append(buf, r);
    close(fds[0]);
    int st = 0;
    waitpid(c, &st, 0);
    for (auto& ch : got)
      if (ch == '\n')
        ch = ' ';
    if (WIFSIGNALED(st))
      printf("%s CRASH signal %d\n", got.c_str(), WTERMSIG(st));
    else if (WEXITSTATUS(st) != 0)
      printf("%s CRASH exit %d\n", got.c_str(), WEXITSTATUS(st));
    else
      printf("%s\n", got.c_str());
  }
  return 0;
}
