/* C33: Cartesian topologies.  All ranks read the same case file (argv[1]); one case per line.
 *   C nd d1..dn p1..pn r1..rn nq q(1,1)..q(nq,n)   cart of dims d, periods p; Cart_sub with remain r; nq Cart_rank queries
 *   D nnodes nd d1..dn                              Dims_create
 * Output, one observation per line, prefixed by case index and world rank:
 *   <i> <w> G rank size ndims dims.. periods.. coords..          (Cart_get/Cartdim_get/Comm_rank on the cart comm)
 *   <i> <w> S k disp src dst                                     (Cart_shift, every direction, disp in [-2d,2d])
 *   <i> 0   Q q coords.. rc rank                                 (Cart_coords(q) then Cart_rank of them)
 *   <i> 0   R rc rank                                            (Cart_rank of explicit query, rank only if rc==0)
 *   <i> <w> U newrank newsize ndims dims.. periods.. coords.. | cc.. rr   (Cart_sub: Cart_get on the new comm, then
 *                                                 Cart_coords(newrank) and Cart_rank of them when every dim > 0)
 *   <i> <w> N                                                    (Cart_sub returned MPI_COMM_NULL)
 *   <i> 0   D rc dims..
 * MPI_PROC_NULL is printed as -1000. PMPI_ entry points are used so that error codes come back instead of aborting. */
#include <mpi.h>
#include <stdio.h>
#include <stdlib.h>
#include <string.h>

#define MAXD 8
static int pn(int r) { return r == MPI_PROC_NULL ? -1000 : r; }

int main(int argc, char** argv)
{
  MPI_Init(&argc, &argv);
  int w, np;
  MPI_Comm_rank(MPI_COMM_WORLD, &w);
  MPI_Comm_size(MPI_COMM_WORLD, &np);
  FILE* f = fopen(argv[1], "r");
  if (!f) {
    fprintf(stderr, "cannot open %s\n", argv[1]);
    MPI_Abort(MPI_COMM_WORLD, 2);
  }
  static char line[1 << 16];
  int idx = -1;
  while (fgets(line, sizeof line, f)) {
    idx++;
    char* s = line;
    char kind = 0;
    int used = 0;
    if (sscanf(s, " %c%n", &kind, &used) != 1)
      continue;
    s += used;
    long v[4096];
    int nv = 0;
    char* e;
    for (;;) {
      long x = strtol(s, &e, 10);
      if (e == s)
        break;
      v[nv++] = x;
      s = e;
    }
    if (kind == 'D') {
      if (w == 0) {
        int nnodes = v[0], nd = v[1], dims[MAXD];
        for (int i = 0; i < nd; i++)
          dims[i] = v[2 + i];
        int rc = PMPI_Dims_create(nnodes, nd, dims);
        printf("%d 0 D %d", idx, rc == MPI_SUCCESS ? 0 : 1);
        if (rc == MPI_SUCCESS)
          for (int i = 0; i < nd; i++)
            printf(" %d", dims[i]);
        printf("\n");
      }
      continue;
    }
    int nd = v[0], dims[MAXD], per[MAXD], rem[MAXD];
    for (int i = 0; i < nd; i++) {
      dims[i] = v[1 + i];
      per[i]  = v[1 + nd + i];
      rem[i]  = v[1 + 2 * nd + i];
    }
    int nq      = v[1 + 3 * nd];
    long* q     = v + 2 + 3 * nd;
    MPI_Comm cart = MPI_COMM_NULL;
    PMPI_Cart_create(MPI_COMM_WORLD, nd, dims, per, 0, &cart);
    if (cart == MPI_COMM_NULL)
      continue;
    int r, sz, ndg = -1, gd[MAXD], gp[MAXD], gc[MAXD];
    MPI_Comm_rank(cart, &r);
    MPI_Comm_size(cart, &sz);
    PMPI_Cartdim_get(cart, &ndg);
    PMPI_Cart_get(cart, MAXD, gd, gp, gc);
    printf("%d %d G %d %d %d", idx, w, r, sz, ndg);
    for (int i = 0; i < ndg; i++)
      printf(" %d", gd[i]);
    for (int i = 0; i < ndg; i++)
      printf(" %d", gp[i] ? 1 : 0);
    for (int i = 0; i < ndg; i++)
      printf(" %d", gc[i]);
    printf("\n");
    for (int k = 0; k < nd; k++)
      for (int disp = -2 * dims[k]; disp <= 2 * dims[k]; disp++) {
        int src = -7, dst = -7;
        int rc = PMPI_Cart_shift(cart, k, disp, &src, &dst);
        printf("%d %d S %d %d %d %d\n", idx, w, k, disp, rc == MPI_SUCCESS ? pn(src) : -2000, rc == MPI_SUCCESS ? pn(dst) : -2000);
      }
    if (r == 0) {
      for (int qq = 0; qq < sz; qq++) {
        int c[MAXD], rr = -7;
        PMPI_Cart_coords(cart, qq, MAXD, c);
        int rc = PMPI_Cart_rank(cart, c, &rr);
        printf("%d %d Q %d", idx, w, qq);
        for (int i = 0; i < nd; i++)
          printf(" %d", c[i]);
        printf(" %d %d\n", rc == MPI_SUCCESS ? 0 : 1, rr);
      }
      for (int j = 0; j < nq; j++) {
        int c[MAXD], rr = -7;
        for (int i = 0; i < nd; i++)
          c[i] = q[j * nd + i];
        int rc = PMPI_Cart_rank(cart, c, &rr);
        printf("%d %d R %d %d\n", idx, w, rc == MPI_SUCCESS ? 0 : 1, rc == MPI_SUCCESS ? rr : -1);
      }
    }
    MPI_Comm sub = MPI_COMM_NULL;
    PMPI_Cart_sub(cart, rem, &sub);
    if (sub == MPI_COMM_NULL) {
      printf("%d %d N\n", idx, w);
    } else {
      int nr, ns, nnd = -1;
      MPI_Comm_rank(sub, &nr);
      MPI_Comm_size(sub, &ns);
      PMPI_Cartdim_get(sub, &nnd);
      memset(gd, 0, sizeof gd);
      memset(gp, 0, sizeof gp);
      memset(gc, 0, sizeof gc);
      PMPI_Cart_get(sub, MAXD, gd, gp, gc);
      printf("%d %d U %d %d %d", idx, w, nr, ns, nnd);
      int allpos = 1;
      for (int i = 0; i < nnd; i++) {
        printf(" %d", gd[i]);
        if (gd[i] <= 0)
          allpos = 0;
      }
      for (int i = 0; i < nnd; i++)
        printf(" %d", gp[i] ? 1 : 0);
      for (int i = 0; i < nnd; i++)
        printf(" %d", gc[i]);
      if (allpos && nnd > 0) {
        int c[MAXD], rr = -7;
        PMPI_Cart_coords(sub, nr, MAXD, c);
        PMPI_Cart_rank(sub, c, &rr);
        printf(" |");
        for (int i = 0; i < nnd; i++)
          printf(" %d", c[i]);
        printf(" %d", rr);
      }
      printf("\n");
      MPI_Comm_free(&sub);
    }
    MPI_Comm_free(&cart);
  }
  fclose(f);
  MPI_Finalize();
  return 0;
}
