// C47: run a generated S4U program with tracing enabled; the trace file is the observation.
// One case per input line, forked per case; answers "ok" or "ERR ...".
//   input: <platform.xml> <tracefile> <ncfg> {cfg}* <nactors> {host start kill nops {op}*}*
//     op: e <flops> <category|->   exec (category "-" = none)
//         s <dur>                  sleep
//         c <dsthost> <bytes> <category|->  direct host-to-host communication
//         p <mailbox> <bytes>      put          g <mailbox>   get
//         v <var> <value>          set user host variable of my host
//         a <var> <value>          add to user host variable
//         k <mark>                 mark
//         u <value>                push user host state     o   pop user host state
//     kill >= 0: another actor kills this one at that date; start: creation date (delayed actors are created by a spawner).
#include "drv.hpp"
#include <simgrid/instr.h>
#include <simgrid/s4u.hpp>
#include <sys/wait.h>
#include <unistd.h>
namespace sg4 = simgrid::s4u;

struct Op {
  std::string k;
  std::vector<std::string> a;
};
struct Act {
  std::string host;
  double start, kill;
  std::vector<Op> ops;
};

static void body(const Act& me)
{
  auto* h = sg4::this_actor::get_host();
  for (auto const& op : me.ops) {
    try {
      if (op.k == "e") {
        auto x = sg4::this_actor::exec_init(strtod(op.a[0].c_str(), nullptr));
        if (op.a[1] != "-")
          x->set_tracing_category(op.a[1]);
        x->wait();
      } else if (op.k == "s") {
        sg4::this_actor::sleep_for(strtod(op.a[0].c_str(), nullptr));
      } else if (op.k == "c") {
        auto c = sg4::Comm::sendto_init(h, sg4::Host::by_name(op.a[0]));
        c->set_payload_size(strtoull(op.a[1].c_str(), nullptr, 10));
        if (op.a[2] != "-")
          c->set_tracing_category(op.a[2]);
        c->wait();
      } else if (op.k == "p") {
        sg4::Mailbox::by_name(op.a[0])->put_async(new int(1), strtoull(op.a[1].c_str(), nullptr, 10))->wait_for(50);
      } else if (op.k == "g") {
        int* data = nullptr;
        sg4::Mailbox::by_name(op.a[0])->get_async<int>(&data)->wait_for(50);
        delete data;
      } else if (op.k == "v") {
        simgrid::instr::set_host_variable(h->get_name(), op.a[0], strtod(op.a[1].c_str(), nullptr));
      } else if (op.k == "a") {
        simgrid::instr::add_host_variable(h->get_name(), op.a[0], strtod(op.a[1].c_str(), nullptr));
      } else if (op.k == "k") {
        simgrid::instr::mark("mk", op.a[0]);
      } else if (op.k == "u") {
        TRACE_host_push_state(h->get_cname(), "ust", op.a[0].c_str());
      } else if (op.k == "o") {
        TRACE_host_pop_state(h->get_cname(), "ust");
      }
    } catch (simgrid::Exception const&) {
    }
  }
}

static void run_case(const std::vector<std::string>& t)
{
  size_t p = 0;
  std::string platform = t.at(p++), trace = t.at(p++);
  std::vector<std::string> args = {"res_c47", "--log=root.thres:critical", "--cfg=tracing:yes", "--cfg=tracing/filename:" + trace};
  int ncfg = atoi(t.at(p++).c_str());
  for (int i = 0; i < ncfg; i++)
    args.push_back("--cfg=" + t.at(p++));
  std::vector<char*> argv;
  for (auto& a : args)
    argv.push_back(const_cast<char*>(a.c_str()));
  argv.push_back(nullptr);
  int argc = (int)args.size();
  auto& e  = *new sg4::Engine(&argc, argv.data());
  e.load_platform(platform);
  static std::vector<Act> acts;
  int na = atoi(t.at(p++).c_str());
  for (int i = 0; i < na; i++) {
    Act a;
    a.host  = t.at(p++);
    a.start = strtod(t.at(p++).c_str(), nullptr);
    a.kill  = strtod(t.at(p++).c_str(), nullptr);
    int n   = atoi(t.at(p++).c_str());
    for (int k = 0; k < n; k++) {
      Op op;
      op.k   = t.at(p++);
      int ar = op.k == "o" ? 0 : (op.k == "s" || op.k == "g" || op.k == "k" || op.k == "u") ? 1 : op.k == "c" ? 3 : 2;
      for (int j = 0; j < ar; j++)
        op.a.push_back(t.at(p++));
      a.ops.push_back(op);
    }
    acts.push_back(a);
  }
  simgrid::instr::declare_tracing_category("catA", "1 0 0");
  simgrid::instr::declare_tracing_category("catB", "0 1 0");
  simgrid::instr::declare_host_variable("uv1");
  simgrid::instr::declare_host_variable("uv2", "0 0 1");
  simgrid::instr::declare_mark("mk");
  simgrid::instr::declare_mark_value("mk", "m1");
  simgrid::instr::declare_mark_value("mk", "m2");
  TRACE_host_state_declare("ust");
  TRACE_host_state_declare_value("ust", "x", "1 1 0");
  TRACE_host_state_declare_value("ust", "y", "0 1 1");

  // the spawner creates delayed actors and kills those with a kill date, in date order
  struct Ev {
    double date;
    int what; // 0 = create, 1 = kill
    int idx;
  };
  static std::vector<Ev> evs;
  static std::vector<sg4::ActorPtr> handles(acts.size());
  for (int i = 0; i < na; i++) {
    if (acts[i].start <= 0)
      handles[i] = sg4::Host::by_name(acts[i].host)->add_actor("a" + std::to_string(i), [i]() { body(acts[i]); });
    else
      evs.push_back({acts[i].start, 0, i});
    if (acts[i].kill >= 0)
      evs.push_back({acts[i].kill, 1, i});
  }
  std::stable_sort(evs.begin(), evs.end(), [](Ev const& a, Ev const& b) { return a.date < b.date; });
  if (not evs.empty())
    e.get_all_hosts().front()->add_actor("spawner", []() {
      for (auto const& ev : evs) {
        if (ev.date > sg4::Engine::get_clock())
          sg4::this_actor::sleep_until(ev.date);
        int i = ev.idx;
        if (ev.what == 0)
          handles[i] = sg4::Host::by_name(acts[i].host)->add_actor("a" + std::to_string(i), [i]() { body(acts[i]); });
        else if (handles[i])
          handles[i]->kill();
      }
    });
  e.run();
  printf("ok\n");
  fflush(stdout);
  exit(0); // run the tracing module's end-of-simulation code paths (atexit) like a normal program
}

int main()
{
  std::vector<std::string> t;
  while (drv::next_tokens(t)) {
    fflush(stdout);
    int fd[2];
    if (pipe(fd) != 0)
      return 3;
    pid_t pid = fork();
    if (pid == 0) { // everything the child prints goes through the pipe, so that each case answers exactly one line
      close(fd[0]);
      dup2(fd[1], 1);
      dup2(fd[1], 2);
      try {
        run_case(t);
      } catch (std::exception const& ex) {
        printf("ERR exception %s\n", ex.what());
      }
      fflush(stdout);
      _exit(0);
    }
    close(fd[1]);
    std::string all;
    char buf[4096];
    ssize_t n;
    while ((n = read(fd[0], buf, sizeof buf)) > 0)
      all.append(buf, n);
    close(fd[0]);
    int st = 0;
    waitpid(pid, &st, 0);
    for (auto& ch : all)
      if (ch == '\n' || ch == '\r')
        ch = ' ';
    while (not all.empty() && all.back() == ' ')
      all.pop_back();
    if (all == "ok" && WIFEXITED(st) && WEXITSTATUS(st) == 0)
      printf("ok\n");
    else
      printf("ERR status=%d %s\n", st, all.substr(0, 600).c_str());
    fflush(stdout);
  }
  return 0;
}
