// C31: predefined reduction operators through MPI_Reduce_local (run with -np 1).  One case per line of argv[1]:
//    OPNAME DTNAME n  a1v a1i .. anv ani  b1v b1i .. bnv bni        (in = a, inout = b; scalars ignore the i's)
// Output:  <i> V r1v r1i .. rnv rni     the call succeeded
//          <i> R                        the call returned an error (pair rejected)
//          <i> U                        datatype/operator name unknown to this harness
// The buffers are laid out with the C type an MPI *user* associates with the datatype (MPI_INTEGER1 = 1 byte,
// MPI_COMPLEX32 = two long double, ...), independently of SimGrid's own tables.  Values are small integers.
#include <mpi.h>
#include <complex>
#include <cstdint>
#include <cstdio>
#include <cstdlib>
#include <cstring>
#include <map>
#include <sstream>
#include <string>
#include <vector>

struct DT {
  MPI_Datatype h;
  std::string k; // element layout code
};
template <class V, class I> struct P {
  V value;
  I index;
};
template <class T> static void put1(char* buf, int j, long long v) { reinterpret_cast<T*>(buf)[j] = static_cast<T>(v); }
template <class T> static long long get1(const char* buf, int j) { return static_cast<long long>(reinterpret_cast<const T*>(buf)[j]); }
template <class V, class I> static void put2(char* buf, int j, long long v, long long i)
{
  auto* p    = reinterpret_cast<P<V, I>*>(buf);
  p[j].value = static_cast<V>(v);
  p[j].index = static_cast<I>(i);
}
template <class V, class I> static void get2(const char* buf, int j, long long* v, long long* i)
{
  auto* p = reinterpret_cast<const P<V, I>*>(buf);
  *v      = static_cast<long long>(p[j].value);
  *i      = static_cast<long long>(p[j].index);
}
#define SCALARS(X) X("i8", int8_t) X("u8", uint8_t) X("i16", int16_t) X("u16", uint16_t) X("i32", int32_t) X("u32", uint32_t) \
  X("i64", int64_t) X("u64", uint64_t) X("b", bool) X("f32", float) X("f64", double) X("f80", long double) X("c", char)
#define PAIRS(X) X("fi", float, int) X("di", double, int) X("li", long, int) X("si", short, int) X("ii", int, int) \
  X("ldi", long double, int) X("ff", float, float) X("dd", double, double) X("ll", long, long) X("LL", long double, long double)

static void put(const std::string& k, char* buf, int j, long long v, long long i)
{
#define X(code, T) if (k == code) { put1<T>(buf, j, v); return; }
  SCALARS(X)
#undef X
#define X(code, V, I) if (k == code) { put2<V, I>(buf, j, v, i); return; }
  PAIRS(X)
#undef X
}
static void get(const std::string& k, const char* buf, int j, long long* v, long long* i)
{
  *i = 0;
#define X(code, T) if (k == code) { *v = get1<T>(buf, j); return; }
  SCALARS(X)
#undef X
#define X(code, V, I) if (k == code) { get2<V, I>(buf, j, v, i); return; }
  PAIRS(X)
#undef X
}

int main(int argc, char** argv)
{
  MPI_Init(&argc, &argv);
  std::map<std::string, DT> dts = {
      {"MPI_DOUBLE", {MPI_DOUBLE, "f64"}}, {"MPI_INT", {MPI_INT, "i32"}}, {"MPI_CHAR", {MPI_CHAR, "c"}}, {"MPI_SHORT", {MPI_SHORT, "i16"}},
      {"MPI_LONG", {MPI_LONG, "i64"}}, {"MPI_FLOAT", {MPI_FLOAT, "f32"}}, {"MPI_BYTE", {MPI_BYTE, "u8"}}, {"MPI_LONG_LONG", {MPI_LONG_LONG, "i64"}},
      {"MPI_SIGNED_CHAR", {MPI_SIGNED_CHAR, "i8"}}, {"MPI_UNSIGNED_CHAR", {MPI_UNSIGNED_CHAR, "u8"}},
      {"MPI_UNSIGNED_SHORT", {MPI_UNSIGNED_SHORT, "u16"}}, {"MPI_UNSIGNED", {MPI_UNSIGNED, "u32"}},
      {"MPI_UNSIGNED_LONG", {MPI_UNSIGNED_LONG, "u64"}}, {"MPI_UNSIGNED_LONG_LONG", {MPI_UNSIGNED_LONG_LONG, "u64"}},
      {"MPI_LONG_DOUBLE", {MPI_LONG_DOUBLE, "f80"}}, {"MPI_WCHAR", {MPI_WCHAR, "i32"}}, {"MPI_C_BOOL", {MPI_C_BOOL, "b"}},
      {"MPI_INT8_T", {MPI_INT8_T, "i8"}}, {"MPI_INT16_T", {MPI_INT16_T, "i16"}}, {"MPI_INT32_T", {MPI_INT32_T, "i32"}},
      {"MPI_INT64_T", {MPI_INT64_T, "i64"}}, {"MPI_UINT8_T", {MPI_UINT8_T, "u8"}}, {"MPI_UINT16_T", {MPI_UINT16_T, "u16"}},
      {"MPI_UINT32_T", {MPI_UINT32_T, "u32"}}, {"MPI_UINT64_T", {MPI_UINT64_T, "u64"}},
      {"MPI_C_FLOAT_COMPLEX", {MPI_C_FLOAT_COMPLEX, "ff"}}, {"MPI_C_DOUBLE_COMPLEX", {MPI_C_DOUBLE_COMPLEX, "dd"}},
      {"MPI_C_LONG_DOUBLE_COMPLEX", {MPI_C_LONG_DOUBLE_COMPLEX, "LL"}}, {"MPI_AINT", {MPI_AINT, "i64"}}, {"MPI_OFFSET", {MPI_OFFSET, "i64"}},
      {"MPI_FLOAT_INT", {MPI_FLOAT_INT, "fi"}}, {"MPI_LONG_INT", {MPI_LONG_INT, "li"}}, {"MPI_DOUBLE_INT", {MPI_DOUBLE_INT, "di"}},
      {"MPI_SHORT_INT", {MPI_SHORT_INT, "si"}}, {"MPI_2INT", {MPI_2INT, "ii"}}, {"MPI_2FLOAT", {MPI_2FLOAT, "ff"}},
      {"MPI_2DOUBLE", {MPI_2DOUBLE, "dd"}}, {"MPI_2LONG", {MPI_2LONG, "ll"}}, {"MPI_REAL", {MPI_REAL, "f32"}}, {"MPI_REAL4", {MPI_REAL4, "f32"}},
      {"MPI_REAL8", {MPI_REAL8, "f64"}}, {"MPI_REAL16", {MPI_REAL16, "f80"}}, {"MPI_COMPLEX8", {MPI_COMPLEX8, "ff"}},
      {"MPI_COMPLEX16", {MPI_COMPLEX16, "dd"}}, {"MPI_COMPLEX32", {MPI_COMPLEX32, "LL"}}, {"MPI_INTEGER1", {MPI_INTEGER1, "i8"}},
      {"MPI_INTEGER2", {MPI_INTEGER2, "i16"}}, {"MPI_INTEGER4", {MPI_INTEGER4, "i32"}}, {"MPI_INTEGER8", {MPI_INTEGER8, "i64"}},
      {"MPI_INTEGER16", {MPI_INTEGER16, "ll"}}, {"MPI_LONG_DOUBLE_INT", {MPI_LONG_DOUBLE_INT, "ldi"}}, {"MPI_CXX_BOOL", {MPI_CXX_BOOL, "b"}},
      {"MPI_CXX_FLOAT_COMPLEX", {MPI_CXX_FLOAT_COMPLEX, "ff"}}, {"MPI_CXX_DOUBLE_COMPLEX", {MPI_CXX_DOUBLE_COMPLEX, "dd"}},
      {"MPI_CXX_LONG_DOUBLE_COMPLEX", {MPI_CXX_LONG_DOUBLE_COMPLEX, "LL"}}, {"MPI_COUNT", {MPI_COUNT, "i64"}},
      {"MPI_PACKED", {MPI_PACKED, "c"}}};
  std::map<std::string, MPI_Op> ops = {{"MPI_MAX", MPI_MAX}, {"MPI_MIN", MPI_MIN}, {"MPI_SUM", MPI_SUM}, {"MPI_PROD", MPI_PROD},
                                       {"MPI_LAND", MPI_LAND}, {"MPI_LOR", MPI_LOR}, {"MPI_LXOR", MPI_LXOR}, {"MPI_BAND", MPI_BAND},
                                       {"MPI_BOR", MPI_BOR}, {"MPI_BXOR", MPI_BXOR}, {"MPI_MAXLOC", MPI_MAXLOC}, {"MPI_MINLOC", MPI_MINLOC},
                                       {"MPI_REPLACE", MPI_REPLACE}, {"MPI_NO_OP", MPI_NO_OP}};
  FILE* f = fopen(argv[1], "r");
  if (!f) {
    fprintf(stderr, "cannot open %s\n", argv[1]);
    MPI_Abort(MPI_COMM_WORLD, 2);
  }
  static char line[1 << 16];
  int idx = -1;
  while (fgets(line, sizeof line, f)) {
    idx++;
    std::istringstream is(line);
    std::string opn, dtn;
    int n = 0;
    if (!(is >> opn >> dtn >> n))
      continue;
    std::vector<long long> v;
    long long x;
    while (is >> x)
      v.push_back(x);
    auto di = dts.find(dtn);
    auto oi = ops.find(opn);
    if (di == dts.end() || oi == ops.end() || (int)v.size() < 4 * n) {
      printf("%d U\n", idx);
      continue;
    }
    const std::string& k = di->second.k;
    std::vector<char> a(64 * (n + 1), 0), b(64 * (n + 1), 0);
    for (int j = 0; j < n; j++) {
      put(k, a.data(), j, v[2 * j], v[2 * j + 1]);
      put(k, b.data(), j, v[2 * n + 2 * j], v[2 * n + 2 * j + 1]);
    }
    fflush(stdout);
    int rc = PMPI_Reduce_local(a.data(), b.data(), n, di->second.h, oi->second);
    if (rc != MPI_SUCCESS) {
      printf("%d R\n", idx);
      continue;
    }
    printf("%d V", idx);
    for (int j = 0; j < n; j++) {
      long long rv, ri;
      get(k, b.data(), j, &rv, &ri);
      printf(" %lld %lld", rv, ri);
    }
    printf("\n");
  }
  fclose(f);
  fflush(stdout);
  MPI_Finalize();
  return 0;
}
