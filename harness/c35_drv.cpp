// C35: drive shift_and_frame_private_blocks / merge_private_blocks of the freshly built libsimgrid.
//   mode shift : off size n b1 e1 .. bn en       -> resulting blocks
//   mode merge : ns s.. nd d..                   -> resulting blocks
//   mode copied: soff doff size ns s.. nd d..    -> merge(shift(src), shift(dst)), as the copy callback computes it
#include "drv.hpp"
#include <smpi/smpi.h>
#include <cstring>
using blocks = std::vector<std::pair<size_t, size_t>>;
static blocks take(const std::vector<long long>& v, size_t& i)
{
  blocks b;
  long long n = v.at(i++);
  for (long long k = 0; k < n; k++) {
    b.emplace_back((size_t)v.at(i), (size_t)v.at(i + 1));
    i += 2;
  }
  return b;
}
static void out(const blocks& b)
{
  bool first = true;
  for (auto const& [x, y] : b) {
    printf("%s%zu %zu", first ? "" : " ", x, y);
    first = false;
  }
  printf("\n");
}
int main(int argc, char** argv)
{
  std::string mode = argc > 1 ? argv[1] : "shift";
  std::vector<long long> v;
  while (drv::next_case(v)) {
    size_t i = 0;
    if (mode == "shift") {
      size_t off = v.at(0), size = v.at(1);
      i = 2;
      out(shift_and_frame_private_blocks(take(v, i), off, size));
    } else if (mode == "merge") {
      blocks s = take(v, i);
      blocks d = take(v, i);
      out(merge_private_blocks(s, d));
    } else {
      size_t soff = v.at(0), doff = v.at(1), size = v.at(2);
      i = 3;
      blocks s = take(v, i);
      blocks d = take(v, i);
      out(merge_private_blocks(shift_and_frame_private_blocks(s, soff, size),
                               shift_and_frame_private_blocks(d, doff, size)));
    }
  }
  return 0;
}
