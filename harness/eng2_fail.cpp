// C10: run a small communicating program on a C++-built platform, optionally turning one host or link off at a
// given date, and print what every actor observed.  One process = one run.  Input: one line of integers
//   nf (fk fid T)*nf H LAT TOPO A  then per actor:  host nops (code x y)*
//   nf control actions in date order: fk 1 = host fid off, 2 = link fid off, 3 = suspend actor fid, 4 = resume actor fid;
//   T = date (bit pattern of the double); H hosts (+ a control host); LAT = latency of every link, in ticks of 2^-12 s;
//   TOPO 0 = one link per host pair, 1 = plus a backbone link (id = number of pairs) that every route also crosses
//   ops: 1 mb dur  put on mailbox mb, dur*256 bytes (1 MiB/s links: dur ticks) | 2 mb 0  get | 3 dur 0  exec on own host
//        4 dur 0  sleep | 5 h dur  exec on host h (waited from here)
// Links: one per host pair i<j, id = rank in lexicographic order; route i<->j = that link (+ the backbone). CM02.
// Output (one line): S i k date (op k of actor i starts) | D i k date (done) | E i k date kind (1 NetworkFailure,
//   2 HostFailure, 3 other simgrid exception) | X i date failed (on_exit) | F date, then the kernel's view right before
//   the resource goes off: W i kind src dst susp nl links.. (kind 0 not blocked, 1 sleep, 2 exec, 3 comm not matched,
//   4 comm matched/running; src/dst = hosts of the activity; susp = the actor is suspended) | U i date (actor i
//   suspended by the control actor) | R i date (resumed) | L date (deadlock) + B i kind src dst susp nl links.. | T date
#include "drv.hpp"
#include <array>
#include <cstdarg>
#include <cstring>
#include <map>
#include <simgrid/s4u.hpp>
#include <simgrid/Exception.hpp>
#define private public
#define protected public
#include "src/kernel/EngineImpl.hpp"
#include "src/kernel/activity/CommImpl.hpp"
#include "src/kernel/activity/ExecImpl.hpp"
#include "src/kernel/activity/SleepImpl.hpp"
#include "src/kernel/actor/ActorImpl.hpp"
#undef private
#undef protected
#include <simgrid/Exception.hpp>
#include <simgrid/s4u.hpp>
namespace sg4 = simgrid::s4u;
namespace ka  = simgrid::kernel::activity;

static std::string out;
static std::vector<sg4::Host*> hosts;
static std::vector<sg4::Link*> links;
static std::vector<simgrid::kernel::actor::ActorImpl*> impls;
static std::vector<sg4::ActorPtr> keep;
static void put(const char* fmt, ...)
{
  char buf[256];
  va_list ap;
  va_start(ap, fmt);
  vsnprintf(buf, sizeof buf, fmt, ap);
  va_end(ap);
  out += buf;
}
static int host_id(const sg4::Host* h)
{
  for (size_t i = 0; i < hosts.size(); i++)
    if (hosts[i] == h)
      return (int)i;
  return -1;
}
static void describe(const char* tag)
{
  for (size_t i = 0; i < impls.size(); i++) {
    auto* a = impls[i];
    int susp = a != nullptr && a->is_suspended() ? 1 : 0;
    if (a == nullptr || a->wannadie() || a->waiting_synchros_.empty()) {
      put("%s %zu 0 -1 -1 %d 0 ", tag, i, susp);
      continue;
    }
    auto* act = a->waiting_synchros_.front().get();
    if (auto* c = dynamic_cast<ka::CommImpl*>(act)) {
      bool running = c->get_state() == ka::State::RUNNING || c->get_state() == ka::State::READY;
      if (!running) {
        put("%s %zu 3 -1 -1 %d 0 ", tag, i, susp);
      } else {
        auto ls = c->get_traversed_links();
        put("%s %zu 4 %d %d %d %zu ", tag, i, host_id(c->get_source()), host_id(c->get_destination()), susp, ls.size());
        for (auto* l : ls)
          for (size_t k = 0; k < links.size(); k++)
            if (links[k] == l)
              put("%zu ", k);
      }
    } else if (auto* e = dynamic_cast<ka::ExecImpl*>(act)) {
      put("%s %zu 2 %d -1 %d 0 ", tag, i, host_id(e->get_host()), susp);
    } else if (auto* s = dynamic_cast<ka::SleepImpl*>(act)) {
      put("%s %zu 1 %d -1 %d 0 ", tag, i, host_id(a->get_host()), susp);
    } else {
      put("%s %zu 0 -1 -1 %d 0 ", tag, i, susp);
    }
  }
}

int main(int argc, char** argv)
{
  std::vector<long long> v;
  if (!drv::next_case(v) || v.size() < 3)
    return 3;
  std::vector<std::string> args = {"eng2_fail", "--log=root.thres:critical", "--cfg=network/model:CM02",
                                   "--cfg=network/crosstraffic:0", "--cfg=network/TCP-gamma:0"};
  std::vector<char*> cargv;
  for (auto& s : args)
    cargv.push_back(s.data());
  int cargc = (int)cargv.size();
  sg4::Engine e(&cargc, cargv.data());
  const double SP = 1048576.0, tick = 1.0 / 4096;
  int nf = (int)v[0];
  std::vector<std::array<long long, 3>> faults;
  for (int i = 0; i < nf; i++)
    faults.push_back({v.at(1 + 3 * i), v.at(2 + 3 * i), v.at(3 + 3 * i)});
  int H = (int)v.at(1 + 3 * nf), LAT = (int)v.at(2 + 3 * nf), TOPO = (int)v.at(3 + 3 * nf), A = (int)v.at(4 + 3 * nf);
  auto* zone = e.get_netzone_root()->add_netzone_full("z");
  for (int i = 0; i < H; i++)
    hosts.push_back(zone->add_host("h" + std::to_string(i), SP));
  auto* ctl = zone->add_host("ctl", SP);
  sg4::Link* bb = TOPO == 1 ? zone->add_link("bb", SP)->set_latency(LAT * tick) : nullptr;
  for (int i = 0; i < H; i++)
    for (int j = i + 1; j < H; j++) {
      auto* l = zone->add_link("l" + std::to_string(i) + "_" + std::to_string(j), SP)->set_latency(LAT * tick);
      links.push_back(l);
      if (bb != nullptr)
        zone->add_route(hosts[i], hosts[j], std::vector<const sg4::Link*>{l, bb});
      else
        zone->add_route(hosts[i], hosts[j], {l});
    }
  if (bb != nullptr)
    links.push_back(bb);
  zone->seal();
  e.get_netzone_root()->seal();

  size_t p = 5 + 3 * nf;
  impls.assign(A, nullptr);
  for (int i = 0; i < A; i++) {
    int h    = (int)v.at(p);
    int nops = (int)v.at(p + 1);
    std::vector<std::array<long long, 3>> ops;
    for (int k = 0; k < nops; k++)
      ops.push_back({v.at(p + 2 + 3 * k), v.at(p + 3 + 3 * k), v.at(p + 4 + 3 * k)});
    p += 2 + 3 * nops;
    auto actor = hosts.at(h)->add_actor("a" + std::to_string(i), [i, ops, tick, SP]() {
      sg4::this_actor::on_exit([i](bool failed) { put("X %d %a %d ", i, sg4::Engine::get_clock(), failed ? 1 : 0); });
      static int payload = 0;
      for (size_t k = 0; k < ops.size(); k++) {
        auto const& o = ops[k];
        put("S %d %zu %a ", i, k, sg4::Engine::get_clock());
        try {
          switch (o[0]) {
            case 1: sg4::Mailbox::by_name("m" + std::to_string(o[1]))->put(&payload, (uint64_t)(o[2] * 256)); break;
            case 2: sg4::Mailbox::by_name("m" + std::to_string(o[1]))->get<int>(); break;
            case 3: sg4::this_actor::execute((double)o[1] * tick * SP); break;
            case 4: sg4::this_actor::sleep_for((double)o[1] * tick); break;
            default: sg4::this_actor::exec_init((double)o[2] * tick * SP)->set_host(hosts.at(o[1]))->wait();
          }
          put("D %d %zu %a ", i, k, sg4::Engine::get_clock());
        } catch (const simgrid::NetworkFailureException&) {
          put("E %d %zu %a 1 ", i, k, sg4::Engine::get_clock());
        } catch (const simgrid::HostFailureException&) {
          put("E %d %zu %a 2 ", i, k, sg4::Engine::get_clock());
        } catch (const simgrid::Exception&) {
          put("E %d %zu %a 3 ", i, k, sg4::Engine::get_clock());
        }
      }
    });
    impls[i] = actor->get_impl();
    keep.push_back(actor);
  }
  if (nf != 0) {
    ctl->add_actor("ctl", [faults, tick]() {
      for (auto const& f : faults) {
        double T;
        long long bits = f[2];
        memcpy(&T, &bits, sizeof T); // the date is passed as the bit pattern of a double
        sg4::this_actor::sleep_until(T);
        long long fk = f[0], fid = f[1];
        if (fk == 3 || fk == 4) {
          auto const* im = impls.at(fid);
          if (im->wannadie() || im->to_be_freed())
            continue; // that actor is gone
          put("%s %lld %a ", fk == 3 ? "U" : "R", fid, sg4::Engine::get_clock());
          if (fk == 3)
            keep.at(fid)->suspend();
          else
            keep.at(fid)->resume();
          continue;
        }
        simgrid::kernel::actor::simcall_answered([fk, fid] {
          put("F %a ", sg4::Engine::get_clock());
          describe("W");
          if (fk == 1)
            hosts.at(fid)->turn_off();
          else
            links.at(fid)->turn_off();
        });
      }
    })->daemonize();
  }
  sg4::Engine::on_deadlock_cb([]() {
    put("L %a ", sg4::Engine::get_clock());
    describe("B");
  });
  e.run();
  put("T %a", sg4::Engine::get_clock());
  puts(out.c_str());
  fflush(stdout);
  _exit(0);
}
