// C20: one isolated activity on a platform built through the C++ API, under a given configuration.
// One case per input line, one observation per output line ("%.17g" duration, or "ERR <what>").
// Every case runs in a forked child (the Engine is a process-wide singleton).
//   exec  <cores> <speed> <flops> <threads>
//   sleep <speed> <duration>
//   io    <read_bw> <write_bw> <R|W> <size>
//   ptask <n> {<speed> <cores> <flops>}*n
//   comm  <model> <crosstraffic 0|1|d> <gamma|d> <size> <nf> {<bw> <lat> <S|F|D> <inback 0|1>}*nf <nb> {<bw> <lat> <S|F>}*nb
//         forward route = the nf links in order; back route = the back-only links followed by the forward links flagged
//         inback in reverse order (D = split-duplex: forward takes UP, backward takes DOWN). "d" = leave the model default.
#include "drv.hpp"
#include <simgrid/s4u.hpp>
#include <sys/wait.h>
#include <unistd.h>
#include <cstring>
namespace sg4 = simgrid::s4u;

static double num(const std::string& s)
{
  return strtod(s.c_str(), nullptr);
}

static void run_case(const std::vector<std::string>& t)
{
  std::vector<std::string> args = {"res_c20", "--log=root.thres:critical"};
  const std::string& kind       = t.at(0);
  if (kind == "ptask")
    args.push_back("--cfg=host/model:ptask_L07");
  if (kind == "comm") {
    args.push_back("--cfg=network/model:" + t.at(1));
    if (t.at(2) != "d")
      args.push_back("--cfg=network/crosstraffic:" + t.at(2));
    if (t.at(3) != "d")
      args.push_back("--cfg=network/TCP-gamma:" + t.at(3));
  }
  std::vector<char*> argv;
  for (auto& a : args)
    argv.push_back(const_cast<char*>(a.c_str()));
  argv.push_back(nullptr);
  int argc = (int)args.size();
  auto& e    = *new sg4::Engine(&argc, argv.data()); // never destroyed: the child _exit()s
  auto* zone = e.get_netzone_root();
  double res = -1;

  if (kind == "exec") {
    auto* h        = zone->add_host("h", num(t.at(2)))->set_core_count((int)num(t.at(1)));
    double flops   = num(t.at(3));
    int threads    = (int)num(t.at(4));
    zone->seal();
    h->add_actor("a", [&res, flops, threads, h]() {
      double t0 = sg4::Engine::get_clock();
      if (threads == 1)
        sg4::this_actor::execute(flops);
      else
        sg4::this_actor::thread_execute(h, flops, threads);
      res = sg4::Engine::get_clock() - t0;
    });
  } else if (kind == "sleep") {
    auto* h  = zone->add_host("h", num(t.at(1)));
    double d = num(t.at(2));
    zone->seal();
    h->add_actor("a", [&res, d]() {
      double t0 = sg4::Engine::get_clock();
      sg4::this_actor::sleep_for(d);
      res = sg4::Engine::get_clock() - t0;
    });
  } else if (kind == "io") {
    auto* h    = zone->add_host("h", 1e9);
    auto* disk = h->add_disk("d", num(t.at(1)), num(t.at(2)));
    bool rd    = t.at(3) == "R";
    auto size  = (sg_size_t)strtoull(t.at(4).c_str(), nullptr, 10);
    zone->seal();
    h->add_actor("a", [&res, disk, rd, size]() {
      double t0 = sg4::Engine::get_clock();
      if (rd)
        disk->read(size);
      else
        disk->write(size);
      res = sg4::Engine::get_clock() - t0;
    });
  } else if (kind == "ptask") {
    int n = (int)num(t.at(1));
    std::vector<sg4::Host*> hosts;
    std::vector<double> flops;
    for (int i = 0; i < n; i++) {
      hosts.push_back(
          zone->add_host("h" + std::to_string(i), num(t.at(2 + 3 * i)))->set_core_count((int)num(t.at(3 + 3 * i))));
      flops.push_back(num(t.at(4 + 3 * i)));
    }
    zone->seal();
    hosts[0]->add_actor("a", [&res, hosts, flops]() {
      double t0 = sg4::Engine::get_clock();
      sg4::this_actor::parallel_execute(hosts, flops, std::vector<double>());
      res = sg4::Engine::get_clock() - t0;
    });
  } else if (kind == "comm") {
    auto* a = zone->add_host("a", 1e9);
    auto* b = zone->add_host("b", 1e9);
    auto size = (uint64_t)strtoull(t.at(4).c_str(), nullptr, 10);
    int nf    = (int)num(t.at(5));
    std::vector<sg4::LinkInRoute> fwd, back_tail;
    size_t p = 6;
    for (int i = 0; i < nf; i++, p += 4) {
      double bw = num(t.at(p)), lat = num(t.at(p + 1));
      const std::string& pol = t.at(p + 2);
      bool inback            = t.at(p + 3) == "1";
      std::string name       = "f" + std::to_string(i);
      if (pol == "D") {
        auto* l = zone->add_split_duplex_link(name, bw);
        l->set_latency(lat);
        fwd.emplace_back(l, sg4::LinkInRoute::Direction::UP);
        if (inback)
          back_tail.insert(back_tail.begin(), sg4::LinkInRoute(l, sg4::LinkInRoute::Direction::DOWN));
      } else {
        auto* l = zone->add_link(name, bw)->set_latency(lat);
        if (pol == "F")
          l->set_sharing_policy(sg4::Link::SharingPolicy::FATPIPE);
        fwd.emplace_back(l);
        if (inback)
          back_tail.insert(back_tail.begin(), sg4::LinkInRoute(l));
      }
    }
    int nb = (int)num(t.at(p++));
    std::vector<sg4::LinkInRoute> back;
    for (int i = 0; i < nb; i++, p += 3) {
      auto* l = zone->add_link("b" + std::to_string(i), num(t.at(p)))->set_latency(num(t.at(p + 1)));
      if (t.at(p + 2) == "F")
        l->set_sharing_policy(sg4::Link::SharingPolicy::FATPIPE);
      back.emplace_back(l);
    }
    back.insert(back.end(), back_tail.begin(), back_tail.end());
    zone->add_route(a, b, fwd, false);
    if (not back.empty()) // (mandatory when cross-traffic is on)
      zone->add_route(b, a, back, false);
    zone->seal();
    a->add_actor("s", [&res, a, b, size]() {
      double t0 = sg4::Engine::get_clock();
      sg4::Comm::sendto(a, b, size);
      res = sg4::Engine::get_clock() - t0;
    });
  } else {
    printf("ERR unknown-kind\n");
    return;
  }
  e.run();
  printf("%.17g\n", res);
}

int main()
{
  std::vector<std::string> t;
  while (drv::next_tokens(t)) {
    fflush(stdout);
    pid_t pid = fork();
    if (pid == 0) {
      try {
        run_case(t);
      } catch (std::exception const& ex) {
        printf("ERR exception %s\n", ex.what());
      }
      fflush(stdout);
      _exit(0);
    }
    int st = 0;
    waitpid(pid, &st, 0);
    if (not WIFEXITED(st) || WEXITSTATUS(st) != 0) {
      printf("ERR crash status=%d\n", st);
      fflush(stdout);
    }
  }
  return 0;
}
