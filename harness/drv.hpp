// Common helpers for the line-oriented drivers: one case per input line, one observation per output line.
#pragma once
#include <cstdint>
#include <cstdio>
#include <iostream>
#include <sstream>
#include <string>
#include <vector>

namespace drv {
inline bool next_case(std::vector<long long>& v)
{
  std::string line;
  if (!std::getline(std::cin, line))
    return false;
  v.clear();
  std::istringstream is(line);
  long long x;
  while (is >> x)
    v.push_back(x);
  return true;
}
inline bool next_tokens(std::vector<std::string>& v)
{
  std::string line;
  if (!std::getline(std::cin, line))
    return false;
  v.clear();
  std::istringstream is(line);
  std::string x;
  while (is >> x)
    v.push_back(x);
  return true;
}
} // namespace drv
