// mc1 driver: exercises the model checker's pure data structures of the freshly built libsimgrid with REAL transitions.
//
//   mode exec   (C42): one case per line:  churn n  (kind aid f1 f2 f3 f4 f5){n}
//        pushes the n transitions into a real odpor::Execution (with push/remove_last_event churn when churn > 0) and
//        prints:  n  dep[n*n]  hb[n*n]  (k e_1..e_k){n}
//        dep[a][b] (a<b) = T_a->dispatch_depends(T_b)  exactly what push_transition evaluates; hb = happens_before(a,b);
//        then get_racing_events_of(t) for each t.
//   mode unfold (C44): one case per line:
//        n (kind aid f1..f5 nc c_1..c_nc){n}  m S_1..S_m  kmax ksub  nv size_1..size_nv
//        builds n UnfoldingEvents (event i has the given real transition and immediate causes c_j < i), takes the
//        EventSet S and prints
//          dep[n*n] conflicts_with[n*n]  |closure| closure  |maximal| maximal  |seq| History-iteration-sequence
//          is_valid_configuration is_conflict_free is_maximal Configuration-ctor-accepts
//          |topo| topological-ordering(S) (or -1 when it throws)
//          #sets (size ids){#}      maximal_subsets_iterator(S, nullopt, kmax<0 ? nullopt : kmax)
//          #sets (positions){#}     subsets_iterator(ksub) over the vector of S (sorted by id)
//          #sets (size positions)*  powerset_iterator over the same vector (only when m <= 10, else -1)
//          #tuples (positions)*     variable_for_loop over nv vectors of the given sizes
//
// transition kinds (the integer codes are private to this driver and checks/C4x.py):
//   0 RANDOM(min,max) 1 ACTOR_JOIN(target,timeout) 2 ACTOR_SLEEP 3 ACTOR_CREATE(child) 4 ACTOR_EXIT
//   5 BARRIER_ASYNC_LOCK(bar) 6 BARRIER_WAIT(bar)
//   7 COMM_ASYNC_RECV(comm,mbox,tag) 8 COMM_ASYNC_SEND(comm,mbox,tag) 9 COMM_IPROBE(is_sender,mbox,tag)
//   10 COMM_TEST(comm,sender,receiver,mbox) 11 COMM_WAIT(timeout,comm,sender,receiver,mbox)
//   12..16 MUTEX_ASYNC_LOCK/TEST/TRYLOCK/UNLOCK/WAIT(mutex,owner)
//   17..19 SEM_ASYNC_LOCK/UNLOCK/WAIT(sem,granted,capacity)
//   20 CONDVAR_ASYNC_LOCK(cv,mutex) 21 CONDVAR_BROADCAST(cv) 22 CONDVAR_SIGNAL(cv) 23 CONDVAR_WAIT(cv,mutex,granted,timeout)
#include "drv.hpp"
#include <algorithm>
#include <cstring>
#include <functional>
#include <list>
#include <map>
#include <memory>
#include <set>
#include <stdexcept>
#include <unordered_set>

#include "src/mc/api/ClockVector.hpp"
#include "src/mc/explo/odpor/Execution.hpp"
#include "src/mc/explo/udpor/Configuration.hpp"
#include "src/mc/explo/udpor/EventSet.hpp"
#include "src/mc/explo/udpor/History.hpp"
#include "src/mc/explo/udpor/Unfolding.hpp"
#include "src/mc/explo/udpor/UnfoldingEvent.hpp"
#include "src/mc/explo/udpor/maximal_subsets_iterator.hpp"
#include "src/mc/remote/Channel.hpp"
#include "src/mc/transition/Transition.hpp"
#include "src/mc/transition/TransitionActor.hpp"
#include "src/mc/transition/TransitionAny.hpp"
#include "src/mc/transition/TransitionComm.hpp"
#include "src/mc/transition/TransitionRandom.hpp"
#include "src/mc/transition/TransitionSynchro.hpp"
#include "src/xbt/utils/iter/powerset.hpp"
#include "src/xbt/utils/iter/subsets.hpp"
#include "src/xbt/utils/iter/variable_for_loop.hpp"

using namespace simgrid::mc;
using LL = long long;

// A Channel whose input buffer is filled by hand: the deserialising constructors are the only public way to build the
// synchro/actor transitions.
struct Feed {
  std::string bytes;
  template <class T> void put(T v) { bytes.append(reinterpret_cast<const char*>(&v), sizeof(T)); }
  void put_string(const std::string& s)
  {
    put<unsigned short>((unsigned short)s.size());
    bytes.append(s.c_str(), s.size() + 1);
  }
};

static Aid mkaid(LL v)
{
  return v < 0 ? Aid::INVALID : Aid{(int)v};
}

static TransitionPtr make_transition(LL kind, LL aid, const LL* f)
{
  using T = Transition::Type;
  Aid a   = mkaid(aid);
  Feed fd;
  auto with_channel = [&](std::function<Transition*(Channel&)> mk) {
    Channel ch;
    if (not fd.bytes.empty())
      ch.reinject(fd.bytes.data(), fd.bytes.size());
    return TransitionPtr(mk(ch));
  };
  switch (kind) {
    case 0:
      fd.put<int>((int)f[0]);
      fd.put<int>((int)f[1]);
      return with_channel([&](Channel& ch) { return new RandomTransition(a, 0, ch); });
    case 1:
      fd.put<aid_t>((aid_t)f[0]);
      fd.put<bool>(f[1] != 0);
      return with_channel([&](Channel& ch) { return new ActorJoinTransition(a, 0, ch); });
    case 2:
      return with_channel([&](Channel& ch) { return new ActorSleepTransition(a, 0, ch); });
    case 3:
      fd.put<aid_t>((aid_t)f[0]);
      return with_channel([&](Channel& ch) { return new ActorCreateTransition(a, 0, ch); });
    case 4:
      return with_channel([&](Channel& ch) { return new ActorExitTransition(a, 0, ch); });
    case 5:
    case 6:
      fd.put<unsigned>((unsigned)f[0]);
      return with_channel(
          [&](Channel& ch) { return new BarrierTransition(a, 0, kind == 5 ? T::BARRIER_ASYNC_LOCK : T::BARRIER_WAIT, ch); });
    case 7:
      return TransitionPtr(new CommRecvTransition(a, 0, (unsigned)f[0], (unsigned)f[1], (int)f[2]));
    case 8:
      return TransitionPtr(new CommSendTransition(a, 0, (unsigned)f[0], (unsigned)f[1], (int)f[2]));
    case 9:
      return TransitionPtr(new CommIprobeTransition(a, 0, f[0] != 0, (unsigned)f[1], (int)f[2]));
    case 10:
      return TransitionPtr(new CommTestTransition(a, 0, (unsigned)f[0], mkaid(f[1]), mkaid(f[2]), (unsigned)f[3]));
    case 11:
      return TransitionPtr(
          new CommWaitTransition(a, 0, f[0] != 0, (unsigned)f[1], mkaid(f[2]), mkaid(f[3]), (unsigned)f[4]));
    case 12:
    case 13:
    case 14:
    case 15:
    case 16: {
      static const T tt[] = {T::MUTEX_ASYNC_LOCK, T::MUTEX_TEST, T::MUTEX_TRYLOCK, T::MUTEX_UNLOCK, T::MUTEX_WAIT};
      fd.put<unsigned>((unsigned)f[0]);
      fd.put<aid_t>((aid_t)f[1]);
      return with_channel([&](Channel& ch) { return new MutexTransition(a, 0, tt[kind - 12], ch); });
    }
    case 17:
    case 18:
    case 19: {
      static const T tt[] = {T::SEM_ASYNC_LOCK, T::SEM_UNLOCK, T::SEM_WAIT};
      fd.put<unsigned>((unsigned)f[0]);
      fd.put<bool>(f[1] != 0);
      fd.put<int>((int)f[2]);
      return with_channel([&](Channel& ch) { return new SemaphoreTransition(a, 0, tt[kind - 17], ch); });
    }
    case 20:
      fd.put<unsigned>((unsigned)f[0]);
      fd.put<unsigned>((unsigned)f[1]);
      return with_channel([&](Channel& ch) { return new CondvarTransition(a, 0, T::CONDVAR_ASYNC_LOCK, ch); });
    case 21:
    case 22:
      fd.put<unsigned>((unsigned)f[0]);
      return with_channel([&](Channel& ch) {
        return new CondvarTransition(a, 0, kind == 21 ? T::CONDVAR_BROADCAST : T::CONDVAR_SIGNAL, ch);
      });
    case 23:
      fd.put<unsigned>((unsigned)f[0]);
      fd.put<unsigned>((unsigned)f[1]);
      fd.put<bool>(f[2] != 0);
      fd.put<bool>(f[3] != 0);
      return with_channel([&](Channel& ch) { return new CondvarTransition(a, 0, T::CONDVAR_WAIT, ch); });
    default:
      throw std::invalid_argument("unknown transition kind");
  }
}

static std::vector<TransitionPtr> read_transitions(const std::vector<LL>& v, size_t& i, size_t n)
{
  std::vector<TransitionPtr> ts;
  for (size_t k = 0; k < n; k++) {
    ts.push_back(make_transition(v.at(i), v.at(i + 1), &v.at(i + 2)));
    i += 7;
  }
  return ts;
}

// ------------------------------------------------------------------------------------------------------ C42
static void mode_exec()
{
  std::vector<LL> v;
  while (drv::next_case(v)) {
    size_t i       = 0;
    LL churn       = v.at(i++);
    size_t n       = (size_t)v.at(i++);
    auto ts        = read_transitions(v, i, n);
    odpor::Execution E;
    for (size_t k = 0; k < n; k++) {
      if (churn > 0 && k % churn == (size_t)churn - 1) {
        // record a transition that is then backtracked: the final execution must not depend on it
        E.push_transition(ts[(k * 7 + 3) % n]);
        if (k % 2 == 0 && k + 1 < n) {
          E.push_transition(ts[(k * 5 + 1) % n]);
          E.remove_last_event();
        }
        E.remove_last_event();
      }
      E.push_transition(ts[k]);
    }
    std::string out = std::to_string(n);
    for (size_t a = 0; a < n; a++)
      for (size_t b = 0; b < n; b++)
        out += (a < b && ts[a]->dispatch_depends(ts[b].get())) ? " 1" : " 0";
    for (size_t a = 0; a < n; a++)
      for (size_t b = 0; b < n; b++)
        out += E.happens_before(a, b) ? " 1" : " 0";
    for (size_t t = 0; t < n; t++) {
      auto r = E.get_racing_events_of(t);
      out += " " + std::to_string(r.size());
      for (auto e : r)
        out += " " + std::to_string(e);
    }
    puts(out.c_str());
    fflush(stdout);
  }
}

// ------------------------------------------------------------------------------------------------------ C44
static void put_ids(std::string& out, std::vector<LL> ids, bool sorted = true)
{
  if (sorted)
    std::sort(ids.begin(), ids.end());
  out += " " + std::to_string(ids.size());
  for (auto i : ids)
    out += " " + std::to_string(i);
}

static void mode_unfold()
{
  using namespace simgrid::mc::udpor;
  std::vector<LL> v;
  while (drv::next_case(v)) {
    size_t i = 0;
    size_t n = (size_t)v.at(i++);
    std::vector<std::unique_ptr<UnfoldingEvent>> ev;
    std::map<const UnfoldingEvent*, LL> idx;
    for (size_t e = 0; e < n; e++) {
      TransitionPtr t = make_transition(v.at(i), v.at(i + 1), &v.at(i + 2));
      i += 7;
      size_t nc = (size_t)v.at(i++);
      EventSet causes;
      for (size_t c = 0; c < nc; c++)
        causes.insert(ev.at((size_t)v.at(i++)).get());
      ev.push_back(std::make_unique<UnfoldingEvent>(causes, t));
      idx[ev.back().get()] = (LL)e;
    }
    size_t m = (size_t)v.at(i++);
    EventSet S;
    std::vector<const UnfoldingEvent*> Svec;
    for (size_t k = 0; k < m; k++) {
      const UnfoldingEvent* e = ev.at((size_t)v.at(i++)).get();
      S.insert(e);
      Svec.push_back(e);
    }
    std::sort(Svec.begin(), Svec.end(), [&](auto a, auto b) { return idx[a] < idx[b]; });
    LL kmax    = v.at(i++);
    size_t ksub = (size_t)v.at(i++);
    size_t nv   = (size_t)v.at(i++);
    std::vector<std::vector<int>> colls;
    for (size_t k = 0; k < nv; k++)
      colls.emplace_back((size_t)v.at(i++), 0);

    auto ids_of = [&](const EventSet& s) {
      std::vector<LL> r;
      for (const auto* e : s)
        r.push_back(idx.at(e));
      return r;
    };
    std::string out;
    for (size_t a = 0; a < n; a++)
      for (size_t b = 0; b < n; b++)
        out += ev[a]->is_dependent_with(ev[b].get()) ? " 1" : " 0";
    for (size_t a = 0; a < n; a++)
      for (size_t b = 0; b < n; b++)
        out += ev[a]->conflicts_with(ev[b].get()) ? " 1" : " 0";
    const History hist(S);
    put_ids(out, ids_of(hist.get_all_events()));
    put_ids(out, ids_of(S.get_largest_maximal_subset()));
    {
      std::vector<LL> seq;
      for (auto it = hist.begin(); it != hist.end(); ++it)
        seq.push_back(idx.at(*it));
      put_ids(out, seq, false);
    }
    out += S.is_valid_configuration() ? " 1" : " 0";
    out += S.is_conflict_free() ? " 1" : " 0";
    out += S.is_maximal() ? " 1" : " 0";
    try {
      Configuration C(S);
      out += " 1";
    } catch (const std::invalid_argument&) {
      out += " 0";
    }
    try {
      std::vector<LL> topo;
      for (const auto* e : S.get_topological_ordering())
        topo.push_back(idx.at(e));
      put_ids(out, topo, false);
    } catch (const std::invalid_argument&) {
      out += " -1";
    }
    {
      std::string sets;
      size_t count = 0;
      maximal_subsets_iterator it(S, std::nullopt,
                                  kmax < 0 ? std::nullopt : std::optional<size_t>{(size_t)kmax});
      const maximal_subsets_iterator end;
      for (; it != end; ++it) {
        put_ids(sets, ids_of(*it));
        if (++count > 200000)
          break;
      }
      out += " " + std::to_string(count) + sets;
    }
    {
      using It = std::vector<const UnfoldingEvent*>::const_iterator;
      std::string sets;
      size_t count = 0;
      simgrid::xbt::subsets_iterator<It> it(ksub, Svec.cbegin(), Svec.cend());
      const simgrid::xbt::subsets_iterator<It> end(ksub);
      for (; it != end; ++it) {
        for (const auto& p : *it)
          sets += " " + std::to_string(p - Svec.cbegin());
        if (++count > 200000)
          break;
      }
      out += " " + std::to_string(count) + sets;
      if (m <= 10) {
        sets.clear();
        count = 0;
        simgrid::xbt::powerset_iterator<It> pit(Svec.cbegin(), Svec.cend());
        const simgrid::xbt::powerset_iterator<It> pend;
        for (; pit != pend; ++pit) {
          sets += " " + std::to_string((*pit).size());
          for (const auto& p : *pit)
            sets += " " + std::to_string(p - Svec.cbegin());
          if (++count > 200000)
            break;
        }
        out += " " + std::to_string(count) + sets;
      } else
        out += " -1";
    }
    {
      using Coll = const std::vector<int>;
      std::vector<std::reference_wrapper<Coll>> refs;
      for (auto const& c : colls)
        refs.emplace_back(c);
      std::string sets;
      size_t count = 0;
      simgrid::xbt::variable_for_loop<Coll> it(refs);
      const simgrid::xbt::variable_for_loop<Coll> end;
      for (; it != end; ++it) {
        for (size_t k = 0; k < (*it).size(); k++)
          sets += " " + std::to_string((*it)[k] - colls[k].cbegin());
        if (++count > 200000)
          break;
      }
      out += " " + std::to_string(count) + sets;
    }
    puts(out.c_str() + 1);
    fflush(stdout);
  }
}

int main(int argc, char** argv)
{
  std::string mode = argc > 1 ? argv[1] : "exec";
  if (mode == "exec")
    mode_exec();
  else if (mode == "unfold")
    mode_unfold();
  else {
    fprintf(stderr, "unknown mode %s\n", mode.c_str());
    return 3;
  }
  return 0;
}
