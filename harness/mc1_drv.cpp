// mc1 driver: exercises the model checker's pure data structures of the freshly built libsimgrid with REAL transitions.
//
//   mode exec   (C42): one case per line:  churn n  (kind aid f1 f2 f3 f4 f5){n}
//        pushes the n transitions into a real odpor::Execution (with push/remove_last_event churn when churn > 0) and
//        prints:  n  dep[n*n]  hb[n*n]  (k e_1..e_k){n}
//        dep[a][b] (a<b) = T_a->dispatch_depends(T_b)  exactly what push_transition evaluates; hb = happens_before(a,b);
//        then get_racing_events_of(t) for each t.
//   mode unfold (C44): see below.
//
// transition kinds (the integer codes are private to this driver and checks/C4x.py):
//   0 RANDOM(min,max) 1 ACTOR_JOIN(target,timeout) 2 ACTOR_SLEEP 3 ACTOR_CREATE(child) 4 ACTOR_EXIT
//   5 BARRIER_ASYNC_LOCK(bar) 6 BARRIER_WAIT(bar)
//   7 COMM_ASYNC_RECV(comm,mbox,tag) 8 COMM_ASYNC_SEND(comm,mbox,tag) 9 COMM_IPROBE(is_sender,mbox,tag)
//   10 COMM_TEST(comm,sender,receiver,mbox) 11 COMM_WAIT(timeout,comm,sender,receiver,mbox)
//   12..16 MUTEX_ASYNC_LOCK/TEST/TRYLOCK/UNLOCK/WAIT(mutex,owner)
//   17..19 SEM_ASYNC_LOCK/UNLOCK/WAIT(sem,granted,capacity)
//   20 CONDVAR_ASYNC_LOCK(cv,mutex) 21 CONDVAR_BROADCAST(cv) 22 CONDVAR_SIGNAL(cv) 23 CONDVAR_WAIT(cv,mutex,granted,timeout)
#include "drv.hpp"
#include <algorithm>
#include <cstring>
#include <functional>
#include <list>
#include <map>
#include <memory>
#include <set>
#include <stdexcept>
#include <unordered_set>

#include "src/mc/api/ClockVector.hpp"
#include "src/mc/explo/odpor/Execution.hpp"
#include "src/mc/explo/udpor/Configuration.hpp"
#include "src/mc/explo/udpor/EventSet.hpp"
#include "src/mc/explo/udpor/History.hpp"
#include "src/mc/explo/udpor/Unfolding.hpp"
#include "src/mc/explo/udpor/UnfoldingEvent.hpp"
#include "src/mc/explo/udpor/maximal_subsets_iterator.hpp"
#include "src/mc/remote/Channel.hpp"
#include "src/mc/transition/Transition.hpp"
#include "src/mc/transition/TransitionActor.hpp"
#include "src/mc/transition/TransitionAny.hpp"
#include "src/mc/transition/TransitionComm.hpp"
#include "src/mc/transition/TransitionRandom.hpp"
#include "src/mc/transition/TransitionSynchro.hpp"
#include "src/xbt/utils/iter/powerset.hpp"
#include "src/xbt/utils/iter/subsets.hpp"
#include "src/xbt/utils/iter/variable_for_loop.hpp"

using namespace simgrid::mc;
using LL = long long;

// A Channel whose input buffer is filled by hand: the deserialising constructors are the only public way to build the
// synchro/actor transitions.
struct Feed {
  std::string bytes;
  template <class T> void put(T v) { bytes.append(reinterpret_cast<const char*>(&v), sizeof(T)); }
  void put_string(const std::string& s)
  {
    put<unsigned short>((unsigned short)s.size());
    bytes.append(s.c_str(), s.size() + 1);
  }
};

static Aid mkaid(LL v)
{
  return v < 0 ? Aid::INVALID : Aid{(int)v};
}

static TransitionPtr make_transition(LL kind, LL aid, const LL* f)
{
  using T = Transition::Type;
  Aid a   = mkaid(aid);
  Feed fd;
  auto with_channel = [&](std::function<Transition*(Channel&)> mk) {
    Channel ch;
    if (not fd.bytes.empty())
      ch.reinject(fd.bytes.data(), fd.bytes.size());
    return TransitionPtr(mk(ch));
  };
  switch (kind) {
    case 0:
      fd.put<int>((int)f[0]);
      fd.put<int>((int)f[1]);
      return with_channel([&](Channel& ch) { return new RandomTransition(a, 0, ch); });
    case 1:
      fd.put<aid_t>((aid_t)f[0]);
      fd.put<bool>(f[1] != 0);
      return with_channel([&](Channel& ch) { return new ActorJoinTransition(a, 0, ch); });
    case 2:
      return with_channel([&](Channel& ch) { return new ActorSleepTransition(a, 0, ch); });
    case 3:
      fd.put<aid_t>((aid_t)f[0]);
      return with_channel([&](Channel& ch) { return new ActorCreateTransition(a, 0, ch); });
    case 4:
      return with_channel([&](Channel& ch) { return new ActorExitTransition(a, 0, ch); });
    case 5:
    case 6:
      fd.put<unsigned>((unsigned)f[0]);
      return with_channel(
          [&](Channel& ch) { return new BarrierTransition(a, 0, kind == 5 ? T::BARRIER_ASYNC_LOCK : T::BARRIER_WAIT, ch); });
    case 7:
      return TransitionPtr(new CommRecvTransition(a, 0, (unsigned)f[0], (unsigned)f[1], (int)f[2]));
    case 8:
      return TransitionPtr(new CommSendTransition(a, 0, (unsigned)f[0], (unsigned)f[1], (int)f[2]));
    case 9:
      return TransitionPtr(new CommIprobeTransition(a, 0, f[0] != 0, (unsigned)f[1], (int)f[2]));
    case 10:
      return TransitionPtr(new CommTestTransition(a, 0, (unsigned)f[0], mkaid(f[1]), mkaid(f[2]), (unsigned)f[3]));
    case 11:
      return TransitionPtr(
          new CommWaitTransition(a, 0, f[0] != 0, (unsigned)f[1], mkaid(f[2]), mkaid(f[3]), (unsigned)f[4]));
    case 12:
    case 13:
    case 14:
    case 15:
    case 16: {
      static const T tt[] = {T::MUTEX_ASYNC_LOCK, T::MUTEX_TEST, T::MUTEX_TRYLOCK, T::MUTEX_UNLOCK, T::MUTEX_WAIT};
      fd.put<unsigned>((unsigned)f[0]);
      fd.put<aid_t>((aid_t)f[1]);
      return with_channel([&](Channel& ch) { return new MutexTransition(a, 0, tt[kind - 12], ch); });
    }
    case 17:
    case 18:
    case 19: {
      static const T tt[] = {T::SEM_ASYNC_LOCK, T::SEM_UNLOCK, T::SEM_WAIT};
      fd.put<unsigned>((unsigned)f[0]);
      fd.put<bool>(f[1] != 0);
      fd.put<int>((int)f[2]);
      return with_channel([&](Channel& ch) { return new SemaphoreTransition(a, 0, tt[kind - 17], ch); });
    }
    case 20:
      fd.put<unsigned>((unsigned)f[0]);
      fd.put<unsigned>((unsigned)f[1]);
      return with_channel([&](Channel& ch) { return new CondvarTransition(a, 0, T::CONDVAR_ASYNC_LOCK, ch); });
    case 21:
    case 22:
      fd.put<unsigned>((unsigned)f[0]);
      return with_channel([&](Channel& ch) {
        return new CondvarTransition(a, 0, kind == 21 ? T::CONDVAR_BROADCAST : T::CONDVAR_SIGNAL, ch);
      });
    case 23:
      fd.put<unsigned>((unsigned)f[0]);
      fd.put<unsigned>((unsigned)f[1]);
      fd.put<bool>(f[2] != 0);
      fd.put<bool>(f[3] != 0);
      return with_channel([&](Channel& ch) { return new CondvarTransition(a, 0, T::CONDVAR_WAIT, ch); });
    default:
      throw std::invalid_argument("unknown transition kind");
  }
}

static std::vector<TransitionPtr> read_transitions(const std::vector<LL>& v, size_t& i, size_t n)
{
  std::vector<TransitionPtr> ts;
  for (size_t k = 0; k < n; k++) {
    ts.push_back(make_transition(v.at(i), v.at(i + 1), &v.at(i + 2)));
    i += 7;
  }
  return ts;
}

// ------------------------------------------------------------------------------------------------------ C42
static void mode_exec()
{
  std::vector<LL> v;
  while (drv::next_case(v)) {
    size_t i       = 0;
    LL churn       = v.at(i++);
    size_t n       = (size_t)v.at(i++);
    auto ts        = read_transitions(v, i, n);
    odpor::Execution E;
    for (size_t k = 0; k < n; k++) {
      if (churn > 0 && k % churn == (size_t)churn - 1) {
        // record a transition that is then backtracked: the final execution must not depend on it
        E.push_transition(ts[(k * 7 + 3) % n]);
        if (k % 2 == 0 && k + 1 < n) {
          E.push_transition(ts[(k * 5 + 1) % n]);
          E.remove_last_event();
        }
        E.remove_last_event();
      }
      E.push_transition(ts[k]);
    }
    std::string out = std::to_string(n);
    for (size_t a = 0; a < n; a++)
      for (size_t b = 0; b < n; b++)
        out += (a < b && ts[a]->dispatch_depends(ts[b].get())) ? " 1" : " 0";
    for (size_t a = 0; a < n; a++)
      for (size_t b = 0; b < n; b++)
        out += E.happens_before(a, b) ? " 1" : " 0";
    for (size_t t = 0; t < n; t++) {
      auto r = E.get_racing_events_of(t);
      out += " " + std::to_string(r.size());
      for (auto e : r)
        out += " " + std::to_string(e);
    }
    puts(out.c_str());
    fflush(stdout);
  }
}

int main(int argc, char** argv)
{
  std::string mode = argc > 1 ? argv[1] : "exec";
  if (mode == "exec")
    mode_exec();
  else {
    fprintf(stderr, "unknown mode %s\n", mode.c_str());
    return 3;
  }
  return 0;
}
