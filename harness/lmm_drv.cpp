// C15-C18: drive the real lmm::System (MaxMin / FairBottleneck / BmfSystem) through a history of modifications and dump
// the implementation's own state after every operation.
//   usage: lmm_drv <maxmin|fairbottleneck|bmf> <selective 0|1> [visited_counter_init|-1] [mod]
//   input : one history per line, integers; rationals are "num den" (den a power of two -> exact in binary64)
//     0 bn bd policy limit   constraint_new(bound) ; policy 1 = SHARED, 0 = FATPIPE ; limit -1 = none
//     1 pn pd bn bd          variable_new(penalty, bound)         (bound -1 1 = none)
//     2 c v wn wd            expand(c, v, w)
//     3 v pn pd              update_variable_penalty(v, p)
//     4 v bn bd              update_variable_bound(v, b)
//     5 c bn bd              update_constraint_bound(c, b)
//     6 v                    variable_free(v)
//     7                      solve()
//     8 t                    (C17 only) age the system up to counter t: what repeating "update_constraint_bound(a constraint
//                            nobody uses); solve()" does to the selective-update bookkeeping until visited_counter_ == t;
//                            only applied when the modified set is empty and visited_counter_ <= t < 2^32 (no wrap within the
//                            jump), else ignored
//   output: one line per history:  segments "| op nc nv  C*  V*" after every operation, where
//     C = limit cur bound policy ne (v w)*ne nd (v w)*nd       (enabled list, then disabled list, in list order)
//     V = alive penalty staged bound value nel (c w)*nel
//   with the 4th argument "mod" every segment is followed by  M nm (c)*nm counter (visited_ of each variable, -1 if freed)
//   (modified_constraint_set in list order, visited_counter_, Variable::visited_): used by C17 only.
//   doubles are printed with %.17g.  Every history runs in a forked child; a crash (xbt_assert, abort of the bmf solver)
//   prints what was produced so far followed by "| CRASH <status>" (1000+signal; 1014 = SIGALRM: no answer within 5 s).
#include <cstdint>
#include <cstdio>
#include <cstring>
#include <map>
#include <string>
#include <vector>
#include <sys/wait.h>
#include <unistd.h>
#include "drv.hpp"
#define private public
#define protected public
#include "src/kernel/lmm/System.hpp"
#undef private
#undef protected
#include <simgrid/s4u/Engine.hpp>

namespace lmm = simgrid::kernel::lmm;
namespace res = simgrid::kernel::resource;

struct DrvAction : res::Action {
  using res::Action::Action;
  void update_remains_lazy(double) override {}
};

static std::string buf;
static void pd(double x)
{
  char b[64];
  snprintf(b, sizeof b, " %.17g", x);
  buf += b;
}
static void pi(long long x)
{
  buf += " " + std::to_string(x);
}

struct Run {
  lmm::System* sys;
  std::vector<lmm::Constraint*> cs;
  std::vector<lmm::Variable*> vs; // nullptr once freed
  std::vector<DrvAction*> acts;
  std::map<const lmm::Variable*, int> vid;
  std::map<const lmm::Constraint*, int> cid;

  template <class L> void elems(const L& l)
  {
    pi((long long)l.size());
    for (lmm::Element const& e : l) {
      pi(vid.at(e.variable));
      pd(e.consumption_weight);
    }
  }
  void dump_mod()
  {
    buf += " M";
    pi((long long)sys->modified_constraint_set.size());
    for (lmm::Constraint const& c : sys->modified_constraint_set)
      pi(cid.at(&c));
    pi((long long)sys->visited_counter_);
    for (auto* v : vs)
      pi(v == nullptr ? -1LL : (long long)v->visited_);
  }
  void dump(int op)
  {
    buf += " |";
    pi(op);
    pi((long long)cs.size());
    pi((long long)vs.size());
    for (auto* c : cs) {
      pi(c->get_concurrency_limit());
      pi(c->concurrency_current_);
      pd(c->bound_);
      pi(c->sharing_policy_ == lmm::Constraint::SharingPolicy::FATPIPE ? 0 : 1);
      elems(c->enabled_element_set_);
      elems(c->disabled_element_set_);
    }
    for (auto* v : vs) {
      if (v == nullptr) {
        buf += " 0 0 0 0 0 0";
        continue;
      }
      pi(1);
      pd(v->sharing_penalty_);
      pd(v->staged_sharing_penalty_);
      pd(v->bound_);
      pd(v->value_);
      pi((long long)v->cnsts_.size());
      for (auto const& e : v->cnsts_) {
        pi(cid.at(e.constraint));
        pd(e.consumption_weight);
      }
    }
  }
};

static double q(const std::vector<long long>& v, size_t& i)
{
  double n = (double)v.at(i), d = (double)v.at(i + 1);
  i += 2;
  return n / d;
}

static bool dump_modified = false;

static void run_history(const std::string& solver, bool selective, long long visited_init, const std::vector<long long>& h)
{
  res::Model model("verif");
  Run r;
  r.sys = lmm::System::build(solver, selective);
  model.set_maxmin_system(r.sys);
  if (visited_init >= 0)
    r.sys->visited_counter_ = (unsigned)visited_init;
  size_t i = 0;
  while (i < h.size()) {
    long long op = h.at(i++);
    switch (op) {
      case 0: {
        double b   = q(h, i);
        long long pol = h.at(i++), lim = h.at(i++);
        auto* c = r.sys->constraint_new(nullptr, b);
        if (pol == 0)
          c->unshare();
        c->set_concurrency_limit((int)lim);
        r.cid[c] = (int)r.cs.size();
        r.cs.push_back(c);
        break;
      }
      case 1: {
        double p = q(h, i), b = q(h, i);
        auto* a = new DrvAction(&model, 1.0, false);
        auto* v = r.sys->variable_new(a, p, b, 16);
        r.vid[v] = (int)r.vs.size();
        r.vs.push_back(v);
        r.acts.push_back(a);
        break;
      }
      case 2: {
        long long c = h.at(i++), v = h.at(i++);
        double w = q(h, i);
        if (r.vs.at(v))
          r.sys->expand(r.cs.at(c), r.vs.at(v), w);
        break;
      }
      case 3: {
        long long v = h.at(i++);
        double p = q(h, i);
        if (r.vs.at(v))
          r.sys->update_variable_penalty(r.vs.at(v), p);
        break;
      }
      case 4: {
        long long v = h.at(i++);
        double b = q(h, i);
        if (r.vs.at(v))
          r.sys->update_variable_bound(r.vs.at(v), b);
        break;
      }
      case 5: {
        long long c = h.at(i++);
        double b = q(h, i);
        r.sys->update_constraint_bound(r.cs.at(c), b);
        break;
      }
      case 6: {
        long long v = h.at(i++);
        if (r.vs.at(v)) {
          r.vid.erase(r.vs[v]);
          r.sys->variable_free(r.vs[v]);
          r.vs[v] = nullptr;
        }
        break;
      }
      case 7: {
        r.sys->solve();
        if (auto* ms = r.sys->get_modified_action_set())
          while (not ms->empty())
            ms->pop_front();
        break;
      }
      case 8: {
        long long t = h.at(i++);
        if (dump_modified && r.sys->modified_constraint_set.empty() && (long long)r.sys->visited_counter_ <= t &&
            t <= 4294967295LL)
        {
          if ((long long)r.sys->visited_counter_ < t)
            r.sys->modified_ = false; // the last of these solves leaves the system unmodified
          r.sys->visited_counter_ = (unsigned)t;
        }
        break;
      }
      default:
        buf += " | BADOP";
        return;
    }
    r.dump((int)op);
    if (dump_modified)
      r.dump_mod();
    fputs(buf.c_str(), stdout);
    buf.clear();
    fflush(stdout);
  }
  // leave without running destructors: the child exits right after
}

int main(int argc, char** argv)
{
  std::string solver = argc > 1 ? argv[1] : "maxmin";
  bool selective     = argc > 2 && atoi(argv[2]) != 0;
  long long vinit    = argc > 3 ? atoll(argv[3]) : -1;
  dump_modified      = argc > 4 && strcmp(argv[4], "mod") == 0;
  int eargc          = 1;
  char* eargv[]      = {argv[0], nullptr};
  simgrid::s4u::Engine e(&eargc, eargv);
  std::vector<long long> h;
  while (drv::next_case(h)) {
    fflush(stdout);
    pid_t pid = fork();
    if (pid == 0) {
      if (!getenv("LMM_DRV_STDERR"))
        freopen("/dev/null", "w", stderr);
      alarm(5); // a solver that loops for ever is reported as CRASH 1014 (SIGALRM)
      run_history(solver, selective, vinit, h);
      fflush(stdout);
      _exit(0);
    }
    int st = 0;
    waitpid(pid, &st, 0);
    if (!(WIFEXITED(st) && WEXITSTATUS(st) == 0))
      printf(" | CRASH %d", WIFSIGNALED(st) ? 1000 + WTERMSIG(st) : WEXITSTATUS(st));
    printf("\n");
    fflush(stdout);
  }
  return 0;
}
