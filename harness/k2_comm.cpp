// k2_comm: S4U interpreter for mailbox / message-queue programs (C08, C09).
// One case per input line (integers), one observation line per case. Every case runs in a forked child (one Engine each).
//
// input : nact nmb nmq nhosts  {speed_i bw_i lat_us_i}^nhosts  { nops {kind obj size tag fk fv rate}^nops }^nact
//   actor i runs on host i mod nhosts; route(h_i,h_j) = [link_i, link_j]; link_i has bandwidth bw_i B/s, latency lat_us_i us
//   kind: 0 SLEEP(size/1024 s)  1 PUT 2 PUT_ASYNC 3 PUT_DETACHED 4 GET 5 GET_ASYNC 6 WAIT_ALL 7 SET_RECEIVER(obj=mb, size=actor idx | -1)
//         8 WAIT_OLDEST  9 IPROBE(obj=mb; probe for a SEND matching (tag,fk,fv))
//         11 MQ_PUT 12 MQ_PUT_ASYNC 13 MQ_PUT_DETACHED 14 MQ_GET 15 MQ_GET_ASYNC
//         16 MQ_CANCEL(size=k: Mess::cancel() on the k-th (mod n) message-queue handle this actor has not waited yet; logged with
//            obj = its queue, size = its seq)   17 EXIT (the actor returns now,
//            without waiting its handles)   18 KILL(size = actor idx; obj = -1)
//         19 MQ_GET_SLOT: blocking get whose destination is the actor's one reusable variable (as `T* data; q->get_async(&data)->wait()`
//            in a loop); the variable is looked at again before every later op of the actor and at the end of the simulation
//   ops with tag == 0 && fk == 0 go through the public S4U API (no match function: label -1, tag 0 as seen by the other
//   side's filter); the others through CommIsendSimcall/CommIrecvSimcall with a match function, as SMPI does.
//   filter language (fk,fv): 0 accept all | 1 other.label == fv | 2 other.tag == fv
// output: events separated by " | " :
//   I seq actor kind obj size tag fk fv      op issued (seq = global issue counter = payload id for puts)
//   D seq payload psize ksize magicok        receive op seq returned to user code with that payload
//   M seq payload                            kernel pairing of async receive op seq at the end (payload 0 = unmatched)
//   P seq                                    put op seq completed (blocking put returned / async put waited)
//   B seq found                              iprobe seq found a comm carrying payload `found` (0 = nothing)
//   H seq                                    maestro handles the (first) simcall of message-queue op seq now (SIMGRID_VERIF hook in
//                                            ActorImpl::simcall_handle): the H lines give the order in which the kernel serves the requests;
//                                            an EXIT takes effect where its I line stands (the cleanup runs in the actor's own context)
//   X                                        deadlock reported by the engine        E t   end of simulation at time t*1024
//   C seq w                                  cancel() of message seq: w = 1 iff the kernel withdrew it from its queue (state CANCELED)
//   U seq payload                            what the destination variable of message-queue get seq (the latest get using it) holds at the end
//   S seq payload                            the variable filled by the completed MQ_GET_SLOT seq was later found holding `payload`
//   Q mq id...                               content of message queue mq at the end, front first (puts: payload id, gets: seq)
#include "drv.hpp"
#include <cmath>
#include <cstring>
#include <functional>
#include <map>
#include <memory>
#include <sys/wait.h>
#include <unistd.h>
#define private public
#define protected public
#include <simgrid/s4u.hpp>
#include <simgrid/s4u/Mess.hpp>
#include <simgrid/s4u/MessageQueue.hpp>
#include "src/kernel/activity/CommImpl.hpp"
#include "src/kernel/activity/MailboxImpl.hpp"
#include "src/kernel/activity/MessImpl.hpp"
#include "src/kernel/activity/MessageQueueImpl.hpp"
#include "src/kernel/actor/ActorImpl.hpp"
#include "src/kernel/actor/CommObserver.hpp"
#include "src/kernel/actor/SimcallObserver.hpp"
#include "src/kernel/actor/WaitTestObserver.hpp"
#undef private
#undef protected

extern void (*simgrid_verif_on_simcall_handle)(long pid); // SIMGRID_VERIF hook in ActorImpl::simcall_handle

namespace sg4 = simgrid::s4u;
namespace ka  = simgrid::kernel::activity;
namespace kr  = simgrid::kernel::actor;

struct Payload {
  long magic;
  long id;
  long size;
  long sender;
};
static const long MAGIC = 0x5ca1ab1e;
struct MatchData {
  long label, tag, fk, fv;
  char pad[1024] = {0}; // IprobeSimcall's constructor reads match_data as an smpi::Request (tag_ for the MC): keep it in bounds
};
struct Op {
  long kind, obj, size, tag, fk, fv, rate;
};
struct Handle {
  int flavour; // 0 s4u::Comm, 1 raw activity (match-function path), 2 s4u::Mess
  bool recv;
  long seq;
  sg4::CommPtr c;
  ka::ActivityImplPtr a;
  sg4::MessPtr m;
  void* buf = nullptr;
  bool waited = false;
  long obj    = -1;
};
struct Slot {
  void* cell    = nullptr; // the user variable
  void* last    = nullptr; // what the last completed get left there
  long last_seq = 0;
};

static long g_seq = 0;
static std::vector<std::string> g_log;
static std::vector<std::shared_ptr<Handle>> g_recv_handles;
static std::vector<sg4::Mailbox*> g_mb;
static std::vector<sg4::MessageQueue*> g_mq;
static std::vector<sg4::ActorPtr> g_actors;
static std::vector<Slot*> g_slots;
static std::map<long, long> g_unhandled; // pid -> seq of the message-queue op whose first simcall maestro has not handled yet
static std::map<const void*, long> g_buf2seq; // destination buffer -> seq of the (latest) get using it

static void logf(const char* fmt, ...)
{
  char b[256];
  va_list ap;
  va_start(ap, fmt);
  vsnprintf(b, sizeof b, fmt, ap);
  va_end(ap);
  g_log.emplace_back(b);
}

static bool match_fun(void* mine, void* other, ka::CommImpl*)
{
  auto* m    = static_cast<MatchData*>(mine);
  auto* o    = static_cast<MatchData*>(other);
  long label = o ? o->label : -1;
  long tag   = o ? o->tag : 0;
  if (m == nullptr)
    return true;
  switch (m->fk) {
    case 1:
      return label == m->fv;
    case 2:
      return tag == m->fv;
    default:
      return true;
  }
}

static long payload_id(const void* p)
{
  return p ? static_cast<const Payload*>(p)->id : 0;
}

static void log_delivery(long seq, void* got, double ksize)
{
  auto* p = static_cast<Payload*>(got);
  if (p == nullptr)
    logf("D %ld 0 0 -1 0", seq);
  else
    logf("D %ld %ld %ld %ld %d", seq, p->id, p->size, (long)ksize, p->magic == MAGIC ? 1 : 0);
}

static void raw_wait(ka::ActivityImplPtr act)
{
  auto* issuer = kr::ActorImpl::self();
  kr::ActivityWaitSimcall observer{issuer, act.get(), -1.0, "Wait"};
  kr::simcall_blocking(
      [&observer] { observer.get_activity()->wait_for(observer.get_issuer(), observer.get_timeout()); }, &observer);
}

static void wait_handle(Handle& h)
{
  if (h.waited)
    return;
  h.waited     = true;
  double ksize = -1;
  if (h.flavour == 0) {
    h.c->wait();
    if (h.c->get_impl())
      ksize = static_cast<ka::CommImpl*>(h.c->get_impl())->size_;
  } else if (h.flavour == 1) {
    raw_wait(h.a);
    ksize = static_cast<ka::CommImpl*>(h.a.get())->size_;
  } else {
    h.m->wait();
  }
  if (h.recv)
    log_delivery(h.seq, *static_cast<void**>(h.buf), ksize);
  else
    logf("P %ld", h.seq);
}

static void on_simcall_handle(long pid)
{
  auto it = g_unhandled.find(pid);
  if (it != g_unhandled.end() && it->second != 0) {
    logf("H %ld", it->second);
    it->second = 0;
  }
}

static void check_slot(Slot* s)
{
  if (s->last_seq != 0 && s->cell != s->last) {
    logf("S %ld %ld", s->last_seq, payload_id(s->cell));
    s->last = s->cell; // report each change once
  }
}

static void actor_code(int me, std::vector<Op> ops)
{
  std::vector<std::shared_ptr<Handle>> mine;
  auto* slot = new Slot();
  g_slots.push_back(slot);
  // storage that must outlive the ops (buffers of async receives, match data): leaked on purpose
  for (auto const& op : ops) {
    bool filtered = op.tag != 0 || op.fk != 0;
    double rate   = op.rate > 0 ? (double)op.rate : -1.0;
    long seq      = 0;
    check_slot(slot);
    if (op.kind == 16) { // pick the handle first: nothing is issued (and nothing logged) when there is none
      std::vector<size_t> cand;
      for (size_t k = 0; k < mine.size(); k++)
        if (mine[k]->flavour == 2 && not mine[k]->waited)
          cand.push_back(k);
      if (cand.empty())
        continue;
      size_t k    = cand[(size_t)op.size % cand.size()];
      auto h      = mine[k];
      seq         = ++g_seq;
      logf("I %ld %d 16 %ld %ld 0 0 0", seq, me, h->obj, h->seq);
      g_unhandled[sg4::this_actor::get_pid()] = seq;
      h->m->cancel();
      // MessImpl::cancel() marks the message CANCELED only when it was still queued; nothing changes that state later
      logf("C %ld %d", h->seq, h->m->get_impl() && h->m->get_impl()->get_state() == ka::State::CANCELED ? 1 : 0);
      h->waited = true;
      mine.erase(mine.begin() + k);
      continue;
    }
    if (op.kind == 17) {
      seq = ++g_seq;
      logf("I %ld %d 17 -1 0 0 0 0", seq, me);
      return;
    }
    if (op.kind == 18) {
      long victim = op.size % (long)g_actors.size();
      if (victim == me)
        continue;
      seq = ++g_seq;
      logf("I %ld %d 18 -1 %ld 0 0 0", seq, me, victim);
      g_unhandled[sg4::this_actor::get_pid()] = seq;
      g_actors.at(victim)->kill();
      continue;
    }
    if (op.kind != 0 && op.kind != 6 && op.kind != 8) {
      seq = ++g_seq;
      logf("I %ld %d %ld %ld %ld %ld %ld %ld", seq, me, op.kind, op.obj, op.size, op.tag, op.fk, op.fv);
      if (op.kind >= 11)
        g_unhandled[sg4::this_actor::get_pid()] = seq;
    }
    switch (op.kind) {
      case 0:
        sg4::this_actor::sleep_for(op.size / 1024.0);
        break;
      case 1:
      case 2:
      case 3: {
        auto* p   = new Payload{MAGIC, seq, op.size, me};
        auto* mb  = g_mb.at(op.obj);
        auto* md  = new MatchData{me, op.tag, op.fk, op.fv};
        if (not filtered) {
          if (op.kind == 1) {
            if (rate > 0)
              mb->put_init(p, op.size)->set_rate(rate)->wait();
            else
              mb->put(p, op.size);
            logf("P %ld", seq);
          } else if (op.kind == 2) {
            auto h     = std::make_shared<Handle>();
            h->flavour = 0;
            h->recv    = false;
            h->seq     = seq;
            h->c       = mb->put_init(p, op.size);
            if (rate > 0)
              h->c->set_rate(rate);
            h->c->start();
            mine.push_back(h);
          } else {
            auto c = mb->put_init(p, op.size);
            if (rate > 0)
              c->set_rate(rate);
            c->detach();
          }
        } else {
          auto* self = kr::ActorImpl::self();
          if (op.kind == 1) {
            sg4::Comm::send(self, mb, (double)op.size, rate, p, sizeof(void*), &match_fun, nullptr, md, -1.0);
            logf("P %ld", seq);
          } else {
            bool det = op.kind == 3;
            kr::CommIsendSimcall obs{self, mb->get_impl(), (double)op.size, rate, reinterpret_cast<unsigned char*>(p),
                                     sizeof(void*), &match_fun, det ? [](void*) {} : std::function<void(void*)>(), nullptr, md, det,
                                     "Isend"};
            ka::ActivityImplPtr act =
                kr::simcall_answered([&obs] { return ka::CommImpl::isend(&obs); }, &obs);
            if (not det) {
              auto h     = std::make_shared<Handle>();
              h->flavour = 1;
              h->recv    = false;
              h->seq     = seq;
              h->a       = act;
              mine.push_back(h);
            }
          }
        }
        break;
      }
      case 4:
      case 5: {
        auto* mb   = g_mb.at(op.obj);
        auto* md   = new MatchData{me, op.tag, op.fk, op.fv};
        void** buf = new void*(nullptr);
        if (not filtered) {
          auto h     = std::make_shared<Handle>();
          h->flavour = 0;
          h->recv    = true;
          h->seq     = seq;
          h->buf     = buf;
          h->c       = mb->get_init()->set_dst_data(buf, sizeof(void*));
          if (rate > 0)
            h->c->set_rate(rate);
          h->c->start();
          g_recv_handles.push_back(h);
          if (op.kind == 4)
            wait_handle(*h);
          else
            mine.push_back(h);
        } else {
          auto* self = kr::ActorImpl::self();
          if (op.kind == 4) {
            size_t sz = sizeof(void*);
            sg4::Comm::recv(self, mb, buf, &sz, &match_fun, nullptr, md, -1.0, rate);
            log_delivery(seq, *buf, -1);
          } else {
            auto* sz = new size_t(sizeof(void*));
            kr::CommIrecvSimcall obs{self, mb->get_impl(), reinterpret_cast<unsigned char*>(buf), sz, &match_fun,
                                     nullptr, md, rate, "Irecv"};
            ka::ActivityImplPtr act =
                kr::simcall_answered([&obs] { return ka::CommImpl::irecv(&obs); }, &obs);
            auto h     = std::make_shared<Handle>();
            h->flavour = 1;
            h->recv    = true;
            h->seq     = seq;
            h->buf     = buf;
            h->a       = act;
            g_recv_handles.push_back(h);
            mine.push_back(h);
          }
        }
        break;
      }
      case 6:
        for (auto& h : mine)
          wait_handle(*h);
        mine.clear();
        break;
      case 8:
        if (not mine.empty()) {
          wait_handle(*mine.front());
          mine.erase(mine.begin());
        }
        break;
      case 7:
        g_mb.at(op.obj)->set_receiver(op.size < 0 ? nullptr : g_actors.at(op.size));
        break;
      case 9: {
        auto* md = new MatchData{filtered ? me : -1, op.tag, op.fk, op.fv}; // unfiltered requests are anonymous (label -1)
        auto act = g_mb.at(op.obj)->iprobe(sg4::Mailbox::IprobeKind::RECV, &match_fun, md);
        logf("B %ld %ld", seq, act ? payload_id(static_cast<ka::CommImpl*>(act.get())->src_buff_) : 0L);
        break;
      }
      case 11:
      case 12:
      case 13: {
        auto* p  = new Payload{MAGIC, seq, 0, me};
        auto* mq = g_mq.at(op.obj);
        if (op.kind == 11) {
          mq->put(p);
          logf("P %ld", seq);
        } else if (op.kind == 12) {
          auto h     = std::make_shared<Handle>();
          h->flavour = 2;
          h->recv    = false;
          h->seq     = seq;
          h->obj     = op.obj;
          h->m       = mq->put_async(p);
          mine.push_back(h);
        } else {
          mq->put_init(p)->detach();
        }
        break;
      }
      case 14:
      case 15: {
        auto* mq   = g_mq.at(op.obj);
        void** buf = new void*(nullptr);
        auto h     = std::make_shared<Handle>();
        h->flavour = 2;
        h->recv    = true;
        h->seq     = seq;
        h->obj     = op.obj;
        h->buf     = buf;
        g_buf2seq[buf] = seq;
        h->m       = mq->get_async<void>(buf);
        g_recv_handles.push_back(h);
        if (op.kind == 14)
          wait_handle(*h);
        else
          mine.push_back(h);
        break;
      }
      case 19: {
        auto* mq             = g_mq.at(op.obj);
        slot->cell           = nullptr;
        slot->last_seq       = 0;
        g_buf2seq[&slot->cell] = seq;
        auto h     = std::make_shared<Handle>(); // kept so that the kernel pairing is reported even if this actor is killed
        h->flavour = 2;
        h->recv    = true;
        h->seq     = seq;
        h->obj     = op.obj;
        h->buf     = &slot->cell;
        h->waited  = true;
        h->m       = mq->get_async<void>(&slot->cell);
        g_recv_handles.push_back(h);
        h->m->wait();
        log_delivery(seq, slot->cell, -1);
        slot->last     = slot->cell;
        slot->last_seq = seq;
        break;
      }
      default:
        break;
    }
  }
  for (auto& h : mine)
    wait_handle(*h);
  check_slot(slot);
}

static void dump_pairings()
{
  for (auto const& h : g_recv_handles) {
    const void* src = nullptr;
    if (h->flavour == 0 && h->c->get_impl())
      src = static_cast<ka::CommImpl*>(h->c->get_impl())->src_buff_;
    else if (h->flavour == 1 && h->a)
      src = static_cast<ka::CommImpl*>(h->a.get())->src_buff_;
    else if (h->flavour == 2 && h->m->get_impl()) {
      auto* mi = static_cast<ka::MessImpl*>(h->m->get_impl());
      src      = mi->src_actor_ != nullptr ? mi->payload_ : nullptr;
    }
    logf("M %ld %ld", h->seq, payload_id(src));
  }
}

static void dump_queues()
{
  for (size_t q = 0; q < g_mq.size(); q++) {
    std::string l = "Q " + std::to_string(q);
    for (auto const& m : g_mq[q]->get_impl()->queue_) {
      long id = 0;
      if (m->get_type() == ka::MessImplType::PUT)
        id = payload_id(m->payload_);
      else if (auto it = g_buf2seq.find(m->dst_buff_); it != g_buf2seq.end())
        id = it->second;
      l += " " + std::to_string(id);
    }
    g_log.push_back(l);
  }
}

static void finish_and_exit()
{
  for (auto* s : g_slots)
    check_slot(s);
  dump_queues();
  // what the destination variable of every message-queue get holds now (the kernel fills it when the pair is formed, even if the
  // receiver is killed before it can report)
  for (auto const& [buf, seq] : g_buf2seq)
    logf("U %ld %ld", seq, payload_id(*static_cast<void* const*>(buf)));
  dump_pairings();
  logf("E %ld", (long)std::llround(sg4::Engine::get_clock() * 1024));
  std::string out;
  for (auto const& l : g_log)
    out += (out.empty() ? "" : " | ") + l;
  printf("%s\n", out.c_str());
  fflush(stdout);
  _exit(0);
}

static int run_case(const std::vector<long long>& v)
{
  size_t i    = 0;
  long nact   = v.at(i++);
  long nmb    = v.at(i++);
  long nmq    = v.at(i++);
  long nhosts = v.at(i++);
  int argc    = 2;
  char a0[]   = "k2_comm";
  char a1[]   = "--log=root.thres:critical";
  char* argv[] = {a0, a1, nullptr};
  sg4::Engine e(&argc, argv);
  auto* zone = e.get_netzone_root();
  std::vector<sg4::Host*> hosts;
  std::vector<const sg4::Link*> links;
  for (long h = 0; h < nhosts; h++) {
    double speed = (double)v.at(i++);
    double bw    = (double)v.at(i++);
    double lat   = v.at(i++) * 1e-6;
    hosts.push_back(zone->add_host("h" + std::to_string(h), speed));
    links.push_back(zone->add_link("l" + std::to_string(h), bw)->set_latency(lat));
  }
  for (long a = 0; a < nhosts; a++)
    for (long b = a + 1; b < nhosts; b++)
      zone->add_route(hosts[a], hosts[b], std::vector<const sg4::Link*>{links[a], links[b]});
  zone->seal();
  for (long m = 0; m < nmb; m++)
    g_mb.push_back(e.mailbox_by_name_or_create("mb" + std::to_string(m)));
  for (long m = 0; m < nmq; m++)
    g_mq.push_back(e.message_queue_by_name_or_create("mq" + std::to_string(m)));
  for (long a = 0; a < nact; a++) {
    long nops = v.at(i++);
    std::vector<Op> ops;
    for (long k = 0; k < nops; k++) {
      Op o{v.at(i), v.at(i + 1), v.at(i + 2), v.at(i + 3), v.at(i + 4), v.at(i + 5), v.at(i + 6)};
      i += 7;
      ops.push_back(o);
    }
    g_actors.push_back(hosts[a % nhosts]->add_actor("a" + std::to_string(a), [a, ops]() { actor_code((int)a, ops); }));
  }
  simgrid_verif_on_simcall_handle = on_simcall_handle;
  sg4::Engine::on_deadlock_cb([]() {
    // everything observable is known here; leaving now avoids the kill phase (cancel() of a comm whose mbox_ was
    // cleared by iprobe is a separate matter, outside C08)
    logf("X");
    finish_and_exit();
  });
  e.run();
  finish_and_exit();
  return 0;
}

int main(int argc, char** argv)
{
  std::vector<long long> v;
  long skip = argc > 1 ? atol(argv[1]) : 0; // debugging aid: parse but do not run the first cases
  while (drv::next_case(v)) {
    if (skip-- > 0)
      continue;
    fflush(stdout);
    pid_t pid = fork();
    if (pid == 0) {
      alarm(90);
      int rc = 1;
      try {
        rc = run_case(v);
      } catch (std::exception const& ex) {
        printf("CRASH exception %s\n", ex.what());
        fflush(stdout);
      }
      _exit(rc);
    }
    int st = 0;
    waitpid(pid, &st, 0);
    if (WIFSIGNALED(st)) {
      printf("CRASH signal %d\n", WTERMSIG(st));
    } else if (WIFEXITED(st) && WEXITSTATUS(st) != 0) {
      // the child printed its own CRASH line (exception) or died in an xbt_assert (abort is a signal); nothing printed yet
      if (WEXITSTATUS(st) != 1)
        printf("CRASH exit %d\n", WEXITSTATUS(st));
    }
    fflush(stdout);
  }
  return 0;
}
