// C38: generic S4U program run under simgrid-mc.  It interprets a program description (file named by argv[2], a single
// line of integers, same encoding as the Coq reference semantics SGV.Mc.McRef) with the real S4U API and prints, at the
// end of every complete execution, one canonical outcome line "MC3OUT r0 r1 r2 r3 v0 v1 v2 v3".
//
//   P = nact  cap0..cap3  cnt0..cnt3  { nops { code a b }* }*nact
//   visible ops: 1 Lock m | 2 Unlock m | 3 TryLock m k (r:=ok; on failure skip the next k ops) | 4 SemAcquire s
//     | 5 SemRelease s | 6 BarrierWait b | 7 Put mb v (v<0: send r) | 8 Get mb (r:=value) | 9 Join a
//     | 10 Random lo hi (r:=MC_random) | 11 IPut mb v | 12 IGet mb | 13 WaitOne (oldest pending async comm)
//   local ops (run inside the preceding transition): 20 SetVar v c | 21 UpdVar v c (var:=(3*var+c) mod 1000003)
//     | 22 AssertVarNe v c | 23 AssertRegNe c | 24 RegFromVar v | 25 VarFromReg v
#include <simgrid/modelchecker.h>
#include <simgrid/s4u.hpp>
#include <cstdio>
#include <cstdlib>
#include <deque>
#include <fstream>
#include <unistd.h>
#include <vector>
namespace sg4 = simgrid::s4u;

struct Op {
  long code, a, b;
};
static std::vector<std::vector<Op>> prog;
static long nact;
static long caps[4], cnts[4];
static sg4::MutexPtr mut[4];
static sg4::SemaphorePtr sem[4];
static sg4::BarrierPtr bar[4];
static sg4::Mailbox* mbx[4];
static std::vector<sg4::ActorPtr> actors;
static long reg[4]  = {0, 0, 0, 0};
static long var[4]  = {0, 0, 0, 0};
static int finished = 0;

static long idx(long a)
{
  return ((a % 4) + 4) % 4;
}

static void emit_outcome()
{
  char buf[256];
  int n = snprintf(buf, sizeof buf, "\nMC3OUT %ld %ld %ld %ld %ld %ld %ld %ld\n", reg[0], reg[1], reg[2], reg[3], var[0],
                   var[1], var[2], var[3]);
  ssize_t w = write(1, buf, n);
  (void)w;
}

struct Pending {
  sg4::CommPtr comm;
  bool recv;
  long** slot;
};

static void actor_fun(int me)
{
  const std::vector<Op>& ops = prog[me];
  std::deque<Pending> pending;
  size_t pc = 0;
  while (pc < ops.size()) {
    const Op& o = ops[pc];
    pc++;
    switch (o.code) {
      case 1:
        mut[idx(o.a)]->lock();
        break;
      case 2:
        mut[idx(o.a)]->unlock();
        break;
      case 3: {
        bool ok = mut[idx(o.a)]->try_lock();
        reg[me] = ok ? 1 : 0;
        if (not ok)
          pc += (o.b > 0 ? (size_t)o.b : 0);
        break;
      }
      case 4:
        sem[idx(o.a)]->acquire();
        break;
      case 5:
        sem[idx(o.a)]->release();
        break;
      case 6:
        bar[idx(o.a)]->wait();
        break;
      case 7:
        mbx[idx(o.a)]->put(new long(o.b < 0 ? reg[me] : o.b), 1);
        break;
      case 8: {
        long* p = mbx[idx(o.a)]->get<long>();
        reg[me] = *p;
        delete p;
        break;
      }
      case 9:
        if (o.a >= 0 && o.a < nact && o.a != me)
          actors[o.a]->join();
        break;
      case 10:
        reg[me] = MC_random((int)o.a, (int)o.b);
        break;
      case 11: {
        Pending p;
        p.recv = false;
        p.slot = nullptr;
        p.comm = mbx[idx(o.a)]->put_async(new long(o.b < 0 ? reg[me] : o.b), 1);
        pending.push_back(p);
        break;
      }
      case 12: {
        Pending p;
        p.recv = true;
        p.slot = new long*(nullptr);
        p.comm = mbx[idx(o.a)]->get_async<long>(p.slot);
        pending.push_back(p);
        break;
      }
      case 13:
        if (not pending.empty()) {
          Pending p = pending.front();
          pending.pop_front();
          p.comm->wait();
          if (p.recv) {
            reg[me] = **p.slot;
            delete *p.slot;
            delete p.slot;
          }
        }
        break;
      case 20:
        var[idx(o.a)] = o.b;
        break;
      case 21:
        var[idx(o.a)] = (((3 * var[idx(o.a)] + o.b) % 1000003) + 1000003) % 1000003;
        break;
      case 22:
        MC_assert(var[idx(o.a)] != o.b);
        break;
      case 23:
        MC_assert(reg[me] != o.a);
        break;
      case 24:
        reg[me] = var[idx(o.a)];
        break;
      case 25:
        var[idx(o.a)] = reg[me];
        break;
      default:
        break;
    }
  }
  finished++;
  if (finished == nact)
    emit_outcome();
}

int main(int argc, char* argv[])
{
  sg4::Engine e(&argc, argv);
  xbt_assert(argc > 2, "Usage: %s platform_file program_file\n", argv[0]);
  e.load_platform(argv[1]);
  std::ifstream in(argv[2]);
  std::vector<long> v;
  long x;
  while (in >> x)
    v.push_back(x);
  size_t i = 0;
  auto next = [&]() { return i < v.size() ? v[i++] : 0L; };
  nact = next();
  xbt_assert(nact >= 1 && nact <= 4, "1..4 actors");
  for (int k = 0; k < 4; k++)
    caps[k] = next();
  for (int k = 0; k < 4; k++)
    cnts[k] = next();
  prog.resize(nact);
  for (long a = 0; a < nact; a++) {
    long n = next();
    for (long k = 0; k < n; k++) {
      Op o;
      o.code = next();
      o.a    = next();
      o.b    = next();
      prog[a].push_back(o);
    }
  }
  for (int k = 0; k < 4; k++) {
    mut[k] = sg4::Mutex::create();
    sem[k] = sg4::Semaphore::create(caps[k] < 0 ? 0 : (unsigned)caps[k]);
    bar[k] = sg4::Barrier::create(cnts[k] < 1 ? 1 : (unsigned)cnts[k]);
    mbx[k] = sg4::Mailbox::by_name("mb" + std::to_string(k));
  }
  auto hosts = e.get_all_hosts();
  for (long a = 0; a < nact; a++)
    actors.push_back(hosts[a % hosts.size()]->add_actor("a" + std::to_string(a), actor_fun, (int)a));
  e.run();
  return 0;
}
