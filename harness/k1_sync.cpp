// k1_sync: generic S4U interpreter for synchronisation objects (C04 mutex, C05 semaphore, C07 barrier).
//
// One case per input line (integers):
//   nobj (kind param)*nobj   nact (nops (op obj arg)*nops)*nact
//     kind 0 mutex, 1 recursive mutex, 2 semaphore(param = initial capacity), 3 barrier(param = expected actors)
//     op 0 SLEEP arg ticks (1 tick = 1/16 s)        1 LOCK  2 TRYLOCK  3 UNLOCK
//        4 ACQUIRE  5 ACQUIRE_TIMEOUT(arg ticks)    6 RELEASE   7 BARRIER_WAIT
//        8 GETCAP (Semaphore::get_capacity read inside a simcall, so that it is ordered with the other operations)
//        9 GETOWNER (Mutex::get_owner, pid or 0, read inside a simcall)
//       10 PEEK (kernel state of the object, read inside a simcall)
//       11 UNLOCK_IF_MINE: unlock (logged as op 3) only when this actor's own bookkeeping says it holds the mutex
//     Program logic of every actor: it counts its own successful lock/try_lock minus its unlocks per mutex; a LOCK of a
//     NON-recursive mutex it believes to hold is skipped (undefined behaviour, outside C04).
// Output, one line per case: a flat list of events
//   1 pid op obj arg time      REQ  (printed by the actor just before it calls the S4U function)
//   2 pid op obj result time   RET  (printed when the call returned; result: try_lock/acquire_timeout/wait value)
//   3 pid obj time n x1..xn    PEEK answer: mutex  -> owner depth q1..qk ; semaphore -> value q1..qk ; barrier -> q1..qk
//   4 0 0 0 0 time             the engine advanced the clock (Engine::on_time_advance): timers/sleeps ending at that date
//                              are handled right after it, before any actor runs again
//   9 status 0 0 0 time        end: status 0 normal, 1 the simulation aborted (xbt_assert), 2 deadlock reported
// time = clock * 1024 (exact for the dyadic durations used).
// SPLIT MODE (C07, the two-simcall protocol of s4u::Barrier::wait used under the model checker / in replay mode):
//   -1 n nact r_1..r_nact L x_1..x_L
//     one barrier of size n; actor k (pid k) calls wait() r_k times; MC_record_path() is set, so every wait() is a
//     BARRIER_ASYNC_LOCK simcall followed by a BARRIER_WAIT simcall.  The driver plays the model checker (what
//     mc::RecordTrace::replay does): actors run up to their next visible simcall (mc::execute_actors), then for every
//     x the (x mod c)-th of the c actors (pid order) that have a pending, not yet fired, barrier simcall gets it
//     handled (ActorImpl::simcall_handle) - a BARRIER_WAIT is fired whether or not it is enabled: a disabled one
//     blocks its issuer in wait_for() exactly as on the one-simcall path.  After the L steps every pending
//     BARRIER_WAIT is fired once (pid order, repeated until none is left), no further ASYNC_LOCK.
//   output: 1/2 events as above (REQ when the actor reaches wait(), RET when wait() returned), and per step
//     5 kind pid            the simcall about to be handled: kind 0 ASYNC_LOCK, 1 WAIT
//     6 nq (pid granted)*nq  na (pid granted waiting)*na
//                           after the step and after the resumed actors ran: ongoing_acquisitions_ of the barrier,
//                           then, in pid order, the acquisition of every actor whose pending simcall is a BARRIER_WAIT
//     9 status 0 0 0 0
// Every case runs in a forked child (one s4u::Engine per process; an xbt_assert aborts the child only).
// Sequential contexts only: actors run in actors_to_run_ order and their simcalls are handled in that same order, so
// the order of the REQ lines is the order in which the kernel executes the operations.
#include "drv.hpp"
#include <cmath>
#include <simgrid/s4u.hpp>
#include <sys/wait.h>
#include <unistd.h>
#include <fcntl.h>
// compiled with -fno-access-control (PEEK reads private kernel state)
#include "src/kernel/activity/BarrierImpl.hpp"
#include "src/kernel/activity/MutexImpl.hpp"
#include "src/kernel/activity/SemaphoreImpl.hpp"
#include "src/kernel/actor/ActorImpl.hpp"
#include "src/kernel/actor/Simcall.hpp"
#include "src/kernel/EngineImpl.hpp"
#include "src/kernel/actor/SynchroObserver.hpp"
#include "src/mc/mc_replay.hpp"

namespace sg4 = simgrid::s4u;
namespace ker = simgrid::kernel;

struct Obj {
  int kind;
  long long param;
  sg4::MutexPtr mu;
  sg4::SemaphorePtr sem;
  sg4::BarrierPtr bar;
};
struct Op {
  int op, obj;
  long long arg;
};
static std::vector<Obj>* objs; // never destroyed: a mutex still owned at the end is not an error of the program
static std::string buf;

static long long now()
{
  double c     = sg4::Engine::get_clock();
  long long t  = llround(c * 1024.0);
  if ((double)t / 1024.0 != c)
    return -1 - t; // not on the dyadic grid: reported, never silently rounded
  return t;
}
static void flush()
{
  if (not buf.empty()) {
    ssize_t r = write(1, buf.data(), buf.size());
    (void)r;
    buf.clear();
  }
}
static void ev(std::initializer_list<long long> xs)
{
  for (long long x : xs)
    buf += std::to_string(x) + " ";
  flush(); // unbuffered: an abort must not lose what was observed before
}

static void peek(long long pid, int o)
{
  Obj& ob = (*objs)[o];
  std::vector<long long> xs;
  ker::actor::simcall_answered([&ob, &xs] {
    if (ob.kind <= 1) {
      auto* m = ob.mu->pimpl_;
      xs.push_back(m->owner_ ? m->owner_->get_pid() : 0);
      xs.push_back(m->recursive_depth);
      for (auto const& a : m->ongoing_acquisitions_)
        xs.push_back(a->get_issuer()->get_pid());
    } else if (ob.kind == 2) {
      auto* s = ob.sem->pimpl_;
      xs.push_back(s->value_);
      for (auto const& a : s->ongoing_acquisitions_)
        xs.push_back(a->get_issuer()->get_pid());
    } else {
      auto* b = ob.bar->pimpl_;
      for (auto const& a : b->ongoing_acquisitions_)
        xs.push_back(a->get_issuer()->get_pid());
    }
  });
  std::string s = "3 " + std::to_string(pid) + " " + std::to_string(o) + " " + std::to_string(now()) + " " +
                  std::to_string(xs.size()) + " ";
  for (long long x : xs)
    s += std::to_string(x) + " ";
  buf += s;
  flush();
}

static void body(std::vector<Op> prog)
{
  long long pid = sg4::this_actor::get_pid();
  std::vector<long long> mine(objs->size(), 0);
  for (Op p : prog) {
    Obj* ob = p.op == 0 ? nullptr : &(*objs)[p.obj];
    if (p.op == 0) {
      sg4::this_actor::sleep_for((double)p.arg / 16.0);
      continue;
    }
    if (p.op == 10) {
      ev({1, pid, p.op, p.obj, p.arg, now()});
      peek(pid, p.obj);
      continue;
    }
    if (p.op == 11) {
      if (mine[p.obj] <= 0)
        continue;
      p.op = 3;
    }
    if (p.op == 1 && ob->kind == 0 && mine[p.obj] > 0)
      continue;
    ev({1, pid, p.op, p.obj, p.arg, now()});
    long long res = 0;
    switch (p.op) {
      case 1:
        ob->mu->lock();
        mine[p.obj]++;
        break;
      case 2:
        res = ob->mu->try_lock();
        mine[p.obj] += res;
        break;
      case 3:
        ob->mu->unlock();
        mine[p.obj]--;
        break;
      case 4:
        ob->sem->acquire();
        break;
      case 5:
        res = ob->sem->acquire_timeout((double)p.arg / 16.0);
        break;
      case 6:
        ob->sem->release();
        break;
      case 7:
        res = ob->bar->wait();
        break;
      case 8: {
        auto* s = ob->sem.get();
        res     = ker::actor::simcall_answered([s] { return (long long)s->get_capacity(); });
        break;
      }
      case 9: {
        auto* m = ob->mu.get();
        res     = ker::actor::simcall_answered([m] {
          auto* a = m->get_owner();
          return (long long)(a ? a->get_pid() : 0);
        });
        break;
      }
      default:
        break;
    }
    ev({2, pid, p.op, p.obj, res, now()});
  }
}


// ---------------------------------------------------------------------------------------------- split mode (C07)
static void split_body(sg4::BarrierPtr bar, long rounds)
{
  long long pid = sg4::this_actor::get_pid();
  for (long r = 0; r < rounds; r++) {
    ev({1, pid, 7, 0, r, now()});
    long long res = bar->wait();
    ev({2, pid, 7, 0, res, now()});
  }
}

// mc::execute_actors() (src/mc/mc_base.cpp; not exported): run the actors up to their next visible simcall, handling the
// invisible ones at once
static void execute_actors()
{
  auto* engine = ker::EngineImpl::get_instance();
  while (engine->has_actors_to_run()) {
    engine->run_all_actors();
    for (auto const& actor : engine->get_actors_that_ran()) {
      const ker::actor::Simcall* req = &actor->simcall_;
      bool visible                   = req->observer_ != nullptr && req->observer_->is_visible();
      if (req->call_ != ker::actor::Simcall::Type::NONE && not visible)
        actor->simcall_handle(0);
    }
  }
}

static int run_split(const std::vector<long long>& v)
{
  size_t i           = 1;
  int argc           = 4;
  const char* args[] = {"k1_sync", "--log=root.thres:critical", "--cfg=contexts/nthreads:1", "--log=no_loc", nullptr};
  char** argv        = const_cast<char**>(args);
  sg4::Engine e(&argc, argv);
  MC_record_path() = "1"; // MC_record_replay_is_active(): Barrier::wait() takes its two-simcall branch
  auto* host       = e.get_netzone_root()->add_host("h0", 1e9);
  e.get_netzone_root()->seal();
  long n    = v.at(i++);
  long nact = v.at(i++);
  auto bar  = sg4::Barrier::create((unsigned)n);
  auto* keep = new std::vector<sg4::ActorPtr>(); // never destroyed
  for (long a = 0; a < nact; a++) {
    long rounds = v.at(i++);
    keep->push_back(host->add_actor("a" + std::to_string(a + 1), [bar, rounds] { split_body(bar, rounds); }));
  }
  long L = v.at(i++);
  std::vector<long long> sched;
  for (long k = 0; k < L; k++)
    sched.push_back(v.at(i++));
  auto* engine = ker::EngineImpl::get_instance();
  auto* b      = bar->pimpl_;
  using Acq    = ker::activity::BarrierAcquisitionImpl;
  // pending barrier simcall of actor pid: -1 none, 0 ASYNC_LOCK, 1 WAIT (acq set)
  auto pending = [engine](long pid, Acq*& acq) -> int {
    acq     = nullptr;
    auto* a = engine->get_actor_by_pid(pid);
    if (a == nullptr || a->simcall_.call_ == ker::actor::Simcall::Type::NONE)
      return -1;
    auto* ob = dynamic_cast<ker::actor::BarrierObserver*>(a->simcall_.observer_);
    if (ob == nullptr)
      return -1;
    if (ob->type_ == simgrid::mc::Transition::Type::BARRIER_ASYNC_LOCK)
      return 0;
    acq = ob->acquisition_;
    return 1;
  };
  auto is_waiting = [engine](long pid, const Acq* acq) {
    auto* a = engine->get_actor_by_pid(pid);
    for (auto const& s : a->waiting_synchros_)
      if (s.get() == acq)
        return true;
    return false;
  };
  auto step = [&](long pid, int kind) {
    ev({5, kind, pid});
    engine->get_actor_by_pid(pid)->simcall_handle(0);
    execute_actors();
    std::vector<long long> xs;
    xs.push_back(6);
    xs.push_back((long long)b->ongoing_acquisitions_.size());
    for (auto const& q : b->ongoing_acquisitions_) {
      xs.push_back(q->get_issuer()->get_pid());
      xs.push_back(q->granted_ ? 1 : 0);
    }
    std::vector<long long> live;
    for (long p = 1; p <= nact; p++) {
      Acq* acq;
      if (pending(p, acq) == 1) {
        live.push_back(p);
        live.push_back(acq->granted_ ? 1 : 0);
        live.push_back(is_waiting(p, acq) ? 1 : 0);
      }
    }
    xs.push_back((long long)live.size() / 3);
    xs.insert(xs.end(), live.begin(), live.end());
    for (long long x : xs)
      buf += std::to_string(x) + " ";
    flush();
  };
  execute_actors();
  for (long long x : sched) {
    std::vector<std::pair<long, int>> cand;
    for (long p = 1; p <= nact; p++) {
      Acq* acq;
      int k = pending(p, acq);
      if (k == 0 || (k == 1 && not is_waiting(p, acq)))
        cand.emplace_back(p, k);
    }
    if (cand.empty())
      break;
    auto [p, k] = cand[(size_t)(x % (long long)cand.size())];
    step(p, k);
  }
  for (bool again = true; again;) {
    again = false;
    for (long p = 1; p <= nact; p++) {
      Acq* acq;
      if (pending(p, acq) == 1 && not is_waiting(p, acq)) {
        step(p, 1);
        again = true;
      }
    }
  }
  ev({9, 0, 0, 0, 0, now()});
  return 0;
}

static int run_case(const std::vector<long long>& v)
{
  if (not v.empty() && v[0] == -1)
    return run_split(v);
  size_t i = 0;
  int argc = 4;
  const char* args[] = {"k1_sync", "--log=root.thres:critical", "--cfg=contexts/nthreads:1", "--log=no_loc", nullptr};
  char** argv        = const_cast<char**>(args);
  sg4::Engine e(&argc, argv);
  auto* host = e.get_netzone_root()->add_host("h0", 1e9);
  e.get_netzone_root()->seal();
  objs      = new std::vector<Obj>();
  long nobj = v.at(i++);
  for (long k = 0; k < nobj; k++) {
    Obj o;
    o.kind  = (int)v.at(i++);
    o.param = v.at(i++);
    if (o.kind == 0)
      o.mu = sg4::Mutex::create(false);
    else if (o.kind == 1)
      o.mu = sg4::Mutex::create(true);
    else if (o.kind == 2)
      o.sem = sg4::Semaphore::create((unsigned)o.param);
    else
      o.bar = sg4::Barrier::create((unsigned)o.param);
    objs->push_back(o);
  }
  long nact = v.at(i++);
  for (long a = 0; a < nact; a++) {
    long nops = v.at(i++);
    std::vector<Op> prog;
    for (long k = 0; k < nops; k++) {
      Op p;
      p.op  = (int)v.at(i++);
      p.obj = (int)v.at(i++);
      p.arg = v.at(i++);
      prog.push_back(p);
    }
    host->add_actor("a" + std::to_string(a + 1), [prog] { body(prog); });
  }
  // At a deadlock every remaining actor is blocked for ever: what was observed is final.  Leave at once (the engine
  // would now kill the blocked actors, which is outside these properties).
  sg4::Engine::on_deadlock_cb([] {
    ev({9, 2, 0, 0, 0, now()});
    _exit(0);
  });
  sg4::Engine::on_time_advance_cb([](double) { ev({4, 0, 0, 0, 0, now()}); });
  e.run();
  ev({9, 0, 0, 0, 0, now()});
  return 0;
}

int main(int argc, char** argv)
{
  bool verbose = argc > 1 && std::string(argv[1]) == "-v";
  std::vector<long long> v;
  while (drv::next_case(v)) {
    fflush(stdout);
    pid_t c = fork();
    if (c == 0) {
      if (not verbose) {
        int fd = open("/dev/null", O_WRONLY);
        dup2(fd, 2);
      }
      try {
        run_case(v);
      } catch (std::exception const& ex) {
        buf += "9 3 0 0 0 0 ";
        flush();
      }
      flush();
      _exit(0);
    }
    int st = 0;
    waitpid(c, &st, 0);
    if (WIFSIGNALED(st) || (WIFEXITED(st) && WEXITSTATUS(st) != 0)) {
      std::string s = "9 1 0 0 0 0";
      ssize_t r     = write(1, s.data(), s.size());
      (void)r;
    }
    ssize_t r = write(1, "\n", 1);
    (void)r;
  }
  return 0;
}
