/* C30 driver: builds derived datatypes from an integer description and reports what the MPI library does with them.
 *
 * usage: smpirun -np 2 smpi_c30 CASEFILE
 * One case per line:   id count bufsize T
 *   T ::= 0 s                        basic type of s bytes (1 char, 2 short, 4 int, 8 double)
 *       | 1 n T                      contiguous
 *       | 2 n bl stride T            vector
 *       | 3 n bl bytestride T        hvector
 *       | 4 n (bl idx)^n T           indexed
 *       | 5 n (bl disp)^n T          hindexed
 *       | 6 n bl idx^n T             indexed_block
 *       | 7 n (bl disp T)^n          struct
 *       | 8 lb extent T              resized
 *       | 9 nd order (size sub start)^nd T   subarray (order 0 = C, 1 = Fortran)
 * Output (one line per observation, all by the rank that owns the destination buffer):
 *   L id size lb extent                       layout queries
 *   X id op n (dst src)^n                     op in PACK UNPACK SRTB SRBT SRTT P2P BCAST GATHER: every written byte of the
 *                                             poisoned destination with the index of the source byte found there
 *   E id what code                            an MPI call failed
 * Source bytes carry their own offset (two passes: low byte / high byte), destinations are poisoned with 0x00 / 0xFF,
 * so a byte is "written" iff it differs from the poison in one of the passes (offset 0xFF00 is never used).
 */
#include <mpi.h>
#include <stdio.h>
#include <stdlib.h>
#include <string.h>

static long* tok;
static int ntok, pos;
static int failed;
static long nxt(void)
{
  if (pos >= ntok) {
    failed = 1;
    return 0;
  }
  return tok[pos++];
}

static MPI_Datatype basic(long s)
{
  switch (s) {
    case 1: return MPI_CHAR;
    case 2: return MPI_SHORT;
    case 4: return MPI_INT;
    case 8: return MPI_DOUBLE;
    default: failed = 1; return MPI_CHAR;
  }
}

static int is_basic(MPI_Datatype t)
{
  return t == MPI_CHAR || t == MPI_SHORT || t == MPI_INT || t == MPI_DOUBLE;
}

static void drop(MPI_Datatype* t)
{
  if (*t != MPI_DATATYPE_NULL && !is_basic(*t))
    MPI_Type_free(t);
}

static int err_code;
#define TRY(call)                                                                                                      \
  do {                                                                                                                 \
    int rc_ = (call);                                                                                                  \
    if (rc_ != MPI_SUCCESS) {                                                                                          \
      failed   = 1;                                                                                                    \
      err_code = rc_;                                                                                                  \
    }                                                                                                                  \
  } while (0)

static MPI_Datatype build(void)
{
  long k          = nxt();
  MPI_Datatype nt = MPI_DATATYPE_NULL;
  if (failed)
    return nt;
  if (k == 0)
    return basic(nxt());
  if (k == 1) {
    int n          = nxt();
    MPI_Datatype o = build();
    if (!failed)
      TRY(MPI_Type_contiguous(n, o, &nt));
    drop(&o);
  } else if (k == 2) {
    int n = nxt(), bl = nxt(), st = nxt();
    MPI_Datatype o = build();
    if (!failed)
      TRY(MPI_Type_vector(n, bl, st, o, &nt));
    drop(&o);
  } else if (k == 3) {
    int n = nxt(), bl = nxt();
    MPI_Aint st    = nxt();
    MPI_Datatype o = build();
    if (!failed)
      TRY(MPI_Type_create_hvector(n, bl, st, o, &nt));
    drop(&o);
  } else if (k == 4 || k == 6) {
    int n   = nxt();
    int cbl = k == 6 ? nxt() : 0;
    if (n < 0 || n > 1000) {
      failed = 1;
      return nt;
    }
    int* bl = malloc(sizeof(int) * (n + 1));
    int* ix = malloc(sizeof(int) * (n + 1));
    for (int i = 0; i < n; i++) {
      bl[i] = k == 6 ? cbl : nxt();
      ix[i] = nxt();
    }
    MPI_Datatype o = build();
    if (!failed) {
      if (k == 4)
        TRY(MPI_Type_indexed(n, bl, ix, o, &nt));
      else
        TRY(MPI_Type_create_indexed_block(n, cbl, ix, o, &nt));
    }
    drop(&o);
    free(bl);
    free(ix);
  } else if (k == 5) {
    int n = nxt();
    if (n < 0 || n > 1000) {
      failed = 1;
      return nt;
    }
    int* bl      = malloc(sizeof(int) * (n + 1));
    MPI_Aint* ix = malloc(sizeof(MPI_Aint) * (n + 1));
    for (int i = 0; i < n; i++) {
      bl[i] = nxt();
      ix[i] = nxt();
    }
    MPI_Datatype o = build();
    if (!failed)
      TRY(MPI_Type_create_hindexed(n, bl, ix, o, &nt));
    drop(&o);
    free(bl);
    free(ix);
  } else if (k == 7) {
    int n = nxt();
    if (n < 0 || n > 1000) {
      failed = 1;
      return nt;
    }
    int* bl          = malloc(sizeof(int) * (n + 1));
    MPI_Aint* ix     = malloc(sizeof(MPI_Aint) * (n + 1));
    MPI_Datatype* ts = malloc(sizeof(MPI_Datatype) * (n + 1));
    for (int i = 0; i < n; i++) {
      bl[i] = nxt();
      ix[i] = nxt();
      ts[i] = build();
    }
    if (!failed)
      TRY(MPI_Type_create_struct(n, bl, ix, ts, &nt));
    for (int i = 0; i < n; i++)
      drop(&ts[i]);
    free(bl);
    free(ix);
    free(ts);
  } else if (k == 8) {
    MPI_Aint lb = nxt(), ex = nxt();
    MPI_Datatype o = build();
    if (!failed)
      TRY(MPI_Type_create_resized(o, lb, ex, &nt));
    drop(&o);
  } else if (k == 9) {
    int nd = nxt(), order = nxt();
    if (nd < 0 || nd > 16) {
      failed = 1;
      return nt;
    }
    int sz[17], sub[17], st[17];
    for (int i = 0; i < nd; i++) {
      sz[i]  = nxt();
      sub[i] = nxt();
      st[i]  = nxt();
    }
    MPI_Datatype o = build();
    if (!failed)
      TRY(MPI_Type_create_subarray(nd, sz, sub, st, order == 0 ? MPI_ORDER_C : MPI_ORDER_FORTRAN, o, &nt));
    drop(&o);
  } else
    failed = 1;
  if (!failed && nt != MPI_DATATYPE_NULL)
    TRY(MPI_Type_commit(&nt));
  return nt;
}

/* ---- observation machinery */
static int rank, count, tsize;
static long bufsize, csize;
static MPI_Datatype T;
static long id;

static void fill_src(unsigned char* b, long n, int pass)
{
  for (long k = 0; k < n; k++)
    b[k] = pass == 0 ? (unsigned char)(k & 0xff) : (unsigned char)((k >> 8) & 0xff);
}
static void poison(unsigned char* b, long n, int pass)
{
  memset(b, pass == 0 ? 0x00 : 0xFF, n);
}

enum { PACK, UNPACK, SRTB, SRBT, SRTT, P2P, BCAST, GATHER, NOPS };
static const char* opname[] = {"PACK", "UNPACK", "SRTB", "SRBT", "SRTT", "P2P", "BCAST", "GATHER"};

/* which rank owns (and reports) the destination of op; -1: both */
static int dst_rank(int op)
{
  return (op == P2P || op == BCAST) ? 1 : 0;
}
static int src_is_typed(int op)
{
  return op != UNPACK && op != SRBT;
}
static int dst_is_typed(int op)
{
  return op != PACK && op != SRTB;
}

static int do_op(int op, unsigned char* src, unsigned char* dst)
{
  int p = 0, rc = MPI_SUCCESS;
  MPI_Status st;
  switch (op) {
    case PACK:
      if (rank == 0)
        rc = MPI_Pack(src, count, T, dst, (int)csize, &p, MPI_COMM_WORLD);
      break;
    case UNPACK:
      if (rank == 0)
        rc = MPI_Unpack(src, (int)csize, &p, dst, count, T, MPI_COMM_WORLD);
      break;
    case SRTB:
      if (rank == 0)
        rc = MPI_Sendrecv(src, count, T, 0, 7, dst, (int)csize, MPI_BYTE, 0, 7, MPI_COMM_WORLD, &st);
      break;
    case SRBT:
      if (rank == 0)
        rc = MPI_Sendrecv(src, (int)csize, MPI_BYTE, 0, 8, dst, count, T, 0, 8, MPI_COMM_WORLD, &st);
      break;
    case SRTT:
      if (rank == 0)
        rc = MPI_Sendrecv(src, count, T, 0, 9, dst, count, T, 0, 9, MPI_COMM_WORLD, &st);
      break;
    case P2P:
      if (rank == 0)
        rc = MPI_Send(src, count, T, 1, 10, MPI_COMM_WORLD);
      else
        rc = MPI_Recv(dst, count, T, 0, 10, MPI_COMM_WORLD, &st);
      break;
    case BCAST:
      rc = MPI_Bcast(rank == 0 ? src : dst, count, T, 0, MPI_COMM_WORLD);
      break;
    case GATHER:
      /* every rank contributes count elements; root 0 receives rank r's contribution at r*count*extent */
      rc = MPI_Gather(src, count, T, dst, count, T, 0, MPI_COMM_WORLD);
      break;
  }
  return rc;
}

static void observe(int op)
{
  long sn = src_is_typed(op) ? bufsize : csize + 64;
  long dn = dst_is_typed(op) ? bufsize : csize + 64;
  if (op == GATHER)
    dn = 2 * bufsize;
  unsigned char* src = malloc(sn + 1);
  unsigned char* d0  = malloc(dn + 1);
  unsigned char* d1  = malloc(dn + 1);
  int rc0, rc1;
  fill_src(src, sn, 0);
  poison(d0, dn, 0);
  rc0 = do_op(op, src, d0);
  fill_src(src, sn, 1);
  poison(d1, dn, 1);
  rc1 = do_op(op, src, d1);
  if (rank == dst_rank(op)) {
    if (rc0 != MPI_SUCCESS || rc1 != MPI_SUCCESS)
      printf("E %ld %s %d\n", id, opname[op], rc0 != MPI_SUCCESS ? rc0 : rc1);
    else {
      long n = 0;
      for (long k = 0; k < dn; k++)
        if (d0[k] != 0x00 || d1[k] != 0xFF)
          n++;
      printf("X %ld %s %ld", id, opname[op], n);
      for (long k = 0; k < dn; k++)
        if (d0[k] != 0x00 || d1[k] != 0xFF)
          printf(" %ld %d", k, (int)d0[k] | ((int)d1[k] << 8));
      printf("\n");
    }
    fflush(stdout);
  }
  free(src);
  free(d0);
  free(d1);
}

int main(int argc, char** argv)
{
  MPI_Init(&argc, &argv);
  MPI_Comm_rank(MPI_COMM_WORLD, &rank);
  MPI_Comm_set_errhandler(MPI_COMM_WORLD, MPI_ERRORS_RETURN);
  FILE* f = fopen(argv[1], "r");
  if (!f) {
    fprintf(stderr, "cannot open %s\n", argv[1]);
    MPI_Abort(MPI_COMM_WORLD, 3);
  }
  size_t cap = 1 << 20;
  char* line = malloc(cap);
  tok        = malloc(sizeof(long) * (1 << 18));
  while (fgets(line, cap, f)) {
    ntok = 0;
    for (char* p = strtok(line, " \n"); p; p = strtok(NULL, " \n"))
      tok[ntok++] = atol(p);
    if (ntok < 4)
      continue;
    pos      = 0;
    failed   = 0;
    err_code = 0;
    id       = nxt();
    count    = nxt();
    bufsize  = nxt();
    long ops = nxt(); /* bit mask of the operations to run */
    T        = build();
    if (failed || T == MPI_DATATYPE_NULL) {
      if (rank == 0)
        printf("E %ld BUILD %d\n", id, err_code);
      if (T != MPI_DATATYPE_NULL)
        drop(&T);
      continue;
    }
    MPI_Aint lb, ex;
    MPI_Type_size(T, &tsize);
    MPI_Type_get_extent(T, &lb, &ex);
    csize = (long)tsize * count;
    if (rank == 0) {
      printf("L %ld %d %ld %ld\n", id, tsize, (long)lb, (long)ex);
      fflush(stdout);
    }
    for (int op = 0; op < NOPS; op++)
      if (ops & (1L << op))
        observe(op);
    drop(&T);
  }
  fclose(f);
  MPI_Finalize();
  return 0;
}
