/* C29: every collective algorithm computes the MPI result -- provenance-data harness.
 *
 * All ranks read the same case file (argv[1]); one case per line:   idx kind root count mode
 *   kind: 0 bcast 1 reduce 2 allreduce 3 gather 4 gatherv 5 scatter 6 scatterv 7 allgather 8 allgatherv 9 alltoall
 *         10 alltoallv 11 alltoallw 12 reduce_scatter 13 reduce_scatter_block 14 scan 15 exscan 16 barrier;
 *         +100 = the non-blocking version followed by MPI_Wait.
 *   mode: 0 = provenance data with weight 1; m > 0 = every contribution of rank r is scaled by w(r,m) = 1+((7r+m) mod 5)
 *         (reductions) / xor-masked (copies): different data, same expected decode (used for the obliviousness check).
 *         mode -1..-12 = "direct sample": kind must be reducing; (type,op) = see direct_*; raw values are printed.
 *
 * Provenance data.
 *   non-reducing collectives move cells of one uint64 label  (rank << 32 | index)   [index = position in the sender's
 *   logical send sequence]; receive buffers are pre-filled with the sentinel ~0.
 *   reducing collectives move cells of K=34 uint64 counters (a contiguous derived datatype) combined by a user-defined
 *   commutative MPI_Op that adds vectors: element i of rank r = w*e_r + w*i*e_{17+r}, i.e. the image of generator (r,i)
 *   of the free commutative monoid under a homomorphism that is injective on multisets with at most one contribution
 *   per rank (Coq: CollSpec.compact_faithful).
 *
 * Output: one line per rank and case:
 *   O idx rank rc elapsed_ns nruns { len shift m r1 i1 .. rm im }*
 *   a run denotes len consecutive cells; cell k of the run holds the multiset {(r_j, i_j + shift*k)}.
 *   Only the buffers MPI declares significant are printed (e.g. nothing for non-roots of reduce/gather, nothing for
 *   rank 0 of exscan).  Untouched cells decode to (-1,-1); undecodable garbage to (-2,x).
 *   barrier: O idx rank rc elapsed 1  1 0 1 enter_ns exit_ns
 *   direct samples: D idx rank rc n v1..vn   (values as integers; MAXLOC pairs as v,loc)
 */
#include <mpi.h>
#include <stdint.h>
#include <stdio.h>
#include <stdlib.h>
#include <string.h>
#include <math.h>

#define NR 17
#define K (2 * NR)
#define SENT (~(uint64_t)0)
#define MASK 0x5555000000005555ULL

/* no mutable globals: the program runs with smpi/privatization:no (all ranks share the address space) */
struct G {
  int np, me;
  MPI_Datatype VEC;
  MPI_Op VADD;
  char* ob;
  size_t on, oc;
};
#define np (g->np)
#define me (g->me)
#define VEC (g->VEC)
#define VADD (g->VADD)
#define ob (g->ob)
#define on (g->on)
#define oc (g->oc)
#define oput(v) oput_(g, (v))

static void vadd(void* in, void* inout, int* len, MPI_Datatype* dt)
{
  uint64_t* a = (uint64_t*)in;
  uint64_t* b = (uint64_t*)inout;
  for (long i = 0; i < (long)(*len) * K; i++)
    b[i] += a[i];
}

static int vcount(int c, int r) { return c + r % 3; }
static int a2acnt(int c, int q, int r) { return c + (q + 2 * r) % 3; } /* q sends to r */
static uint64_t weight(int r, int mode) { return mode > 0 ? 1 + (7 * r + mode) % 5 : 1; }

/* ---- output buffer */
static void oput_(struct G* g, long long v)
{
  if (on + 96 > oc) {
    oc = oc ? 2 * oc : 4096;
    ob = realloc(ob, oc);
  }
  on += sprintf(ob + on, " %lld", v);
}

/* decode label cells into runs */
#define MAXRUNS 400
static void emit_labels(struct G* g, const uint64_t* buf, long n, int mode)
{
  size_t at = on;
  oput(0);
  size_t after = on;
  long nruns = 0;
  long j = 0;
  while (j < n && nruns < MAXRUNS) {
    uint64_t x = buf[j];
    long len = 1;
    if (x == SENT) {
      while (j + len < n && buf[j + len] == SENT)
        len++;
      oput(len), oput(0), oput(1), oput(-1), oput(-1);
    } else {
      if (mode > 0)
        x ^= MASK;
      while (j + len < n && buf[j + len] != SENT && ((mode > 0 ? buf[j + len] ^ MASK : buf[j + len]) == x + len) &&
             ((x + len) >> 32) == (x >> 32))
        len++;
      long long r = (long long)(x >> 32), i = (long long)(x & 0xffffffffULL);
      if (r >= 64) {
        r = -2;
      }
      oput(len), oput(1), oput(1), oput(r), oput(i);
    }
    nruns++;
    j += len;
  }
  /* patch run count */
  char tmp[32];
  int l = sprintf(tmp, " %ld", nruns + (j < n ? 1000000 : 0));
  memmove(ob + at + l, ob + after, on - after);
  memcpy(ob + at, tmp, l);
  on = at + l + (on - after);
  ob[on] = 0;
}

/* is vector cell b the successor of cell a (same multiplicities, every index sum advanced by its multiplicity) */
static int vec_succ(const uint64_t* a, const uint64_t* b)
{
  for (int r = 0; r < NR; r++)
    if (a[r] != b[r] || b[NR + r] != a[NR + r] + a[r])
      return 0;
  return 1;
}
static int vec_sent(const uint64_t* a)
{
  for (int s = 0; s < K; s++)
    if (a[s] != SENT)
      return 0;
  return 1;
}

static void emit_vectors(struct G* g, const uint64_t* buf, long n, int mode)
{
  size_t at = on;
  oput(0);
  size_t after = on;
  long nruns = 0;
  long j = 0;
  while (j < n && nruns < MAXRUNS) {
    const uint64_t* c = buf + j * K;
    long len = 1;
    if (vec_sent(c)) {
      while (j + len < n && vec_sent(buf + (j + len) * K))
        len++;
      oput(len), oput(0), oput(1), oput(-1), oput(-1);
    } else {
      while (j + len < n && vec_succ(buf + (j + len - 1) * K, buf + (j + len) * K))
        len++;
      /* multiset of the first cell */
      size_t mat = on;
      long m = 0;
      oput(len), oput(1);
      size_t mpos = on;
      oput(0);
      size_t mafter = on;
      for (int r = 0; r < NR; r++) {
        uint64_t w = weight(r, mode), cnt = c[r], is = c[NR + r];
        if (cnt == 0 && is == 0)
          continue;
        if (cnt % w != 0 || is % w != 0 || cnt == 0) {
          oput(-2), oput(r), m++;
          continue;
        }
        cnt /= w, is /= w;
        if (cnt == 1) {
          oput(r), oput((long long)is), m++;
        } else { /* several contributions of rank r: wrong for every collective; index not recoverable */
          int rep = cnt > 3 ? 3 : (int)cnt;
          for (int t = 0; t < rep; t++)
            oput(r), oput((long long)is), m++;
        }
      }
      char tmp[32];
      int l = sprintf(tmp, " %ld", m);
      memmove(ob + mpos + l, ob + mafter, on - mafter);
      memcpy(ob + mpos, tmp, l);
      on = mpos + l + (on - mafter);
      ob[on] = 0;
      (void)mat;
    }
    nruns++;
    j += len;
  }
  char tmp[32];
  int l = sprintf(tmp, " %ld", nruns + (j < n ? 1000000 : 0));
  memmove(ob + at + l, ob + after, on - after);
  memcpy(ob + at, tmp, l);
  on = at + l + (on - after);
  ob[on] = 0;
}

static uint64_t* lab_alloc(long n, int fill_rank, int mode, long first)
{ /* n cells; if fill_rank>=0 fill with labels (fill_rank, first+j) else sentinel */
  uint64_t* b = malloc((n > 0 ? n : 1) * sizeof(uint64_t));
  for (long j = 0; j < n; j++) {
    b[j] = fill_rank >= 0 ? (((uint64_t)fill_rank << 32) | (uint64_t)(first + j)) : SENT;
    if (fill_rank >= 0 && mode > 0)
      b[j] ^= MASK;
  }
  return b;
}
static uint64_t* vec_alloc(long n, int fill_rank, int mode)
{
  uint64_t* b = malloc((n > 0 ? n : 1) * K * sizeof(uint64_t));
  if (fill_rank < 0) {
    memset(b, 0xff, (n > 0 ? n : 1) * K * sizeof(uint64_t));
    return b;
  }
  memset(b, 0, (n > 0 ? n : 1) * K * sizeof(uint64_t));
  uint64_t w = weight(fill_rank, mode);
  for (long j = 0; j < n; j++) {
    b[j * K + fill_rank]      = w;
    b[j * K + NR + fill_rank] = w * (uint64_t)j;
  }
  return b;
}

/* ---- direct samples: mode -1-(t*6+o), t in {0 int, 1 double}, o in {0 SUM 1 PROD 2 MAX 3 MIN 4 BXOR 5 MAXLOC} */
static long dval(int r, long i, int o)
{
  switch (o) {
    case 1:
      return 1 + (r + i) % 3; /* products stay below 3^17 */
    case 4:
      return (long)((r * 73 + i * 19 + 5) & 65535);
    default:
      return (long)((r * 37 + i * 11) % 101) - 50;
  }
}

static void direct(struct G* g, int idx, int kind, int root, int count, int mode)
{
  int code = -1 - mode, t = code / 6, o = code % 6;
  MPI_Op ops[6]    = {MPI_SUM, MPI_PROD, MPI_MAX, MPI_MIN, MPI_BXOR, MPI_MAXLOC};
  MPI_Datatype dt = t == 0 ? (o == 5 ? MPI_2INT : MPI_INT) : (o == 5 ? MPI_DOUBLE_INT : MPI_DOUBLE);
  int nb          = kind % 100;
  int nonblock    = kind >= 100;
  long nsend      = count, nrecv = count;
  int* rc_counts  = NULL;
  if (nb == 12 || nb == 13) {
    rc_counts = malloc(np * sizeof(int));
    nsend     = 0;
    for (int r = 0; r < np; r++) {
      rc_counts[r] = nb == 12 ? vcount(count, r) : count;
      nsend += rc_counts[r];
    }
    nrecv = rc_counts[me];
  }
  size_t es = t == 0 ? (o == 5 ? 2 * sizeof(int) : sizeof(int)) : (o == 5 ? sizeof(struct { double a; int b; }) : sizeof(double));
  char* sb  = calloc(nsend + 1, es);
  char* rb  = malloc((nrecv + 1) * es);
  memset(rb, 0x7f, (nrecv + 1) * es);
  for (long i = 0; i < nsend; i++) {
    long v = dval(me, i, o);
    if (t == 0 && o == 5) {
      ((int*)sb)[2 * i] = (int)v, ((int*)sb)[2 * i + 1] = me;
    } else if (t == 0) {
      ((int*)sb)[i] = (int)v;
    } else if (o == 5) {
      struct di {
        double a;
        int b;
      }* p = (struct di*)sb;
      p[i].a = (double)v, p[i].b = me;
    } else
      ((double*)sb)[i] = (double)v;
  }
  MPI_Request rq;
  int rc = -1, sig = 1;
  switch (nb) {
    case 1:
      rc  = nonblock ? MPI_Ireduce(sb, rb, count, dt, ops[o], root, MPI_COMM_WORLD, &rq) : MPI_Reduce(sb, rb, count, dt, ops[o], root, MPI_COMM_WORLD);
      sig = me == root;
      break;
    case 2:
      rc = nonblock ? MPI_Iallreduce(sb, rb, count, dt, ops[o], MPI_COMM_WORLD, &rq) : MPI_Allreduce(sb, rb, count, dt, ops[o], MPI_COMM_WORLD);
      break;
    case 12:
      rc = nonblock ? MPI_Ireduce_scatter(sb, rb, rc_counts, dt, ops[o], MPI_COMM_WORLD, &rq) : MPI_Reduce_scatter(sb, rb, rc_counts, dt, ops[o], MPI_COMM_WORLD);
      break;
    case 13:
      rc = nonblock ? MPI_Ireduce_scatter_block(sb, rb, count, dt, ops[o], MPI_COMM_WORLD, &rq) : MPI_Reduce_scatter_block(sb, rb, count, dt, ops[o], MPI_COMM_WORLD);
      break;
    case 14:
      rc = nonblock ? MPI_Iscan(sb, rb, count, dt, ops[o], MPI_COMM_WORLD, &rq) : MPI_Scan(sb, rb, count, dt, ops[o], MPI_COMM_WORLD);
      break;
    case 15:
      rc  = nonblock ? MPI_Iexscan(sb, rb, count, dt, ops[o], MPI_COMM_WORLD, &rq) : MPI_Exscan(sb, rb, count, dt, ops[o], MPI_COMM_WORLD);
      sig = me != 0;
      break;
    default:
      break;
  }
  if (nonblock && rc == MPI_SUCCESS)
    MPI_Wait(&rq, MPI_STATUS_IGNORE);
  on = 0;
  oput(idx), oput(me), oput(rc);
  long n = sig ? nrecv : 0;
  oput(o == 5 ? 2 * n : n);
  for (long i = 0; i < n; i++) {
    if (t == 0 && o == 5)
      oput(((int*)rb)[2 * i]), oput(((int*)rb)[2 * i + 1]);
    else if (t == 0)
      oput(((int*)rb)[i]);
    else if (o == 5) {
      struct di {
        double a;
        int b;
      }* p = (struct di*)rb;
      double a = p[i].a;
      oput(fabs(a) < 1e15 && a == floor(a) ? (long long)a : 999999999999LL), oput(p[i].b);
    } else {
      double a = ((double*)rb)[i];
      oput(fabs(a) < 1e15 && a == floor(a) ? (long long)a : 999999999999LL);
    }
  }
  printf("D%s\n", ob);
  fflush(stdout);
  free(sb), free(rb), free(rc_counts);
}

static void one_case(struct G* g, int idx, int kind, int root, int count, int mode)
{
  int nb       = kind % 100;
  int nonblock = kind >= 100;
  if (mode < 0) {
    direct(g, idx, kind, root, count, mode);
    return;
  }
  uint64_t *sb = NULL, *rb = NULL;
  long nrecv = 0; /* significant receive cells printed */
  int isvec  = 0;
  int rc     = -1;
  MPI_Request rq;
  MPI_Datatype L = MPI_UINT64_T;
  int *cnts = NULL, *dsp = NULL, *scnts = NULL, *sdsp = NULL;
  MPI_Datatype* types = NULL;
  long long t_enter = 0, t_exit = 0;
  MPI_Barrier(MPI_COMM_WORLD);
  double t0 = MPI_Wtime();
  switch (nb) {
    case 0: /* bcast */
      sb    = me == root ? lab_alloc(count, me, mode, 0) : lab_alloc(count, -1, mode, 0);
      rc    = nonblock ? MPI_Ibcast(sb, count, L, root, MPI_COMM_WORLD, &rq) : MPI_Bcast(sb, count, L, root, MPI_COMM_WORLD);
      rb    = sb, sb = NULL;
      nrecv = count;
      break;
    case 1: /* reduce */
      isvec = 1;
      sb    = vec_alloc(count, me, mode);
      rb    = vec_alloc(count, -1, mode);
      rc    = nonblock ? MPI_Ireduce(sb, rb, count, VEC, VADD, root, MPI_COMM_WORLD, &rq) : MPI_Reduce(sb, rb, count, VEC, VADD, root, MPI_COMM_WORLD);
      nrecv = me == root ? count : 0;
      break;
    case 2:
      isvec = 1;
      sb    = vec_alloc(count, me, mode);
      rb    = vec_alloc(count, -1, mode);
      rc    = nonblock ? MPI_Iallreduce(sb, rb, count, VEC, VADD, MPI_COMM_WORLD, &rq) : MPI_Allreduce(sb, rb, count, VEC, VADD, MPI_COMM_WORLD);
      nrecv = count;
      break;
    case 3: /* gather */
      sb    = lab_alloc(count, me, mode, 0);
      rb    = lab_alloc((long)count * np, -1, mode, 0);
      rc    = nonblock ? MPI_Igather(sb, count, L, rb, count, L, root, MPI_COMM_WORLD, &rq) : MPI_Gather(sb, count, L, rb, count, L, root, MPI_COMM_WORLD);
      nrecv = me == root ? (long)count * np : 0;
      break;
    case 4: /* gatherv: counts vcount, one untouched gap cell after every block */
    case 8: /* allgatherv */
    {
      cnts = malloc(np * sizeof(int)), dsp = malloc(np * sizeof(int));
      long tot = 0;
      for (int r = 0; r < np; r++) {
        cnts[r] = vcount(count, r), dsp[r] = (int)tot;
        tot += cnts[r] + 1;
      }
      sb = lab_alloc(cnts[me], me, mode, 0);
      rb = lab_alloc(tot, -1, mode, 0);
      if (nb == 4) {
        rc    = nonblock ? MPI_Igatherv(sb, cnts[me], L, rb, cnts, dsp, L, root, MPI_COMM_WORLD, &rq) : MPI_Gatherv(sb, cnts[me], L, rb, cnts, dsp, L, root, MPI_COMM_WORLD);
        nrecv = me == root ? tot : 0;
      } else {
        rc    = nonblock ? MPI_Iallgatherv(sb, cnts[me], L, rb, cnts, dsp, L, MPI_COMM_WORLD, &rq) : MPI_Allgatherv(sb, cnts[me], L, rb, cnts, dsp, L, MPI_COMM_WORLD);
        nrecv = tot;
      }
      break;
    }
    case 5: /* scatter */
      sb    = lab_alloc(me == root ? (long)count * np : 0, me, mode, 0);
      rb    = lab_alloc(count, -1, mode, 0);
      rc    = nonblock ? MPI_Iscatter(sb, count, L, rb, count, L, root, MPI_COMM_WORLD, &rq) : MPI_Scatter(sb, count, L, rb, count, L, root, MPI_COMM_WORLD);
      nrecv = count;
      break;
    case 6: /* scatterv: a poisoned gap cell after every block of the send buffer */
    {
      cnts = malloc(np * sizeof(int)), dsp = malloc(np * sizeof(int));
      long tot = 0, logical = 0;
      for (int r = 0; r < np; r++) {
        cnts[r] = vcount(count, r), dsp[r] = (int)tot;
        tot += cnts[r] + 1;
      }
      sb = lab_alloc(tot, 63, 0, 0x70000000); /* poison */
      if (me == root)
        for (int r = 0; r < np; r++)
          for (int k = 0; k < cnts[r]; k++, logical++)
            sb[dsp[r] + k] = (((uint64_t)me << 32) | (uint64_t)logical) ^ (mode > 0 ? MASK : 0);
      rb    = lab_alloc(cnts[me], -1, mode, 0);
      rc    = nonblock ? MPI_Iscatterv(sb, cnts, dsp, L, rb, cnts[me], L, root, MPI_COMM_WORLD, &rq) : MPI_Scatterv(sb, cnts, dsp, L, rb, cnts[me], L, root, MPI_COMM_WORLD);
      nrecv = cnts[me];
      break;
    }
    case 7: /* allgather */
      sb    = lab_alloc(count, me, mode, 0);
      rb    = lab_alloc((long)count * np, -1, mode, 0);
      rc    = nonblock ? MPI_Iallgather(sb, count, L, rb, count, L, MPI_COMM_WORLD, &rq) : MPI_Allgather(sb, count, L, rb, count, L, MPI_COMM_WORLD);
      nrecv = (long)count * np;
      break;
    case 9: /* alltoall */
      sb    = lab_alloc((long)count * np, me, mode, 0);
      rb    = lab_alloc((long)count * np, -1, mode, 0);
      rc    = nonblock ? MPI_Ialltoall(sb, count, L, rb, count, L, MPI_COMM_WORLD, &rq) : MPI_Alltoall(sb, count, L, rb, count, L, MPI_COMM_WORLD);
      nrecv = (long)count * np;
      break;
    case 10: /* alltoallv */
    case 11: /* alltoallw */
    {
      scnts = malloc(np * sizeof(int)), sdsp = malloc(np * sizeof(int));
      cnts = malloc(np * sizeof(int)), dsp = malloc(np * sizeof(int));
      long stot = 0, rtot = 0, logical = 0;
      for (int r = 0; r < np; r++) {
        scnts[r] = a2acnt(count, me, r), sdsp[r] = (int)stot;
        stot += scnts[r] + 1;
        cnts[r] = a2acnt(count, r, me), dsp[r] = (int)rtot;
        rtot += cnts[r] + 1;
      }
      sb = lab_alloc(stot, 63, 0, 0x70000000);
      for (int r = 0; r < np; r++)
        for (int k = 0; k < scnts[r]; k++, logical++)
          sb[sdsp[r] + k] = (((uint64_t)me << 32) | (uint64_t)logical) ^ (mode > 0 ? MASK : 0);
      rb = lab_alloc(rtot, -1, mode, 0);
      if (nb == 10)
        rc = nonblock ? MPI_Ialltoallv(sb, scnts, sdsp, L, rb, cnts, dsp, L, MPI_COMM_WORLD, &rq) : MPI_Alltoallv(sb, scnts, sdsp, L, rb, cnts, dsp, L, MPI_COMM_WORLD);
      else {
        types = malloc(np * sizeof(MPI_Datatype));
        for (int r = 0; r < np; r++)
          types[r] = L, sdsp[r] *= 8, dsp[r] *= 8;
        rc = nonblock ? MPI_Ialltoallw(sb, scnts, sdsp, types, rb, cnts, dsp, types, MPI_COMM_WORLD, &rq) : MPI_Alltoallw(sb, scnts, sdsp, types, rb, cnts, dsp, types, MPI_COMM_WORLD);
      }
      nrecv = rtot;
      break;
    }
    case 12: /* reduce_scatter with counts vcount */
    case 13: /* reduce_scatter_block */
    {
      isvec    = 1;
      cnts     = malloc(np * sizeof(int));
      long tot = 0;
      for (int r = 0; r < np; r++) {
        cnts[r] = nb == 12 ? vcount(count, r) : count;
        tot += cnts[r];
      }
      sb = vec_alloc(tot, me, mode);
      rb = vec_alloc(cnts[me], -1, mode);
      if (nb == 12)
        rc = nonblock ? MPI_Ireduce_scatter(sb, rb, cnts, VEC, VADD, MPI_COMM_WORLD, &rq) : MPI_Reduce_scatter(sb, rb, cnts, VEC, VADD, MPI_COMM_WORLD);
      else
        rc = nonblock ? MPI_Ireduce_scatter_block(sb, rb, count, VEC, VADD, MPI_COMM_WORLD, &rq) : MPI_Reduce_scatter_block(sb, rb, count, VEC, VADD, MPI_COMM_WORLD);
      nrecv = cnts[me];
      break;
    }
    case 14:
    case 15:
      isvec = 1;
      sb    = vec_alloc(count, me, mode);
      rb    = vec_alloc(count, -1, mode);
      if (nb == 14)
        rc = nonblock ? MPI_Iscan(sb, rb, count, VEC, VADD, MPI_COMM_WORLD, &rq) : MPI_Scan(sb, rb, count, VEC, VADD, MPI_COMM_WORLD);
      else
        rc = nonblock ? MPI_Iexscan(sb, rb, count, VEC, VADD, MPI_COMM_WORLD, &rq) : MPI_Exscan(sb, rb, count, VEC, VADD, MPI_COMM_WORLD);
      nrecv = (nb == 15 && me == 0) ? 0 : count;
      break;
    case 16: { /* barrier: rank-dependent arrival dates; nobody may leave before the last one has entered */
      long d = ((long)(me * 5 + root) % np) * 1000 * (1 + count % 3);
      if (d > 0)
        usleep(d);
      t_enter = llround(MPI_Wtime() * 1e9);
      rc      = nonblock ? MPI_Ibarrier(MPI_COMM_WORLD, &rq) : MPI_Barrier(MPI_COMM_WORLD);
      break;
    }
    default:
      break;
  }
  if (nonblock && rc == MPI_SUCCESS)
    MPI_Wait(&rq, MPI_STATUS_IGNORE);
  double t1 = MPI_Wtime();
  t_exit    = llround(t1 * 1e9);
  on        = 0;
  oput(idx), oput(me), oput(rc), oput(llround((t1 - t0) * 1e12));
  if (nb == 16) {
    oput(1), oput(1), oput(0), oput(1), oput(t_enter), oput(t_exit);
  } else if (rc != MPI_SUCCESS) {
    oput(0);
  } else if (isvec)
    emit_vectors(g, rb, nrecv, mode);
  else
    emit_labels(g, rb, nrecv, mode);
  printf("O%s\n", ob);
  fflush(stdout);
  free(sb), free(rb), free(cnts), free(dsp), free(scnts), free(sdsp), free(types);
}

int main(int argc, char** argv)
{
  MPI_Init(&argc, &argv);
  struct G* g = calloc(1, sizeof(struct G));
  MPI_Comm_rank(MPI_COMM_WORLD, &me);
  MPI_Comm_size(MPI_COMM_WORLD, &np);
  if (np > NR) {
    fprintf(stderr, "at most %d ranks\n", NR);
    MPI_Abort(MPI_COMM_WORLD, 2);
  }
  MPI_Type_contiguous(K, MPI_UINT64_T, &VEC);
  MPI_Type_commit(&VEC);
  MPI_Op_create(vadd, 1, &VADD);
  FILE* f = fopen(argv[1], "r");
  if (!f) {
    fprintf(stderr, "cannot open %s\n", argv[1]);
    MPI_Abort(MPI_COMM_WORLD, 2);
  }
  int idx, kind, root, count, mode;
  while (fscanf(f, "%d %d %d %d %d", &idx, &kind, &root, &count, &mode) == 5) {
    one_case(g, idx, kind, root, count, mode);
  }
  fclose(f);
  MPI_Barrier(MPI_COMM_WORLD);
  if (me == 0) {
    printf("E done\n");
    fflush(stdout);
  }
  MPI_Op_free(&VADD);
  MPI_Type_free(&VEC);
  MPI_Finalize();
  return 0;
}
