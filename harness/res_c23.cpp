// C23: a generated workload on hosts/links with power profiles; samples load/pstate/on-off at each time advance and
// reports the energies of the plugins.  One case per input line, one observation line per case, forked per case.
//   input : H <nh> {cores npst {speed idle eps max}*npst woff init_pstate}*nh
//           L <nl> {bw lat idle busy}*nl   R <nr> {src dst n link*n}*nr   O <nops> {op}*
//           op: sleep d | exec h flops threads | pstate h p | off h | on h | comm src dst bytes | query h | lquery l
//   output: "T dt {on ps load}*nh {load bw}*nl" per time advance, "Q h clock energy", "K l clock energy",
//           final "E {energy}*nh" and "G {energy}*nl", all on one line separated by " ; ".
#include "drv.hpp"
#include <simgrid/plugins/energy.h>
#include <simgrid/s4u.hpp>
#include <sys/wait.h>
#include <unistd.h>
namespace sg4 = simgrid::s4u;

static double num(const std::string& s)
{
  return strtod(s.c_str(), nullptr);
}
static std::string g17(double x)
{
  char b[64];
  snprintf(b, sizeof b, "%.17g", x);
  return b;
}

struct Op {
  std::string kind;
  std::vector<std::string> a;
};

static void run_case(const std::vector<std::string>& t)
{
  std::vector<std::string> args = {"res_c23", "--log=root.thres:critical"};
  std::vector<char*> argv;
  for (auto& a : args)
    argv.push_back(const_cast<char*>(a.c_str()));
  argv.push_back(nullptr);
  int argc = (int)args.size();
  auto& e    = *new sg4::Engine(&argc, argv.data());
  sg_host_energy_plugin_init();
  sg_link_energy_plugin_init();
  auto* zone = e.get_netzone_root();
  size_t p   = 0;
  std::vector<sg4::Host*> hosts;
  std::vector<sg4::Link*> links;
  std::vector<Op> ops;
  std::string out;

  if (t.at(p++) != "H")
    throw std::runtime_error("H expected");
  int nh = (int)num(t.at(p++));
  std::vector<int> init_pstate;
  for (int i = 0; i < nh; i++) {
    int cores = (int)num(t.at(p++));
    int npst  = (int)num(t.at(p++));
    std::vector<double> speeds;
    std::string watts;
    for (int k = 0; k < npst; k++) {
      speeds.push_back(num(t.at(p)));
      watts += (k ? "," : "") + t.at(p + 1) + ":" + t.at(p + 2) + ":" + t.at(p + 3);
      p += 4;
    }
    auto* h = zone->add_host("h" + std::to_string(i), speeds);
    h->set_core_count(cores);
    h->set_property("wattage_per_state", watts);
    h->set_property("wattage_off", t.at(p++));
    init_pstate.push_back((int)num(t.at(p++)));
    hosts.push_back(h);
  }
  auto* ctl = zone->add_host("ctl", 1e9);
  ctl->set_property("wattage_per_state", "1:1:1");
  if (t.at(p++) != "L")
    throw std::runtime_error("L expected");
  int nl = (int)num(t.at(p++));
  for (int i = 0; i < nl; i++) {
    auto* l = zone->add_link("l" + std::to_string(i), num(t.at(p)))->set_latency(num(t.at(p + 1)));
    l->set_property("wattage_range", t.at(p + 2) + ":" + t.at(p + 3));
    links.push_back(l);
    p += 4;
  }
  if (t.at(p++) != "R")
    throw std::runtime_error("R expected");
  int nr = (int)num(t.at(p++));
  for (int i = 0; i < nr; i++) {
    int s = (int)num(t.at(p)), d = (int)num(t.at(p + 1)), n = (int)num(t.at(p + 2));
    p += 3;
    std::vector<const sg4::Link*> r;
    for (int k = 0; k < n; k++)
      r.push_back(links.at((int)num(t.at(p++))));
    zone->add_route(hosts.at(s), hosts.at(d), r);
  }
  zone->seal();
  for (int i = 0; i < nh; i++)
    if (init_pstate[i] != 0)
      hosts[i]->set_pstate(init_pstate[i]);
  if (t.at(p++) != "O")
    throw std::runtime_error("O expected");
  int nops = (int)num(t.at(p++));
  for (int i = 0; i < nops; i++) {
    Op op;
    op.kind = t.at(p++);
    int n   = op.kind == "sleep" || op.kind == "off" || op.kind == "on" || op.kind == "query" || op.kind == "lquery" ? 1
              : op.kind == "pstate"                                                                                 ? 2
                                                                                                                    : 3;
    for (int k = 0; k < n; k++)
      op.a.push_back(t.at(p++));
    ops.push_back(op);
  }

  sg4::Engine::on_time_advance_cb([&](double dt) {
    out += "T " + g17(dt);
    for (auto* h : hosts)
      out += std::string(" ") + (h->is_on() ? "1" : "0") + " " + std::to_string(h->get_pstate()) + " " + g17(h->get_load());
    for (auto* l : links)
      out += " " + g17(l->get_load()) + " " + g17(l->get_bandwidth());
    out += " ; ";
  });

  ctl->add_actor("ctl", [&]() {
    std::vector<sg4::ActivityPtr> pending;
    for (auto const& op : ops) {
      try {
        if (op.kind == "sleep") {
          sg4::this_actor::sleep_for(num(op.a[0]));
        } else if (op.kind == "exec") {
          auto* h = hosts.at((int)num(op.a[0]));
          if (h->is_on()) {
            auto x = sg4::Exec::init()->set_flops_amount(num(op.a[1]))->set_host(h);
            int th = (int)num(op.a[2]);
            if (th > 1)
              x->set_thread_count(th);
            x->start();
            pending.push_back(x);
          }
        } else if (op.kind == "pstate") {
          hosts.at((int)num(op.a[0]))->set_pstate((int)num(op.a[1]));
        } else if (op.kind == "off") {
          hosts.at((int)num(op.a[0]))->turn_off();
        } else if (op.kind == "on") {
          hosts.at((int)num(op.a[0]))->turn_on();
        } else if (op.kind == "comm") {
          auto* a = hosts.at((int)num(op.a[0]));
          auto* b = hosts.at((int)num(op.a[1]));
          if (a->is_on() && b->is_on())
            pending.push_back(sg4::Comm::sendto_async(a, b, (uint64_t)strtoull(op.a[2].c_str(), nullptr, 10)));
        } else if (op.kind == "query") {
          int i = (int)num(op.a[0]);
          out += "Q " + std::to_string(i) + " " + g17(sg4::Engine::get_clock()) + " " + g17(sg_host_get_consumed_energy(hosts.at(i))) + " ; ";
        } else if (op.kind == "lquery") {
          int i = (int)num(op.a[0]);
          out += "K " + std::to_string(i) + " " + g17(sg4::Engine::get_clock()) + " " + g17(sg_link_get_consumed_energy(links.at(i))) + " ; ";
        }
      } catch (std::exception const&) {
      }
    }
    for (auto& a : pending) {
      try {
        a->wait();
      } catch (std::exception const&) {
      }
    }
    out += "E";
    for (auto* h : hosts)
      out += " " + g17(sg_host_get_consumed_energy(h));
    out += " ; G";
    for (auto* l : links)
      out += " " + g17(sg_link_get_consumed_energy(l));
  });
  e.run();
  printf("%s\n", out.c_str());
}

int main()
{
  std::vector<std::string> t;
  while (drv::next_tokens(t)) {
    fflush(stdout);
    pid_t pid = fork();
    if (pid == 0) {
      try {
        run_case(t);
      } catch (std::exception const& ex) {
        printf("ERR exception %s\n", ex.what());
      }
      fflush(stdout);
      _exit(0);
    }
    int st = 0;
    waitpid(pid, &st, 0);
    if (not WIFEXITED(st) || WEXITSTATUS(st) != 0) {
      printf("ERR crash status=%d\n", st);
      fflush(stdout);
    }
  }
  return 0;
}
