/* C32: groups and communicators.  All ranks read the same case file (argv[1]); one case per line.
 *   G op n1 a1.. n2 b1.. [n3 c1..]   group algebra on rank 0 (groups given as lists of world ranks, built with Group_incl)
 *        op: 0 union 1 intersection 2 difference 3 incl(g1, ranks) 4 excl(g1, ranks) 5 range_incl(g1, triples)
 *            6 range_excl(g1, triples) 7 translate_ranks(g1, ranks, g3) 8 compare
 *        -> <i> 0 G rc members-as-world-ranks..        (translate: rc ranks2..; compare: 0 result)
 *   S c1..cnp k1..knp                 Comm_split of MPI_COMM_WORLD (colour -333 = MPI_UNDEFINED)
 *        -> <i> <w> S 0 | 1 newrank size members-as-world-ranks..
 *           <i> <w> X comm_compare(new,dup) group_compare(new,dup) group_compare(new, Comm_create(new, group(new))) msg
 *                    msg: 1 = the two messages sent on new and dup were received on their own communicator, 0 = crossed,
 *                         2 = not a participant
 *           <i> <w> K 0 | 1 rank size members..        (Comm_create(new, first half of new's group))
 * MPI_PROC_NULL is written -1000, MPI_UNDEFINED is -333 in SMPI.  PMPI_ entry points return error codes. */
#include <mpi.h>
#include <stdio.h>
#include <stdlib.h>
#include <string.h>

#define MAXN 64
static MPI_Group world_group;

static int take(long* v, int* pos, int* out)
{
  int n = (int)v[(*pos)++];
  for (int i = 0; i < n; i++)
    out[i] = (int)v[(*pos)++];
  return n;
}
static MPI_Group mk(int n, int* ranks)
{
  MPI_Group g = MPI_GROUP_EMPTY;
  if (n > 0)
    PMPI_Group_incl(world_group, n, ranks, &g);
  return g;
}
static void print_members(MPI_Group g)
{
  int sz = 0, r1[MAXN], r2[MAXN];
  PMPI_Group_size(g, &sz);
  for (int i = 0; i < sz; i++)
    r1[i] = i;
  if (sz > 0)
    PMPI_Group_translate_ranks(g, sz, r1, world_group, r2);
  for (int i = 0; i < sz; i++)
    printf(" %d", r2[i]);
}

int main(int argc, char** argv)
{
  MPI_Init(&argc, &argv);
  int w, np;
  MPI_Comm_rank(MPI_COMM_WORLD, &w);
  MPI_Comm_size(MPI_COMM_WORLD, &np);
  MPI_Comm_group(MPI_COMM_WORLD, &world_group);
  FILE* f = fopen(argv[1], "r");
  if (!f) {
    fprintf(stderr, "cannot open %s\n", argv[1]);
    MPI_Abort(MPI_COMM_WORLD, 2);
  }
  static char line[1 << 14];
  int idx = -1;
  while (fgets(line, sizeof line, f)) {
    idx++;
    char* s = line;
    char kind = 0;
    int used = 0;
    if (sscanf(s, " %c%n", &kind, &used) != 1)
      continue;
    s += used;
    long v[1024];
    int nv = 0;
    char* e;
    for (;;) {
      long x = strtol(s, &e, 10);
      if (e == s)
        break;
      v[nv++] = x;
      s = e;
    }
    if (kind == 'G') {
      if (w != 0)
        continue;
      int pos = 0, op = (int)v[pos++], a[MAXN], b[3 * MAXN], c[MAXN];
      int n1 = take(v, &pos, a);
      int n2 = take(v, &pos, b);
      MPI_Group g1 = mk(n1, a), res = MPI_GROUP_NULL;
      int rc = MPI_SUCCESS;
      if (op == 8) {
        MPI_Group g2 = mk(n2, b);
        int result = -1;
        rc = PMPI_Group_compare(g1, g2, &result);
        printf("%d 0 G %d %d\n", idx, rc == MPI_SUCCESS ? 0 : 1, result);
        continue;
      }
      if (op == 7) {
        int n3 = take(v, &pos, c), r2[MAXN];
        MPI_Group g3 = mk(n3, c);
        for (int i = 0; i < n2; i++)
          if (b[i] == -1000)
            b[i] = MPI_PROC_NULL;
        rc = PMPI_Group_translate_ranks(g1, n2, b, g3, r2);
        printf("%d 0 G %d", idx, rc == MPI_SUCCESS ? 0 : 1);
        if (rc == MPI_SUCCESS)
          for (int i = 0; i < n2; i++)
            printf(" %d", r2[i] == MPI_PROC_NULL ? -1000 : r2[i]);
        printf("\n");
        continue;
      }
      if (op <= 2) {
        MPI_Group g2 = mk(n2, b);
        rc = op == 0 ? PMPI_Group_union(g1, g2, &res) : op == 1 ? PMPI_Group_intersection(g1, g2, &res) : PMPI_Group_difference(g1, g2, &res);
      } else if (op == 3) {
        rc = PMPI_Group_incl(g1, n2, b, &res);
      } else if (op == 4) {
        rc = PMPI_Group_excl(g1, n2, b, &res);
      } else {
        int(*ranges)[3] = (int(*)[3])b;
        rc = op == 5 ? PMPI_Group_range_incl(g1, n2 / 3, ranges, &res) : PMPI_Group_range_excl(g1, n2 / 3, ranges, &res);
      }
      printf("%d 0 G %d", idx, rc == MPI_SUCCESS ? 0 : 1);
      if (rc == MPI_SUCCESS)
        print_members(res);
      printf("\n");
      continue;
    }
    /* S */
    int color = (int)v[w], key = (int)v[np + w];
    MPI_Comm nc = MPI_COMM_NULL;
    PMPI_Comm_split(MPI_COMM_WORLD, color == -333 ? MPI_UNDEFINED : color, key, &nc);
    if (nc == MPI_COMM_NULL) {
      printf("%d %d S 0\n", idx, w);
      continue;
    }
    int nr, ns;
    MPI_Group ng;
    MPI_Comm_rank(nc, &nr);
    MPI_Comm_size(nc, &ns);
    MPI_Comm_group(nc, &ng);
    printf("%d %d S 1 %d %d", idx, w, nr, ns);
    print_members(ng);
    printf("\n");
    /* dup / create / messages */
    MPI_Comm dup = MPI_COMM_NULL, cr = MPI_COMM_NULL;
    MPI_Group dg, cg;
    int ccmp = -1, gcmp = -1, crcmp = -1, msg = 2;
    PMPI_Comm_dup(nc, &dup);
    PMPI_Comm_compare(nc, dup, &ccmp);
    MPI_Comm_group(dup, &dg);
    PMPI_Group_compare(ng, dg, &gcmp);
    PMPI_Comm_create(nc, ng, &cr);
    if (cr != MPI_COMM_NULL) {
      MPI_Comm_group(cr, &cg);
      PMPI_Group_compare(ng, cg, &crcmp);
    }
    if (ns >= 2 && nr <= 1) {
      int one = 1, two = 2, x = 0, y = 0;
      if (nr == 0) {
        MPI_Request rq[2];
        MPI_Isend(&two, 1, MPI_INT, 1, 7, dup, &rq[0]);
        MPI_Isend(&one, 1, MPI_INT, 1, 7, nc, &rq[1]);
        MPI_Waitall(2, rq, MPI_STATUSES_IGNORE);
        msg = 1;
      } else {
        MPI_Recv(&x, 1, MPI_INT, 0, 7, nc, MPI_STATUS_IGNORE);
        MPI_Recv(&y, 1, MPI_INT, 0, 7, dup, MPI_STATUS_IGNORE);
        msg = (x == 1 && y == 2) ? 1 : 0;
      }
    }
    printf("%d %d X %d %d %d %d\n", idx, w, ccmp, gcmp, crcmp, msg);
    /* Comm_create on the first half of the group */
    int half = (ns + 1) / 2, hr[MAXN];
    for (int i = 0; i < half; i++)
      hr[i] = i;
    MPI_Group hg;
    MPI_Comm hc = MPI_COMM_NULL;
    PMPI_Group_incl(ng, half, hr, &hg);
    PMPI_Comm_create(nc, hg, &hc);
    if (hc == MPI_COMM_NULL) {
      printf("%d %d K 0\n", idx, w);
    } else {
      int kr, ks;
      MPI_Group kg;
      MPI_Comm_rank(hc, &kr);
      MPI_Comm_size(hc, &ks);
      MPI_Comm_group(hc, &kg);
      printf("%d %d K 1 %d %d", idx, w, kr, ks);
      print_members(kg);
      printf("\n");
      MPI_Comm_free(&hc);
    }
    if (cr != MPI_COMM_NULL)
      MPI_Comm_free(&cr);
    MPI_Comm_free(&dup);
    MPI_Comm_free(&nc);
  }
  fclose(f);
  MPI_Finalize();
  return 0;
}
