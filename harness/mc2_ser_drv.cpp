// C43 driver: the real mc::Channel, the real observers' serialize() and the real deserialize_transition(), in one
// process over a socketpair (the same loop-back mc_record.cpp uses for replays).
//   pack   <prim>...                 prim = b:<0|1> | i<bytes><s|u>:<value> | s:<c1,c2,...>      -> bytes on the wire
//   unpack <types> : <bytes>         types = b | i<bytes><s|u> | s                               -> values read
//   deser  <bytes>                   -> T <tag> <values...> R <unread>   | DIED <signal> | TIMEOUT
//   obs    <kind> <params>           -> B <bytes> E <tag> <expected values>       (objects are created on demand)
//   sizes                            -> sizeof of the C++ types behind the wire types
#include <csignal>
#include <fcntl.h>
#include <cstring>
#include <functional>
#include <iostream>
#include <memory>
#include <sstream>
#include <string>
#include <sys/socket.h>
#include <sys/wait.h>
#include <unistd.h>
#include <vector>
#include "src/kernel/activity/BarrierImpl.hpp"
#include "src/kernel/activity/CommImpl.hpp"
#include "src/kernel/activity/ConditionVariableImpl.hpp"
#include "src/kernel/activity/MailboxImpl.hpp"
#include "src/kernel/activity/MessImpl.hpp"
#include "src/kernel/activity/MessageQueueImpl.hpp"
#include "src/kernel/activity/MutexImpl.hpp"
#include "src/kernel/activity/SemaphoreImpl.hpp"
#include "src/kernel/actor/ActorImpl.hpp"
#include "src/kernel/actor/CommObserver.hpp"
#include "src/kernel/actor/SimcallObserver.hpp"
#include "src/kernel/actor/SynchroObserver.hpp"
#include "src/kernel/actor/WaitTestObserver.hpp"
#include "src/mc/remote/Channel.hpp"
#include "src/mc/transition/Transition.hpp"
#include "src/mc/transition/TransitionActor.hpp"
#include "src/mc/transition/TransitionAny.hpp"
#include "src/mc/transition/TransitionComm.hpp"
#include "src/mc/transition/TransitionRandom.hpp"
#include "src/mc/transition/TransitionSynchro.hpp"
#include <simgrid/s4u.hpp>
// compiled with -fno-access-control: the transitions' fields are read directly

using namespace simgrid;
using mc::Transition;
namespace act = simgrid::kernel::activity;
namespace kactor = simgrid::kernel::actor;

static std::vector<std::string> split(const std::string& s, char sep)
{
  std::vector<std::string> r;
  std::string cur;
  for (char c : s) {
    if (c == sep) {
      r.push_back(cur);
      cur.clear();
    } else
      cur += c;
  }
  r.push_back(cur);
  return r;
}
static std::string str_of_codes(const std::string& s)
{
  std::string r;
  if (s.empty())
    return r;
  for (auto const& t : split(s, ','))
    r += (char)std::stoi(t);
  return r;
}
static std::string codes_of_str(const std::string& s)
{
  std::string r = "s" + std::to_string(s.size()) + ":";
  for (size_t i = 0; i < s.size(); i++)
    r += (i ? "," : "") + std::to_string((unsigned char)s[i]);
  return r;
}

struct Loop {
  int sv[2];
  std::unique_ptr<mc::Channel> a, b;
  Loop()
  {
    xbt_assert(socketpair(AF_UNIX, SOCK_STREAM, 0, sv) == 0);
    a = std::make_unique<mc::Channel>(sv[0]);
    b = std::make_unique<mc::Channel>(sv[1]);
  }
  std::vector<unsigned char> drain() // flush a, read raw bytes from b's socket
  {
    if (a->buffer_out_size_ > 0)
      a->send();
    std::vector<unsigned char> out;
    unsigned char buf[4096];
    ssize_t n;
    while ((n = recv(sv[1], buf, sizeof buf, MSG_DONTWAIT)) > 0)
      out.insert(out.end(), buf, buf + n);
    return out;
  }
  void inject(std::vector<unsigned char> const& bytes) // raw bytes towards b, then close the writing side
  {
    size_t done = 0;
    while (done < bytes.size()) {
      ssize_t n = ::send(sv[0], bytes.data() + done, bytes.size() - done, 0);
      xbt_assert(n > 0);
      done += n;
    }
    shutdown(sv[0], SHUT_WR);
  }
};

static void print_bytes(std::vector<unsigned char> const& v)
{
  for (size_t i = 0; i < v.size(); i++)
    printf("%s%u", i ? " " : "", v[i]);
}

static void pack_prim(mc::Channel& ch, const std::string& tok)
{
  auto p        = tok.find(':');
  std::string k = tok.substr(0, p), v = tok.substr(p + 1);
  if (k == "b")
    ch.pack<bool>(v == "1");
  else if (k == "s")
    ch.pack<std::string>(str_of_codes(v));
  else if (k == "i1s")
    ch.pack<signed char>((signed char)std::stoll(v));
  else if (k == "i1u")
    ch.pack<unsigned char>((unsigned char)std::stoull(v));
  else if (k == "i2s")
    ch.pack<short>((short)std::stoll(v));
  else if (k == "i2u")
    ch.pack<unsigned short>((unsigned short)std::stoull(v));
  else if (k == "i4s")
    ch.pack<int>((int)std::stoll(v));
  else if (k == "i4u")
    ch.pack<unsigned>((unsigned)std::stoull(v));
  else if (k == "i8s")
    ch.pack<long>(std::stoll(v));
  else if (k == "i8u")
    ch.pack<unsigned long>(std::stoull(v));
  else if (k == "p")
    ch.pack<void*>((void*)std::stoull(v));
  else
    xbt_die("bad prim %s", tok.c_str());
}
static std::string unpack_prim(mc::Channel& ch, const std::string& k)
{
  if (k == "b")
    return std::to_string((int)ch.unpack<bool>());
  if (k == "s")
    return codes_of_str(ch.unpack<std::string>());
  if (k == "i1s")
    return std::to_string((long long)ch.unpack<signed char>());
  if (k == "i1u")
    return std::to_string((unsigned long long)ch.unpack<unsigned char>());
  if (k == "i2s")
    return std::to_string((long long)ch.unpack<short>());
  if (k == "i2u")
    return std::to_string((unsigned long long)ch.unpack<unsigned short>());
  if (k == "i4s")
    return std::to_string((long long)ch.unpack<int>());
  if (k == "i4u")
    return std::to_string((unsigned long long)ch.unpack<unsigned>());
  if (k == "i8s")
    return std::to_string((long long)ch.unpack<long>());
  if (k == "i8u")
    return std::to_string((unsigned long long)ch.unpack<unsigned long>());
  if (k == "p")
    return std::to_string((unsigned long long)ch.unpack<void*>());
  xbt_die("bad type %s", k.c_str());
}

// canonical values of a decoded transition, in the order the constructor reads them
static std::string describe(const Transition* t)
{
  std::ostringstream o;
  o << (int)t->type_;
  using T = Transition::Type;
  switch (t->type_) {
    case T::RANDOM: {
      auto* x = static_cast<const mc::RandomTransition*>(t);
      o << " " << x->min_ << " " << x->max_;
      break;
    }
    case T::ACTOR_JOIN: {
      auto* x = static_cast<const mc::ActorJoinTransition*>(t);
      o << " " << x->target_.c_val() << " " << x->timeout_;
      break;
    }
    case T::ACTOR_CREATE:
      o << " " << static_cast<const mc::ActorCreateTransition*>(t)->child_.c_val();
      break;
    case T::ACTOR_SLEEP:
    case T::ACTOR_EXIT:
    case T::UNKNOWN:
      break;
    case T::BARRIER_ASYNC_LOCK:
    case T::BARRIER_WAIT:
      o << " " << static_cast<const mc::BarrierTransition*>(t)->bar_;
      break;
    case T::COMM_ASYNC_RECV: {
      auto* x = static_cast<const mc::CommRecvTransition*>(t);
      o << " " << x->comm_ << " " << x->mbox_ << " " << x->tag_ << " " << codes_of_str(t->get_call_location());
      break;
    }
    case T::COMM_ASYNC_SEND: {
      auto* x = static_cast<const mc::CommSendTransition*>(t);
      o << " " << x->comm_ << " " << x->mbox_ << " " << x->tag_ << " " << codes_of_str(t->get_call_location());
      break;
    }
    case T::COMM_IPROBE: {
      auto* x = static_cast<const mc::CommIprobeTransition*>(t);
      o << " " << x->mbox_ << " " << x->is_sender_ << " " << x->tag_;
      break;
    }
    case T::COMM_TEST: {
      auto* x = static_cast<const mc::CommTestTransition*>(t);
      o << " " << x->comm_ << " " << x->sender_.c_val() << " " << x->receiver_.c_val() << " " << x->mbox_ << " "
        << codes_of_str(t->get_call_location());
      break;
    }
    case T::COMM_WAIT: {
      auto* x = static_cast<const mc::CommWaitTransition*>(t);
      o << " " << x->timeout_ << " " << x->comm_ << " " << x->sender_.c_val() << " " << x->receiver_.c_val() << " "
        << x->mbox_ << " " << codes_of_str(t->get_call_location());
      break;
    }
    case T::MUTEX_ASYNC_LOCK:
    case T::MUTEX_TEST:
    case T::MUTEX_TRYLOCK:
    case T::MUTEX_UNLOCK:
    case T::MUTEX_WAIT: {
      auto* x = static_cast<const mc::MutexTransition*>(t);
      o << " " << x->mutex_ << " " << x->owner_.c_val();
      break;
    }
    case T::SEM_ASYNC_LOCK:
    case T::SEM_UNLOCK:
    case T::SEM_WAIT: {
      auto* x = static_cast<const mc::SemaphoreTransition*>(t);
      o << " " << x->sem_ << " " << x->granted_ << " " << x->capacity_;
      break;
    }
    case T::CONDVAR_ASYNC_LOCK: {
      auto* x = static_cast<const mc::CondvarTransition*>(t);
      o << " " << x->condvar_ << " " << x->mutex_;
      break;
    }
    case T::CONDVAR_WAIT: {
      auto* x = static_cast<const mc::CondvarTransition*>(t);
      o << " " << x->condvar_ << " " << x->mutex_ << " " << x->granted_ << " " << x->timeout_;
      break;
    }
    case T::CONDVAR_SIGNAL:
    case T::CONDVAR_BROADCAST:
      o << " " << static_cast<const mc::CondvarTransition*>(t)->condvar_;
      break;
    case T::TESTANY: {
      auto* x = static_cast<const mc::TestAnyTransition*>(t);
      o << " [" << x->transitions_.size();
      for (auto* s : x->transitions_)
        o << " ( " << describe(s) << " )";
      o << " ] " << codes_of_str(t->get_call_location());
      break;
    }
    case T::WAITANY: {
      auto* x = static_cast<const mc::WaitAnyTransition*>(t);
      o << " [" << x->transitions_.size();
      for (auto* s : x->transitions_)
        o << " ( " << describe(s) << " )";
      o << " ] " << codes_of_str(t->get_call_location());
      break;
    }
    default:
      o << " ?";
  }
  return o.str();
}

// ---------------------------------------------------------------------------------------------- real objects
static std::vector<s4u::MutexPtr> mutexes;
static std::vector<s4u::SemaphorePtr> sems;
static std::vector<s4u::BarrierPtr> bars;
static std::vector<s4u::ConditionVariablePtr> cvs;
static std::vector<act::CommImplPtr> comms;
static std::vector<kactor::ActorImpl*> actors;

static std::string aid_of(kactor::ActorImplPtr const& a)
{
  return std::to_string(a ? a->get_pid() : -1);
}

static void do_obs(std::vector<std::string> const& tk)
{
  Loop lp;
  std::ostringstream e;
  const std::string& kind = tk.at(1);
  auto I                  = [&tk](size_t i) { return std::stol(tk.at(i)); };
  kactor::ActorImpl* me   = actors.at(0);
  if (kind == "random") {
    kactor::RandomSimcall o{me, (int)I(2), (int)I(3)};
    o.serialize(*lp.a);
    e << "RandomSimcall " << (int)Transition::Type::RANDOM << " " << I(2) << " " << I(3);
  } else if (kind == "create") {
    kactor::ActorCreateSimcall o{me};
    o.child_ = I(2);
    o.serialize(*lp.a);
    e << "ActorCreateSimcall " << (int)Transition::Type::ACTOR_CREATE << " " << I(2);
  } else if (kind == "join") {
    kactor::ActorJoinSimcall o{me, actors.at(I(2) % actors.size()), (double)I(3)};
    o.serialize(*lp.a);
    e << "ActorJoinSimcall " << (int)Transition::Type::ACTOR_JOIN << " " << actors.at(I(2) % actors.size())->get_pid()
      << " " << (I(3) > 0);
  } else if (kind == "exit") {
    kactor::ActorExitSimcall o{me};
    o.serialize(*lp.a);
    e << "ActorExitSimcall " << (int)Transition::Type::ACTOR_EXIT;
  } else if (kind == "mutex") {
    auto* m = mutexes.at(I(3) % mutexes.size())->pimpl_;
    kactor::MutexObserver o{me, (Transition::Type)I(2), m};
    o.serialize(*lp.a);
    e << "MutexObserver " << I(2) << " " << m->get_id() << " " << aid_of(m->get_owner());
  } else if (kind == "sem") {
    auto* s = sems.at(I(3) % sems.size())->pimpl_;
    kactor::SemaphoreObserver o{me, (Transition::Type)I(2), s};
    o.serialize(*lp.a);
    e << "SemaphoreObserver " << I(2) << " " << s->get_id() << " 0 "
      << (int)(s->get_capacity() - s->ongoing_acquisitions_.size());
  } else if (kind == "barrier") {
    auto* b = bars.at(I(2) % bars.size())->pimpl_;
    kactor::BarrierObserver o{me, Transition::Type::BARRIER_ASYNC_LOCK, b};
    o.serialize(*lp.a);
    e << "BarrierObserver " << (int)Transition::Type::BARRIER_ASYNC_LOCK << " " << b->get_id();
  } else if (kind == "cvsig") {
    auto* c = cvs.at(I(3) % cvs.size())->pimpl_;
    kactor::ConditionVariableObserver o{me, (Transition::Type)I(2), c};
    o.serialize(*lp.a);
    e << "ConditionVariableObserver " << I(2) << " " << c->get_id();
  } else if (kind == "cvlock") {
    auto* c = cvs.at(I(2) % cvs.size())->pimpl_;
    auto* m = mutexes.at(I(3) % mutexes.size())->pimpl_;
    kactor::ConditionVariableObserver o{me, Transition::Type::CONDVAR_ASYNC_LOCK, c, m};
    o.serialize(*lp.a);
    e << "ConditionVariableObserver " << (int)Transition::Type::CONDVAR_ASYNC_LOCK << " " << c->get_id() << " "
      << m->get_id();
  } else if (kind == "isend" || kind == "irecv") {
    auto* mb        = s4u::Mailbox::by_name("mb" + tk.at(2))->get_impl();
    std::string loc = str_of_codes(tk.size() > 3 ? tk.at(3) : "");
    if (kind == "isend") {
      kactor::CommIsendSimcall o{me, mb, 1.0, -1.0, nullptr, 0, nullptr, nullptr, nullptr, nullptr, false, loc};
      o.serialize(*lp.a);
      e << "CommIsendSimcall " << (int)Transition::Type::COMM_ASYNC_SEND << " 0 " << mb->get_id() << " 0 "
        << codes_of_str(loc);
    } else {
      kactor::CommIrecvSimcall o{me, mb, nullptr, nullptr, nullptr, nullptr, nullptr, -1.0, loc};
      o.serialize(*lp.a);
      e << "CommIrecvSimcall " << (int)Transition::Type::COMM_ASYNC_RECV << " 0 " << mb->get_id() << " 0 "
        << codes_of_str(loc);
    }
  } else if (kind == "wait" || kind == "test") {
    auto c          = comms.at(I(2) % comms.size());
    std::string loc = str_of_codes(tk.size() > 4 ? tk.at(4) : "");
    if (kind == "wait") {
      kactor::ActivityWaitSimcall o{me, c.get(), (double)I(3), loc};
      o.serialize(*lp.a);
      e << "ActivityWaitSimcall " << (int)Transition::Type::COMM_WAIT << " " << (I(3) > 0) << " " << c->get_id() << " "
        << aid_of(c->src_actor_) << " " << aid_of(c->dst_actor_) << " " << c->get_mailbox_id() << " "
        << codes_of_str(loc);
    } else {
      kactor::ActivityTestSimcall o{me, c.get(), loc};
      o.serialize(*lp.a);
      e << "ActivityTestSimcall " << (int)Transition::Type::COMM_TEST << " " << c->get_id() << " "
        << aid_of(c->src_actor_) << " " << aid_of(c->dst_actor_) << " " << c->get_mailbox_id() << " "
        << codes_of_str(loc);
    }
  } else if (kind == "waitany" || kind == "testany") { // waitany <timeout> <loc> <c1> <c2> ...
    std::vector<act::ActivityImpl*> v;
    std::string loc = str_of_codes(tk.at(3));
    for (size_t i = 4; i < tk.size(); i++)
      v.push_back(comms.at(I(i) % comms.size()).get());
    bool w = kind == "waitany";
    if (w) {
      kactor::ActivityWaitanySimcall o{me, v, (double)I(2), loc};
      o.serialize(*lp.a);
    } else {
      kactor::ActivityTestanySimcall o{me, v, loc};
      o.serialize(*lp.a);
    }
    e << (w ? "ActivityWaitanySimcall " : "ActivityTestanySimcall ")
      << (int)(w ? Transition::Type::WAITANY : Transition::Type::TESTANY) << " [" << v.size();
    for (auto* a : v) {
      auto* c = static_cast<act::CommImpl*>(a);
      e << " ( " << (int)(w ? Transition::Type::COMM_WAIT : Transition::Type::COMM_TEST);
      if (w)
        e << " " << (I(2) > 0);
      e << " " << c->get_id() << " " << aid_of(c->src_actor_) << " " << aid_of(c->dst_actor_) << " "
        << c->get_mailbox_id() << " " << codes_of_str(loc) << " )";
    }
    e << " ] " << codes_of_str(loc);
  } else if (kind == "messput" || kind == "messget") {
    fflush(stdout);
    pid_t pid = fork();
    if (pid == 0) {
      alarm(15);
      int devnull = open("/dev/null", O_WRONLY);
      dup2(devnull, 2);
      auto* q = s4u::MessageQueue::by_name("q" + tk.at(2))->get_impl();
      int payload = 0;
      if (kind == "messput") {
        kactor::MessIputSimcall o{me, q, nullptr, &payload, false};
        o.serialize(*lp.a);
      } else {
        kactor::MessIgetSimcall o{me, q, nullptr, nullptr, &payload};
        o.serialize(*lp.a);
      }
      printf("B ");
      print_bytes(lp.drain());
      printf(" E %s ?\n", kind == "messput" ? "MessIputSimcall" : "MessIgetSimcall");
      fflush(stdout);
      _exit(0);
    }
    int st = 0;
    waitpid(pid, &st, 0);
    if (WIFSIGNALED(st))
      printf("%s %d\n", WTERMSIG(st) == SIGALRM ? "TIMEOUT" : "DIED", WTERMSIG(st));
    else if (WEXITSTATUS(st) != 0)
      printf("DIED exit%d\n", WEXITSTATUS(st));
    return;
  } else
    xbt_die("unknown observer kind %s", kind.c_str());
  printf("B ");
  print_bytes(lp.drain());
  printf(" E %s\n", e.str().c_str());
}

static void do_deser(std::vector<std::string> const& tk)
{
  fflush(stdout);
  pid_t pid = fork();
  if (pid == 0) {
    alarm(15);
    Loop lp;
    std::vector<unsigned char> bytes;
    for (size_t i = 1; i < tk.size(); i++)
      bytes.push_back((unsigned char)std::stoi(tk[i]));
    lp.inject(bytes);
    int devnull = open("/dev/null", O_WRONLY);
    dup2(devnull, 2);
    Transition* t = mc::deserialize_transition(mc::Aid{3u}, 0, *lp.b);
    printf("T %s R %zu\n", describe(t).c_str(), lp.b->buffer_in_size_);
    fflush(stdout);
    _exit(0);
  }
  int st = 0;
  waitpid(pid, &st, 0);
  if (WIFSIGNALED(st))
    printf("%s %d\n", WTERMSIG(st) == SIGALRM ? "TIMEOUT" : "DIED", WTERMSIG(st));
  else if (WEXITSTATUS(st) != 0)
    printf("DIED exit%d\n", WEXITSTATUS(st));
}

int main(int argc, char** argv)
{
  s4u::Engine e(&argc, argv);
  auto* zone = e.get_netzone_root();
  std::vector<s4u::Host*> hosts;
  for (int i = 0; i < 4; i++)
    hosts.push_back(zone->add_host("h" + std::to_string(i), 1e9));
  zone->seal();
  for (int i = 0; i < 4; i++)
    actors.push_back(hosts[i]->add_actor("a" + std::to_string(i), []() {})->get_impl());
  for (int i = 0; i < 4; i++) {
    mutexes.push_back(s4u::Mutex::create());
    sems.push_back(s4u::Semaphore::create(i + 1));
    bars.push_back(s4u::Barrier::create(2 + i));
    cvs.push_back(s4u::ConditionVariable::create());
  }
  for (int i = 0; i < 6; i++) { // communications in various stages
    act::CommImplPtr c(new act::CommImpl());
    auto* mb = s4u::Mailbox::by_name("cm" + std::to_string(i % 3))->get_impl();
    c->set_mailbox(mb);
    if (i % 2 == 0)
      c->src_actor_ = actors[i % 4];
    if (i % 3 != 1)
      c->dst_actor_ = actors[(i + 1) % 4];
    comms.push_back(c);
  }

  std::string line;
  while (std::getline(std::cin, line)) {
    std::istringstream is(line);
    std::vector<std::string> tk;
    std::string t;
    while (is >> t)
      tk.push_back(t);
    if (tk.empty()) {
      printf("\n");
      continue;
    }
    if (tk[0] == "sizes") {
      printf("bool %zu int %zu unsigned %zu long %zu aid_t %zu ptr %zu ushort %zu type %zu\n", sizeof(bool), sizeof(int),
             sizeof(unsigned), sizeof(long), sizeof(aid_t), sizeof(void*), sizeof(unsigned short),
             sizeof(Transition::Type));
    } else if (tk[0] == "pack") {
      Loop lp;
      for (size_t i = 1; i < tk.size(); i++)
        pack_prim(*lp.a, tk[i]);
      print_bytes(lp.drain());
      printf("\n");
    } else if (tk[0] == "unpack") {
      Loop lp;
      size_t i = 1;
      std::vector<std::string> types;
      for (; i < tk.size() && tk[i] != ":"; i++)
        types.push_back(tk[i]);
      std::vector<unsigned char> bytes;
      for (i++; i < tk.size(); i++)
        bytes.push_back((unsigned char)std::stoi(tk[i]));
      lp.inject(bytes);
      for (size_t k = 0; k < types.size(); k++)
        printf("%s%s", k ? " " : "", unpack_prim(*lp.b, types[k]).c_str());
      printf(" R %zu\n", lp.b->buffer_in_size_);
    } else if (tk[0] == "deser") {
      do_deser(tk);
    } else if (tk[0] == "obs") {
      do_obs(tk);
    } else
      printf("?\n");
    fflush(stdout);
  }
  fflush(stdout);
  _exit(0);
}
