// c11_restart_drv — auto-restart of actors after host reboots and their on_exit callbacks (property C11).
// One case per input line (integers, same encoding as the Coq model SGV.Kernel.Restart.run_c11_restart):
//   nh nv victim* nsteps (code arg)*        tick = 1/4 s
//   victim = host mode kill npre pre* npost post* nbeh beh*      beh = auto nstart start* nlate late* life
//     mode 0: plain actor; 1: main calls set_auto_restart(true) between the pre and the post registrations;
//          2/3: deployment-style boot record (ProcessArg without on_exit list, auto_restart = true/false) + create(arg)
//     kill > 0: kill time (ticks) set by main before set_auto_restart / stored in the boot record
//     the i-th incarnation (i = how many times the victim's code started before) follows beh[min(i, nbeh-1)]:
//     registers start*, calls set_auto_restart(true) on itself when auto, one tick later registers late*, returns
//     4*life+2 ticks after its start.
//   The controller (host H0) acts at the dates 1 s, 2 s, ...: code 1 = turn_off(H<arg>), 2 = turn_on(H<arg>),
//     3 = kill the latest incarnation of victim <arg>, other = nothing.
// Each case runs in a forked child. Output line, entries separated by " | ":
//   C pid victim host date   the code of an incarnation starts        G pid tag date   on_exit registered on actor pid
//   A pid date               set_auto_restart(true) called on pid     X pid tag date   callback tag runs in dying actor pid
//   T pid date               Actor::on_termination                    E date           end of the simulation
#include "drv.hpp"
#include <simgrid/s4u.hpp>
#include <map>
#include <set>
#include <sys/wait.h>
#include <unistd.h>
#include "src/kernel/actor/ActorImpl.hpp"
#include "src/kernel/resource/HostImpl.hpp"

namespace sg4 = simgrid::s4u;

struct Beh {
  bool autor = false;
  std::vector<long long> start, late;
  long long life = 0;
};
struct Victim {
  long long host = 1, mode = 0, kill = 0;
  std::vector<long long> pre, post;
  std::vector<Beh> beh;
};
static std::vector<Victim> victims;
static std::vector<std::pair<long long, long long>> steps;
static std::map<long long, int> started;
static std::map<long long, sg4::ActorPtr> latest;
static std::set<long> alive;
static FILE* out;
static const double tick = 0.25;

static void reg(const sg4::ActorPtr& a, long long tag)
{
  a->on_exit([tag](bool) {
    fprintf(out, "X %ld %lld %.17g | ", (long)sg4::this_actor::get_pid(), tag, sg4::Engine::get_clock());
  });
  fprintf(out, "G %ld %lld %.17g | ", (long)a->get_pid(), tag, sg4::Engine::get_clock());
}

static void victim_code(long long v)
{
  const Victim& sp = victims[v - 1];
  sg4::ActorPtr me = sg4::Actor::self();
  long pid         = me->get_pid();
  int inc          = started[v]++;
  latest[v]        = me;
  alive.insert(pid);
  fprintf(out, "C %ld %lld %s %.17g | ", pid, v, me->get_host()->get_cname() + 1, sg4::Engine::get_clock());
  Beh none;
  const Beh& b = sp.beh.empty() ? none : sp.beh[std::min<size_t>(inc, sp.beh.size() - 1)];
  for (long long tag : b.start)
    reg(me, tag);
  if (b.autor) {
    me->set_auto_restart(true);
    fprintf(out, "A %ld %.17g | ", pid, sg4::Engine::get_clock());
  }
  double rest = (4 * b.life + 2) * tick;
  if (not b.late.empty()) {
    sg4::this_actor::sleep_for(tick);
    for (long long tag : b.late)
      reg(me, tag);
    rest -= tick;
  }
  sg4::this_actor::sleep_for(rest);
}

static void controller()
{
  for (auto const& [code, arg] : steps) {
    sg4::this_actor::sleep_for(1.0);
    sg4::Host* h = (code == 1 || code == 2) && arg >= 1 ? sg4::Host::by_name_or_null("H" + std::to_string(arg)) : nullptr;
    if (code == 1 && h)
      h->turn_off();
    else if (code == 2 && h)
      h->turn_on();
    else if (code == 3 && latest.count(arg) && alive.count(latest[arg]->get_pid()))
      latest[arg]->kill();
  }
}

static size_t take_list(const std::vector<long long>& v, size_t pos, std::vector<long long>& dst)
{
  long long n = pos < v.size() ? v[pos++] : 0;
  for (long long i = 0; i < n && pos < v.size(); i++)
    dst.push_back(v[pos++]);
  return pos;
}

static int run_case(const std::vector<long long>& v)
{
  size_t pos = 0;
  auto next  = [&]() -> long long { return pos < v.size() ? v[pos++] : 0; };
  long long nh = next(), nv = next();
  victims.clear();
  for (long long i = 0; i < nv; i++) {
    Victim sp;
    sp.host = next();
    sp.mode = next();
    sp.kill = next();
    pos     = take_list(v, pos, sp.pre);
    pos     = take_list(v, pos, sp.post);
    long long nb = next();
    for (long long j = 0; j < nb; j++) {
      Beh b;
      b.autor = next() != 0;
      pos     = take_list(v, pos, b.start);
      pos     = take_list(v, pos, b.late);
      b.life  = next();
      sp.beh.push_back(b);
    }
    victims.push_back(sp);
  }
  long long ns = next();
  steps.clear();
  for (long long i = 0; i < ns; i++) {
    long long c = next(), a = next();
    steps.emplace_back(c, a);
  }

  const char* args[] = {"c11_restart_drv", "--log=root.thres:critical", nullptr};
  int argc           = 2;
  char** argv        = const_cast<char**>(args);
  sg4::Engine e(&argc, argv);
  auto* zone = e.get_netzone_root();
  std::vector<sg4::Host*> hs;
  for (long long h = 0; h <= nh; h++)
    hs.push_back(zone->add_host("H" + std::to_string(h), 1.0));
  zone->seal();
  sg4::Actor::on_termination_cb([](sg4::Actor const& a) {
    alive.erase(a.get_pid());
    fprintf(out, "T %ld %.17g | ", (long)a.get_pid(), sg4::Engine::get_clock());
  });
  for (long long v = 1; v <= nv; v++) {
    const Victim& sp = victims[v - 1];
    if (sp.host < 1 || sp.host > nh)
      continue;
    sg4::Host* host = hs[sp.host];
    std::string name = "v" + std::to_string(v);
    if (sp.mode <= 1) {
      sg4::ActorPtr a = host->add_actor(name, [v]() { victim_code(v); });
      for (long long tag : sp.pre)
        reg(a, tag);
      if (sp.kill > 0)
        a->set_kill_time(sp.kill * tick);
      if (sp.mode == 1) {
        a->set_auto_restart(true);
        fprintf(out, "A %ld %.17g | ", (long)a->get_pid(), sg4::Engine::get_clock());
      }
      for (long long tag : sp.post)
        reg(a, tag);
    } else { // what sg_platf_new_actor does for an <actor> of the deployment file whose start_time is not in the future
      auto* arg = new simgrid::kernel::actor::ProcessArg(name, [v]() { victim_code(v); }, nullptr, host,
                                                         sp.kill > 0 ? sp.kill * tick : -1.0, {}, sp.mode == 2,
                                                         /*daemon=*/false, /*restart_count=*/0);
      host->get_impl()->add_actor_at_boot(arg);
      simgrid::kernel::actor::ActorImplPtr impl = simgrid::kernel::actor::ActorImpl::create(arg);
      sg4::ActorPtr a                           = impl->get_iface();
      for (long long tag : sp.pre)
        reg(a, tag);
      for (long long tag : sp.post)
        reg(a, tag);
    }
  }
  hs[0]->add_actor("controller", controller);
  e.run();
  fprintf(out, "E %.17g", sg4::Engine::get_clock());
  fflush(out);
  return 0;
}

int main()
{
  std::vector<long long> v;
  while (drv::next_case(v)) {
    fflush(stdout);
    int fds[2];
    if (pipe(fds) != 0)
      return 3;
    pid_t c = fork();
    if (c == 0) {
      close(fds[0]);
      out = fdopen(fds[1], "w");
      setvbuf(out, nullptr, _IONBF, 0);
      alarm(90);
      run_case(v);
      fflush(out);
      _exit(0);
    }
    close(fds[1]);
    std::string got;
    char buf[4096];
    ssize_t r;
    while ((r = read(fds[0], buf, sizeof buf)) > 0)
      got.append(buf, r);
    close(fds[0]);
    int st = 0;
    waitpid(c, &st, 0);
    for (auto& ch : got)
      if (ch == '\n')
        ch = ' ';
    if (WIFSIGNALED(st))
      printf("%s CRASH signal %d\n", got.c_str(), WTERMSIG(st));
    else if (WEXITSTATUS(st) != 0)
      printf("%s CRASH exit %d\n", got.c_str(), WEXITSTATUS(st));
    else
      printf("%s\n", got.c_str());
  }
  return 0;
}
