// mc2_prog: small S4U programs run under simgrid-mc (C43: one per observable simcall kind; C41: programs with a
// reachable failure).   usage: mc2_prog <platform.xml> <scenario> [p1 [p2]]
#include <simgrid/modelchecker.h>
#include <simgrid/s4u.hpp>
#include <string>
#include <vector>

XBT_LOG_NEW_DEFAULT_CATEGORY(mc2_prog, "mc2 scenarios");
namespace sg4 = simgrid::s4u;

static int P1 = 0, P2 = 0;
static int shared = 0;

// ------------------------------------------------------------------------------------------------ C43 scenarios
static void sc_mutex(std::vector<sg4::Host*> const& h)
{
  auto mtx = sg4::Mutex::create();
  for (int i = 0; i < 2; i++)
    h[i]->add_actor("m" + std::to_string(i), [mtx]() {
      mtx->lock();
      shared++;
      mtx->unlock();
      if (mtx->try_lock())
        mtx->unlock();
    });
}
static void sc_semaphore(std::vector<sg4::Host*> const& h)
{
  auto sem = sg4::Semaphore::create(P1 > 0 ? P1 : 1);
  for (int i = 0; i < 2; i++)
    h[i]->add_actor("s" + std::to_string(i), [sem]() {
      sem->acquire();
      shared++;
      sem->release();
    });
}
static void sc_barrier(std::vector<sg4::Host*> const& h)
{
  auto bar = sg4::Barrier::create(2);
  for (int i = 0; i < 2; i++)
    h[i]->add_actor("b" + std::to_string(i), [bar]() { bar->wait(); });
}
static void sc_condvar(std::vector<sg4::Host*> const& h)
{
  auto mtx  = sg4::Mutex::create();
  auto cv   = sg4::ConditionVariable::create();
  auto flag = std::make_shared<bool>(false);
  h[0]->add_actor("waiter", [mtx, cv, flag]() {
    std::unique_lock lock(*mtx);
    while (not *flag)
      cv->wait(lock);
  });
  h[1]->add_actor("signaler", [mtx, cv, flag]() {
    {
      std::unique_lock lock(*mtx);
      *flag = true;
    }
    if (P1 % 2)
      cv->notify_all();
    else
      cv->notify_one();
  });
}
static void sc_comm(std::vector<sg4::Host*> const& h)
{
  std::string name = "mb" + std::to_string(P1);
  h[0]->add_actor("recv", [name]() {
    auto* mb = sg4::Mailbox::by_name(name);
    auto msg = mb->get_unique<int>();
    xbt_assert(*msg == 42 + P2);
  });
  h[1]->add_actor("send", [name]() { sg4::Mailbox::by_name(name)->put(new int(42 + P2), 1); });
}
static void sc_commtest(std::vector<sg4::Host*> const& h)
{
  h[0]->add_actor("recv", []() {
    int* data = nullptr;
    auto c    = sg4::Mailbox::by_name("t")->get_async<int>(&data);
    c->test();
    c->wait();
    delete data;
  });
  h[1]->add_actor("send", []() {
    auto c = sg4::Mailbox::by_name("t")->put_async(new int(1), 1);
    c->test();
    c->wait();
  });
}
static void sc_waitany(std::vector<sg4::Host*> const& h)
{
  h[0]->add_actor("recv", []() {
    int* d1 = nullptr;
    int* d2 = nullptr;
    sg4::ActivitySet set;
    set.push(sg4::Mailbox::by_name("a")->get_async<int>(&d1));
    set.push(sg4::Mailbox::by_name("b")->get_async<int>(&d2));
    set.wait_any();
    set.wait_any();
    delete d1;
    delete d2;
  });
  h[1]->add_actor("sendA", []() { sg4::Mailbox::by_name("a")->put(new int(1), 1); });
  h[2]->add_actor("sendB", []() { sg4::Mailbox::by_name("b")->put(new int(2), 1); });
}
static void sc_testany(std::vector<sg4::Host*> const& h)
{
  h[0]->add_actor("recv", []() {
    int* d1 = nullptr;
    sg4::ActivitySet set;
    set.push(sg4::Mailbox::by_name("a")->get_async<int>(&d1));
    auto done = set.test_any();
    if (not done)
      set.wait_all();
    delete d1;
  });
  h[1]->add_actor("sendA", []() { sg4::Mailbox::by_name("a")->put(new int(1), 1); });
}
static void sc_testany2(std::vector<sg4::Host*> const& h)
{ // test_any over two receptions, repeated until both are done: TestAny with several ready activities
  h[0]->add_actor("recv", []() {
    int* d1 = nullptr;
    int* d2 = nullptr;
    sg4::ActivitySet set;
    set.push(sg4::Mailbox::by_name("a")->get_async<int>(&d1));
    set.push(sg4::Mailbox::by_name("b")->get_async<int>(&d2));
    int done = 0;
    for (int i = 0; i < 3 && done < 2; i++)
      if (set.test_any())
        done++;
    if (done < 2)
      set.wait_all();
    delete d1;
    delete d2;
  });
  h[1]->add_actor("sendA", []() { sg4::Mailbox::by_name("a")->put(new int(1), 1); });
  h[2]->add_actor("sendB", []() { sg4::Mailbox::by_name("b")->put(new int(2), 1); });
}
static void sc_iprobe(std::vector<sg4::Host*> const& h)
{
  h[0]->add_actor("recv", []() {
    auto* mb = sg4::Mailbox::by_name("p");
    mb->listen();
    auto msg = mb->get_unique<int>();
  });
  h[1]->add_actor("send", []() { sg4::Mailbox::by_name("p")->put(new int(1), 1); });
}
static void sc_actor(std::vector<sg4::Host*> const& h)
{
  h[0]->add_actor("parent", [h]() {
    auto child = h[1]->add_actor("child", []() { sg4::this_actor::sleep_for(1 + P1); });
    child->join();
  });
}
static void sc_random(std::vector<sg4::Host*> const& h)
{
  h[0]->add_actor("rnd", []() {
    int v = MC_random(P1, P1 + 2);
    xbt_assert(v >= P1 && v <= P1 + 2);
  });
  h[1]->add_actor("other", []() { sg4::this_actor::sleep_for(1); });
}
static void sc_messqueue(std::vector<sg4::Host*> const& h)
{
  h[0]->add_actor("getter", []() {
    auto* q  = sg4::MessageQueue::by_name("q");
    auto msg = q->get_unique<int>();
    xbt_assert(*msg == 7);
  });
  h[1]->add_actor("putter", []() { sg4::MessageQueue::by_name("q")->put(new int(7)); });
}
static void sc_exec(std::vector<sg4::Host*> const& h)
{ // activities that are not communications: Wait on an Exec is serialized as UNKNOWN
  h[0]->add_actor("e0", []() { sg4::this_actor::exec_init(1e6)->start()->wait(); });
  h[1]->add_actor("e1", []() { sg4::this_actor::sleep_for(1); });
}

// ------------------------------------------------------------------------------------------------ C41 scenarios
static void sc_fail_order(std::vector<sg4::Host*> const& h)
{ // assertion failing in one message order only (cf. mc-failing-assert)
  h[0]->add_actor("server", []() {
    int got  = -1;
    auto* mb = sg4::Mailbox::by_name("server");
    for (int i = 0; i < 2; i++)
      got = *mb->get_unique<int>();
    MC_assert(got == 2);
  });
  h[1]->add_actor("c1", []() { sg4::Mailbox::by_name("server")->put(new int(1), 1); });
  h[2]->add_actor("c2", []() { sg4::Mailbox::by_name("server")->put(new int(2), 1); });
}
static void sc_fail_deadlock(std::vector<sg4::Host*> const& h)
{ // lock-order inversion
  auto a = sg4::Mutex::create();
  auto b = sg4::Mutex::create();
  h[0]->add_actor("ab", [a, b]() {
    a->lock();
    b->lock();
    b->unlock();
    a->unlock();
  });
  h[1]->add_actor("ba", [a, b]() {
    b->lock();
    a->lock();
    a->unlock();
    b->unlock();
  });
}
static void sc_fail_random(std::vector<sg4::Host*> const& h)
{ // the failure depends on times_considered of a RANDOM transition: the path has a "aid/k" chunk
  h[0]->add_actor("rnd", []() {
    int v = MC_random(0, 3);
    int w = MC_random(0, 1);
    MC_assert(not(v == 2 + (P1 % 2) && w == 1));
  });
  h[1]->add_actor("other", []() { sg4::this_actor::sleep_for(1); });
}
static void sc_fail_sem(std::vector<sg4::Host*> const& h)
{ // unprotected counter: assertion fails in some interleavings
  auto sem = sg4::Semaphore::create(2);
  auto cnt = std::make_shared<int>(0);
  for (int i = 0; i < 2; i++)
    h[i]->add_actor("w" + std::to_string(i), [sem, cnt]() {
      sem->acquire();
      int v = *cnt;
      sg4::this_actor::sleep_for(1);
      *cnt = v + 1;
      sem->release();
    });
  h[2]->add_actor("check", [cnt]() {
    sg4::this_actor::sleep_for(1);
    sg4::this_actor::sleep_for(1);
    MC_assert(*cnt != 1);
  });
}
static void sc_fail_crash(std::vector<sg4::Host*> const& h)
{ // the application aborts in one order
  h[0]->add_actor("server", []() {
    auto* mb  = sg4::Mailbox::by_name("server");
    int first = *mb->get_unique<int>();
    int snd   = *mb->get_unique<int>();
    if (first == 2 && snd == 1)
      abort();
  });
  h[1]->add_actor("c1", []() { sg4::Mailbox::by_name("server")->put(new int(1), 1); });
  h[2]->add_actor("c2", []() { sg4::Mailbox::by_name("server")->put(new int(2), 1); });
}
static void sc_fail_waitany(std::vector<sg4::Host*> const& h)
{ // failure depends on which communication a wait_any picks
  h[0]->add_actor("recv", []() {
    int* d1 = nullptr;
    int* d2 = nullptr;
    sg4::ActivitySet set;
    auto c1 = sg4::Mailbox::by_name("a")->get_async<int>(&d1);
    auto c2 = sg4::Mailbox::by_name("b")->get_async<int>(&d2);
    set.push(c1);
    set.push(c2);
    auto first = set.wait_any();
    MC_assert(first == c1);
    set.wait_any();
  });
  h[1]->add_actor("sendA", []() { sg4::Mailbox::by_name("a")->put(new int(1), 1); });
  h[2]->add_actor("sendB", []() { sg4::Mailbox::by_name("b")->put(new int(2), 1); });
}

int main(int argc, char* argv[])
{
  sg4::Engine e(&argc, argv);
  xbt_assert(argc > 2, "Usage: %s platform_file scenario [p1 [p2]]\n", argv[0]);
  e.load_platform(argv[1]);
  std::string sc = argv[2];
  if (argc > 3)
    P1 = std::stoi(argv[3]);
  if (argc > 4)
    P2 = std::stoi(argv[4]);
  auto hosts = e.get_all_hosts();
  xbt_assert(hosts.size() >= 3, "need 3 hosts");
  if (sc == "mutex")
    sc_mutex(hosts);
  else if (sc == "semaphore")
    sc_semaphore(hosts);
  else if (sc == "barrier")
    sc_barrier(hosts);
  else if (sc == "condvar")
    sc_condvar(hosts);
  else if (sc == "comm")
    sc_comm(hosts);
  else if (sc == "commtest")
    sc_commtest(hosts);
  else if (sc == "waitany")
    sc_waitany(hosts);
  else if (sc == "testany")
    sc_testany(hosts);
  else if (sc == "testany2")
    sc_testany2(hosts);
  else if (sc == "iprobe")
    sc_iprobe(hosts);
  else if (sc == "actor")
    sc_actor(hosts);
  else if (sc == "random")
    sc_random(hosts);
  else if (sc == "messqueue")
    sc_messqueue(hosts);
  else if (sc == "exec")
    sc_exec(hosts);
  else if (sc == "fail_order")
    sc_fail_order(hosts);
  else if (sc == "fail_deadlock")
    sc_fail_deadlock(hosts);
  else if (sc == "fail_random")
    sc_fail_random(hosts);
  else if (sc == "fail_sem")
    sc_fail_sem(hosts);
  else if (sc == "fail_crash")
    sc_fail_crash(hosts);
  else if (sc == "fail_waitany")
    sc_fail_waitany(hosts);
  else
    xbt_die("unknown scenario %s", sc.c_str());
  e.run();
  return 0;
}
