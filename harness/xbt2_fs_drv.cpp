// C46: interpret file-system operation sequences on the real plugin (src/plugins/file_system/s4u_FileSystem.cpp).
// usage: xbt2_fs_drv <scratch-dir> [multi]
// one case per input line:  cap nfiles (path size)*  (code slot a b)*
//   code 0 open(slot,path a)  1 write(slot, n=a, write_inside=b)  2 read(slot,n=a)  3 seek(slot, off=a, origin=b)
//        4 move(slot, path a; a<0 = a path outside the mount point)  5 File::unlink(slot)  6 close(slot)
// output line: per step  "code n hsize_b pos_b fsize_b used_b total_b res hsize_a pos_a used_a total_a", then
//   "C (path size)*" = final content map; " ABORT" is appended when the case was stopped (xbt_assert / crash).
// Each case runs in a forked child (one Engine per process): one actor on a host with one disk mounted on /scratch
// whose initial content and capacity come from the case (platform XML + content file written to the scratch dir;
// the content file is named relatively: it is searched next to the platform file).
// multi mode (2nd argument "multi"): several actors on the one disk, their operations aligned on the same simulated dates.
//   case line: cap nfiles (path size)*  nact  then rounds of nact quadruples (code slot a b), one per actor;
//   code%10 as above, 7 = idle in this round; code/10 = number of this_actor::yield() before the operation (shifts the
//   actor's segments by that many scheduling sub-rounds).  Slots are private to each actor.
//   Round r: every actor does sleep_until(1000(r+1)) then its operation; an auditor actor wakes at 1000(r+1)+500 and
//   prints  "R used total" followed by "res hsize pos" per actor (res -4 -1 -1 when idle); at the end "C (path size)*".
#include "drv.hpp"
#include <simgrid/plugins/file_system.h>
#include <simgrid/s4u.hpp>
#include <fstream>
#include <map>
#include <sys/wait.h>
#include <unistd.h>

namespace sg4 = simgrid::s4u;
using content_t = std::map<std::string, sg_size_t, std::less<>>;

static std::string pname(long long k)
{
  return k < 0 ? "/elsewhere/f" + std::to_string(-k) : "/scratch/f" + std::to_string(k);
}
static unsigned long long total_of(const content_t* c)
{
  unsigned long long t = 0;
  for (auto const& [p, s] : *c)
    t += s;
  return t;
}

static void actor(std::vector<long long> v, size_t i)
{
  const sg4::Disk* disk = sg4::Host::current()->get_disks().front();
  auto* ext             = disk->extension<sg4::FileSystemDiskExt>();
  std::map<long long, sg4::File*> slots;
  std::map<long long, std::string> spath; // the path each File was opened on (relative to the mount point)
  for (; i + 3 < v.size(); i += 4) {
    long long code = v[i], slot = v[i + 1], a = v[i + 2], b = v[i + 3];
    auto it           = slots.find(slot);
    sg4::File* f      = it == slots.end() ? nullptr : it->second;
    const auto* c     = ext->get_content();
    unsigned long long n = (code == 1 || code == 2) ? (unsigned long long)a : 0;
    long long fsize_b = -1;
    if (f) {
      auto e = c->find(spath[slot]);
      if (e != c->end())
        fsize_b = (long long)e->second;
    }
    printf("%lld %llu %lld %lld %lld %llu %llu ", code, n, f ? (long long)f->size() : -1LL, f ? (long long)f->tell() : -1LL,
           fsize_b, sg_disk_get_size_used(disk), total_of(c));
    fflush(stdout);
    long long res = -2;
    if (code == 0) {
      if (not f) {
        f            = sg4::File::open(pname(a), nullptr);
        slots[slot]  = f;
        spath[slot]  = "/f" + std::to_string(a);
        res          = 0;
      }
    } else if (f) {
      switch (code) {
        case 1:
          res = (long long)f->write((sg_size_t)a, b != 0);
          break;
        case 2:
          res = (long long)f->read((sg_size_t)a);
          break;
        case 3:
          f->seek((sg_offset_t)a, (int)b);
          res = 0;
          break;
        case 4:
          f->move(pname(a));
          res = 0;
          break;
        case 5:
          res = f->unlink();
          break;
        default:
          f->close();
          slots.erase(slot);
          f   = nullptr;
          res = 0;
      }
    }
    f = slots.count(slot) ? slots[slot] : nullptr;
    printf("%lld %lld %lld %llu %llu ", res, f ? (long long)f->size() : -1LL, f ? (long long)f->tell() : -1LL,
           sg_disk_get_size_used(disk), total_of(ext->get_content()));
    fflush(stdout);
  }
  printf("C");
  for (auto const& [p, s] : *ext->get_content())
    printf(" %s %llu", p.c_str() + 2, s); // "/f12" -> 12
  fflush(stdout);
}

struct Round {
  std::vector<std::string> rec;
};

static void mactor(int id, int nact, std::vector<long long> v, size_t i0, int nrounds, std::vector<Round>* rounds)
{
  std::map<long long, sg4::File*> slots;
  for (int r = 0; r < nrounds; r++) {
    sg4::this_actor::sleep_until(1000.0 * (r + 1));
    size_t i        = i0 + 4 * ((size_t)r * nact + id);
    long long code = v[i] % 10, yields = v[i] / 10, slot = v[i + 1], a = v[i + 2], b = v[i + 3];
    if (code == 7) {
      (*rounds)[r].rec[id] = "-4 -1 -1";
      continue;
    }
    for (long long k = 0; k < yields; k++)
      sg4::this_actor::yield();
    auto it      = slots.find(slot);
    sg4::File* f = it == slots.end() ? nullptr : it->second;
    long long res = -2;
    if (code == 0) {
      if (not f) {
        f           = sg4::File::open(pname(a), nullptr);
        slots[slot] = f;
        res         = 0;
      }
    } else if (f) {
      switch (code) {
        case 1:
          res = (long long)f->write((sg_size_t)a, b != 0);
          break;
        case 2:
          res = (long long)f->read((sg_size_t)a);
          break;
        case 3:
          f->seek((sg_offset_t)a, (int)b);
          res = 0;
          break;
        case 4:
          f->move(pname(a));
          res = 0;
          break;
        case 5:
          res = f->unlink();
          break;
        default:
          f->close();
          slots.erase(slot);
          res = 0;
      }
    }
    f = slots.count(slot) ? slots[slot] : nullptr;
    (*rounds)[r].rec[id] = std::to_string(res) + " " + std::to_string(f ? (long long)f->size() : -1LL) + " " +
                           std::to_string(f ? (long long)f->tell() : -1LL);
  }
}

static void auditor(int nact, int nrounds, std::vector<Round>* rounds)
{
  const sg4::Disk* disk = sg4::Host::current()->get_disks().front();
  auto* ext             = disk->extension<sg4::FileSystemDiskExt>();
  for (int r = 0; r < nrounds; r++) {
    sg4::this_actor::sleep_until(1000.0 * (r + 1) + 500);
    printf("R %llu %llu ", sg_disk_get_size_used(disk), total_of(ext->get_content()));
    for (int k = 0; k < nact; k++)
      printf("%s ", (*rounds)[r].rec[k].empty() ? "-9 -9 -9" : (*rounds)[r].rec[k].c_str());
    fflush(stdout);
  }
  printf("C");
  for (auto const& [p, s] : *ext->get_content())
    printf(" %s %llu", p.c_str() + 2, s);
  fflush(stdout);
}

static bool multi_mode = false;

static int run_case(const std::string& dir, const std::vector<long long>& v)
{
  size_t i        = 0;
  long long cap   = v.at(i++);
  long long nf    = v.at(i++);
  std::string cfn = dir + "/content.txt";
  {
    std::ofstream cf(cfn);
    for (long long k = 0; k < nf; k++, i += 2)
      cf << "/f" << v.at(i) << " " << (unsigned long long)v.at(i + 1) << "\n";
  }
  std::string pfn = dir + "/platform.xml";
  {
    std::ofstream pf(pfn);
    pf << "<?xml version='1.0'?>\n<!DOCTYPE platform SYSTEM \"https://simgrid.org/simgrid.dtd\">\n"
          "<platform version=\"4.1\"><zone id=\"AS0\" routing=\"Full\"><host id=\"bob\" speed=\"1Gf\">"
          "<disk id=\"Disk1\" read_bw=\"100MBps\" write_bw=\"40MBps\"><prop id=\"size\" value=\""
       << cap << "B\"/><prop id=\"mount\" value=\"/scratch\"/><prop id=\"content\" value=\"content.txt\"/></disk></host></zone></platform>\n";
  }
  std::vector<std::string> args = {"xbt2_fs_drv", "--log=root.thres:critical", "--log=no_loc"};
  std::vector<char*> argv;
  for (auto& a : args)
    argv.push_back(a.data());
  int argc = (int)argv.size();
  argv.push_back(nullptr);
  sg4::Engine e(&argc, argv.data());
  sg_storage_file_system_init();
  e.load_platform(pfn);
  std::vector<Round> rounds;
  if (multi_mode) {
    int nact    = (int)v.at(i++);
    int nrounds = nact > 0 ? (int)((v.size() - i) / (4 * (size_t)nact)) : 0;
    rounds.resize(nrounds);
    for (auto& r : rounds)
      r.rec.resize(nact);
    for (int k = 0; k < nact; k++)
      e.host_by_name("bob")->add_actor("prog" + std::to_string(k), mactor, k, nact, v, i, nrounds, &rounds);
    e.host_by_name("bob")->add_actor("audit", auditor, nact, nrounds, &rounds);
  } else
    e.host_by_name("bob")->add_actor("prog", actor, v, i);
  e.run();
  return 0;
}

int main(int argc, char** argv)
{
  std::string dir = argc > 1 ? argv[1] : "/tmp";
  multi_mode      = argc > 2 && std::string(argv[2]) == "multi";
  std::vector<long long> v;
  while (drv::next_case(v)) {
    fflush(stdout);
    pid_t pid = fork();
    if (pid == 0) {
      if (not getenv("DRV_DEBUG")) fclose(stderr);
      run_case(dir, v);
      fflush(stdout);
      _exit(0);
    }
    int status = 0;
    waitpid(pid, &status, 0);
    if (not(WIFEXITED(status) && WEXITSTATUS(status) == 0))
      printf(" ABORT");
    printf("\n");
    fflush(stdout);
  }
  return 0;
}
