// eng1_interp — generic S4U program interpreter for C03 / C11 / C12 (engine clock, timed waits, actor lifecycle).
// One case per input line (integers, same encoding as the Coq model SGV.Kernel.Engine.run_eng):
//   k p n  (tick = 2^-k s, precision/timing = p ticks, n actors)  then per actor:  nops  op...
//   op = 1 d (sleep_for d) | 3 h d (exec_async: activity h, natural duration d, alone on host X<h>) | 4 h t (wait_for; t<0 = wait)
//      | 5 t m h1..hm (ActivitySet::wait_any_for) | 6 a t (join; t = -1 join()) | 7 a (kill) | 8 (kill_all) | 9 t (self()->set_kill_time,
//      absolute date t, once per actor) | 10 (daemonize) | 11 c (on_exit callback c) | 12 a (suspend) | 13 a (resume) | 14 (exit) | 15 (yield)
//      | 16 h t (wait_for_or_cancel)
// Each case runs in a forked child (the engine is a singleton). Output line: entries separated by " | ":
//   R pid opidx t0 t1 res      an operation returned (t0/t1 = Engine::get_clock() before/after, %.17g)
//   X pid c t failed           on_exit callback c ran
//   A h start finish           Exec::get_start_time / get_finish_time read after a successful wait
//   T pid t                    Actor::on_termination
// Operations the interpreter rejects (unknown / foreign activity, unknown actor, duplicate activity id, negative
// duration, join timeout < 0 other than -1, second set_kill_time) execute this_actor::yield() and return -9.
// or "CRASH <what>" when the child died.
#include "drv.hpp"
#include <simgrid/Exception.hpp>
#include <simgrid/s4u.hpp>
#include <simgrid/s4u/ActivitySet.hpp>
#include <cmath>
#include <map>
#include <sys/wait.h>
#include <unistd.h>

namespace sg4 = simgrid::s4u;

struct Op {
  int code;
  std::vector<long long> a;
};
static double tick;
static std::vector<std::vector<Op>> progs;
static std::map<long long, sg4::ExecPtr> acts;
static std::map<long long, long> owner;
static std::map<long, bool> kset;
static std::map<long long, sg4::ActorPtr> actors;
static FILE* out;

static void emit_ret(long pid, size_t idx, double t0, double t1, long long res)
{
  fprintf(out, "R %ld %zu %.17g %.17g %lld | ", pid, idx, t0, t1, res);
}

static void actor_code(int me)
{
  const auto& prog = progs[me];
  long pid         = sg4::this_actor::get_pid();
  for (size_t i = 0; i < prog.size(); i++) {
    const Op& o    = prog[i];
    double t0      = sg4::Engine::get_clock();
    long long res  = 0;
    bool log_it    = true;
    auto bad       = [&]() { sg4::this_actor::yield(); res = -9; };
    auto mine      = [&](long long h) { return acts.count(h) && owner[h] == pid; };
    switch (o.code) {
      case 1:
        sg4::this_actor::sleep_for(o.a[0] * tick);
        break;
      case 3: {
        long long h = o.a[0];
        if (acts.count(h) || o.a[1] < 0) {
          bad();
          break;
        }
        auto* host  = sg4::Host::by_name("X" + std::to_string(h));
        auto e      = sg4::Exec::init()->set_flops_amount(o.a[1] * tick * host->get_speed())->set_host(host);
        e->start();
        acts[h]  = e;
        owner[h] = pid;
        break;
      }
      case 4:
      case 16: {
        if (not mine(o.a[0])) {
          bad();
          break;
        }
        sg4::ExecPtr e = acts[o.a[0]];
        try {
          double to = o.a[1] < 0 ? -1.0 : o.a[1] * tick;
          if (o.code == 4)
            e->wait_for(to);
          else
            e->wait_for_or_cancel(to);
          res = 0;
        } catch (const simgrid::TimeoutException&) {
          res = 1;
        } catch (const simgrid::CancelException&) {
          res = 2;
        } catch (const simgrid::HostFailureException&) {
          res = 3;
        }
        if (res == 0)
          fprintf(out, "A %lld %.17g %.17g | ", o.a[0], e->get_start_time(), e->get_finish_time());
        break;
      }
      case 5: {
        sg4::ActivitySet set;
        std::vector<long long> hs;
        bool ok = true;
        for (size_t j = 2; j < o.a.size(); j++)
          ok = ok && mine(o.a[j]);
        if (not ok) {
          bad();
          break;
        }
        for (size_t j = 2; j < o.a.size(); j++) {
          set.push(acts[o.a[j]]);
          hs.push_back(o.a[j]);
        }
        try {
          double to = o.a[0] < 0 ? -1.0 : o.a[0] * tick;
          auto got  = set.wait_any_for(to);
          res       = -2;
          for (auto h : hs)
            if (acts[h].get() == got.get())
              res = h;
        } catch (const simgrid::TimeoutException&) {
          res = -1;
        } catch (const simgrid::CancelException&) {
          res = -3;
        }
        break;
      }
      case 6: {
        auto it = actors.find(o.a[0]);
        if (it == actors.end()) {
          bad();
          break;
        }
        if (o.a[1] < -1) {
          bad();
          break;
        }
        if (o.a[1] == -1)
          it->second->join();
        else
          it->second->join(o.a[1] * tick);
        break;
      }
      case 7: {
        auto it = actors.find(o.a[0]);
        if (it == actors.end()) {
          bad();
          break;
        }
        it->second->kill();
        break;
      }
      case 8:
        sg4::Actor::kill_all();
        break;
      case 9:
        if (kset[pid]) {
          bad();
          break;
        }
        kset[pid] = true;
        sg4::Actor::self()->set_kill_time(o.a[0] * tick);
        break;
      case 10:
        sg4::Actor::self()->daemonize();
        break;
      case 11: {
        long long c = o.a[0];
        sg4::this_actor::on_exit([pid, c](bool failed) {
          fprintf(out, "X %ld %lld %.17g %d | ", pid, c, sg4::Engine::get_clock(), failed ? 1 : 0);
        });
        break;
      }
      case 12: {
        auto it = actors.find(o.a[0]);
        if (it == actors.end()) {
          bad();
          break;
        }
        it->second->suspend();
        break;
      }
      case 13: {
        auto it = actors.find(o.a[0]);
        if (it == actors.end()) {
          bad();
          break;
        }
        it->second->resume();
        break;
      }
      case 14:
        sg4::this_actor::exit();
        break;
      case 15:
        sg4::this_actor::yield();
        break;
      default:
        bad();
    }
    if (log_it)
      emit_ret(pid, i, t0, sg4::Engine::get_clock(), res);
  }
}

static int run_case(const std::vector<long long>& v)
{
  size_t pos = 0;
  auto next  = [&]() -> long long { return pos < v.size() ? v[pos++] : 0; };
  long long k = next(), p = next(), n = next();
  tick = std::ldexp(1.0, -(int)k);
  progs.assign(n, {});
  std::vector<long long> hosts_needed;
  for (long long a = 0; a < n; a++) {
    long long nops = next();
    for (long long i = 0; i < nops; i++) {
      Op o;
      o.code = (int)next();
      int ar = 0;
      switch (o.code) {
        case 1: case 7: case 9: case 11: case 12: case 13: ar = 1; break;
        case 3: case 4: case 6: case 16: ar = 2; break;
        case 5: {
          long long t = next(), m = next();
          o.a = {t, m};
          for (long long j = 0; j < m; j++)
            o.a.push_back(next());
          ar = 0;
          break;
        }
        default: ar = 0;
      }
      for (int j = 0; j < ar; j++)
        o.a.push_back(next());
      if (o.code == 3)
        hosts_needed.push_back(o.a[0]);
      progs[a].push_back(o);
    }
  }
  char precarg[64];
  snprintf(precarg, sizeof precarg, "--cfg=precision/timing:%.17g", p * tick);
  const char* args[] = {"eng1_interp", precarg, "--log=root.thres:critical", nullptr};
  int argc           = 3;
  char** argv        = const_cast<char**>(args);
  sg4::Engine e(&argc, argv);
  auto* zone = e.get_netzone_root();
  std::vector<sg4::Host*> hs;
  for (long long a = 0; a < n; a++)
    hs.push_back(zone->add_host("H" + std::to_string(a + 1), 1.0));
  for (auto h : hosts_needed)
    if (sg4::Host::by_name_or_null("X" + std::to_string(h)) == nullptr)
      zone->add_host("X" + std::to_string(h), std::ldexp(1.0, (int)(h % 3)));
  zone->seal();
  for (long long a = 0; a < n; a++) {
    int me    = (int)a;
    auto act  = e.add_actor("a" + std::to_string(a + 1), hs[a], [me]() { actor_code(me); });
    actors[act->get_pid()] = act;
  }
  sg4::Actor::on_termination_cb([](sg4::Actor const& a) { fprintf(out, "T %ld %.17g | ", (long)a.get_pid(), sg4::Engine::get_clock()); });
  e.run();
  fprintf(out, "E %.17g", sg4::Engine::get_clock());
  fflush(out);
  return 0;
}

int main()
{
  std::vector<long long> v;
  while (drv::next_case(v)) {
    fflush(stdout);
    int fds[2];
    if (pipe(fds) != 0)
      return 3;
    pid_t c = fork();
    if (c == 0) {
      close(fds[0]);
      out = fdopen(fds[1], "w");
      setvbuf(out, nullptr, _IONBF, 0);
      alarm(90);
      run_case(v);
      fflush(out);
      _exit(0);
    }
    close(fds[1]);
    std::string got;
    char buf[4096];
    ssize_t r;
    while ((r = read(fds[0], buf, sizeof buf)) > 0)
      got.append(buf, r);
    close(fds[0]);
    int st = 0;
    waitpid(c, &st, 0);
    for (auto& ch : got)
      if (ch == '\n')
        ch = ' ';
    if (WIFSIGNALED(st))
      printf("%s CRASH signal %d\n", got.c_str(), WTERMSIG(st));
    else if (WEXITSTATUS(st) != 0)
      printf("%s CRASH exit %d\n", got.c_str(), WEXITSTATUS(st));
    else
      printf("%s\n", got.c_str());
  }
  return 0;
}
