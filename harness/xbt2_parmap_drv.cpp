// C49: drive the real simgrid::xbt::Parmap<T> (src/xbt/parmap.hpp) with per-element counters.
// one case per input line:  mode(0 posix, 1 futex, 2 busy_wait) num_workers nrounds n1..nk jitter [us period]
// output line: number of apply() calls done, then for each: n followed by the n counters (how many times the function
// was applied to each element during that apply(), read by the caller immediately after apply() returned).
// jitter != 0 makes some elements slower (yield) to vary schedules.
//
// us > 0 selects the wake-up injection phase: every element takes `us` microseconds in a worker (a quarter of that in
// the controller, which also waits a bounded time for the workers to have taken an element each, so that the controller
// reaches master_wait() while workers are still inside the user function), and a
// helper thread sends SIGUSR1 (empty handler installed WITHOUT SA_RESTART) every `period` microseconds to the thread that
// calls apply() and to every worker thread seen so far, from the creation of the Parmap to just before its destruction.
// Each signal makes the blocking call the thread is in (futex_wait, pthread_cond_wait, sched_yield) return early: the
// `Spurious t` event of the model (coq/theories/Xbt/Parmap.v).  The property does not depend on it: when apply() returns
// every counter must be exactly 1.
//
// After a line that shows a violation (some counter != 1) the driver stops at once (_exit) without destroying the
// Parmap: a worker may still be writing, later rounds or the destructor may hang.  A watchdog prints "HANG <round>"
// in place of the case's line and stops the driver when one case takes more than C49_HANG_TIMEOUT seconds (default 120).
#include "drv.hpp"
#include "src/internal_config.h"
#include "src/xbt/parmap.hpp"
#include <simgrid/s4u/Engine.hpp>
#include <algorithm>
#include <atomic>
#include <chrono>
#include <csignal>
#include <cstdlib>
#include <memory>
#include <mutex>
#include <pthread.h>
#include <thread>
#include <time.h>
#include <unistd.h>

static void on_usr1(int) {}

// sleep for `us` microseconds even if signals arrive meanwhile
static void nap(long us)
{
  if (us <= 0)
    return;
  timespec end;
  clock_gettime(CLOCK_MONOTONIC, &end);
  end.tv_nsec += (us % 1000000) * 1000;
  end.tv_sec += us / 1000000 + end.tv_nsec / 1000000000;
  end.tv_nsec %= 1000000000;
  while (clock_nanosleep(CLOCK_MONOTONIC, TIMER_ABSTIME, &end, nullptr) == EINTR) {
  }
}

static std::atomic<long long> busy_since{0}; // ms timestamp of the start of the running case, 0 = idle
static std::atomic<size_t> cur_round{0};
static long long now_ms()
{
  return std::chrono::duration_cast<std::chrono::milliseconds>(std::chrono::steady_clock::now().time_since_epoch()).count();
}

int main(int argc, char** argv)
{
  simgrid::s4u::Engine e(&argc, argv);
  simgrid::kernel::context::Context::set_nthreads(16); // dummy value > 1, as in teshsuite/xbt/parmap_test

  struct sigaction sa;
  sa.sa_handler = on_usr1;
  sigemptyset(&sa.sa_mask);
  sa.sa_flags = 0; // no SA_RESTART: interrupted blocking calls return EINTR
  sigaction(SIGUSR1, &sa, nullptr);

  long long hang_ms = 1000LL * (getenv("C49_HANG_TIMEOUT") ? atoll(getenv("C49_HANG_TIMEOUT")) : 120);
  std::thread([hang_ms]() {
    while (true) {
      std::this_thread::sleep_for(std::chrono::milliseconds(100));
      long long t = busy_since.load();
      if (t != 0 && now_ms() - t > hang_ms) {
        printf("HANG %zu\n", cur_round.load());
        fflush(stdout);
        _exit(0);
      }
    }
  }).detach();

  const pthread_t ctl = pthread_self();
  std::vector<long long> v;
  while (drv::next_case(v)) {
    e_xbt_parmap_mode_t mode = v.at(0) == 0 ? XBT_PARMAP_POSIX : (v.at(0) == 1 ? XBT_PARMAP_FUTEX : XBT_PARMAP_BUSY_WAIT);
#if !HAVE_FUTEX_H
    if (mode == XBT_PARMAP_FUTEX)
      mode = XBT_PARMAP_POSIX;
#endif
    unsigned nw      = (unsigned)v.at(1);
    size_t nrounds   = (size_t)v.at(2);
    long long jitter = v.at(3 + nrounds);
    long us          = v.size() > 5 + nrounds ? (long)v.at(4 + nrounds) : 0;
    long period      = v.size() > 5 + nrounds ? (long)v.at(5 + nrounds) : 0;
    std::string out  = std::to_string(nrounds);
    bool violated    = false;
    cur_round        = 0;
    busy_since       = now_ms();
    {
      simgrid::xbt::Parmap<std::atomic<unsigned>*> parmap(nw, mode);
      // wake-up injection
      std::mutex tids_mutex;
      std::vector<pthread_t> tids; // worker threads seen so far
      std::atomic<bool> stop{false};
      std::thread injector;
      if (us > 0)
        injector = std::thread([&]() {
          while (not stop.load()) {
            pthread_kill(ctl, SIGUSR1);
            std::vector<pthread_t> copy;
            {
              const std::scoped_lock lock(tids_mutex);
              copy = tids;
            }
            for (pthread_t t : copy)
              pthread_kill(t, SIGUSR1);
            nap(period);
          }
        });
      for (size_t r = 0; r < nrounds && not violated; r++) {
        cur_round = r;
        size_t n  = (size_t)v.at(3 + r);
        std::unique_ptr<std::atomic<unsigned>[]> cnt(new std::atomic<unsigned>[n]);
        std::vector<std::atomic<unsigned>*> data(n);
        for (size_t i = 0; i < n; i++) {
          cnt[i].store(0);
          data[i] = &cnt[i];
        }
        auto* base = cnt.get();
        std::atomic<size_t> started{0}; // elements taken by workers in this apply()
        size_t want = std::min<size_t>(nw - 1, n > 0 ? n - 1 : 0);
        if (us > 0)
          parmap.apply(
              [&, base](std::atomic<unsigned>* p) {
                static thread_local bool registered = false;
                bool in_ctl                         = pthread_equal(pthread_self(), ctl);
                if (not in_ctl && not registered) {
                  const std::scoped_lock lock(tids_mutex);
                  bool known = false;
                  for (pthread_t t : tids)
                    known = known || pthread_equal(t, pthread_self());
                  if (not known)
                    tids.push_back(pthread_self());
                  registered = true;
                }
                long d = in_ctl ? us / 4 : us;
                if (((p - base) * 2654435761u + jitter) % 3 == 0)
                  d *= 2;
                if (in_ctl) { // give the workers a chance to take an element before the controller runs out of work
                  for (int spin = 0; spin < 40 && started.load() < want; spin++)
                    nap(us / 8 + 1);
                } else
                  started.fetch_add(1);
                nap(d);
                p->fetch_add(1);
              },
              data);
        else
          parmap.apply(
              [jitter, base](std::atomic<unsigned>* p) {
                if (jitter != 0 && ((p - base) * 2654435761u + jitter) % 7 == 0)
                  std::this_thread::yield();
                p->fetch_add(1);
              },
              data);
        // what the caller of apply() sees when apply() returns
        out += " " + std::to_string(n);
        for (size_t i = 0; i < n; i++) {
          unsigned c = cnt[i].load();
          out += " " + std::to_string(c);
          violated = violated || c != 1;
        }
        if (violated) { // a worker may still be running on cnt/data: stop here, leaking everything
          printf("%s\n", out.c_str());
          fflush(stdout);
          _exit(0);
        }
      }
      if (us > 0) {
        stop = true;
        injector.join();
      }
    }
    busy_since = 0;
    printf("%s\n", out.c_str());
    fflush(stdout);
  }
  return 0;
}
