// C49: drive the real simgrid::xbt::Parmap<T> (src/xbt/parmap.hpp) with per-element counters.
// one case per input line:  mode(0 posix, 1 futex, 2 busy_wait) num_workers nrounds n1..nk jitter
// output line: number of apply() calls done, then for each: n followed by the n counters (how many times the function
// was applied to each element during that apply()).  jitter != 0 makes some elements slower (yield) to vary schedules.
#include "drv.hpp"
#include "src/internal_config.h"
#include "src/xbt/parmap.hpp"
#include <simgrid/s4u/Engine.hpp>
#include <atomic>
#include <memory>
#include <thread>

int main(int argc, char** argv)
{
  simgrid::s4u::Engine e(&argc, argv);
  simgrid::kernel::context::Context::set_nthreads(16); // dummy value > 1, as in teshsuite/xbt/parmap_test
  std::vector<long long> v;
  while (drv::next_case(v)) {
    e_xbt_parmap_mode_t mode = v.at(0) == 0 ? XBT_PARMAP_POSIX : (v.at(0) == 1 ? XBT_PARMAP_FUTEX : XBT_PARMAP_BUSY_WAIT);
#if !HAVE_FUTEX_H
    if (mode == XBT_PARMAP_FUTEX)
      mode = XBT_PARMAP_POSIX;
#endif
    unsigned nw     = (unsigned)v.at(1);
    size_t nrounds  = (size_t)v.at(2);
    long long jitter = v.at(3 + nrounds);
    std::string out = std::to_string(nrounds);
    {
      simgrid::xbt::Parmap<std::atomic<unsigned>*> parmap(nw, mode);
      for (size_t r = 0; r < nrounds; r++) {
        size_t n = (size_t)v.at(3 + r);
        std::unique_ptr<std::atomic<unsigned>[]> cnt(new std::atomic<unsigned>[n]);
        std::vector<std::atomic<unsigned>*> data(n);
        for (size_t i = 0; i < n; i++) {
          cnt[i].store(0);
          data[i] = &cnt[i];
        }
        auto* base = cnt.get();
        parmap.apply(
            [jitter, base](std::atomic<unsigned>* p) {
              if (jitter != 0 && ((p - base) * 2654435761u + jitter) % 7 == 0)
                std::this_thread::yield();
              p->fetch_add(1);
            },
            data);
        out += " " + std::to_string(n);
        for (size_t i = 0; i < n; i++)
          out += " " + std::to_string(cnt[i].load());
      }
    }
    printf("%s\n", out.c_str());
    fflush(stdout);
  }
  return 0;
}
