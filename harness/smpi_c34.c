/* C34: RMA windows behave like shared memory under their locks -- interpreter of generated RMA programs.
 * argv[1] = program file:   np W nepochs   then per epoch:  mode nops  { origin kind tgt disp op cmp nvals vals.. }*
 *   mode 0: fence ... fence         1: lock_all ... unlock_all, barrier
 *        2: per target: lock(EXCLUSIVE) ops unlock      3: per target: lock(SHARED) ops unlock   (then barrier)
 *   kind 0 Put | 1 Get (count in op) | 2 Accumulate | 3 Get_accumulate | 4 Compare_and_swap (new value = vals[0])
 *   op   0 SUM 1 PROD 2 MAX 3 MIN 4 BXOR 5 REPLACE 6 NO_OP
 * Windows: W ints per rank, cell x of rank r initially 100*r + x.
 * Output:  M epoch rank cells..      (window contents after the closing synchronisation of the epoch)
 *          R epoch opindex n vals..  (values returned to the origin by Get / Get_accumulate / Compare_and_swap)
 * No mutable globals (runs with smpi/privatization:no). */
#include <mpi.h>
#include <stdio.h>
#include <stdlib.h>
#include <string.h>

#define MAXV 16
struct op {
  int origin, kind, tgt, disp, op, cmp, nv;
  int vals[MAXV];
  int res[MAXV];
  int nres;
};

static MPI_Op mpiop(int o)
{
  switch (o) {
    case 0:
      return MPI_SUM;
    case 1:
      return MPI_PROD;
    case 2:
      return MPI_MAX;
    case 3:
      return MPI_MIN;
    case 4:
      return MPI_BXOR;
    case 5:
      return MPI_REPLACE;
    default:
      return MPI_NO_OP;
  }
}

static int issue(struct op* o, MPI_Win win)
{
  switch (o->kind) {
    case 0:
      return MPI_Put(o->vals, o->nv, MPI_INT, o->tgt, o->disp, o->nv, MPI_INT, win);
    case 1:
      o->nres = o->op;
      return MPI_Get(o->res, o->op, MPI_INT, o->tgt, o->disp, o->op, MPI_INT, win);
    case 2:
      return MPI_Accumulate(o->vals, o->nv, MPI_INT, o->tgt, o->disp, o->nv, MPI_INT, mpiop(o->op), win);
    case 3:
      o->nres = o->nv;
      return MPI_Get_accumulate(o->vals, o->nv, MPI_INT, o->res, o->nv, MPI_INT, o->tgt, o->disp, o->nv, MPI_INT, mpiop(o->op), win);
    case 4:
      o->nres = 1;
      return MPI_Compare_and_swap(&o->vals[0], &o->cmp, &o->res[0], MPI_INT, o->tgt, o->disp, win);
    default:
      return -1;
  }
}

int main(int argc, char** argv)
{
  MPI_Init(&argc, &argv);
  int me, np;
  MPI_Comm_rank(MPI_COMM_WORLD, &me);
  MPI_Comm_size(MPI_COMM_WORLD, &np);
  FILE* f = fopen(argv[1], "r");
  int pnp, W, ne;
  if (!f || fscanf(f, "%d %d %d", &pnp, &W, &ne) != 3 || pnp != np) {
    fprintf(stderr, "bad program file\n");
    MPI_Abort(MPI_COMM_WORLD, 2);
  }
  int* base = malloc(W * sizeof(int));
  for (int x = 0; x < W; x++)
    base[x] = 100 * me + x;
  MPI_Win win;
  MPI_Win_create(base, W * sizeof(int), sizeof(int), MPI_INFO_NULL, MPI_COMM_WORLD, &win);
  MPI_Barrier(MPI_COMM_WORLD);
  for (int e = 0; e < ne; e++) {
    int mode, nops;
    if (fscanf(f, "%d %d", &mode, &nops) != 2)
      break;
    struct op* ops = calloc(nops + 1, sizeof(struct op));
    for (int i = 0; i < nops; i++) {
      struct op* o = &ops[i];
      fscanf(f, "%d %d %d %d %d %d %d", &o->origin, &o->kind, &o->tgt, &o->disp, &o->op, &o->cmp, &o->nv);
      for (int k = 0; k < o->nv; k++)
        fscanf(f, "%d", &o->vals[k]);
    }
    int rcbad = 0;
    if (mode == 0) {
      MPI_Win_fence(0, win);
      for (int i = 0; i < nops; i++)
        if (ops[i].origin == me)
          rcbad |= issue(&ops[i], win);
      MPI_Win_fence(0, win);
    } else if (mode == 1) {
      MPI_Win_lock_all(0, win);
      for (int i = 0; i < nops; i++)
        if (ops[i].origin == me)
          rcbad |= issue(&ops[i], win);
      MPI_Win_unlock_all(win);
      MPI_Barrier(MPI_COMM_WORLD);
    } else {
      for (int k = 0; k < np; k++) {
        int t   = (me + k) % np;
        int any = 0;
        for (int i = 0; i < nops; i++)
          any |= ops[i].origin == me && ops[i].tgt == t;
        if (!any)
          continue;
        MPI_Win_lock(mode == 2 ? MPI_LOCK_EXCLUSIVE : MPI_LOCK_SHARED, t, 0, win);
        for (int i = 0; i < nops; i++)
          if (ops[i].origin == me && ops[i].tgt == t)
            rcbad |= issue(&ops[i], win);
        MPI_Win_unlock(t, win);
      }
      MPI_Barrier(MPI_COMM_WORLD);
    }
    char line[8192];
    int n = sprintf(line, "M %d %d", e, me);
    for (int x = 0; x < W; x++)
      n += sprintf(line + n, " %d", base[x]);
    printf("%s\n", line);
    for (int i = 0; i < nops; i++)
      if (ops[i].origin == me && ops[i].nres > 0) {
        n = sprintf(line, "R %d %d %d", e, i, ops[i].nres);
        for (int k = 0; k < ops[i].nres; k++)
          n += sprintf(line + n, " %d", ops[i].res[k]);
        printf("%s\n", line);
      }
    if (rcbad)
      printf("X %d %d %d\n", e, me, rcbad);
    fflush(stdout);
    free(ops);
    MPI_Barrier(MPI_COMM_WORLD);
  }
  MPI_Win_free(&win);
  free(base);
  if (me == 0)
    printf("E done\n");
  MPI_Finalize();
  return 0;
}
