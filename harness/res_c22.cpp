// C22: a deterministic availability profile on a host speed / link bandwidth / link latency, with a running exec/comm
// and an observer sampling the resource at given dates.  One case per line, forked per case, one answer line.
//   input : <host|link|lat> <period> <npts> {date value}*npts <peak> <amount> <nsamples> {date}*
//   output: F <finish date of the exec/comm, -1 when none> S {sampled value}*
#include "drv.hpp"
#include <simgrid/kernel/ProfileBuilder.hpp>
#include <simgrid/s4u.hpp>
#include <sys/wait.h>
#include <unistd.h>
namespace sg4 = simgrid::s4u;

static double num(const std::string& s)
{
  return strtod(s.c_str(), nullptr);
}

static void run_case(const std::vector<std::string>& t)
{
  std::vector<std::string> args = {"res_c22", "--log=root.thres:critical", "--cfg=network/model:CM02",
                                   "--cfg=network/crosstraffic:0", "--cfg=network/TCP-gamma:0"};
  std::vector<char*> argv;
  for (auto& a : args)
    argv.push_back(const_cast<char*>(a.c_str()));
  argv.push_back(nullptr);
  int argc = (int)args.size();
  auto& e  = *new sg4::Engine(&argc, argv.data());
  auto* zone = e.get_netzone_root();
  size_t p   = 0;
  std::string kind = t.at(p++);
  double period    = num(t.at(p++));
  int npts         = atoi(t.at(p++).c_str());
  std::string text;
  for (int i = 0; i < npts; i++, p += 2)
    text += t.at(p) + " " + t.at(p + 1) + "\n";
  double peak   = num(t.at(p++));
  double amount = num(t.at(p++));
  int ns        = atoi(t.at(p++).c_str());
  static std::vector<double> dates;
  for (int i = 0; i < ns; i++)
    dates.push_back(num(t.at(p++)));
  auto* profile = simgrid::kernel::profile::ProfileBuilder::from_string("prof", text, period);
  static double finish = -1;
  static std::vector<double> samples;
  auto* obs = zone->add_host("obs", 1e9);
  if (kind == "host") {
    auto* h = zone->add_host("h", peak);
    h->set_speed_profile(profile);
    zone->seal();
    h->add_actor("w", [amount]() {
      sg4::this_actor::execute(amount);
      finish = sg4::Engine::get_clock();
    });
    obs->add_actor("o", [h]() {
      for (double d : dates) {
        sg4::this_actor::sleep_until(d);
        samples.push_back(h->get_available_speed());
      }
    });
  } else {
    auto* a = zone->add_host("a", 1e9);
    auto* b = zone->add_host("b", 1e9);
    auto* l = zone->add_link("l", kind == "link" ? peak : 1e9);
    if (kind == "link") {
      l->set_bandwidth_profile(profile);
    } else {
      l->set_latency(peak);
      l->set_latency_profile(profile);
    }
    zone->add_route(a, b, {l});
    zone->seal();
    if (kind == "link")
      a->add_actor("w", [a, b, amount]() {
        sg4::Comm::sendto(a, b, (uint64_t)amount);
        finish = sg4::Engine::get_clock();
      });
    obs->add_actor("o", [l, kind]() {
      for (double d : dates) {
        sg4::this_actor::sleep_until(d);
        samples.push_back(kind == "link" ? l->get_bandwidth() : l->get_latency());
      }
    });
  }
  e.run();
  printf("F %.17g S", finish);
  for (double s : samples)
    printf(" %.17g", s);
  printf("\n");
}

int main()
{
  std::vector<std::string> t;
  while (drv::next_tokens(t)) {
    fflush(stdout);
    int fd[2];
    if (pipe(fd) != 0)
      return 3;
    pid_t pid = fork();
    if (pid == 0) {
      close(fd[0]);
      dup2(fd[1], 1);
      dup2(fd[1], 2);
      try {
        run_case(t);
      } catch (std::exception const& ex) {
        printf("ERR exception %s\n", ex.what());
      }
      fflush(stdout);
      _exit(0);
    }
    close(fd[1]);
    std::string all;
    char buf[4096];
    ssize_t n;
    while ((n = read(fd[0], buf, sizeof buf)) > 0)
      all.append(buf, n);
    close(fd[0]);
    int st = 0;
    waitpid(pid, &st, 0);
    for (auto& ch : all)
      if (ch == '\n' || ch == '\r')
        ch = ' ';
    while (not all.empty() && all.back() == ' ')
      all.pop_back();
    if (all.rfind("F ", 0) == 0 && WIFEXITED(st) && WEXITSTATUS(st) == 0)
      printf("%s\n", all.c_str());
    else
      printf("ERR status=%d %s\n", st, all.substr(0, 600).c_str());
    fflush(stdout);
  }
  return 0;
}
