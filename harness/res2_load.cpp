// C21 / C19: run one generated concurrent workload on a C++-built platform and print, at every Engine::on_time_advance,
// each live activity's get_remaining() (and its action's rate over the step that just elapsed) and the loads of the
// hosts / links / disks; plus start/finish dates of every activity.  One workload per process (stdin), --cfg on argv.
//
// Workload language (one item per line, numbers are decimal doubles or hex floats):
//   H <name> <cores> <npstates> <speed>...  [P <period> <n> <date value>...]   host (+ periodic speed profile)
//   L <name> <bandwidth> <latency> <S|F>                                      link (SHARED / FATPIPE)
//   D <name> <host> <read_bw> <write_bw>                                      disk
//   R <host1> <host2> <n> <link>...                                           symmetric route
//   A <id> E <host> <flops> <start> <bound|-1> <priority> <cores>            exec
//   A <id> C <src> <dst> <bytes> <start> <rate|-1>                           comm (Comm::sendto_async)
//   A <id> I <disk> <bytes> <start> <R|W> <priority>                         I/O
//   X <date> S <id> | U <id> | P <id> <priority> | K <host> <pstate> | B <link> <bandwidth>   control operations
//   Z <date>                                                                  ticker: an unrelated actor sleeping until each date
// Output:
//   T <now> <delta>                         a time advance ended at <now>
//   a <id> <state> <remaining> <rate>       state: R running, S suspended, F action finished in this step
//   h <name> <load> | l <name> <load> | d <name> <load>
//   B <id> <date>  activity started          E <id> <clock> <finish_time>  activity completed
//   x <date> <op> <id> <done|skipped>
#include <simgrid/s4u.hpp>
#include <simgrid/kernel/ProfileBuilder.hpp>
#include <cstring>
#include <cstdlib>
#include <map>
#define private public
#define protected public
#include "src/kernel/activity/ActivityImpl.hpp"
#include "simgrid/kernel/resource/Action.hpp"
#undef private
#undef protected
#include "drv.hpp"
namespace sg4 = simgrid::s4u;

struct Act {
  std::string id;
  char kind;
  std::string a, b;
  double amount, start, p1, p2;
  int cores = 1;
  char rw  = 'R';
  sg4::ActivityPtr act;
  bool done = false;
};
struct Ctl {
  double date;
  char op;
  std::string target;
  double val;
};
static std::vector<Act> acts;
static std::vector<Ctl> ctls;
static std::vector<double> ticks;
static std::vector<sg4::Host*> hosts;
static std::vector<sg4::Link*> links;
static std::vector<sg4::Disk*> disks;
static bool with_loads = true;
static bool with_samples = true;

static double num(const std::string& s)
{
  return strtod(s.c_str(), nullptr);
}
static Act* find_act(const std::string& id)
{
  for (auto& a : acts)
    if (a.id == id)
      return &a;
  return nullptr;
}

static void sample(double delta)
{
  printf("T %a %a\n", sg4::Engine::get_clock(), delta);
  for (auto& a : acts) {
    if (not a.act || a.done)
      continue;
    auto* impl   = a.act->get_impl();
    auto* action = impl->model_action_;
    if (action == nullptr)
      continue;
    auto st = action->get_state();
    if (st == simgrid::kernel::resource::Action::State::FINISHED) {
      printf("a %s F %a %a\n", a.id.c_str(), action->get_remains_no_update(), action->get_rate());
    } else if (st == simgrid::kernel::resource::Action::State::STARTED) {
      double rem = a.act->get_remaining(); // the public observation point of the property
      printf("a %s %c %a %a\n", a.id.c_str(), action->is_suspended() ? 'S' : 'R', rem, action->get_rate());
    }
  }
  if (with_loads) {
    for (auto* h : hosts)
      printf("h %s %a\n", h->get_cname(), h->get_load());
    for (auto* l : links)
      printf("l %s %a\n", l->get_cname(), l->get_load());
  }
}

static void run_activity(Act* a)
{
  sg4::this_actor::sleep_until(a->start);
  if (a->kind == 'E') {
    auto e = sg4::Exec::init()->set_flops_amount(a->amount)->set_host(sg4::Host::by_name(a->a));
    if (a->p1 > 0)
      e->set_bound(a->p1);
    if (a->p2 != 1.0)
      e->set_priority(a->p2);
    if (a->cores > 1)
      e->set_thread_count(a->cores);
    a->act = e;
    e->start();
  } else if (a->kind == 'C') {
    auto c = sg4::Comm::sendto_init();
    if (a->p1 > 0)
      c->set_rate(a->p1);
    c->set_source(sg4::Host::by_name(a->a))->set_destination(sg4::Host::by_name(a->b));
    c->set_payload_size((uint64_t)a->amount);
    a->act = c;
    c->start();
  } else {
    sg4::Disk* disk = nullptr;
    for (auto* d : disks)
      if (d->get_name() == a->a)
        disk = d;
    auto io = disk->io_init((sg_size_t)a->amount, a->rw == 'R' ? sg4::Io::OpType::READ : sg4::Io::OpType::WRITE);
    if (a->p2 != 1.0)
      io->set_priority(a->p2);
    a->act = io;
    io->start();
  }
  printf("B %s %a\n", a->id.c_str(), sg4::Engine::get_clock());
  a->act->wait();
  printf("E %s %a %a\n", a->id.c_str(), sg4::Engine::get_clock(), a->act->get_finish_time());
  a->done = true;
}

static void controller()
{
  for (auto& c : ctls) {
    sg4::this_actor::sleep_until(c.date);
    bool ok = false;
    if (c.op == 'K') {
      sg4::Host::by_name(c.target)->set_pstate((unsigned long)c.val);
      ok = true;
    } else if (c.op == 'B') {
      sg4::Link::by_name(c.target)->set_bandwidth(c.val);
      ok = true;
    } else {
      Act* a = find_act(c.target);
      if (a && a->act && not a->done && a->act->get_state() == sg4::Activity::State::STARTED &&
          a->act->get_impl()->model_action_ != nullptr &&
          a->act->get_impl()->model_action_->get_state() == simgrid::kernel::resource::Action::State::STARTED) {
        ok = true;
        if (c.op == 'S')
          a->act->suspend();
        else if (c.op == 'U')
          a->act->resume();
        else if (c.op == 'P' && a->kind == 'E')
          boost::static_pointer_cast<sg4::Exec>(a->act)->update_priority(c.val);
        else if (c.op == 'P' && a->kind == 'I')
          boost::static_pointer_cast<sg4::Io>(a->act)->update_priority(c.val);
        else
          ok = false;
      }
    }
    printf("x %a %c %s %s\n", sg4::Engine::get_clock(), c.op, c.target.c_str(), ok ? "done" : "skipped");
  }
}

static void ticker()
{
  for (double d : ticks)
    sg4::this_actor::sleep_until(d);
}

int main(int argc, char** argv)
{
  sg4::Engine e(&argc, argv);
  for (int i = 1; i < argc; i++)
    if (not strcmp(argv[i], "noloads"))
      with_loads = false;
    else if (not strcmp(argv[i], "nosamples"))
      with_samples = false;
  auto* zone = e.get_netzone_root()->add_netzone_full("world");
  std::vector<std::string> t;
  std::map<std::string, sg4::Link*> lk;
  while (drv::next_tokens(t)) {
    if (t.empty())
      continue;
    if (t[0] == "H") {
      int cores = atoi(t[2].c_str()), np = atoi(t[3].c_str());
      std::vector<double> sp;
      for (int i = 0; i < np; i++)
        sp.push_back(num(t[4 + i]));
      auto* h = zone->add_host(t[1], sp);
      h->set_core_count(cores);
      size_t k = 4 + np;
      if (k < t.size() && t[k] == "P") {
        double period = num(t[k + 1]);
        int n         = atoi(t[k + 2].c_str());
        std::string txt;
        for (int i = 0; i < n; i++)
          txt += t[k + 3 + 2 * i] + " " + t[k + 4 + 2 * i] + "\n";
        h->set_speed_profile(simgrid::kernel::profile::ProfileBuilder::from_string("prof_" + t[1], txt, period));
      }
      hosts.push_back(h);
    } else if (t[0] == "L") {
      auto* l = zone->add_link(t[1], num(t[2]));
      l->set_latency(num(t[3]));
      if (t[4] == "F")
        l->set_sharing_policy(sg4::Link::SharingPolicy::FATPIPE);
      lk[t[1]] = l;
      links.push_back(l);
    } else if (t[0] == "D") {
      auto* d = sg4::Host::by_name(t[2])->add_disk(t[1], num(t[3]), num(t[4]));
      disks.push_back(d);
    } else if (t[0] == "R") {
      std::vector<const sg4::Link*> ls;
      int n = atoi(t[3].c_str());
      for (int i = 0; i < n; i++)
        ls.push_back(lk.at(t[4 + i]));
      zone->add_route(sg4::Host::by_name(t[1]), sg4::Host::by_name(t[2]), ls);
    } else if (t[0] == "A") {
      Act a;
      a.id   = t[1];
      a.kind = t[2][0];
      if (a.kind == 'E') {
        a.a = t[3], a.amount = num(t[4]), a.start = num(t[5]), a.p1 = num(t[6]), a.p2 = num(t[7]);
        a.cores = atoi(t[8].c_str());
      } else if (a.kind == 'C') {
        a.a = t[3], a.b = t[4], a.amount = num(t[5]), a.start = num(t[6]), a.p1 = num(t[7]), a.p2 = 1.0;
      } else {
        a.a = t[3], a.amount = num(t[4]), a.start = num(t[5]), a.rw = t[6][0], a.p2 = num(t[7]), a.p1 = -1;
      }
      acts.push_back(a);
    } else if (t[0] == "X") {
      Ctl c;
      c.date = num(t[1]), c.op = t[2][0], c.target = t[3], c.val = t.size() > 4 ? num(t[4]) : 0;
      ctls.push_back(c);
    } else if (t[0] == "Z") {
      ticks.push_back(num(t[1]));
    }
  }
  auto* h0 = zone->add_host("ctl_host", 1.0); // all actors live here: their sleeps must not touch the observed CPUs
  zone->seal();
  e.get_netzone_root()->seal();
  if (with_samples)
    sg4::Engine::on_time_advance_cb(sample);
  for (auto& a : acts) {
    sg4::Host* where = h0;
    where->add_actor("act_" + a.id, run_activity, &a);
  }
  if (not ctls.empty())
    h0->add_actor("controller", controller);
  if (not ticks.empty())
    h0->add_actor("ticker", ticker);
  e.run();
  printf("END %a\n", sg4::Engine::get_clock());
  return 0;
}
