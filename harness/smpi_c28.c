/* C28 driver: runs a point-to-point script and logs what every receive got.
 *
 * usage: smpirun -np N smpi_c28 SCRIPT
 * Script lines (every rank reads the whole file and keeps its own lines, in file order):
 *   S rank dest tag count mode          mode 0 Isend, 1 Issend, 2 Send (only for messages the generator knows to be
 *                                       detached), 3 Bsend
 *   R rank src tag bufcount kind pre    src/tag -1 = MPI_ANY_SOURCE/MPI_ANY_TAG; kind 0 Recv, 1 Irecv+Wait,
 *                                       2 Probe then Recv of what the probe announced, 3 Iprobe loop then Recv,
 *                                       4 Sendrecv with a send to MPI_PROC_NULL; pre 1 = Irecv posted before any send
 * Phases: post the pre Irecvs | barrier | sends in order | barrier | other receives in order | wait for everything.
 * A message of count ints carries (sender, index of its S line among the sender's sends, tag, count, filler = index).
 * Output, one line per receive:  V rank index rc status.source status.tag get_count m0 m1 m2 m3 filler_ok
 */
#include <mpi.h>
#include <stdio.h>
#include <stdlib.h>
#include <string.h>

#define MAXOPS 4096
typedef struct {
  int dest, tag, count, mode;
} send_t;
typedef struct {
  int src, tag, bufcount, kind, pre;
} recv_t;

static send_t sends[MAXOPS];
static recv_t recvs[MAXOPS];
static int nsends, nrecvs, rank;

static void report(int idx, int rc, MPI_Status* st, int* buf, int bufcount)
{
  int cnt = -1;
  MPI_Get_count(st, MPI_INT, &cnt);
  int n  = cnt < bufcount ? cnt : bufcount;
  int ok = 1;
  for (int k = 4; k < n; k++)
    if (buf[k] != buf[1])
      ok = 0;
  printf("V %d %d %d %d %d %d %d %d %d %d %d\n", rank, idx, rc, st->MPI_SOURCE, st->MPI_TAG, cnt, n > 0 ? buf[0] : -1,
         n > 1 ? buf[1] : -1, n > 2 ? buf[2] : -1, n > 3 ? buf[3] : -1, ok);
  fflush(stdout);
}

int main(int argc, char** argv)
{
  MPI_Init(&argc, &argv);
  MPI_Comm_rank(MPI_COMM_WORLD, &rank);
  MPI_Comm_set_errhandler(MPI_COMM_WORLD, MPI_ERRORS_RETURN);
  FILE* f = fopen(argv[1], "r");
  if (!f)
    MPI_Abort(MPI_COMM_WORLD, 3);
  char line[256];
  while (fgets(line, sizeof line, f)) {
    int r, a, b, c, d, e;
    if (line[0] == 'S' && sscanf(line + 1, "%d %d %d %d %d", &r, &a, &b, &c, &d) == 5 && r == rank && nsends < MAXOPS)
      sends[nsends++] = (send_t){a, b, c, d};
    if (line[0] == 'R' && sscanf(line + 1, "%d %d %d %d %d %d", &r, &a, &b, &c, &d, &e) == 6 && r == rank &&
        nrecvs < MAXOPS)
      recvs[nrecvs++] = (recv_t){a, b, c, d, e};
  }
  fclose(f);

  if (rank == 0) {
    printf("K %d %d\n", MPI_SUCCESS, MPI_ERR_TRUNCATE);
    fflush(stdout);
  }
  int bsz    = 1 << 22;
  void* bbuf = malloc(bsz);
  MPI_Buffer_attach(bbuf, bsz);

  MPI_Request* rreq = malloc(sizeof(MPI_Request) * (nrecvs + 1));
  int** rbuf        = malloc(sizeof(int*) * (nrecvs + 1));
  for (int i = 0; i < nrecvs; i++) {
    rbuf[i] = malloc(sizeof(int) * (recvs[i].bufcount + 4));
    memset(rbuf[i], 0xEE, sizeof(int) * (recvs[i].bufcount + 4));
    rreq[i] = MPI_REQUEST_NULL;
    if (recvs[i].pre)
      MPI_Irecv(rbuf[i], recvs[i].bufcount, MPI_INT, recvs[i].src < 0 ? MPI_ANY_SOURCE : recvs[i].src,
                recvs[i].tag < 0 ? MPI_ANY_TAG : recvs[i].tag, MPI_COMM_WORLD, &rreq[i]);
  }
  MPI_Barrier(MPI_COMM_WORLD);

  MPI_Request* sreq = malloc(sizeof(MPI_Request) * (nsends + 1));
  int** sbuf        = malloc(sizeof(int*) * (nsends + 1));
  for (int i = 0; i < nsends; i++) {
    int n   = sends[i].count;
    sbuf[i] = malloc(sizeof(int) * (n + 4));
    for (int k = 0; k < n; k++)
      sbuf[i][k] = i;
    if (n > 0) sbuf[i][0] = rank;
    if (n > 1) sbuf[i][1] = i;
    if (n > 2) sbuf[i][2] = sends[i].tag;
    if (n > 3) sbuf[i][3] = n;
    sreq[i] = MPI_REQUEST_NULL;
    switch (sends[i].mode) {
      case 0: MPI_Isend(sbuf[i], n, MPI_INT, sends[i].dest, sends[i].tag, MPI_COMM_WORLD, &sreq[i]); break;
      case 1: MPI_Issend(sbuf[i], n, MPI_INT, sends[i].dest, sends[i].tag, MPI_COMM_WORLD, &sreq[i]); break;
      case 2: MPI_Send(sbuf[i], n, MPI_INT, sends[i].dest, sends[i].tag, MPI_COMM_WORLD); break;
      default: MPI_Bsend(sbuf[i], n, MPI_INT, sends[i].dest, sends[i].tag, MPI_COMM_WORLD); break;
    }
  }
  MPI_Barrier(MPI_COMM_WORLD);

  for (int i = 0; i < nrecvs; i++) {
    if (recvs[i].pre)
      continue;
    int src = recvs[i].src < 0 ? MPI_ANY_SOURCE : recvs[i].src;
    int tag = recvs[i].tag < 0 ? MPI_ANY_TAG : recvs[i].tag;
    int n   = recvs[i].bufcount, rc = 0, flag = 0;
    MPI_Status st;
    memset(&st, 0, sizeof st);
    switch (recvs[i].kind) {
      case 0: rc = MPI_Recv(rbuf[i], n, MPI_INT, src, tag, MPI_COMM_WORLD, &st); break;
      case 1:
        MPI_Irecv(rbuf[i], n, MPI_INT, src, tag, MPI_COMM_WORLD, &rreq[i]);
        rc = MPI_Wait(&rreq[i], &st);
        break;
      case 2:
        MPI_Probe(src, tag, MPI_COMM_WORLD, &st);
        rc = MPI_Recv(rbuf[i], n, MPI_INT, st.MPI_SOURCE, st.MPI_TAG, MPI_COMM_WORLD, &st);
        break;
      case 3:
        for (int it = 0; !flag && it < 3000; it++)
          MPI_Iprobe(src, tag, MPI_COMM_WORLD, &flag, &st);
        if (!flag) { /* the message never shows up: give up instead of spinning for ever */
          printf("V %d %d -99 -1 -1 -1 -1 -1 -1 -1 0\n", rank, i);
          fflush(stdout);
          continue;
        }
        rc = MPI_Recv(rbuf[i], n, MPI_INT, st.MPI_SOURCE, st.MPI_TAG, MPI_COMM_WORLD, &st);
        break;
      default:
        rc = MPI_Sendrecv(rbuf[i], 0, MPI_INT, MPI_PROC_NULL, 0, rbuf[i], n, MPI_INT, src, tag, MPI_COMM_WORLD, &st);
        break;
    }
    report(i, rc, &st, rbuf[i], n);
  }
  for (int i = 0; i < nrecvs; i++)
    if (recvs[i].pre) {
      MPI_Status st;
      memset(&st, 0, sizeof st);
      int rc = MPI_Wait(&rreq[i], &st);
      report(i, rc, &st, rbuf[i], recvs[i].bufcount);
    }
  MPI_Waitall(nsends, sreq, MPI_STATUSES_IGNORE);
  MPI_Barrier(MPI_COMM_WORLD);
  MPI_Buffer_detach(&bbuf, &bsz);
  MPI_Finalize();
  return 0;
}
