// C39 driver (compiled with -fno-access-control).
//   dep <aid1> <tc1> <bytes1...> | <aid2> <tc2> <bytes2...>
//        both transitions are built by the real deserialize_transition(); prints "<t1->dispatch_depends(t2)>
//        <t2->dispatch_depends(t1)>" or DIED <sig> (xbt_die in the table) ; runs in a child process
//   mseq <actor> <op> ...     ops on one fresh real MutexImpl: 0 lock_async 1 test 2 try_lock 3 unlock 4 wait
//        after each op: owner|-1 result|-1 n queue...  separated by ';'
//   sseq <capacity> <actor> <op> ...   ops on one fresh SemaphoreImpl: 0 acquire_async 1 release 2 wait
//        after each op: value n queue... k granted...
//   bseq <expected> <actor> <op> ...   ops on one fresh BarrierImpl: 0 acquire_async 1 wait (on a granted acquisition)
//        after each op: n queue... k granted...
//   cseq <actor> <op> <arg> ...   ops on fresh mailboxes 0..2, kernel in MC mode (MC_record_path set):
//        0 isend(mailbox) 1 irecv(mailbox) 2 test(rank of the actor's request) 3 wait-enabled?(rank) 4/5 iprobe SEND/RECV kind
//        after each op: ret ty comm mbox snd rcv n (is_send actor comm)... ';'  where ty/comm/mbox/snd/rcv are read from the
//        Transition rebuilt by deserialize_transition() from the observer's serialize(); then '|' and, for every op whose
//        predecessor belongs to another actor, prev->dispatch_depends(cur)
#include <csignal>
#include <fcntl.h>
#include <iostream>
#include <map>
#include <memory>
#include <sstream>
#include <string>
#include <sys/socket.h>
#include <sys/wait.h>
#include <unistd.h>
#include <vector>
#include "src/kernel/activity/BarrierImpl.hpp"
#include "src/kernel/activity/CommImpl.hpp"
#include "src/kernel/activity/MailboxImpl.hpp"
#include "src/kernel/activity/MutexImpl.hpp"
#include "src/kernel/actor/CommObserver.hpp"
#include "src/kernel/actor/WaitTestObserver.hpp"
#include "src/mc/mc_replay.hpp"
#include "src/mc/transition/TransitionComm.hpp"
#include "src/kernel/activity/SemaphoreImpl.hpp"
#include "src/kernel/actor/ActorImpl.hpp"
#include "src/mc/remote/Channel.hpp"
#include "src/mc/transition/Transition.hpp"
#include <simgrid/s4u.hpp>

using namespace simgrid;
namespace act = simgrid::kernel::activity;

static std::vector<kernel::actor::ActorImpl*> actors;
static long actors_index(const kernel::actor::ActorImpl* a)
{
  for (size_t i = 0; i < actors.size(); i++)
    if (actors[i] == a)
      return (long)i;
  return -2;
}

static mc::Transition* build(unsigned aid, int tc, std::vector<unsigned char> const& bytes)
{
  int sv[2];
  xbt_assert(socketpair(AF_UNIX, SOCK_STREAM, 0, sv) == 0);
  size_t done = 0;
  while (done < bytes.size()) {
    ssize_t n = ::send(sv[0], bytes.data() + done, bytes.size() - done, 0);
    xbt_assert(n > 0);
    done += n;
  }
  shutdown(sv[0], SHUT_WR);
  mc::Channel ch(sv[1]);
  auto* t = mc::deserialize_transition(mc::Aid{aid}, tc, ch);
  close(sv[0]);
  return t;
}

static void do_dep(std::vector<std::string> const& tk)
{
  fflush(stdout);
  pid_t pid = fork();
  if (pid == 0) {
    alarm(15);
    int devnull = open("/dev/null", O_WRONLY);
    dup2(devnull, 2);
    size_t i = 1;
    mc::Transition* t[2];
    for (int k = 0; k < 2; k++) {
      unsigned aid = std::stoul(tk.at(i));
      int tc       = std::stoi(tk.at(i + 1));
      i += 2;
      std::vector<unsigned char> b;
      for (; i < tk.size() && tk[i] != "|"; i++)
        b.push_back((unsigned char)std::stoi(tk[i]));
      i++;
      t[k] = build(aid, tc, b);
    }
    bool d12 = t[0]->dispatch_depends(t[1]);
    bool d21 = t[1]->dispatch_depends(t[0]);
    printf("%d %d\n", (int)d12, (int)d21);
    fflush(stdout);
    _exit(0);
  }
  int st = 0;
  waitpid(pid, &st, 0);
  if (WIFSIGNALED(st))
    printf("DIED %d\n", WTERMSIG(st));
  else if (WEXITSTATUS(st) != 0)
    printf("DIED exit%d\n", WEXITSTATUS(st));
}

static void do_mseq(std::vector<std::string> const& tk)
{
  static std::vector<s4u::MutexPtr> keep; // never destroyed: a mutex may end with pending acquisitions
  auto mtx = s4u::Mutex::create();
  keep.push_back(mtx);
  auto* m = mtx->pimpl_;
  static std::vector<std::map<long, act::MutexAcquisitionImplPtr>> keep_acq;
  keep_acq.emplace_back();
  auto& acq = keep_acq.back();
  for (size_t i = 1; i + 1 < tk.size(); i += 2) {
    long a     = std::stol(tk[i]);
    int op     = std::stoi(tk[i + 1]);
    auto* who  = actors.at(a);
    long res   = -1;
    switch (op) {
      case 0:
        acq[a] = m->lock_async(who);
        break;
      case 1:
        res = acq.count(a) ? (acq.at(a)->is_granted() ? 1 : 0) : (m->get_owner() == who ? 1 : 0); // owner through try_lock
        break;
      case 2:
        res = m->try_lock(who) ? 1 : 0;
        break;
      case 3:
        m->unlock(who);
        acq.erase(a);
        break;
      default:
        res = -1; // wait: enabled only when granted, no effect on the mutex
        break;
    }
    printf("%ld %ld %zu", m->get_owner() ? (long)actors_index(m->get_owner()) : -1L, res, m->ongoing_acquisitions_.size());
    for (auto const& q : m->ongoing_acquisitions_)
      printf(" %ld", (long)actors_index(q->get_issuer()));
    printf(" ; ");
  }
  printf("\n");
}

static void do_sseq(std::vector<std::string> const& tk)
{
  static std::vector<s4u::SemaphorePtr> keep;
  auto sem = s4u::Semaphore::create(std::stoul(tk.at(1)));
  keep.push_back(sem);
  auto* s = sem->pimpl_;
  static std::vector<std::map<long, act::SemAcquisitionImplPtr>> keep_acq;
  keep_acq.emplace_back();
  auto& acq = keep_acq.back();
  for (size_t i = 2; i + 1 < tk.size(); i += 2) {
    long a    = std::stol(tk[i]);
    int op    = std::stoi(tk[i + 1]);
    auto* who = actors.at(a);
    switch (op) {
      case 0:
        acq[a] = s->acquire_async(who);
        break;
      case 1:
        s->release();
        break;
      default: // wait on a granted acquisition: it is consumed
        xbt_assert(acq.at(a)->granted_);
        acq.erase(a);
        break;
    }
    printf("%u %zu", s->get_capacity(), s->ongoing_acquisitions_.size());
    for (auto const& q : s->ongoing_acquisitions_)
      printf(" %ld", actors_index(q->get_issuer()));
    std::vector<long> granted;
    for (auto const& [who_id, ac] : acq)
      if (ac->granted_)
        granted.push_back(who_id);
    printf(" %zu", granted.size());
    for (long g : granted)
      printf(" %ld", g);
    printf(" ; ");
  }
  printf("\n");
}

static void do_bseq(std::vector<std::string> const& tk)
{
  static std::vector<s4u::BarrierPtr> keep;
  auto bar = s4u::Barrier::create(std::stoul(tk.at(1)));
  keep.push_back(bar);
  auto* b = bar->pimpl_;
  static std::vector<std::map<long, act::BarrierAcquisitionImplPtr>> keep_acq;
  keep_acq.emplace_back();
  auto& acq = keep_acq.back();
  for (size_t i = 2; i + 1 < tk.size(); i += 2) {
    long a    = std::stol(tk[i]);
    int op    = std::stoi(tk[i + 1]);
    auto* who = actors.at(a);
    if (op == 0)
      acq[a] = b->acquire_async(who);
    else { // wait on a granted acquisition: it is consumed
      xbt_assert(acq.at(a)->granted_);
      acq.erase(a);
    }
    printf("%zu", b->ongoing_acquisitions_.size());
    for (auto const& q : b->ongoing_acquisitions_)
      printf(" %ld", actors_index(q->get_issuer()));
    std::vector<long> granted;
    for (auto const& [who_id, ac] : acq)
      if (ac->granted_)
        granted.push_back(who_id);
    printf(" %zu", granted.size());
    for (long g : granted)
      printf(" %ld", g);
    printf(" ; ");
  }
  printf("\n");
}

template <class Obs> static mc::Transition* through_the_wire(kernel::actor::ActorImpl* who, Obs const& obs)
{
  int sv[2];
  xbt_assert(socketpair(AF_UNIX, SOCK_STREAM, 0, sv) == 0);
  mc::Transition* t;
  {
    mc::Channel out(sv[0]);
    obs.serialize(out);
    xbt_assert(out.send() == 0);
    shutdown(sv[0], SHUT_WR);
    mc::Channel in(sv[1]);
    t = mc::deserialize_transition(mc::Aid{(unsigned)who->get_pid()}, 0, in);
  } // the channels close their sockets
  return t;
}

static void do_cseq(std::vector<std::string> const& tk)
{
  static int round = 0;
  static std::vector<act::CommImplPtr> keep; // never destroyed
  round++;
  MC_record_path() = "1"; // MC_record_replay_is_active(): the kernel takes its model-checking branches
  std::vector<act::MailboxImpl*> mb;
  for (int k = 0; k < 3; k++)
    mb.push_back(s4u::Mailbox::by_name("c" + std::to_string(round) + "_" + std::to_string(k))->get_impl());
  auto mb_index = [&mb](unsigned id) {
    for (size_t k = 0; k < mb.size(); k++)
      if (mb[k]->get_id() == id)
        return (long)k;
    return -1L;
  };
  auto pid_index = [](long pid) {
    for (size_t i = 0; i < actors.size(); i++)
      if (actors[i]->get_pid() == pid)
        return (long)i;
    return -1L;
  };
  std::map<long, std::vector<act::CommImplPtr>> mine;
  static int dummy_payload = 7;
  std::vector<int> deps;
  mc::Transition* prev = nullptr;
  long prev_actor      = -1;
  for (size_t i = 1; i + 2 < tk.size(); i += 3) {
    long a    = std::stol(tk[i]);
    int op    = std::stoi(tk[i + 1]);
    long arg  = std::stol(tk[i + 2]);
    auto* who = actors.at(a);
    long ret  = -1;
    mc::Transition* t = nullptr;
    long shown_mb     = -1;
    if (op == 0) {
      kernel::actor::CommIsendSimcall obs{who,     mb.at(arg), 1.0,     -1.0,  (unsigned char*)&dummy_payload, sizeof(int),
                                          nullptr, nullptr,    nullptr, nullptr, false,                         "x"};
      auto c = boost::static_pointer_cast<act::CommImpl>(act::CommImpl::isend(&obs));
      mine[a].push_back(c);
      keep.push_back(c);
      t        = through_the_wire(who, obs);
      shown_mb = arg;
    } else if (op == 1) {
      kernel::actor::CommIrecvSimcall obs{who, mb.at(arg), nullptr, nullptr, nullptr, nullptr, nullptr, -1.0, "x"};
      auto c = boost::static_pointer_cast<act::CommImpl>(act::CommImpl::irecv(&obs));
      mine[a].push_back(c);
      keep.push_back(c);
      t        = through_the_wire(who, obs);
      shown_mb = arg;
    } else if (op == 2) {
      auto c = mine.at(a).at(arg);
      ret    = c->test(who) ? 1 : 0;
      kernel::actor::ActivityTestSimcall obs{who, c.get(), "x"};
      t        = through_the_wire(who, obs);
      shown_mb = mb_index(static_cast<mc::CommTestTransition*>(t)->get_mailbox());
    } else if (op == 3) {
      auto c = mine.at(a).at(arg);
      kernel::actor::ActivityWaitSimcall obs{who, c.get(), -1.0, "x"};
      xbt_assert(obs.is_enabled(), "the model says this wait is enabled");
      t        = through_the_wire(who, obs);
      shown_mb = mb_index(static_cast<mc::CommWaitTransition*>(t)->get_mailbox());
    } else {
      auto kind = op == 4 ? s4u::Mailbox::IprobeKind::SEND : s4u::Mailbox::IprobeKind::RECV;
      ret       = mb.at(arg)->iprobe(kind, nullptr, nullptr) != nullptr ? 1 : 0;
      // IprobeSimcall's constructor reads an smpi::Request: the transition is built directly
      t        = new mc::CommIprobeTransition(mc::Aid{(unsigned)who->get_pid()}, 0, op == 4, mb.at(arg)->get_id(), 0);
      shown_mb = arg;
    }
    long comm = 0, snd = -1, rcv = -1;
    switch (t->type_) {
      case mc::Transition::Type::COMM_ASYNC_SEND:
        comm = static_cast<mc::CommSendTransition*>(t)->get_comm();
        break;
      case mc::Transition::Type::COMM_ASYNC_RECV:
        comm = static_cast<mc::CommRecvTransition*>(t)->get_comm();
        break;
      case mc::Transition::Type::COMM_TEST:
        comm = static_cast<mc::CommTestTransition*>(t)->get_comm();
        snd  = static_cast<mc::CommTestTransition*>(t)->get_sender().c_val();
        rcv  = static_cast<mc::CommTestTransition*>(t)->get_receiver().c_val();
        break;
      case mc::Transition::Type::COMM_WAIT:
        comm = static_cast<mc::CommWaitTransition*>(t)->get_comm();
        snd  = static_cast<mc::CommWaitTransition*>(t)->get_sender().c_val();
        rcv  = static_cast<mc::CommWaitTransition*>(t)->get_receiver().c_val();
        break;
      default:
        break;
    }
    auto* box = mb.at(shown_mb);
    printf("%ld %d %ld %ld %ld %ld %zu", ret, (int)t->type_, comm, shown_mb, snd < 0 ? -1L : pid_index(snd),
           rcv < 0 ? -1L : pid_index(rcv), box->comm_queue_.size());
    for (auto const& q : box->comm_queue_) {
      bool is_send = q->get_type() == act::CommImplType::SEND;
      printf(" %d %ld %u", (int)is_send, actors_index(is_send ? q->src_actor_.get() : q->dst_actor_.get()), q->get_id());
    }
    printf(" ; ");
    if (prev != nullptr && prev_actor != a)
      deps.push_back(prev->dispatch_depends(t) ? 1 : 0);
    prev       = t;
    prev_actor = a;
  }
  printf("|");
  for (int d : deps)
    printf(" %d", d);
  // final state: every request (actor rank comm src dst), then every mailbox (n, then is_send actor comm per entry)
  printf(" #");
  for (auto const& [a, v] : mine)
    for (size_t k = 0; k < v.size(); k++)
      printf(" %ld %zu %u %ld %ld", a, k, v[k]->get_id(), actors_index(v[k]->src_actor_.get()), actors_index(v[k]->dst_actor_.get()));
  printf(" #");
  for (auto* box : mb) {
    printf(" %zu", box->comm_queue_.size());
    for (auto const& q : box->comm_queue_) {
      bool is_send = q->get_type() == act::CommImplType::SEND;
      printf(" %d %ld %u", (int)is_send, actors_index(is_send ? q->src_actor_.get() : q->dst_actor_.get()), q->get_id());
    }
  }
  printf("\n");
  MC_record_path().clear();
}

int main(int argc, char** argv)
{
  s4u::Engine e(&argc, argv);
  auto* zone = e.get_netzone_root();
  auto* h    = zone->add_host("h0", 1e9);
  zone->seal();
  for (int i = 0; i < 6; i++)
    actors.push_back(h->add_actor("a" + std::to_string(i), []() {})->get_impl());
  std::string line;
  while (std::getline(std::cin, line)) {
    std::istringstream is(line);
    std::vector<std::string> tk;
    std::string t;
    while (is >> t)
      tk.push_back(t);
    if (tk.empty())
      printf("\n");
    else if (tk[0] == "dep")
      do_dep(tk);
    else if (tk[0] == "mseq")
      do_mseq(tk);
    else if (tk[0] == "sseq")
      do_sseq(tk);
    else if (tk[0] == "bseq")
      do_bseq(tk);
    else if (tk[0] == "cseq")
      do_cseq(tk);
    else
      printf("?\n");
    fflush(stdout);
  }
  fflush(stdout);
  _exit(0);
}
