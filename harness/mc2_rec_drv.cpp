// C41 driver: the real RecordTrace (src/mc/mc_record.cpp).
//   parse <c1> <c2> ...      character codes of a path string -> "OK n aid times ... | <codes of to_string()>"  or  "ERR"
//   tostr <aid> <times> ...  -> character codes of RecordTrace::to_string()
#include <iostream>
#include <sstream>
#include <stdexcept>
#include <string>
#include <unistd.h>
#include <vector>
#include "src/mc/mc_record.hpp"
#include "src/mc/transition/Transition.hpp"
#include <simgrid/s4u.hpp>

using namespace simgrid;

static void codes(const std::string& s)
{
  for (size_t i = 0; i < s.size(); i++)
    printf("%s%d", i ? " " : "", (int)(unsigned char)s[i]);
}

int main(int argc, char** argv)
{
  s4u::Engine e(&argc, argv);
  std::string line;
  while (std::getline(std::cin, line)) {
    std::istringstream is(line);
    std::string cmd;
    is >> cmd;
    std::vector<long> v;
    long x;
    while (is >> x)
      v.push_back(x);
    if (cmd == "parse") {
      std::string s;
      for (long c : v)
        s += (char)c;
      try {
        mc::RecordTrace t(s);
        size_t n = 0;
        std::ostringstream o;
        for (auto const* tr : t) {
          o << " " << tr->aid_.c_val() << " " << tr->times_considered_;
          n++;
        }
        printf("OK %zu%s | ", n, o.str().c_str());
        try {
          codes(t.to_string());
        } catch (const std::exception&) { // an id that does not fit mc::Aid (31 = INVALID here)
          printf("THROW");
        }
        printf("\n");
      } catch (const std::invalid_argument&) {
        printf("ERR\n");
      }
    } else if (cmd == "tostr") {
      mc::RecordTrace t;
      for (size_t i = 0; i + 1 < v.size(); i += 2)
        t.push_back(new mc::Transition(mc::Transition::Type::UNKNOWN, mc::Aid{(unsigned)v[i]}, (int)v[i + 1]));
      codes(t.to_string());
      printf("\n");
    } else
      printf("?\n");
    fflush(stdout);
  }
  fflush(stdout);
  _exit(0);
}
