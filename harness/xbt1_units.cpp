// C27: call the exported xbt_parse_get_{time,size,bandwidth,speed} of the freshly built libsimgrid.
//   input line : kind (0 time, 1 size, 2 bandwidth, 3 speed) followed by the character codes of the string
//   output line: 0 (exception)  |  1 m e (finite value m * 2^e, m integer)  |  2 neg (infinity)  |  3 (nan)
#include "drv.hpp"
#include <cmath>
#include <exception>
#include <xbt/parse_units.hpp>

int main()
{
  std::vector<long long> v;
  while (drv::next_case(v)) {
    std::string s;
    for (size_t i = 1; i < v.size(); i++)
      s.push_back((char)v[i]);
    double r;
    try {
      switch (v.at(0)) {
        case 0:
          r = xbt_parse_get_time("", 0, s, "");
          break;
        case 1:
          r = xbt_parse_get_size("", 0, s, "");
          break;
        case 2:
          r = xbt_parse_get_bandwidth("", 0, s, "");
          break;
        default:
          r = xbt_parse_get_speed("", 0, s, "");
          break;
      }
    } catch (const std::exception&) {
      printf("0\n");
      continue;
    }
    if (std::isnan(r))
      printf("3\n");
    else if (std::isinf(r))
      printf("2 %d\n", r < 0 ? 1 : 0);
    else {
      int e;
      double f = std::frexp(r, &e);
      printf("1 %lld %d\n", (long long)std::ldexp(f, 53), e - 53);
    }
  }
  return 0;
}
