// C45: drive simgrid::xbt::random of the freshly built libsimgrid.
//   mode seeded: line = seed op...   -> set_mersenne_seed(seed) on the DEFAULT generator, then the public functions
//   mode forced: line = n w1..wn op... -> an XbtRandom whose mt19937 state words are w1..wn (position 0), so that its
//                                       next raw outputs are temper(w_i); then the member functions
//   op = 0 min max            -> uniform_int(min, max)                 prints the int
//      = 1 mnm mne mxm mxe    -> uniform_real(mnm*2^mne, mxm*2^mxe)    prints  m e  (result = m * 2^e) or "inf"/"nan"
#include "drv.hpp"
#include <cmath>
#include <sstream>
#include <xbt/random.hpp>

static void print_double(double r)
{
  if (std::isnan(r))
    printf(" nan 0");
  else if (std::isinf(r))
    printf(" inf %d", r < 0 ? 1 : 0);
  else {
    int e;
    double f = std::frexp(r, &e);
    printf(" %lld %d", (long long)std::ldexp(f, 53), e - 53);
  }
}

int main(int argc, char** argv)
{
  std::string mode = argc > 1 ? argv[1] : "seeded";
  std::vector<long long> v;
  while (drv::next_case(v)) {
    size_t i = 0;
    simgrid::xbt::random::XbtRandom forced;
    bool use_forced = mode == "forced";
    if (use_forced) {
      long long n = v.at(i++);
      std::ostringstream st;
      for (long long k = 0; k < 624; k++)
        st << (k < n ? v.at(i + k) : 0) << ' ';
      st << 0;
      i += n;
      std::istringstream is(st.str());
      is >> forced.mt19937_gen;
      if (is.fail()) {
        printf("state-rejected\n");
        continue;
      }
    } else {
      simgrid::xbt::random::set_mersenne_seed((int)v.at(i++));
    }
    bool first = true;
    while (i < v.size()) {
      long long kind = v.at(i++);
      if (kind == 0) {
        int mn = (int)v.at(i), mx = (int)v.at(i + 1);
        i += 2;
        int r = use_forced ? forced.uniform_int(mn, mx) : simgrid::xbt::random::uniform_int(mn, mx);
        printf(" %d", r);
      } else {
        double mn = std::ldexp((double)v.at(i), (int)v.at(i + 1)), mx = std::ldexp((double)v.at(i + 2), (int)v.at(i + 3));
        i += 4;
        double r = use_forced ? forced.uniform_real(mn, mx) : simgrid::xbt::random::uniform_real(mn, mx);
        print_double(r);
      }
    }
    printf("\n");
    fflush(stdout);
  }
  return 0;
}
