// C13: run a workflow script through the S4U activity API of the freshly built libsimgrid and print what happened.
// One process = one case (the Engine is a singleton).  The case is one line of integers on stdin:
//   mode tick_log2 <ops...>        mode 0 = build through the API, 1 = JSON loader (argv[1] = file), 2 = DAX loader
//   ops: 0 kind dur  Create (kind 0 exec / 1 comm / 2 io; dur in ticks: flops or bytes = dur * 2^20 / 2^tick_log2)
//        1 a b       a->add_successor(b)         2 a b   a->remove_successor(b)
//        7           assign every unassigned activity in id order (loader modes)
//        3 b         assign b (exec: set_host; comm: set_destination (source given at creation); io: set_disk)
//        4 b         b->start()                  5 t     e.run_until(t ticks)        6   e.run()
// Every activity gets dedicated resources (host i, link i between host i and host N+i, disk i on host i) of speed
// 2^20 per second, CM02 network without latency/cross-traffic, so that durations are exactly dur ticks.
// Output (one line): "O k date" per executed op, "S b date" / "F b date state" from the on_start / on_completion
// signals in the order they fire, "E k" if op k threw std::invalid_argument, then "Z state_0 .. state_{n-1}".
// Dates are printed as C hex floats (exact).
#include "drv.hpp"
#include <simgrid/s4u.hpp>
#include <map>
namespace sg4 = simgrid::s4u;

static std::vector<sg4::ActivityPtr> acts;
static std::map<const sg4::Activity*, int> ids;
static std::vector<int> kinds;
static std::string out;
static void ev(const char* tag, long long x, double d, const char* extra = nullptr)
{
  char buf[128];
  snprintf(buf, sizeof buf, "%s %lld %a%s%s ", tag, x, d, extra ? " " : "", extra ? extra : "");
  out += buf;
}
static int id_of(const sg4::Activity& a)
{
  auto it = ids.find(&a);
  if (it != ids.end())
    return it->second;
  // a signal fired while a loader is still building the DAG: JSON tasks are named t<i>
  const std::string& nm = a.get_name();
  return nm.size() > 1 && nm[0] == 't' ? atoi(nm.c_str() + 1) : -1;
}
template <class T> static void hook()
{
  T::on_start_cb([](T const& a) { ev("S", id_of(a), sg4::Engine::get_clock()); });
  T::on_completion_cb([](T const& a) { ev("F", id_of(a), sg4::Engine::get_clock(), a.get_state_str()); });
}

int main(int argc, char** argv)
{
  std::vector<long long> v;
  if (!drv::next_case(v) || v.size() < 2)
    return 3;
  int mode        = (int)v[0];
  double tick     = 1.0 / (double)(1LL << v[1]);
  const double SP = 1048576.0;
  const double CPU = mode == 2 ? 4200000000. : SP; // the DAX loader turns runtimes into flops of a 4.2 Gf machine
  std::vector<std::string> args = {"eng2_dag", "--log=root.thres:critical", "--cfg=network/model:CM02",
                                   "--cfg=network/crosstraffic:0", "--cfg=network/TCP-gamma:0"};
  std::vector<char*> cargv;
  for (auto& s : args)
    cargv.push_back(s.data());
  int cargc = (int)cargv.size();
  sg4::Engine e(&cargc, cargv.data());
  // count the activities to dimension the platform
  size_t ncreate = 0;
  for (size_t i = 2; i < v.size();) {
    switch (v[i]) {
      case 0: ncreate++; i += 3; break;
      case 1: case 2: i += 3; break;
      case 3: case 4: case 5: i += 2; break;
      default: i += 1;
    }
  }
  size_t nres = std::max<size_t>(ncreate, argc > 2 ? atoi(argv[2]) : 0);
  auto* zone  = e.get_netzone_root()->add_netzone_full("z");
  std::vector<sg4::Host*> h, h2;
  std::vector<sg4::Disk*> dk;
  for (size_t i = 0; i < nres; i++) {
    auto* a = zone->add_host("h" + std::to_string(i), CPU);
    auto* b = zone->add_host("g" + std::to_string(i), SP);
    auto* l = zone->add_link("l" + std::to_string(i), SP)->set_latency(0);
    zone->add_route(a, b, {l});
    dk.push_back(a->add_disk("d" + std::to_string(i), SP, SP));
    h.push_back(a);
    h2.push_back(b);
  }
  zone->seal();
  e.get_netzone_root()->seal();
  hook<sg4::Exec>();
  hook<sg4::Comm>();
  hook<sg4::Io>();

  if (mode == 1 || mode == 2) {
    std::vector<sg4::ActivityPtr> dag =
        mode == 1 ? sg4::create_DAG_from_json(argv[1]) : sg4::create_DAG_from_DAX(argv[1]);
    // activities are named "t<i>" (JSON) or "<i>@t<i>" (DAX jobs); others (root, end, file transfers) get ids >= nres
    acts.assign(nres, nullptr);
    kinds.assign(nres, 0);
    for (auto& a : dag) {
      const std::string& nm = a->get_name();
      size_t p              = nm.find('t');
      bool job = (mode == 1 && nm[0] == 't') || (mode == 2 && nm.find("@t") != std::string::npos && nm.find('_') == std::string::npos);
      if (job) {
        int i   = atoi(nm.c_str() + (mode == 1 ? 1 : nm.find("@t") + 2));
        acts[i] = a;
        ids[a.get()] = i;
      } else {
        ids[a.get()] = (int)acts.size();
        acts.push_back(a);
        kinds.push_back(dynamic_cast<sg4::Comm*>(a.get()) ? 1 : 0);
      }
    }
    // describe what the loader built: "D id kind amount npred preds.. state" for every activity
    for (size_t i = 0; i < acts.size(); i++) {
      if (!acts[i])
        continue;
      char buf[64];
      kinds[i] = dynamic_cast<sg4::Comm*>(acts[i].get()) ? 1 : 0;
      snprintf(buf, sizeof buf, " %d %a %zu ", kinds[i], acts[i]->get_remaining(), acts[i]->get_dependencies().size());
      out += "D " + std::to_string(i) + " " + acts[i]->get_name() + buf;
      std::vector<int> ps;
      for (auto const& p : acts[i]->get_dependencies())
        ps.push_back(ids[p.get()]);
      std::sort(ps.begin(), ps.end());
      for (int p : ps)
        out += std::to_string(p) + " ";
      out += std::string(acts[i]->get_state_str()) + " " + (acts[i]->is_assigned() ? "1 " : "0 ");
    }
  }

  size_t k = 0;
  try {
    for (size_t i = 2; i < v.size(); k++) {
      long long opc = v[i];
      if (opc != 0 || mode == 0)
        ev("O", (long long)k, sg4::Engine::get_clock());
      switch (opc) {
        case 0: {
          if (mode == 0) {
            int kind   = (int)v[i + 1];
            double amt = (double)v[i + 2] * tick * SP;
            size_t me  = acts.size();
            sg4::ActivityPtr a;
            if (kind == 0)
              a = sg4::Exec::init()->set_name("t" + std::to_string(me))->set_flops_amount(amt);
            else if (kind == 1)
              a = sg4::Comm::sendto_init()->set_name("t" + std::to_string(me))->set_payload_size((uint64_t)amt);
            else
              a = sg4::Io::init()->set_name("t" + std::to_string(me))->set_size((sg_size_t)amt)->set_op_type(sg4::Io::OpType::READ);
            ids[a.get()] = (int)me;
            acts.push_back(a);
            kinds.push_back(kind);
          }
          i += 3;
          break;
        }
        case 1: {
          auto a = acts.at(v[i + 1]);
          auto b = acts.at(v[i + 2]);
          if (auto* x = dynamic_cast<sg4::Exec*>(a.get())) x->add_successor(b);
          else if (auto* y = dynamic_cast<sg4::Comm*>(a.get())) y->add_successor(b);
          else dynamic_cast<sg4::Io*>(a.get())->add_successor(b);
          i += 3;
          break;
        }
        case 2: {
          auto a = acts.at(v[i + 1]);
          auto b = acts.at(v[i + 2]);
          if (auto* x = dynamic_cast<sg4::Exec*>(a.get())) x->remove_successor(b);
          else if (auto* y = dynamic_cast<sg4::Comm*>(a.get())) y->remove_successor(b);
          else dynamic_cast<sg4::Io*>(a.get())->remove_successor(b);
          i += 3;
          break;
        }
        case 3: {
          size_t b = v[i + 1];
          auto a   = acts.at(b);
          size_t r = b < nres ? b : b % nres;
          if (auto* x = dynamic_cast<sg4::Exec*>(a.get())) x->set_host(h[r]);
          else if (auto* y = dynamic_cast<sg4::Comm*>(a.get())) { y->set_source(h[r]); y->set_destination(h2[r]); }
          else dynamic_cast<sg4::Io*>(a.get())->set_disk(dk[r]);
          i += 2;
          break;
        }
        case 4: {
          auto a = acts.at(v[i + 1]);
          if (auto* x = dynamic_cast<sg4::Exec*>(a.get())) x->start();
          else if (auto* y = dynamic_cast<sg4::Comm*>(a.get())) y->start();
          else dynamic_cast<sg4::Io*>(a.get())->start();
          i += 2;
          break;
        }
        case 7: // assign everything that is not assigned yet, in id order
          for (size_t b = 0; b < acts.size(); b++) {
            auto a = acts[b];
            if (!a || a->is_assigned())
              continue;
            size_t r = b % nres;
            if (auto* x = dynamic_cast<sg4::Exec*>(a.get())) x->set_host(h[r]);
            else if (auto* y = dynamic_cast<sg4::Comm*>(a.get())) { y->set_source(h[r]); y->set_destination(h2[r]); }
          }
          i += 1;
          break;
        case 5:
          e.run_until((double)v[i + 1] * tick);
          i += 2;
          break;
        default:
          e.run();
          i += 1;
      }
    }
  } catch (const std::invalid_argument& ex) {
    out += "E " + std::to_string(k) + " ";
  } catch (const std::out_of_range& ex) {
    out += "E " + std::to_string(k) + " ";
  }
  out += "Z ";
  for (auto& a : acts)
    out += std::string(a ? a->get_state_str() : "NONE") + " ";
  char buf[64];
  snprintf(buf, sizeof buf, "T %a", sg4::Engine::get_clock());
  out += buf;
  puts(out.c_str());
  fflush(stdout);
  _exit(0); // activities are still referenced by signals/containers; skip static destruction order problems
}
