/* C36 — interpreter of a generated SPMD script over a fixed set of global / static variables ("cells").
 * Each rank writes rank-specific values to its globals between blocking MPI calls (some of which use globals as
 * message buffers), and dumps all cells after every call.  Output lines (write(2) each, so their order is the real
 * interleaving of the ranks on the one OS thread):
 *    S <rank>                 the rank is running again after an MPI call / sleep returned
 *    W <rank> <cell> <value>  the rank stored value into cell
 *    D <rank> v0 ... v23      the rank read all cells
 *    BAD <rank> <cell> <got> <expected>   self-check against a shadow copy kept outside the data segment
 * Script (argv[1]): "<nranks> <nops>" then per op "<opcode> <nargs> args...":
 *    1 W rank cell value | 2 barrier | 3 send src dst (g_msg -> g_in) | 4 allreduce (g_msg -> g_in, sum)
 *    5 bcast root (g_msg) | 6 sendrecv ring shift (g_msg -> g_in) | 7 isend/irecv ring shift + waitall
 *    8 usleep rank usec | 9 send src dst from a heap copy of g_msg into the global g_in
 */
#include <mpi.h>
#include <stdio.h>
#include <stdlib.h>
#include <string.h>
#include <unistd.h>

#define NCELLS 24
int g_int = 41;                        /* cell 0: initialised global (.data) */
int g_zero;                            /* cell 1: zero-initialised global (.bss) */
int g_arr[8];                          /* cells 2..9 */
static double s_dbl = 2.0;             /* cell 10: file-scope static of another type */
static int s_arr[4] = {1, 2, 3, 4};    /* cells 12..15 */
int g_msg[4]        = {5, 6, 7, 8};    /* cells 16..19: used as send buffer */
int g_in[4];                           /* cells 20..23: used as receive buffer */

static int* fs_cell(void)
{
  static int fs = 7; /* cell 11: static local to a function */
  return &fs;
}

static int get(int c)
{
  if (c == 0) return g_int;
  if (c == 1) return g_zero;
  if (c < 10) return g_arr[c - 2];
  if (c == 10) return (int)s_dbl;
  if (c == 11) return *fs_cell();
  if (c < 16) return s_arr[c - 12];
  if (c < 20) return g_msg[c - 16];
  return g_in[c - 20];
}

static void set(int c, int v)
{
  if (c == 0) g_int = v;
  else if (c == 1) g_zero = v;
  else if (c < 10) g_arr[c - 2] = v;
  else if (c == 10) s_dbl = (double)v;
  else if (c == 11) *fs_cell() = v;
  else if (c < 16) s_arr[c - 12] = v;
  else if (c < 20) g_msg[c - 16] = v;
  else g_in[c - 20] = v;
}

static void out(const char* s)
{
  if (write(2, s, strlen(s)) < 0)
    exit(4);
}

static void dump(int rank, const int* shadow)
{
  char buf[1024];
  int n = snprintf(buf, sizeof buf, "S %d\nD %d", rank, rank);
  for (int c = 0; c < NCELLS; c++)
    n += snprintf(buf + n, sizeof buf - n, " %d", get(c));
  n += snprintf(buf + n, sizeof buf - n, "\n");
  out(buf);
  for (int c = 0; c < NCELLS; c++)
    if (get(c) != shadow[c]) {
      snprintf(buf, sizeof buf, "BAD %d %d %d %d\n", rank, c, get(c), shadow[c]);
      out(buf);
    }
}

int main(int argc, char** argv)
{
  int rank, n;
  MPI_Init(&argc, &argv);
  MPI_Comm_rank(MPI_COMM_WORLD, &rank);
  MPI_Comm_size(MPI_COMM_WORLD, &n);
  FILE* f = argc > 1 ? fopen(argv[1], "r") : NULL;
  if (!f) {
    out("cannot open script\n");
    MPI_Abort(MPI_COMM_WORLD, 3);
  }
  long hn, hops;
  if (fscanf(f, "%ld %ld", &hn, &hops) != 2 || hn != n)
    MPI_Abort(MPI_COMM_WORLD, 3);
  int* shadow = malloc(NCELLS * sizeof(int)); /* heap: outside the privatized segment, one per rank */
  int* heap   = malloc(4 * sizeof(int));
  for (int c = 0; c < NCELLS; c++)
    shadow[c] = get(c);
  dump(rank, shadow);
  char buf[128];
  for (long k = 0; k < hops; k++) {
    long op, a[8];
    int na;
    if (fscanf(f, "%ld %d", &op, &na) != 2)
      break;
    for (int i = 0; i < na; i++)
      if (fscanf(f, "%ld", &a[i]) != 1)
        exit(3);
    MPI_Request rq[2];
    switch (op) {
      case 1:
        if (rank == a[0]) {
          set(a[1], a[2]);
          shadow[a[1]] = a[2];
          snprintf(buf, sizeof buf, "W %d %ld %ld\n", rank, a[1], a[2]);
          out(buf);
        }
        continue; /* no MPI call, no dump */
      case 2: MPI_Barrier(MPI_COMM_WORLD); break;
      case 3:
      case 9:
        if (rank == a[0]) {
          if (op == 9) {
            memcpy(heap, g_msg, sizeof g_msg);
            MPI_Send(heap, 4, MPI_INT, a[1], 1, MPI_COMM_WORLD);
          } else
            MPI_Send(g_msg, 4, MPI_INT, a[1], 1, MPI_COMM_WORLD);
        } else if (rank == a[1]) {
          MPI_Recv(g_in, 4, MPI_INT, a[0], 1, MPI_COMM_WORLD, MPI_STATUS_IGNORE);
          /* what the sender's g_msg held is the script's business: the driver knows it; here only self-consistency */
          for (int i = 0; i < 4; i++)
            shadow[20 + i] = g_in[i];
        } else
          continue;
        break;
      case 4:
        MPI_Allreduce(g_msg, g_in, 4, MPI_INT, MPI_SUM, MPI_COMM_WORLD);
        for (int i = 0; i < 4; i++)
          shadow[20 + i] = g_in[i];
        break;
      case 5:
        MPI_Bcast(g_msg, 4, MPI_INT, a[0], MPI_COMM_WORLD);
        for (int i = 0; i < 4; i++)
          shadow[16 + i] = g_msg[i];
        break;
      case 6:
        MPI_Sendrecv(g_msg, 4, MPI_INT, (rank + a[0]) % n, 2, g_in, 4, MPI_INT, (rank - a[0] + n) % n, 2, MPI_COMM_WORLD,
                     MPI_STATUS_IGNORE);
        for (int i = 0; i < 4; i++)
          shadow[20 + i] = g_in[i];
        break;
      case 7:
        MPI_Irecv(g_in, 4, MPI_INT, (rank - a[0] + n) % n, 3, MPI_COMM_WORLD, &rq[0]);
        MPI_Isend(g_msg, 4, MPI_INT, (rank + a[0]) % n, 3, MPI_COMM_WORLD, &rq[1]);
        MPI_Waitall(2, rq, MPI_STATUSES_IGNORE);
        for (int i = 0; i < 4; i++)
          shadow[20 + i] = g_in[i];
        break;
      case 8:
        if (rank != a[0])
          continue;
        usleep(a[1]);
        break;
      default: MPI_Abort(MPI_COMM_WORLD, 3);
    }
    dump(rank, shadow);
  }
  fclose(f);
  MPI_Finalize();
  return 0;
}
