// C48: drive simgrid::config of the freshly built libsimgrid.  Every case runs in a forked child (callbacks may abort).
//   mode dump: print help() and show_aliases() after Engine initialisation (all registered items and aliases)
//   every line of modes lib/ops starts with a flag: 1 = run this case in a forked child (it may end the process), 0 = in-process
//   mode lib : line = flag via tycode nlen name.. vlen value..   (via 0 set_as_string, 1 set_parse("name:value"))
//              -> "<outcome> B <value before> A <value after> W <what()>", outcome 0 ok | 1 unknown name | 2 exception | 4 abort/signal
//   mode ops : line = ops on the test table (see run_c48_ops in Xbt/Config.v): kind nlen name.. slen text..
//              -> "<code per op> D <dump of the test items: value, callback count>"
// value encoding: 1 z | 2 m e | 3 neg | 4 | 5 b | 6 len codes..
#include "drv.hpp"
#include <cmath>
#include <functional>
#include <map>
#include <simgrid/s4u.hpp>
#include <stdexcept>
#include <sys/wait.h>
#include <unistd.h>
#include <xbt/config.hpp>

namespace cfg = simgrid::config;

static std::string enc_double(double r)
{
  char buf[80];
  if (std::isnan(r))
    return "4";
  if (std::isinf(r))
    return r < 0 ? "3 1" : "3 0";
  int e;
  double f = std::frexp(r, &e);
  snprintf(buf, sizeof buf, "2 %lld %d", (long long)std::ldexp(f, 53), e - 53);
  return buf;
}
static std::string enc_string(const std::string& s)
{
  std::string o = "6 " + std::to_string(s.size());
  for (unsigned char c : s)
    o += " " + std::to_string((int)c);
  return o;
}
static std::string read_back(const std::string& name, int ty)
{
  switch (ty) {
    case 0:
      return "1 " + std::to_string(cfg::get_value<int>(name));
    case 1:
      return enc_double(cfg::get_value<double>(name));
    case 2:
      return std::string("5 ") + (cfg::get_value<bool>(name) ? "1" : "0");
    default:
      return enc_string(cfg::get_value<std::string>(name));
  }
}
static std::string take_str(const std::vector<long long>& v, size_t& i)
{
  long long n = v.at(i++);
  std::string s;
  for (long long k = 0; k < n; k++)
    s.push_back((char)v.at(i++));
  return s;
}

// run f in a child; the child writes its answer to a pipe; returns the text and whether the child ended normally
static std::string in_child(const std::function<void(int)>& f, bool& normal)
{
  int fd[2];
  if (pipe(fd) != 0)
    exit(3);
  fflush(stdout);
  pid_t pid = fork();
  if (pid == 0) {
    close(fd[0]);
    if (not freopen("/dev/null", "w", stderr)) { /* keep going */ }
    f(fd[1]);
    _exit(0);
  }
  close(fd[1]);
  std::string out;
  char buf[4096];
  ssize_t n;
  while ((n = read(fd[0], buf, sizeof buf)) > 0)
    out.append(buf, n);
  close(fd[0]);
  int status = 0;
  waitpid(pid, &status, 0);
  normal = WIFEXITED(status) && WEXITSTATUS(status) == 0;
  return out;
}
static std::string direct_out; // in-process cases append here instead of writing to the pipe (fd < 0)
static void emit(int fd, const std::string& s)
{
  if (fd < 0)
    direct_out += s;
  else if (write(fd, s.data(), s.size()) < 0) { /* nothing to do */ }
}
// cases that cannot end the process (the generator knows: unparsable texts, unknown names, no token without ':') run
// in-process; the others in a forked child
static std::string run_case(bool use_fork, const std::function<void(int)>& f, bool& normal)
{
  if (use_fork)
    return in_child(f, normal);
  direct_out.clear();
  normal = true;
  f(-1);
  return direct_out;
}

// ---- the test table (mirrored by test_cfg / test_valid in Xbt/Config.v)
static int n_calls[5];
static void declare_test_table()
{
  cfg::declare_flag<int>("t/int", {"t/int-old"}, "test int", 7, [](int const&) { n_calls[0]++; });
  cfg::declare_flag<int>("t/pos", "test positive int", 1, [](int const& v) {
    n_calls[1]++;
    if (v <= 0)
      throw std::domain_error("must be positive");
  });
  cfg::declare_flag<double>("t/dbl", {"t/dbl-old", "t/dbl-older"}, "test double", 0.5, [](double const&) { n_calls[2]++; });
  cfg::declare_flag<bool>("t/bool", "test bool", false, [](bool const&) { n_calls[3]++; });
  cfg::declare_flag<std::string>("t/str", "test string", "abc", [](std::string const& v) {
    n_calls[4]++;
    if (not v.empty() && v[0] == '!')
      throw std::domain_error("must not start with !");
  });
}
static int test_type(const std::string& name)
{
  static const std::map<std::string, int> t{{"t/int", 0},     {"t/int-old", 0},   {"t/pos", 0},  {"t/dbl", 1},
                                            {"t/dbl-old", 1}, {"t/dbl-older", 1}, {"t/bool", 2}, {"t/str", 3}};
  auto it = t.find(name);
  return it == t.end() ? 0 : it->second;
}

int main(int argc, char** argv)
{
  std::string mode = argc > 1 ? argv[1] : "dump";
  int one           = 1;
  char* args[]      = {argv[0], nullptr};
  if (mode != "ops") {
    static simgrid::s4u::Engine e(&one, args);
  }
  if (mode == "dump") {
    cfg::help();
    printf("=====ALIASES\n");
    cfg::show_aliases();
    return 0;
  }
  std::vector<long long> v;
  while (drv::next_case(v)) {
    bool normal;
    if (mode == "lib") {
      size_t i         = 0;
      bool use_fork    = v.at(i++) != 0;
      int via          = (int)v.at(i++);
      int ty           = (int)v.at(i++);
      std::string name = take_str(v, i);
      std::string val  = take_str(v, i);
      std::string out  = run_case(
          use_fork,
          [&](int fd) {
            std::string before;
            try {
              before = read_back(name, ty);
            } catch (const std::out_of_range&) {
              emit(fd, "1");
              return;
            }
            int outcome        = 0;
            std::string what;
            try {
              if (via == 0)
                cfg::set_as_string(name.c_str(), val);
              else
                cfg::set_parse(name + ":" + val);
            } catch (const std::exception& e) {
              outcome = 2;
              what    = e.what();
              if (what.size() > 40)
                what.resize(40);
            }
            emit(fd, std::to_string(outcome) + " B " + before + " A " + read_back(name, ty) + " W " + enc_string(what));
          },
          normal);
      if (normal)
        printf("%s\n", out.c_str());
      else
        printf("4\n");
    } else { // ops
      bool use_fork   = v.at(0) != 0;
      std::string out = run_case(
          use_fork,
          [&](int fd) {
            cfg::finalize(); // fresh table for every case: only the test items
            for (int& c : n_calls)
              c = 0;
            declare_test_table();
            size_t i = 1;
            while (i < v.size()) {
              int kind         = (int)v.at(i++);
              std::string name = take_str(v, i);
              std::string text = take_str(v, i);
              int code         = 0;
              try {
                if (kind == 0)
                  cfg::set_as_string(name.c_str(), text);
                else if (kind == 1) {
                  try {
                    cfg::set_parse(text);
                  } catch (const std::exception&) {
                    code = 3;
                  }
                } else {
                  switch (test_type(name)) {
                    case 0:
                      cfg::set_value<int>(name.c_str(), (int)strtol(text.c_str(), nullptr, 10));
                      break;
                    case 1:
                      cfg::set_value<double>(name.c_str(), strtod(text.c_str(), nullptr));
                      break;
                    case 2:
                      cfg::set_value<bool>(name.c_str(), text == "1");
                      break;
                    default:
                      cfg::set_value<std::string>(name.c_str(), text);
                  }
                }
              } catch (const std::out_of_range&) {
                code = 1;
              } catch (const std::range_error&) {
                code = 2;
              } catch (const std::domain_error&) {
                code = 3;
              } catch (const std::exception&) {
                code = 5;
              }
              emit(fd, std::to_string(code) + " ");
            }
            std::string d = "D";
            const char* names[] = {"t/int", "t/pos", "t/dbl", "t/bool", "t/str"};
            for (int k = 0; k < 5; k++)
              d += " " + read_back(names[k], test_type(names[k])) + " " + std::to_string(n_calls[k]);
            emit(fd, d);
          },
          normal);
      printf("%s%s\n", out.c_str(), normal ? "" : "4");
    }
    fflush(stdout);
  }
  return 0;
}
