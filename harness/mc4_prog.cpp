// C39: a tiny S4U program interpreter run under simgrid-mc to confirm (or not) that a pair of transitions the checker
// declares independent does not commute on the real code: the same program is explored with reduction none and dpor
// (sdpor, odpor) and the verdicts are compared.
//   mc4_prog <platform.xml> <barrier size> <program>      program = actor/actor/...   actor = op,op,...
//   ops: D      daemonize this actor                    Bk  wait on barrier k (all barriers have the given size)
//        Sk/Rk  put_async / get_async on mailbox k (the comm becomes the actor's current comm)
//        T      test the current comm; MC_assert(false) when it answers true
//        t      test the current comm, ignore the answer
//        W      wait for the current comm               Pk/Gk  blocking put / get on mailbox k
//        X      MC_assert(false)                        Y   this_actor::yield-like no-op (sleep_for 1)
//        Mk     lock mutex k (never unlocked: a flag the checker sees)
//        Qk     try_lock mutex k; MC_assert(false) when it succeeds (the flag was not set yet)
#include <simgrid/modelchecker.h>
#include <simgrid/s4u.hpp>
#include <string>
#include <vector>
namespace sg4 = simgrid::s4u;

static std::vector<sg4::BarrierPtr> barriers;
static std::vector<sg4::MutexPtr> mutexes;
static int payload = 42;

static std::vector<std::string> split(const std::string& s, char sep)
{
  std::vector<std::string> out;
  std::string cur;
  for (char c : s) {
    if (c == sep) {
      out.push_back(cur);
      cur.clear();
    } else
      cur += c;
  }
  out.push_back(cur);
  return out;
}

static void actor(std::vector<std::string> ops)
{
  sg4::CommPtr cur;
  int* buf = nullptr;
  for (auto const& op : ops) {
    if (op.empty())
      continue;
    int k = op.size() > 1 ? std::stoi(op.substr(1)) : 0;
    switch (op[0]) {
      case 'D':
        sg4::Actor::self()->daemonize();
        break;
      case 'B':
        barriers.at(k)->wait();
        break;
      case 'S':
        cur = sg4::Mailbox::by_name("mb" + std::to_string(k))->put_async(&payload, 1);
        break;
      case 'R':
        cur = sg4::Mailbox::by_name("mb" + std::to_string(k))->get_async<int>(&buf);
        break;
      case 'T':
        if (cur->test())
          MC_assert(false);
        break;
      case 't':
        cur->test();
        break;
      case 'W':
        cur->wait();
        break;
      case 'P':
        sg4::Mailbox::by_name("mb" + std::to_string(k))->put(&payload, 1);
        break;
      case 'G':
        sg4::Mailbox::by_name("mb" + std::to_string(k))->get<int>();
        break;
      case 'X':
        MC_assert(false);
        break;
      case 'M':
        mutexes.at(k)->lock();
        break;
      case 'Q':
        if (mutexes.at(k)->try_lock())
          MC_assert(false);
        break;
      case 'Y':
        sg4::this_actor::sleep_for(1);
        break;
      default:
        break;
    }
  }
}

int main(int argc, char** argv)
{
  sg4::Engine e(&argc, argv);
  e.load_platform(argv[1]);
  for (int k = 0; k < 3; k++)
    barriers.push_back(sg4::Barrier::create(std::stoi(argv[2])));
  for (int k = 0; k < 3; k++)
    mutexes.push_back(sg4::Mutex::create());
  auto hosts  = e.get_all_hosts();
  auto actors = split(argv[3], '/');
  for (size_t i = 0; i < actors.size(); i++)
    hosts[i % hosts.size()]->add_actor("a" + std::to_string(i + 1), actor, split(actors[i], ','));
  e.run();
  return 0;
}
