/* C37 — interpreter of a generated SPMD script (see checks/C37.py for the format).
 * Every rank reads the same script (argv[1]); each line is one global step, every rank plays its own role in it.
 * Before MPI_Finalize each rank prints "END <rank> <MPI_Wtime with 17 significant digits>".
 * Line format: <opcode> <integer arguments...>; first line: <nranks> <nops>. */
#include <mpi.h>
#include <stdio.h>
#include <stdlib.h>
#include <string.h>
#include <unistd.h>

#define MAXR 8
#define MAXREQ 64
#define BUFBYTES (8 * 1024 * 1024)

static MPI_Datatype dt_of(long id)
{
  switch (id) {
    case 0: return MPI_DOUBLE;
    case 1: return MPI_INT;
    case 2: return MPI_CHAR;
    case 3: return MPI_SHORT;
    case 4: return MPI_LONG;
    case 5: return MPI_FLOAT;
    case 6: return MPI_BYTE;
    default: fprintf(stderr, "bad datatype id %ld\n", id); exit(3);
  }
}

int main(int argc, char** argv)
{
  int rank, n;
  MPI_Init(&argc, &argv);
  MPI_Comm_rank(MPI_COMM_WORLD, &rank);
  MPI_Comm_size(MPI_COMM_WORLD, &n);
  if (argc < 2) {
    fprintf(stderr, "usage: smpi_c37 script\n");
    MPI_Abort(MPI_COMM_WORLD, 3);
  }
  FILE* f = fopen(argv[1], "r");
  if (!f) {
    fprintf(stderr, "cannot open %s\n", argv[1]);
    MPI_Abort(MPI_COMM_WORLD, 3);
  }
  char* sbuf = calloc(1, BUFBYTES);
  char* rbuf = calloc(1, BUFBYTES);
  MPI_Request reqs[MAXREQ];
  int nreq = 0;
  long hn, hops;
  if (fscanf(f, "%ld %ld", &hn, &hops) != 2 || hn != n) {
    fprintf(stderr, "script is for %ld ranks, run has %d\n", hn, n);
    MPI_Abort(MPI_COMM_WORLD, 3);
  }
  for (long k = 0; k < hops; k++) {
    long op, a[4 + MAXR * MAXR];
    int na = 0;
    if (fscanf(f, "%ld %d", &op, &na) != 2)
      break;
    for (int i = 0; i < na; i++)
      if (fscanf(f, "%ld", &a[i]) != 1)
        exit(3);
    int cnt[MAXR], dsp[MAXR], cnt2[MAXR], dsp2[MAXR];
    switch (op) {
      case 1: /* send src dst tag count dt */
        if (rank == a[0])
          MPI_Send(sbuf, a[3], dt_of(a[4]), a[1], a[2], MPI_COMM_WORLD);
        else if (rank == a[1])
          MPI_Recv(rbuf, a[3], dt_of(a[4]), a[0], a[2], MPI_COMM_WORLD, MPI_STATUS_IGNORE);
        break;
      case 2: /* isend/irecv src dst tag count dt */
        if (rank == a[0])
          MPI_Isend(sbuf, a[3], dt_of(a[4]), a[1], a[2], MPI_COMM_WORLD, &reqs[nreq++]);
        else if (rank == a[1])
          MPI_Irecv(rbuf, a[3], dt_of(a[4]), a[0], a[2], MPI_COMM_WORLD, &reqs[nreq++]);
        break;
      case 3: /* waitall */
        if (nreq > 0)
          MPI_Waitall(nreq, reqs, MPI_STATUSES_IGNORE);
        nreq = 0;
        break;
      case 4: /* wait each pending request in posting order */
        for (int i = 0; i < nreq; i++)
          MPI_Wait(&reqs[i], MPI_STATUS_IGNORE);
        nreq = 0;
        break;
      case 5: /* test the first pending request until it completes, then wait the others */
        if (nreq > 0) {
          int flag = 0;
          while (!flag)
            MPI_Test(&reqs[0], &flag, MPI_STATUS_IGNORE);
          for (int i = 1; i < nreq; i++)
            MPI_Wait(&reqs[i], MPI_STATUS_IGNORE);
        }
        nreq = 0;
        break;
      case 6: MPI_Barrier(MPI_COMM_WORLD); break;
      case 7: /* bcast root count dt */ MPI_Bcast(sbuf, a[1], dt_of(a[2]), a[0], MPI_COMM_WORLD); break;
      case 8: /* reduce root count dt */
        MPI_Reduce(sbuf, rbuf, a[1], dt_of(a[2]), MPI_SUM, a[0], MPI_COMM_WORLD);
        break;
      case 9: /* allreduce count dt */ MPI_Allreduce(sbuf, rbuf, a[0], dt_of(a[1]), MPI_SUM, MPI_COMM_WORLD); break;
      case 10: /* alltoall count dt */
        MPI_Alltoall(sbuf, a[0], dt_of(a[1]), rbuf, a[0], dt_of(a[1]), MPI_COMM_WORLD);
        break;
      case 11: /* gather root count dt nonroot_recvcount */
        MPI_Gather(sbuf, a[1], dt_of(a[2]), rbuf, rank == a[0] ? a[1] : a[3], dt_of(a[2]), a[0], MPI_COMM_WORLD);
        break;
      case 12: /* scatter root count dt nonroot_sendcount */
        MPI_Scatter(sbuf, rank == a[0] ? a[1] : a[3], dt_of(a[2]), rbuf, a[1], dt_of(a[2]), a[0], MPI_COMM_WORLD);
        break;
      case 13: /* allgather count dt */
        MPI_Allgather(sbuf, a[0], dt_of(a[1]), rbuf, a[0], dt_of(a[1]), MPI_COMM_WORLD);
        break;
      case 14: /* gatherv root dt c[n] */
      case 15: /* scatterv root dt c[n] */
        for (int i = 0, d = 0; i < n; i++) {
          cnt[i] = a[2 + i];
          dsp[i] = d;
          d += cnt[i];
        }
        if (op == 14)
          MPI_Gatherv(sbuf, cnt[rank], dt_of(a[1]), rbuf, cnt, dsp, dt_of(a[1]), a[0], MPI_COMM_WORLD);
        else
          MPI_Scatterv(sbuf, cnt, dsp, dt_of(a[1]), rbuf, cnt[rank], dt_of(a[1]), a[0], MPI_COMM_WORLD);
        break;
      case 16: /* allgatherv dt c[n] */
        for (int i = 0, d = 0; i < n; i++) {
          cnt[i] = a[1 + i];
          dsp[i] = d;
          d += cnt[i];
        }
        MPI_Allgatherv(sbuf, cnt[rank], dt_of(a[0]), rbuf, cnt, dsp, dt_of(a[0]), MPI_COMM_WORLD);
        break;
      case 17: /* alltoallv dt m[n*n], m[i*n+j] = what i sends to j */
        for (int j = 0, d = 0, d2 = 0; j < n; j++) {
          cnt[j]  = a[1 + rank * n + j];
          dsp[j]  = d;
          d += cnt[j];
          cnt2[j] = a[1 + j * n + rank];
          dsp2[j] = d2;
          d2 += cnt2[j];
        }
        MPI_Alltoallv(sbuf, cnt, dsp, dt_of(a[0]), rbuf, cnt2, dsp2, dt_of(a[0]), MPI_COMM_WORLD);
        break;
      case 18: /* reduce_scatter dt c[n] */
        for (int i = 0; i < n; i++)
          cnt[i] = a[1 + i];
        MPI_Reduce_scatter(sbuf, rbuf, cnt, dt_of(a[0]), MPI_SUM, MPI_COMM_WORLD);
        break;
      case 19: /* sleep rank usec */
        if (rank == a[0])
          usleep(a[1]);
        break;
      case 21: /* sendrecv shift count dt: to (rank+shift)%n from (rank-shift+n)%n */
        MPI_Sendrecv(sbuf, a[1], dt_of(a[2]), (rank + a[0]) % n, 0, rbuf, a[1], dt_of(a[2]), (rank - a[0] + n) % n, 0,
                     MPI_COMM_WORLD, MPI_STATUS_IGNORE);
        break;
      case 22: /* reduce_scatter_block count dt */
        MPI_Reduce_scatter_block(sbuf, rbuf, a[0], dt_of(a[1]), MPI_SUM, MPI_COMM_WORLD);
        break;
      default: fprintf(stderr, "bad opcode %ld\n", op); MPI_Abort(MPI_COMM_WORLD, 3);
    }
  }
  fclose(f);
  double t = MPI_Wtime();
  printf("END %d %.17g\n", rank, t);
  fflush(stdout);
  MPI_Finalize();
  free(sbuf);
  free(rbuf);
  return 0;
}
