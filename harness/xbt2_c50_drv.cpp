// C50: interpret operation sequences on the real xbt_dynar_* / xbt_dict_* C API of the freshly built libsimgrid.
// usage: xbt2_c50_drv dynar|dict        one case per input line, one observation per output line
// dynar: (code a b)*   0 push(a) [b=1: xbt_dynar_push_as]  1 pop [b=1: xbt_dynar_pop_as]  2 shift  3 unshift(a)
//        4 insert_at(a, value b)  5 remove_at(a)  6 get(a) [b=1: get_as]  7 set_as(a, value b)  8 length  9 member(a)
//        10 sort  11 reset  12 foreach [b=1: xbt_dynar_map]
//   output per op: n r1..rn ; " -1" when the op was stopped by an xbt_assert (the case ends); then -7 and the contents
// dict:  (code klen key.. value)*   0 set [value odd: xbt_dict_set, even: set_ext]  1 get (get_or_null_ext /
//        get_or_null / get_elm_or_null by value%3)  2 remove_ext  3 length  4 foreach
//   output per op: set nothing; get "1 v"|"0"; remove "1"|"0" (std::out_of_range); length; foreach n (klen key.. v)*
// Each dynar case runs in a forked child so that an xbt_assert only ends that case.
#include "drv.hpp"
#include <xbt/dict.h>
#include <xbt/dynar.h>
#include <xbt/asserts.h>
#include <stdexcept>
#include <sys/wait.h>
#include <unistd.h>
#include <cstring>

static int cmp_long(const void* a, const void* b)
{
  long x = *(const long*)a, y = *(const long*)b;
  return x < y ? -1 : (x > y ? 1 : 0);
}
static std::vector<long> seen;
static void collect(void* p)
{
  seen.push_back(*(long*)p);
}

static void run_dynar(const std::vector<long long>& v)
{
  xbt_dynar_t d = xbt_dynar_new(sizeof(long), nullptr);
  for (size_t i = 0; i + 2 < v.size(); i += 3) {
    long long code = v[i];
    long a = (long)v[i + 1], b = (long)v[i + 2], x = 0;
    unsigned int cur;
    switch (code) {
      case 0:
        if (b == 1)
          xbt_dynar_push_as(d, long, a);
        else
          xbt_dynar_push(d, &a);
        printf("0 ");
        break;
      case 1:
        if (b == 1)
          x = xbt_dynar_pop_as(d, long);
        else
          xbt_dynar_pop(d, &x);
        printf("1 %ld ", x);
        break;
      case 2:
        xbt_dynar_shift(d, &x);
        printf("1 %ld ", x);
        break;
      case 3:
        xbt_dynar_unshift(d, &a);
        printf("0 ");
        break;
      case 4:
        xbt_dynar_insert_at(d, (int)a, &b);
        printf("0 ");
        break;
      case 5:
        xbt_dynar_remove_at(d, (int)a, &x);
        printf("1 %ld ", x);
        break;
      case 6:
        if (b == 1)
          x = xbt_dynar_get_as(d, (unsigned long)a, long);
        else
          xbt_dynar_get_cpy(d, (unsigned long)a, &x);
        printf("1 %ld ", x);
        break;
      case 7:
        xbt_dynar_set_as(d, (unsigned long)a, long, b);
        printf("0 ");
        break;
      case 8:
        printf("1 %lu ", xbt_dynar_length(d));
        break;
      case 9:
        printf("1 %d ", xbt_dynar_member(d, &a));
        break;
      case 10:
        xbt_dynar_sort(d, cmp_long);
        printf("0 ");
        break;
      case 11:
        xbt_dynar_reset(d);
        printf("0 ");
        break;
      default:
        seen.clear();
        if (b == 1)
          xbt_dynar_map(d, collect);
        else
          xbt_dynar_foreach (d, cur, x)
            seen.push_back(x);
        printf("%zu ", seen.size());
        for (long e : seen)
          printf("%ld ", e);
    }
    fflush(stdout);
  }
  printf("-7");
  unsigned int cur;
  long x;
  xbt_dynar_foreach (d, cur, x)
    printf(" %ld", x);
  fflush(stdout);
  xbt_dynar_free(&d);
}

static void run_dict(const std::vector<long long>& v)
{
  xbt_dict_t d = xbt_dict_new_homogeneous(nullptr);
  size_t i = 0;
  while (i + 1 < v.size()) {
    long long code = v[i], klen = v[i + 1];
    i += 2;
    std::string key;
    for (long long j = 0; j < klen && i < v.size(); j++, i++)
      key.push_back((char)v[i]);
    if (i >= v.size())
      break;
    long long val = v[i++];
    if (code == 0) {
      void* data = (void*)(uintptr_t)(val + 1);
      if (val % 2)
        xbt_dict_set(d, key.c_str(), data);
      else
        xbt_dict_set_ext(d, key.data(), (int)key.size(), data);
    } else if (code == 1) {
      void* r;
      if (val % 3 == 0)
        r = xbt_dict_get_or_null_ext(d, key.data(), (int)key.size());
      else if (val % 3 == 1)
        r = xbt_dict_get_or_null(d, key.c_str());
      else {
        xbt_dictelm_t e = xbt_dict_get_elm_or_null(d, key.c_str());
        r               = e ? e->content : nullptr;
      }
      if (r)
        printf("1 %lld ", (long long)(uintptr_t)r - 1);
      else
        printf("0 ");
    } else if (code == 2) {
      try {
        xbt_dict_remove_ext(d, key.data(), (int)key.size());
        printf("1 ");
      } catch (const std::out_of_range&) {
        printf("0 ");
      }
    } else if (code == 3) {
      printf("%d ", xbt_dict_length(d));
    } else {
      xbt_dict_cursor_t cursor = nullptr;
      char* k;
      void* data;
      std::string out;
      int n = 0;
      xbt_dict_foreach (d, cursor, k, data) {
        n++;
        out += std::to_string(strlen(k)) + " ";
        for (const char* p = k; *p; p++)
          out += std::to_string((int)(unsigned char)*p) + " ";
        out += std::to_string((long long)(uintptr_t)data - 1) + " ";
      }
      printf("%d %s", n, out.c_str());
    }
    fflush(stdout);
  }
  xbt_dict_free(&d);
}

int main(int argc, char** argv)
{
  std::string mode = argc > 1 ? argv[1] : "dynar";
  std::vector<long long> v;
  while (drv::next_case(v)) {
    fflush(stdout);
    if (mode != "dynar") { // no xbt_assert on the dict paths: run in-process (a crash ends the driver and is reported)
      run_dict(v);
      printf("\n");
      fflush(stdout);
      continue;
    }
    pid_t pid = fork();
    if (pid == 0) {
      if (not getenv("DRV_DEBUG"))
        fclose(stderr);
      xbt_log_no_loc = 1; // no backtrace when an xbt_assert stops the case
      if (mode == "dynar")
        run_dynar(v);
      else
        run_dict(v);
      fflush(stdout);
      _exit(0);
    }
    int status = 0;
    waitpid(pid, &status, 0);
    if (not(WIFEXITED(status) && WEXITSTATUS(status) == 0))
      printf(" -1");
    printf("\n");
    fflush(stdout);
  }
  return 0;
}
