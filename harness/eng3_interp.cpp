// eng3_interp — generic S4U interpreter of synchronisation programs (shared by C14, C02, C01).
//
// usage: eng3_interp PLATFORM.xml [--cfg=... simgrid options]   < cases
// One case per input line (space separated integers), one observation per output line.  Every case is run in a
// forked child (an engine cannot be restarted; a crash/abort of one case must not lose the others).
//
// case   := NA NM NS cap_1..cap_NS NC NB cnt_1..cnt_NB NMB  actor_1 .. actor_NA
// actor  := HOST NOPS op_1 .. op_NOPS           (host index into the platform's host list, modulo)
// op     := CODE A B
//   0 Sleep      A/8 seconds          1 Lock m=A          2 Unlock m=A         3 Acquire s=A       4 Release s=A
//   5 CvWait c=A m=B                  6 NotifyOne c=A     7 NotifyAll c=A      8 BarWait b=A
//   9 Put mb=A value=B (1000*(1+B%7) bytes)              10 Get mb=A
//  11 Exec A*1e6 flops               12 Daemonize        13 OnExit tag=A       14 Kill actor A (index, 0-based)
//  15 Yield                          16 Join actor A      17 Suspend actor A   18 Resume actor A
//  19 AcquireT s=A timeout=B/8 seconds (Semaphore::acquire_timeout; result 1 = timed out, 0 = acquired)
//
// observation (one line):
//   ok dl=<0|1> end=<clock> | <actor>;<actor>;... | sem=<v>,<v> | tr=<a>.<i>,... | ht=<a>.<i>,... | ex=<a>.<tag>.<failed>@<clock>,... | gx=... | hx=<a>.<i>.<k>,...
//   actor := <pc>:<status F|B|K>:<i>.<result>@<clock>,...        (completed operations, in order)
//   tr    := global order in which operations were *started* (only recorded when contexts/nthreads = 1)
//   ht    := global order in which maestro *handled* the first simcall of each operation (SIMGRID_VERIF hook)
//   hx    := ht (k=0) merged with the timer events (k=1: a Sleep returned; k=2: an AcquireT returned "timed out"),
//            recorded when the actor resumes in user code, i.e. before any simcall of that scheduling round is handled
//            (only recorded when contexts/nthreads = 1)
//   ex    := on_exit callbacks grouped by actor (each actor's in execution order)
//   gx    := global order of on_exit callbacks (only recorded when contexts/nthreads = 1)
// status: F = ran to completion, B = never got past operation <pc> (blocked when the run ended), K = target of a Kill.
// Kill/Suspend/Resume/Join may target finished actors (the ActorPtr is kept): harmless no-ops of the S4U API.
// Clocks are printed with %.17g (exact binary64).
#include <simgrid/Exception.hpp>
#include <simgrid/s4u.hpp>
#include <simgrid/s4u/Barrier.hpp>
#include <simgrid/s4u/ConditionVariable.hpp>
#include <simgrid/s4u/Mutex.hpp>
#include <simgrid/s4u/Semaphore.hpp>
#include <xbt/config.hpp>

#include <atomic>
#include <cstring>
#include <fcntl.h>
#include <sys/wait.h>
#include <unistd.h>

#include "drv.hpp"

namespace sg4 = simgrid::s4u;
extern void (*simgrid_verif_on_simcall_handle)(long pid); // SIMGRID_VERIF hook in ActorImpl::simcall_handle

struct Op {
  long long code, a, b;
};
struct Rec {
  int i;
  long long r;
  double clk;
};
struct Ex {
  int a;
  long long tag;
  int failed;
  double clk;
};
struct ActorSt {
  int host = 0;
  std::vector<Op> ops;
  std::vector<Rec> log;
  int pc        = 0;
  int cur_op    = -1;    // operation being executed (-1: none)
  bool hooked   = false; // the first simcall of cur_op has been handled
  long pid      = -1;
  bool finished = false;
  bool killed   = false; // target of a Kill op
  sg4::ActorPtr ptr;
  std::vector<struct Ex> exits; // its own on_exit callbacks, in execution order
};
static std::vector<ActorSt> A;
static std::vector<sg4::MutexPtr> M;
static std::vector<sg4::SemaphorePtr> S;
static std::vector<sg4::ConditionVariablePtr> CV;
static std::vector<sg4::BarrierPtr> BA;
static std::vector<sg4::Mailbox*> MB;
static std::vector<std::pair<int, int>> trace;
static std::vector<std::pair<int, int>> handled; // order in which maestro handled the first simcall of each operation
struct Hx {
  int a, i, k;
};
static std::vector<Hx> hx; // handled + timer events
static std::vector<Ex> exits;
static bool record_trace = true;
static bool deadlock     = false;
static std::vector<int> sem_snapshot;

static void snapshot()
{
  sem_snapshot.clear();
  for (auto const& s : S)
    sem_snapshot.push_back(s->get_capacity());
}

static void on_simcall(long pid)
{
  for (size_t i = 0; i < A.size(); i++)
    if (A[i].pid == pid) {
      if (A[i].cur_op >= 0 && not A[i].hooked) {
        A[i].hooked = true;
        handled.emplace_back((int)i, A[i].cur_op);
        if (record_trace)
          hx.push_back({(int)i, A[i].cur_op, 0});
      }
      return;
    }
}

static void actor_body(int me)
{
  ActorSt& st = A[me];
  for (size_t i = 0; i < st.ops.size(); i++) {
    const Op& op = st.ops[i];
    if (record_trace)
      trace.emplace_back(me, (int)i);
    st.hooked = false;
    st.cur_op = (int)i;
    long long r = 0;
    try {
    switch (op.code) {
      case 0:
        sg4::this_actor::sleep_for(op.a / 8.0);
        if (record_trace && op.a > 0)
          hx.push_back({me, (int)i, 1});
        break;
      case 1:
        M[op.a]->lock();
        break;
      case 2:
        M[op.a]->unlock();
        break;
      case 3:
        S[op.a]->acquire();
        break;
      case 4:
        S[op.a]->release();
        break;
      case 5:
        CV[op.a]->wait(M[op.b]);
        break;
      case 6:
        CV[op.a]->notify_one();
        break;
      case 7:
        CV[op.a]->notify_all();
        break;
      case 8:
        r = BA[op.a]->wait();
        break;
      case 9:
        MB[op.a]->put(new long long(op.b), 1000 * (1 + op.b % 7));
        break;
      case 10: {
        auto* p = MB[op.a]->get<long long>();
        r       = *p;
        delete p;
        break;
      }
      case 11:
        sg4::this_actor::execute(op.a * 1e6);
        break;
      case 12:
        sg4::Actor::self()->daemonize();
        break;
      case 13: {
        long long tag = op.a;
        sg4::this_actor::on_exit([me, tag](bool failed) {
          Ex x{me, tag, failed ? 1 : 0, sg4::Engine::get_clock()};
          A[me].exits.push_back(x);
          if (record_trace) // the global order is only meaningful (and race free) without parallel workers
            exits.push_back(x);
        });
        break;
      }
      case 14:
        if (op.a != me) {
          A[op.a].killed = true;
          A[op.a].ptr->kill();
        }
        break;
      case 15:
        sg4::this_actor::yield();
        break;
      case 16:
        A[op.a].ptr->join();
        break;
      case 17:
        if (op.a != me)
          A[op.a].ptr->suspend();
        break;
      case 18:
        A[op.a].ptr->resume();
        break;
      case 19:
        r = S[op.a]->acquire_timeout(op.b / 8.0) ? 1 : 0;
        if (record_trace && r == 1)
          hx.push_back({me, (int)i, 2});
        break;
      default:
        break;
    }
    } catch (const simgrid::NetworkFailureException&) { // e.g. the peer of a communication was killed
      r = -101;
    } catch (const simgrid::Exception&) {
      r = -100;
    }
    st.cur_op = -1;
    st.log.push_back({(int)i, r, sg4::Engine::get_clock()});
    st.pc = (int)i + 1;
  }
  st.finished = true;
}

static int run_case(const std::vector<long long>& v, int argc, char** argv)
{
  size_t k  = 0;
  auto next = [&]() -> long long { return k < v.size() ? v[k++] : 0; };
  long long na = next(), nm = next(), ns = next();
  std::vector<long long> caps;
  for (long long i = 0; i < ns; i++)
    caps.push_back(next());
  long long nc = next(), nb = next();
  std::vector<long long> cnts;
  for (long long i = 0; i < nb; i++)
    cnts.push_back(next());
  long long nmb = next();
  A.resize(na);
  for (auto& a : A) {
    a.host      = (int)next();
    long long n = next();
    for (long long i = 0; i < n; i++) {
      Op o;
      o.code = next();
      o.a    = next();
      o.b    = next();
      a.ops.push_back(o);
    }
    a.log.reserve(n + 1);
    a.exits.reserve(n + 1);
  }
  trace.reserve(1024);
  handled.reserve(1024);
  hx.reserve(2048);
  exits.reserve(256);

  std::vector<char*> args(argv, argv + argc);
  std::string quiet = "--log=root.thres:critical";
  args.push_back(quiet.data());
  int ac = (int)args.size();
  args.push_back(nullptr);
  sg4::Engine e(&ac, args.data());
  e.load_platform(argv[1]);
  record_trace = simgrid::config::get_value<int>("contexts/nthreads") == 1;

  for (long long i = 0; i < nm; i++)
    M.push_back(sg4::Mutex::create());
  for (auto c : caps)
    S.push_back(sg4::Semaphore::create((unsigned)c));
  for (long long i = 0; i < nc; i++)
    CV.push_back(sg4::ConditionVariable::create());
  for (auto c : cnts)
    BA.push_back(sg4::Barrier::create((unsigned)c));
  for (long long i = 0; i < nmb; i++)
    MB.push_back(sg4::Mailbox::by_name("mb" + std::to_string(i)));

  auto hosts = e.get_all_hosts();
  for (int i = 0; i < (int)na; i++)
    A[i].ptr = sg4::Actor::create("a" + std::to_string(i), hosts[A[i].host % hosts.size()], [i] { actor_body(i); });
  for (auto& a : A)
    a.pid = a.ptr->get_pid();
  simgrid_verif_on_simcall_handle = on_simcall;

  sg4::Engine::on_deadlock_cb([] {
    deadlock = true;
    snapshot();
  });
  e.run();
  if (not deadlock)
    snapshot();

  std::string out = "ok dl=" + std::to_string(deadlock ? 1 : 0);
  char buf[64];
  snprintf(buf, sizeof buf, " end=%.17g |", sg4::Engine::get_clock());
  out += buf;
  for (size_t i = 0; i < A.size(); i++) {
    out += (i ? ";" : " ") + std::to_string(A[i].pc) + ":" + (A[i].finished ? "F" : (A[i].killed ? "K" : "B")) + ":";
    for (size_t j = 0; j < A[i].log.size(); j++) {
      snprintf(buf, sizeof buf, "%s%d.%lld@%.17g", j ? "," : "", A[i].log[j].i, A[i].log[j].r, A[i].log[j].clk);
      out += buf;
    }
  }
  out += " | sem=";
  for (size_t i = 0; i < sem_snapshot.size(); i++)
    out += (i ? "," : "") + std::to_string(sem_snapshot[i]);
  out += " | tr=";
  for (size_t i = 0; i < trace.size(); i++)
    out += (i ? "," : "") + std::to_string(trace[i].first) + "." + std::to_string(trace[i].second);
  out += " | ht=";
  for (size_t i = 0; i < handled.size(); i++)
    out += (i ? "," : "") + std::to_string(handled[i].first) + "." + std::to_string(handled[i].second);
  out += " | ex=";
  bool first = true;
  for (auto const& a : A)
    for (auto const& x : a.exits) {
      snprintf(buf, sizeof buf, "%s%d.%lld.%d@%.17g", first ? "" : ",", x.a, x.tag, x.failed, x.clk);
      out += buf;
      first = false;
    }
  out += " | gx=";
  for (size_t i = 0; i < exits.size(); i++) {
    snprintf(buf, sizeof buf, "%s%d.%lld.%d@%.17g", i ? "," : "", exits[i].a, exits[i].tag, exits[i].failed, exits[i].clk);
    out += buf;
  }
  out += " | hx=";
  for (size_t i = 0; i < hx.size(); i++)
    out += (i ? "," : "") + std::to_string(hx[i].a) + "." + std::to_string(hx[i].i) + "." + std::to_string(hx[i].k);
  out += "\n";
  fflush(stdout);
  if (write(1, out.data(), out.size()) < 0)
    return 3;
  return 0;
}

int main(int argc, char** argv)
{
  if (argc < 2) {
    fprintf(stderr, "usage: eng3_interp platform.xml [simgrid options] < cases\n");
    return 2;
  }
  std::vector<long long> v;
  while (drv::next_case(v)) {
    fflush(stdout);
    int fds[2];
    if (pipe(fds) != 0)
      return 2;
    pid_t pid = fork();
    if (pid == 0) {
      close(fds[0]);
      dup2(fds[1], 1);
      if (getenv("ENG3_STDERR") == nullptr) {
        int devnull = open("/dev/null", O_WRONLY);
        dup2(devnull, 2);
      }
      alarm(60);
      int rc = run_case(v, argc, argv);
      _exit(rc); // skip static destructors: the engine's teardown is not what is observed here
    }
    close(fds[1]);
    std::string got;
    char buf[4096];
    ssize_t n;
    while ((n = read(fds[0], buf, sizeof buf)) > 0)
      got.append(buf, n);
    close(fds[0]);
    int status = 0;
    waitpid(pid, &status, 0);
    // keep only the observation line (simgrid may print on stdout before it)
    std::string line;
    size_t pos = got.rfind("ok dl=");
    if (pos != std::string::npos && WIFEXITED(status) && WEXITSTATUS(status) == 0) {
      line = got.substr(pos);
      while (not line.empty() && line.back() == '\n')
        line.pop_back();
    } else if (WIFSIGNALED(status))
      line = "crash signal=" + std::to_string(WTERMSIG(status));
    else
      line = "crash exit=" + std::to_string(WEXITSTATUS(status));
    printf("%s\n", line.c_str());
  }
  return 0;
}
