// c07_mc_prog <actors> <size> <rounds>: <actors> actors call wait() <rounds> times on one barrier of size <size>.
// Meant for simgrid-mc (C07, thorough tier): in every interleaving of the BARRIER_ASYNC_LOCK / BARRIER_WAIT simcalls,
// the number of wait() calls that have returned never exceeds the number of actors in complete groups among those that
// reached the barrier (an actor counts as reaching it when it runs up to its ASYNC_LOCK simcall, which is at or before
// the moment the checker fires it: the assertion is implied by the property, never stronger).
#include <simgrid/modelchecker.h>
#include <simgrid/s4u.hpp>
#include <cstdlib>
#include <string>

namespace sg4 = simgrid::s4u;
static int reached  = 0;
static int returned = 0;

static void worker(sg4::BarrierPtr bar, int size, int rounds)
{
  for (int r = 0; r < rounds; r++) {
    reached++;
    bar->wait();
    returned++;
    MC_assert(returned <= (reached / size) * size);
  }
}

int main(int argc, char** argv)
{
  sg4::Engine e(&argc, argv);
  xbt_assert(argc == 4, "usage: %s actors size rounds", argv[0]);
  int actors = std::atoi(argv[1]);
  int size   = std::atoi(argv[2]);
  int rounds = std::atoi(argv[3]);
  auto* zone = e.get_netzone_root();
  auto* host = zone->add_host("h0", 1e9);
  zone->seal();
  auto bar = sg4::Barrier::create(size);
  for (int i = 0; i < actors; i++)
    host->add_actor("w" + std::to_string(i), worker, bar, size, rounds);
  e.run();
  return 0;
}
