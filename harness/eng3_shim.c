/* eng3_shim — LD_PRELOAD allocator that perturbs the relative address order of heap objects (C01).
 *
 * Blocks of up to 4096 bytes are carved out of per-size-class slabs.  ENG3_SHIM_MODE selects the order in which the
 * blocks of a slab are handed out:
 *   reverse (default) : highest address first  -> objects of one size class get DEcreasing addresses in allocation order
 *   shuffle           : a fixed pseudo-random permutation seeded by ENG3_SHIM_SEED
 *   forward           : lowest address first (control: same order as a bump allocator)
 * Freed blocks go to a per-class LIFO list.  Everything else is forwarded to glibc (__libc_malloc & co).
 * A 16-byte header in front of every block identifies shim blocks on free/realloc.                                    */
#define _GNU_SOURCE
#include <pthread.h>
#include <stdint.h>
#include <stdlib.h>
#include <string.h>

extern void* __libc_malloc(size_t);
extern void __libc_free(void*);
extern void* __libc_calloc(size_t, size_t);
extern void* __libc_realloc(void*, size_t);
extern void* __libc_memalign(size_t, size_t);

#define MAGIC 0x656e6733a110c8edULL
#define NCLASS 256 /* class c serves sizes (16*c, 16*(c+1)] up to 4096 */
#define SLAB_BLOCKS 64

typedef struct hdr {
  uint64_t magic;
  uint64_t cls;
} hdr_t;

typedef struct freeblk {
  struct freeblk* next;
} freeblk_t;

static freeblk_t* free_list[NCLASS + 1];
static pthread_mutex_t lock = PTHREAD_MUTEX_INITIALIZER;
static int mode = -1; /* 0 reverse, 1 shuffle, 2 forward */
static uint64_t rng_state = 88172645463325252ULL;

static uint64_t rnd(void)
{
  rng_state ^= rng_state << 13;
  rng_state ^= rng_state >> 7;
  rng_state ^= rng_state << 17;
  return rng_state;
}

static void init_mode(void)
{
  const char* m = getenv("ENG3_SHIM_MODE");
  mode          = 0;
  if (m != NULL && strcmp(m, "shuffle") == 0)
    mode = 1;
  if (m != NULL && strcmp(m, "forward") == 0)
    mode = 2;
  const char* s = getenv("ENG3_SHIM_SEED");
  if (s != NULL)
    rng_state ^= (uint64_t)strtoull(s, NULL, 10) * 0x9E3779B97F4A7C15ULL;
}

static void refill(size_t cls)
{
  size_t bsz  = sizeof(hdr_t) + 16 * (cls + 1);
  char* slab  = (char*)__libc_malloc(bsz * SLAB_BLOCKS);
  if (slab == NULL)
    return;
  size_t order[SLAB_BLOCKS];
  for (size_t i = 0; i < SLAB_BLOCKS; i++)
    order[i] = i;
  if (mode == 1)
    for (size_t i = SLAB_BLOCKS - 1; i > 0; i--) {
      size_t j   = rnd() % (i + 1);
      size_t t   = order[i];
      order[i]   = order[j];
      order[j]   = t;
    }
  /* blocks are pushed on a LIFO list: the LAST pushed is the first handed out */
  for (size_t k = 0; k < SLAB_BLOCKS; k++) {
    size_t i = order[k];
    if (mode == 2)
      i = SLAB_BLOCKS - 1 - k; /* push highest first -> lowest handed out first */
    else if (mode == 0)
      i = k; /* push lowest first -> highest handed out first */
    hdr_t* h      = (hdr_t*)(slab + i * bsz);
    h->magic      = MAGIC;
    h->cls        = cls;
    freeblk_t* fb = (freeblk_t*)(h + 1);
    fb->next      = free_list[cls];
    free_list[cls] = fb;
  }
}

void* malloc(size_t size)
{
  if (size == 0)
    size = 1;
  if (size > 16 * NCLASS)
    return __libc_malloc(size);
  size_t cls = (size - 1) / 16;
  pthread_mutex_lock(&lock);
  if (mode < 0)
    init_mode();
  if (free_list[cls] == NULL)
    refill(cls);
  freeblk_t* fb = free_list[cls];
  if (fb != NULL)
    free_list[cls] = fb->next;
  pthread_mutex_unlock(&lock);
  return fb;
}

static hdr_t* shim_hdr(void* p)
{
  if (((uintptr_t)p & 15) != 0)
    return NULL;
  hdr_t* h = (hdr_t*)p - 1;
  return (h->magic == MAGIC && h->cls < NCLASS) ? h : NULL;
}

void free(void* p)
{
  if (p == NULL)
    return;
  hdr_t* h = shim_hdr(p);
  if (h == NULL) {
    __libc_free(p);
    return;
  }
  pthread_mutex_lock(&lock);
  freeblk_t* fb     = (freeblk_t*)p;
  fb->next          = free_list[h->cls];
  free_list[h->cls] = fb;
  pthread_mutex_unlock(&lock);
}

void* calloc(size_t n, size_t size)
{
  size_t total = n * size;
  if (size != 0 && total / size != n)
    return NULL;
  if (total > 16 * NCLASS)
    return __libc_calloc(n, size);
  void* p = malloc(total);
  if (p != NULL)
    memset(p, 0, total == 0 ? 1 : total);
  return p;
}

void* realloc(void* p, size_t size)
{
  if (p == NULL)
    return malloc(size);
  hdr_t* h = shim_hdr(p);
  if (h == NULL) {
    if (size > 16 * NCLASS || size == 0)
      return __libc_realloc(p, size);
    /* shrinking a glibc block into shim territory: keep it in glibc */
    return __libc_realloc(p, size);
  }
  size_t old = 16 * (h->cls + 1);
  if (size <= old && size > 0)
    return p;
  void* q = malloc(size);
  if (q != NULL) {
    memcpy(q, p, old < size ? old : size);
    free(p);
  }
  return q;
}

void* memalign(size_t align, size_t size)
{
  return __libc_memalign(align, size);
}
void* aligned_alloc(size_t align, size_t size)
{
  return __libc_memalign(align, size);
}
int posix_memalign(void** out, size_t align, size_t size)
{
  void* p = __libc_memalign(align, size);
  if (p == NULL)
    return 12;
  *out = p;
  return 0;
}
