// C40: a tiny S4U program interpreter to be run under simgrid-mc.
//   mc1_prog <platform.xml> <program>      program = actor/actor/...   actor = op,op,...
//   ops: Lk / Uk  lock / unlock mutex k        Ak / Rk  acquire / release semaphore k (capacity 1 + k%2)
//        Pk / Gk  blocking put / get on mailbox k
#include <simgrid/s4u.hpp>
#include <string>
#include <vector>
namespace sg4 = simgrid::s4u;

static std::vector<sg4::MutexPtr> mutexes;
static std::vector<sg4::SemaphorePtr> sems;
static int payload = 42;

static std::vector<std::string> split(const std::string& s, char sep)
{
  std::vector<std::string> out;
  std::string cur;
  for (char c : s) {
    if (c == sep) {
      out.push_back(cur);
      cur.clear();
    } else
      cur += c;
  }
  out.push_back(cur);
  return out;
}

static void actor(std::vector<std::string> ops)
{
  for (auto const& op : ops) {
    if (op.empty())
      continue;
    int k = std::stoi(op.substr(1));
    switch (op[0]) {
      case 'L':
        mutexes.at(k)->lock();
        break;
      case 'U':
        mutexes.at(k)->unlock();
        break;
      case 'A':
        sems.at(k)->acquire();
        break;
      case 'R':
        sems.at(k)->release();
        break;
      case 'P':
        sg4::Mailbox::by_name("mb" + std::to_string(k))->put(&payload, 1);
        break;
      case 'G':
        sg4::Mailbox::by_name("mb" + std::to_string(k))->get<int>();
        break;
      default:
        break;
    }
  }
}

int main(int argc, char** argv)
{
  sg4::Engine e(&argc, argv);
  e.load_platform(argv[1]);
  for (int k = 0; k < 4; k++) {
    mutexes.push_back(sg4::Mutex::create());
    sems.push_back(sg4::Semaphore::create(1 + k % 2));
  }
  auto hosts  = e.get_all_hosts();
  auto actors = split(argv[2], '/');
  for (size_t i = 0; i < actors.size(); i++)
    hosts[i % hosts.size()]->add_actor("a" + std::to_string(i + 1), actor, split(actors[i], ','));
  e.run();
  return 0;
}
