Require Import ExtrOcamlBasic.
Require Import SGV.Lmm.Selective.
Extraction "c17_model.ml" run_c17 run_c17_closed.
