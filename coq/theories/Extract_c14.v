Require Import ExtrOcamlBasic.
Require Import SGV.Kernel.Ref.
Extraction "c14_model.ml" run_c14_explore run_c14_replay run_c14_engine.
