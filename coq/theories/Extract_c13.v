Require Import ExtrOcamlBasic.
Require Import SGV.Kernel.Dag.
Extraction "c13_model.ml" run_c13 run_c13_oracle run_c13_skips.
