Require Import ExtrOcamlBasic.
Require Import SGV.Res.NetFormula.
Extraction "c20_model.ml" run_c20_comm run_c20_simple.
