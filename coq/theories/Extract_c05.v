Require Import ExtrOcamlBasic.
Require Import SGV.Kernel.Sem.
Extraction "c05_model.ml" run_c05.
