Require Import ExtrOcamlBasic.
Require Import SGV.Xbt.Units.
Extraction "c27_model.ml" run_c27_impl run_c27_doc run_c27_ok run_c27_table run_c27_doctable.
