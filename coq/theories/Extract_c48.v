Require Import ExtrOcamlBasic.
Require Import SGV.Xbt.Config.
Extraction "c48_model.ml" run_c48_parse run_c48_ops.
