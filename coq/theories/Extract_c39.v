Require Import ExtrOcamlBasic.
Require Import SGV.Mc.McKernel.
Require Import SGV.Mc.McKernel2.
Extraction "c39_model.ml" run_c39_depends run_c39_mutex_pair run_c39_mutex_dep run_c39_mutex_seq run_c39_sem_seq
  run_c39_bar_seq run_c39_bar_pair run_c39_comm_seq run_c39_comm_deps.
