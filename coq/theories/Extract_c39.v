Require Import ExtrOcamlBasic.
Require Import SGV.Mc.McKernel.
Extraction "c39_model.ml" run_c39_depends run_c39_mutex_pair run_c39_mutex_dep run_c39_mutex_seq run_c39_sem_seq.
