Require Import ExtrOcamlBasic.
Require Import SGV.Kernel.Mailbox.
Extraction "c08_model.ml" run_c08 run_c08_oracle.
