Require Import ExtrOcamlBasic.
Require Import SGV.Smpi.TiCodec.
Extraction "c37_model.ml" run_c37_encode run_c37_decode run_c37_norm.
