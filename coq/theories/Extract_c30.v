Require Import ExtrOcamlBasic.
Require Import SGV.Smpi.Datatype.
Extraction "c30_model.ml" run_c30_spec run_c30_code.
