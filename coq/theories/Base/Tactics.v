(** Shared set-up: arithmetic automation and small list helpers. *)
From Coq Require Export List ZArith Lia Bool.
From Coq Require Export ZifyBool.
Export ListNotations.
Ltac Zify.zify_post_hook ::= Z.div_mod_to_equations.

Ltac inv H := inversion H; subst; clear H.

(** decode helpers for the integer-list protocol of the extracted drivers *)
Fixpoint take_pairs (n : nat) (l : list Z) : list (Z * Z) * list Z :=
  match n with
  | O => ([], l)
  | S n' => match l with
            | a :: b :: r => let '(ps, rest) := take_pairs n' r in ((a, b) :: ps, rest)
            | _ => ([], l)
            end
  end.
Fixpoint flat_pairs (l : list (Z * Z)) : list Z :=
  match l with [] => [] | (a, b) :: r => a :: b :: flat_pairs r end.
Fixpoint take_n (n : nat) (l : list Z) : list Z * list Z :=
  match n with
  | O => ([], l)
  | S n' => match l with a :: r => let '(xs, rest) := take_n n' r in (a :: xs, rest) | [] => ([], []) end
  end.
