(** C23 — energy accounting of the host_energy and link_energy plugins (model only, no proofs).
    Mirrors HostEnergy::update / get_current_watts_value (src/plugins/host_energy.cpp) and
    LinkEnergy::update / get_power (src/plugins/link_energy.cpp) over exact rationals. *)
From Coq Require Import QArith Qminmax.
From SGV Require Import Base.Tactics Res.NetFormula.
Local Open Scope Q_scope.

Record prange := { p_idle : Q; p_eps : Q; p_max : Q }.            (* PowerRange, slope = max - epsilon *)
Record hcfg := { h_ranges : list prange; h_off : Q; h_speeds : list Q; h_cores : Z }.

Definition pstate_off : Z := (-1)%Z.
Record hstate := { e_pstate : Z; e_total : Q; e_last : Q }.       (* pstate_, total_energy_, last_updated_ *)

(* what update() reads from the host when it is called *)
Record call := { c_now : Q; c_on : bool; c_pstate : Z; c_load : Q }.

(* get_current_watts_value(cpu_load) *)
Definition watts_at (c : hcfg) (ps : Z) (cpu_load : Q) : Q :=
  if (ps =? pstate_off)%Z then h_off c
  else match nth_error (h_ranges c) (Z.to_nat ps) with
       | None => 0
       | Some r => if Qlt_bool 0 cpu_load then p_eps r + cpu_load * (p_max r - p_eps r) else p_idle r
       end.

(* get_current_watts_value(): load = flops/s currently used on the host *)
Definition cpu_load_of (c : hcfg) (ps : Z) (load : Q) : Q :=
  let speed := nth (Z.to_nat ps) (h_speeds c) 0 in
  if Qle_bool speed 0 then 1
  else let l := load / speed / inject_Z (h_cores c) in if Qlt_bool 1 l then 1 else l.

Definition watts (c : hcfg) (ps : Z) (load : Q) : Q :=
  if (ps =? pstate_off)%Z then h_off c else watts_at c ps (cpu_load_of c ps load).

Definition update (c : hcfg) (s : hstate) (k : call) : hstate :=
  let s' := if Qlt_bool (e_last s) (c_now k)
            then {| e_pstate := e_pstate s;
                    e_total := e_total s + watts c (e_pstate s) (c_load k) * (c_now k - e_last s);
                    e_last := c_now k |}
            else s in
  {| e_pstate := if c_on k then c_pstate k else pstate_off; e_total := e_total s'; e_last := e_last s' |}.

Definition run (c : hcfg) (s : hstate) (ks : list call) : hstate := fold_left (update c) ks s.

(** the timeline: periods during which on/off, pstate and load are constant; update() is called at least at the end
    of each period (when something changes), and possibly several times in between *)
Record period := { s_on : bool; s_ps : Z; s_load : Q; s_first : Q; s_more : list Q }.   (* durations between calls *)
Definition st_of (on : bool) (ps : Z) : Z := if on then ps else pstate_off.
Definition duration (p : period) : Q := fold_left Qplus (s_more p) (s_first p).
Definition energy_spec (c : hcfg) (ps : list period) : Q :=
  fold_right (fun p e => watts c (st_of (s_on p) (s_ps p)) (s_load p) * duration p + e) 0 ps.

(* the calls made during period [p] starting at date [t]; the last one sees the host as it is in the next period *)
Fixpoint period_calls (t : Q) (p : period) (d : Q) (more : list Q) (nxt : bool * Z) : list call * Q :=
  match more with
  | [] => ([{| c_now := t + d; c_on := fst nxt; c_pstate := snd nxt; c_load := s_load p |}], t + d)
  | d' :: r => let '(cs, t') := period_calls (t + d) p d' r nxt in
               ({| c_now := t + d; c_on := s_on p; c_pstate := s_ps p; c_load := s_load p |} :: cs, t')
  end.
Fixpoint timeline_calls (t : Q) (ps : list period) (final : bool * Z) : list call :=
  match ps with
  | [] => []
  | p :: r => let nxt := match r with [] => final | q :: _ => (s_on q, s_ps q) end in
              let '(cs, t') := period_calls t p (s_first p) (s_more p) nxt in
              cs ++ timeline_calls t' r final
  end.

(** links *)
Record lcfg := { l_idle : Q; l_busy : Q }.
Record lstate := { le_total : Q; le_last : Q }.
Definition link_power (c : lcfg) (load bw : Q) : Q := l_idle c + (l_busy c - l_idle c) * (load / bw).
Definition link_update (c : lcfg) (s : lstate) (now load bw : Q) : lstate :=
  {| le_total := le_total s + link_power c load bw * (now - le_last s); le_last := now |}.

(** executable entry points.
    run_c23_host: obs_n obs_d  off_n off_d cores npst {speed_n speed_d idle_n idle_d eps_n eps_d max_n max_d}*
                  init_pstate  nsamples {dt_n dt_d on pstate load_n load_d}*
      one update per sample, seeing the next sample's on/pstate; output [ok; E n d] *)
Fixpoint take_pst (n : nat) (l : list Z) : list (Q * prange) * list Z :=
  match n with
  | O => ([], l)
  | S n' => match l with
            | a :: b :: c :: d :: e :: f :: g :: h :: r =>
                let '(x, rest) := take_pst n' r in
                ((mkQ a b, {| p_idle := mkQ c d; p_eps := mkQ e f; p_max := mkQ g h |}) :: x, rest)
            | _ => ([], l)
            end
  end.
Fixpoint take_samples (n : nat) (l : list Z) : list period :=
  match n with
  | O => []
  | S n' => match l with
            | a :: b :: on :: ps :: e :: f :: r =>
                {| s_on := (on =? 1)%Z; s_ps := ps; s_load := mkQ e f; s_first := mkQ a b; s_more := [] |} :: take_samples n' r
            | _ => []
            end
  end.
Definition energy_close (obs ref : Q) : bool :=
  Qle_bool (Qabs' (obs - ref)) ((1 # 100000000) * Qmax 1 (Qabs' ref)).
Definition run_c23_host (l : list Z) : list Z :=
  match l with
  | on :: od :: fn :: fd :: cores :: npst :: r0 =>
      let '(pst, r1) := take_pst (Z.to_nat npst) r0 in
      match r1 with
      | init :: ns :: r2 =>
          let c := {| h_ranges := map snd pst; h_off := mkQ fn fd; h_speeds := map fst pst; h_cores := cores |} in
          let ps := take_samples (Z.to_nat ns) r2 in
          let first := match ps with [] => init | p :: _ => st_of (s_on p) (s_ps p) end in
          let fin := run c {| e_pstate := first; e_total := 0; e_last := 0 |} (timeline_calls 0 ps (true, init)) in
          [b2z (energy_close (mkQ on od) (e_total fin))] ++ outQ (e_total fin) ++ outQ (energy_spec c ps)
      | _ => []
      end
  | _ => []
  end.

(*  run_c23_link: obs_n obs_d idle_n idle_d busy_n busy_d nsamples {dt_n dt_d load_n load_d bw_n bw_d}* *)
Fixpoint link_fold (c : lcfg) (s : lstate) (l : list Z) (n : nat) : lstate :=
  match n with
  | O => s
  | S n' => match l with
            | a :: b :: e :: f :: g :: h :: r =>
                link_fold c (link_update c s (le_last s + mkQ a b) (mkQ e f) (mkQ g h)) r n'
            | _ => s
            end
  end.
Definition run_c23_link (l : list Z) : list Z :=
  match l with
  | on :: od :: i_n :: i_d :: bn :: bd :: ns :: r =>
      let c := {| l_idle := mkQ i_n i_d; l_busy := mkQ bn bd |} in
      let fin := link_fold c {| le_total := 0; le_last := 0 |} r (Z.to_nat ns) in
      [b2z (energy_close (mkQ on od) (le_total fin))] ++ outQ (le_total fin)
  | _ => []
  end.
