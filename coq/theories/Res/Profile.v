(** C22 — availability profiles (src/kernel/resource/profile): LegacyUpdateCb turns absolute dates into deltas,
    PERIODICITY into a loop delay added to the first delta of every later iteration; Profile::schedule / next and
    FutureEvtSet::pop_leq fire event n at the date of event n-1 plus its delta.  Model only, no proofs.
    The lazy extension of event_list (get_enough_events) is abstracted: iteration j of the pattern is produced when
    iteration j-1 is exhausted, i.e. the event list is the concatenation of the iterations. Deterministic profiles only. *)
From Coq Require Import QArith Qminmax.
From SGV Require Import Base.Tactics Res.NetFormula.
Local Open Scope Q_scope.

Definition pt := (Q * Q)%type.                       (* (date, value) *)

(* LegacyUpdateCb::LegacyUpdateCb: stochevent.date_params[0] -= last_date; last_date = new_date *)
Fixpoint deltas (last : Q) (pts : list pt) : list pt :=
  match pts with [] => [] | (d, v) :: r => (d - last, v) :: deltas d r end.
Fixpoint last_date (last : Q) (pts : list pt) : Q :=
  match pts with [] => last | (d, _) :: r => last_date d r end.
Definition loop_delay (period : Q) (pts : list pt) : Q := period - last_date 0 pts.     (* periodicity - last_date *)

(* operator(): event_list.at(initial_size).date_ += loop_delay for every iteration but the first *)
Definition bump (ld : Q) (ds : list pt) : list pt := match ds with [] => [] | (d, v) :: r => (d + ld, v) :: r end.

(* Profile::next: the next event is scheduled at event_date + nextDateVal.date_ ; returns the fired (date, value)s and
   the date of the last one *)
Fixpoint run_iter (start : Q) (ds : list pt) : list pt * Q :=
  match ds with
  | [] => ([], start)
  | (d, v) :: r => let t := Qred (start + d) in let '(l, e) := run_iter t r in ((t, v) :: l, e)   (* Qred: same rational, kept small *)
  end.
Fixpoint run_iters (period : Q) (pts : list pt) (first : bool) (n : nat) (start : Q) : list (list pt) :=
  match n with
  | O => []
  | S n' => let ds := if first then deltas 0 pts else bump (loop_delay period pts) (deltas 0 pts) in
            let '(l, e) := run_iter start ds in l :: run_iters period pts false n' e
  end.
(* the events fired by a profile: one iteration when it does not loop (period <= 0), [n] iterations otherwise *)
Definition fired (period : Q) (pts : list pt) (n : nat) : list pt :=
  concat (run_iters period pts true (if Qlt_bool 0 period then n else 1%nat) 0).

(* value of the resource at date t: the value of the last event fired at a date <= t (events are applied before the
   clock reaches actors waking up at the same date), [init] before the first one *)
Fixpoint value_at (init : Q) (evs : list pt) (t : Q) : Q :=
  match evs with
  | [] => init
  | (d, v) :: r => if Qle_bool d t then value_at v r t else init
  end.

(* work done between 0 and t by something progressing at rate peak * value(t) *)
Fixpoint work_until (peak : Q) (cur : Q) (from : Q) (evs : list pt) (t : Q) : Q :=
  match evs with
  | [] => peak * cur * (t - from)
  | (d, v) :: r => if Qle_bool d t then peak * cur * (d - from) + work_until peak v d r t else peak * cur * (t - from)
  end.
(* date at which [amount] of work started at date 0 is done (None: never within the given events and a zero rate) *)
Fixpoint finish_date (peak cur from : Q) (evs : list pt) (amount : Q) : option Q :=
  match evs with
  | [] => if Qlt_bool 0 (peak * cur) then Some (from + amount / (peak * cur)) else None
  | (d, v) :: r =>
      let cap := peak * cur * (d - from) in
      if Qlt_bool 0 (peak * cur) && Qle_bool amount cap then Some (from + amount / (peak * cur))
      else finish_date peak v d r (Qred (amount - cap))
  end.

(** executable: period_n period_d npts {date_n date_d val_n val_d}* iterations
                kind ... : 0 -> fired events (date n d, value n d)*
                           1 t_n t_d init_n init_d -> value at t
                           2 peak_n peak_d init_n init_d amount_n amount_d -> finish date (or -1) *)
Fixpoint take_pts (n : nat) (l : list Z) : list pt * list Z :=
  match n with
  | O => ([], l)
  | S n' => match l with
            | a :: b :: c :: d :: r => let '(x, rest) := take_pts n' r in ((mkQ a b, mkQ c d) :: x, rest)
            | _ => ([], l)
            end
  end.
Definition run_c22 (l : list Z) : list Z :=
  match l with
  | pn :: pd :: np :: r0 =>
      let '(pts, r1) := take_pts (Z.to_nat np) r0 in
      match r1 with
      | iters :: kind :: r2 =>
          let evs := fired (mkQ pn pd) pts (Z.to_nat iters) in
          match kind, r2 with
          | 0%Z, _ => flat_map (fun e => outQ (fst e) ++ outQ (snd e)) evs
          | 1%Z, [tn; td; i_n; i_d] => outQ (value_at (mkQ i_n i_d) evs (mkQ tn td))
          | 2%Z, [kn; kd; i_n; i_d; an; ad] =>
              match finish_date (mkQ kn kd) (mkQ i_n i_d) 0 evs (mkQ an ad) with Some t => outQ t | None => [(-1)%Z] end
          | _, _ => []
          end
      | _ => []
      end
  | _ => []
  end.
