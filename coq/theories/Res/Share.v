(** Res/Share.v — the multicore share of C21: k equal single-core executions on an n-core host of speed S.
    In the LMM system built by CpuCas01 this is ONE constraint of capacity n*S (CpuImpl::seal: core_count * speed) and k
    variables of weight 1, penalty 1, each bounded by S (CpuCas01Action: bound = requested_core * speed, 1 core).
    Stated as a lemma about allocations on that symmetric instance: the equal allocation S*min(1, n/k) is feasible and
    max-min fair (bottleneck characterization), and it is the ONLY feasible max-min fair allocation, so whatever correct
    solver is used, each execution progresses at S*min(1, n/k). No dependency on the Lmm development. *)
From Coq Require Import QArith Lqa List Bool ZArith Lia.
Import ListNotations.
Local Open Scope Q_scope.

Definition qn (k : nat) : Q := inject_Z (Z.of_nat k).

(** S * min(1, n/k) *)
Definition share (n k : nat) (S : Q) : Q := if (k <=? n)%nat then S else S * (qn n / qn k).

Fixpoint sum (l : list Q) : Q := match l with [] => 0 | x :: r => x + sum r end.

(** capacity of the CPU constraint respected, every variable within [0, bound] *)
Definition feasible (cap bound : Q) (y : list Q) : Prop :=
  Forall (fun v => 0 <= v /\ v <= bound) y /\ sum y <= cap.
(** max-min fairness as the bottleneck condition: every variable is stopped either by its own bound or by the
    saturated constraint on which nobody gets more than it *)
Definition fair (cap bound : Q) (y : list Q) : Prop :=
  Forall (fun v => v == bound \/ (sum y == cap /\ Forall (fun w => w <= v) y)) y.

Definition equal_alloc (n k : nat) (S : Q) : list Q := repeat (share n k S) k.

(** boolean versions used by the driver on the implementation's rates *)
Definition run_c21_share (inp : list Z) : list Z :=
  match inp with
  | n :: k :: sn :: sd :: _ =>
      let S := match sd with Zpos p => Qmake sn p | _ => Qmake sn 1 end in
      let r := Qred (share (Z.to_nat n) (Z.to_nat k) S) in [Qnum r; Zpos (Qden r)]
  | _ => []
  end.

(** ------------------------------------------------------------------------------------------------ proofs *)
Lemma qn_S : forall k, qn (S k) == 1 + qn k.
Proof.
  intro k. unfold qn. rewrite Nat2Z.inj_succ. unfold Z.succ. rewrite inject_Z_plus. ring.
Qed.
Lemma qn_0 : qn 0 == 0.
Proof. reflexivity. Qed.
Lemma qn_pos : forall k, (0 < k)%nat -> 0 < qn k.
Proof.
  intros k Hk. unfold qn. change 0 with (inject_Z 0). rewrite <- Zlt_Qlt. lia.
Qed.
Lemma qn_le : forall a b, (a <= b)%nat -> qn a <= qn b.
Proof. intros a b H. unfold qn. rewrite <- Zle_Qle. lia. Qed.
Lemma qn_lt : forall a b, (a < b)%nat -> qn a < qn b.
Proof. intros a b H. unfold qn. rewrite <- Zlt_Qlt. lia. Qed.

Lemma sum_repeat : forall x k, sum (repeat x k) == qn k * x.
Proof.
  intros x k. induction k as [| k IH].
  - cbn [repeat sum length]. rewrite qn_0. ring.
  - cbn [repeat sum]. rewrite IH, qn_S. ring.
Qed.
Lemma sum_all_eq : forall y m, Forall (fun v => v == m) y -> sum y == qn (length y) * m.
Proof.
  induction y as [| x r IH]; intros m H.
  - cbn [repeat sum length]. rewrite qn_0. ring.
  - inversion H as [| x0 r0 Hx Hr]; subst. cbn [sum length]. rewrite (IH m Hr), qn_S, Hx. ring.
Qed.
Lemma sum_le_bound : forall y b, Forall (fun v => v <= b) y -> sum y <= qn (length y) * b.
Proof.
  induction y as [| x r IH]; intros b H.
  - cbn [sum length]. rewrite qn_0. lra.
  - inversion H as [| x0 r0 Hx Hr]; subst. cbn [sum length]. pose proof (IH b Hr). rewrite qn_S. lra.
Qed.
Lemma sum_lt_bound : forall y b v, Forall (fun w => w <= b) y -> In v y -> v < b -> sum y < qn (length y) * b.
Proof.
  induction y as [| x r IH]; intros b v H Hin Hv; [destruct Hin |].
  inversion H as [| x0 r0 Hx Hr]; subst. cbn [sum length]. rewrite qn_S. destruct Hin as [-> | Hin].
  - pose proof (sum_le_bound r b Hr). lra.
  - pose proof (IH b v Hr Hin Hv). lra.
Qed.

Lemma share_le_S : forall n k S, 0 <= S -> (0 < k)%nat -> 0 <= share n k S /\ share n k S <= S.
Proof.
  intros n k S HS Hk. unfold share. destruct (k <=? n)%nat eqn:E.
  - split; lra.
  - apply Nat.leb_gt in E. pose proof (qn_pos k Hk) as Hkp. pose proof (qn_lt n k E) as Hnk.
    assert (Hn0 : 0 <= qn n) by (unfold qn; change 0 with (inject_Z 0); rewrite <- Zle_Qle; lia).
    assert (Hq : 0 <= qn n / qn k) by (apply Qle_shift_div_l; [assumption | lra]).
    assert (Hq1 : qn n / qn k <= 1) by (apply Qle_shift_div_r; [assumption | lra]).
    split.
    + apply Qmult_le_0_compat; assumption.
    + rewrite <- (Qmult_1_r S) at 2. rewrite (Qmult_comm S (qn n / qn k)), (Qmult_comm S 1).
      apply Qmult_le_compat_r; assumption.
Qed.

Lemma sum_equal_alloc : forall n k S, (0 < k)%nat ->
  sum (equal_alloc n k S) == if (k <=? n)%nat then qn k * S else qn n * S.
Proof.
  intros n k S Hk. unfold equal_alloc. rewrite sum_repeat. unfold share. destruct (k <=? n)%nat; [reflexivity |].
  field. pose proof (qn_pos k Hk). intro Hz. lra.
Qed.

Theorem share_feasible : forall n k S, 0 <= S -> (0 < k)%nat ->
  feasible (qn n * S) S (equal_alloc n k S).
Proof.
  intros n k S HS Hk. split.
  - unfold equal_alloc. apply Forall_forall. intros v Hv. apply repeat_spec in Hv. subst v.
    apply share_le_S; assumption.
  - rewrite sum_equal_alloc by assumption. destruct (k <=? n)%nat eqn:E; [| lra].
    apply Nat.leb_le in E. pose proof (qn_le k n E).
    rewrite (Qmult_comm (qn k) S), (Qmult_comm (qn n) S).
    rewrite (Qmult_comm S (qn k)), (Qmult_comm S (qn n)). apply Qmult_le_compat_r; assumption.
Qed.

Theorem share_fair : forall n k S, 0 <= S -> (0 < k)%nat ->
  fair (qn n * S) S (equal_alloc n k S).
Proof.
  intros n k S HS Hk. unfold fair. apply Forall_forall. intros v Hv.
  unfold equal_alloc in Hv. apply repeat_spec in Hv. subst v.
  pose proof (sum_equal_alloc n k S Hk) as Hsum. unfold share at 1. destruct (k <=? n)%nat eqn:E.
  - left. reflexivity.
  - right. split; [exact Hsum |]. apply Forall_forall. intros w Hw. unfold equal_alloc in Hw.
    apply repeat_spec in Hw. subst w. unfold share. rewrite E. apply Qle_refl.
Qed.

(** uniqueness: any feasible max-min fair allocation gives every execution S * min(1, n/k) *)
Theorem share_unique : forall n k S y, 0 < S -> (0 < k)%nat -> length y = k ->
  feasible (qn n * S) S y -> fair (qn n * S) S y -> Forall (fun v => v == share n k S) y.
Proof.
  intros n k S y HS Hk Hlen [Hrange Hcap] Hfair.
  assert (Hub : Forall (fun w => w <= S) y).
  { apply Forall_forall. intros w Hw. rewrite Forall_forall in Hrange. apply (Hrange w Hw). }
  unfold fair in Hfair. rewrite Forall_forall in Hfair. apply Forall_forall. intros v Hv. unfold share.
  destruct (k <=? n)%nat eqn:E.
  - apply Nat.leb_le in E. destruct (Hfair v Hv) as [Hb | [Hsat _]]; [assumption |].
    destruct (Qlt_le_dec v S) as [Hlt | Hge].
    + pose proof (sum_lt_bound y S v Hub Hv Hlt) as H1. rewrite Hlen in H1.
      pose proof (qn_le k n E) as H2.
      assert (H3 : qn k * S <= qn n * S) by (apply Qmult_le_compat_r; lra). exfalso. lra.
    + rewrite Forall_forall in Hub. pose proof (Hub v Hv). lra.
  - apply Nat.leb_gt in E. pose proof (qn_pos k Hk) as Hkp. pose proof (qn_lt n k E) as Hnk.
    (* somebody is stopped by the saturated constraint, otherwise everybody has S and the capacity is exceeded *)
    assert (Hex : exists m, In m y /\ sum y == qn n * S /\ Forall (fun w => w <= m) y).
    { destruct (Forall_Exists_dec (fun w => w == S) (fun w => Qeq_dec w S) y) as [Hall | Hsome].
      - exfalso. pose proof (sum_all_eq y S Hall) as H1. rewrite Hlen in H1.
        assert (H2 : qn n * S < qn k * S) by (apply Qmult_lt_compat_r; assumption). lra.
      - apply Exists_exists in Hsome. destruct Hsome as (m & Hm & Hne).
        destruct (Hfair m Hm) as [Hb | [Hsat Hmax]]; [contradiction |]. exists m. auto. }
    destruct Hex as (m & Hm & Hsat & Hmax).
    assert (Hall : Forall (fun w => w == m) y).
    { apply Forall_forall. intros w Hw. rewrite Forall_forall in Hmax. pose proof (Hmax w Hw) as H1.
      destruct (Hfair w Hw) as [Hb | [_ Hmaxw]].
      - rewrite Forall_forall in Hub. pose proof (Hub m Hm). lra.
      - rewrite Forall_forall in Hmaxw. pose proof (Hmaxw m Hm). lra. }
    pose proof (sum_all_eq y m Hall) as H1. rewrite Hlen in H1.
    rewrite Forall_forall in Hall. rewrite (Hall v Hv).
    assert (Hm' : qn k * m == qn n * S) by lra.
    assert (Hk0 : ~ qn k == 0) by (intro Hz; lra).
    assert (Hmm : m == (qn k * m) / qn k) by (field; exact Hk0).
    rewrite Hmm, Hm'. field. exact Hk0.
Qed.
