(** C20 — proofs about SGV.Res.NetFormula. *)
From Coq Require Import QArith Qminmax Lqa Setoid Morphisms.
From SGV Require Import Base.Tactics Res.NetFormula.
Local Open Scope Q_scope.

(** ** booleans *)
Lemma Qlt_bool_iff a b : Qlt_bool a b = true <-> a < b.
Proof.
  unfold Qlt_bool. rewrite negb_true_iff. split; intro H.
  - apply Qnot_le_lt. intro Hle. apply Qle_bool_iff in Hle. congruence.
  - destruct (Qle_bool b a) eqn:E; [|reflexivity]. apply Qle_bool_iff in E. lra.
Qed.
Lemma Qlt_bool_false a b : Qlt_bool a b = false <-> b <= a.
Proof.
  split; intro H.
  - destruct (Qlt_le_dec a b) as [Hl|Hl]; [|exact Hl]. apply Qlt_bool_iff in Hl. congruence.
  - destruct (Qlt_bool a b) eqn:E; [|reflexivity]. apply Qlt_bool_iff in E. lra.
Qed.
Lemma Qle_bool_false a b : Qle_bool a b = false <-> b < a.
Proof.
  split; intro H.
  - apply Qnot_le_lt. intro Hle. apply Qle_bool_iff in Hle. congruence.
  - destruct (Qle_bool a b) eqn:E; [|reflexivity]. apply Qle_bool_iff in E. lra.
Qed.
Global Instance Qlt_bool_proper : Proper (Qeq ==> Qeq ==> eq) Qlt_bool.
Proof.
  intros a a' Ha b b' Hb. destruct (Qlt_bool a' b') eqn:E.
  - apply Qlt_bool_iff. apply Qlt_bool_iff in E. lra.
  - apply Qlt_bool_false. apply Qlt_bool_false in E. lra.
Qed.
Global Instance Qle_bool_proper : Proper (Qeq ==> Qeq ==> eq) Qle_bool.
Proof.
  intros a a' Ha b b' Hb. destruct (Qle_bool a' b') eqn:E.
  - apply Qle_bool_iff. apply Qle_bool_iff in E. lra.
  - apply Qle_bool_false. apply Qle_bool_false in E. lra.
Qed.
Global Instance gamma_active_proper c : Proper (Qeq ==> eq) (gamma_active c).
Proof. intros a b H. unfold gamma_active. rewrite H. reflexivity. Qed.

(** ** min / max over lists *)
Lemma qmin_list_le_acc l : forall a, qmin_list a l <= a.
Proof.
  induction l as [|x r IH]; intro a; cbn [qmin_list]; [lra|].
  specialize (IH (Qmin a x)). pose proof (Q.le_min_l a x). lra.
Qed.
Lemma qmin_list_le_in l : forall a x, In x l -> qmin_list a l <= x.
Proof.
  induction l as [|y r IH]; intros a x Hin; [inversion Hin|]. cbn [qmin_list]. destruct Hin as [->|Hin].
  - pose proof (qmin_list_le_acc r (Qmin a x)). pose proof (Q.le_min_r a x). lra.
  - apply IH, Hin.
Qed.
Lemma qmin_list_glb l : forall a z, z <= a -> (forall x, In x l -> z <= x) -> z <= qmin_list a l.
Proof.
  induction l as [|y r IH]; intros a z Ha Hl; cbn [qmin_list]; [exact Ha|].
  apply IH.
  - apply Q.min_glb; [exact Ha|]. apply Hl. left. reflexivity.
  - intros x Hx. apply Hl. right. exact Hx.
Qed.
Lemma qmin_list_pos l : forall a, 0 < a -> (forall x, In x l -> 0 < x) -> 0 < qmin_list a l.
Proof.
  induction l as [|b bs IH]; intros a Ha Hr; cbn [qmin_list]; [exact Ha|].
  apply IH.
  - destruct (Q.min_spec a b) as [[_ ->]|[_ ->]]; [exact Ha|apply Hr; left; reflexivity].
  - intros x Hx. apply Hr. right. exact Hx.
Qed.
Lemma qmin3 a g B : B <= a -> Qmin (Qmin a g) B == Qmin B g.
Proof.
  intro H. destruct (Q.min_spec a g) as [[H1 E1]|[H1 E1]]; destruct (Q.min_spec B g) as [[H2 E2]|[H2 E2]];
    destruct (Q.min_spec (Qmin a g) B) as [[H3 E3]|[H3 E3]]; lra.
Qed.
Lemma qmin_list_proper l : forall a b, a == b -> qmin_list a l == qmin_list b l.
Proof.
  induction l as [|y r IH]; intros a b H; cbn [qmin_list]; [exact H|]. apply IH. rewrite H. reflexivity.
Qed.
Lemma qmax_list_ge_acc l : forall a, a <= qmax_list a l.
Proof.
  induction l as [|x r IH]; intro a; cbn [qmax_list]; [lra|].
  specialize (IH (Qmax a x)). pose proof (Q.le_max_l a x). lra.
Qed.
Lemma qmax_list_proper l : forall a b, a == b -> qmax_list a l == qmax_list b l.
Proof.
  induction l as [|y r IH]; intros a b H; cbn [qmax_list]; [exact H|]. apply IH. rewrite H. reflexivity.
Qed.

(** ** the single-variable system *)
Lemma min_share_some cs : forall a b, a == b ->
  exists m, min_share (Some a) cs = Some m /\ m == qmin_list b (map ratio cs).
Proof.
  induction cs as [|[bd w] r IH]; intros a b Hab; cbn [min_share map qmin_list].
  - exists a. split; [reflexivity|exact Hab].
  - apply IH. unfold ratio; cbn [fst snd]. destruct (Qlt_bool (bd / w) a) eqn:E.
    + apply Qlt_bool_iff in E. rewrite Q.min_r; lra.
    + apply Qlt_bool_false in E. rewrite Q.min_l; lra.
Qed.

Lemma solve1_spec c cs vb :
  exists v, solve1 (c :: cs) vb = v /\
            v == (if Qle_bool 0 vb then Qmin vb (qmin_list (ratio c) (map ratio cs)) else qmin_list (ratio c) (map ratio cs)).
Proof.
  unfold solve1. destruct c as [bd w]. cbn [min_share].
  destruct (min_share_some cs (bd / w) (ratio (bd, w))) as [m [Hm Hq]]; [reflexivity|].
  rewrite Hm. eexists; split; [reflexivity|].
  destruct (Qle_bool 0 vb) eqn:E0; cbn [andb].
  - destruct (Qlt_bool vb m) eqn:E1.
    + apply Qlt_bool_iff in E1. rewrite Q.min_l; lra.
    + apply Qlt_bool_false in E1. rewrite Q.min_r; lra.
  - exact Hq.
Qed.

(** ** route scans *)
Lemma route_latency_spec r : forall acc, route_latency acc r == acc + total_latency r.
Proof.
  induction r as [|l r IH]; intro acc; cbn [route_latency total_latency fold_right]; [lra|].
  rewrite IH. unfold total_latency. lra.
Qed.

Definition links_ok (fwd : list flink) : Prop := forall l, In l fwd -> 0 < f_bw l /\ 0 <= f_lat l.
Definition backs_ok (back : list blink) : Prop := forall b, In b back -> 0 < b_bw b.

Lemma bandwidth_bound_pos r : forall bb b', 0 < bb -> bb == b' -> links_ok r ->
  bandwidth_bound bb r == qmin_list b' (map f_bw r).
Proof.
  induction r as [|l r IH]; intros bb b' Hpos Heq Hok; cbn [bandwidth_bound map qmin_list]; [exact Heq|].
  assert (Hl : 0 < f_bw l) by (apply Hok; left; reflexivity).
  assert (Hr : links_ok r) by (intros x Hx; apply Hok; right; exact Hx).
  assert (Hne : Qeq_bool bb (-1 # 1) = false).
  { destruct (Qeq_bool bb (-1 # 1)) eqn:E; [|reflexivity]. apply Qeq_bool_iff in E. lra. }
  rewrite Hne. cbn [orb]. destruct (Qlt_bool (f_bw l) bb) eqn:E.
  - apply Qlt_bool_iff in E. apply IH; [exact Hl| |exact Hr]. rewrite Q.min_r; lra.
  - apply Qlt_bool_false in E. apply IH; [exact Hpos| |exact Hr]. rewrite Q.min_l; lra.
Qed.

Lemma bandwidth_bound_spec l r : links_ok (l :: r) ->
  bandwidth_bound (-1 # 1) (l :: r) == qmin_list (f_bw l) (map f_bw r).
Proof.
  intro Hok. cbn [bandwidth_bound]. change (Qeq_bool (-1 # 1) (-1 # 1)) with true. cbn [orb].
  apply bandwidth_bound_pos; [apply Hok; left; reflexivity|reflexivity|].
  intros x Hx. apply Hok. right. exact Hx.
Qed.

Lemma total_latency_nonneg r : links_ok r -> 0 <= total_latency r.
Proof.
  induction r as [|l r IH]; intro Hok; unfold total_latency; cbn [fold_right]; [lra|].
  assert (0 <= f_lat l) by (apply Hok; left; reflexivity).
  assert (0 <= total_latency r) by (apply IH; intros x Hx; apply Hok; right; exact Hx).
  unfold total_latency in *. lra.
Qed.

(** ** every forward link yields a constraint whose share is at most its bandwidth, and all shares are positive *)
Lemma xw_val : xw == 5 # 100. Proof. reflexivity. Qed.
Lemma qmax_1_xw : Qmax 1 xw == 1. Proof. apply Q.max_l. unfold xw. lra. Qed.

Lemma fwd_constraint_le ct l : 0 < f_bw l -> exists c, In c (fwd_constraints ct l) /\ ratio c <= f_bw l.
Proof.
  intro Hb. unfold fwd_constraints. destruct (f_pol l).
  - eexists; split; [left; reflexivity|]. unfold ratio; cbn [fst snd].
    destruct (ct && f_inback l).
    + apply Qle_shift_div_r; unfold xw; [lra|]. nra.
    + apply Qle_shift_div_r; lra.
  - eexists; split; [left; reflexivity|]. unfold ratio; cbn [fst snd].
    destruct (ct && f_inback l).
    + rewrite qmax_1_xw. apply Qle_shift_div_r; lra.
    + apply Qle_shift_div_r; lra.
  - eexists; split; [left; reflexivity|]. unfold ratio; cbn [fst snd]. apply Qle_shift_div_r; lra.
Qed.

Lemma beff_le_link ct fwd back l : links_ok fwd -> In l fwd -> beff ct fwd back <= f_bw l.
Proof.
  intros Hok Hin. destruct (fwd_constraint_le ct l) as [c [Hc Hle]]; [apply Hok, Hin|].
  assert (Hin2 : In (ratio c) (map ratio (constraints ct fwd back))).
  { apply in_map. unfold constraints. apply in_or_app. left. apply in_flat_map. exists l. split; assumption. }
  unfold beff. destruct (map ratio (constraints ct fwd back)) as [|x r]; [inversion Hin2|].
  destruct Hin2 as [->|Hin2].
  - pose proof (qmin_list_le_acc r (ratio c)). lra.
  - pose proof (qmin_list_le_in r x _ Hin2). lra.
Qed.

Lemma beff_le_bwmin ct l r back : links_ok (l :: r) ->
  beff ct (l :: r) back <= qmin_list (f_bw l) (map f_bw r).
Proof.
  intro Hok. apply qmin_list_glb.
  - apply beff_le_link; [exact Hok|left; reflexivity].
  - intros x Hx. apply in_map_iff in Hx. destruct Hx as [k [<- Hk]]. apply beff_le_link; [exact Hok|right; exact Hk].
Qed.

(** ** the communication *)
Lemma constraints_cons ct l r back :
  exists c cs, constraints ct (l :: r) back = c :: cs.
Proof.
  unfold constraints. cbn [flat_map]. unfold fwd_constraints. destruct (f_pol l); cbn [app]; eexists; eexists; reflexivity.
Qed.

Theorem comm_time_closed : forall c size l r back,
  links_ok (l :: r) ->
  comm_time c size (l :: r) back == comm_closed c size (l :: r) back.
Proof.
  intros c size l r back Hok. unfold comm_time, comm_closed.
  set (fwd := l :: r) in *.
  assert (HL : route_latency 0 fwd == total_latency fwd) by (rewrite route_latency_spec; lra).
  assert (HLnn : 0 <= total_latency fwd) by (apply total_latency_nonneg; exact Hok).
  pose proof (bandwidth_bound_spec l r Hok) as Hbb. fold fwd in Hbb.
  pose proof (beff_le_bwmin (crosstraffic c) l r back Hok) as Hle. fold fwd in Hle.
  set (bwmin := qmin_list (f_bw l) (map f_bw r)) in *.
  assert (Hbwmin : 0 < bwmin).
  { unfold bwmin. apply qmin_list_pos; [apply Hok; left; reflexivity|].
    intros x Hx. apply in_map_iff in Hx. destruct Hx as [k0 [<- Hk]]. apply Hok. right. exact Hk. }
  assert (Hub : Qlt_bool (bandwidth_bound (-1 # 1) fwd) 0 = false) by (apply Qlt_bool_false; lra).
  rewrite Hub.
  destruct (constraints_cons (crosstraffic c) l r back) as [k [ks Hcs]]. fold fwd in Hcs.
  assert (HB : beff (crosstraffic c) fwd back == qmin_list (ratio k) (map ratio ks)).
  { unfold beff. rewrite Hcs. cbn [map]. reflexivity. }
  rewrite Hcs. rewrite (gamma_active_proper c _ _ HL).
  set (B := beff (crosstraffic c) fwd back) in *.
  destruct (gamma_active c (total_latency fwd)) eqn:Eact.
  - (* the TCP-gamma bound is set *)
    set (vb := Qmin (bandwidth_bound (-1 # 1) fwd) (gamma c / (2 * route_latency 0 fwd))).
    destruct (solve1_spec k ks vb) as [v [Hv Hveq]]. rewrite Hv.
    unfold gamma_active in Eact. apply andb_true_iff in Eact. destruct Eact as [EL Eg].
    apply Qlt_bool_iff in EL. apply Qlt_bool_iff in Eg.
    assert (Hg : 0 < gamma c / (2 * total_latency fwd)) by (apply Qlt_shift_div_l; lra).
    assert (Hgeq : gamma c / (2 * route_latency 0 fwd) == gamma c / (2 * total_latency fwd)) by (rewrite HL; reflexivity).
    assert (Hvb : vb == Qmin bwmin (gamma c / (2 * total_latency fwd))) by (unfold vb; rewrite Hbb, Hgeq; reflexivity).
    assert (Hvbpos : 0 <= vb).
    { rewrite Hvb. destruct (Q.min_spec bwmin (gamma c / (2 * total_latency fwd))) as [[_ ->]|[_ ->]]; lra. }
    assert (E0 : Qle_bool 0 vb = true) by (apply Qle_bool_iff; exact Hvbpos).
    rewrite E0 in Hveq. rewrite <- HB in Hveq.
    assert (Hfin : v == Qmin B (gamma c / (2 * total_latency fwd))).
    { rewrite Hveq, Hvb. apply qmin3; exact Hle. }
    rewrite Hfin, HL. rewrite (Qmult_comm (bw_factor c size)). reflexivity.
  - (* no TCP-gamma bound: the variable is bounded by the smallest bandwidth only *)
    destruct (solve1_spec k ks (bandwidth_bound (-1 # 1) fwd)) as [v [Hv Hveq]]. rewrite Hv.
    assert (E0 : Qle_bool 0 (bandwidth_bound (-1 # 1) fwd) = true) by (apply Qle_bool_iff; lra).
    rewrite E0 in Hveq. rewrite <- HB in Hveq.
    assert (Hfin : v == B) by (rewrite Hveq, Hbb; apply Q.min_r; lra).
    rewrite Hfin, HL. rewrite (Qmult_comm (bw_factor c size)). reflexivity.
Qed.

(** the property text's formula, where it is what the code computes *)
Theorem comm_documented_partial : forall c size l r back,
  links_ok (l :: r) -> doc_side c size (l :: r) back = true ->
  comm_time c size (l :: r) back == comm_documented c size (l :: r) back.
Proof.
  intros c size l r back Hok Hside. rewrite comm_time_closed by exact Hok.
  unfold comm_closed, comm_documented, doc_side in *.
  set (L := total_latency (l :: r)) in *. set (B := beff (crosstraffic c) (l :: r) back) in *.
  set (g := gamma c / (2 * L)) in *. set (bwf := bw_factor c size) in *.
  destruct (gamma_active c L) eqn:Eact; cbn [negb orb] in Hside.
  - apply orb_true_iff in Hside. destruct Hside as [H1|H2].
    + apply Qeq_bool_iff in H1. rewrite H1. rewrite Qmult_1_r, Qmult_1_l. reflexivity.
    + apply andb_true_iff in H2. destruct H2 as [Ha Hb]. apply Qle_bool_iff in Ha. apply Qle_bool_iff in Hb.
      rewrite (Q.min_l B g Ha). rewrite (Q.min_l (B * bwf) g Hb). rewrite (Qmult_comm bwf B). reflexivity.
  - rewrite (Qmult_comm bwf B). reflexivity.
Qed.

(** and where it is not: LV08 defaults, one 10 GB/s link of latency 0.1 s, 1 GB, no cross-traffic (DESIGN 6) *)
Definition lv08 : netcfg :=
  {| lat_default := 1301 # 100; lat_tbl := []; bw_default := 97 # 100; bw_tbl := []; gamma := 4194304; crosstraffic := false |}.
Definition witness_link : flink := {| f_bw := 10000000000; f_lat := 1 # 10; f_pol := Shared; f_inback := true |}.
Lemma comm_documented_refuted :
  exists c size fwd back, links_ok fwd /\ fwd <> [] /\
    ~ comm_time c size fwd back == comm_documented c size fwd back.
Proof.
  exists lv08, 1000000000, [witness_link], []. split; [|split].
  - intros l [<-|[]]. cbn. split; [reflexivity|discriminate].
  - discriminate.
  - intro H. apply Qeq_bool_iff in H. vm_compute in H. discriminate.
Qed.

(** effective bandwidth in the two textbook situations *)
Lemma beff_no_crosstraffic l r back : beff false (l :: r) back == qmin_list (f_bw l) (map f_bw r).
Proof.
  unfold beff, constraints.
  assert (Hb : flat_map (back_constraints false) back = []) by (induction back; [reflexivity|assumption]).
  rewrite Hb, app_nil_r.
  assert (D1 : forall q, q / 1 == q) by (intro q; field).
  assert (H : forall fwd a, qmin_list a (map ratio (flat_map (fwd_constraints false) fwd)) == qmin_list a (map f_bw fwd)).
  { induction fwd as [|x fwd IH]; intro a; [reflexivity|]. cbn [flat_map map]. unfold fwd_constraints at 1.
    destruct (f_pol x); cbn [andb app map qmin_list]; unfold ratio at 1; cbn [fst snd];
      rewrite IH; apply qmin_list_proper; rewrite D1; reflexivity. }
  cbn [flat_map]. unfold fwd_constraints at 1.
  destruct (f_pol l); cbn [andb app map]; unfold ratio at 1; cbn [fst snd]; rewrite H; apply qmin_list_proper; apply D1.
Qed.

(** ** CPU, sleep, disk *)
Lemma div1 q : q / 1 == q. Proof. field. Qed.
Lemma inj_le x y : (x <= y)%Z -> inject_Z x <= inject_Z y.
Proof. intro H. rewrite <- Zle_Qle. exact H. Qed.

Lemma exec_value cores speed threads :
  (1 <= cores)%Z -> (1 <= threads)%Z -> 0 < speed ->
  solve1 [(inject_Z cores * speed, 1)] (inject_Z threads * speed) == inject_Z (Z.min threads cores) * speed.
Proof.
  intros Hc Ht Hs. destruct (solve1_spec (inject_Z cores * speed, 1) [] (inject_Z threads * speed)) as [v [Hv Hveq]].
  assert (Hc' : 1 <= inject_Z cores) by (change 1 with (inject_Z 1); apply inj_le; exact Hc).
  assert (Ht' : 1 <= inject_Z threads) by (change 1 with (inject_Z 1); apply inj_le; exact Ht).
  assert (E0 : Qle_bool 0 (inject_Z threads * speed) = true) by (apply Qle_bool_iff; nra).
  rewrite E0 in Hveq. cbn [map qmin_list] in Hveq. unfold ratio in Hveq; cbn [fst snd] in Hveq. rewrite div1 in Hveq.
  rewrite Hv, Hveq. destruct (Z.min_spec threads cores) as [[Hlt ->]|[Hle ->]].
  - assert (inject_Z threads <= inject_Z cores) by (apply inj_le; lia). apply Q.min_l. nra.
  - assert (inject_Z cores <= inject_Z threads) by (apply inj_le; lia). apply Q.min_r. nra.
Qed.

Theorem exec_time_spec : forall cores speed flops threads,
  (1 <= cores)%Z -> (1 <= threads)%Z -> 0 < speed ->
  exec_time cores speed flops threads == inject_Z threads * flops / (inject_Z (Z.min threads cores) * speed).
Proof.
  intros cores speed flops threads Hc Ht Hs. unfold exec_time. rewrite exec_value by assumption. reflexivity.
Qed.

Theorem exec_time_single : forall cores speed flops threads,
  (1 <= threads <= cores)%Z -> 0 < speed -> exec_time cores speed flops threads == flops / speed.
Proof.
  intros cores speed flops threads [Ht Hc] Hs. rewrite exec_time_spec by (assumption || lia).
  rewrite Z.min_l by lia.
  assert (Ht' : 1 <= inject_Z threads) by (change 1 with (inject_Z 1); apply inj_le; exact Ht).
  field. split; lra.
Qed.

Theorem sleep_time_spec : forall d, timing_precision <= d -> sleep_time d == d.
Proof.
  intros d Hd. unfold sleep_time. unfold timing_precision in *.
  assert (E : Qlt_bool 0 d = true) by (apply Qlt_bool_iff; lra). rewrite E. apply Q.max_l. exact Hd.
Qed.

Theorem io_time_spec : forall r w is_read size, 0 < r -> 0 < w ->
  io_time r w is_read size == size / (if is_read then r else w).
Proof.
  intros r w is_read size Hr Hw. unfold io_time.
  destruct (solve1_spec (Qmax r w, 1) [(if is_read then r else w, 1)] (-1 # 1)) as [v [Hv Hveq]].
  change (Qle_bool 0 (-1 # 1)) with false in Hveq. cbn [map qmin_list] in Hveq. unfold ratio in Hveq; cbn [fst snd] in Hveq.
  rewrite !div1 in Hveq. rewrite Hv, Hveq. assert (Hm : Qmin (Qmax r w) (if is_read then r else w) == (if is_read then r else w)).
  { apply Q.min_r. destruct is_read; [apply Q.le_max_l|apply Q.le_max_r]. }
  rewrite Hm. reflexivity.
Qed.

(** ** parallel task of pure computation *)
Definition part_ok (p : part) : Prop := 0 < p_speed p /\ (1 <= p_cores p)%Z.
Definition sf (p : part) : Q := p_speed p / p_flops p.
Definition fs (p : part) : Q := p_flops p / p_speed p.

Lemma cpu_bound_used ps : forall acc, cpu_bound acc ps = cpu_bound acc (used ps).
Proof.
  induction ps as [|p r IH]; intro acc; [reflexivity|]. unfold used in *. cbn [cpu_bound filter].
  destruct (Qlt_bool 0 (p_flops p)) eqn:E.
  - cbn [cpu_bound]. rewrite E. apply IH.
  - apply IH.
Qed.

Lemma used_flops ps p : In p (used ps) -> 0 < p_flops p /\ In p ps.
Proof. unfold used. intro H. apply filter_In in H. destruct H as [H1 H2]. apply Qlt_bool_iff in H2. split; assumption. Qed.

Lemma cpu_bound_some us : (forall p, In p us -> 0 < p_flops p) -> forall a b, a == b ->
  exists m, cpu_bound (Some a) us = Some m /\ m == qmin_list b (map sf us).
Proof.
  intro Hpos. induction us as [|p r IH]; intros a b Hab; cbn [cpu_bound map qmin_list].
  - exists a. split; [reflexivity|exact Hab].
  - assert (E : Qlt_bool 0 (p_flops p) = true) by (apply Qlt_bool_iff; apply Hpos; left; reflexivity).
    rewrite E. apply IH; [intros q Hq; apply Hpos; right; exact Hq|]. unfold sf. rewrite Hab. reflexivity.
Qed.

Lemma inv_min_max a x : 0 < a -> 0 < x -> / Qmin a x == Qmax (/ a) (/ x).
Proof.
  intros Ha Hx. destruct (Q.min_spec a x) as [[H1 E1]|[H1 E1]]; rewrite E1.
  - symmetry. apply Q.max_l. apply Qlt_le_weak. apply -> Qinv_lt_contravar; assumption.
  - symmetry. apply Q.max_r. apply Qle_lteq in H1. destruct H1 as [H1|H1].
    + apply Qlt_le_weak. apply -> Qinv_lt_contravar; assumption.
    + rewrite H1. apply Qle_refl.
Qed.

Lemma inv_qmin_list us : (forall p, In p us -> 0 < p_flops p /\ 0 < p_speed p) -> forall a a', 0 < a -> a' == / a ->
  / qmin_list a (map sf us) == qmax_list a' (map fs us).
Proof.
  induction us as [|p r IH]; intros Hok a a' Ha Haa; cbn [map qmin_list qmax_list]; [rewrite Haa; reflexivity|].
  assert (Hp : 0 < p_flops p /\ 0 < p_speed p) by (apply Hok; left; reflexivity). destruct Hp as [Hf Hs].
  assert (Hsf : 0 < sf p) by (unfold sf; apply Qlt_shift_div_l; lra).
  apply IH.
  - intros q Hq. apply Hok. right. exact Hq.
  - destruct (Q.min_spec a (sf p)) as [[_ ->]|[_ ->]]; assumption.
  - rewrite inv_min_max by assumption. rewrite Haa. unfold sf, fs.
    assert (E : / (p_speed p / p_flops p) == p_flops p / p_speed p) by (field; split; lra).
    rewrite E. reflexivity.
Qed.

Theorem ptask_time_spec : forall ps, (forall p, In p ps -> part_ok p) -> ptask_time ps == ptask_spec ps.
Proof.
  intros ps Hok. unfold ptask_time, ptask_spec. rewrite cpu_bound_used.
  assert (Hu : forall p, In p (used ps) -> 0 < p_flops p /\ 0 < p_speed p /\ (1 <= p_cores p)%Z).
  { intros p Hp. apply used_flops in Hp. destruct Hp as [Hf Hin]. destruct (Hok p Hin) as [Hs Hc]. repeat split; assumption. }
  destruct (used ps) as [|p us]; [reflexivity|].
  cbn [cpu_bound map]. assert (Hf : 0 < p_flops p) by (apply Hu; left; reflexivity).
  assert (Hs : 0 < p_speed p) by (apply Hu; left; reflexivity).
  assert (E : Qlt_bool 0 (p_flops p) = true) by (apply Qlt_bool_iff; exact Hf). rewrite E.
  destruct (cpu_bound_some us) with (a := p_speed p / p_flops p) (b := sf p) as [m [Hm Hmq]];
    [intros q Hq; apply Hu; right; exact Hq|reflexivity|].
  rewrite Hm.
  set (c0 := (inject_Z (p_cores p) * p_speed p, p_flops p)).
  set (cs := map (fun p0 : part => (inject_Z (p_cores p0) * p_speed p0, p_flops p0)) us).
  destruct (solve1_spec c0 cs m) as [v [Hv Hveq]]. rewrite Hv.
  assert (Hsfpos : 0 < sf p) by (unfold sf; apply Qlt_shift_div_l; lra).
  assert (Hmpos : 0 < m).
  { rewrite Hmq. apply qmin_list_pos; [exact Hsfpos|]. intros x Hx. apply in_map_iff in Hx. destruct Hx as [q [<- Hq]].
    assert (Hq' : 0 < p_flops q /\ 0 < p_speed q /\ (1 <= p_cores q)%Z) by (apply Hu; right; exact Hq).
    unfold sf. apply Qlt_shift_div_l; lra. }
  assert (E0 : Qle_bool 0 m = true) by (apply Qle_bool_iff; lra). rewrite E0 in Hveq.
  (* every host constraint allows at least speed/flops, which is at least the bound *)
  assert (Hratio : forall q, 0 < p_flops q -> 0 < p_speed q -> (1 <= p_cores q)%Z -> sf q <= ratio (inject_Z (p_cores q) * p_speed q, p_flops q)).
  { intros q Hfq Hsq Hcq. unfold sf, ratio; cbn [fst snd].
    assert (Hc' : 1 <= inject_Z (p_cores q)) by (change 1 with (inject_Z 1); apply inj_le; exact Hcq).
    apply Qle_shift_div_l; [exact Hfq|].
    assert (Eq : p_speed q / p_flops q * p_flops q == p_speed q) by (field; lra). rewrite Eq. nra. }
  assert (Hmin : m <= qmin_list (ratio c0) (map ratio cs)).
  { apply qmin_list_glb.
    - unfold c0. apply Qle_trans with (y := sf p); [rewrite Hmq; apply qmin_list_le_acc|].
      apply Hratio; try assumption. apply Hu. left. reflexivity.
    - intros x Hx. unfold cs in Hx. rewrite map_map in Hx. apply in_map_iff in Hx. destruct Hx as [q [<- Hq]].
      assert (Hq' : 0 < p_flops q /\ 0 < p_speed q /\ (1 <= p_cores q)%Z) by (apply Hu; right; exact Hq).
      destruct Hq' as [H1 [H2 H3]].
      apply Qle_trans with (y := sf q); [|apply Hratio; assumption].
      rewrite Hmq. apply qmin_list_le_in. apply in_map. exact Hq. }
  assert (Hfin : v == m) by (rewrite Hveq; apply Q.min_l; exact Hmin).
  rewrite Hfin, Hmq. unfold Qdiv. rewrite Qmult_1_l.
  apply inv_qmin_list.
  - intros q Hq. assert (Hq' : 0 < p_flops q /\ 0 < p_speed q /\ (1 <= p_cores q)%Z) by (apply Hu; right; exact Hq).
    split; apply Hq'.
  - exact Hsfpos.
  - unfold sf, fs. field. split; lra.
Qed.

(* the largest ratio really is the largest: it dominates every part and is attained *)
Lemma qmax_list_in l : forall a, In (qmax_list a l) (a :: l) \/ exists x, In x (a :: l) /\ qmax_list a l == x.
Proof.
  induction l as [|y r IH]; intro a; cbn [qmax_list]; [left; left; reflexivity|].
  right. destruct (IH (Qmax a y)) as [H|[x [Hx Hq]]].
  - destruct H as [H|H].
    + destruct (Q.max_spec a y) as [[_ E]|[_ E]]; [exists y|exists a]; (split; [cbn; tauto|rewrite <- H; exact E]).
    + exists (qmax_list (Qmax a y) r). split; [right; right; exact H|reflexivity].
  - destruct Hx as [Hx|Hx].
    + destruct (Q.max_spec a y) as [[_ E]|[_ E]]; [exists y|exists a]; (split; [cbn; tauto|rewrite Hq, <- Hx; exact E]).
    + exists x. split; [right; right; exact Hx|exact Hq].
Qed.
Lemma qmax_list_ge_in l : forall a x, In x l -> x <= qmax_list a l.
Proof.
  induction l as [|y r IH]; intros a x Hin; [inversion Hin|]. cbn [qmax_list]. destruct Hin as [->|Hin].
  - pose proof (qmax_list_ge_acc r (Qmax a x)). pose proof (Q.le_max_r a x). lra.
  - apply IH, Hin.
Qed.

Theorem ptask_spec_is_max : forall ps p, In p ps -> 0 < p_flops p -> p_flops p / p_speed p <= ptask_spec ps.
Proof.
  intros ps p Hin Hf. unfold ptask_spec.
  assert (Hu : In p (used ps)) by (unfold used; apply filter_In; split; [exact Hin|apply Qlt_bool_iff; exact Hf]).
  assert (Hm : In (p_flops p / p_speed p) (map (fun q => p_flops q / p_speed q) (used ps))) by (apply (in_map (fun q => p_flops q / p_speed q)); exact Hu).
  destruct (map (fun q => p_flops q / p_speed q) (used ps)) as [|x r]; [inversion Hm|].
  destruct Hm as [->|Hm]; [apply qmax_list_ge_acc|apply qmax_list_ge_in; exact Hm].
Qed.
