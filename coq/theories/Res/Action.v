(** Res/Action.v — the remaining-work bookkeeping of one resource action (model only, no proofs).

    Mirrors, for ONE action, over exact rationals:
      - FULL : Model::next_occurring_event_full + CpuModel/NetworkCm02Model::update_actions_state_full
               (Action::update_remains = double_update, finish when remains <= 0)
      - LAZY : Model::next_occurring_event_lazy + Cpu/NetworkCm02Action::update_remains_lazy
               (last_update_, last_value_, date in the action heap) + update_actions_state_lazy (pop at the heap date)
               + Action::suspend/resume (suspend = a touched segment of rate 0: update_remains_lazy then no heap entry)
      - max_duration (sleep actions): FULL decrements max_duration_ by every delta, LAZY uses start_time + max_duration.
    The rates are an oracle: a history is a list of segments (duration, rate, touched) = what the sharing solver gives to
    this action over consecutive intervals; [touched] says that the action is in the modified set at the start of the
    segment (selective update puts it there at least whenever its rate changed; being there more often must be harmless).
    Segment boundaries are the dates at which the engine stops for any reason (other actions' events, timers, profile
    events), so a history also fixes the sequence of engine steps seen by the FULL algorithm.
    [eps] is the precision of double_update (sg_precision_workamount * sg_precision_timing); theorems are at eps = 0. *)
From Coq Require Import QArith Qminmax Qabs List Bool ZArith.
Import ListNotations.
Local Open Scope Q_scope.

Record seg := mkseg { sd : Q; sr : Q; stouched : bool }.

Definition Qltb (x y : Q) : bool := negb (Qle_bool y x).

(** double_update(&x, v, eps) *)
Definition dupd (eps x v : Q) : Q := let y := x - v in if Qltb y eps then 0 else y.

(** ------------------------------------------------------------------------------------------------ FULL *)
(** next_occurring_event_full restricted to this action: time to completion at the current rate *)
Definition ttc (rem r : Q) : option Q :=
  if Qltb 0 r then Some (if Qltb 0 rem then rem / r else 0) else None.

(** One history = the engine steps.  In a segment the engine advances by min(segment, own time-to-completion);
    update_actions_state_full then does remains -= rate*delta and finishes the action when remains <= 0.
    When the action's own event is the next one, the step necessarily finishes it (ActionProofs.full_own_event_finishes);
    the [None] of that branch is therefore unreachable. *)
Fixpoint full_run (eps now rem : Q) (h : list seg) : option Q :=
  match h with
  | [] => None
  | s :: h' =>
      let whole :=
        let rem' := dupd eps rem (sr s * sd s) in
        if Qle_bool rem' 0 then Some (now + sd s) else full_run eps (now + sd s) rem' h' in
      match ttc rem (sr s) with
      | Some d =>
          if Qle_bool d (sd s)
          then let rem' := dupd eps rem (sr s * d) in
               if Qle_bool rem' 0 then Some (now + d) else None
          else whole
      | None => whole
      end
  end.

(** the values of remains_ after each engine step (what get_remaining() shows at each on_time_advance under FULL) *)
Fixpoint full_rems (eps rem : Q) (h : list seg) : list Q :=
  match h with
  | [] => []
  | s :: h' =>
      let whole :=
        let rem' := dupd eps rem (sr s * sd s) in
        if Qle_bool rem' 0 then [0] else rem' :: full_rems eps rem' h' in
      match ttc rem (sr s) with
      | Some d => if Qle_bool d (sd s) then [0] else whole
      | None => whole
      end
  end.

(** ------------------------------------------------------------------------------------------------ LAZY *)
Record lstate := mkl { l_rem : Q; l_lu : Q; l_lv : Q; l_heap : option Q }.

(** Cpu/NetworkCm02Action::update_remains_lazy(now) followed by set_last_value(get_rate()) *)
Definition lazy_update (eps now : Q) (st : lstate) (r : Q) : Q * Q * Q :=
  let delta := now - l_lu st in
  let rem' := if Qltb 0 (l_rem st) then dupd eps (l_rem st) (l_lv st * delta) else l_rem st in
  (rem', now, r).

(** the date next_occurring_event_lazy puts in the heap (share > 0), none when the action gets nothing (suspended) *)
Definition lazy_date (now rem r : Q) : option Q :=
  if Qltb 0 r then Some (now + (if Qltb 0 rem then rem / r else 0)) else None.

Definition lazy_touch (eps now : Q) (st : lstate) (r : Q) : lstate :=
  let '(rem', lu', lv') := lazy_update eps now st r in mkl rem' lu' lv' (lazy_date now rem' r).

Fixpoint lazy_run (eps now : Q) (st : lstate) (h : list seg) : option Q :=
  match h with
  | [] => None
  | s :: h' =>
      let st1 := if stouched s then lazy_touch eps now st (sr s) else st in
      match l_heap st1 with
      | Some date => if Qle_bool date (now + sd s) then Some date (* update_actions_state_lazy pops it at that date *)
                     else lazy_run eps (now + sd s) st1 h'
      | None => lazy_run eps (now + sd s) st1 h'
      end
  end.

Definition lazy_init (cost t0 : Q) : lstate := mkl cost t0 0 None.

(** what Action::get_remains() returns under LAZY at date [now] (it calls update_remains_lazy(now) first) *)
Definition lazy_view (eps now : Q) (st : lstate) : Q :=
  let '(rem', _, _) := lazy_update eps now st (l_lv st) in rem'.

(** get_remains() at the end of every segment, until the action completes *)
Fixpoint lazy_rems (eps now : Q) (st : lstate) (h : list seg) : list Q :=
  match h with
  | [] => []
  | s :: h' =>
      let st1 := if stouched s then lazy_touch eps now st (sr s) else st in
      let continue := lazy_view eps (now + sd s) st1 :: lazy_rems eps (now + sd s) st1 h' in
      match l_heap st1 with
      | Some date => if Qle_bool date (now + sd s) then [0] (* Action::finish sets remains to 0 *) else continue
      | None => continue
      end
  end.

(** ------------------------------------------------------------------------------------------------ max_duration *)
(** a sleep: penalty 0, never any rate; FULL: update_max_duration(delta) at each step, next event = max_duration left;
    LAZY: the heap holds start_time + max_duration. [steps] are the segment lengths. *)
Fixpoint full_sleep (eps now md : Q) (steps : list Q) : option Q :=
  match steps with
  | [] => None
  | d :: r =>
      if Qle_bool md d then (* own deadline is the next event: delta = md *)
        let md' := dupd eps md md in if Qle_bool md' 0 then Some (now + md) else None
      else let md' := dupd eps md d in
           if Qle_bool md' 0 then Some (now + d) else full_sleep eps (now + d) md' r
  end.
Fixpoint lazy_sleep (now date : Q) (steps : list Q) : option Q :=
  match steps with
  | [] => None
  | d :: r => if Qle_bool date (now + d) then Some date else lazy_sleep (now + d) date r
  end.

(** ------------------------------------------------------------------------------------------------ specification *)
(** work delivered by the history during its first [x] time units: the integral of the piecewise-constant rate *)
Fixpoint integral (h : list seg) (x : Q) : Q :=
  match h with
  | [] => 0
  | s :: h' => if Qle_bool x (sd s) then sr s * x else sr s * sd s + integral h' (x - sd s)
  end.

Definition seg_ok (s : seg) : Prop := 0 <= sd s /\ 0 <= sr s.
Definition wf (h : list seg) : Prop := Forall seg_ok h.
(** selective update reports the action whenever its rate changed *)
Fixpoint touch_ok (prev : Q) (h : list seg) : Prop :=
  match h with
  | [] => True
  | s :: h' => (stouched s = true \/ sr s == prev) /\ touch_ok (sr s) h'
  end.

Fixpoint wf_b (h : list seg) : bool :=
  match h with [] => true | s :: h' => Qle_bool 0 (sd s) && Qle_bool 0 (sr s) && wf_b h' end.
Fixpoint touch_ok_b (prev : Q) (h : list seg) : bool :=
  match h with
  | [] => true
  | s :: h' => (stouched s || Qeq_bool (sr s) prev) && touch_ok_b (sr s) h'
  end.

(** a list of remaining-work values never increases and never goes below zero *)
Fixpoint nonincr (prev : Q) (l : list Q) : Prop :=
  match l with [] => True | x :: l' => x <= prev /\ 0 <= x /\ nonincr x l' end.

Definition oQeq (a b : option Q) : Prop :=
  match a, b with Some x, Some y => x == y | None, None => True | _, _ => False end.

(** ------------------------------------------------------------------------------------------------ observation oracle *)
(** One sample per engine step of a real run: length of the step, get_remaining() after it, rate during it. *)
Record sample := mksample { s_dt : Q; s_rem : Q; s_rate : Q }.

(** step-wise conservation with absolute tolerance [tol] per step, monotone and non-negative remaining *)
Fixpoint trace_ok (tol prev : Q) (l : list sample) : bool :=
  match l with
  | [] => true
  | s :: l' =>
      Qle_bool (s_rem s) prev && Qle_bool 0 (s_rem s) && Qle_bool 0 (s_dt s) &&
      Qle_bool (Qabs (prev - s_rem s - s_rate s * s_dt s)) tol && trace_ok tol (s_rem s) l'
  end.
(** index (from 0) of the first offending sample, with the reason: 1 increase, 2 negative, 3 step not conserved *)
Fixpoint trace_bad (tol prev : Q) (l : list sample) (i : Z) : option (Z * Z) :=
  match l with
  | [] => None
  | s :: l' =>
      if negb (Qle_bool (s_rem s) prev) then Some (i, 1%Z)
      else if negb (Qle_bool 0 (s_rem s) && Qle_bool 0 (s_dt s)) then Some (i, 2%Z)
      else if negb (Qle_bool (Qabs (prev - s_rem s - s_rate s * s_dt s)) tol) then Some (i, 3%Z)
      else trace_bad tol (s_rem s) l' (i + 1)%Z
  end.
Fixpoint work_sum (l : list sample) : Q :=
  match l with [] => 0 | s :: l' => s_rate s * s_dt s + work_sum l' end.
Fixpoint last_rem (prev : Q) (l : list sample) : Q :=
  match l with [] => prev | s :: l' => last_rem (s_rem s) l' end.
Fixpoint tol_sum (tol : Q) (l : list sample) : Q := match l with [] => 0 | _ :: l' => tol + tol_sum tol l' end.
Fixpoint rems_of (l : list sample) : list Q := match l with [] => [] | s :: l' => s_rem s :: rems_of l' end.

(** ------------------------------------------------------------------------------------------------ I/O for the drivers *)
Definition mkQ (n d : Z) : Q := match d with Zpos p => Qmake n p | _ => Qmake n 1 end.
Definition outQ (q : Q) : list Z := let r := Qred q in [Qnum r; Zpos (Qden r)].
Definition outO (o : option Q) : list Z := match o with Some q => 1%Z :: outQ q | None => [0%Z; 0%Z; 1%Z] end.

Fixpoint take_segs (n : nat) (l : list Z) : list seg * list Z :=
  match n with
  | O => ([], l)
  | S n' => match l with
            | dn :: dd :: rn :: rd :: t :: rest =>
                let '(ss, rest') := take_segs n' rest in (mkseg (mkQ dn dd) (mkQ rn rd) (Z.eqb t 1) :: ss, rest')
            | _ => ([], l)
            end
  end.

(** input: eps_n eps_d cost_n cost_d t0_n t0_d n (dur_n dur_d rate_n rate_d touched)*n
    output: wf touch_ok | FULL date (flag num den) | LAZY date (flag num den) *)
Definition run_c19_dates (inp : list Z) : list Z :=
  match inp with
  | en :: ed :: cn :: cd :: tn :: td :: n :: rest =>
      let eps := mkQ en ed in
      let cost := mkQ cn cd in
      let t0 := mkQ tn td in
      let '(h, _) := take_segs (Z.to_nat n) rest in
      [if wf_b h then 1%Z else 0%Z; if touch_ok_b 0 h then 1%Z else 0%Z]
        ++ outO (full_run eps t0 cost h) ++ outO (lazy_run eps t0 (lazy_init cost t0) h)
  | _ => []
  end.

Fixpoint take_samples (n : nat) (l : list Z) : list sample * list Z :=
  match n with
  | O => ([], l)
  | S n' => match l with
            | a :: b :: c :: d :: e :: f :: rest =>
                let '(ss, rest') := take_samples n' rest in (mksample (mkQ a b) (mkQ c d) (mkQ e f) :: ss, rest')
            | _ => ([], l)
            end
  end.

(** input: tol_n tol_d cost_n cost_d n (dt_n dt_d rem_n rem_d rate_n rate_d)*n
    output: ok(1/0) bad_index reason | last remaining (num den) | sum of rate*dt (num den) *)
Definition run_c21_trace (inp : list Z) : list Z :=
  match inp with
  | tn :: td :: cn :: cd :: n :: rest =>
      let tol := mkQ tn td in
      let cost := mkQ cn cd in
      let '(l, _) := take_samples (Z.to_nat n) rest in
      (if trace_ok tol cost l then [1%Z; 0%Z; 0%Z]
       else match trace_bad tol cost l 0 with Some (i, why) => [0%Z; i; why] | None => [0%Z; (-1)%Z; 0%Z] end)
        ++ outQ (last_rem cost l) ++ outQ (work_sum l)
  | _ => []
  end.
