(** C22 — proofs about SGV.Res.Profile. *)
From Coq Require Import QArith Qminmax Lqa Setoid Morphisms Sorting.Sorted.
From SGV Require Import Base.Tactics Res.NetFormula Res.NetFormulaProofs Res.Profile.
Local Open Scope Q_scope.

(* (date, value) pairs equal up to == on dates *)
Definition evq (x y : pt) : Prop := fst x == fst y /\ snd x = snd y.
Definition shift (o : Q) (p : pt) : pt := (o + fst p, snd p).

(* firing the deltas of [pts] (computed w.r.t. [last]) from [start] yields the dates of [pts] moved by start - last *)
Lemma run_iter_deltas : forall pts start last o, start - last == o ->
  Forall2 evq (fst (run_iter start (deltas last pts))) (map (shift o) pts) /\
  snd (run_iter start (deltas last pts)) == o + last_date last pts.
Proof.
  induction pts as [|[d v] r IH]; intros start last o Ho; cbn [deltas run_iter map last_date fst snd].
  - split; [constructor|lra].
  - pose proof (Qred_correct (start + (d - last))) as Hred.
    destruct (run_iter (Qred (start + (d - last))) (deltas d r)) as [l e] eqn:E. cbn [fst snd].
    specialize (IH (Qred (start + (d - last))) d o). rewrite E in IH. cbn [fst snd] in IH.
    destruct IH as [I1 I2]; [lra|]. split; [|exact I2].
    constructor; [|exact I1]. unfold evq, shift; cbn [fst snd]. split; [lra|reflexivity].
Qed.

Lemma run_iter_start_proper : forall ds s1 s2, s1 == s2 ->
  Forall2 evq (fst (run_iter s1 ds)) (fst (run_iter s2 ds)) /\ snd (run_iter s1 ds) == snd (run_iter s2 ds).
Proof.
  induction ds as [|[d v] r IH]; intros s1 s2 H; cbn [run_iter fst snd]; [split; [constructor|exact H]|].
  pose proof (Qred_correct (s1 + d)) as R1. pose proof (Qred_correct (s2 + d)) as R2.
  destruct (run_iter (Qred (s1 + d)) r) as [l1 e1] eqn:E1. destruct (run_iter (Qred (s2 + d)) r) as [l2 e2] eqn:E2. cbn [fst snd].
  specialize (IH (Qred (s1 + d)) (Qred (s2 + d))). rewrite E1, E2 in IH. cbn [fst snd] in IH. destruct IH as [I1 I2]; [lra|].
  split; [|exact I2]. constructor; [|exact I1]. unfold evq; cbn [fst snd]. split; [lra|reflexivity].
Qed.

Lemma evq_trans : forall l1 l2 l3, Forall2 evq l1 l2 -> Forall2 evq l2 l3 -> Forall2 evq l1 l3.
Proof.
  induction l1 as [|x l1 IH]; intros l2 l3 H12 H23.
  - inversion H12; subst. inversion H23; subst. constructor.
  - inversion H12 as [|x' y l l' Hxy Hr]; subst. inversion H23 as [|y' z m m' Hyz Hr']; subst.
    constructor; [|eapply IH; eassumption].
    destruct Hxy as [A1 A2]. destruct Hyz as [B1 B2]. unfold evq. split; [lra|congruence].
Qed.

(* a bumped first delta = the same deltas fired from a start moved by the loop delay (non-empty pattern) *)
Lemma run_iter_bump ld d v r start :
  Forall2 evq (fst (run_iter start (bump ld ((d, v) :: r)))) (fst (run_iter (start + ld) ((d, v) :: r))) /\
  snd (run_iter start (bump ld ((d, v) :: r))) == snd (run_iter (start + ld) ((d, v) :: r)).
Proof.
  cbn [bump run_iter].
  pose proof (Qred_correct (start + (d + ld))) as R1. pose proof (Qred_correct (start + ld + d)) as R2.
  destruct (run_iter (Qred (start + (d + ld))) r) as [l1 e1] eqn:E1. destruct (run_iter (Qred (start + ld + d)) r) as [l2 e2] eqn:E2.
  cbn [fst snd]. pose proof (run_iter_start_proper r (Qred (start + (d + ld))) (Qred (start + ld + d))) as H.
  rewrite E1, E2 in H. cbn [fst snd] in H. destruct H as [H1 H2]; [lra|].
  split; [|exact H2]. constructor; [|exact H1]. unfold evq; cbn [fst snd]. split; [lra|reflexivity].
Qed.

Fixpoint spec_iters (period : Q) (pts : list pt) (j : nat) (n : nat) : list (list pt) :=
  match n with O => [] | S n' => map (shift (inject_Z (Z.of_nat j) * period)) pts :: spec_iters period pts (S j) n' end.

Lemma inject_S j : inject_Z (Z.of_nat (S j)) == inject_Z (Z.of_nat j) + 1.
Proof. rewrite Nat2Z.inj_succ. unfold Z.succ. rewrite inject_Z_plus. reflexivity. Qed.

(* iteration j fires its k-th event at j*P + d_k *)
Lemma run_iters_spec period p0 rest : forall (n j : nat) (first : bool) (start : Q),
  (if first then start else start + loop_delay period (p0 :: rest)) == inject_Z (Z.of_nat j) * period ->
  Forall2 (Forall2 evq) (run_iters period (p0 :: rest) first n start) (spec_iters period (p0 :: rest) j n).
Proof.
  induction n as [|n IH]; intros j first start Hs; cbn [run_iters spec_iters]; [constructor|].
  set (pts := p0 :: rest) in *.
  set (o := inject_Z (Z.of_nat j) * period) in *.
  assert (Hcore : forall s, s == o ->
            Forall2 evq (fst (run_iter s (deltas 0 pts))) (map (shift o) pts) /\ snd (run_iter s (deltas 0 pts)) == o + last_date 0 pts).
  { intros s Hso. apply run_iter_deltas. lra. }
  assert (Hnext : forall e, e == o + last_date 0 pts -> e + loop_delay period pts == inject_Z (Z.of_nat (S j)) * period).
  { intros e He. unfold loop_delay. rewrite inject_S. unfold o in He. lra. }
  destruct first.
  - destruct (run_iter start (deltas 0 pts)) as [l e] eqn:E. destruct (Hcore start Hs) as [H1 H2]. rewrite E in H1, H2. cbn [fst snd] in *.
    constructor; [exact H1|]. apply (IH (S j) false e). apply Hnext. exact H2.
  - destruct (Hcore (start + loop_delay period pts) Hs) as [H1 H2].
    assert (HB : Forall2 evq (fst (run_iter start (bump (loop_delay period pts) (deltas 0 pts)))) (fst (run_iter (start + loop_delay period pts) (deltas 0 pts))) /\
                 snd (run_iter start (bump (loop_delay period pts) (deltas 0 pts))) == snd (run_iter (start + loop_delay period pts) (deltas 0 pts))).
    { unfold pts. destruct p0 as [d0 v0]. cbn [deltas]. apply run_iter_bump. }
    destruct HB as [B1 B2].
    destruct (run_iter start (bump (loop_delay period pts) (deltas 0 pts))) as [l e] eqn:E. cbn [fst snd] in *.
    constructor; [eapply evq_trans; eassumption|].
    apply (IH (S j) false e). apply Hnext. lra.
Qed.

Theorem event_dates : forall period p0 rest n,
  Forall2 (Forall2 evq) (run_iters period (p0 :: rest) true n 0) (spec_iters period (p0 :: rest) 0 n).
Proof. intros. apply run_iters_spec. change (inject_Z (Z.of_nat 0)) with 0. ring. Qed.

(* the value seen at date t is the value of the last event at a date <= t (dates sorted) *)
Theorem value_at_spec : forall evs init t,
  StronglySorted (fun x y : pt => fst x <= fst y) evs ->
  ((forall e, In e evs -> t < fst e) /\ value_at init evs t = init) \/
  exists pre e post, evs = pre ++ e :: post /\ fst e <= t /\ (forall x, In x post -> t < fst x) /\ value_at init evs t = snd e.
Proof.
  induction evs as [|[d v] r IH]; intros init t Hs; cbn [value_at].
  - left. split; [intros e []|reflexivity].
  - inversion Hs as [|x l Hr Hall]; subst. destruct (Qle_bool d t) eqn:E.
    + apply Qle_bool_iff in E. right. destruct (IH v t Hr) as [[Hn Hv]|[pre [e [post [He [Hle [Hpost Hv]]]]]]].
      * exists [], (d, v), r. repeat split; [exact E|exact Hn|exact Hv].
      * exists ((d, v) :: pre), e, post. subst r. repeat split; assumption.
    + apply Qle_bool_false in E. left. split; [|reflexivity].
      intros e [<-|He]; [exact E|]. rewrite Forall_forall in Hall. specialize (Hall e He). cbn in Hall. cbn. lra.
Qed.
