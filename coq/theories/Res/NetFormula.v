(** C20 — an isolated activity: what the resource models compute, step by step (no proofs here).

    Mirrors, over exact rationals:
      NetworkCm02Model::communicate -> comm_action_set_bounds -> comm_action_set_variable ->
        comm_action_expand_constraints -> lmm solve with ONE variable -> completion date        (network_cm02.cpp)
      FactorSet::operator()(size)                                                                (FactorSet.cpp)
      CpuCas01::execution_start / HostCLM03Model::execute_thread / CpuCas01::sleep               (cpu_cas01.cpp)
      DiskS19::io_start                                                                          (disk_s19.cpp)
      L07Action::L07Action / update_bound / calculate_cpu_bound (computation only)               (ptask_L07.cpp)
    Scope: one activity alone on its resources; the links of a route are pairwise distinct (a link used in both
    directions is described by the flag [f_inback]); no user rate; no WIFI links. *)
From Coq Require Import QArith Qminmax.
From SGV Require Import Base.Tactics.
Local Open Scope Q_scope.

Definition Qlt_bool (a b : Q) : bool := negb (Qle_bool b a).

(** * The max-min system with a single variable
    constraints = (bound, consumption weight), weight > 0; [vb] = the variable's bound, negative = none.
    maxmin.cpp / fair_bottleneck.cpp on one variable: the variable gets the smallest bound/weight, capped by [vb]. *)
Fixpoint min_share (acc : option Q) (cs : list (Q * Q)) : option Q :=
  match cs with
  | [] => acc
  | (b, w) :: r => let u := b / w in
                   min_share (Some (match acc with None => u | Some a => if Qlt_bool u a then u else a end)) r
  end.

Definition solve1 (cs : list (Q * Q)) (vb : Q) : Q :=
  match min_share None cs with
  | None => vb
  | Some a => if Qle_bool 0 vb && Qlt_bool vb a then vb else a
  end.

(** * Network *)
Inductive policy := Shared | Fatpipe | SplitDuplex.
Record flink := { f_bw : Q; f_lat : Q; f_pol : policy; f_inback : bool }.   (* link of the forward route *)
Record blink := { b_bw : Q; b_fat : bool }.                                  (* link used by the back route only *)

Record netcfg := {
  lat_default : Q; lat_tbl : list (Z * Q);      (* network/latency-factor : default value, sorted (threshold, value) *)
  bw_default : Q;  bw_tbl : list (Z * Q);       (* network/bandwidth-factor *)
  gamma : Q;                                    (* network/TCP-gamma *)
  crosstraffic : bool }.

(* FactorSet::operator()(size): scan the sorted thresholds; [prev] = value of the previous chunk *)
Fixpoint factor_scan (prev : option Q) (tbl : list (Z * Q)) (dflt size : Q) : Q :=
  match tbl with
  | [] => match prev with Some v => v | None => dflt end
  | (thr, v) :: r => if Qle_bool size (inject_Z thr)
                     then match prev with Some p => p | None => dflt end
                     else factor_scan (Some v) r dflt size
  end.
Definition lat_factor (c : netcfg) (size : Q) := factor_scan None (lat_tbl c) (lat_default c) size.
Definition bw_factor (c : netcfg) (size : Q) := factor_scan None (bw_tbl c) (bw_default c) size.

(* get_global_route: latency accumulated along the route *)
Fixpoint route_latency (acc : Q) (r : list flink) : Q :=
  match r with [] => acc | l :: r' => route_latency (acc + f_lat l) r' end.

(* comm_action_set_bounds: minimum bandwidth with the -1 sentinel *)
Fixpoint bandwidth_bound (bb : Q) (r : list flink) : Q :=
  match r with
  | [] => bb
  | l :: r' => bandwidth_bound (if Qeq_bool bb (-1 # 1) || Qlt_bool (f_bw l) bb then f_bw l else bb) r'
  end.

Definition xw : Q := 5 # 100.   (* weight of the backward flow *)

(* comm_action_expand_constraints (+ System::expand adding up / max-ing the weight when the constraint is reused) *)
Definition fwd_constraints (ct : bool) (l : flink) : list (Q * Q) :=
  match f_pol l with
  | Shared => [(f_bw l, if ct && f_inback l then 1 + xw else 1)]
  | Fatpipe => [(f_bw l, if ct && f_inback l then Qmax 1 xw else 1)]
  | SplitDuplex => (f_bw l, 1) :: (if ct && f_inback l then [(f_bw l, xw)] else [])
  end.
Definition back_constraints (ct : bool) (b : blink) : list (Q * Q) := if ct then [(b_bw b, xw)] else [].
Definition constraints (ct : bool) (fwd : list flink) (back : list blink) : list (Q * Q) :=
  flat_map (fwd_constraints ct) fwd ++ flat_map (back_constraints ct) back.

Definition gamma_active (c : netcfg) (lat : Q) : bool := Qlt_bool 0 lat && Qlt_bool 0 (gamma c).

Definition comm_time (c : netcfg) (size : Q) (fwd : list flink) (back : list blink) : Q :=
  let latency := route_latency 0 fwd in
  let bwf := bw_factor c size in
  let user_bound := bandwidth_bound (-1 # 1) fwd in                (* rate = -1/bwf is never >= 0 *)
  let lat_current := latency in
  let latency_ := latency * lat_factor c size in
  let gbound := gamma c / (2 * lat_current) in
  let vb := if Qlt_bool user_bound 0
            then (if gamma_active c lat_current then gbound else -1 # 1)
            else (if gamma_active c lat_current then Qmin user_bound gbound else user_bound) in
  let value := solve1 (constraints (crosstraffic c) fwd back) vb in
  let rate := value * bwf in                                       (* Action::get_rate = value * factor_ *)
  latency_ + size / rate.

(** the closed form the code amounts to, and the formula of the property text *)
Fixpoint qmin_list (a : Q) (l : list Q) : Q := match l with [] => a | x :: r => qmin_list (Qmin a x) r end.
Fixpoint qmax_list (a : Q) (l : list Q) : Q := match l with [] => a | x :: r => qmax_list (Qmax a x) r end.
Definition ratio (c : Q * Q) : Q := fst c / snd c.

(* effective bottleneck bandwidth, cross-traffic included (0 for an empty route: excluded by the theorems) *)
Definition beff (ct : bool) (fwd : list flink) (back : list blink) : Q :=
  match map ratio (constraints ct fwd back) with [] => 0 | x :: r => qmin_list x r end.
Definition total_latency (fwd : list flink) : Q := fold_right (fun l s => f_lat l + s) 0 fwd.

Definition comm_closed (c : netcfg) (size : Q) (fwd : list flink) (back : list blink) : Q :=
  let L := total_latency fwd in
  let B := beff (crosstraffic c) fwd back in
  L * lat_factor c size + size / (bw_factor c size * (if gamma_active c L then Qmin B (gamma c / (2 * L)) else B)).

Definition comm_documented (c : netcfg) (size : Q) (fwd : list flink) (back : list blink) : Q :=
  let L := total_latency fwd in
  let B := beff (crosstraffic c) fwd back in
  L * lat_factor c size +
  size / (if gamma_active c L then Qmin (B * bw_factor c size) (gamma c / (2 * L)) else B * bw_factor c size).

(* region where the documented formula is proved to be what the code computes *)
Definition doc_side (c : netcfg) (size : Q) (fwd : list flink) (back : list blink) : bool :=
  let L := total_latency fwd in
  let B := beff (crosstraffic c) fwd back in
  let g := gamma c / (2 * L) in
  negb (gamma_active c L) || Qeq_bool (bw_factor c size) 1 || (Qle_bool B g && Qle_bool (B * bw_factor c size) g).

(** * CPU, sleep, disk, parallel task *)
Definition exec_time (cores : Z) (speed flops : Q) (threads : Z) : Q :=
  let cost := inject_Z threads * flops in                          (* execute_thread: thread_count * flops_amount *)
  let value := solve1 [(inject_Z cores * speed, 1)] (inject_Z threads * speed) in
  cost / value.

Definition timing_precision : Q := 1 # 1000000000.
Definition sleep_time (d : Q) : Q := if Qlt_bool 0 d then Qmax d timing_precision else 0.

Definition io_time (read_bw write_bw : Q) (is_read : bool) (size : Q) : Q :=
  size / solve1 [(Qmax read_bw write_bw, 1); (if is_read then read_bw else write_bw, 1)] (-1 # 1).

Record part := { p_speed : Q; p_cores : Z; p_flops : Q }.
Fixpoint cpu_bound (acc : option Q) (ps : list part) : option Q :=   (* calculate_cpu_bound, None = DBL_MAX *)
  match ps with
  | [] => acc
  | p :: r => if Qlt_bool 0 (p_flops p)
              then let u := p_speed p / p_flops p in
                   cpu_bound (Some (match acc with None => u | Some a => Qmin a u end)) r
              else cpu_bound acc r
  end.
Definition used (ps : list part) : list part := filter (fun p => Qlt_bool 0 (p_flops p)) ps.
Definition ptask_time (ps : list part) : Q :=
  match cpu_bound None ps with
  | None => 0                                                       (* nothing to do: remains = 0 *)
  | Some b => 1 / solve1 (map (fun p => (inject_Z (p_cores p) * p_speed p, p_flops p)) (used ps)) b
  end.
Definition ptask_spec (ps : list part) : Q :=
  match map (fun p => p_flops p / p_speed p) (used ps) with [] => 0 | x :: r => qmax_list x r end.

(** * The tolerance rule of DESIGN 1.3 and the oracle verdicts *)
Definition Qabs' (x : Q) : Q := if Qle_bool 0 x then x else - x.
Definition close (prec obs ref : Q) : bool :=
  Qle_bool (Qabs' (obs - ref)) (4 * prec * Qmax 1 (Qabs' ref)).

(** * Executable entry points (integer-list protocol)
    rationals are numerator/denominator pairs (denominator > 0) *)
Definition mkQ (n d : Z) : Q := match d with Zpos p => n # p | _ => 0 end.
Definition outQ (q : Q) : list Z := let r := Qred q in [Qnum r; Zpos (Qden r)].
Definition b2z (b : bool) : Z := if b then 1%Z else 0%Z.

Fixpoint take_tbl (n : nat) (l : list Z) : list (Z * Q) * list Z :=
  match n with
  | O => ([], l)
  | S n' => match l with
            | t :: a :: b :: r => let '(x, rest) := take_tbl n' r in ((t, mkQ a b) :: x, rest)
            | _ => ([], l)
            end
  end.
Definition pol_of (z : Z) : policy := if (z =? 1)%Z then Fatpipe else if (z =? 2)%Z then SplitDuplex else Shared.
Fixpoint take_flinks (n : nat) (l : list Z) : list flink * list Z :=
  match n with
  | O => ([], l)
  | S n' => match l with
            | a :: b :: c :: d :: p :: i :: r =>
                let '(x, rest) := take_flinks n' r in
                ({| f_bw := mkQ a b; f_lat := mkQ c d; f_pol := pol_of p; f_inback := (i =? 1)%Z |} :: x, rest)
            | _ => ([], l)
            end
  end.
Fixpoint take_blinks (n : nat) (l : list Z) : list blink * list Z :=
  match n with
  | O => ([], l)
  | S n' => match l with
            | a :: b :: p :: r => let '(x, rest) := take_blinks n' r in
                                  ({| b_bw := mkQ a b; b_fat := (p =? 1)%Z |} :: x, rest)
            | _ => ([], l)
            end
  end.

(* input: obs_n obs_d  latdef_n latdef_d nlat {thr n d}*  bwdef_n bwdef_d nbw {thr n d}*  gamma_n gamma_d ct
          size  nf {bw_n bw_d lat_n lat_d pol inback}*  nb {bw_n bw_d fat}*
   output: [K ok; O ok; in proved region; model T (n d); documented T (n d)] *)
Definition run_c20_comm (l : list Z) : list Z :=
  match l with
  | on :: od :: ln :: ld :: nl :: r0 =>
      let '(ltbl, r1) := take_tbl (Z.to_nat nl) r0 in
      match r1 with
      | bn :: bd :: nb :: r2 =>
          let '(btbl, r3) := take_tbl (Z.to_nat nb) r2 in
          match r3 with
          | gn :: gd :: ct :: size :: nf :: r4 =>
              let '(fwd, r5) := take_flinks (Z.to_nat nf) r4 in
              match r5 with
              | nbk :: r6 =>
                  let '(back, _) := take_blinks (Z.to_nat nbk) r6 in
                  let c := {| lat_default := mkQ ln ld; lat_tbl := ltbl; bw_default := mkQ bn bd; bw_tbl := btbl;
                              gamma := mkQ gn gd; crosstraffic := (ct =? 1)%Z |} in
                  let obs := mkQ on od in
                  let tm := comm_time c (inject_Z size) fwd back in
                  let td := comm_documented c (inject_Z size) fwd back in
                  [b2z (close timing_precision obs tm); b2z (close timing_precision obs td);
                   b2z (doc_side c (inject_Z size) fwd back)] ++ outQ tm ++ outQ td
              | _ => []
              end
          | _ => []
          end
      | _ => []
      end
  | _ => []
  end.

(* input: obs_n obs_d kind ... ; kind 0 exec: cores speed_n speed_d flops_n flops_d threads
                                 kind 1 sleep: d_n d_d
                                 kind 2 io: r_n r_d w_n w_d is_read size
                                 kind 3 ptask: n {speed_n speed_d cores flops_n flops_d}*
   output: [ok vs model; ok vs documented; model T (n d); documented T (n d)] *)
Fixpoint take_parts (n : nat) (l : list Z) : list part :=
  match n with
  | O => []
  | S n' => match l with
            | a :: b :: c :: d :: e :: r => {| p_speed := mkQ a b; p_cores := c; p_flops := mkQ d e |} :: take_parts n' r
            | _ => []
            end
  end.
Definition verdict (obs tm td : Q) : list Z :=
  [b2z (close timing_precision obs tm); b2z (close timing_precision obs td)] ++ outQ tm ++ outQ td.
Definition run_c20_simple (l : list Z) : list Z :=
  match l with
  | on :: od :: kind :: r =>
      let obs := mkQ on od in
      match kind, r with
      | 0%Z, [cores; sn; sd; fn; fd; threads] =>
          let tm := exec_time cores (mkQ sn sd) (mkQ fn fd) threads in
          let td := if (threads <=? cores)%Z then mkQ fn fd / mkQ sn sd
                    else inject_Z threads * mkQ fn fd / (inject_Z cores * mkQ sn sd) in
          verdict obs tm td
      | 1%Z, [dn; dd] => verdict obs (sleep_time (mkQ dn dd)) (mkQ dn dd)
      | 2%Z, [rn; rd; wn; wd; isr; size] =>
          let tm := io_time (mkQ rn rd) (mkQ wn wd) (isr =? 1)%Z (inject_Z size) in
          verdict obs tm (inject_Z size / (if (isr =? 1)%Z then mkQ rn rd else mkQ wn wd))
      | 3%Z, n :: r' => let ps := take_parts (Z.to_nat n) r' in verdict obs (ptask_time ps) (ptask_spec ps)
      | _, _ => []
      end
  | _ => []
  end.
