(** Res/Ti.v — the trace-integration CPU model (cpu_ti.cpp), single core, one action among others.
    CpuTi::update_actions_finish_time computes, for an action with [rem] flops left,
        total_area = rem * sum_priority * penalty / peak     and     finish = trace.solve(now, total_area)
    where solve inverts the integral of the availability trace (scale values in time).  The FULL/LAZY models instead see the
    rate  scale * peak / (sum_priority * penalty)  in each trace segment.  [ti_solve] walks the trace segments seen from [now]
    (CpuTiTmgr::solve / CpuTiProfile::solve_simple find the same date by binary search in the table of partial integrals and
    reduce periodic traces to one period: that part is tied by the differential runs of C19 only). *)
From Coq Require Import QArith Qfield Lqa List Bool.
From SGV Require Import Res.Action Res.ActionProofs.
Import ListNotations.
Local Open Scope Q_scope.

Fixpoint ti_solve (now amount : Q) (trace : list (Q * Q)) : option Q :=
  match trace with
  | [] => None
  | (d, sc) :: tr =>
      if Qltb 0 sc && Qle_bool amount (sc * d) then Some (now + amount / sc)
      else ti_solve (now + d) (amount - sc * d) tr
  end.

(** total_area for an action whose share of the CPU is peak / (sum_priority * penalty) *)
Definition ti_area (rem share : Q) : Q := rem / share.
(** the same trace as a rate history for the FULL / LAZY bookkeeping *)
Definition ti_hist (share : Q) (trace : list (Q * Q)) : list seg :=
  map (fun p => mkseg (fst p) (snd p * share) true) trace.
Definition trace_ok (trace : list (Q * Q)) : Prop := Forall (fun p => 0 <= fst p /\ 0 <= snd p) trace.

Lemma ti_hist_wf : forall share trace, 0 < share -> trace_ok trace -> wf (ti_hist share trace).
Proof.
  intros share trace Hs H. induction H as [| [d sc] tr [Hd Hsc] _ IH]; [constructor |].
  cbn [fst snd] in Hd, Hsc. cbn [ti_hist map]. constructor; [| exact IH].
  split; cbn [sd sr fst snd]; [assumption | apply mul_nonneg; [assumption | lra]].
Qed.

Lemma ti_eq_full_gen : forall trace share now amount rem, 0 < share -> trace_ok trace -> 0 < rem ->
  amount * share == rem ->
  oQeq (ti_solve now amount trace) (full_run 0 now rem (ti_hist share trace)).
Proof.
  induction trace as [| [d sc] tr IH]; intros share now amount rem Hs Hok Hrem Ham; [exact I |].
  inversion Hok as [| p l [Hd Hsc] Hok']; subst. cbn [fst snd] in Hd, Hsc.
  cbn [ti_hist map fst snd ti_solve full_run sr sd]. cbv zeta.
  assert (Hsok : seg_ok (mkseg d (sc * share) true)) by (split; cbn [sd sr]; [assumption | apply mul_nonneg; [assumption | lra]]).
  destruct (full_step_cases rem (mkseg d (sc * share) true) Hrem Hsok) as [(q & Ht & Hq & Hr0 & Hle & Hle2) | [Hcase Hlt]];
    cbn [sr sd] in *.
  - rewrite Ht, Hle, (full_own_event_finishes rem (sc * share) q Hrem Ht). subst q.
    assert (Hsc0 : 0 < sc).
    { destruct (Qlt_le_dec 0 sc) as [H | H]; [assumption |]. assert (Hz : sc == 0) by lra. rewrite Hz in Hr0. exfalso. lra. }
    assert (E1 : Qltb 0 sc = true) by (apply Qltb_true; assumption).
    assert (E2 : Qle_bool amount (sc * d) = true).
    { apply Qle_bool_iff. apply (Qmult_le_r _ _ share Hs). rewrite Ham. lra. }
    rewrite E1, E2. cbn. rewrite <- Ham. field. split; intro Hz; lra.
  - destruct (whole_step rem (sc * share) d Hlt) as [Hv Hnf].
    assert (E : Qltb 0 sc && Qle_bool amount (sc * d) = false).
    { destruct (Qltb 0 sc) eqn:E1; [| reflexivity]. cbn. apply Qleb_false.
      apply (Qmult_lt_r _ _ share Hs). rewrite Ham. lra. }
    rewrite E.
    assert (HIH : oQeq (ti_solve (now + d) (amount - sc * d) tr)
                       (full_run 0 (now + d) (rem - sc * share * d) (ti_hist share tr))).
    { apply IH; try assumption; [lra |]. rewrite <- Ham. ring. }
    destruct Hcase as [Hn | (q & Ht & Hle)].
    + rewrite Hn, Hnf, Hv. exact HIH.
    + rewrite Ht, Hle, Hnf, Hv. exact HIH.
Qed.

(** C19 (TI): the date TI obtains by inverting the integral of the trace for total_area = rem / share is the completion
    date of the FULL bookkeeping fed with the rates scale * share *)
Theorem ti_eq_full : forall trace share now rem, 0 < share -> trace_ok trace -> 0 < rem ->
  oQeq (ti_solve now (ti_area rem share) trace) (full_run 0 now rem (ti_hist share trace)).
Proof.
  intros trace share now rem Hs Hok Hrem. apply ti_eq_full_gen; try assumption.
  unfold ti_area. field. intro Hz. lra.
Qed.
