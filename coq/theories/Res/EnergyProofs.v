(** C23 — proofs about SGV.Res.Energy. *)
From Coq Require Import QArith Qminmax Lqa Setoid Morphisms.
From SGV Require Import Base.Tactics Res.NetFormula Res.NetFormulaProofs Res.Energy.
Local Open Scope Q_scope.

Section Host.
Variable c : hcfg.

Lemma update_step s k t d :
  e_last s == t -> 0 <= d -> c_now k == t + d ->
  e_total (update c s k) == e_total s + watts c (e_pstate s) (c_load k) * d /\
  e_last (update c s k) == t + d /\
  e_pstate (update c s k) = st_of (c_on k) (c_pstate k).
Proof.
  intros Hl Hd Hn. unfold update. destruct (Qlt_bool (e_last s) (c_now k)) eqn:E; cbn [e_total e_last e_pstate].
  - split; [|split; [exact Hn|reflexivity]].
    assert (Hx : c_now k - e_last s == d) by lra. rewrite Hx. reflexivity.
  - apply Qlt_bool_false in E. assert (Hz : d == 0) by lra. split; [|split; [lra|reflexivity]].
    rewrite Hz. ring.
Qed.

Definition durations_ok (p : period) : Prop := 0 <= s_first p /\ Forall (fun d => 0 <= d) (s_more p).

Lemma fold_plus_shift more : forall a b, fold_left Qplus more (a + b) == a + fold_left Qplus more b.
Proof.
  induction more as [|x r IH]; intros a b; cbn [fold_left]; [reflexivity|].
  assert (H : a + b + x == a + (b + x)) by ring.
  assert (P : forall u v, u == v -> fold_left Qplus r u == fold_left Qplus r v).
  { clear. induction r as [|y r IH]; intros u v H; cbn [fold_left]; [exact H|]. apply IH. rewrite H. reflexivity. }
  rewrite (P _ _ H). apply IH.
Qed.

Lemma period_run p nxt : forall more d t s,
  e_pstate s = st_of (s_on p) (s_ps p) -> e_last s == t -> 0 <= d -> Forall (fun x => 0 <= x) more ->
  let cs := fst (period_calls t p d more nxt) in
  let t' := snd (period_calls t p d more nxt) in
  e_pstate (run c s cs) = st_of (fst nxt) (snd nxt) /\
  e_total (run c s cs) == e_total s + watts c (st_of (s_on p) (s_ps p)) (s_load p) * fold_left Qplus more d /\
  e_last (run c s cs) == t' /\ t' == t + fold_left Qplus more d.
Proof.
  induction more as [|d' r IH]; intros d t s Hps Hl Hd Hmore; cbn [period_calls].
  - cbn [fst snd run fold_left].
    destruct (update_step s {| c_now := t + d; c_on := fst nxt; c_pstate := snd nxt; c_load := s_load p |} t d Hl Hd)
      as [H1 [H2 H3]]; [reflexivity|].
    cbn [c_on c_pstate c_load] in *. rewrite Hps in H1. repeat split; try assumption; reflexivity.
  - destruct (period_calls (t + d) p d' r nxt) as [cs t'] eqn:Epc. cbn [fst snd run fold_left].
    set (k := {| c_now := t + d; c_on := s_on p; c_pstate := s_ps p; c_load := s_load p |}).
    destruct (update_step s k t d Hl Hd) as [H1 [H2 H3]]; [reflexivity|].
    cbn [c_on c_pstate c_load k] in *. rewrite Hps in H1.
    inversion Hmore as [|x l Hd' Hr]; subst.
    specialize (IH d' (t + d) (update c s k) H3 H2 Hd' Hr). rewrite Epc in IH. cbn [fst snd] in IH.
    destruct IH as [I1 [I2 [I3 I4]]]. fold (run c (update c s k) cs).
    split; [exact I1|]. split; [|split; [exact I3|]].
    + rewrite I2, H1. rewrite (fold_plus_shift r d d'). ring.
    + rewrite I4. rewrite (fold_plus_shift r d d'). ring.
Qed.

Definition first_state (ps : list period) (final : bool * Z) : Z :=
  match ps with [] => st_of (fst final) (snd final) | p :: _ => st_of (s_on p) (s_ps p) end.

Theorem energy_integral : forall ps t s final,
  Forall durations_ok ps -> e_pstate s = first_state ps final -> e_last s == t ->
  e_total (run c s (timeline_calls t ps final)) == e_total s + energy_spec c ps.
Proof.
  induction ps as [|p r IH]; intros t s final Hok Hps Hl; cbn [timeline_calls energy_spec fold_right].
  - cbn [run fold_left]. ring.
  - inversion Hok as [|x l [Hf Hm] Hr]; subst.
    set (nxt := match r with [] => final | q :: _ => (s_on q, s_ps q) end).
    pose proof (period_run p nxt (s_more p) (s_first p) t s Hps Hl Hf Hm) as H.
    destruct (period_calls t p (s_first p) (s_more p) nxt) as [cs t'] eqn:Epc. cbn [fst snd] in H.
    destruct H as [H1 [H2 [H3 H4]]].
    unfold run in *. rewrite fold_left_app.
    rewrite (IH t' (fold_left (update c) cs s) final Hr).
    + rewrite H2. unfold energy_spec, duration. ring.
    + rewrite H1. unfold nxt, first_state. destruct r; reflexivity.
    + exact H3.
Qed.

(** powers are non-negative, so the reported energy never decreases, whatever the calls *)
Definition cfg_ok : Prop :=
  0 <= h_off c /\ Forall (fun r => 0 <= p_idle r /\ 0 <= p_eps r /\ p_eps r <= p_max r) (h_ranges c).

Lemma cpu_load_le_1 ps load : cpu_load_of c ps load <= 1.
Proof.
  unfold cpu_load_of. destruct (Qle_bool _ 0); [lra|].
  destruct (Qlt_bool 1 _) eqn:E; [lra|]. apply Qlt_bool_false in E. exact E.
Qed.

Lemma watts_nonneg ps load : cfg_ok -> 0 <= watts c ps load.
Proof.
  intros [Hoff Hr]. unfold watts, watts_at. destruct (ps =? pstate_off)%Z; [exact Hoff|].
  destruct (nth_error (h_ranges c) (Z.to_nat ps)) as [r|] eqn:E; [|lra].
  apply nth_error_In in E. rewrite Forall_forall in Hr. destruct (Hr r E) as [H1 [H2 H3]].
  pose proof (cpu_load_le_1 ps load) as Hle.
  destruct (Qlt_bool 0 (cpu_load_of c ps load)) eqn:E0; [|exact H1].
  apply Qlt_bool_iff in E0. nra.
Qed.

Lemma update_monotone s k : cfg_ok -> e_total s <= e_total (update c s k).
Proof.
  intro Hok. unfold update. destruct (Qlt_bool (e_last s) (c_now k)) eqn:E; cbn [e_total]; [|lra].
  apply Qlt_bool_iff in E. pose proof (watts_nonneg (e_pstate s) (c_load k) Hok). nra.
Qed.

Theorem energy_monotone : forall ks s, cfg_ok -> e_total s <= e_total (run c s ks).
Proof.
  induction ks as [|k r IH]; intros s Hok; cbn [run fold_left]; [lra|].
  pose proof (update_monotone s k Hok). pose proof (IH (update c s k) Hok). unfold run in *. lra.
Qed.

(** off / idle / busy *)
Theorem watts_off : forall ps load, watts c (st_of false ps) load = h_off c.
Proof. reflexivity. Qed.

Theorem watts_idle : forall ps r load, (0 <= ps)%Z -> nth_error (h_ranges c) (Z.to_nat ps) = Some r ->
  0 < nth (Z.to_nat ps) (h_speeds c) 0 -> (1 <= h_cores c)%Z -> load == 0 ->
  watts c (st_of true ps) load == p_idle r.
Proof.
  intros ps r load Hps Hr Hs Hc Hl. unfold watts, watts_at, st_of.
  assert (E : (ps =? pstate_off)%Z = false) by (apply Z.eqb_neq; unfold pstate_off; lia). rewrite E, Hr.
  unfold cpu_load_of. assert (E1 : Qle_bool (nth (Z.to_nat ps) (h_speeds c) 0) 0 = false) by (apply Qle_bool_false; exact Hs).
  rewrite E1.
  assert (Hz : load / nth (Z.to_nat ps) (h_speeds c) 0 / inject_Z (h_cores c) == 0).
  { rewrite Hl. unfold Qdiv. ring. }
  assert (E2 : Qlt_bool 1 (load / nth (Z.to_nat ps) (h_speeds c) 0 / inject_Z (h_cores c)) = false)
    by (apply Qlt_bool_false; rewrite Hz; lra).
  rewrite E2. assert (E3 : Qlt_bool 0 (load / nth (Z.to_nat ps) (h_speeds c) 0 / inject_Z (h_cores c)) = false)
    by (apply Qlt_bool_false; rewrite Hz; lra).
  rewrite E3. reflexivity.
Qed.

Theorem watts_busy : forall ps r load, (0 <= ps)%Z -> nth_error (h_ranges c) (Z.to_nat ps) = Some r ->
  let speed := nth (Z.to_nat ps) (h_speeds c) 0 in
  let frac := load / (speed * inject_Z (h_cores c)) in       (* used fraction of the cores *)
  0 < speed -> (1 <= h_cores c)%Z -> 0 < load -> frac <= 1 ->
  watts c (st_of true ps) load == p_eps r + frac * (p_max r - p_eps r).
Proof.
  intros ps r load Hps Hr speed frac Hs Hc Hl Hf. unfold watts, watts_at, st_of.
  assert (E : (ps =? pstate_off)%Z = false) by (apply Z.eqb_neq; unfold pstate_off; lia). rewrite E, Hr.
  unfold cpu_load_of. fold speed.
  assert (E1 : Qle_bool speed 0 = false) by (apply Qle_bool_false; exact Hs). rewrite E1.
  assert (Hc' : 1 <= inject_Z (h_cores c)) by (change 1 with (inject_Z 1); apply inj_le; exact Hc).
  assert (Heq : load / speed / inject_Z (h_cores c) == frac) by (unfold frac; field; split; lra).
  assert (E2 : Qlt_bool 1 (load / speed / inject_Z (h_cores c)) = false) by (apply Qlt_bool_false; rewrite Heq; exact Hf).
  rewrite E2.
  assert (Hpos : 0 < frac).
  { unfold frac. apply Qlt_shift_div_l; [nra|lra]. }
  assert (E3 : Qlt_bool 0 (load / speed / inject_Z (h_cores c)) = true) by (apply Qlt_bool_iff; rewrite Heq; exact Hpos).
  rewrite E3, Heq. reflexivity.
Qed.
End Host.

(** links: every update adds power * elapsed time, so any sequence of updates at the dates where the load changes
    integrates idle + (busy - idle) * load/bandwidth *)
Theorem link_integral : forall c (samples : list (Q * Q * Q)) s,
  le_total (fold_left (fun st x => link_update c st (le_last st + fst (fst x)) (snd (fst x)) (snd x)) samples s) ==
  le_total s + fold_right (fun x e => link_power c (snd (fst x)) (snd x) * fst (fst x) + e) 0 samples.
Proof.
  intros c samples. induction samples as [|[[dt load] bw] r IH]; intro s; cbn [fold_left fold_right fst snd]; [ring|].
  rewrite IH. unfold link_update; cbn [le_total le_last].
  assert (H : le_last s + dt - le_last s == dt) by ring. rewrite H. ring.
Qed.
