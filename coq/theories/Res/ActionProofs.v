(** Res/ActionProofs.v — proofs about Res/Action.v at eps = 0 (exact rationals). *)
From Coq Require Import QArith Qminmax Qabs Qfield Lqa List Bool ZArith.
From SGV Require Import Res.Action.
Import ListNotations.
Local Open Scope Q_scope.

(** ------------------------------------------------------------------------------------------------ booleans *)
Lemma Qltb_true : forall x y, Qltb x y = true <-> x < y.
Proof.
  intros x y. unfold Qltb. rewrite negb_true_iff. split; intro H.
  - apply Qnot_le_lt. intro H1. apply Qle_bool_iff in H1. congruence.
  - destruct (Qle_bool y x) eqn:E; auto. apply Qle_bool_iff in E. exfalso. apply (Qlt_not_le _ _ H E).
Qed.
Lemma Qltb_false : forall x y, Qltb x y = false <-> y <= x.
Proof.
  intros x y. unfold Qltb. rewrite negb_false_iff. apply Qle_bool_iff.
Qed.
Lemma Qleb_false : forall x y, Qle_bool x y = false <-> y < x.
Proof.
  intros x y. split; intro H.
  - apply Qnot_le_lt. intro H1. apply Qle_bool_iff in H1. congruence.
  - destruct (Qle_bool x y) eqn:E; auto. apply Qle_bool_iff in E. exfalso. apply (Qlt_not_le _ _ H E).
Qed.
Lemma Qltb_comp : forall a b c d, a == b -> c == d -> Qltb a c = Qltb b d.
Proof. intros a b c d H1 H2. unfold Qltb. rewrite H1, H2. reflexivity. Qed.

Lemma mul_div : forall a r, 0 < r -> r * (a / r) == a.
Proof. intros a r Hr. apply Qmult_div_r. intro H. rewrite H in Hr. apply (Qlt_irrefl _ Hr). Qed.
Lemma mul_lt : forall r x y, 0 < r -> x < y -> r * x < r * y.
Proof. intros r x y Hr H. apply Qmult_lt_l; assumption. Qed.
Lemma mul_le : forall r x y, 0 <= r -> x <= y -> r * x <= r * y.
Proof.
  intros r x y Hr H. rewrite (Qmult_comm r x), (Qmult_comm r y). apply Qmult_le_compat_r; assumption.
Qed.
Lemma mul_nonneg : forall a b, 0 <= a -> 0 <= b -> 0 <= a * b.
Proof. intros. apply Qmult_le_0_compat; assumption. Qed.
Lemma div_le_iff : forall a r d, 0 < r -> (a / r <= d <-> a <= r * d).
Proof.
  intros a r d Hr. pose proof (mul_div a r Hr) as Hq. split; intro H.
  - rewrite <- Hq. apply mul_le; [apply Qlt_le_weak; assumption | assumption].
  - apply Qnot_lt_le. intro Hlt. pose proof (mul_lt r _ _ Hr Hlt) as H1. rewrite Hq in H1.
    apply (Qlt_not_le _ _ H1 H).
Qed.

(** double_update at eps = 0 *)
Lemma dupd0_pos : forall x v, 0 <= x - v -> dupd 0 x v = x - v.
Proof.
  intros x v H. unfold dupd. cbv zeta. destruct (Qltb (x - v) 0) eqn:E; auto.
  apply Qltb_true in E. exfalso. apply (Qlt_not_le _ _ E H).
Qed.
Lemma dupd0_neg : forall x v, x - v < 0 -> dupd 0 x v = 0.
Proof.
  intros x v H. unfold dupd. cbv zeta. destruct (Qltb (x - v) 0) eqn:E; auto.
  apply Qltb_false in E. exfalso. apply (Qlt_not_le _ _ H E).
Qed.
Lemma dupd0_le : forall x v, 0 <= v -> 0 <= x -> dupd 0 x v <= x /\ 0 <= dupd 0 x v.
Proof.
  intros x v Hv Hx. destruct (Qlt_le_dec (x - v) 0) as [H | H].
  - rewrite dupd0_neg by assumption. split; [assumption | apply Qle_refl].
  - rewrite dupd0_pos by assumption. split; lra.
Qed.

(** ------------------------------------------------------------------------------------------------ the integral *)
Lemma integral_0 : forall h, wf h -> integral h 0 == 0.
Proof.
  intros h Hwf. destruct h as [| s h']; cbn [integral]; [reflexivity |].
  inversion Hwf as [| s0 h0 [Hd Hr] Hwf']; subst.
  destruct (Qle_bool 0 (sd s)) eqn:E.
  - ring.
  - apply Qleb_false in E. exfalso. apply (Qlt_not_le _ _ E Hd).
Qed.
Lemma integral_comp : forall h x y, x == y -> integral h x == integral h y.
Proof.
  induction h as [| s h' IH]; intros x y Hxy; cbn [integral]; [reflexivity |].
  rewrite Hxy at 1. destruct (Qle_bool y (sd s)).
  - rewrite Hxy. reflexivity.
  - rewrite (IH (x - sd s) (y - sd s)); [reflexivity | rewrite Hxy; reflexivity].
Qed.
Lemma integral_nonneg : forall h x, wf h -> 0 <= x -> 0 <= integral h x.
Proof.
  induction h as [| s h' IH]; intros x Hwf Hx; cbn [integral]; [apply Qle_refl |].
  inversion Hwf as [| s0 h0 [Hd Hr] Hwf']; subst.
  destruct (Qle_bool x (sd s)) eqn:E.
  - apply mul_nonneg; assumption.
  - apply Qleb_false in E. pose proof (IH (x - sd s) Hwf') as H1.
    pose proof (mul_nonneg _ _ Hr Hd) as H2. assert (H3 : 0 <= x - sd s) by lra. specialize (H1 H3). lra.
Qed.
(** the delivered work is monotone in time *)
Lemma integral_mono : forall h x y, wf h -> 0 <= x -> x <= y -> integral h x <= integral h y.
Proof.
  induction h as [| s h' IH]; intros x y Hwf Hx Hxy; cbn [integral]; [apply Qle_refl |].
  inversion Hwf as [| s0 h0 [Hd Hr] Hwf']; subst.
  destruct (Qle_bool x (sd s)) eqn:Ex; destruct (Qle_bool y (sd s)) eqn:Ey.
  - apply mul_le; assumption.
  - apply Qle_bool_iff in Ex. apply Qleb_false in Ey.
    pose proof (integral_nonneg h' (y - sd s) Hwf') as H1. assert (H2 : 0 <= y - sd s) by lra. specialize (H1 H2).
    pose proof (mul_le (sr s) x (sd s) Hr Ex). lra.
  - apply Qleb_false in Ex. apply Qle_bool_iff in Ey. exfalso. lra.
  - apply Qleb_false in Ex. pose proof (IH (x - sd s) (y - sd s) Hwf') as H1.
    assert (H2 : 0 <= x - sd s) by lra. assert (H3 : x - sd s <= y - sd s) by lra. specialize (H1 H2 H3). lra.
Qed.

(** ------------------------------------------------------------------------------------------------ FULL *)
(** when the action's own completion is the engine's next event, the step finishes it: the [None] is unreachable *)
Lemma full_own_event_finishes : forall rem r d, 0 < rem -> ttc rem r = Some d ->
  Qle_bool (dupd 0 rem (r * d)) 0 = true.
Proof.
  intros rem r d Hrem H. unfold ttc in H. destruct (Qltb 0 r) eqn:Er; [| discriminate].
  apply Qltb_true in Er. assert (Ep : Qltb 0 rem = true) by (apply Qltb_true; assumption). rewrite Ep in H.
  injection H as <-. pose proof (mul_div rem r Er) as Hq.
  rewrite dupd0_pos by lra. apply Qle_bool_iff. lra.
Qed.

Lemma whole_step : forall rem r d, r * d < rem ->
  dupd 0 rem (r * d) = rem - r * d /\ Qle_bool (dupd 0 rem (r * d)) 0 = false.
Proof.
  intros rem r d H. assert (H1 : dupd 0 rem (r * d) = rem - r * d) by (apply dupd0_pos; lra).
  split; [assumption |]. rewrite H1. apply Qleb_false. lra.
Qed.

(** case analysis shared by all the proofs about one FULL step *)
Lemma full_step_cases : forall rem s, 0 < rem -> seg_ok s ->
  (exists d, ttc rem (sr s) = Some d /\ d = rem / sr s /\ 0 < sr s /\ Qle_bool d (sd s) = true /\ rem <= sr s * sd s) \/
  ((ttc rem (sr s) = None \/ exists d, ttc rem (sr s) = Some d /\ Qle_bool d (sd s) = false) /\ sr s * sd s < rem).
Proof.
  intros rem s Hrem [Hd Hr]. unfold ttc. destruct (Qltb 0 (sr s)) eqn:Er.
  - apply Qltb_true in Er. assert (Ep : Qltb 0 rem = true) by (apply Qltb_true; assumption). rewrite Ep.
    destruct (Qle_bool (rem / sr s) (sd s)) eqn:E.
    + left. exists (rem / sr s). repeat split; auto. apply Qle_bool_iff in E. apply div_le_iff in E; assumption.
    + right. split; [right; exists (rem / sr s); auto |]. apply Qleb_false in E.
      apply Qnot_le_lt. intro H. apply (div_le_iff rem (sr s) (sd s) Er) in H. apply (Qlt_not_le _ _ E H).
  - right. split; [left; reflexivity |]. apply Qltb_false in Er. assert (H0 : sr s == 0) by lra.
    rewrite H0. lra.
Qed.

(** C21 work exact / remaining zero exactly at completion, for FULL:
    the completion date is the first date at which the integral of the rate reaches the cost *)
Lemma full_char : forall h now rem T, wf h -> 0 < rem -> full_run 0 now rem h = Some T ->
  now <= T /\ integral h (T - now) == rem /\ (forall y, 0 <= y -> y < T - now -> integral h y < rem).
Proof.
  induction h as [| s h' IH]; intros now rem T Hwf Hrem Hrun; [discriminate |].
  inversion Hwf as [| s0 h0 Hs Hwf']; subst. pose proof Hs as [Hd Hr].
  cbn [full_run] in Hrun. cbv zeta in Hrun.
  destruct (full_step_cases rem s Hrem Hs) as [(d & Ht & Hdq & Hr0 & Hle & Hle2) | [Hcase Hlt]].
  - rewrite Ht, Hle in Hrun. rewrite (full_own_event_finishes rem (sr s) d Hrem Ht) in Hrun.
    injection Hrun as <-. subst d. pose proof (mul_div rem (sr s) Hr0) as Hq.
    apply Qle_bool_iff in Hle.
    assert (Hqpos : 0 <= rem / sr s).
    { apply Qnot_lt_le. intro Hn. pose proof (mul_lt (sr s) _ _ Hr0 Hn) as H1. lra. }
    split; [lra |]. cbn [integral].
    assert (E : Qle_bool (now + rem / sr s - now) (sd s) = true) by (apply Qle_bool_iff; lra). rewrite E.
    split; [lra |]. intros y Hy Hyl.
    assert (Ey : Qle_bool y (sd s) = true) by (apply Qle_bool_iff; lra). rewrite Ey.
    assert (Hy2 : y < rem / sr s) by lra. pose proof (mul_lt (sr s) _ _ Hr0 Hy2). lra.
  - destruct (whole_step rem (sr s) (sd s) Hlt) as [Hv Hnf].
    assert (Hrun' : full_run 0 (now + sd s) (rem - sr s * sd s) h' = Some T).
    { destruct Hcase as [Hn | (d & Ht & Hle)].
      - rewrite Hn in Hrun. rewrite Hnf, Hv in Hrun. exact Hrun.
      - rewrite Ht, Hle in Hrun. rewrite Hnf, Hv in Hrun. exact Hrun. }
    assert (Hrem' : 0 < rem - sr s * sd s) by lra.
    destruct (IH _ _ _ Hwf' Hrem' Hrun') as (H1 & H2 & H3).
    split; [lra |]. cbn [integral]. split.
    + destruct (Qle_bool (T - now) (sd s)) eqn:E.
      * apply Qle_bool_iff in E. assert (Hz : T - (now + sd s) == 0) by lra.
        rewrite (integral_comp h' _ _ Hz), (integral_0 h' Hwf') in H2. exfalso. lra.
      * assert (Hz : T - now - sd s == T - (now + sd s)) by ring.
        rewrite (integral_comp h' _ _ Hz). lra.
    + intros y Hy Hyl. destruct (Qle_bool y (sd s)) eqn:E.
      * apply Qle_bool_iff in E. pose proof (mul_le (sr s) y (sd s) Hr E). lra.
      * apply Qleb_false in E. assert (Ha : 0 <= y - sd s) by lra.
        assert (Hb : y - sd s < T - (now + sd s)) by lra. pose proof (H3 _ Ha Hb). lra.
Qed.

(** remaining work never increases, never becomes negative (values of remains_ after each FULL step) *)

Lemma full_rems_nonincr : forall h rem, wf h -> 0 < rem -> nonincr rem (full_rems 0 rem h).
Proof.
  induction h as [| s h' IH]; intros rem Hwf Hrem; [exact I |].
  inversion Hwf as [| s0 h0 Hs Hwf']; subst. pose proof Hs as [Hd Hr].
  cbn [full_rems]. cbv zeta.
  destruct (full_step_cases rem s Hrem Hs) as [(d & Ht & Hdq & Hr0 & Hle & Hle2) | [Hcase Hlt]].
  - rewrite Ht, Hle. cbn. repeat split; lra.
  - destruct (whole_step rem (sr s) (sd s) Hlt) as [Hv Hnf].
    assert (Hgoal : nonincr rem (dupd 0 rem (sr s * sd s) :: full_rems 0 (dupd 0 rem (sr s * sd s)) h')).
    { rewrite Hv. pose proof (mul_nonneg _ _ Hr Hd). cbn [nonincr]. repeat split; try lra. apply IH; [assumption | lra]. }
    destruct Hcase as [Hn | (d & Ht & Hle)].
    + rewrite Hn, Hnf. exact Hgoal.
    + rewrite Ht, Hle, Hnf. exact Hgoal.
Qed.

(** the list of remaining values ends with 0 exactly when the action completes within the history *)
Lemma full_rems_last : forall h now rem, wf h -> 0 < rem ->
  (exists T, full_run 0 now rem h = Some T) <-> last (full_rems 0 rem h) 1 == 0.
Proof.
  induction h as [| s h' IH]; intros now rem Hwf Hrem.
  - cbn. split; [intros [T H]; discriminate | intro H; exfalso; lra].
  - inversion Hwf as [| s0 h0 Hs Hwf']; subst.
    cbn [full_rems full_run]. cbv zeta.
    destruct (full_step_cases rem s Hrem Hs) as [(d & Ht & Hdq & Hr0 & Hle & Hle2) | [Hcase Hlt]].
    + rewrite Ht, Hle. rewrite (full_own_event_finishes rem (sr s) d Hrem Ht). cbn. split; [reflexivity | eauto].
    + destruct (whole_step rem (sr s) (sd s) Hlt) as [Hv Hnf].
      assert (Hrem' : 0 < dupd 0 rem (sr s * sd s)) by (rewrite Hv; lra).
      assert (Hl : forall l, last (dupd 0 rem (sr s * sd s) :: l) 1 == 0 <-> last l 1 == 0).
      { intro l. destruct l as [| x l]; [cbn; split; intro; exfalso; lra | reflexivity]. }
      destruct Hcase as [Hn | (d & Ht & Hle)].
      * rewrite Hn, Hnf. rewrite Hl. apply IH; assumption.
      * rewrite Ht, Hle, Hnf. rewrite Hl. apply IH; assumption.
Qed.

(** ------------------------------------------------------------------------------------------------ LAZY = FULL *)
Definition linv (now : Q) (st : lstate) (rem : Q) : Prop :=
  l_lu st <= now /\ 0 <= l_lv st /\ rem == l_rem st - l_lv st * (now - l_lu st) /\
  l_heap st = lazy_date (l_lu st) (l_rem st) (l_lv st).

Lemma touch_ok_comp : forall h p q, p == q -> touch_ok p h -> touch_ok q h.
Proof.
  intros [| s h'] p q Hpq H; [exact I |]. cbn in *. destruct H as [[H | H] H']; split; auto.
  right. rewrite H. assumption.
Qed.

Lemma oQeq_refl : forall a, oQeq a a.
Proof. intros [x |]; cbn; [reflexivity | exact I]. Qed.

(** after the solve at the start of a segment the LAZY state predicts the same completion date as FULL's ttc *)
Lemma lazy_step_state : forall now st rem s, 0 < rem -> seg_ok s -> linv now st rem ->
  (stouched s = true \/ sr s == l_lv st) ->
  let st1 := if stouched s then lazy_touch 0 now st (sr s) else st in
  linv now st1 rem /\ l_lv st1 == sr s /\
  (0 < sr s -> exists date, l_heap st1 = Some date /\ date == now + rem / sr s) /\
  (sr s <= 0 -> l_heap st1 = None).
Proof.
  intros now st rem s Hrem [Hd Hr] (Hlu & Hlv & Hrel & Hheap) Htouch. cbv zeta.
  assert (Hmul : 0 <= l_lv st * (now - l_lu st)) by (apply mul_nonneg; lra).
  assert (Hlrem : 0 < l_rem st) by lra.
  destruct (stouched s) eqn:Et.
  - unfold lazy_touch, lazy_update. cbv zeta.
    assert (Ep : Qltb 0 (l_rem st) = true) by (apply Qltb_true; assumption). rewrite Ep.
    rewrite dupd0_pos by lra. cbn [l_rem l_lu l_lv l_heap].
    split; [| split; [reflexivity | split]].
    + unfold linv. cbn [l_rem l_lu l_lv l_heap]. repeat split; try lra; try reflexivity; try apply Qle_refl.
    + intro Hr0. unfold lazy_date. assert (E1 : Qltb 0 (sr s) = true) by (apply Qltb_true; assumption). rewrite E1.
      assert (E2 : Qltb 0 (l_rem st - l_lv st * (now - l_lu st)) = true) by (apply Qltb_true; lra). rewrite E2.
      eexists. split; [reflexivity |]. rewrite <- Hrel. reflexivity.
    + intro Hr0. unfold lazy_date. assert (E1 : Qltb 0 (sr s) = false) by (apply Qltb_false; assumption).
      rewrite E1. reflexivity.
  - destruct Htouch as [Ht | Hsame]; [discriminate |].
    split; [| split; [symmetry; assumption | split]].
    + unfold linv. repeat split; assumption.
    + intro Hr0. rewrite Hheap. unfold lazy_date.
      assert (E1 : Qltb 0 (l_lv st) = true) by (apply Qltb_true; lra). rewrite E1.
      assert (E2 : Qltb 0 (l_rem st) = true) by (apply Qltb_true; assumption). rewrite E2.
      eexists. split; [reflexivity |]. rewrite Hrel, Hsame. field. intro Hz. lra.
    + intro Hr0. rewrite Hheap. unfold lazy_date.
      assert (E1 : Qltb 0 (l_lv st) = false) by (apply Qltb_false; lra). rewrite E1. reflexivity.
Qed.

Lemma linv_advance : forall now st rem s, seg_ok s -> linv now st rem -> l_lv st == sr s ->
  linv (now + sd s) st (rem - sr s * sd s).
Proof.
  intros now st rem s [Hd Hr] (Hlu & Hlv & Hrel & Hheap) Hsame. unfold linv. repeat split; try assumption; try lra.
  rewrite Hrel, <- Hsame. ring.
Qed.

Theorem lazy_eq_full_gen : forall h now st rem, wf h -> 0 < rem -> linv now st rem -> touch_ok (l_lv st) h ->
  oQeq (lazy_run 0 now st h) (full_run 0 now rem h).
Proof.
  induction h as [| s h' IH]; intros now st rem Hwf Hrem Hinv Htok; [exact I |].
  inversion Hwf as [| s0 h0 Hs Hwf']; subst. pose proof Hs as [Hd Hr].
  destruct Htok as [Htouch Htok'].
  assert (Htouch' : stouched s = true \/ sr s == l_lv st) by exact Htouch.
  pose proof (lazy_step_state now st rem s Hrem Hs Hinv Htouch') as Hstep. cbv zeta in Hstep.
  cbn [lazy_run full_run]. cbv zeta.
  set (st1 := if stouched s then lazy_touch 0 now st (sr s) else st) in *.
  destruct Hstep as (Hinv1 & Hlv1 & Hpos & Hzero).
  assert (Htok1 : touch_ok (l_lv st1) h') by (apply (touch_ok_comp h' (sr s)); [symmetry; assumption | assumption]).
  destruct (full_step_cases rem s Hrem Hs) as [(d & Ht & Hdq & Hr0 & Hle & Hle2) | [Hcase Hlt]].
  - destruct (Hpos Hr0) as (date & Hh & Hdate). rewrite Hh, Ht, Hle.
    rewrite (full_own_event_finishes rem (sr s) d Hrem Ht). subst d.
    assert (E : Qle_bool date (now + sd s) = true).
    { apply Qle_bool_iff. apply Qle_bool_iff in Hle. rewrite Hdate. lra. }
    rewrite E. cbn. exact Hdate.
  - destruct (whole_step rem (sr s) (sd s) Hlt) as [Hv Hnf].
    assert (Hrem' : 0 < rem - sr s * sd s) by lra.
    pose proof (linv_advance now st1 rem s Hs Hinv1 Hlv1) as Hinv2.
    pose proof (IH (now + sd s) st1 (rem - sr s * sd s) Hwf' Hrem' Hinv2 Htok1) as HIH.
    assert (Hlazy : lazy_run 0 now st (s :: h') = lazy_run 0 (now + sd s) st1 h' ->
                    oQeq (lazy_run 0 (now + sd s) st1 h')
                      (if Qle_bool (dupd 0 rem (sr s * sd s)) 0 then Some (now + sd s)
                       else full_run 0 (now + sd s) (dupd 0 rem (sr s * sd s)) h')).
    { intros _. rewrite Hnf, Hv. exact HIH. }
    destruct Hcase as [Hn | (d & Ht & Hle)].
    + rewrite Hn. unfold ttc in Hn. destruct (Qltb 0 (sr s)) eqn:Er; [destruct (Qltb 0 rem); discriminate |].
      apply Qltb_false in Er. rewrite (Hzero Er). rewrite Hnf, Hv. exact HIH.
    + rewrite Ht, Hle. unfold ttc in Ht. destruct (Qltb 0 (sr s)) eqn:Er; [| discriminate].
      apply Qltb_true in Er. assert (Ep : Qltb 0 rem = true) by (apply Qltb_true; assumption). rewrite Ep in Ht.
      injection Ht as <-. destruct (Hpos Er) as (date & Hh & Hdate). rewrite Hh.
      assert (E : Qle_bool date (now + sd s) = false).
      { apply Qleb_false. apply Qleb_false in Hle. rewrite Hdate. lra. }
      rewrite E, Hnf, Hv. exact HIH.
Qed.

Lemma linv_init : forall cost t0, linv t0 (lazy_init cost t0) cost.
Proof.
  intros cost t0. unfold linv, lazy_init. cbn [l_rem l_lu l_lv l_heap]. repeat split; try apply Qle_refl.
  ring.
Qed.

(** C19: same completion date under LAZY and FULL, for every rate history *)
Theorem lazy_eq_full : forall h cost t0, wf h -> touch_ok 0 h -> 0 < cost ->
  oQeq (lazy_run 0 t0 (lazy_init cost t0) h) (full_run 0 t0 cost h).
Proof.
  intros h cost t0 Hwf Htok Hcost. apply lazy_eq_full_gen; try assumption. apply linv_init.
Qed.

(** ------------------------------------------------------------------------------------------------ max_duration *)
Lemma sleep_eq_gen : forall steps now date md, Forall (fun d => 0 <= d) steps -> 0 < md -> date == now + md ->
  oQeq (lazy_sleep now date steps) (full_sleep 0 now md steps).
Proof.
  induction steps as [| d r IH]; intros now date md Hst Hmd Hdate; [exact I |].
  inversion Hst as [| d0 r0 Hd Hst']; subst. cbn [lazy_sleep full_sleep]. cbv zeta.
  destruct (Qle_bool md d) eqn:E.
  - assert (E1 : Qle_bool date (now + d) = true) by (apply Qle_bool_iff; apply Qle_bool_iff in E; lra).
    rewrite E1. rewrite dupd0_pos by lra.
    assert (E2 : Qle_bool (md - md) 0 = true) by (apply Qle_bool_iff; lra). rewrite E2. cbn. exact Hdate.
  - assert (E1 : Qle_bool date (now + d) = false) by (apply Qleb_false; apply Qleb_false in E; lra).
    rewrite E1. apply Qleb_false in E. rewrite dupd0_pos by lra.
    assert (E2 : Qle_bool (md - d) 0 = false) by (apply Qleb_false; lra). rewrite E2.
    apply IH; [assumption | lra | lra].
Qed.

(** C19 (max_duration): a sleep ends at start + duration under both algorithms, whatever the other events are *)
Theorem sleep_lazy_eq_full : forall steps t0 md, Forall (fun d => 0 <= d) steps -> 0 < md ->
  oQeq (lazy_sleep t0 (t0 + md) steps) (full_sleep 0 t0 md steps).
Proof. intros. apply sleep_eq_gen; try assumption. reflexivity. Qed.

(** ------------------------------------------------------------------------------------------------ oracle soundness *)

Lemma trace_ok_sound : forall l tol prev, trace_ok tol prev l = true ->
  nonincr prev (rems_of l) /\ Qabs (prev - last_rem prev l - work_sum l) <= tol_sum tol l.
Proof.
  induction l as [| s l' IH]; intros tol prev H.
  - cbn [rems_of nonincr last_rem work_sum tol_sum]. split; [exact I |]. apply Qabs_Qle_condition. split; lra.
  - cbn [trace_ok] in H. repeat rewrite andb_true_iff in H. destruct H as ((((H1 & H2) & H3) & H4) & H5).
    apply Qle_bool_iff in H1. apply Qle_bool_iff in H2. apply Qle_bool_iff in H4.
    destruct (IH _ _ H5) as [Hn Hw]. cbn [rems_of nonincr last_rem work_sum tol_sum]. split; [auto |].
    apply Qabs_Qle_condition in H4. apply Qabs_Qle_condition in Hw. apply Qabs_Qle_condition.
    destruct H4 as [H4a H4b]. destruct Hw as [Hwa Hwb]. split; lra.
Qed.
