Require Import ExtrOcamlBasic.
Require Import SGV.Xbt.Parmap.
Extraction "c49_model.ml" run_c49.
