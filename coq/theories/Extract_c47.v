Require Import ExtrOcamlBasic.
Require Import SGV.Instr.Paje.
Extraction "c47_model.ml" run_c47_check run_c47_buffer.
