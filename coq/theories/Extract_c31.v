Require Import ExtrOcamlBasic.
(* Coq strings (the generated tables) must not be extracted as a type named "string": it would shadow OCaml's in the
   generic driver.  ExtrOcamlString is the standard library's mapping to char list. *)
Require Import ExtrOcamlString.
Require Import SGV.Smpi.Op.
Extraction "c31_model.ml" run_c31 run_c31_info.
