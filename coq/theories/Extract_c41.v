Require Import ExtrOcamlBasic.
Require Import SGV.Mc.Record.
Extraction "c41_model.ml" run_c41_parse run_c41_to_string.
