Require Import ExtrOcamlBasic.
Require Import SGV.Mc.Hb.
Extraction "c42_model.ml" run_c42.
