(** C30 — derived datatypes: MPI semantics (type maps) and a model of SMPI's datatype objects.
    Model only (no proofs here): it must keep running when a proof breaks.

    Part 1  syntax of datatype trees (what the MPI program asks for)
    Part 2  SPEC: MPI-3.1 §4.1 — type map, lb, ub of every constructor
    Part 3  CODE: the objects built by Datatype::create_* (smpi_datatype.cpp) and the byte offsets visited by
            serialize/unserialize (smpi_datatype_derived.cpp), in the order they are copied
    Part 4  integer-list entry points for the extracted driver *)
From SGV Require Import Base.Tactics.
Local Open Scope Z_scope.

(* ------------------------------------------------------------------------------------------------ Part 1 *)
Inductive dt :=
| Basic (s : Z)                                   (* predefined type of s bytes *)
| Contig (n : Z) (t : dt)
| Vector (n bl stride : Z) (t : dt)               (* stride in elements *)
| Hvector (n bl stride : Z) (t : dt)              (* stride in bytes *)
| Indexed (blocks : list (Z * Z)) (t : dt)        (* (blocklength, index in elements) *)
| Hindexed (blocks : list (Z * Z)) (t : dt)       (* (blocklength, displacement in bytes) *)
| IndexedBlock (bl : Z) (idxs : list Z) (t : dt)
| Struct (fields : flds)
| Resized (lb ext : Z) (t : dt)
| Subarray (c_order : bool) (dims : list (Z * Z * Z)) (t : dt)   (* (size, subsize, start) per dimension *)
with flds :=
| FNil
| FCons (bl disp : Z) (t : dt) (r : flds).

(* ------------------------------------------------------------------------------------------------ Part 2 *)
(** A type map is the sequence of (displacement, size of the basic type) pairs; lb and ub are carried along because
    MPI_Type_create_resized (and subarray) set them explicitly.  [ub] is taken without alignment padding (epsilon = 0,
    as SMPI has no alignment rule). *)
Record sem := mkSem { tm : list (Z * Z); slb : Z; sub : Z }.
Definition sext (s : sem) : Z := sub s - slb s.

Definition iota (n : Z) : list Z := map Z.of_nat (seq 0 (Z.to_nat n)).
Definition range (p n : Z) : list Z := map (fun k => p + k) (iota n).

Definition shift (d : Z) (m : list (Z * Z)) : list (Z * Z) := map (fun e => (fst e + d, snd e)) m.
Definition place (ds : list Z) (m : list (Z * Z)) : list (Z * Z) := flat_map (fun d => shift d m) ds.
Definition tmbytes (m : list (Z * Z)) : list Z := flat_map (fun e => range (fst e) (snd e)) m.
Definition tmsize (m : list (Z * Z)) : Z := fold_right (fun e a => snd e + a) 0 m.

Definition min_list (l : list Z) : Z := match l with [] => 0 | x :: r => fold_right Z.min x r end.
Definition max_list (l : list Z) : Z := match l with [] => 0 | x :: r => fold_right Z.max x r end.

(** copies of [s] at the displacements [ds] (MPI-3.1 §4.1.2: every constructor but struct/resized/subarray is this) *)
Definition replicate (ds : list Z) (s : sem) : sem :=
  mkSem (place ds (tm s)) (min_list (map (fun d => d + slb s) ds)) (max_list (map (fun d => d + sub s) ds)).

(** displacements of a block of [bl] consecutive elements of extent [ex] starting at [start] *)
Definition blockds (start ex bl : Z) : list Z := map (fun k => start + k * ex) (iota bl).
Definition ds_hvector (ex n bl stride : Z) : list Z := flat_map (fun i => blockds (i * stride) ex bl) (iota n).
Definition ds_hindexed (ex : Z) (blocks : list (Z * Z)) : list Z :=
  flat_map (fun b => blockds (snd b) ex (fst b)) blocks.

(** struct: member i is a block of bl_i copies of its own type at displacement disp_i; type map = concatenation,
    lb/ub = min/max over the members *)
Definition field_sem (f : Z * Z * sem) : sem :=
  match f with (bl, disp, s) => replicate (blockds disp (sext s) bl) s end.
Definition sem_struct (l : list (Z * Z * sem)) : sem :=
  mkSem (flat_map (fun f => tm (field_sem f)) l)
        (min_list (map (fun f => slb (field_sem f)) l)) (max_list (map (fun f => sub (field_sem f)) l)).

(** one dimension of a subarray (MPI-3.1 §4.1.3): subsize copies from index start in an array of size elements;
    lb = 0, ub = size * extent *)
Definition sub1 (d : Z * Z * Z) (s : sem) : sem :=
  let '(sz, sb, st) := d in
  mkSem (place (blockds (st * sext s) (sext s) sb) (tm s)) 0 (sz * sext s).

Fixpoint sem_of (t : dt) : sem :=
  match t with
  | Basic s => mkSem [(0, s)] 0 s
  | Contig n t => let s := sem_of t in replicate (blockds 0 (sext s) n) s
  | Vector n bl stride t => let s := sem_of t in replicate (ds_hvector (sext s) n bl (stride * sext s)) s
  | Hvector n bl stride t => let s := sem_of t in replicate (ds_hvector (sext s) n bl stride) s
  | Indexed blocks t =>
      let s := sem_of t in replicate (ds_hindexed (sext s) (map (fun b => (fst b, snd b * sext s)) blocks)) s
  | Hindexed blocks t => let s := sem_of t in replicate (ds_hindexed (sext s) blocks) s
  | IndexedBlock bl idxs t =>
      let s := sem_of t in replicate (ds_hindexed (sext s) (map (fun i => (bl, i * sext s)) idxs)) s
  | Struct fields => sem_struct (sem_flds fields)
  | Resized lb ext t => let s := sem_of t in mkSem (tm s) lb (lb + ext)
  | Subarray c_order dims t =>
      (* Subarray(n dims) = Subarray(n-1 outer dims, of Subarray(1, fastest dim, old)) *)
      fold_left (fun s d => sub1 d s) (if c_order then rev dims else dims) (sem_of t)
  end
with sem_flds (f : flds) : list (Z * Z * sem) :=
  match f with
  | FNil => []
  | FCons bl disp t r => (bl, disp, sem_of t) :: sem_flds r
  end.

(** bytes of [count] elements laid out from address [base]: element j sits at base + j*extent *)
Definition sbytes (s : sem) (base count : Z) : list Z :=
  flat_map (fun j => tmbytes (shift (base + j * sext s) (tm s))) (iota count).

(** well-formed trees: counts and block lengths >= 1, non-negative strides/extents (the scope of the property) *)
Fixpoint wf (t : dt) : Prop :=
  match t with
  | Basic s => 0 < s
  | Contig n t => 1 <= n /\ wf t
  | Vector n bl stride t => 1 <= n /\ 1 <= bl /\ 0 <= stride /\ wf t
  | Hvector n bl stride t => 1 <= n /\ 1 <= bl /\ 0 <= stride /\ wf t
  | Indexed blocks t => blocks <> [] /\ Forall (fun b => 1 <= fst b) blocks /\ wf t
  | Hindexed blocks t => blocks <> [] /\ Forall (fun b => 1 <= fst b) blocks /\ wf t
  | IndexedBlock bl idxs t => idxs <> [] /\ 1 <= bl /\ wf t
  | Struct fields => fields <> FNil /\ wf_flds fields
  | Resized lb ext t => 0 <= ext /\ wf t
  | Subarray _ dims t =>
      dims <> [] /\ Forall (fun d => let '(sz, sb, st) := d in 1 <= sb /\ 0 <= st /\ st + sb <= sz) dims /\ wf t
  end
with wf_flds (f : flds) : Prop :=
  match f with
  | FNil => True
  | FCons bl disp t r => 1 <= bl /\ wf t /\ wf_flds r
  end.

(* ------------------------------------------------------------------------------------------------ Part 3 *)
(** The C++ objects.  [CPlain] is the base class Datatype (default serialize = one memcpy from buf+lb);
    the others are Type_Contiguous, Type_Hvector (Type_Vector is an Hvector with a byte stride),
    Type_Hindexed (Type_Indexed is an Hindexed with byte displacements) and Type_Struct. *)
Inductive ctype :=
| CPlain (size lb ub : Z) (derived : bool)
| CContig (size lb ub : Z) (bc : Z) (old : ctype)
| CHvec (size lb ub : Z) (bc bl stride : Z) (old : ctype)
| CHidx (size lb ub : Z) (blocks : list (Z * Z)) (old : ctype)
| CStruct (size lb ub : Z) (fields : list (Z * Z * ctype)).

Definition csize c := match c with CPlain s _ _ _ | CContig s _ _ _ _ | CHvec s _ _ _ _ _ _ | CHidx s _ _ _ _ | CStruct s _ _ _ => s end.
Definition clb c := match c with CPlain _ l _ _ | CContig _ l _ _ _ | CHvec _ l _ _ _ _ _ | CHidx _ l _ _ _ | CStruct _ l _ _ => l end.
Definition cub c := match c with CPlain _ _ u _ | CContig _ _ u _ _ | CHvec _ _ u _ _ _ _ | CHidx _ _ u _ _ | CStruct _ _ u _ => u end.
Definition cderived c := match c with CPlain _ _ _ d => d | _ => true end.   (* flags & DT_FLAG_DERIVED *)
Definition cext c := cub c - clb c.                                          (* get_extent() *)

(** byte offsets read by X::serialize(buf, contiguous, count) (written by unserialize), in copy order;
    [base] is buf.  Inside a block the code calls memcpy when the old type is not derived. *)
Fixpoint cser (c : ctype) (base count : Z) : list Z :=
  match c with
  | CPlain size lb _ _ => range (base + lb) (count * size)
  | CContig _ lb _ bc old => range (base + lb) (csize old * count * bc)
  | CHvec _ lb ub bc bl stride old =>
      flat_map (fun j =>
        flat_map (fun i =>
          let p := base + j * (ub - lb) + i * stride in
          if cderived old then cser old p bl else range p (bl * csize old)) (iota bc)) (iota count)
  | CHidx _ lb ub blocks old =>
      flat_map (fun j =>
        flat_map (fun b =>
          let p := base + j * (ub - lb) + snd b in
          if cderived old then cser old p (fst b) else range p (fst b * csize old)) blocks) (iota count)
  | CStruct _ lb ub fields =>
      flat_map (fun j =>
        flat_map (fun f =>
          match f with
          | (bl, disp, old) =>
              let p := base + j * (ub - lb) + disp in
              if cderived old then cser old p bl else range p (bl * csize old)
          end) fields) (iota count)
  end.

Definition create_hvector (n bl stride : Z) (old : ctype) : ctype :=
  let lb := if 0 <? n then clb old else 0 in
  let ub := if 0 <? n then (n - 1) * stride + (bl - 1) * cext old + cub old else 0 in
  if cderived old || negb (stride =? bl * cext old)
  then CHvec (csize old * bl * n) lb ub n bl stride old
  else CPlain (csize old * bl * n) 0 (csize old * bl * n) true.

Definition create_contiguous (n : Z) (old : ctype) (lb : Z) : ctype :=
  if cderived old then create_hvector n 1 (cext old) old
  else if 0 <? n then CContig (n * csize old) lb (lb + n * csize old) n old
  else CPlain (n * csize old) lb (lb + n * csize old) false.

Definition create_vector (n bl stride : Z) (old : ctype) : ctype :=
  let lb := if 0 <? n then clb old else 0 in
  let ub := if 0 <? n then ((n - 1) * stride + bl - 1) * cext old + cub old else 0 in
  if cderived old || negb (stride =? bl)
  then CHvec (csize old * bl * n) lb ub n bl (stride * cext old) old     (* Type_Vector: stride * extent *)
  else CPlain (csize old * bl * n) 0 (csize old * ((n - 1) * stride + bl)) true.

(** the lb/ub loop of create_indexed / create_hindexed / create_struct on byte displacements *)
Definition upd_bounds (lbub : Z * Z) (bl d ex olb oub : Z) : Z * Z :=
  let '(lb, ub) := lbub in
  (if d + olb <? lb then d + olb else lb,
   if ub <? d + (bl - 1) * ex + oub then d + (bl - 1) * ex + oub else ub).

Fixpoint hidx_bounds (ex olb oub : Z) (blocks : list (Z * Z)) (lbub : Z * Z) : Z * Z :=
  match blocks with
  | [] => lbub
  | (bl, d) :: r => hidx_bounds ex olb oub r (upd_bounds lbub bl d ex olb oub)
  end.

Fixpoint chain_ok (step : Z -> Z) (blocks : list (Z * Z)) : bool :=
  match blocks with
  | (bl1, d1) :: ((_, d2) :: _) as r => (d1 + step bl1 =? d2) && chain_ok step r
  | _ => true
  end.

Definition sum_bl (blocks : list (Z * Z)) : Z := fold_right (fun b a => fst b + a) 0 blocks.

Definition first_bounds (blocks : list (Z * Z)) (ex olb oub : Z) : Z * Z :=
  match blocks with
  | [] => (0, 0)
  | (bl, d) :: _ => (d + olb, d + (bl - 1) * ex + oub)
  end.

Definition create_hindexed (blocks : list (Z * Z)) (old : ctype) : ctype :=
  let ex := cext old in
  let '(lb, ub) := hidx_bounds ex (clb old) (cub old) blocks (first_bounds blocks ex (clb old) (cub old)) in
  let contiguous := chain_ok (fun bl => csize old * bl) blocks && negb (cderived old || negb (lb =? 0)) in
  if contiguous then create_contiguous (sum_bl blocks) old lb
  else CHidx (sum_bl blocks * csize old) lb ub blocks old.

(** create_indexed: same loop with displacements index*extent; contiguity is tested on the indices *)
Definition create_indexed (blocks : list (Z * Z)) (old : ctype) : ctype :=
  let ex := cext old in
  let bblocks := map (fun b => (fst b, snd b * ex)) blocks in
  let '(lb, ub) := hidx_bounds ex (clb old) (cub old) bblocks (first_bounds bblocks ex (clb old) (cub old)) in
  let contiguous := chain_ok (fun bl => bl) blocks && negb (cderived old) in
  if contiguous then create_contiguous (sum_bl blocks) old lb
  else CHidx (sum_bl blocks * csize old) lb ub bblocks old.                (* Type_Indexed: index * extent *)

Fixpoint struct_bounds (fields : list (Z * Z * ctype)) (lbub : Z * Z) : Z * Z :=
  match fields with
  | [] => lbub
  | (bl, d, old) :: r => struct_bounds r (upd_bounds lbub bl d (cext old) (clb old) (cub old))
  end.

Fixpoint struct_chain (fields : list (Z * Z * ctype)) : bool :=
  match fields with
  | (bl1, d1, o1) :: ((_, d2, _) :: _) as r => (d1 + csize o1 * bl1 =? d2) && struct_chain r
  | _ => true
  end.

Definition struct_size (fields : list (Z * Z * ctype)) : Z :=
  fold_right (fun f a => match f with (bl, _, old) => bl * csize old + a end) 0 fields.

Definition c_char : ctype := CPlain 1 0 1 false.

(** create_struct without MPI_LB/MPI_UB members (they only appear through create_resized below) *)
Definition create_struct (fields : list (Z * Z * ctype)) : ctype :=
  let init := match fields with
              | [] => (0, 0)
              | (bl, d, old) :: _ => (d + clb old, d + (bl - 1) * cext old + cub old)
              end in
  let '(lb, ub) := struct_bounds fields init in
  let contiguous := struct_chain fields && forallb (fun f => match f with (_, _, old) => negb (cderived old) end) fields in
  if contiguous then create_contiguous (struct_size fields) c_char lb
  else CStruct (struct_size fields) lb ub fields.

Definition c_marker : ctype := CPlain 0 0 0 false.                          (* MPI_LB / MPI_UB *)
Definition create_resized (old : ctype) (lb ext : Z) : ctype :=
  CStruct (csize old) lb (lb + ext) [(1, lb, c_marker); (1, 0, old); (1, lb + ext, c_marker)].

Definition sub_finish (t : ctype) (size lb ex : Z) : ctype :=
  create_resized (create_hindexed [(1, lb * ex)] t) 0 (size * ex).

Definition create_subarray (c_order : bool) (dims : list (Z * Z * Z)) (old : ctype) : ctype :=
  let ds := if c_order then rev dims else dims in                          (* fastest dimension first *)
  let ex := cext old in
  match ds with
  | [] => old
  | [(sz0, sb0, st0)] => sub_finish (create_contiguous sb0 old 0) sz0 st0 ex
  | (sz0, sb0, st0) :: (sz1, sb1, st1) :: rest =>
      let t1 := create_vector sb1 sb0 sz0 old in
      let '(t, size, lb) :=
        fold_left (fun acc d => match acc, d with (t, size, lb), (sz, sb, st) =>
                                  (create_hvector sb 1 (size * ex) t, size * sz, lb + size * st) end)
                  rest (t1, sz0 * sz1, st0 + st1 * sz0) in
      sub_finish t size lb ex
  end.

Fixpoint build (t : dt) : ctype :=
  match t with
  | Basic s => CPlain s 0 s false
  | Contig n t => create_contiguous n (build t) 0
  | Vector n bl stride t => create_vector n bl stride (build t)
  | Hvector n bl stride t => create_hvector n bl stride (build t)
  | Indexed blocks t => create_indexed blocks (build t)
  | Hindexed blocks t => create_hindexed blocks (build t)
  | IndexedBlock bl idxs t => create_indexed (map (fun i => (bl, i)) idxs) (build t)
  | Struct fields => create_struct (build_flds fields)
  | Resized lb ext t => create_resized (build t) lb ext
  | Subarray c_order dims t => create_subarray c_order dims (build t)
  end
with build_flds (f : flds) : list (Z * Z * ctype) :=
  match f with
  | FNil => []
  | FCons bl disp t r => (bl, disp, build t) :: build_flds r
  end.

(** the pinned formulas (before the fix) for a block of [bl] old elements at displacement [d]: kept to show the defect *)
Definition pinned_block_ub (bl d oub : Z) : Z := d + bl * oub.

(* ------------------------------------------------------------------------------------------------ Part 4 *)
Fixpoint take_triples (n : nat) (l : list Z) : list (Z * Z * Z) * list Z :=
  match n with
  | O => ([], l)
  | S n' => match l with
            | a :: b :: c :: r => let '(ts, rest) := take_triples n' r in ((a, b, c) :: ts, rest)
            | _ => ([], l)
            end
  end.

(** prefix encoding of trees, see harness/smpi_c30.c *)
Fixpoint parse (fuel : nat) (l : list Z) : option (dt * list Z) :=
  match fuel with
  | O => None
  | S f =>
      match l with
      | 0 :: s :: r => Some (Basic s, r)
      | 1 :: n :: r => match parse f r with Some (t, r') => Some (Contig n t, r') | None => None end
      | 2 :: n :: bl :: st :: r =>
          match parse f r with Some (t, r') => Some (Vector n bl st t, r') | None => None end
      | 3 :: n :: bl :: st :: r =>
          match parse f r with Some (t, r') => Some (Hvector n bl st t, r') | None => None end
      | 4 :: n :: r =>
          let '(ps, r1) := take_pairs (Z.to_nat n) r in
          match parse f r1 with Some (t, r') => Some (Indexed ps t, r') | None => None end
      | 5 :: n :: r =>
          let '(ps, r1) := take_pairs (Z.to_nat n) r in
          match parse f r1 with Some (t, r') => Some (Hindexed ps t, r') | None => None end
      | 6 :: n :: bl :: r =>
          let '(xs, r1) := take_n (Z.to_nat n) r in
          match parse f r1 with Some (t, r') => Some (IndexedBlock bl xs t, r') | None => None end
      | 7 :: n :: r =>
          match (fix pf (k : nat) (l : list Z) : option (flds * list Z) :=
                   match k with
                   | O => Some (FNil, l)
                   | S k' =>
                       match l with
                       | bl :: d :: r2 =>
                           match parse f r2 with
                           | Some (t, r3) =>
                               match pf k' r3 with Some (fs, r4) => Some (FCons bl d t fs, r4) | None => None end
                           | None => None
                           end
                       | _ => None
                       end
                   end) (Z.to_nat n) r with
          | Some (fs, r') => Some (Struct fs, r')
          | None => None
          end
      | 8 :: lb :: ext :: r =>
          match parse f r with Some (t, r') => Some (Resized lb ext t, r') | None => None end
      | 9 :: nd :: order :: r =>
          let '(ts, r1) := take_triples (Z.to_nat nd) r in
          match parse f r1 with Some (t, r') => Some (Subarray (order =? 0) ts t, r') | None => None end
      | _ => None
      end
  end.

(** input: count :: tree.  output: size lb ub offset* (offsets of count elements from base 0); [] when unparsable *)
Definition run_c30_spec (l : list Z) : list Z :=
  match l with
  | count :: r =>
      match parse (S (length r)) r with
      | Some (t, _) => let s := sem_of t in tmsize (tm s) :: slb s :: sub s :: sbytes s 0 count
      | None => []
      end
  | _ => []
  end.

Definition run_c30_code (l : list Z) : list Z :=
  match l with
  | count :: r =>
      match parse (S (length r)) r with
      | Some (t, _) => let c := build t in csize c :: clb c :: cub c :: cser c 0 count
      | None => []
      end
  | _ => []
  end.
