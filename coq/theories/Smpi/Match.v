(** C28 — point-to-point matching: Request::match_common as a pure function, and the per-(source,destination,tag)
    message counters of Request::match_recv (smpi_request.cpp).  Model only. *)
From SGV Require Import Base.Tactics.
Local Open Scope Z_scope.

Definition ANY_SOURCE : Z := -555.
Definition ANY_TAG : Z := -444.
Definition UNDEFINED : Z := -333.

(** what match_common reads of a request: communicator id, source (pid of the sender, or ANY_SOURCE on a receive),
    tag, real_size_ (bytes), the PROBE flag *)
Record req := mkReq { comm : Z; src : Z; tag : Z; size : Z; probe : bool }.

(** [in_group] = receiver->comm_->group()->rank(sender->src_) != MPI_UNDEFINED.
    Result: None = no match; Some (real_src, real_tag, truncated) = the values left in the receiver:
    real_src_/real_tag_ are only written for wildcards, the status is filled from src_/tag_ otherwise
    (finish_wait: src_ == MPI_ANY_SOURCE ? real_src_ : src_), which is what is returned here. *)
Definition match_common (sender receiver : req) (in_group : bool) : option (Z * Z * bool) :=
  if ((comm receiver =? UNDEFINED) || (comm sender =? UNDEFINED) || (comm receiver =? comm sender))
     && (((src receiver =? ANY_SOURCE) && in_group) || (src receiver =? src sender))
     && (((tag receiver =? ANY_TAG) && (0 <=? tag sender)) || (tag receiver =? tag sender))
  then
    let real_src := if src receiver =? ANY_SOURCE then src sender else src receiver in
    let real_tag := if tag receiver =? ANY_TAG then tag sender else tag receiver in
    let truncated := negb (probe receiver) && (size receiver <? size sender) in
    Some (real_src, real_tag, truncated)
  else None.

(** match_recv on top of match_common: a message carries the value of the sender's counter for its
    (source, destination, tag) when it was sent; it is accepted only when that equals the receiver's counter for the
    same triple, which is then incremented (unless one side is a probe). *)
Definition id_ok (received_count msg_id : Z) : bool := msg_id =? received_count.

(** one receive of a (source,destination,tag) class scanning pending messages (ids) in some order *)
Definition pick (received_count : Z) (scan : list Z) : option Z := find (id_ok received_count) scan.

(** successive receives, each with its own view (which mailbox first, what is pending) of the pending ids *)
Fixpoint receive_all (c : Z) (scans : list (list Z)) : list Z :=
  match scans with
  | [] => []
  | scan :: r => match pick c scan with
                 | Some id => id :: receive_all (c + 1) r
                 | None => receive_all c r            (* nothing acceptable yet: the receive stays posted *)
                 end
  end.

(** mailbox choice of Request::start for a send: true = small mailbox.
    [recv_in_large]/[recv_in_small]: a matching receive is already posted there *)
Definition send_mailbox_small (async_small_thresh sz : Z) (ssend recv_in_large recv_in_small : bool) : bool :=
  if async_small_thresh =? 0 then false
  else if sz <? async_small_thresh then
    if recv_in_large then false
    else if negb ssend then true
    else recv_in_small
  else false.

Definition send_detached (detached_thresh sz : Z) (ssend bsend : bool) : bool :=
  negb ssend && (bsend || (sz <? detached_thresh)).

(** driver: comm_s src_s tag_s size_s comm_r src_r tag_r size_r probe in_group -> matched real_src real_tag truncated *)
Definition run_c28_match (l : list Z) : list Z :=
  match l with
  | [cs; ss; ts; zs; cr; sr; tr; zr; pr; g] =>
      match match_common (mkReq cs ss ts zs false) (mkReq cr sr tr zr (negb (pr =? 0))) (negb (g =? 0)) with
      | Some (a, b, t) => [1; a; b; if t then 1 else 0]
      | None => [0]
      end
  | _ => []
  end.

(** driver: thresh size ssend recv_in_large recv_in_small detached_thresh bsend -> small? detached? *)
Definition run_c28_mailbox (l : list Z) : list Z :=
  match l with
  | [th; sz; ss; rl; rs; dth; bs] =>
      [if send_mailbox_small th sz (negb (ss =? 0)) (negb (rl =? 0)) (negb (rs =? 0)) then 1 else 0;
       if send_detached dth sz (negb (ss =? 0)) (negb (bs =? 0)) then 1 else 0]
  | _ => []
  end.
