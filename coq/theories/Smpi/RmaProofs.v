(** C34 — proofs about the sequential RMA model *)
From SGV Require Import Base.Tactics Smpi.Rma.
From Coq Require Import Permutation.
Local Open Scope Z_scope.

Definition meq (m m' : mem) : Prop := forall t x, m t x = m' t x.

Lemma meq_refl : forall m, meq m m. Proof. intros m t x; reflexivity. Qed.
Lemma meq_trans : forall a b c, meq a b -> meq b c -> meq a c.
Proof. intros a b c H1 H2 t x; now rewrite H1. Qed.
Lemma meq_sym : forall a b, meq a b -> meq b a.
Proof. intros a b H t x; now rewrite H. Qed.

(** ---- an operation only touches its target, and what it does there depends only on the target's memory *)
Lemma apply_mem_other : forall m o t x, t <> otgt o -> apply_mem m o t x = m t x.
Proof.
  intros m o t x Hne; unfold apply_mem.
  assert (Hu : forall f vals, upd_range f m (otgt o) (odisp o) vals t x = m t x).
  { intros; unfold upd_range. destruct (Z.eqb_spec t (otgt o)); [contradiction | reflexivity]. }
  destruct (okind o =? 0); [apply Hu |]. destruct ((okind o =? 2) || (okind o =? 3)); [apply Hu |].
  destruct (okind o =? 4); [| reflexivity].
  destruct (m (otgt o) (odisp o) =? ocmp o); [apply Hu | reflexivity].
Qed.

Lemma apply_mem_local : forall m m' o x,
  (forall y, m (otgt o) y = m' (otgt o) y) -> apply_mem m o (otgt o) x = apply_mem m' o (otgt o) x.
Proof.
  intros m m' o x H; unfold apply_mem.
  assert (Hu : forall f vals, upd_range f m (otgt o) (odisp o) vals (otgt o) x = upd_range f m' (otgt o) (odisp o) vals (otgt o) x).
  { intros; unfold upd_range. rewrite H. reflexivity. }
  destruct (okind o =? 0); [apply Hu |]. destruct ((okind o =? 2) || (okind o =? 3)); [apply Hu |].
  destruct (okind o =? 4); [| apply H].
  rewrite H. destruct (m' (otgt o) (odisp o) =? ocmp o); [apply Hu | apply H].
Qed.

Lemma apply_mem_meq : forall m m' o, meq m m' -> meq (apply_mem m o) (apply_mem m' o).
Proof.
  intros m m' o H t x. destruct (Z.eq_dec t (otgt o)) as [-> | Hne].
  - apply apply_mem_local; intros; apply H.
  - rewrite !apply_mem_other by assumption. apply H.
Qed.

Lemma exec_meq : forall ops m m', meq m m' -> meq (exec ops m) (exec ops m').
Proof.
  induction ops as [|o ops IH]; intros m m' H; cbn [exec fold_left]; [exact H |].
  apply IH, apply_mem_meq, H.
Qed.

(** the memory of target t after a trace depends only on the operations addressed to t, in their order *)
Lemma exec_proj_gen : forall tr m m' t,
  (forall y, m t y = m' t y) -> forall x, exec tr m t x = exec (proj t tr) m' t x.
Proof.
  induction tr as [|o tr IH]; intros m m' t H x; cbn [exec fold_left proj filter]; [apply H |].
  unfold on_target at 1. destruct (Z.eqb_spec (otgt o) t) as [E | Hne].
  - cbn [fold_left]. apply IH. intros y. subst t. apply apply_mem_local, H.
  - apply IH. intros y. rewrite apply_mem_other by congruence. apply H.
Qed.

(** EXCLUSIVE LOCKS.  [tr] is any interleaving of the operations actually performed; [serial] is the concatenation of the
    critical sections in lock-acquisition order.  Mutual exclusion on a target means: what that target sees ([proj t]) is
    the same in both.  Then every window ends with the memory of the serial execution. *)
Theorem exclusive_serial : forall tr serial m,
  (forall t, proj t tr = proj t serial) -> meq (exec tr m) (exec serial m).
Proof.
  intros tr serial m H t x.
  rewrite (exec_proj_gen tr m m t) by reflexivity. rewrite (exec_proj_gen serial m m t) by reflexivity.
  now rewrite H.
Qed.

(** critical sections: (target, operations); the serial trace and what mutual exclusion gives *)
Definition serial_of (secs : list (Z * list rop)) : list rop := flat_map snd secs.
Definition well_targeted (secs : list (Z * list rop)) : Prop :=
  forall s, In s secs -> forall o, In o (snd s) -> otgt o = fst s.
Lemma proj_app : forall t a b, proj t (a ++ b) = proj t a ++ proj t b.
Proof. intros; unfold proj; apply filter_app. Qed.
Lemma proj_all : forall t l, (forall o, In o l -> otgt o = t) -> proj t l = l.
Proof.
  induction l as [|o l IH]; intros H; [reflexivity |]. cbn [proj filter]. unfold on_target at 1.
  rewrite (H o (or_introl eq_refl)), Z.eqb_refl. f_equal. apply IH. intros; apply H; now right.
Qed.
Lemma proj_none : forall t l, (forall o, In o l -> otgt o <> t) -> proj t l = [].
Proof.
  induction l as [|o l IH]; intros H; [reflexivity |]. cbn [proj filter]. unfold on_target at 1.
  destruct (Z.eqb_spec (otgt o) t) as [E | _]; [exfalso; eapply H; [left; reflexivity | exact E] |].
  apply IH. intros; apply H; now right.
Qed.
(** what target t sees in the serial trace = the sections on t, one after the other, in acquisition order *)
Theorem proj_serial : forall secs t, well_targeted secs ->
  proj t (serial_of secs) = flat_map (fun s => if fst s =? t then snd s else []) secs.
Proof.
  induction secs as [|s secs IH]; intros t H; [reflexivity |].
  unfold serial_of in *; cbn [flat_map]. rewrite proj_app, IH.
  - f_equal. destruct (Z.eqb_spec (fst s) t) as [E | Hne].
    + apply proj_all. intros o Ho. rewrite <- E. apply (H s (or_introl eq_refl) o Ho).
    + apply proj_none. intros o Ho. rewrite (H s (or_introl eq_refl) o Ho). exact Hne.
  - intros s' Hs'; apply H; now right.
Qed.

(** ---- commuting epochs *)
Definition commute (a b : rop) : Prop := forall m, meq (apply_mem (apply_mem m a) b) (apply_mem (apply_mem m b) a).

Lemma commute_sym : forall a b, commute a b -> commute b a.
Proof. intros a b H m; apply meq_sym, H. Qed.

Lemma exec_cons : forall o ops m, exec (o :: ops) m = exec ops (apply_mem m o).
Proof. reflexivity. Qed.

(** FENCE / LOCK_ALL EPOCHS: if the operations of an epoch pairwise commute, every order of application (every
    interleaving the simulator may choose) gives the same memory *)
Theorem commuting_epoch : forall l l', Permutation l l' ->
  (forall a b, In a l -> In b l -> commute a b) -> forall m, meq (exec l m) (exec l' m).
Proof.
  induction 1 as [| x l l' HP IH | x y l | l l' l'' HP1 IH1 HP2 IH2]; intros HC m.
  - apply meq_refl.
  - rewrite !exec_cons. apply IH. intros a b Ha Hb; apply HC; now right.
  - rewrite !exec_cons. apply exec_meq. apply HC; [left; reflexivity | right; left; reflexivity].
  - eapply meq_trans; [apply IH1, HC |]. apply IH2.
    intros a b Ha Hb; apply HC; eapply Permutation_in; try apply Permutation_sym; eassumption.
Qed.

(** the decidable condition is sufficient *)
Lemma opf_comm_assoc : forall o x a b, 0 <= o <= 4 -> opf o (opf o x a) b = opf o (opf o x b) a.
Proof.
  intros o x a b H. assert (o = 0 \/ o = 1 \/ o = 2 \/ o = 3 \/ o = 4) as [-> | [-> | [-> | [-> | ->]]]] by lia; cbn [opf].
  - lia.
  - ring.
  - lia.
  - lia.
  - rewrite !Z.lxor_assoc. f_equal. apply Z.lxor_comm.
Qed.

Lemma zlen_nonneg : forall l, 0 <= zlen l. Proof. intros; unfold zlen; lia. Qed.

(** outside the cells it may write, an operation leaves memory unchanged *)
Lemma apply_mem_outside : forall m o t x,
  (t <> otgt o \/ x < odisp o \/ odisp o + wlen o <= x) -> apply_mem m o t x = m t x.
Proof.
  intros m o t x H. destruct (Z.eq_dec t (otgt o)) as [-> | Hne]; [| now apply apply_mem_other].
  destruct H as [H | H]; [congruence |].
  unfold apply_mem, wlen in *.
  assert (Hu : forall f vals, (x < odisp o \/ odisp o + zlen vals <= x) -> upd_range f m (otgt o) (odisp o) vals (otgt o) x = m (otgt o) x).
  { intros f vals Hx; unfold upd_range. rewrite Z.eqb_refl.
    destruct (Z.leb_spec (odisp o) x), (Z.ltb_spec x (odisp o + zlen vals)); cbn; try reflexivity; lia. }
  destruct (okind o =? 0); [apply Hu, H |].
  destruct ((okind o =? 2) || (okind o =? 3)).
  { destruct (Z.eqb_spec (oop o) 6) as [E | _].
    + unfold upd_range. rewrite E. cbn [opf]. destruct (_ && _); reflexivity.
    + apply Hu, H. }
  destruct (okind o =? 4); [| reflexivity].
  destruct (m (otgt o) (odisp o) =? ocmp o); [| reflexivity]. apply Hu.
  assert (zlen (firstn 1 (ovals o)) <= 1) by (unfold zlen; rewrite firstn_length; lia). lia.
Qed.

(** inside its target, an operation's effect on cell x depends only on the cells it may write (and, for CAS, the
    compared cell, which is the written cell) *)
Lemma apply_mem_depends : forall m m' o x,
  (forall y, odisp o <= y < odisp o + wlen o -> m (otgt o) y = m' (otgt o) y) ->
  odisp o <= x < odisp o + wlen o ->
  apply_mem m o (otgt o) x = apply_mem m' o (otgt o) x.
Proof.
  intros m m' o x H Hx. unfold apply_mem, wlen in *.
  assert (Hu : forall f vals, m (otgt o) x = m' (otgt o) x ->
            upd_range f m (otgt o) (odisp o) vals (otgt o) x = upd_range f m' (otgt o) (odisp o) vals (otgt o) x).
  { intros f vals E; unfold upd_range. rewrite E. reflexivity. }
  destruct (okind o =? 0); [apply Hu, H, Hx |].
  destruct ((okind o =? 2) || (okind o =? 3)).
  { destruct (oop o =? 6); [lia |]. apply Hu, H, Hx. }
  destruct (okind o =? 4); [| lia].
  rewrite (H (odisp o)) by lia. destruct (m' (otgt o) (odisp o) =? ocmp o); [apply Hu |]; apply H; lia.
Qed.

Lemma disjoint_commute : forall a b, disjoint_b a b = true -> commute a b.
Proof.
  intros a b H m t x. unfold disjoint_b in H.
  repeat (apply orb_true_iff in H; destruct H as [H | H]).
  - (* different targets *)
    apply negb_true_iff in H. apply Z.eqb_neq in H.
    destruct (Z.eq_dec t (otgt a)) as [-> | Ha]; [| destruct (Z.eq_dec t (otgt b)) as [-> | Hb]].
    + rewrite (apply_mem_other _ b) by congruence.
      apply apply_mem_local. intros y. rewrite apply_mem_other by congruence. reflexivity.
    + rewrite (apply_mem_other _ a (otgt b)) by congruence.
      apply apply_mem_local. intros y. rewrite apply_mem_other by congruence. reflexivity.
    + rewrite !apply_mem_other by assumption. reflexivity.
  - (* a writes nothing *)
    apply Z.eqb_eq in H.
    assert (Ha : forall m0 t0 x0, apply_mem m0 a t0 x0 = m0 t0 x0) by (intros; apply apply_mem_outside; lia).
    rewrite Ha. apply apply_mem_meq. intros t0 x0. apply Ha.
  - apply Z.eqb_eq in H.
    assert (Hb : forall m0 t0 x0, apply_mem m0 b t0 x0 = m0 t0 x0) by (intros; apply apply_mem_outside; lia).
    rewrite Hb. apply meq_sym. apply apply_mem_meq. intros t0 x0. apply Hb.
  - (* a's cells before b's *)
    apply Z.leb_le in H.
    destruct (Z.eq_dec t (otgt a)) as [-> | Ha]; [| destruct (Z.eq_dec t (otgt b)) as [-> | Hb]].
    + destruct (Z_lt_le_dec x (odisp a + wlen a)) as [Hin | Hout].
      * (* x not in b's range *)
        rewrite (apply_mem_outside _ b) by lia.
        destruct (Z_lt_le_dec x (odisp a)) as [Hlo | Hhi].
        -- rewrite !(apply_mem_outside _ a) by lia. rewrite (apply_mem_outside _ b) by lia. reflexivity.
        -- apply apply_mem_depends; [| lia]. intros y Hy. rewrite (apply_mem_outside _ b) by lia. reflexivity.
      * rewrite (apply_mem_outside _ a _ x) by lia.
        destruct (Z.eq_dec (otgt a) (otgt b)) as [E | Hne].
        -- destruct (Z_lt_le_dec x (odisp b)) as [Hlo | Hhi]; [| destruct (Z_lt_le_dec x (odisp b + wlen b)) as [Hin | Hout2]].
           ++ rewrite !(apply_mem_outside _ b) by lia. rewrite (apply_mem_outside _ a) by lia. reflexivity.
           ++ rewrite E. apply apply_mem_depends; [| lia]. intros y Hy. rewrite <- E. rewrite (apply_mem_outside _ a) by lia. reflexivity.
           ++ rewrite !(apply_mem_outside _ b) by lia. rewrite (apply_mem_outside _ a) by lia. reflexivity.
        -- rewrite !(apply_mem_other _ b) by congruence. rewrite (apply_mem_outside _ a) by lia. reflexivity.
    + rewrite (apply_mem_other _ a (otgt b)) by congruence.
      apply apply_mem_local. intros y. rewrite apply_mem_other by congruence. reflexivity.
    + rewrite !apply_mem_other by assumption. reflexivity.
  - (* b's cells before a's: symmetric *)
    apply Z.leb_le in H.
    destruct (Z.eq_dec t (otgt b)) as [-> | Hb]; [| destruct (Z.eq_dec t (otgt a)) as [-> | Ha]].
    + destruct (Z_lt_le_dec x (odisp b + wlen b)) as [Hin | Hout].
      * rewrite (apply_mem_outside _ a _ x) by lia.
        destruct (Z_lt_le_dec x (odisp b)) as [Hlo | Hhi].
        -- rewrite !(apply_mem_outside _ b) by lia. rewrite (apply_mem_outside _ a) by lia. reflexivity.
        -- symmetry. apply apply_mem_depends; [| lia]. intros y Hy. rewrite (apply_mem_outside _ a) by lia. reflexivity.
      * rewrite (apply_mem_outside _ b _ x) by lia.
        destruct (Z.eq_dec (otgt b) (otgt a)) as [E | Hne].
        -- destruct (Z_lt_le_dec x (odisp a)) as [Hlo | Hhi]; [| destruct (Z_lt_le_dec x (odisp a + wlen a)) as [Hin | Hout2]].
           ++ rewrite !(apply_mem_outside _ a) by lia. rewrite (apply_mem_outside _ b) by lia. reflexivity.
           ++ symmetry. rewrite E. apply apply_mem_depends; [| lia]. intros y Hy. rewrite <- E. rewrite (apply_mem_outside _ b) by lia. reflexivity.
           ++ rewrite !(apply_mem_outside _ a) by lia. rewrite (apply_mem_outside _ b) by lia. reflexivity.
        -- rewrite !(apply_mem_other _ a) by congruence. rewrite (apply_mem_outside _ b) by lia. reflexivity.
    + rewrite (apply_mem_other _ b (otgt a)) by congruence. symmetry.
      apply apply_mem_local. intros y. rewrite apply_mem_other by congruence. reflexivity.
    + rewrite !apply_mem_other by assumption. reflexivity.
Qed.

Lemma acc_apply : forall m o, is_acc o = true -> apply_mem m o = upd_range (opf (oop o)) m (otgt o) (odisp o) (ovals o).
Proof.
  intros m o H; unfold is_acc in H; unfold apply_mem. rewrite H.
  apply orb_true_iff in H as [H | H]; apply Z.eqb_eq in H; rewrite H; reflexivity.
Qed.

Lemma same_op_acc_commute : forall a b, same_op_acc_b a b = true -> commute a b.
Proof.
  intros a b H m t x. unfold same_op_acc_b in H.
  repeat (apply andb_true_iff in H; destruct H as [H ?]).
  apply Z.eqb_eq in H2. apply Z.leb_le in H1, H0.
  rewrite !(acc_apply _ a), !(acc_apply _ b) by assumption. unfold upd_range. rewrite <- H2.
  destruct ((t =? otgt a) && (odisp a <=? x) && (x <? odisp a + zlen (ovals a)));
    destruct ((t =? otgt b) && (odisp b <=? x) && (x <? odisp b + zlen (ovals b))); try reflexivity.
  apply opf_comm_assoc; lia.
Qed.

Theorem commute_b_sound : forall a b, commute_b a b = true -> commute a b.
Proof.
  intros a b H; unfold commute_b in H. apply orb_true_iff in H as [H | H];
    [now apply disjoint_commute | now apply same_op_acc_commute].
Qed.

Lemma all_commute_b_sound : forall l, all_commute_b l = true ->
  forall a b, In a l -> In b l -> a = b \/ commute a b.
Proof.
  induction l as [|c l IH]; intros H a b Ha Hb; [destruct Ha |].
  cbn [all_commute_b] in H. apply andb_true_iff in H as [H1 H2]. rewrite forallb_forall in H1.
  destruct Ha as [<- | Ha], Hb as [<- | Hb].
  - now left.
  - right. apply commute_b_sound, H1, Hb.
  - right. apply commute_sym, commute_b_sound, H1, Ha.
  - now apply IH.
Qed.

Lemma commute_self : forall a, commute a a.
Proof. intros a m; apply meq_refl. Qed.

(** the check made on every generated epoch implies order independence *)
Theorem checked_epoch_order_independent : forall l l', all_commute_b l = true -> Permutation l l' ->
  forall m, meq (exec l m) (exec l' m).
Proof.
  intros l l' H HP m. apply commuting_epoch; [exact HP |].
  intros a b Ha Hb. destruct (all_commute_b_sound l H a b Ha Hb) as [-> | HC]; [apply commute_self | exact HC].
Qed.
