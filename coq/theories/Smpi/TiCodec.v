(** C37 — the time-independent (TI) trace line codec.

    encode side  = the TIData object each PMPI_* binding builds (src/smpi/bindings/smpi_pmpi_{request,coll}.cpp,
                   src/smpi/internals/instr_smpi.cpp) followed by TIData::print (src/instr/instr_private.hpp);
    decode side  = the argument parsers of src/smpi/internals/smpi_replay.cpp (XxxParser::parse), with
                   CHECK_ACTION_PARAMS, parse_root, parse_datatype, std::stoi / parse_integer<T> range checks.

    A trace line is "<rank> <name> <tok> ... <tok>"; the rank and the name select the parser, so a line is modelled as
    (kind, list tok).  Every token the tracer emits is numeric: integers (counts, ranks, tags, datatype ids — the
    decimal id string of a predefined datatype) or an "amount" (a double printed with operator<<).  Amounts are
    modelled in fixed point: [TA u] is the token whose value is u * 10^-6 (u = the argument of usleep()); the binary64
    formatting itself is outside the model, except for the 6-significant-digit rounding of the pinned code.

    No proofs here (the file must still run when a proof breaks). *)
From SGV Require Import Base.Tactics.
Local Open Scope Z_scope.

Inductive tok := TI (z : Z) | TA (u : Z).

Inductive kind :=
| KInit | KFinalize | KBarrier | KSend | KIsend | KRecv | KIrecv | KWait | KTest | KWaitall
| KBcast | KReduce | KAllreduce | KAlltoall | KGather | KAllgather | KScatter
| KGatherv | KAllgatherv | KScatterv | KAlltoallv | KReducescatter | KSendrecv | KSleep | KCompute.

(** The calls.  Field order = the order of the replay parser's fields.  [CRsBlock] exists only on the tracing side
    (MPI_Reduce_scatter_block is traced as a "reducescatter" line). *)
Inductive call :=
| CInit | CFinalize | CBarrier
| CSend (nonblocking : bool) (dst tag size dt : Z)
| CRecv (nonblocking : bool) (src tag size dt : Z)
| CWait (src dst tag : Z)
| CTest (src dst tag : Z)
| CWaitall (count : Z)
| CBcast (size root dt : Z)
| CReduce (size comp root dt : Z)
| CAllreduce (size comp dt : Z)
| CAlltoall (ssize rsize sdt rdt : Z)
| CGather (ssize rsize root sdt rdt : Z)
| CAllgather (ssize rsize sdt rdt : Z)
| CScatter (ssize rsize root sdt rdt : Z)
| CGatherv (ssize : Z) (rcounts : list Z) (root sdt rdt : Z)
| CAllgatherv (ssize : Z) (rcounts : list Z) (sdt rdt : Z)
| CScatterv (scounts : list Z) (rsize root sdt rdt : Z)
| CAlltoallv (sbuf : Z) (scounts : list Z) (rbuf : Z) (rcounts : list Z) (sdt rdt : Z)
| CReducescatter (rcounts : list Z) (comp dt : Z)
| CRsBlock (count dt : Z)
| CSendrecv (scount dst rcount src sdt rdt : Z)
| CSleep (usec : Z)
| CCompute (uflops : Z).

(** ------------------------------------------------------------------ TIData classes (instr_private.hpp) *)
Inductive tidata :=
| NoOp
| Cpu (amount : tok)                       (* CpuTIData: "name amount"; amount is a double (TA) or a count (TI) *)
| Pt2Pt (endpoint size tag dt : Z)
| Coll (root : Z) (amount : Z) (send_size recv_size : Z) (send_type recv_type : option Z)
| VarColl (root send_size : Z) (sendcounts : option (list Z)) (recv_size : Z) (recvcounts : option (list Z))
          (send_type recv_type : option Z)
| WaitD (src dst tag : Z).

Definition opt_tok (o : option Z) : list tok := match o with Some z => [TI z] | None => [] end.
Definition opt_list (o : option (list Z)) : list tok := match o with Some l => map TI l | None => [] end.
Definition nonempty (o : option Z) : bool := match o with Some _ => true | None => false end.

(* if (root_ > 0 || (root_ == 0 && not send_type_.empty())) stream << root_ *)
Definition root_toks (root : Z) (send_type : option Z) : list tok :=
  if (0 <? root) || ((root =? 0) && nonempty send_type) then [TI root] else [].

(** number of decimal digits of a positive integer (fuelled; fuel = the number itself is always enough, we give 64
    which covers every u < 10^64) *)
Fixpoint ndigits_f (fuel : nat) (u : Z) : Z :=
  match fuel with
  | O => 0
  | S f => if u <? 10 then 1 else 1 + ndigits_f f (u / 10)
  end.
Definition ndigits (u : Z) : Z := ndigits_f 64 u.
(** operator<<(double) with the default precision 6: keep 6 significant decimal digits (round half up on the decimal
    value; binary ties cannot occur for the witnesses used) *)
Definition round6 (u : Z) : Z :=
  if u <=? 0 then u else
  let k := ndigits u - 6 in
  if k <=? 0 then u else ((u + 10 ^ k / 2) / 10 ^ k) * 10 ^ k.
Definition amount_pinned (t : tok) : tok := match t with TA u => TA (round6 u) | TI z => TI z end.

(** TIData::print — [fixed = true]: the code after the two print() repairs; [fixed = false]: the pinned code *)
Definition print (fixed : bool) (d : tidata) : list tok :=
  match d with
  | NoOp => []
  | Cpu a => [if fixed then a else amount_pinned a]
  | Pt2Pt endpoint size tag dt => [TI endpoint; TI tag; TI size; TI dt]
  | Coll root amount ssz rsz st rt =>
      [TI ssz]
      ++ (if (0 <? rsz) || (fixed && nonempty rt) then [TI rsz] else [])
      ++ (if 0 <=? amount then [TI amount] else [])
      ++ root_toks root st
      ++ opt_tok st ++ opt_tok rt
  | VarColl root ssz scs rsz rcs st rt =>
      (if -1 <? ssz then [TI ssz] else [])
      ++ opt_list scs
      ++ (if -1 <? rsz then [TI rsz] else [])
      ++ opt_list rcs
      ++ root_toks root st
      ++ opt_tok st ++ opt_tok rt
  | WaitD src dst tag => [TI src; TI dst; TI tag]
  end.

(** ------------------------------------------------------------------ what each binding traces *)
Definition zeros_like (l : list Z) : list Z := map (fun _ => 0) l.
Fixpoint repeatZ (n : nat) (x : Z) : list Z := match n with O => [] | S k => x :: repeatZ k x end.

(** [n] = size of MPI_COMM_WORLD; [fixed] selects the repaired PMPI_Reduce_scatter_block *)
Definition trace (fixed : bool) (n : Z) (c : call) : kind * tidata :=
  match c with
  | CInit => (KInit, NoOp)
  | CFinalize => (KFinalize, NoOp)
  | CBarrier => (KBarrier, NoOp)
  | CSend nb dst tag size dt => (if nb then KIsend else KSend, Pt2Pt dst size tag dt)
  | CRecv nb src tag size dt => (if nb then KIrecv else KRecv, Pt2Pt src size tag dt)
  | CWait s d t => (KWait, WaitD s d t)
  | CTest s d t => (KTest, WaitD s d t)
  | CWaitall cnt => (KWaitall, Cpu (TI cnt))
  | CBcast size root dt => (KBcast, Coll root (-1) size 0 (Some dt) None)
  | CReduce size comp root dt => (KReduce, Coll root comp size 0 (Some dt) None)
  | CAllreduce size comp dt => (KAllreduce, Coll (-1) comp size 0 (Some dt) None)
  | CAlltoall ss rs sdt rdt => (KAlltoall, Coll (-1) (-1) ss rs (Some sdt) (Some rdt))
  | CGather ss rs root sdt rdt => (KGather, Coll root (-1) ss rs (Some sdt) (Some rdt))
  | CAllgather ss rs sdt rdt => (KAllgather, Coll (-1) (-1) ss rs (Some sdt) (Some rdt))
  | CScatter ss rs root sdt rdt => (KScatter, Coll root (-1) ss rs (Some sdt) (Some rdt))
  | CGatherv ss rcs root sdt rdt => (KGatherv, VarColl root ss None (-1) (Some rcs) (Some sdt) (Some rdt))
  | CAllgatherv ss rcs sdt rdt => (KAllgatherv, VarColl (-1) ss None (-1) (Some rcs) (Some sdt) (Some rdt))
  | CScatterv scs rs root sdt rdt => (KScatterv, VarColl root (-1) (Some scs) rs None (Some sdt) (Some rdt))
  | CAlltoallv sb scs rb rcs sdt rdt => (KAlltoallv, VarColl (-1) sb (Some scs) rb (Some rcs) (Some sdt) (Some rdt))
  | CReducescatter rcs comp dt => (KReducescatter, VarColl (-1) (-1) None (-1) (Some rcs) (Some comp) (Some dt))
  | CRsBlock count dt =>
      if fixed then (KReducescatter, VarColl (-1) (-1) None (-1) (Some (repeatZ (Z.to_nat n) count)) (Some 0) (Some dt))
      else (* std::vector<int>(recvcount) = recvcount zeros; (datatype, "") in place of ("0", datatype) *)
           (KReducescatter, VarColl (-1) (-1) None (-1) (Some (repeatZ (Z.to_nat count) 0)) (Some dt) None)
  | CSendrecv sc dst rc src sdt rdt => (KSendrecv, VarColl (-1) sc (Some [dst]) rc (Some [src]) (Some sdt) (Some rdt))
  | CSleep u => (KSleep, Cpu (TA u))
  | CCompute u => (KCompute, Cpu (TA u))
  end.

Definition encode (fixed : bool) (n : Z) (c : call) : kind * list tok :=
  let '(k, d) := trace fixed n c in (k, print fixed d).

(** ------------------------------------------------------------------ the replay parsers (smpi_replay.cpp) *)
Definition int_min := - 2 ^ 31.
Definition int_max := 2 ^ 31 - 1.
Definition in_int (z : Z) : bool := (int_min <=? z) && (z <=? int_max).
Definition in_uint (z : Z) : bool := (0 <=? z) && (z <=? 2 ^ 32 - 1).
Definition in_ssize (z : Z) : bool := (- 2 ^ 63 <=? z) && (z <=? 2 ^ 63 - 1).
Definition in_size (z : Z) : bool := (0 <=? z) && (z <=? 2 ^ 64 - 1).

(* action[i+2]: the i-th token after the name *)
Definition arg (a : list tok) (i : nat) : option tok := nth_error a i.
(* std::stoi / parse_integer<T> on an integer token; out of range (exception / xbt_assert) and amounts = no parse *)
Definition int_arg (inr : Z -> bool) (a : list tok) (i : nat) : option Z :=
  match arg a i with Some (TI z) => if inr z then Some z else None | _ => None end.
(* parse_double *)
Definition dbl_arg (a : list tok) (i : nat) : option tok := arg a i.
(* parse_double on a token the model keeps integral (flop amounts of reduce/...): the tracer only emits 0 there *)
Definition comp_arg (a : list tok) (i : nat) : option Z :=
  match arg a i with Some (TI z) => Some z | _ => None end.
(* parse_root: i < action.size() ? std::stoi(action[i]) : 0 *)
Definition root_arg (a : list tok) (i : nat) : option Z :=
  match arg a i with None => Some 0 | Some (TI z) => if in_int z then Some z else None | Some (TA _) => None end.
(* parse_datatype: i < action.size() ? Datatype::decode(action[i]) : MPI_DEFAULT_TYPE *)
Definition dt_arg (dflt : Z) (a : list tok) (i : nat) : option Z :=
  match arg a i with None => Some dflt | Some (TI z) => Some z | Some (TA _) => None end.
(* action[base .. base+n-1] through std::stoi *)
Fixpoint ints_from (a : list tok) (base : nat) (n : nat) : option (list Z) :=
  match n with
  | O => Some []
  | S k => match int_arg in_int a base, ints_from a (S base) k with
           | Some z, Some r => Some (z :: r)
           | _, _ => None
           end
  end.

Definition bind {A B} (o : option A) (f : A -> option B) : option B := match o with Some x => f x | None => None end.
Notation "'do' x <- o ; f" := (bind o (fun x => f)) (at level 200, x name, o at level 100, f at level 200).

(* CHECK_ACTION_PARAMS(action, mandatory, optional): only "too few" is rejected; surplus tokens are ignored *)
Definition check_params (a : list tok) (mandatory : nat) : option unit :=
  if (length a <? mandatory)%nat then None else Some tt.

(** [dflt] = MPI_DEFAULT_TYPE (MPI_BYTE, id 6, after a bare "init" line); [n] = MPI_COMM_WORLD->size() *)
Definition decode (dflt : Z) (n : Z) (k : kind) (a : list tok) : option call :=
  let cs := Z.to_nat n in
  match k with
  | KInit => Some CInit
  | KFinalize => Some CFinalize
  | KBarrier => Some CBarrier
  | KSend | KIsend | KRecv | KIrecv =>            (* SendOrRecvParser *)
      do _ <- check_params a 3;
      do partner <- int_arg in_int a 0;
      do tag <- int_arg in_int a 1;
      do size <- int_arg in_ssize a 2;
      do dt <- dt_arg dflt a 3;
      Some (match k with
            | KSend => CSend false partner tag size dt
            | KIsend => CSend true partner tag size dt
            | KRecv => CRecv false partner tag size dt
            | _ => CRecv true partner tag size dt
            end)
  | KWait | KTest =>                               (* WaitTestParser *)
      do _ <- check_params a 3;
      do s <- int_arg in_int a 0;
      do d <- int_arg in_int a 1;
      do t <- int_arg in_int a 2;
      Some (match k with KWait => CWait s d t | _ => CTest s d t end)
  | KWaitall => Some (CWaitall 0)                  (* ActionArgParser: nothing is read *)
  | KBcast =>
      do _ <- check_params a 1;
      do size <- int_arg in_size a 0;
      do root <- root_arg a 1;
      do dt <- dt_arg dflt a 2;
      Some (CBcast size root dt)
  | KReduce =>
      do _ <- check_params a 2;
      do size <- int_arg in_uint a 0;
      do comp <- comp_arg a 1;
      do root <- root_arg a 2;
      do dt <- dt_arg dflt a 3;
      Some (CReduce size comp root dt)
  | KAllreduce =>
      do _ <- check_params a 2;
      do size <- int_arg in_uint a 0;
      do comp <- comp_arg a 1;
      do dt <- dt_arg dflt a 2;
      Some (CAllreduce size comp dt)
  | KAlltoall =>
      do _ <- check_params a 2;
      do ss <- int_arg in_int a 0;
      do rs <- int_arg in_int a 1;
      do sdt <- dt_arg dflt a 2;
      do rdt <- dt_arg dflt a 3;
      Some (CAlltoall ss rs sdt rdt)
  | KGather =>
      do _ <- check_params a 2;
      do ss <- int_arg in_int a 0;
      do rs <- int_arg in_int a 1;
      do root <- root_arg a 2;
      do sdt <- dt_arg dflt a 3;
      do rdt <- dt_arg dflt a 4;
      Some (CGather ss rs root sdt rdt)
  | KAllgather =>                                  (* GatherArgParser, name != "gather" *)
      do _ <- check_params a 2;
      do ss <- int_arg in_int a 0;
      do rs <- int_arg in_int a 1;
      do sdt <- dt_arg dflt a 2;
      do rdt <- dt_arg dflt a 3;
      Some (CAllgather ss rs sdt rdt)
  | KScatter =>
      do _ <- check_params a 2;
      do ss <- int_arg in_int a 0;
      do rs <- int_arg in_int a 1;
      do root <- root_arg a 2;
      do sdt <- dt_arg dflt a 3;
      do rdt <- dt_arg dflt a 4;
      Some (CScatter ss rs root sdt rdt)
  | KGatherv =>
      do _ <- check_params a (cs + 1);
      do ss <- int_arg in_int a 0;
      do root <- root_arg a (1 + cs);
      do sdt <- dt_arg dflt a (2 + cs);
      do rdt <- dt_arg dflt a (3 + cs);
      do rcs <- ints_from a 1 cs;
      Some (CGatherv ss rcs root sdt rdt)
  | KAllgatherv =>
      do _ <- check_params a (cs + 1);
      do ss <- int_arg in_int a 0;
      (* action.size() = length a + 2 *)
      if (3 + cs + cs <? length a + 2)%nat then None       (* "datatype + disp are specified": not emitted by the tracer, not modelled *)
      else if (3 + cs + 2 <? length a + 2)%nat then None   (* "disps specified": idem *)
      else
        do sdt <- dt_arg dflt a (1 + cs);
        do rdt <- dt_arg dflt a (2 + cs);
        do rcs <- ints_from a 1 cs;
        Some (CAllgatherv ss rcs sdt rdt)
  | KScatterv =>
      do _ <- check_params a (cs + 1);
      do rs <- int_arg in_int a cs;
      do root <- root_arg a (1 + cs);
      do sdt <- dt_arg dflt a (2 + cs);
      do rdt <- dt_arg dflt a (3 + cs);
      do scs <- ints_from a 0 cs;
      Some (CScatterv scs rs root sdt rdt)
  | KAlltoallv =>
      do _ <- check_params a (2 * cs + 2);
      do sdt <- dt_arg dflt a (2 + 2 * cs);
      do rdt <- dt_arg dflt a (3 + 2 * cs);
      do sb <- int_arg in_int a 0;
      do rb <- int_arg in_int a (1 + cs);
      do scs <- ints_from a 1 cs;
      do rcs <- ints_from a (2 + cs) cs;
      Some (CAlltoallv sb scs rb rcs sdt rdt)
  | KReducescatter =>
      do _ <- check_params a (cs + 1);
      do comp <- comp_arg a cs;
      do dt <- dt_arg dflt a (1 + cs);
      do rcs <- ints_from a 0 cs;
      Some (CReducescatter rcs comp dt)
  | KSendrecv =>
      do _ <- check_params a 6;
      do sc <- int_arg in_int a 0;
      do dst <- int_arg in_int a 1;
      do rc <- int_arg in_int a 2;
      do src <- int_arg in_int a 3;
      do sdt <- dt_arg dflt a 4;
      do rdt <- dt_arg dflt a 5;
      Some (CSendrecv sc dst rc src sdt rdt)
  | KSleep =>
      do _ <- check_params a 1;
      match dbl_arg a 0 with Some (TA u) => Some (CSleep u) | Some (TI z) => Some (CSleep (z * 1000000)) | None => None end
  | KCompute =>
      do _ <- check_params a 1;
      match dbl_arg a 0 with Some (TA u) => Some (CCompute u) | Some (TI z) => Some (CCompute (z * 1000000)) | None => None end
  end.

(** ------------------------------------------------------------------ specification side *)
(** what the replay has to execute for a traced call: the call itself, except that "waitall" carries no argument the
    replay reads, and MPI_Reduce_scatter_block is the reduce_scatter with n equal counts and no extra computation *)
Definition norm (n : Z) (c : call) : call :=
  match c with
  | CWaitall _ => CWaitall 0
  | CRsBlock count dt => CReducescatter (repeatZ (Z.to_nat n) count) 0 dt
  | _ => c
  end.

Definition len_is (n : Z) (l : list Z) : bool := (Z.of_nat (length l) =? n) && forallb in_int l.
(** argument ranges of the C prototypes (int counts/ranks/tags; MPI checks counts >= 0 and roots in range), vectors
    of length n, at least 2 ranks.  [fixed = false] adds what the pinned print() needs. *)
Definition cnt (z : Z) : bool := (0 <=? z) && (z <=? int_max).
Definition wf (n : Z) (c : call) : bool :=
  (2 <=? n) &&
  match c with
  | CInit | CFinalize | CBarrier => true
  | CSend _ p t s _ | CRecv _ p t s _ => in_int p && in_int t && cnt s
  | CWait s d t | CTest s d t => in_int s && in_int d && in_int t
  | CWaitall _ => true
  | CBcast s r _ => cnt s && cnt r
  | CReduce s comp r _ => cnt s && (0 <=? comp) && cnt r
  | CAllreduce s comp _ => cnt s && (0 <=? comp)
  | CAlltoall ss rs _ _ | CAllgather ss rs _ _ => cnt ss && cnt rs
  | CGather ss rs r _ _ | CScatter ss rs r _ _ => cnt ss && cnt rs && cnt r
  | CGatherv ss rcs r _ _ => cnt ss && len_is n rcs && cnt r
  | CAllgatherv ss rcs _ _ => cnt ss && len_is n rcs
  | CScatterv scs rs r _ _ => len_is n scs && cnt rs && cnt r
  | CAlltoallv sb scs rb rcs _ _ => cnt sb && len_is n scs && cnt rb && len_is n rcs
  | CReducescatter rcs comp _ => len_is n rcs
  | CRsBlock count _ => cnt count
  | CSendrecv sc d rc s _ _ => cnt sc && in_int d && cnt rc && in_int s
  | CSleep _ | CCompute _ => true
  end.

(** extra side condition under which the PINNED code round-trips (what it silently assumed) *)
Definition wf_pinned (c : call) : bool :=
  match c with
  | CAlltoall _ rs _ _ | CAllgather _ rs _ _ | CGather _ rs _ _ _ | CScatter _ rs _ _ _ => 0 <? rs
  | CRsBlock _ _ => false
  | CSleep u | CCompute u => round6 u =? u
  | _ => true
  end.

(** ------------------------------------------------------------------ integer-list protocol of the extracted driver *)
Definition kind_code (k : kind) : Z :=
  match k with
  | KInit => 0 | KFinalize => 1 | KBarrier => 2 | KSend => 3 | KIsend => 4 | KRecv => 5 | KIrecv => 6 | KWait => 7
  | KTest => 8 | KWaitall => 9 | KBcast => 10 | KReduce => 11 | KAllreduce => 12 | KAlltoall => 13 | KGather => 14
  | KAllgather => 15 | KScatter => 16 | KGatherv => 17 | KAllgatherv => 18 | KScatterv => 19 | KAlltoallv => 20
  | KReducescatter => 21 | KSendrecv => 22 | KSleep => 23 | KCompute => 24
  end.
Definition kind_of_code (z : Z) : option kind :=
  match z with
  | 0 => Some KInit | 1 => Some KFinalize | 2 => Some KBarrier | 3 => Some KSend | 4 => Some KIsend | 5 => Some KRecv
  | 6 => Some KIrecv | 7 => Some KWait | 8 => Some KTest | 9 => Some KWaitall | 10 => Some KBcast | 11 => Some KReduce
  | 12 => Some KAllreduce | 13 => Some KAlltoall | 14 => Some KGather | 15 => Some KAllgather | 16 => Some KScatter
  | 17 => Some KGatherv | 18 => Some KAllgatherv | 19 => Some KScatterv | 20 => Some KAlltoallv
  | 21 => Some KReducescatter | 22 => Some KSendrecv | 23 => Some KSleep | 24 => Some KCompute
  | _ => None
  end.

(** a call as integers: constructor code, then the fields; lists are length-prefixed *)
Definition zl (l : list Z) : list Z := Z.of_nat (length l) :: l.
Definition call_ints (c : call) : list Z :=
  match c with
  | CInit => [0] | CFinalize => [1] | CBarrier => [2]
  | CSend nb p t s d => [if nb then 4 else 3; p; t; s; d]
  | CRecv nb p t s d => [if nb then 6 else 5; p; t; s; d]
  | CWait s d t => [7; s; d; t]
  | CTest s d t => [8; s; d; t]
  | CWaitall c => [9; c]
  | CBcast s r d => [10; s; r; d]
  | CReduce s c r d => [11; s; c; r; d]
  | CAllreduce s c d => [12; s; c; d]
  | CAlltoall a b c d => [13; a; b; c; d]
  | CGather a b r c d => [14; a; b; r; c; d]
  | CAllgather a b c d => [15; a; b; c; d]
  | CScatter a b r c d => [16; a; b; r; c; d]
  | CGatherv s l r c d => [17; s] ++ zl l ++ [r; c; d]
  | CAllgatherv s l c d => [18; s] ++ zl l ++ [c; d]
  | CScatterv l s r c d => [19] ++ zl l ++ [s; r; c; d]
  | CAlltoallv sb sl rb rl c d => [20; sb] ++ zl sl ++ [rb] ++ zl rl ++ [c; d]
  | CReducescatter l c d => [21] ++ zl l ++ [c; d]
  | CRsBlock c d => [25; c; d]
  | CSendrecv a b c d e f => [22; a; b; c; d; e; f]
  | CSleep u => [23; u]
  | CCompute u => [24; u]
  end.

Definition take_zl (l : list Z) : list Z * list Z :=
  match l with
  | len :: r => take_n (Z.to_nat len) r
  | [] => ([], [])
  end.

Definition call_of_ints (l : list Z) : option call :=
  match l with
  | [0] => Some CInit | [1] => Some CFinalize | [2] => Some CBarrier
  | [3; p; t; s; d] => Some (CSend false p t s d)
  | [4; p; t; s; d] => Some (CSend true p t s d)
  | [5; p; t; s; d] => Some (CRecv false p t s d)
  | [6; p; t; s; d] => Some (CRecv true p t s d)
  | [7; s; d; t] => Some (CWait s d t)
  | [8; s; d; t] => Some (CTest s d t)
  | [9; c] => Some (CWaitall c)
  | [10; s; r; d] => Some (CBcast s r d)
  | [11; s; c; r; d] => Some (CReduce s c r d)
  | [12; s; c; d] => Some (CAllreduce s c d)
  | [13; a; b; c; d] => Some (CAlltoall a b c d)
  | [14; a; b; r; c; d] => Some (CGather a b r c d)
  | [15; a; b; c; d] => Some (CAllgather a b c d)
  | [16; a; b; r; c; d] => Some (CScatter a b r c d)
  | 17 :: s :: rest => let '(l1, r1) := take_zl rest in
                       match r1 with [r; c; d] => Some (CGatherv s l1 r c d) | _ => None end
  | 18 :: s :: rest => let '(l1, r1) := take_zl rest in
                       match r1 with [c; d] => Some (CAllgatherv s l1 c d) | _ => None end
  | 19 :: rest => let '(l1, r1) := take_zl rest in
                  match r1 with [s; r; c; d] => Some (CScatterv l1 s r c d) | _ => None end
  | 20 :: sb :: rest => let '(l1, r1) := take_zl rest in
                        match r1 with
                        | rb :: rest2 => let '(l2, r2) := take_zl rest2 in
                                         match r2 with [c; d] => Some (CAlltoallv sb l1 rb l2 c d) | _ => None end
                        | [] => None
                        end
  | 21 :: rest => let '(l1, r1) := take_zl rest in
                  match r1 with [c; d] => Some (CReducescatter l1 c d) | _ => None end
  | [25; c; d] => Some (CRsBlock c d)
  | [22; a; b; c; d; e; f] => Some (CSendrecv a b c d e f)
  | [23; u] => Some (CSleep u)
  | [24; u] => Some (CCompute u)
  | _ => None
  end.

Fixpoint toks_ints (l : list tok) : list Z :=
  match l with [] => [] | TI z :: r => 0 :: z :: toks_ints r | TA u :: r => 1 :: u :: toks_ints r end.
Fixpoint toks_of_ints (l : list Z) : list tok :=
  match l with
  | 0 :: z :: r => TI z :: toks_of_ints r
  | 1 :: u :: r => TA u :: toks_of_ints r
  | _ => []
  end.

(** input: fixed n <call ints>   output: kind code, then (tag, value) per token; [-1] when the input is not a call *)
Definition run_c37_encode (inp : list Z) : list Z :=
  match inp with
  | fixed :: n :: rest =>
      match call_of_ints rest with
      | Some c => let '(k, toks) := encode (negb (fixed =? 0)) n c in kind_code k :: toks_ints toks
      | None => [-1]
      end
  | _ => [-1]
  end.

(** input: dflt n kindcode <tok ints>   output: call ints, or [-1] when the parser rejects the line *)
Definition run_c37_decode (inp : list Z) : list Z :=
  match inp with
  | dflt :: n :: kc :: rest =>
      match kind_of_code kc with
      | Some k => match decode dflt n k (toks_of_ints rest) with Some c => call_ints c | None => [-1] end
      | None => [-2]
      end
  | _ => [-2]
  end.

(** input: n <call ints>   output: ints of [norm n call] followed by nothing; [-1] when not a call *)
Definition run_c37_norm (inp : list Z) : list Z :=
  match inp with
  | n :: rest => match call_of_ints rest with Some c => call_ints (norm n c) | None => [-1] end
  | _ => [-1]
  end.
