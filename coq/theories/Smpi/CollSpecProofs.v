(** C29 — proofs about the checker and the encodings of CollSpec.v *)
From SGV Require Import Base.Tactics Smpi.CollSched Smpi.CollSpec.
From Coq Require Import Permutation.
Local Open Scope Z_scope.

Definition cells_equiv (a b : list (list label)) : Prop := Forall2 (@Permutation label) a b.

(** ---- perm_b decides multiset equality *)
Lemma label_eqb_eq : forall a b, label_eqb a b = true <-> a = b.
Proof.
  intros [a1 a2] [b1 b2]; unfold label_eqb; cbn [fst snd]; split.
  - intros H; apply andb_true_iff in H as [H1 H2]; apply Z.eqb_eq in H1, H2; congruence.
  - intros H; inv H; rewrite !Z.eqb_refl; reflexivity.
Qed.

Lemma remove1_some : forall x l l', remove1 x l = Some l' -> Permutation l (x :: l').
Proof.
  induction l as [|y r IH]; intros l' H; cbn [remove1] in H; [discriminate |].
  destruct (label_eqb x y) eqn:E.
  - apply label_eqb_eq in E; inv H; apply Permutation_refl.
  - destruct (remove1 x r) as [r'|] eqn:R; [|discriminate]. inv H.
    eapply perm_trans; [apply perm_skip, IH; reflexivity | apply perm_swap].
Qed.

Lemma remove1_none : forall x l, remove1 x l = None -> ~ In x l.
Proof.
  induction l as [|y r IH]; intros H; cbn [remove1] in H; [intros [] |].
  destruct (label_eqb x y) eqn:E; [discriminate |].
  destruct (remove1 x r) eqn:R; [discriminate |].
  intros [-> | Hin]; [| now apply IH].
  assert (label_eqb x x = true) by now apply label_eqb_eq. congruence.
Qed.

Lemma perm_b_sound : forall l1 l2, perm_b l1 l2 = true -> Permutation l1 l2.
Proof.
  induction l1 as [|x r IH]; intros l2 H; cbn [perm_b] in H.
  - destruct l2; [constructor | discriminate].
  - destruct (remove1 x l2) as [l2'|] eqn:R; [|discriminate].
    apply remove1_some in R. apply Permutation_sym. eapply perm_trans; [exact R |].
    apply perm_skip, Permutation_sym, IH, H.
Qed.

Lemma perm_b_complete : forall l1 l2, Permutation l1 l2 -> perm_b l1 l2 = true.
Proof.
  induction l1 as [|x r IH]; intros l2 HP; cbn [perm_b].
  - apply Permutation_nil in HP; subst; reflexivity.
  - destruct (remove1 x l2) as [l2'|] eqn:R.
    + apply IH. apply remove1_some in R.
      apply Permutation_cons_inv with (a := x). eapply perm_trans; [exact HP | exact R].
    + apply remove1_none in R. exfalso; apply R. eapply Permutation_in; [exact HP | left; reflexivity].
Qed.

Theorem perm_b_correct : forall l1 l2, perm_b l1 l2 = true <-> Permutation l1 l2.
Proof. split; [apply perm_b_sound | apply perm_b_complete]. Qed.

Theorem cells_eqb_correct : forall a b, cells_eqb a b = true <-> cells_equiv a b.
Proof.
  induction a as [|x a IH]; intros [|y b]; cbn [cells_eqb]; split; intros H; try discriminate; try constructor;
    try (inv H; fail).
  - apply andb_true_iff in H as [H1 H2]. now apply perm_b_sound.
  - apply andb_true_iff in H as [H1 H2]. now apply IH.
  - inv H. apply andb_true_iff; split; [now apply perm_b_complete | now apply IH].
Qed.

(** ---- the fast path is sound *)
Lemma Forall2_map_same : forall (A B : Type) (R : B -> B -> Prop) (f g : A -> B) l,
  (forall x, R (f x) (g x)) -> Forall2 R (map f l) (map g l).
Proof. induction l; intros; cbn; constructor; auto. Qed.

Lemma run_eqb_sound : forall a b, run_eqb a b = true -> cells_equiv (expand_run a) (expand_run b).
Proof.
  intros [la sa ba] [lb sb bb]; unfold run_eqb, expand_run, cell_at; cbn [rlen rshift rbase]; intros H.
  apply andb_true_iff in H as [H H3]; apply andb_true_iff in H as [H1 H2].
  apply Z.eqb_eq in H1; apply Bool.eqb_prop in H2; apply perm_b_sound in H3; subst.
  apply Forall2_map_same; intros k; destruct sb; [apply Permutation_map |]; exact H3.
Qed.

Lemma runs_eqb_sound : forall l1 l2, runs_eqb l1 l2 = true -> cells_equiv (expand l1) (expand l2).
Proof.
  induction l1 as [|a r1 IH]; intros [|b r2] H; cbn [runs_eqb] in H; try discriminate; unfold expand; cbn [flat_map].
  - constructor.
  - apply andb_true_iff in H as [H1 H2]. apply Forall2_app; [now apply run_eqb_sound | now apply IH].
Qed.

Theorem obs_ok_correct : forall obs spec, obs_ok obs spec = true <-> cells_equiv (expand obs) (expand spec).
Proof.
  intros obs spec; unfold obs_ok; destruct (runs_eqb obs spec) eqn:E.
  - split; [intros _; now apply runs_eqb_sound | reflexivity].
  - apply cells_eqb_correct.
Qed.

(** the checker accepts exactly the buffers MPI defines (cell by cell, as multisets of contributions) *)
Theorem coll_ok_correct : forall kind np root count rank obs,
  coll_ok kind np root count rank obs = true <->
  cells_equiv (expand obs) (expand (spec_runs kind np root count rank)).
Proof. intros; apply obs_ok_correct. Qed.

(** zero-length runs do not matter *)
Lemma expand_filter : forall rs, expand (filter (fun r => 0 <? rlen r) rs) = expand rs.
Proof.
  induction rs as [|r rs IH]; [reflexivity |]; cbn [filter]; unfold expand in *; cbn [flat_map].
  destruct (Z.ltb_spec 0 (rlen r)); cbn [flat_map]; rewrite IH; [reflexivity |].
  unfold expand_run, zseq. replace (Z.to_nat (rlen r)) with 0%nat by lia. reflexivity.
Qed.

(** ---- barrier *)
Theorem barrier_ok_correct : forall enters exits,
  barrier_ok enters exits = true <-> (forall e x, In e enters -> In x exits -> e <= x).
Proof.
  intros; unfold barrier_ok; rewrite forallb_forall; split.
  - intros H e x He Hx. specialize (H x Hx). rewrite forallb_forall in H. specialize (H e He). lia.
  - intros H x Hx. rewrite forallb_forall; intros e He. specialize (H e x He Hx). lia.
Qed.

(** ---- the compact encoding is faithful on multisets with at most one contribution per rank *)
Lemma cnt_cons : forall q i m r, cnt ((q, i) :: m) r = (if q =? r then 1 else 0) + cnt m r.
Proof. reflexivity. Qed.
Lemma isum_cons : forall q i m r, isum ((q, i) :: m) r = (if q =? r then i else 0) + isum m r.
Proof. reflexivity. Qed.
Lemma cnt_nonneg : forall m r, 0 <= cnt m r.
Proof. induction m as [|[q i] m IH]; intros r; [cbn; lia |]. rewrite cnt_cons. specialize (IH r). destruct (q =? r); lia. Qed.
Lemma cnt_zero_isum : forall m r, cnt m r = 0 -> isum m r = 0.
Proof.
  induction m as [|[q i] m IH]; intros r H; [reflexivity |]. rewrite cnt_cons in H. rewrite isum_cons.
  pose proof (cnt_nonneg m r). destruct (q =? r); [lia |]. rewrite IH; lia.
Qed.
Lemma cnt_notin : forall m r, ~ In r (map fst m) -> cnt m r = 0.
Proof.
  induction m as [|[q i] m IH]; intros r H; [reflexivity |]. rewrite cnt_cons. cbn [map fst In] in H.
  destruct (Z.eqb_spec q r); [exfalso; apply H; now left |]. rewrite IH; [lia | tauto].
Qed.
Lemma cnt_all_zero_nil : forall m, (forall r, cnt m r = 0) -> m = [].
Proof.
  intros [|[q i] m] H; [reflexivity |]. specialize (H q). rewrite cnt_cons, Z.eqb_refl in H.
  pose proof (cnt_nonneg m q). lia.
Qed.

(** a rank counted once can be pulled to the front *)
Lemma cnt_one_split : forall m r, cnt m r = 1 ->
  exists i m', Permutation m ((r, i) :: m') /\ cnt m' r = 0 /\ isum m r = i /\
               (forall r', r' <> r -> cnt m' r' = cnt m r' /\ isum m' r' = isum m r').
Proof.
  induction m as [|[q j] m IH]; intros r H; [cbn in H; lia |].
  rewrite cnt_cons in H. destruct (Z.eqb_spec q r) as [-> | Hne].
  - exists j, m. assert (Hc : cnt m r = 0) by lia. repeat split.
    + apply Permutation_refl.
    + exact Hc.
    + rewrite isum_cons, Z.eqb_refl, (cnt_zero_isum _ _ Hc). lia.
    + rewrite cnt_cons. destruct (Z.eqb_spec r r'); [congruence | lia].
    + rewrite isum_cons. destruct (Z.eqb_spec r r'); [congruence | lia].
  - destruct (IH r) as (i & m' & HP & Hc & Hi & Hother); [lia |].
    exists i, ((q, j) :: m'). repeat split.
    + eapply perm_trans; [apply perm_skip, HP | apply perm_swap].
    + rewrite cnt_cons. destruct (Z.eqb_spec q r); [congruence | lia].
    + rewrite isum_cons. destruct (Z.eqb_spec q r); [congruence | lia].
    + rewrite !cnt_cons. destruct (Hother r' H0). lia.
    + rewrite !isum_cons. destruct (Hother r' H0). lia.
Qed.

Theorem compact_faithful : forall spec m,
  NoDup (map fst spec) ->
  (forall r, cnt m r = cnt spec r /\ isum m r = isum spec r) ->
  Permutation m spec.
Proof.
  induction spec as [|[r0 i0] s IH]; intros m Hnd Heq.
  - rewrite (cnt_all_zero_nil m); [constructor |]. intros r; apply (Heq r).
  - cbn [map fst] in Hnd. inv Hnd.
    assert (Hs0 : cnt s r0 = 0) by now apply cnt_notin.
    destruct (Heq r0) as [Hc Hi]. rewrite cnt_cons, Z.eqb_refl, Hs0 in Hc.
    rewrite isum_cons, Z.eqb_refl, (cnt_zero_isum _ _ Hs0) in Hi.
    destruct (cnt_one_split m r0) as (i & m' & HP & Hc' & Hi' & Hother); [lia |].
    assert (Hii : i = i0) by lia. rewrite Hii in HP.
    eapply perm_trans; [exact HP |]. apply perm_skip. apply IH; [assumption |].
    intros r. destruct (Z.eq_dec r r0) as [-> | Hne].
    + rewrite Hc', Hs0, (cnt_zero_isum _ _ Hc'), (cnt_zero_isum _ _ Hs0). split; reflexivity.
    + destruct (Hother r Hne) as [Ho1 Ho2]. destruct (Heq r) as [H3 H4].
      rewrite cnt_cons in H3. rewrite isum_cons in H4.
      destruct (Z.eqb_spec r0 r); [congruence |]. lia.
Qed.

(** ---- the specification, cell by cell, for the collectives with a one-line MPI definition *)
Lemma zseq_from_length : forall n s, List.length (zseq_from s n) = n.
Proof. induction n; intros; cbn [zseq_from List.length]; [reflexivity | now rewrite IHn]. Qed.
Lemma zseq_length : forall n, List.length (zseq n) = Z.to_nat n.
Proof. intros; unfold zseq; apply zseq_from_length. Qed.
Lemma zseq_from_nth : forall n s k, (k < n)%nat -> nth k (zseq_from s n) (-1) = s + Z.of_nat k.
Proof.
  induction n; intros s k H; [lia |]. cbn [zseq_from]. destruct k; cbn [nth]; [lia |].
  rewrite IHn by lia. lia.
Qed.
Lemma zseq_nth : forall n k, 0 <= k < n -> nth (Z.to_nat k) (zseq n) (-1) = k.
Proof. intros n k H; unfold zseq. rewrite zseq_from_nth by lia. lia. Qed.
Lemma zseq_from_in : forall n s x, In x (zseq_from s n) -> s <= x.
Proof.
  induction n; intros s x H; cbn [zseq_from In] in H; [tauto |]. destruct H as [-> | H]; [lia |].
  apply IHn in H. lia.
Qed.
Lemma expand_single : forall len sh base k, 0 <= k < len ->
  nth (Z.to_nat k) (expand [mkrun len sh base]) [] = cell_at (mkrun len sh base) k.
Proof.
  intros len sh base k H; unfold expand; cbn [flat_map]; rewrite app_nil_r; unfold expand_run; cbn [rlen].
  rewrite nth_indep with (d' := cell_at (mkrun len sh base) (-1)) by (rewrite map_length, zseq_length; lia).
  rewrite map_nth, zseq_nth by lia. reflexivity.
Qed.

(** bcast: element k of every rank's buffer is element k of the root *)
Theorem spec_bcast : forall np root count rank k, 0 <= k < count ->
  nth (Z.to_nat k) (expand (spec_runs 0 np root count rank)) [] = [(root, k)].
Proof.
  intros; unfold spec_runs; rewrite expand_filter; cbn [spec_runs_raw]. rewrite expand_single by lia. reflexivity.
Qed.
(** allreduce: element k of every rank = combination of element k of every rank *)
Theorem spec_allreduce : forall np root count rank k, 0 <= k < count ->
  nth (Z.to_nat k) (expand (spec_runs 2 np root count rank)) [] = map (fun q => (q, k)) (zseq np).
Proof.
  intros; unfold spec_runs; rewrite expand_filter; cbn [spec_runs_raw]. rewrite expand_single by lia.
  unfold cell_at, allr; cbn [rshift rbase]. rewrite map_map. reflexivity.
Qed.
(** reduce: the same at the root, nothing significant elsewhere *)
Theorem spec_reduce : forall np root count rank k, 0 <= k < count ->
  nth (Z.to_nat k) (expand (spec_runs 1 np root count root)) [] = map (fun q => (q, k)) (zseq np) /\
  (rank <> root -> expand (spec_runs 1 np root count rank) = []).
Proof.
  intros; unfold spec_runs; rewrite !expand_filter; cbn [spec_runs_raw]. rewrite Z.eqb_refl. split.
  - rewrite expand_single by lia. unfold cell_at, allr; cbn [rshift rbase]. rewrite map_map. reflexivity.
  - intros Hne. destruct (Z.eqb_spec rank root); [congruence | reflexivity].
Qed.
(** scan: element k of rank r = combination of element k of ranks 0..r *)
Theorem spec_scan : forall np root count rank k, 0 <= k < count ->
  nth (Z.to_nat k) (expand (spec_runs 14 np root count rank)) [] = map (fun q => (q, k)) (zseq (rank + 1)).
Proof.
  intros; unfold spec_runs; rewrite expand_filter; cbn [spec_runs_raw]. rewrite expand_single by lia.
  unfold cell_at, allr; cbn [rshift rbase]. rewrite map_map. reflexivity.
Qed.
(** scatter: element k of rank r = element r*count+k of the root *)
Theorem spec_scatter : forall np root count rank k, 0 <= k < count ->
  nth (Z.to_nat k) (expand (spec_runs 5 np root count rank)) [] = [(root, rank * count + k)].
Proof.
  intros; unfold spec_runs; rewrite expand_filter; cbn [spec_runs_raw]. rewrite expand_single by lia. reflexivity.
Qed.

(** every reducing specification has at most one contribution per rank (what compact_faithful needs) *)
Lemma zseq_NoDup : forall n, NoDup (zseq n).
Proof.
  intros; unfold zseq. generalize 0. induction (Z.to_nat n) as [|k IH]; intros s; cbn [zseq_from]; constructor.
  - intros H; apply zseq_from_in in H. lia.
  - apply IH.
Qed.
Lemma allr_fst : forall np i, map fst (allr np i) = zseq np.
Proof. intros; unfold allr; rewrite map_map; cbn [fst]. apply map_id. Qed.
Theorem spec_allr_cell_nodup : forall np i k,
  NoDup (map fst (cell_at (mkrun 1 true (allr np i)) k)).
Proof.
  intros; unfold cell_at; cbn [rshift rbase]. rewrite map_map; cbn [fst].
  change (map (fun x : label => fst x) (allr np i)) with (map fst (allr np i)). rewrite allr_fst. apply zseq_NoDup.
Qed.
