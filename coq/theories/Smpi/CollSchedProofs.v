(** C29 — the free-monoid lifting: what a schedule computes on provenance labels determines what it computes in every
    commutative monoid on every input. *)
From SGV Require Import Base.Tactics Smpi.CollSched.
From Coq Require Import Permutation.
Local Open Scope Z_scope.

Section Lifting.
  Variable M : CMonoid.
  Variable v : label -> car M.

  Local Notation "a == b" := (eqv M a b) (at level 70).
  Local Notation "a (+) b" := (op M a b) (at level 50, left associativity).

  Lemma op_unit_r : forall x, x (+) unit M == x.
  Proof. intros; eapply eqv_trans; [apply op_comm | apply op_unit_l]. Qed.

  Lemma hom_app : forall l1 l2, hom M v (l1 ++ l2) == hom M v l1 (+) hom M v l2.
  Proof.
    induction l1 as [|x l1 IH]; intros l2; cbn [hom app].
    - apply eqv_sym, op_unit_l.
    - eapply eqv_trans; [apply op_proper; [apply eqv_refl | apply IH] |].
      apply eqv_sym, op_assoc.
  Qed.

  Lemma hom_perm : forall l1 l2, Permutation l1 l2 -> hom M v l1 == hom M v l2.
  Proof.
    induction 1 as [| x l l' HP IH | x y l | l l' l'' HP1 IH1 HP2 IH2]; cbn [hom].
    - apply eqv_refl.
    - apply op_proper; [apply eqv_refl | exact IH].
    - (* y (+) (x (+) r) == x (+) (y (+) r) *)
      eapply eqv_trans; [apply eqv_sym, op_assoc |].
      eapply eqv_trans; [| apply op_assoc].
      apply op_proper; [apply op_comm | apply eqv_refl].
    - eapply eqv_trans; eauto.
  Qed.

  (** the invariant: the M-state is the homomorphic image of the label-state *)
  Definition related (sm : state M) (sf : state Free) : Prop := forall c, sm c == hom M v (sf c).

  Lemma upd_related : forall sm sf d x l, related sm sf -> x == hom M v l -> related (upd sm d x) (upd (M:=Free) sf d l).
  Proof.
    intros sm sf d x l HR Hx c; unfold upd; destruct (c =? d); [exact Hx | apply HR].
  Qed.

  Lemma exec_related : forall s sm sf, related sm sf -> related (exec sm s) (exec (M:=Free) sf s).
  Proof.
    intros [d s | d s | d a b] sm sf HR; cbn [exec]; apply upd_related; try exact HR.
    - apply HR.
    - eapply eqv_trans; [apply op_proper; apply HR |]. apply eqv_sym. apply (hom_app (sf d) (sf s)).
    - eapply eqv_trans; [apply op_proper; apply HR |]. apply eqv_sym. apply (hom_app (sf a) (sf b)).
  Qed.

  Lemma run_related : forall S sm sf, related sm sf -> related (run_sched S sm) (run_sched (M:=Free) S sf).
  Proof.
    induction S as [|s S IH]; intros sm sf HR; cbn [run_sched fold_left]; [exact HR |].
    apply IH, exec_related, HR.
  Qed.

  (** running commutes with the homomorphism *)
  Theorem hom_run : forall S (lab : cell -> list label) c,
    run_sched S (fun c => hom M v (lab c)) c == hom M v (run_sched (M:=Free) S lab c).
  Proof.
    intros S lab; apply run_related; intros c; apply eqv_refl.
  Qed.

  (** if on provenance labels the schedule yields the specified multisets, then on every input it yields the fold of the
      operator over the specified multiset *)
  Theorem free_monoid_lifting : forall S (lab spec : cell -> list label) (out : cell -> Prop),
    (forall c, out c -> Permutation (run_sched (M:=Free) S lab c) (spec c)) ->
    forall c, out c -> run_sched S (fun c => hom M v (lab c)) c == hom M v (spec c).
  Proof.
    intros S lab spec out Hfree c Hc.
    eapply eqv_trans; [apply hom_run |]. apply hom_perm, Hfree, Hc.
  Qed.

  (** uniqueness: any map from multisets to M that sends [] to the unit, ++ to (+) and generator x to v x is hom *)
  Theorem hom_unique : forall h : list label -> car M,
    h [] == unit M -> (forall l1 l2, h (l1 ++ l2) == h l1 (+) h l2) -> (forall x, h [x] == v x) ->
    forall l, h l == hom M v l.
  Proof.
    intros h H0 Happ Hgen; induction l as [|x l IH]; cbn [hom]; [exact H0 |].
    change (x :: l) with ([x] ++ l).
    eapply eqv_trans; [apply Happ |]. apply op_proper; [apply Hgen | exact IH].
  Qed.
End Lifting.

(** a singleton generator is mapped to its value *)
Lemma hom_single : forall M v x, eqv M (hom M v [x]) (v x).
Proof. intros; cbn [hom]. eapply eqv_trans; [apply op_comm | apply op_unit_l]. Qed.

(** ---- a concrete schedule used for the non-vacuity examples: 3 ranks, 1 element; cells 0,1,2 = send buffers,
    10,11,12 = receive buffers; binomial reduce to rank 0 then broadcast *)
Definition demo_allreduce : list step :=
  [Copy 20 2;            (* rank 2 -> rank 0 : message *)
   Red3 30 0 20;         (* rank 0: tmp = own (+) received *)
   Copy 21 1; Red 30 21; (* rank 1 -> rank 0, reduce *)
   Copy 10 30; Copy 11 10; Copy 12 11].  (* result, forwarded along a chain *)
Definition demo_lab (c : cell) : list label := if (0 <=? c) && (c <? 3) then [(c, 0)] else [].
Definition demo_spec (c : cell) : list label := [(0, 0); (1, 0); (2, 0)].

Lemma demo_free_ok : forall c, (c = 10 \/ c = 11 \/ c = 12) ->
  Permutation (run_sched (M:=Free) demo_allreduce demo_lab c) (demo_spec c).
Proof.
  intros c [-> | [-> | ->]]; vm_compute;
    (apply perm_trans with [(0,0);(2,0);(1,0)]; [apply Permutation_refl | apply perm_skip, perm_swap]).
Qed.
