(** C32 — Group::compare and Comm::split *)
From SGV Require Import Base.Tactics Smpi.Group Smpi.GroupProofs.
From Coq Require Import Permutation Sorting.Sorted.
Local Open Scope Z_scope.

(** * compare *)
Lemma compare_loop_spec : forall g1 g2 idx res,
  compare_loop g1 g2 idx res =
  if existsb (fun i => g_rank g2 (g_actor g1 i) =? UNDEF) idx then UNEQUAL
  else if existsb (fun i => negb (g_rank g2 (g_actor g1 i) =? i)) idx then SIMILAR else res.
Proof.
  intros g1 g2. induction idx as [|i idx IH]; intros res; cbn [compare_loop existsb]; [reflexivity|].
  destruct (g_rank g2 (g_actor g1 i) =? UNDEF) eqn:E1; cbn [orb]; [reflexivity|].
  rewrite IH. destruct (existsb (fun i0 => g_rank g2 (g_actor g1 i0) =? UNDEF) idx); [reflexivity|].
  destruct (g_rank g2 (g_actor g1 i) =? i); cbn [negb orb]; [reflexivity|].
  destruct (existsb (fun i0 => negb (g_rank g2 (g_actor g1 i0) =? i0)) idx); reflexivity.
Qed.

Lemma actor_in : forall g i, 0 <= i < g_size g -> In (g_actor g i) g.
Proof. intros g i H. rewrite g_actor_nth by assumption. apply nth_In. unfold g_size in H. lia. Qed.
Lemma in_actor : forall g a, In a g -> exists i, 0 <= i < g_size g /\ g_actor g i = a.
Proof. intros g a H. destruct (proj1 (g_rank_spec g a) H) as [H1 H2]. eauto. Qed.

Lemma group_ext : forall g1 g2, g_size g1 = g_size g2 ->
  (forall i, 0 <= i < g_size g1 -> g_actor g1 i = g_actor g2 i) -> g1 = g2.
Proof.
  intros g1 g2 Hs H. unfold g_size in *. apply (nth_ext g1 g2 (-1) (-1)); [lia|].
  intros n Hn. specialize (H (Z.of_nat n) ltac:(lia)).
  rewrite !g_actor_nth in H by (unfold g_size; lia). rewrite Nat2Z.id in H. assumption.
Qed.

Lemma compare_spec : forall g1 g2, NoDup g1 -> NoDup g2 ->
  (compare g1 g2 = IDENT /\ g1 = g2) \/
  (compare g1 g2 = SIMILAR /\ Permutation g1 g2 /\ g1 <> g2) \/
  (compare g1 g2 = UNEQUAL /\ ~ Permutation g1 g2).
Proof.
  intros g1 g2 Hn1 Hn2. unfold compare.
  destruct (g_size g1 =? g_size g2) eqn:Es; cbn [negb].
  2:{ right. right. split; [reflexivity|]. intros Hp. apply Permutation_length in Hp. unfold g_size in Es. lia. }
  apply Z.eqb_eq in Es. rewrite compare_loop_spec.
  destruct (existsb (fun i => g_rank g2 (g_actor g1 i) =? UNDEF) (indices g1)) eqn:E1.
  - right. right. split; [reflexivity|]. intros Hp.
    apply existsb_exists in E1. destruct E1 as [i [Hi E]]. apply In_indices in Hi.
    rewrite g_rank_undef in E. apply negb_true_iff, mem_false in E. apply E.
    eapply Permutation_in; [exact Hp|]. apply actor_in. assumption.
  - assert (Hall : forall i, 0 <= i < g_size g1 -> In (g_actor g1 i) g2).
    { intros i Hi. destruct (mem (g_actor g1 i) g2) eqn:Em; [apply mem_In; assumption|]. exfalso.
      assert (Hex : existsb (fun i => g_rank g2 (g_actor g1 i) =? UNDEF) (indices g1) = true).
      { apply existsb_exists. exists i. split; [apply In_indices; assumption|]. rewrite g_rank_undef, Em. reflexivity. }
      congruence. }
    assert (Hperm : Permutation g1 g2).
    { apply NoDup_Permutation_bis; [assumption|unfold g_size in Es; lia|].
      intros a Ha. destruct (in_actor g1 a Ha) as [i [Hi Ea]]. subst a. apply Hall. assumption. }
    destruct (existsb (fun i => negb (g_rank g2 (g_actor g1 i) =? i)) (indices g1)) eqn:E2.
    + right. left. split; [reflexivity|]. split; [assumption|]. intros Heq. subst g2.
      apply existsb_exists in E2. destruct E2 as [i [Hi E]]. apply In_indices in Hi.
      rewrite g_rank_actor in E by assumption. rewrite Z.eqb_refl in E. discriminate.
    + left. split; [reflexivity|]. apply group_ext; [assumption|]. intros i Hi.
      assert (Er : g_rank g2 (g_actor g1 i) = i).
      { destruct (g_rank g2 (g_actor g1 i) =? i) eqn:E; [apply Z.eqb_eq; assumption|]. exfalso.
        assert (Hex : existsb (fun i => negb (g_rank g2 (g_actor g1 i) =? i)) (indices g1) = true).
        { apply existsb_exists. exists i. split; [apply In_indices; assumption|]. rewrite E. reflexivity. }
        congruence. }
      destruct (proj1 (g_rank_spec g2 (g_actor g1 i)) (Hall i Hi)) as [_ H]. rewrite Er in H. symmetry. assumption.
Qed.

(** * sorting (key, rank) pairs *)
Definition ple (a b : Z * Z) : Prop := pair_le a b = true.
Lemma ple_total : forall a b, pair_le a b = false -> ple b a.
Proof. intros [a1 a2] [b1 b2]. unfold ple, pair_le. cbn [fst snd]. lia. Qed.
Lemma ple_trans : forall a b c, ple a b -> ple b c -> ple a c.
Proof. intros [a1 a2] [b1 b2] [c1 c2]. unfold ple, pair_le. cbn [fst snd]. lia. Qed.

Lemma insert_perm : forall x l, Permutation (insert_pair x l) (x :: l).
Proof.
  induction l as [|a l IH]; cbn [insert_pair]; [apply Permutation_refl|].
  destruct (pair_le x a); [apply Permutation_refl|]. eapply perm_trans; [apply perm_skip; exact IH|apply perm_swap].
Qed.
Lemma sort_perm : forall l, Permutation (sort_pairs l) l.
Proof.
  induction l as [|a l IH]; [apply Permutation_refl|]. unfold sort_pairs in *. cbn [fold_right].
  eapply perm_trans; [apply insert_perm|apply perm_skip; exact IH].
Qed.
Lemma insert_sorted : forall x l, StronglySorted ple l -> StronglySorted ple (insert_pair x l).
Proof.
  induction l as [|a l IH]; intros Hs; cbn [insert_pair]; [repeat constructor|].
  inv Hs. destruct (pair_le x a) eqn:E.
  - constructor; [constructor; assumption|]. constructor; [exact E|].
    rewrite Forall_forall in *. intros y Hy. eapply ple_trans; [exact E|apply H2; assumption].
  - constructor; [apply IH; assumption|]. rewrite Forall_forall in *. intros y Hy.
    apply (Permutation_in _ (insert_perm x l)) in Hy. destruct Hy as [Hy|Hy]; [subst; apply ple_total; assumption|apply H2; assumption].
Qed.
Lemma sort_sorted : forall l, StronglySorted ple (sort_pairs l).
Proof. induction l as [|a l IH]; [constructor|]. unfold sort_pairs in *. cbn [fold_right]. apply insert_sorted. assumption. Qed.

Lemma sorted_map : forall (f : Z -> Z * Z) l,
  StronglySorted ple l -> (forall p, In p l -> p = f (snd p)) ->
  StronglySorted (fun a b => ple (f a) (f b)) (map snd l).
Proof.
  intros f. induction l as [|p l IH]; intros Hs Hf; cbn [map]; [constructor|]. inv Hs.
  constructor; [apply IH; [assumption|intros; apply Hf; right; assumption]|].
  rewrite Forall_forall in *. intros y Hy. apply in_map_iff in Hy. destruct Hy as [q [Eq Hq]]. subst y.
  rewrite <- (Hf p (or_introl eq_refl)), <- (Hf q (or_intror Hq)). apply H2. assumption.
Qed.

(** * Comm::split *)
Definition col (cks : list (Z * Z)) (j : Z) : Z := fst (nth (Z.to_nat j) cks (UNDEF, 0)).
Definition key (cks : list (Z * Z)) (j : Z) : Z := snd (nth (Z.to_nat j) cks (UNDEF, 0)).

Lemma first_with_spec : forall colors c i0, In c colors ->
  let f := first_with c i0 colors in
  i0 <= f < i0 + Z.of_nat (length colors) /\ nth (Z.to_nat (f - i0)) colors UNDEF = c /\
  (forall j, i0 <= j < f -> nth (Z.to_nat (j - i0)) colors UNDEF <> c).
Proof.
  induction colors as [|x colors IH]; intros c i0 Hin; [destruct Hin|]. cbn [first_with length].
  destruct (x =? c) eqn:E.
  - apply Z.eqb_eq in E. subst. rewrite Z.sub_diag. cbn. repeat split; try lia.
  - apply Z.eqb_neq in E. destruct Hin as [Hin|Hin]; [congruence|].
    destruct (IH c (i0 + 1) Hin) as [H1 [H2 H3]]. cbn zeta. repeat split; try lia.
    + replace (Z.to_nat (first_with c (i0 + 1) colors - i0)) with (S (Z.to_nat (first_with c (i0 + 1) colors - (i0 + 1)))) by lia.
      cbn [nth]. assumption.
    + intros j Hj. destruct (Z.eq_dec j i0) as [->|Hne]; [rewrite Z.sub_diag; cbn; assumption|].
      replace (Z.to_nat (j - i0)) with (S (Z.to_nat (j - (i0 + 1)))) by lia. cbn [nth]. apply H3. lia.
Qed.

Lemma col_map : forall cks j, nth (Z.to_nat j) (map fst cks) UNDEF = col cks j.
Proof. intros. unfold col. change UNDEF with (fst (UNDEF, 0)) at 1. apply map_nth. Qed.

Lemma split_spec : forall cks r, 0 <= r < Z.of_nat (length cks) -> col cks r <> UNDEF ->
  exists l, split_ranks cks r = Some l /\ NoDup l /\
    (forall j, In j l <-> 0 <= j < Z.of_nat (length cks) /\ col cks j = col cks r) /\
    StronglySorted (fun a b => ple (key cks a, a) (key cks b, b)) l.
Proof.
  intros cks r Hr Hc. unfold split_ranks. fold (col cks r).
  destruct (col cks r =? UNDEF) eqn:E; [apply Z.eqb_eq in E; contradiction|]. clear E.
  set (c := col cks r). set (n := Z.of_nat (length cks)) in *.
  assert (Hin : In c (map fst cks)).
  { unfold c. rewrite <- col_map. apply nth_In. rewrite map_length. lia. }
  destruct (first_with_spec (map fst cks) c 0 Hin) as [F1 [F2 F3]]. cbn zeta in *.
  set (i0 := first_with c 0 (map fst cks)) in *. rewrite map_length in F1. rewrite Z.sub_0_r in F2. rewrite col_map in F2.
  assert (F3' : forall j, 0 <= j < i0 -> col cks j <> c).
  { intros j Hj. rewrite <- col_map. specialize (F3 j Hj). rewrite Z.sub_0_r in F3. assumption. }
  eexists. split; [reflexivity|].
  set (rm := rankmap cks i0).
  assert (Hrm : forall p, In p rm <-> exists j, p = (key cks j, j) /\ 0 <= j < n /\ col cks j = c).
  { intros p. unfold rm, rankmap. fold (col cks i0) (key cks i0). rewrite F2. rewrite in_app_iff, in_map_iff. split.
    - intros [[j [Ej Hj]]|[Ep|[]]].
      + apply filter_In in Hj. destruct Hj as [Hj1 Hj2]. apply In_zseq in Hj1. fold (col cks j) in Hj2. fold (key cks j) in Ej.
        exists j. split; [congruence|]. fold n in Hj1. split; [lia|]. lia.
      + exists i0. split; [congruence|]. split; [lia|assumption].
    - intros [j [Ep [Hj Ej]]]. subst p. destruct (Z.eq_dec j i0) as [->|Hne]; [right; left; reflexivity|].
      left. exists j. split; [reflexivity|]. apply filter_In. split; [apply In_zseq; fold n; lia|]. fold (col cks j).
      assert (i0 < j). { destruct (Z_lt_le_dec i0 j); [assumption|]. exfalso. apply (F3' j); [lia|assumption]. }
      lia. }
  assert (Hnd : NoDup (map snd rm)).
  { unfold rm, rankmap. rewrite map_app, map_map. cbn [map snd]. rewrite map_id.
    apply NoDup_app_disj; [apply NoDup_filter, NoDup_zseq|repeat constructor; intros []|].
    intros x Hx [Hx2|[]]. subst x. apply filter_In in Hx. lia. }
  pose proof (sort_perm rm) as Hp.
  split; [eapply Permutation_NoDup; [apply Permutation_map, Permutation_sym; exact Hp|assumption]|]. split.
  - intros j. rewrite in_map_iff. split.
    + intros [p [Ep Hpin]]. apply (Permutation_in _ Hp) in Hpin. apply Hrm in Hpin.
      destruct Hpin as [j' [Ep' Hj']]. subst p. cbn [snd] in Ep. subst j'. assumption.
    + intros Hj. exists (key cks j, j). split; [reflexivity|]. apply (Permutation_in _ (Permutation_sym Hp)). apply Hrm. eauto.
  - apply (sorted_map (fun a => (key cks a, a))); [apply sort_sorted|].
    intros p Hpin. apply (Permutation_in _ Hp) in Hpin. apply Hrm in Hpin. destruct Hpin as [j [Ep _]]. subst p. reflexivity.
Qed.
