(** C36 — mmap privatization of global variables (src/smpi/internals/smpi_memory.cpp).

    One address window (the data+bss segment of the executable) is shared by all ranks (they are user-level contexts of
    one OS process).  Every rank owns a backing store (a shm file initialised from the clean copy
    [smpi_data_exe_copy]); [smpi_switch_data_segment(actor)] maps the store of [actor] over the window
    (mmap MAP_FIXED|MAP_SHARED, so accesses through the window go straight to that store) unless
    [smpi_loaded_page] already is that actor.  Before the first switch the window is the original segment.

    Events on the single OS thread:
      ESwitch r   ActorImpl::yield() returns in rank r (or library code running for r switches back to r):
                  current rank := r, smpi_switch_data_segment(r)
      ESkip r     a context switch to r WITHOUT the hook (does not exist in the code; used to show the hook is needed)
      EForeign p  smpi_switch_data_segment(p) issued by library/kernel code for another actor's buffer
                  (smpi_comm_copy_buffer_callback, Request::finish_wait, ...)
      EWrite a v  the current rank stores v into global cell a
      ERead a     the current rank loads global cell a (observed)

    No proofs here. *)
From SGV Require Import Base.Tactics.
Local Open Scope Z_scope.

Definition mem := Z -> Z.
Definition upd (m : mem) (a v : Z) : mem := fun x => if x =? a then v else m x.

Inductive event := ESwitch (r : Z) | ESkip (r : Z) | EForeign (p : Z) | EWrite (a v : Z) | ERead (a : Z).

(** ------------------------------------------------------------ the implementation *)
Record state := mkState { store : Z -> mem; orig : mem; loaded : option Z; cur : Z }.

Definition init_state (init : mem) : state := mkState (fun _ => init) init None (-1).

(* static aid_t smpi_loaded_page = -1; if (smpi_loaded_page == pid) return true; mmap(...); smpi_loaded_page = pid *)
Definition switch_seg (st : state) (r : Z) : state :=
  match loaded st with
  | Some p => if p =? r then st else mkState (store st) (orig st) (Some r) (cur st)
  | None => mkState (store st) (orig st) (Some r) (cur st)
  end.

Definition window (st : state) : mem :=
  match loaded st with Some p => store st p | None => orig st end.

Definition write_window (st : state) (a v : Z) : state :=
  match loaded st with
  | Some p => mkState (fun r => if r =? p then upd (store st r) a v else store st r) (orig st) (loaded st) (cur st)
  | None => mkState (store st) (upd (orig st) a v) (loaded st) (cur st)
  end.

Definition set_cur (st : state) (r : Z) : state := mkState (store st) (orig st) (loaded st) r.

(* an observed read: (rank, cell, value) *)
Definition obs := (Z * Z * Z)%type.

Definition step (st : state) (e : event) : state * option obs :=
  match e with
  | ESwitch r => (switch_seg (set_cur st r) r, None)
  | ESkip r => (set_cur st r, None)
  | EForeign p => (switch_seg st p, None)
  | EWrite a v => (write_window st a v, None)
  | ERead a => (st, Some (cur st, a, window st a))
  end.

Fixpoint run_from (st : state) (t : list event) : list obs :=
  match t with
  | [] => []
  | e :: r => let '(st', o) := step st e in
              match o with Some x => x :: run_from st' r | None => run_from st' r end
  end.
Definition run_impl (init : mem) (t : list event) : list obs := run_from (init_state init) t.

(** ------------------------------------------------------------ the specification *)
(** history of writes, newest first: (rank, cell, value).  A read by r of cell a must return r's own last write to a,
    or the initial value when r never wrote a. *)
Fixpoint own_last (hist : list obs) (r a : Z) (init : mem) : Z :=
  match hist with
  | [] => init a
  | (r', a', v) :: h => if (r' =? r) && (a' =? a) then v else own_last h r a init
  end.

Fixpoint spec_from (init : mem) (hist : list obs) (c : Z) (t : list event) : list obs :=
  match t with
  | [] => []
  | ESwitch r :: k | ESkip r :: k => spec_from init hist r k
  | EForeign _ :: k => spec_from init hist c k
  | EWrite a v :: k => spec_from init ((c, a, v) :: hist) c k
  | ERead a :: k => (c, a, own_last hist c a init) :: spec_from init hist c k
  end.
Definition run_spec (init : mem) (t : list event) : list obs := spec_from init [] (-1) t.

(** "a switch happens at every context switch": every access is made while the last page-affecting event was the
    hook for the current rank *)
Fixpoint disc_from (ok : bool) (t : list event) : bool :=
  match t with
  | [] => true
  | ESwitch _ :: k => disc_from true k
  | ESkip _ :: k => disc_from false k
  | EForeign _ :: k => disc_from false k
  | EWrite _ _ :: k | ERead _ :: k => ok && disc_from ok k
  end.
Definition disciplined (t : list event) : bool := disc_from false t.

(** verified oracle on implementation observations: are the observed reads those of the specification? *)
Fixpoint obs_eqb (x y : list obs) : bool :=
  match x, y with
  | [], [] => true
  | (r, a, v) :: x', (r', a', v') :: y' => (r =? r') && (a =? a') && (v =? v') && obs_eqb x' y'
  | _, _ => false
  end.

(** ------------------------------------------------------------ integer-list protocol *)
(** input: default initial value, number of (cell, value) initial pairs, the pairs, then events as triples
    (0 r _ | 1 r _ | 2 p _ | 3 a v | 4 a _) *)
Fixpoint mem_of (d : Z) (l : list (Z * Z)) : mem :=
  match l with [] => fun _ => d | (a, v) :: r => upd (mem_of d r) a v end.
Fixpoint events_of (l : list Z) (fuel : nat) : list event :=
  match fuel with
  | O => []
  | S f => match l with
           | c :: x :: y :: r =>
               (match c with 0 => ESwitch x | 1 => ESkip x | 2 => EForeign x | 3 => EWrite x y | _ => ERead x end)
               :: events_of r f
           | _ => []
           end
  end.
Definition parse (inp : list Z) : mem * list event :=
  match inp with
  | d :: n :: rest => let '(ps, ev) := take_pairs (Z.to_nat n) rest in (mem_of d ps, events_of ev (length ev))
  | _ => (fun _ => 0, [])
  end.
Fixpoint flat_obs (l : list obs) : list Z :=
  match l with [] => [] | (r, a, v) :: k => r :: a :: v :: flat_obs k end.

Definition run_c36_impl (inp : list Z) : list Z := let '(m, t) := parse inp in flat_obs (run_impl m t).
Definition run_c36_spec (inp : list Z) : list Z := let '(m, t) := parse inp in flat_obs (run_spec m t).
Definition run_c36_disc (inp : list Z) : list Z := let '(_, t) := parse inp in [if disciplined t then 1 else 0].
