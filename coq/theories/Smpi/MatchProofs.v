(** C28 — proofs about the matching predicate and the message counters. *)
From SGV Require Import Base.Tactics Smpi.Match.
Local Open Scope Z_scope.

Definition comm_ok (s r : req) : Prop := comm r = UNDEFINED \/ comm s = UNDEFINED \/ comm r = comm s.
Definition src_ok (s r : req) (g : bool) : Prop := (src r = ANY_SOURCE /\ g = true) \/ src r = src s.
Definition tag_ok (s r : req) : Prop := (tag r = ANY_TAG /\ 0 <= tag s) \/ tag r = tag s.

Lemma match_iff s r g : (exists v, match_common s r g = Some v) <-> comm_ok s r /\ src_ok s r g /\ tag_ok s r.
Proof.
  unfold match_common, comm_ok, src_ok, tag_ok.
  destruct (((comm r =? UNDEFINED) || (comm s =? UNDEFINED) || (comm r =? comm s))
            && ((src r =? ANY_SOURCE) && g || (src r =? src s))
            && ((tag r =? ANY_TAG) && (0 <=? tag s) || (tag r =? tag s))) eqn:E.
  - split; [intros _ | eauto].
    apply andb_true_iff in E. destruct E as [E E3]. apply andb_true_iff in E. destruct E as [E1 E2].
    repeat split.
    + apply orb_true_iff in E1. destruct E1 as [E1|E1]; [apply orb_true_iff in E1; destruct E1|]; lia.
    + apply orb_true_iff in E2. destruct E2 as [E2|E2]; [apply andb_true_iff in E2; left; split; [lia | tauto] | right; lia].
    + apply orb_true_iff in E3. destruct E3 as [E3|E3]; [apply andb_true_iff in E3; left; lia | right; lia].
  - split; [intros (v & H); discriminate|]. intros (H1 & H2 & H3). exfalso.
    assert (((comm r =? UNDEFINED) || (comm s =? UNDEFINED) || (comm r =? comm s)) = true) by (destruct H1 as [?|[?|?]]; lia).
    assert (((src r =? ANY_SOURCE) && g || (src r =? src s)) = true) by (destruct H2 as [[? ->]|?]; lia).
    assert (((tag r =? ANY_TAG) && (0 <=? tag s) || (tag r =? tag s)) = true) by (destruct H3 as [[? ?]|?]; lia).
    rewrite H, H0, H4 in E. discriminate.
Qed.

Lemma no_cross_comm s r g : comm r <> UNDEFINED -> comm s <> UNDEFINED -> comm r <> comm s -> match_common s r g = None.
Proof.
  intros H1 H2 H3. destruct (match_common s r g) eqn:E; [|reflexivity].
  assert (exists v, match_common s r g = Some v) by eauto. apply match_iff in H. destruct H as ([?|[?|?]] & _); congruence.
Qed.

Lemma status_exact s r g a b t : match_common s r g = Some (a, b, t) ->
  a = src s /\ b = tag s /\ (t = true <-> probe r = false /\ size r < size s).
Proof.
  intros H. assert (E : exists v, match_common s r g = Some v) by eauto.
  apply match_iff in E. destruct E as (_ & Hs & Ht). unfold match_common in H.
  destruct (_ && _ && _) in H; [|discriminate]. inv H. repeat split.
  - destruct Hs as [[-> _]|Hs]; [reflexivity|]. destruct (src r =? ANY_SOURCE); congruence.
  - destruct Ht as [[-> _]|Ht]; [reflexivity|]. destruct (tag r =? ANY_TAG); congruence.
  - destruct (probe r); cbn in *; [discriminate | reflexivity].
  - destruct (probe r); cbn in *; [discriminate | lia].
  - intros [-> Hlt]. cbn. lia.
Qed.

(** counters: whatever each receive sees pending and in whichever order it scans it, the accepted ids are consecutive
    from the receiver's counter, i.e. the messages of one (source,destination,tag) class are taken in send order *)
Lemma pick_is_next c scan id : pick c scan = Some id -> id = c.
Proof. unfold pick, id_ok. intros H. apply find_some in H. lia. Qed.

Lemma receive_all_in_order scans : forall c,
  receive_all c scans = map (fun k => c + Z.of_nat k) (seq 0 (length (receive_all c scans))).
Proof.
  induction scans as [|scan r IH]; intros c; cbn [receive_all]; [reflexivity|].
  destruct (pick c scan) as [id|] eqn:E; [|apply IH].
  apply pick_is_next in E. subst id. cbn [length seq map]. f_equal; [lia|].
  rewrite IH at 1. rewrite <- seq_shift, map_map. apply map_ext. intros; lia.
Qed.

(** a message that is pending and next in send order is never passed over *)
Lemma pick_finds c scan : In c scan -> pick c scan = Some c.
Proof.
  intros H. unfold pick. destruct (find (id_ok c) scan) as [id|] eqn:E.
  - f_equal. apply find_some in E. unfold id_ok in E. lia.
  - exfalso. apply (find_none _ _ E) in H. unfold id_ok in H. lia.
Qed.
