(** Proofs about the TI codec model (C37). *)
From SGV Require Import Base.Tactics Smpi.TiCodec.
Local Open Scope Z_scope.

(** ---------------------------------------------------------------- list plumbing *)
Lemma arg_skip : forall (l : list Z) (post : list tok) (i : nat),
  arg (map TI l ++ post) (length l + i) = arg post i.
Proof.
  intros l post i. unfold arg. rewrite nth_error_app2 by (rewrite map_length; lia).
  rewrite map_length. f_equal. lia.
Qed.
Lemma arg_skip0 : forall l post, arg (map TI l ++ post) (length l) = arg post 0.
Proof. intros. rewrite <- (arg_skip l post 0). f_equal. lia. Qed.
Lemma arg_skip1 : forall l post, arg (map TI l ++ post) (S (length l)) = arg post 1.
Proof. intros. rewrite <- (arg_skip l post 1). f_equal. lia. Qed.
Lemma arg_skip2 : forall l post, arg (map TI l ++ post) (S (S (length l))) = arg post 2.
Proof. intros. rewrite <- (arg_skip l post 2). f_equal. lia. Qed.
Lemma arg_skip3 : forall l post, arg (map TI l ++ post) (S (S (S (length l)))) = arg post 3.
Proof. intros. rewrite <- (arg_skip l post 3). f_equal. lia. Qed.

Lemma arg_cons : forall x r i, arg (x :: r) (S i) = arg r i.
Proof. reflexivity. Qed.

Lemma ints_from_cons : forall x r base n, ints_from (x :: r) (S base) n = ints_from r base n.
Proof.
  intros x r base n. revert base. induction n as [|n IH]; intro base; cbn [ints_from]; [reflexivity|].
  rewrite IH. unfold int_arg. rewrite arg_cons. reflexivity.
Qed.

Lemma ints_from_map : forall (l : list Z) (post : list tok),
  forallb in_int l = true -> ints_from (map TI l ++ post) 0 (length l) = Some l.
Proof.
  induction l as [|x l IH]; intros post Hin; [reflexivity|].
  cbn [forallb] in Hin. apply andb_true_iff in Hin. destruct Hin as [Hx Hl].
  cbn [length map app ints_from]. unfold int_arg at 1. cbn [arg nth_error]. rewrite Hx.
  rewrite ints_from_cons. rewrite (IH post Hl). reflexivity.
Qed.

Lemma ints_from_skip : forall (l1 l : list Z) (post : list tok),
  forallb in_int l = true ->
  ints_from (map TI l1 ++ map TI l ++ post) (length l1) (length l) = Some l.
Proof.
  induction l1 as [|x l1 IH]; intros l post Hin.
  - cbn [map app length]. apply ints_from_map. exact Hin.
  - cbn [map app length]. rewrite ints_from_cons. apply IH. exact Hin.
Qed.

Lemma length_repeatZ : forall n x, length (repeatZ n x) = n.
Proof. induction n; intro x; cbn; [reflexivity|]. now rewrite IHn. Qed.
Lemma forallb_repeatZ : forall n x, in_int x = true -> forallb in_int (repeatZ n x) = true.
Proof. induction n; intros x Hx; cbn; [reflexivity|]. rewrite Hx. now apply IHn. Qed.

Lemma len_is_spec : forall n l, len_is n l = true -> Z.to_nat n = length l /\ forallb in_int l = true.
Proof.
  intros n l H. unfold len_is in H. apply andb_true_iff in H. destruct H as [H1 H2].
  split; [lia|exact H2].
Qed.

Lemma cnt_spec : forall z, cnt z = true -> 0 <= z <= int_max.
Proof. intros z H. unfold cnt in H. lia. Qed.

Lemma cnt_in_int : forall z, cnt z = true -> in_int z = true.
Proof. intros z H. unfold cnt in H. unfold in_int, int_min, int_max in *. lia. Qed.
Lemma cnt_in_uint : forall z, cnt z = true -> in_uint z = true.
Proof. intros z H. unfold cnt, int_max in H. unfold in_uint. lia. Qed.
Lemma cnt_in_size : forall z, cnt z = true -> in_size z = true.
Proof. intros z H. unfold cnt, int_max in H. unfold in_size. lia. Qed.
Lemma cnt_in_ssize : forall z, cnt z = true -> in_ssize z = true.
Proof. intros z H. unfold cnt, int_max in H. unfold in_ssize. lia. Qed.

Lemma root_toks_cnt : forall r st, cnt r = true -> root_toks r (Some st) = [TI r].
Proof.
  intros r st H. apply cnt_spec in H. unfold root_toks. cbn [nonempty].
  destruct (0 <? r) eqn:E1; [reflexivity|]. destruct (r =? 0) eqn:E2; [reflexivity|]. lia.
Qed.
Lemma root_toks_none : forall st, root_toks (-1) st = [].
Proof. reflexivity. Qed.

Lemma ltb_m1_cnt : forall z, cnt z = true -> (-1 <? z) = true.
Proof. intros z H. apply cnt_spec in H. lia. Qed.

(** splitting the boolean well-formedness *)
Ltac split_wf H :=
  repeat match type of H with
         | (_ && _) = true => let H1 := fresh "W" in let H2 := fresh "W" in
                              apply andb_true_iff in H; destruct H as [H1 H2]; try split_wf H1; try split_wf H2
         end.

Ltac use_cnt :=
  repeat match goal with
         | H : cnt ?z = true |- context [in_int ?z] => rewrite (cnt_in_int z H)
         | H : cnt ?z = true |- context [in_uint ?z] => rewrite (cnt_in_uint z H)
         | H : cnt ?z = true |- context [in_size ?z] => rewrite (cnt_in_size z H)
         | H : cnt ?z = true |- context [in_ssize ?z] => rewrite (cnt_in_ssize z H)
         | H : cnt ?z = true |- context [root_toks ?z (Some ?s)] => rewrite (root_toks_cnt z s H)
         | H : cnt ?z = true |- context [-1 <? ?z] => rewrite (ltb_m1_cnt z H)
         | H : in_int ?z = true |- context [in_int ?z] => rewrite H
         end.

(** ---------------------------------------------------------------- round trip, scalar calls *)
Definition is_vector (c : call) : bool :=
  match c with
  | CGatherv _ _ _ _ _ | CAllgatherv _ _ _ _ | CScatterv _ _ _ _ _ | CAlltoallv _ _ _ _ _ _ | CReducescatter _ _ _
  | CRsBlock _ _ => true
  | _ => false
  end.

Lemma roundtrip_scalar : forall dflt n c,
  wf n c = true -> is_vector c = false ->
  decode dflt n (fst (encode true n c)) (snd (encode true n c)) = Some (norm n c).
Proof.
  intros dflt n c Hwf Hv. unfold wf in Hwf. apply andb_true_iff in Hwf. destruct Hwf as [Hn Hwf].
  destruct c; try discriminate Hv; clear Hv; cbn [encode trace print fst snd norm opt_tok nonempty andb orb app];
    try reflexivity.
  - (* send *) split_wf Hwf. destruct nonblocking; cbn; use_cnt; reflexivity.
  - (* recv *) split_wf Hwf. destruct nonblocking; cbn; use_cnt; reflexivity.
  - (* wait *) split_wf Hwf. cbn; use_cnt; reflexivity.
  - (* test *) split_wf Hwf. cbn; use_cnt; reflexivity.
  - (* bcast *) split_wf Hwf. use_cnt. cbn. use_cnt. reflexivity.
  - (* reduce *) split_wf Hwf. use_cnt. replace (0 <=? comp) with true by lia. cbn. use_cnt. reflexivity.
  - (* allreduce *) split_wf Hwf. replace (0 <=? comp) with true by lia. cbn. use_cnt. reflexivity.
  - (* alltoall *) split_wf Hwf. rewrite orb_true_r. cbn. use_cnt. reflexivity.
  - (* gather *) split_wf Hwf. rewrite orb_true_r. use_cnt. cbn. use_cnt. reflexivity.
  - (* allgather *) split_wf Hwf. rewrite orb_true_r. cbn. use_cnt. reflexivity.
  - (* scatter *) split_wf Hwf. rewrite orb_true_r. use_cnt. cbn. use_cnt. reflexivity.
  - (* sendrecv *) split_wf Hwf. use_cnt. cbn. use_cnt. reflexivity.
Qed.

(** ---------------------------------------------------------------- round trip, vector calls *)
Lemma check_params_ok : forall a m, (m <= length a)%nat -> check_params a m = Some tt.
Proof. intros a m H. unfold check_params. destruct (length a <? m)%nat eqn:E; [|reflexivity]. apply Nat.ltb_lt in E. lia. Qed.

Lemma roundtrip_gatherv : forall dflt n ss rcs root sdt rdt,
  wf n (CGatherv ss rcs root sdt rdt) = true ->
  decode dflt n KGatherv (snd (encode true n (CGatherv ss rcs root sdt rdt))) = Some (CGatherv ss rcs root sdt rdt).
Proof.
  intros dflt n ss rcs root sdt rdt Hwf. unfold wf in Hwf. apply andb_true_iff in Hwf. destruct Hwf as [Hn Hwf].
  split_wf Hwf. match goal with H : len_is _ rcs = true |- _ => destruct (len_is_spec _ _ H) as [Hlen Hin] end.
  cbn [encode trace print fst snd opt_tok opt_list]. use_cnt. cbn [app]. replace (-1 <? -1) with false by reflexivity.
  cbn [app]. unfold decode. rewrite Hlen.
  rewrite check_params_ok by (cbn [length]; rewrite app_length, map_length; cbn [length]; lia).
  cbn [bind]. unfold int_arg at 1. cbn [arg nth_error]. use_cnt. cbn [bind].
  unfold root_arg, dt_arg. cbn [Nat.add]. rewrite !arg_cons. rewrite arg_skip0, arg_skip1, arg_skip2.
  cbn [arg nth_error]. use_cnt. cbn [bind].
  rewrite ints_from_cons. rewrite (ints_from_map rcs _ Hin). reflexivity.
Qed.

Lemma roundtrip_allgatherv : forall dflt n ss rcs sdt rdt,
  wf n (CAllgatherv ss rcs sdt rdt) = true ->
  decode dflt n KAllgatherv (snd (encode true n (CAllgatherv ss rcs sdt rdt))) = Some (CAllgatherv ss rcs sdt rdt).
Proof.
  intros dflt n ss rcs sdt rdt Hwf. unfold wf in Hwf. apply andb_true_iff in Hwf. destruct Hwf as [Hn Hwf].
  split_wf Hwf. match goal with H : len_is _ rcs = true |- _ => destruct (len_is_spec _ _ H) as [Hlen Hin] end.
  cbn [encode trace print fst snd opt_tok opt_list]. use_cnt. rewrite root_toks_none. cbn [app].
  replace (-1 <? -1) with false by reflexivity. cbn [app]. unfold decode. rewrite Hlen.
  rewrite check_params_ok by (cbn [length]; rewrite app_length, map_length; cbn [length]; lia).
  cbn [bind]. unfold int_arg at 1. cbn [arg nth_error]. use_cnt. cbn [bind].
  assert (Hl : length (TI ss :: map TI rcs ++ [TI sdt; TI rdt]) = (3 + length rcs)%nat).
  { cbn [length]. rewrite app_length, map_length. cbn [length]. lia. }
  rewrite Hl.
  assert (Hn2 : (2 <= length rcs)%nat) by lia.
  destruct (3 + length rcs + length rcs <? 3 + length rcs + 2)%nat eqn:E1; [apply Nat.ltb_lt in E1; lia|].
  destruct (3 + length rcs + 2 <? 3 + length rcs + 2)%nat eqn:E2; [apply Nat.ltb_lt in E2; lia|].
  unfold dt_arg. cbn [Nat.add]. rewrite !arg_cons. rewrite arg_skip0, arg_skip1.
  cbn [arg nth_error bind].
  rewrite ints_from_cons. rewrite (ints_from_map rcs _ Hin). reflexivity.
Qed.

Lemma roundtrip_scatterv : forall dflt n scs rs root sdt rdt,
  wf n (CScatterv scs rs root sdt rdt) = true ->
  decode dflt n KScatterv (snd (encode true n (CScatterv scs rs root sdt rdt))) = Some (CScatterv scs rs root sdt rdt).
Proof.
  intros dflt n scs rs root sdt rdt Hwf. unfold wf in Hwf. apply andb_true_iff in Hwf. destruct Hwf as [Hn Hwf].
  split_wf Hwf. match goal with H : len_is _ scs = true |- _ => destruct (len_is_spec _ _ H) as [Hlen Hin] end.
  cbn [encode trace print fst snd opt_tok opt_list]. use_cnt. replace (-1 <? -1) with false by reflexivity.
  cbn [app]. unfold decode. rewrite Hlen.
  rewrite check_params_ok by (rewrite app_length, map_length; cbn [length]; lia).
  cbn [bind]. unfold int_arg at 1. rewrite arg_skip0. cbn [arg nth_error]. use_cnt. cbn [bind].
  unfold root_arg, dt_arg. cbn [Nat.add]. rewrite arg_skip1, arg_skip2, arg_skip3.
  cbn [arg nth_error]. use_cnt. cbn [bind].
  rewrite (ints_from_map scs _ Hin). reflexivity.
Qed.

Lemma roundtrip_alltoallv : forall dflt n sb scs rb rcs sdt rdt,
  wf n (CAlltoallv sb scs rb rcs sdt rdt) = true ->
  decode dflt n KAlltoallv (snd (encode true n (CAlltoallv sb scs rb rcs sdt rdt))) = Some (CAlltoallv sb scs rb rcs sdt rdt).
Proof.
  intros dflt n sb scs rb rcs sdt rdt Hwf. unfold wf in Hwf. apply andb_true_iff in Hwf. destruct Hwf as [Hn Hwf].
  split_wf Hwf. match goal with H : len_is _ scs = true |- _ => destruct (len_is_spec _ _ H) as [Hlen1 Hin1] end.
  match goal with H : len_is _ rcs = true |- _ => destruct (len_is_spec _ _ H) as [Hlen2 Hin2] end.
  cbn [encode trace print fst snd opt_tok opt_list]. use_cnt. rewrite root_toks_none. cbn [app].
  unfold decode. rewrite Hlen1.
  assert (Hl12 : length rcs = length scs) by lia.
  rewrite check_params_ok
    by (cbn [length]; rewrite app_length, map_length; cbn [length]; rewrite app_length, map_length; cbn [length]; lia).
  cbn [bind].
  (* datatypes: index 2 + 2*cs and 3 + 2*cs *)
  unfold dt_arg.
  replace (2 + 2 * length scs)%nat with (S (length scs + S (length rcs + 0)))%nat by lia.
  replace (3 + 2 * length scs)%nat with (S (length scs + S (length rcs + 1)))%nat by lia.
  rewrite !arg_cons. rewrite !arg_skip. rewrite !arg_cons. rewrite !arg_skip. cbn [arg nth_error bind].
  unfold int_arg at 1. cbn [arg nth_error]. use_cnt. cbn [bind].
  unfold int_arg at 1. cbn [Nat.add]. rewrite arg_cons, arg_skip0. cbn [arg nth_error]. use_cnt. cbn [bind].
  rewrite ints_from_cons. rewrite (ints_from_map scs _ Hin1). cbn [bind].
  replace (2 + length scs)%nat with (S (length scs + 1))%nat by lia.
  rewrite ints_from_cons.
  change (TI rb :: map TI rcs ++ [TI sdt; TI rdt]) with (map TI [rb] ++ map TI rcs ++ [TI sdt; TI rdt]).
  rewrite app_assoc. rewrite <- map_app.
  assert (E : forall base k, base = length (scs ++ [rb]) -> k = length rcs ->
             ints_from (map TI (scs ++ [rb]) ++ map TI rcs ++ [TI sdt; TI rdt]) base k = Some rcs).
  { intros base k Hb Hk. subst base k. apply ints_from_skip. exact Hin2. }
  rewrite E; [reflexivity | rewrite app_length; cbn [length]; lia | lia].
Qed.

Lemma roundtrip_reducescatter_gen : forall dflt n rcs comp dt,
  Z.to_nat n = length rcs -> forallb in_int rcs = true ->
  decode dflt n KReducescatter (print true (VarColl (-1) (-1) None (-1) (Some rcs) (Some comp) (Some dt)))
  = Some (CReducescatter rcs comp dt).
Proof.
  intros dflt n rcs comp dt Hlen Hin.
  cbn [print opt_tok opt_list]. rewrite root_toks_none. replace (-1 <? -1) with false by reflexivity. cbn [app].
  unfold decode. rewrite Hlen.
  rewrite check_params_ok by (rewrite app_length, map_length; cbn [length]; lia).
  cbn [bind]. unfold comp_arg, dt_arg. cbn [Nat.add]. rewrite arg_skip0, arg_skip1. cbn [arg nth_error bind].
  rewrite (ints_from_map rcs _ Hin). reflexivity.
Qed.

Theorem roundtrip_fixed : forall dflt n c,
  wf n c = true ->
  decode dflt n (fst (encode true n c)) (snd (encode true n c)) = Some (norm n c).
Proof.
  intros dflt n c Hwf. destruct (is_vector c) eqn:Hv; [|apply roundtrip_scalar; assumption].
  destruct c; try discriminate Hv; clear Hv.
  - exact (roundtrip_gatherv dflt n _ _ _ _ _ Hwf).
  - exact (roundtrip_allgatherv dflt n _ _ _ _ Hwf).
  - exact (roundtrip_scatterv dflt n _ _ _ _ _ Hwf).
  - exact (roundtrip_alltoallv dflt n _ _ _ _ _ _ Hwf).
  - unfold wf in Hwf. apply andb_true_iff in Hwf. destruct Hwf as [Hn Hwf].
    destruct (len_is_spec _ _ Hwf) as [Hlen Hin].
    cbn [encode trace fst snd norm]. apply roundtrip_reducescatter_gen; assumption.
  - unfold wf in Hwf. apply andb_true_iff in Hwf. destruct Hwf as [Hn Hwf].
    cbn [encode trace fst snd norm]. apply roundtrip_reducescatter_gen.
    + now rewrite length_repeatZ.
    + apply forallb_repeatZ. now apply cnt_in_int.
Qed.

(** no two different (normalised) calls print the same line *)
Theorem encode_injective : forall n c1 c2,
  wf n c1 = true -> wf n c2 = true -> encode true n c1 = encode true n c2 -> norm n c1 = norm n c2.
Proof.
  intros n c1 c2 H1 H2 He.
  pose proof (roundtrip_fixed 6 n c1 H1) as R1. pose proof (roundtrip_fixed 6 n c2 H2) as R2.
  rewrite He in R1. rewrite R1 in R2. now inversion R2.
Qed.

(** ---------------------------------------------------------------- the pinned code *)
(** under the extra side condition the pinned printer emits the same tokens as the repaired one *)
Lemma pinned_same_line : forall n c, wf_pinned c = true -> encode false n c = encode true n c.
Proof.
  intros n c H. destruct c; try reflexivity; cbn [wf_pinned] in H; try discriminate H;
    cbn [encode trace print amount_pinned].
  - rewrite H. reflexivity.
  - rewrite H. reflexivity.
  - rewrite H. reflexivity.
  - rewrite H. reflexivity.
  - replace (round6 usec) with usec by lia. reflexivity.
  - replace (round6 uflops) with uflops by lia. reflexivity.
Qed.

Theorem roundtrip_pinned_partial : forall dflt n c,
  wf n c = true -> wf_pinned c = true ->
  decode dflt n (fst (encode false n c)) (snd (encode false n c)) = Some (norm n c).
Proof. intros dflt n c H1 H2. rewrite (pinned_same_line n c H2). now apply roundtrip_fixed. Qed.

(** the three defects of the pinned code, each with the witness replayed by checks/C37.py *)
Lemma pinned_gather_refuted :
  exists n c, wf n c = true /\
    decode 6 n (fst (encode false n c)) (snd (encode false n c)) <> Some (norm n c) /\
    decode 6 n (fst (encode false n c)) (snd (encode false n c)) = Some (CGather 100 2 0 0 6).
Proof. exists 4, (CGather 100 0 2 0 0). split; [reflexivity|]. split; [vm_compute; discriminate|vm_compute; reflexivity]. Qed.

Lemma pinned_sleep_refuted :
  exists n c, wf n c = true /\
    decode 6 n (fst (encode false n c)) (snd (encode false n c)) = Some (CSleep 1234570) /\ norm n c = CSleep 1234567.
Proof. exists 4, (CSleep 1234567). repeat split; vm_compute; reflexivity. Qed.

Lemma pinned_rsblock_refuted :
  exists n c, wf n c = true /\
    decode 6 n (fst (encode false n c)) (snd (encode false n c)) = Some (CReducescatter [0; 0; 0; 0] 0 0) /\
    norm n c = CReducescatter [5; 5; 5; 5] 0 0.
Proof. exists 4, (CRsBlock 5 0). repeat split; vm_compute; reflexivity. Qed.

(** the pinned print() is ambiguous on TIData objects that tracers do build: a gather traced on a non-root rank with
    recvcount 0 prints the argument tokens of a different gather *)
Lemma pinned_print_ambiguous :
  exists d1 d2, d1 <> d2 /\ print false d1 = print false d2 /\
    d1 = snd (trace false 4 (CGather 100 0 2 0 0)) /\ d2 = Coll 0 (-1) 100 2 (Some 0) None.
Proof.
  exists (Coll 2 (-1) 100 0 (Some 0) (Some 0)), (Coll 0 (-1) 100 2 (Some 0) None).
  split; [discriminate|]. repeat split; vm_compute; reflexivity.
Qed.

(** protocol sanity: the integer encoding of calls used by the driver is lossless *)
Lemma take_n_app : forall (l r : list Z), take_n (length l) (l ++ r) = (l, r).
Proof. induction l as [|x l IH]; intro r; cbn; [reflexivity|]. now rewrite IH. Qed.
