(** C34 — RMA windows as shared memory: the sequential meaning of Put/Get/Accumulate/Get_accumulate/Compare_and_swap.
    (Model file: definitions only; proofs in RmaProofs.v.)

    Window memory: [mem t x] = the integer at displacement x of the window of rank t.
    An operation, as issued by some origin on target [otgt] at displacement [odisp]:
      kind 0 Put vals | 1 Get n | 2 Accumulate op vals | 3 Get_accumulate op vals | 4 Compare_and_swap cmp new
    Reduction operators: 0 SUM 1 PROD 2 MAX 3 MIN 4 BXOR 5 REPLACE 6 NO_OP.
    Only the effect on memory (and the value returned to the origin) is modelled, not the request machinery of
    smpi_win.cpp (rma_send_init/rma_recv_init, finish_comms, tags). *)
From SGV Require Import Base.Tactics.
Local Open Scope Z_scope.

Definition mem := Z -> Z -> Z.

Record rop := mkop { okind : Z; otgt : Z; odisp : Z; oop : Z; ovals : list Z; ocmp : Z }.

Definition opf (o : Z) (old new : Z) : Z :=
  match o with
  | 0 => old + new
  | 1 => old * new
  | 2 => Z.max old new
  | 3 => Z.min old new
  | 4 => Z.lxor old new
  | 5 => new
  | _ => old
  end.

Definition zlen (l : list Z) : Z := Z.of_nat (List.length l).

(** cells [d, d+len vals) of target t become f(old, vals[x-d]) *)
Definition upd_range (f : Z -> Z -> Z) (m : mem) (t d : Z) (vals : list Z) : mem :=
  fun t' x => if (t' =? t) && (d <=? x) && (x <? d + zlen vals)
              then f (m t' x) (nth (Z.to_nat (x - d)) vals 0) else m t' x.

(** effect on memory *)
Definition apply_mem (m : mem) (o : rop) : mem :=
  if okind o =? 0 then upd_range (opf 5) m (otgt o) (odisp o) (ovals o)
  else if (okind o =? 2) || (okind o =? 3) then upd_range (opf (oop o)) m (otgt o) (odisp o) (ovals o)
  else if okind o =? 4 then
    (if m (otgt o) (odisp o) =? ocmp o then upd_range (opf 5) m (otgt o) (odisp o) (firstn 1 (ovals o)) else m)
  else m.

(** value returned to the origin *)
Fixpoint read_range (m : mem) (t d : Z) (n : nat) : list Z :=
  match n with O => [] | S n' => m t d :: read_range m t (d + 1) n' end.
Definition result_of (m : mem) (o : rop) : list Z :=
  match okind o with
  | 1 => read_range m (otgt o) (odisp o) (Z.to_nat (oop o))          (* Get: count in oop *)
  | 3 => read_range m (otgt o) (odisp o) (List.length (ovals o))
  | 4 => [m (otgt o) (odisp o)]
  | _ => []
  end.

Definition exec (ops : list rop) (m : mem) : mem := fold_left apply_mem ops m.

(** ---- commutation: a decidable sufficient condition *)
Definition wlen (o : rop) : Z :=         (* cells possibly written *)
  if okind o =? 0 then zlen (ovals o)
  else if (okind o =? 2) || (okind o =? 3) then (if oop o =? 6 then 0 else zlen (ovals o))
  else if okind o =? 4 then 1 else 0.
Definition disjoint_b (a b : rop) : bool :=
  negb (otgt a =? otgt b) || (wlen a =? 0) || (wlen b =? 0) ||
  (odisp a + wlen a <=? odisp b) || (odisp b + wlen b <=? odisp a).
Definition is_acc (o : rop) : bool := (okind o =? 2) || (okind o =? 3).
Definition same_op_acc_b (a b : rop) : bool :=
  is_acc a && is_acc b && (oop a =? oop b) && (0 <=? oop a) && (oop a <=? 4).
Definition commute_b (a b : rop) : bool := disjoint_b a b || same_op_acc_b a b.

Fixpoint all_commute_b (l : list rop) : bool :=
  match l with
  | [] => true
  | a :: r => forallb (commute_b a) r && all_commute_b r
  end.

(** ---- exclusive locks: what target t sees *)
Definition on_target (t : Z) (o : rop) : bool := otgt o =? t.
Definition proj (t : Z) (tr : list rop) : list rop := filter (on_target t) tr.

(** ---- integer-list protocol.
    program: np W nepochs { nops { origin kind tgt disp op cmp nvals vals.. }* }*
    output:  per epoch: commute flag (1 = all operations of the epoch pairwise commute), then the np*W cells of all
             windows after the epoch, then per operation its result list (n, values) computed on the memory BEFORE
             the epoch's operations that precede it in program order (only meaningful for stable reads). *)
Definition init_mem : mem := fun t x => 100 * t + x.

Fixpoint parse_ops (n : nat) (l : list Z) : list rop * list Z :=
  match n with
  | O => ([], l)
  | S n' => match l with
            | _origin :: k :: t :: d :: o :: c :: nv :: r =>
                let '(vals, r1) := take_n (Z.to_nat nv) r in
                let '(ops, r2) := parse_ops n' r1 in
                (mkop k t d o vals c :: ops, r2)
            | _ => ([], l)
            end
  end.

Fixpoint dump_row (m : mem) (t x : Z) (n : nat) : list Z :=
  match n with O => [] | S n' => m t x :: dump_row m t (x + 1) n' end.
Fixpoint dump (m : mem) (t : Z) (nranks : nat) (W : nat) : list Z :=
  match nranks with O => [] | S n' => dump_row m t 0 W ++ dump m (t + 1) n' W end.

Fixpoint results (ops : list rop) (m : mem) : list Z :=
  match ops with
  | [] => []
  | o :: r => let v := result_of m o in (zlen v :: v) ++ results r (apply_mem m o)
  end.

(** a finite table keeps the extracted memory fast: after each epoch the function is re-tabulated *)
Definition tabulate (m : mem) (np W : nat) : mem :=
  let rows := map (fun t => dump_row m (Z.of_nat t) 0 W) (seq 0 np) in
  fun t x => if (0 <=? t) && (0 <=? x) then nth (Z.to_nat x) (nth (Z.to_nat t) rows []) (100 * t + x) else 100 * t + x.

Fixpoint run_epochs (ne : nat) (l : list Z) (m : mem) (np W : nat) : list Z :=
  match ne with
  | O => []
  | S ne' => match l with
             | nops :: r =>
                 let '(ops, rest) := parse_ops (Z.to_nat nops) r in
                 let m' := tabulate (exec ops m) np W in
                 ((if all_commute_b ops then 1 else 0) :: dump m' 0 np W) ++ results ops m ++ run_epochs ne' rest m' np W
             | [] => []
             end
  end.

Definition run_c34 (inp : list Z) : list Z :=
  match inp with
  | np :: W :: ne :: rest => run_epochs (Z.to_nat ne) rest init_mem (Z.to_nat np) (Z.to_nat W)
  | _ => []
  end.
