From SGV Require Import Base.Tactics Smpi.Blocks.
Local Open Scope Z_scope.

Lemma covered_nil x : ~ covered [] x.
Proof. intros (b & e & H & _); inversion H. Qed.

Lemma covered_cons b e l x : covered ((b, e) :: l) x <-> (b <= x < e) \/ covered l x.
Proof.
  unfold covered; split.
  - intros (b' & e' & [H | H] & Hx).
    + inversion H; subst; left; lia.
    + right; eauto.
  - intros [H | (b' & e' & H & Hx)].
    + exists b, e; split; [left; reflexivity | lia].
    + exists b', e'; split; [right; assumption | lia].
Qed.

Lemma covered_app l1 l2 x : covered (l1 ++ l2) x <-> covered l1 x \/ covered l2 x.
Proof.
  unfold covered; split.
  - intros (b & e & H & Hx). apply in_app_or in H. destruct H; [left | right]; eauto.
  - intros [(b & e & H & Hx) | (b & e & H & Hx)]; exists b, e; split; auto using in_or_app.
Qed.

(** * shift: exactly the bytes of the message that lie in a private block, re-based at the message start *)
Lemma covered_single b e x : covered [(b, e)] x <-> b <= x < e.
Proof. rewrite covered_cons. split; [intros [H | H]; [lia | destruct (covered_nil _ H)] | auto]. Qed.

Lemma shift_one b e off size x :
  0 <= off -> 0 <= size ->
  (covered (if (0 <? rel e off size) && (rel b off size <? size) then [(rel b off size, rel e off size)] else []) x
   <-> 0 <= x < size /\ b <= x + off < e).
Proof.
  intros Hoff Hsize. unfold rel.
  destruct (off <? b) eqn:Hb; destruct (off <? e) eqn:He;
    destruct ((0 <? _) && (_ <? size)) eqn:Hc; rewrite ?covered_single;
    (split; [intros H; try (destruct (covered_nil _ H)); lia | intros H; try lia]).
  all: exfalso; lia.
Qed.

Lemma shift_covers vec off size x :
  0 <= off -> 0 <= size ->
  (covered (shift vec off size) x <-> 0 <= x < size /\ covered vec (x + off)).
Proof.
  intros Hoff Hsize. induction vec as [| [b e] vec IH].
  - simpl. split; [intros H; destruct (covered_nil _ H) | intros [_ H]; destruct (covered_nil _ H)].
  - unfold shift in *. cbn [flat_map]. rewrite covered_app, IH, covered_cons. clear IH.
    cbn [fst snd]. rewrite shift_one by assumption. tauto.
Qed.

Lemma shift_in_frame vec off size b e :
  0 <= off -> 0 <= size -> Forall (fun be => fst be <= snd be) vec ->
  In (b, e) (shift vec off size) -> 0 <= b <= e /\ e <= size.
Proof.
  intros Hoff Hsize Hwf Hin. unfold shift in Hin. apply in_flat_map in Hin.
  destruct Hin as ([b0 e0] & Hin0 & Hin). rewrite Forall_forall in Hwf. specialize (Hwf _ Hin0).
  cbn [fst snd] in *. unfold rel in Hin.
  destruct ((0 <? _) && (_ <? size)) eqn:Hc; [| inversion Hin].
  cbn [In] in Hin. destruct Hin as [Hin | []]. inversion Hin; subst; clear Hin.
  destruct (off <? b0) eqn:Hb; destruct (off <? e0) eqn:He; lia.
Qed.

Lemma sorted_wf l : sorted l -> Forall (fun be => fst be <= snd be) l.
Proof. induction 1; constructor; simpl; auto; lia. Qed.

Lemma shift_sorted vec off size : 0 <= off -> 0 <= size -> sorted vec -> sorted (shift vec off size).
Proof.
  intros Hoff Hsize Hs. induction Hs as [| b e l Hbe Hall Hs IH]; [constructor |].
  unfold shift in *. cbn [flat_map]. cbn [fst snd].
  destruct ((0 <? _) && (_ <? size)) eqn:Hc; [| exact IH].
  cbn [app]. constructor; [| | exact IH].
  - unfold rel in *. destruct (off <? b) eqn:Hb; destruct (off <? e) eqn:He; lia.
  - intros b' e' Hin. apply in_flat_map in Hin. destruct Hin as ([b0 e0] & Hin0 & Hin).
    specialize (Hall _ _ Hin0). cbn [fst snd] in Hin.
    destruct ((0 <? rel e0 off size) && (rel b0 off size <? size)) eqn:Hc2; [| inversion Hin].
    cbn [In] in Hin. destruct Hin as [Hin | []]. inversion Hin; subst; clear Hin.
    unfold rel in *. destruct (off <? b) eqn:Hb; destruct (off <? e) eqn:He; destruct (off <? b0) eqn:Hb0; lia.
Qed.

(** * the pinned function loses a block that starts before the message *)
Lemma shift_orig_refuted :
  exists vec off size x, 0 <= x < size /\ covered_b vec (x + off) = true /\ covered_b (shift_orig vec off size) x = false.
Proof. exists [(10, 20)], 15, 10, 0. vm_compute. intuition congruence. Qed.

(** * merge: intersection *)
Lemma sorted_tail b e l : sorted ((b, e) :: l) -> sorted l.
Proof. inversion 1; assumption. Qed.

Lemma sorted_lower b e l x : sorted ((b, e) :: l) -> covered l x -> e <= x.
Proof.
  inversion 1 as [| ? ? ? Hbe Hall Hs]; subst. intros (b' & e' & Hin & Hx). specialize (Hall _ _ Hin). lia.
Qed.

Lemma merge_fuel_covers n : forall s d x,
  (length s + length d <= n)%nat -> sorted s -> sorted d ->
  (covered (merge_fuel n s d) x <-> covered s x /\ covered d x).
Proof.
  induction n as [| n IH]; intros s d x Hlen Hs Hd.
  - destruct s; destruct d; simpl in Hlen; try lia. simpl.
    split; [intros H; destruct (covered_nil _ H) | intros [H _]; destruct (covered_nil _ H)].
  - destruct s as [| [sb se] s'].
    { simpl. split; [intros H; destruct (covered_nil _ H) | intros [H _]; destruct (covered_nil _ H)]. }
    destruct d as [| [db de] d'].
    { simpl. split; [intros H; destruct (covered_nil _ H) | intros [_ H]; destruct (covered_nil _ H)]. }
    cbn [merge_fuel]. simpl in Hlen.
    assert (Hs' := sorted_tail _ _ _ Hs). assert (Hd' := sorted_tail _ _ _ Hd).
    assert (Hsbe : sb < se) by (inversion Hs; assumption).
    assert (Hdbe : db < de) by (inversion Hd; assumption).
    assert (Hsl := fun y => sorted_lower _ _ _ y Hs). assert (Hdl := fun y => sorted_lower _ _ _ y Hd).
    destruct (se <=? db) eqn:H1.
    { rewrite IH by (simpl; auto; lia). rewrite (covered_cons sb se s'), !(covered_cons db de d').
      split; [intros [Ha Hb]; split; auto |].
      intros [[Ha | Ha] Hb]; [| split; auto]. destruct Hb as [Hb | Hb]; [lia | specialize (Hdl _ Hb); lia]. }
    destruct (de <=? sb) eqn:H2.
    { rewrite IH by (simpl; auto; lia). rewrite (covered_cons db de d'), !(covered_cons sb se s').
      split; [intros [Ha Hb]; split; auto |].
      intros [Ha [Hb | Hb]]; [| split; auto]. destruct Ha as [Ha | Ha]; [lia | specialize (Hsl _ Ha); lia]. }
    rewrite covered_cons. destruct (se <? de) eqn:H3.
    + rewrite IH by (simpl; auto; lia). rewrite (covered_cons sb se s'), !(covered_cons db de d').
      split.
      * intros [Ha | [Ha Hb]]; [split; left; lia | split; auto].
      * intros [[Ha | Ha] Hb]; [| right; split; auto].
        destruct Hb as [Hb | Hb]; [left; lia | specialize (Hdl _ Hb); lia].
    + rewrite IH by (simpl; auto; lia). rewrite (covered_cons db de d'), !(covered_cons sb se s').
      split.
      * intros [Ha | [Ha Hb]]; [split; left; lia | split; auto].
      * intros [Ha [Hb | Hb]]; [| right; split; auto].
        destruct Ha as [Ha | Ha]; [left; lia | specialize (Hsl _ Ha); lia].
Qed.

Lemma merge_is_intersection s d x :
  sorted s -> sorted d -> (covered (merge s d) x <-> covered s x /\ covered d x).
Proof. intros; unfold merge; apply merge_fuel_covers; auto. Qed.

(** * the callback copies exactly the bytes private on both sides *)
Lemma private_bytes_copied src dst soff doff size x :
  0 <= soff -> 0 <= doff -> 0 <= size -> sorted src -> sorted dst ->
  (covered (copied src dst soff doff size) x <->
   0 <= x < size /\ covered src (x + soff) /\ covered dst (x + doff)).
Proof.
  intros. unfold copied. rewrite merge_is_intersection by (apply shift_sorted; auto).
  rewrite !shift_covers by auto. tauto.
Qed.

Lemma merge_fuel_in_frame n : forall s d size b e,
  Forall (fun be => 0 <= fst be <= snd be /\ snd be <= size) s ->
  Forall (fun be => 0 <= fst be <= snd be /\ snd be <= size) d ->
  In (b, e) (merge_fuel n s d) -> 0 <= b /\ e <= size.
Proof.
  induction n as [| n IH]; intros s d size b e Fs Fd Hin; [inversion Hin |].
  destruct s as [| [sb se] s']; [inversion Hin |]. destruct d as [| [db de] d']; [inversion Hin |].
  cbn [merge_fuel] in Hin.
  assert (Fs' : Forall (fun be => 0 <= fst be <= snd be /\ snd be <= size) s') by (inversion Fs; assumption).
  assert (Fd' : Forall (fun be => 0 <= fst be <= snd be /\ snd be <= size) d') by (inversion Fd; assumption).
  assert (Hs0 : 0 <= sb <= se /\ se <= size) by (inversion Fs; assumption).
  assert (Hd0 : 0 <= db <= de /\ de <= size) by (inversion Fd; assumption).
  destruct (se <=? db); [eapply IH; [exact Fs' | exact Fd | exact Hin] |].
  destruct (de <=? sb); [eapply IH; [exact Fs | exact Fd' | exact Hin] |].
  destruct Hin as [Hin | Hin]; [inversion Hin; subst; lia |].
  destruct (se <? de); [eapply IH; [exact Fs' | exact Fd | exact Hin] | eapply IH; [exact Fs | exact Fd' | exact Hin]].
Qed.

(** boolean test of [sorted], for examples and for the generators' validity check *)
Fixpoint sorted_b (l : blocks) : bool :=
  match l with
  | [] => true
  | (b, e) :: r => (b <? e) && forallb (fun be => e <=? fst be) r && sorted_b r
  end.
Lemma sorted_b_sound l : sorted_b l = true -> sorted l.
Proof.
  induction l as [| [b e] r IH]; [constructor |]. cbn [sorted_b].
  rewrite !andb_true_iff. intros [[H1 H2] H3]. constructor; [lia | | auto].
  intros b' e' Hin. rewrite forallb_forall in H2. specialize (H2 _ Hin). cbn [fst] in H2. lia.
Qed.

(** * private blocks = complement of the shared blocks *)
Lemma priv_from_covers : forall shared cur size x,
  (forall b e, In (b, e) shared -> cur <= b /\ e <= size) -> sorted shared -> cur <= size ->
  (covered (priv_from cur size shared) x <-> cur <= x < size /\ ~ covered shared x).
Proof.
  induction shared as [| [b e] r IH]; intros cur size x Hb Hs Hc.
  - cbn [priv_from]. destruct (cur <? size) eqn:E.
    + rewrite covered_single. split; [intros H; split; [lia | apply covered_nil] | intros [H _]; lia].
    + split; [intros H; destruct (covered_nil _ H) | intros [H _]; lia].
  - cbn [priv_from]. inversion Hs as [| ? ? ? Hbe Hall Hs']; subst.
    destruct (Hb b e (or_introl eq_refl)) as [Hcb Hes].
    rewrite covered_app, IH; [| intros b' e' Hin; split; [apply (Hall _ _ Hin) | apply (Hb _ _ (or_intror Hin))] | assumption | lia].
    rewrite (covered_cons b e r).
    assert (Hr : covered r x -> e <= x).
    { intros (b' & e' & Hin & Hx). specialize (Hall _ _ Hin). lia. }
    destruct (cur <? b) eqn:E.
    + rewrite covered_single. split.
      * intros [H | [H1 H2]].
        -- split; [lia |]. intros [H3 | H3]; [lia | apply Hr in H3; lia].
        -- split; [lia |]. intros [H3 | H3]; [lia | exact (H2 H3)].
      * intros [H1 H2]. destruct (Z_lt_le_dec x b) as [Hx | Hx]; [left; lia |].
        right. split; [| intro H3; apply H2; right; exact H3].
        destruct (Z_lt_le_dec x e); [exfalso; apply H2; left; lia | lia].
    + split.
      * intros [H | [H1 H2]]; [destruct (covered_nil _ H) |]. split; [lia |].
        intros [H3 | H3]; [lia | exact (H2 H3)].
      * intros [H1 H2]. right. split; [| intro H3; apply H2; right; exact H3].
        destruct (Z_lt_le_dec x e); [exfalso; apply H2; left; lia | lia].
Qed.

Lemma priv_blocks_complement shared size x :
  (forall b e, In (b, e) shared -> 0 <= b /\ e <= size) -> sorted shared -> 0 <= size ->
  (covered (priv_blocks size shared) x <-> 0 <= x < size /\ ~ covered shared x).
Proof. intros; unfold priv_blocks; apply priv_from_covers; auto. Qed.

Lemma priv_from_lower : forall shared cur size b' e',
  (forall b e, In (b, e) shared -> cur <= b /\ e <= size) -> sorted shared ->
  In (b', e') (priv_from cur size shared) -> cur <= b'.
Proof.
  induction shared as [| [b e] r IH]; intros cur size b' e' Hb Hs Hin.
  - cbn [priv_from] in Hin. destruct (cur <? size); [| destruct Hin].
    destruct Hin as [Hin | []]. inversion Hin; lia.
  - cbn [priv_from] in Hin. inversion Hs as [| ? ? ? Hbe Hall Hs']; subst.
    destruct (Hb b e (or_introl eq_refl)) as [Hcb Hes].
    apply in_app_or in Hin. destruct Hin as [Hin | Hin].
    + destruct (cur <? b); [| destruct Hin]. destruct Hin as [Hin | []]. inversion Hin; lia.
    + apply IH in Hin; [lia | | assumption].
      intros b2 e2 Hin2; split; [apply (Hall _ _ Hin2) | apply (Hb _ _ (or_intror Hin2))].
Qed.

Lemma priv_from_sorted : forall shared cur size,
  (forall b e, In (b, e) shared -> cur <= b /\ e <= size) -> sorted shared -> sorted (priv_from cur size shared).
Proof.
  induction shared as [| [b e] r IH]; intros cur size Hb Hs.
  - cbn [priv_from]. destruct (cur <? size) eqn:E; repeat constructor; try lia. intros ? ? [].
  - cbn [priv_from]. inversion Hs as [| ? ? ? Hbe Hall Hs']; subst.
    destruct (Hb b e (or_introl eq_refl)) as [Hcb Hes].
    assert (Hb' : forall b2 e2, In (b2, e2) r -> e <= b2 /\ e2 <= size).
    { intros b2 e2 Hin2; split; [apply (Hall _ _ Hin2) | apply (Hb _ _ (or_intror Hin2))]. }
    assert (IH' : sorted (priv_from e size r)) by (apply IH; assumption).
    destruct (cur <? b) eqn:E; [| exact IH']. cbn [app]. constructor; [lia | | exact IH'].
    intros b' e' Hin. apply priv_from_lower in Hin; [lia | assumption | assumption].
Qed.

Lemma e2e_spec ssize sshared dsize dshared soff doff size x :
  0 <= soff -> 0 <= doff -> 0 <= size -> 0 <= ssize -> 0 <= dsize ->
  sorted sshared -> sorted dshared ->
  (forall b e, In (b, e) sshared -> 0 <= b /\ e <= ssize) ->
  (forall b e, In (b, e) dshared -> 0 <= b /\ e <= dsize) ->
  (covered (e2e ssize sshared dsize dshared soff doff size) x <->
   0 <= x < size /\ (0 <= x + soff < ssize /\ ~ covered sshared (x + soff))
                 /\ (0 <= x + doff < dsize /\ ~ covered dshared (x + doff))).
Proof.
  intros. unfold e2e. rewrite private_bytes_copied; auto;
    try (unfold priv_blocks; apply priv_from_sorted; auto).
  rewrite !priv_blocks_complement by auto. tauto.
Qed.
