(** C29 — the MPI definition of every collective's result on provenance labels, and the executable checker.
    (Model file: definitions only; proofs in CollSpecProofs.v.)

    A rank's significant receive buffer is a list of cells, each cell a multiset (list) of labels (rank, index):
    the contributions that MPI says must have been combined into that element.  Buffers are described compactly as
    runs: [mkrun len shift base] denotes len consecutive cells, cell k holding {(r, i + k) | (r,i) in base} when shift,
    and base itself otherwise (untouched gap cells keep the sentinel label (-1,-1)). *)
From SGV Require Import Base.Tactics Smpi.CollSched.
Local Open Scope Z_scope.

Record run := mkrun { rlen : Z; rshift : bool; rbase : list label }.

(* [0; 1; ...; n-1] (linear time: the counter is a Z, the fuel a nat) *)
Fixpoint zseq_from (start : Z) (n : nat) : list Z :=
  match n with O => [] | S n' => start :: zseq_from (start + 1) n' end.
Definition zseq (n : Z) : list Z := zseq_from 0 (Z.to_nat n).

Definition cell_at (r : run) (k : Z) : list label :=
  if rshift r then map (fun qi : label => (fst qi, snd qi + k)) (rbase r) else rbase r.
Definition expand_run (r : run) : list (list label) := map (cell_at r) (zseq (rlen r)).
Definition expand (rs : list run) : list (list label) := flat_map expand_run rs.

(** the counts used by the harness for the v-collectives (mirrors smpi_c29.c) *)
Definition vcount (c r : Z) : Z := c + r mod 3.
Definition a2acnt (c q r : Z) : Z := c + (q + 2 * r) mod 3.      (* q sends to r *)
Definition sumz (f : Z -> Z) (n : Z) : Z := fold_right Z.add 0 (map f (zseq n)).

Definition allr (np i : Z) : list label := map (fun q => (q, i)) (zseq np).
Definition gap : run := mkrun 1 false [(-1, -1)].

(** kinds: 0 bcast 1 reduce 2 allreduce 3 gather 4 gatherv 5 scatter 6 scatterv 7 allgather 8 allgatherv 9 alltoall
    10 alltoallv 11 alltoallw 12 reduce_scatter 13 reduce_scatter_block 14 scan 15 exscan.
    Send data: non-reducing: element j of rank r's logical send sequence is label (r, j);
               reducing: element i of rank r is generator (r, i). *)
Definition spec_runs_raw (kind np root count rank : Z) : list run :=
  match kind with
  | 0 => [mkrun count true [(root, 0)]]
  | 1 => if rank =? root then [mkrun count true (allr np 0)] else []
  | 2 => [mkrun count true (allr np 0)]
  | 3 => if rank =? root then map (fun q => mkrun count true [(q, 0)]) (zseq np) else []
  | 7 => map (fun q => mkrun count true [(q, 0)]) (zseq np)
  | 4 => if rank =? root then flat_map (fun q => [mkrun (vcount count q) true [(q, 0)]; gap]) (zseq np) else []
  | 8 => flat_map (fun q => [mkrun (vcount count q) true [(q, 0)]; gap]) (zseq np)
  | 5 => [mkrun count true [(root, rank * count)]]
  | 6 => [mkrun (vcount count rank) true [(root, sumz (vcount count) rank)]]
  | 9 => map (fun q => mkrun count true [(q, rank * count)]) (zseq np)
  | 10 | 11 => flat_map (fun q => [mkrun (a2acnt count q rank) true [(q, sumz (a2acnt count q) rank)]; gap]) (zseq np)
  | 12 => [mkrun (vcount count rank) true (allr np (sumz (vcount count) rank))]
  | 13 => [mkrun count true (allr np (rank * count))]
  | 14 => [mkrun count true (allr (rank + 1) 0)]
  | 15 => if 0 <? rank then [mkrun count true (allr rank 0)] else []
  | _ => []
  end.
Definition spec_runs (kind np root count rank : Z) : list run :=
  filter (fun r => 0 <? rlen r) (spec_runs_raw kind np root count rank).

(** ---- checker *)
Definition label_eqb (a b : label) : bool := (fst a =? fst b) && (snd a =? snd b).
Fixpoint remove1 (x : label) (l : list label) : option (list label) :=
  match l with
  | [] => None
  | y :: r => if label_eqb x y then Some r else match remove1 x r with Some r' => Some (y :: r') | None => None end
  end.
Fixpoint perm_b (l1 l2 : list label) : bool :=
  match l1 with
  | [] => match l2 with [] => true | _ => false end
  | x :: r => match remove1 x l2 with Some l2' => perm_b r l2' | None => false end
  end.
Definition run_eqb (a b : run) : bool :=
  (rlen a =? rlen b) && Bool.eqb (rshift a) (rshift b) && perm_b (rbase a) (rbase b).
Fixpoint runs_eqb (l1 l2 : list run) : bool :=
  match l1, l2 with
  | [], [] => true
  | a :: r1, b :: r2 => run_eqb a b && runs_eqb r1 r2
  | _, _ => false
  end.
Fixpoint cells_eqb (l1 l2 : list (list label)) : bool :=
  match l1, l2 with
  | [], [] => true
  | a :: r1, b :: r2 => perm_b a b && cells_eqb r1 r2
  | _, _ => false
  end.
(** fast path on identical run structure, exact cell-by-cell comparison otherwise *)
Definition obs_ok (obs spec : list run) : bool :=
  if runs_eqb obs spec then true else cells_eqb (expand obs) (expand spec).
Definition coll_ok (kind np root count rank : Z) (obs : list run) : bool :=
  obs_ok obs (spec_runs kind np root count rank).

(** barrier: nobody leaves before everybody has entered *)
Definition barrier_ok (enters exits : list Z) : bool :=
  forallb (fun x => forallb (fun e => e <=? x) enters) exits.

(** ---- the compact encoding used by the harness for reducing collectives: per rank r the number of contributions of
    rank r and the sum of their indices.  [decode] is what the harness prints. *)
Definition cnt (m : list label) (r : Z) : Z := fold_right Z.add 0 (map (fun qi : label => if fst qi =? r then 1 else 0) m).
Definition isum (m : list label) (r : Z) : Z := fold_right Z.add 0 (map (fun qi : label => if fst qi =? r then snd qi else 0) m).
Definition decode (c s : Z -> Z) (ranks : list Z) : list label :=
  flat_map (fun r => if c r =? 0 then [] else if c r =? 1 then [(r, s r)] else [(r, s r); (r, s r)]) ranks.

(** ---- direct samples: expected values of predefined operators on the harness' data *)
Definition dval (o r i : Z) : Z :=
  match o with
  | 1 => 1 + (r + i) mod 3
  | 4 => Z.land (r * 73 + i * 19 + 5) 65535
  | _ => (r * 37 + i * 11) mod 101 - 50
  end.
Definition fold1 {A} (f : A -> A -> A) (l : list A) : option A :=
  match l with [] => None | x :: r => Some (fold_left f r x) end.
Definition direct_cell (o : Z) (c : list label) : list Z :=
  match o with
  | 5 => match fold1 maxloc (map (fun qi : label => (dval o (fst qi) (snd qi), fst qi)) c) with
         | Some (v, l) => [v; l] | None => [] end
  | _ => let f := match o with 0 => Z.add | 1 => Z.mul | 2 => Z.max | 3 => Z.min | _ => Z.lxor end in
         match fold1 f (map (fun qi : label => dval o (fst qi) (snd qi)) c) with Some v => [v] | None => [] end
  end.
Definition direct_expected (o kind np root count rank : Z) : list Z :=
  flat_map (direct_cell o) (expand (spec_runs kind np root count rank)).

(** ---- names of the collectives of the generated algorithm table -> kinds exercised *)
From Coq Require Import String.
Definition kinds_of_name (s : string) : list Z :=
  (if String.eqb s "bcast" then [0] else if String.eqb s "reduce" then [1] else if String.eqb s "allreduce" then [2]
   else if String.eqb s "gather" then [3] else if String.eqb s "gatherv" then [4] else if String.eqb s "scatter" then [5]
   else if String.eqb s "scatterv" then [6] else if String.eqb s "allgather" then [7]
   else if String.eqb s "allgatherv" then [8] else if String.eqb s "alltoall" then [9]
   else if String.eqb s "alltoallv" then [10] else if String.eqb s "alltoallw" then [11]
   else if String.eqb s "reduce_scatter" then [12; 13] else if String.eqb s "scan" then [14]
   else if String.eqb s "exscan" then [15] else if String.eqb s "barrier" then [16]
   else if String.eqb s "ibcast" then [100] else if String.eqb s "ireduce" then [101]
   else if String.eqb s "iallreduce" then [102] else if String.eqb s "igather" then [103]
   else if String.eqb s "igatherv" then [104] else if String.eqb s "iscatter" then [105]
   else if String.eqb s "iscatterv" then [106] else if String.eqb s "iallgather" then [107]
   else if String.eqb s "iallgatherv" then [108] else if String.eqb s "ialltoall" then [109]
   else if String.eqb s "ialltoallv" then [110] else if String.eqb s "ialltoallw" then [111]
   else if String.eqb s "ireduce_scatter" then [112; 113] else if String.eqb s "iscan" then [114]
   else if String.eqb s "iexscan" then [115] else if String.eqb s "ibarrier" then [116] else [])%string.

(** ---- integer-list entry points for the extracted driver *)
Fixpoint parse_runs (n : nat) (l : list Z) : list run * list Z :=
  match n with
  | O => ([], l)
  | S n' => match l with
            | len :: sh :: m :: r =>
                let '(base, r1) := take_pairs (Z.to_nat m) r in
                let '(rs, r2) := parse_runs n' r1 in
                (mkrun len (sh =? 1) base :: rs, r2)
            | _ => ([], l)
            end
  end.
(** per rank: nruns, runs *)
Fixpoint parse_ranks (np : nat) (l : list Z) : list (list run) :=
  match np with
  | O => []
  | S np' => match l with
             | n :: r => let '(rs, rest) := parse_runs (Z.to_nat n) r in rs :: parse_ranks np' rest
             | [] => [] :: parse_ranks np' []
             end
  end.
Fixpoint check_ranks (kind np root count rank : Z) (obs : list (list run)) : list Z :=
  match obs with
  | [] => []
  | o :: r => (if coll_ok kind np root count rank o then [] else [rank]) ++ check_ranks kind np root count (rank + 1) r
  end.
(** [kind; np; root; count; per-rank observations...] -> ranks whose buffer differs from the MPI definition *)
Definition run_c29_check (inp : list Z) : list Z :=
  match inp with
  | kind :: np :: root :: count :: rest =>
      let obs := parse_ranks (Z.to_nat np) rest in
      if Z.of_nat (List.length obs) =? np then check_ranks (kind mod 100) np root count 0 obs else [-1]
  | _ => [-1]
  end.
(** [np; enter_0; exit_0; ...] -> [1] iff the barrier property holds *)
Definition run_c29_barrier (inp : list Z) : list Z :=
  match inp with
  | np :: rest => let '(ps, _) := take_pairs (Z.to_nat np) rest in
                  if (Z.of_nat (List.length ps) =? np) && barrier_ok (map fst ps) (map snd ps) then [1] else [0]
  | _ => [0]
  end.
(** [op; kind; np; root; count] -> per rank: n, values *)
Definition run_c29_direct (inp : list Z) : list Z :=
  match inp with
  | o :: kind :: np :: root :: count :: _ =>
      flat_map (fun rank => let v := direct_expected o (kind mod 100) np root count rank in Z.of_nat (List.length v) :: v) (zseq np)
  | _ => []
  end.
