(** C32 — MPI groups and Comm::split (src/smpi/mpi/smpi_group.cpp, smpi_comm.cpp, bindings/smpi_pmpi_group.cpp).
    Model only.  A group is the list of its members (actor ids, here any non-negative integers) in rank order:
    [rank_to_pid_map_]; [g_rank] plays [pid_to_rank_map_].  Ranks are [Z].
    [intersection_orig] mirrors the code as pinned, [intersection] the repaired code. *)
From SGV Require Import Base.Tactics.
Local Open Scope Z_scope.

Definition UNDEF : Z := -333.      (* MPI_UNDEFINED *)
Definition PNULL : Z := -1000.     (* protocol encoding of MPI_PROC_NULL *)
Definition IDENT : Z := 0.
Definition SIMILAR : Z := 1.
Definition UNEQUAL : Z := 2.

Definition group := list Z.
Definition g_size (g : group) : Z := Z.of_nat (length g).
Fixpoint g_rank_from (i : Z) (g : group) (a : Z) : Z :=
  match g with [] => UNDEF | x :: r => if x =? a then i else g_rank_from (i + 1) r a end.
Definition g_rank (g : group) (a : Z) : Z := g_rank_from 0 g a.
Definition g_actor (g : group) (r : Z) : Z :=
  if (0 <=? r) && (r <? g_size g) then nth (Z.to_nat r) g (-1) else -1.
Definition zseq (n : Z) : list Z := map Z.of_nat (seq 0 (Z.to_nat n)).
Definition indices (g : group) : list Z := zseq (g_size g).

(* Group::incl : new rank i <- actor(ranks[i]) *)
Definition incl (g : group) (ranks : list Z) : group := map (g_actor g) ranks.
(* Group::excl(map) *)
Definition excl_map (g : group) (to_excl : Z -> bool) : group :=
  incl g (filter (fun i => negb (to_excl i)) (indices g)).
Definition excl (g : group) (ranks : list Z) : group := excl_map g (fun i => existsb (Z.eqb i) ranks).
(* PMPI_Group_excl *)
Definition p_excl (g : group) (ranks : list Z) : group :=
  let n := Z.of_nat (length ranks) in
  if n =? 0 then g else if n =? g_size g then [] else excl g ranks.

Definition group_union (g1 g2 : group) : group :=
  let ranks2 := filter (fun i => g_rank g1 (g_actor g2 i) =? UNDEF) (indices g2) in
  map (g_actor g1) (indices g1) ++ map (g_actor g2) ranks2.
Definition intersection_orig (g1 g2 : group) : group :=
  incl g2 (filter (fun i => negb (g_rank g1 (g_actor g2 i) =? UNDEF)) (indices g2)).
Definition intersection (g1 g2 : group) : group :=
  incl g1 (filter (fun i => negb (g_rank g2 (g_actor g1 i) =? UNDEF)) (indices g1)).
Definition difference (g1 g2 : group) : group :=
  incl g1 (filter (fun i => g_rank g2 (g_actor g1 i) =? UNDEF) (indices g1)).

(* range loops:  for (j = first; j >= 0 && j < size && is_rank_in_range(j, first, last); j += stride) *)
Definition in_range (j first last : Z) : bool :=
  ((first <=? j) && (j <=? last)) || ((j <=? first) && (last <=? j)).
Fixpoint range_loop (fuel : nat) (size j first last stride : Z) : option (list Z) :=
  match fuel with
  | O => None
  | S f => if (0 <=? j) && (j <? size) && in_range j first last
           then option_map (cons j) (range_loop f size (j + stride) first last stride)
           else Some []
  end.
Definition rng3 := (Z * Z * Z)%type.
Fixpoint range_ranks (size : Z) (ranges : list rng3) : option (list Z) :=
  match ranges with
  | [] => Some []
  | (first, last, stride) :: r =>
      match range_loop (S (Z.to_nat size)) size first first last stride, range_ranks size r with
      | Some a, Some b => Some (a ++ b)
      | _, _ => None
      end
  end.
Definition range_incl (g : group) (ranges : list rng3) : option group :=
  option_map (incl g) (range_ranks (g_size g) ranges).
Definition range_excl (g : group) (ranges : list rng3) : option group :=
  option_map (excl g) (range_ranks (g_size g) ranges).

(* PMPI_Group_translate_ranks; None = MPI_ERR_RANK *)
Fixpoint translate (g1 : group) (ranks : list Z) (g2 : group) : option (list Z) :=
  match ranks with
  | [] => Some []
  | r :: rs =>
      if negb (r =? PNULL) && ((r <? 0) || (g_size g1 <=? r)) then None
      else option_map (cons (if r =? PNULL then PNULL else g_rank g2 (g_actor g1 r))) (translate g1 rs g2)
  end.

(* Group::compare *)
Fixpoint compare_loop (g1 g2 : group) (idx : list Z) (result : Z) : Z :=
  match idx with
  | [] => result
  | i :: r => let rk := g_rank g2 (g_actor g1 i) in
              if rk =? UNDEF then UNEQUAL else compare_loop g1 g2 r (if rk =? i then result else SIMILAR)
  end.
Definition compare (g1 g2 : group) : Z :=
  if negb (g_size g1 =? g_size g2) then UNEQUAL else compare_loop g1 g2 (indices g1) IDENT.

(** Comm::split.  [cks] = (color, key) of every rank of the communicator, in rank order. *)
Definition pair_le (a b : Z * Z) : bool := (fst a <? fst b) || ((fst a =? fst b) && (snd a <=? snd b)).
Fixpoint insert_pair (x : Z * Z) (l : list (Z * Z)) : list (Z * Z) :=
  match l with [] => [x] | a :: r => if pair_le x a then x :: l else a :: insert_pair x r end.
Definition sort_pairs (l : list (Z * Z)) : list (Z * Z) := fold_right insert_pair [] l.
Fixpoint first_with (c : Z) (i : Z) (colors : list Z) : Z :=
  match colors with [] => -1 | x :: r => if x =? c then i else first_with c (i + 1) r end.
(* the (key, rank) pairs gathered by the root for the colour class discovered at index i: the later ranks of that
   colour, then i itself; then std::sort *)
Definition rankmap (cks : list (Z * Z)) (i : Z) : list (Z * Z) :=
  let c := fst (nth (Z.to_nat i) cks (UNDEF, 0)) in
  let later := filter (fun j => (i <? j) && (fst (nth (Z.to_nat j) cks (UNDEF, 0)) =? c)) (zseq (Z.of_nat (length cks))) in
  map (fun j => (snd (nth (Z.to_nat j) cks (UNDEF, 0)), j)) later ++ [(snd (nth (Z.to_nat i) cks (UNDEF, 0)), i)].
(* ranks (in the old communicator) of the members of the new communicator of rank r, in new-rank order;
   None = MPI_COMM_NULL *)
Definition split_ranks (cks : list (Z * Z)) (r : Z) : option (list Z) :=
  let c := fst (nth (Z.to_nat r) cks (UNDEF, 0)) in
  if c =? UNDEF then None
  else Some (map snd (sort_pairs (rankmap cks (first_with c 0 (map fst cks))))).
Definition split (g : group) (cks : list (Z * Z)) (r : Z) : option group :=
  option_map (incl g) (split_ranks cks r).

(* Comm::dup copies the group; PMPI_Comm_create keeps the group for its members *)
Definition comm_dup (g : group) : group := g.
Definition comm_create (g : group) (me : Z) : option group := if g_rank g me =? UNDEF then None else Some g.

(** executable entry points.  A group is given as  n a1..an  (members = world ranks). *)
Definition take_list (l : list Z) : list Z * list Z :=
  match l with n :: r => take_n (Z.to_nat n) r | [] => ([], []) end.
Fixpoint triples (l : list Z) : list rng3 :=
  match l with a :: b :: c :: r => (a, b, c) :: triples r | _ => [] end.
Definition out_opt (o : option (list Z)) : list Z := match o with Some l => 0 :: l | None => [1] end.
(* input: op g1 [g2|ranks|ranges]   ops: 0 union 1 intersection 2 difference 3 incl 4 excl 5 range_incl 6 range_excl
   7 translate (g1 ranks g2) 8 compare 9 intersection as pinned *)
Definition run_c32_group (inp : list Z) : list Z :=
  match inp with
  | op :: r =>
      let '(g1, r1) := take_list r in
      let '(x, r2) := take_list r1 in
      if op =? 0 then 0 :: group_union g1 x
      else if op =? 1 then 0 :: intersection g1 x
      else if op =? 2 then 0 :: difference g1 x
      else if op =? 3 then 0 :: incl g1 x
      else if op =? 4 then 0 :: p_excl g1 x
      else if op =? 5 then (if (Z.of_nat (length x) =? 0) then [0] else out_opt (range_incl g1 (triples x)))
      else if op =? 6 then (if (Z.of_nat (length x) =? 0) then 0 :: g1 else out_opt (range_excl g1 (triples x)))
      else if op =? 7 then out_opt (translate g1 x (fst (take_list r2)))
      else if op =? 8 then [0; compare g1 x]
      else if op =? 9 then 0 :: intersection_orig g1 x
      else [-1]
  | [] => [-1]
  end.
(* input: np c1..cnp k1..knp ; output per rank: 0 (COMM_NULL) | 1 newrank size members(old ranks).. *)
Definition run_c32_split (inp : list Z) : list Z :=
  match inp with
  | np :: r =>
      let n := Z.to_nat np in
      let '(cs, r1) := take_n n r in
      let '(ks, _) := take_n n r1 in
      let cks := combine cs ks in
      let world := zseq np in
      flat_map (fun me => match split world cks me with
                          | None => [0]
                          | Some g => [1; g_rank g me; g_size g] ++ g
                          end) world
  | [] => [-1]
  end.
