(** C30 — proofs: the objects built by Datatype::create_* have the size/lb/ub of the MPI type map and
    serialize/unserialize visit exactly the bytes of the type map, for trees of any depth. *)
From SGV Require Import Base.Tactics Smpi.Datatype.
Local Open Scope Z_scope.

(* ------------------------------------------------------------------------------------------------ lists *)
Lemma flat_map_map {A B C} (f : B -> list C) (g : A -> B) l :
  flat_map f (map g l) = flat_map (fun x => f (g x)) l.
Proof. induction l as [|a l IH]; cbn; [reflexivity | now rewrite IH]. Qed.

Lemma flat_map_flat_map {A B C} (f : B -> list C) (g : A -> list B) l :
  flat_map f (flat_map g l) = flat_map (fun x => flat_map f (g x)) l.
Proof. induction l as [|a l IH]; cbn; [reflexivity | now rewrite flat_map_app, IH]. Qed.

Lemma flat_map_ext_in {A B} (f g : A -> list B) l :
  (forall x, In x l -> f x = g x) -> flat_map f l = flat_map g l.
Proof.
  induction l as [|a l IH]; cbn; intros H; [reflexivity|].
  rewrite H by now left. rewrite IH; [reflexivity | intros; apply H; now right].
Qed.

Lemma map_flat_map {A B C} (f : B -> C) (g : A -> list B) l :
  map f (flat_map g l) = flat_map (fun x => map f (g x)) l.
Proof. induction l as [|a l IH]; cbn; [reflexivity | now rewrite map_app, IH]. Qed.

Lemma flat_map_single {A B} (f : A -> B) l : flat_map (fun x => [f x]) l = map f l.
Proof. induction l as [|a l IH]; cbn; [reflexivity | now rewrite IH]. Qed.

Lemma flat_map_nil {A B} (l : list A) : flat_map (fun _ => @nil B) l = [].
Proof. induction l; cbn; auto. Qed.

(* ------------------------------------------------------------------------------------------------ iota, range *)
Lemma In_iota n i : In i (iota n) <-> 0 <= i < n.
Proof.
  unfold iota. rewrite in_map_iff. split.
  - intros (k & <- & Hk). apply in_seq in Hk. lia.
  - intros H. exists (Z.to_nat i). split; [lia|]. apply in_seq. lia.
Qed.

Lemma iota_nonpos n : n <= 0 -> iota n = [].
Proof. intros H. unfold iota. replace (Z.to_nat n) with O by lia. reflexivity. Qed.

Lemma seq_add a b : seq a b = map (Nat.add a) (seq 0 b).
Proof.
  induction a as [|a IH]; cbn.
  - symmetry. rewrite <- (map_id (seq 0 b)) at 2. apply map_ext. reflexivity.
  - rewrite <- seq_shift, IH, map_map. reflexivity.
Qed.

Lemma iota_app a b : 0 <= a -> 0 <= b -> iota (a + b) = iota a ++ map (fun k => a + k) (iota b).
Proof.
  intros Ha Hb. unfold iota. rewrite Z2Nat.inj_add by lia. rewrite seq_app, map_app. f_equal.
  cbn [plus]. rewrite seq_add, !map_map. apply map_ext. intros k. lia.
Qed.

Lemma iota_1 : iota 1 = [0].
Proof. reflexivity. Qed.

Lemma iota_succ n : 0 <= n -> iota (n + 1) = iota n ++ [n].
Proof. intros H. rewrite iota_app by lia. rewrite iota_1. cbn. do 2 f_equal. lia. Qed.

Lemma iota_length n : Z.of_nat (length (iota n)) = Z.max 0 n.
Proof. unfold iota. rewrite map_length, seq_length. lia. Qed.

Lemma range_app p a b : 0 <= a -> 0 <= b -> range p (a + b) = range p a ++ range (p + a) b.
Proof.
  intros Ha Hb. unfold range. rewrite iota_app, map_app, map_map by lia. f_equal. apply map_ext. intros; lia.
Qed.

Lemma range_nonpos p n : n <= 0 -> range p n = [].
Proof. intros. unfold range. now rewrite iota_nonpos. Qed.

(** a contiguous range is the concatenation of n consecutive pieces of s bytes *)
Lemma range_blocks p s n : 0 <= s -> 0 <= n ->
  range p (n * s) = flat_map (fun j => range (p + j * s) s) (iota n).
Proof.
  intros Hs Hn. rewrite <- (Z2Nat.id n) by lia. generalize (Z.to_nat n) as m. clear n Hn.
  induction m as [|m IH].
  - cbn. reflexivity.
  - rewrite Nat2Z.inj_succ. unfold Z.succ. rewrite iota_succ by lia.
    rewrite flat_map_app. cbn [flat_map]. rewrite app_nil_r.
    replace ((Z.of_nat m + 1) * s) with (Z.of_nat m * s + s) by lia.
    rewrite range_app by nia. now rewrite IH.
Qed.

(* ------------------------------------------------------------------------------------------------ min / max *)
Lemma fold_min_le x r y : In y (x :: r) -> fold_right Z.min x r <= y.
Proof.
  induction r as [|a r IH]; cbn; intros H.
  - destruct H as [->|[]]. lia.
  - destruct H as [->|[->|H]]; [specialize (IH (or_introl eq_refl)) | | specialize (IH (or_intror H))]; lia.
Qed.

Lemma fold_min_in x r : In (fold_right Z.min x r) (x :: r).
Proof.
  induction r as [|a r IH]; cbn; [now left|].
  destruct (Z.min_spec a (fold_right Z.min x r)) as [[_ ->]|[_ ->]]; [right; now left|].
  destruct IH as [IH|IH]; [left; exact IH | right; right; exact IH].
Qed.

Lemma min_list_char l m : In m l -> (forall y, In y l -> m <= y) -> min_list l = m.
Proof.
  destruct l as [|x r]; [intros []|]. cbn [min_list]. intros Hin Hle.
  pose proof (fold_min_le x r m Hin). pose proof (Hle _ (fold_min_in x r)). lia.
Qed.

Lemma max_list_neg l : max_list l = - min_list (map Z.opp l).
Proof.
  destruct l as [|x r]; [reflexivity|]. cbn [max_list min_list map].
  induction r as [|a r IH]; cbn; [lia|]. rewrite IH. lia.
Qed.

Lemma max_list_char l m : In m l -> (forall y, In y l -> y <= m) -> max_list l = m.
Proof.
  intros Hin Hle. rewrite max_list_neg.
  rewrite (min_list_char (map Z.opp l) (- m)); [lia | |].
  - apply in_map_iff. eauto.
  - intros y Hy. apply in_map_iff in Hy. destruct Hy as (z & <- & Hz). specialize (Hle z Hz). lia.
Qed.

(* ------------------------------------------------------------------------------------------------ type maps *)
Lemma shift_shift d e m : shift d (shift e m) = shift (e + d) m.
Proof. unfold shift. rewrite map_map. apply map_ext. intros [a b]; cbn. f_equal. lia. Qed.

Lemma shift_0 m : shift 0 m = m.
Proof. unfold shift. rewrite <- (map_id m) at 2. apply map_ext. intros [a b]; cbn. f_equal. lia. Qed.

Lemma shift_app d a b : shift d (a ++ b) = shift d a ++ shift d b.
Proof. apply map_app. Qed.

Lemma shift_place d ds m : shift d (place ds m) = place (map (fun x => x + d) ds) m.
Proof.
  unfold place. rewrite flat_map_map. unfold shift at 1. rewrite map_flat_map.
  apply flat_map_ext_in. intros x _. apply shift_shift.
Qed.

Lemma tmbytes_app a b : tmbytes (a ++ b) = tmbytes a ++ tmbytes b.
Proof. apply flat_map_app. Qed.

Lemma tmbytes_place ds m : tmbytes (place ds m) = flat_map (fun d => tmbytes (shift d m)) ds.
Proof. unfold tmbytes, place. apply flat_map_flat_map. Qed.

Lemma place_flat_map {A} (f : A -> list Z) l m : place (flat_map f l) m = flat_map (fun x => place (f x) m) l.
Proof. unfold place. apply flat_map_flat_map. Qed.

Lemma tmsize_app a b : tmsize (a ++ b) = tmsize a + tmsize b.
Proof. unfold tmsize. induction a as [|x a IH]; cbn; [reflexivity | rewrite IH; lia]. Qed.

Lemma tmsize_shift d m : tmsize (shift d m) = tmsize m.
Proof. unfold tmsize, shift. induction m as [|x m IH]; cbn; [reflexivity | now rewrite IH]. Qed.

Lemma tmsize_place ds m : tmsize (place ds m) = Z.of_nat (length ds) * tmsize m.
Proof.
  unfold place. induction ds as [|d ds IH]; [cbn; lia|].
  cbn [flat_map length]. rewrite tmsize_app, tmsize_shift, IH. lia.
Qed.

Lemma length_flat_map_const {A B} (f : A -> list B) l k :
  (forall x, In x l -> length (f x) = k) -> length (flat_map f l) = (length l * k)%nat.
Proof.
  induction l as [|a l IH]; intros H; cbn; [reflexivity|].
  rewrite app_length. rewrite H by (cbn; auto). rewrite IH by (intros; apply H; cbn; auto). lia.
Qed.

Lemma blockds_length start ex bl : Z.of_nat (length (blockds start ex bl)) = Z.max 0 bl.
Proof. unfold blockds. rewrite map_length. apply iota_length. Qed.

(** bytes of count elements = the type map shifted to each element start *)
Lemma sbytes_blockds s base n :
  sbytes s base n = flat_map (fun d => tmbytes (shift d (tm s))) (blockds base (sext s) n).
Proof. unfold sbytes, blockds. now rewrite flat_map_map. Qed.

(** count elements, one extent E apart, of copies of [m] at displacements [ds] *)
Lemma bytes_place E base count ds m :
  flat_map (fun j => tmbytes (shift (base + j * E) (place ds m))) (iota count) =
  flat_map (fun j => flat_map (fun d => tmbytes (shift (base + j * E + d) m)) ds) (iota count).
Proof.
  apply flat_map_ext_in. intros j _. rewrite shift_place, tmbytes_place, flat_map_map.
  apply flat_map_ext_in. intros d _. do 2 f_equal. lia.
Qed.

(* ------------------------------------------------------------------------------------------------ the relation *)
Definition blk (old : ctype) (p n : Z) : list Z :=
  if cderived old then cser old p n else range p (n * csize old).

Record Rel (c : ctype) (s : sem) : Prop := {
  r_size : csize c = tmsize (tm s);
  r_lb : clb c = slb s;
  r_ub : cub c = sub s;
  r_ext : 0 <= sext s;
  r_pos : 0 <= csize c;
  r_plain : cderived c = false -> clb c = 0 /\ cub c = csize c /\ 0 < csize c;
  r_ser : forall base count, 0 <= count -> cser c base count = sbytes s base count;
  r_blk : forall p n, 0 <= n -> blk c p n = sbytes s p n }.

Lemma Rel_cext c s : Rel c s -> cext c = sext s.
Proof. intros R. unfold cext, sext. now rewrite (r_lb _ _ R), (r_ub _ _ R). Qed.

(** a derived object only needs r_ser *)
Lemma Rel_derived c s :
  cderived c = true -> csize c = tmsize (tm s) -> clb c = slb s -> cub c = sub s -> 0 <= sext s -> 0 <= csize c ->
  (forall base count, 0 <= count -> cser c base count = sbytes s base count) -> Rel c s.
Proof.
  intros Hd H1 H2 H3 H4 H5 H6. constructor; auto.
  - rewrite Hd. discriminate.
  - intros p n Hn. unfold blk. rewrite Hd. now apply H6.
Qed.

Lemma Rel_basic sz : 0 < sz -> Rel (CPlain sz 0 sz false) (mkSem [(0, sz)] 0 sz).
Proof.
  intros H.
  assert (Hb : forall p n, 0 <= n -> range p (n * sz) = sbytes (mkSem [(0, sz)] 0 sz) p n).
  { intros p n Hn. unfold sbytes, sext; cbn. rewrite range_blocks by lia.
    apply flat_map_ext_in. intros j _. rewrite app_nil_r. f_equal. lia. }
  constructor; unfold sext; cbn; try lia.
  - intros base count Hc. replace (base + 0) with base by lia. now apply Hb.
  - intros p n Hn. unfold blk; cbn. now apply Hb.
Qed.

(** a block of n old elements starting at q, in type-map form *)
Lemma blk_bytes old s q n : Rel old s -> 0 <= n ->
  blk old q n = flat_map (fun k => tmbytes (shift (q + k * sext s) (tm s))) (iota n).
Proof. intros R Hn. rewrite (r_blk _ _ R) by assumption. reflexivity. Qed.

(* ------------------------------------------------------------------------------------------------ hvector *)
Lemma In_blockds d start ex bl : In d (blockds start ex bl) <-> exists k, 0 <= k < bl /\ d = start + k * ex.
Proof.
  unfold blockds. rewrite in_map_iff. split.
  - intros (k & <- & Hk). apply In_iota in Hk. eauto.
  - intros (k & Hk & ->). exists k. split; [reflexivity | now apply In_iota].
Qed.

Lemma In_ds_hvector d ex n bl stride :
  In d (ds_hvector ex n bl stride) <-> exists i k, 0 <= i < n /\ 0 <= k < bl /\ d = i * stride + k * ex.
Proof.
  unfold ds_hvector. rewrite in_flat_map. split.
  - intros (i & Hi & Hd). apply In_iota in Hi. apply In_blockds in Hd. destruct Hd as (k & Hk & ->). eauto.
  - intros (i & k & Hi & Hk & ->). exists i. split; [now apply In_iota | apply In_blockds; eauto].
Qed.

Lemma ds_hvector_length ex n bl stride : 0 <= n -> 0 <= bl ->
  Z.of_nat (length (ds_hvector ex n bl stride)) = n * bl.
Proof.
  intros Hn Hb. unfold ds_hvector.
  rewrite (length_flat_map_const _ _ (Z.to_nat bl)).
  - pose proof (iota_length n). lia.
  - intros x _. pose proof (blockds_length (x * stride) ex bl). lia.
Qed.

(** lb/ub of copies at the displacements of an hvector *)
Lemma hvector_bounds ex n bl stride l u :
  1 <= n -> 1 <= bl -> 0 <= stride -> 0 <= ex ->
  min_list (map (fun d => d + l) (ds_hvector ex n bl stride)) = l /\
  max_list (map (fun d => d + u) (ds_hvector ex n bl stride)) = (n - 1) * stride + (bl - 1) * ex + u.
Proof.
  intros Hn Hb Hs He. split.
  - apply min_list_char.
    + apply in_map_iff. exists 0. split; [lia|]. apply In_ds_hvector. exists 0, 0. lia.
    + intros y Hy. apply in_map_iff in Hy. destruct Hy as (d & <- & Hd).
      apply In_ds_hvector in Hd. destruct Hd as (i & k & Hi & Hk & ->). nia.
  - apply max_list_char.
    + apply in_map_iff. exists ((n - 1) * stride + (bl - 1) * ex). split; [lia|].
      apply In_ds_hvector. exists (n - 1), (bl - 1). lia.
    + intros y Hy. apply in_map_iff in Hy. destruct Hy as (d & <- & Hd).
      apply In_ds_hvector in Hd. destruct Hd as (i & k & Hi & Hk & ->). nia.
Qed.

(** the bytes of count elements of an hvector-shaped replication, block by block *)
Lemma bytes_hvector old s E base count n bl stride : Rel old s -> 0 <= bl ->
  flat_map (fun j => tmbytes (shift (base + j * E) (place (ds_hvector (sext s) n bl stride) (tm s)))) (iota count) =
  flat_map (fun j => flat_map (fun i => blk old (base + j * E + i * stride) bl) (iota n)) (iota count).
Proof.
  intros R Hb. rewrite bytes_place. apply flat_map_ext_in. intros j _.
  unfold ds_hvector. rewrite flat_map_flat_map. apply flat_map_ext_in. intros i _.
  rewrite (blk_bytes _ _ _ _ R Hb). unfold blockds. rewrite flat_map_map.
  apply flat_map_ext_in. intros k _. do 2 f_equal. lia.
Qed.

Lemma Rel_hvector old s n bl stride :
  Rel old s -> 1 <= n -> 1 <= bl -> 0 <= stride ->
  Rel (create_hvector n bl stride old) (replicate (ds_hvector (sext s) n bl stride) s).
Proof.
  intros R Hn Hb Hs.
  pose proof (r_ext _ _ R) as He. pose proof (Rel_cext _ _ R) as Hce.
  destruct (hvector_bounds (sext s) n bl stride (slb s) (sub s) Hn Hb Hs He) as [Hmin Hmax].
  assert (Hsz : tmsize (place (ds_hvector (sext s) n bl stride) (tm s)) = csize old * bl * n).
  { rewrite tmsize_place, ds_hvector_length, <- (r_size _ _ R) by lia. lia. }
  pose proof (r_pos _ _ R) as Hp.
  unfold create_hvector. replace (0 <? n) with true by lia.
  destruct (cderived old || negb (stride =? bl * cext old)) eqn:Hbr.
  - apply Rel_derived; cbn [csize clb cub cderived replicate tm slb sub]; unfold sext; cbn [slb sub tm]; fold (sext s); auto; try nia.
    + rewrite Hmin. apply (r_lb _ _ R).
    + rewrite Hmax, Hce. rewrite (r_ub _ _ R). reflexivity.
    + cbn [replicate slb sub]. rewrite Hmin, Hmax. unfold sext in *. nia.
    + intros base count Hc. unfold sbytes, sext. cbn [replicate tm slb sub cser]. fold (sext s). rewrite Hmin, Hmax.
      rewrite (bytes_hvector old s) by (auto; lia).
      rewrite Hce, (r_ub _ _ R), (r_lb _ _ R). unfold blk. reflexivity.
  - (* contiguous: old is not derived and the blocks touch *)
    apply orb_false_iff in Hbr. destruct Hbr as [Hd Hst].
    destruct (r_plain _ _ R Hd) as (Hl0 & Hu0 & Hs0).
    assert (Hstride : stride = bl * csize old) by (unfold cext in *; lia).
    assert (Hex : sext s = csize old) by (rewrite <- Hce; unfold cext; lia).
    apply Rel_derived; cbn [csize clb cub cderived replicate tm slb sub]; unfold sext; cbn [slb sub tm]; fold (sext s); auto; try nia.
    + rewrite Hmin. rewrite <- (r_lb _ _ R). lia.
    + rewrite Hmax. rewrite <- (r_ub _ _ R). nia.
    + cbn [replicate slb sub]. rewrite Hmin, Hmax. unfold sext in *. nia.
    + intros base count Hc. unfold sbytes, sext. cbn [replicate tm slb sub cser]. fold (sext s). rewrite Hmin, Hmax.
      rewrite (bytes_hvector old s) by (auto; lia).
      replace (base + 0) with base by lia.
      replace (count * (csize old * bl * n)) with (count * (n * (bl * csize old))) by lia.
      rewrite (range_blocks base (n * (bl * csize old)) count) by nia.
      apply flat_map_ext_in. intros j _.
      rewrite (range_blocks (base + j * (n * (bl * csize old))) (bl * csize old) n) by nia.
      apply flat_map_ext_in. intros i _.
      unfold blk. rewrite Hd. f_equal.
      rewrite <- (r_ub _ _ R), <- (r_lb _ _ R). rewrite Hex. nia.
Qed.

(* ------------------------------------------------------------------------------------------------ vector, contiguous *)
Lemma create_vector_hvector old s n bl stride : Rel old s ->
  create_vector n bl stride old = create_hvector n bl (stride * cext old) old.
Proof.
  intros R. unfold create_vector, create_hvector.
  assert (Hc : cderived old || negb (stride =? bl) = cderived old || negb (stride * cext old =? bl * cext old)).
  { destruct (cderived old) eqn:Hd; [reflexivity|]. cbn.
    destruct (r_plain _ _ R Hd) as (Hl & Hu & Hp). unfold cext.
    destruct (stride =? bl) eqn:E1; destruct (stride * (cub old - clb old) =? bl * (cub old - clb old)) eqn:E2; try reflexivity; nia. }
  rewrite <- Hc.
  destruct (cderived old || negb (stride =? bl)) eqn:Hbr.
  - f_equal. destruct (0 <? n); lia.
  - apply orb_false_iff in Hbr. destruct Hbr as [_ Hst]. f_equal. nia.
Qed.

Lemma Rel_vector old s n bl stride :
  Rel old s -> 1 <= n -> 1 <= bl -> 0 <= stride ->
  Rel (create_vector n bl stride old) (replicate (ds_hvector (sext s) n bl (stride * sext s)) s).
Proof.
  intros R Hn Hb Hs. rewrite (create_vector_hvector old s) by assumption.
  rewrite (Rel_cext _ _ R). apply Rel_hvector; auto. pose proof (r_ext _ _ R). nia.
Qed.

Lemma blockds_as_hvector ex n : blockds 0 ex n = ds_hvector ex n 1 ex.
Proof.
  unfold ds_hvector, blockds. rewrite iota_1. cbn [map]. rewrite flat_map_single.
  apply map_ext. intros; lia.
Qed.

Lemma Rel_contiguous old s n :
  Rel old s -> 1 <= n -> Rel (create_contiguous n old 0) (replicate (blockds 0 (sext s) n) s).
Proof.
  intros R Hn. rewrite blockds_as_hvector. unfold create_contiguous.
  destruct (cderived old) eqn:Hd.
  - rewrite (Rel_cext _ _ R). apply Rel_hvector; auto; try lia. apply (r_ext _ _ R).
  - (* Type_Contiguous over a basic type behaves like the contiguous hvector shortcut *)
    pose proof (Rel_hvector old s n 1 (sext s) R Hn ltac:(lia) (r_ext _ _ R)) as RH.
    unfold create_hvector in RH. rewrite Hd in RH. rewrite (Rel_cext _ _ R) in RH.
    replace (sext s =? 1 * sext s) with true in RH by lia. cbn [orb negb] in RH.
    replace (0 <? n) with true by lia.
    destruct RH as [H1 H2 H3 H4 H5 H6 H7 H8].
    cbn [csize clb cub cderived] in *.
    apply Rel_derived; cbn [csize clb cub cderived]; auto; try lia; try nia;
      try (transitivity (csize old * 1 * n); [lia | assumption]).
    intros base count Hc. rewrite <- H7 by assumption. cbn [cser]. f_equal. lia.
Qed.

(* ------------------------------------------------------------------------------------------------ struct *)
Lemma min_list_le l y : In y l -> min_list l <= y.
Proof. destruct l as [|x r]; [intros []|]. apply fold_min_le. Qed.
Lemma min_list_in l : l <> [] -> In (min_list l) l.
Proof. destruct l as [|x r]; [congruence|]. intros _. apply fold_min_in. Qed.
Lemma max_list_le l y : In y l -> y <= max_list l.
Proof.
  intros H. rewrite max_list_neg. pose proof (min_list_le (map Z.opp l) (- y)) as M.
  assert (In (- y) (map Z.opp l)) by (apply in_map_iff; eauto). specialize (M H0). lia.
Qed.
Lemma max_list_in l : l <> [] -> In (max_list l) l.
Proof.
  intros H. rewrite max_list_neg. pose proof (min_list_in (map Z.opp l)) as M.
  assert (map Z.opp l <> []) by (destruct l; cbn; congruence). specialize (M H0).
  apply in_map_iff in M. destruct M as (z & Hz & Hin). rewrite <- Hz. now replace (- - z) with z by lia.
Qed.

Lemma min_list_flat_map {A} (f : A -> list Z) l :
  l <> [] -> (forall x, In x l -> f x <> []) ->
  min_list (flat_map f l) = min_list (map (fun x => min_list (f x)) l).
Proof.
  intros Hl Hf. apply min_list_char.
  - pose proof (min_list_in (map (fun x => min_list (f x)) l)) as M.
    assert (map (fun x => min_list (f x)) l <> []) by (destruct l; cbn; congruence).
    specialize (M H). apply in_map_iff in M. destruct M as (x & Hx & Hin). rewrite <- Hx.
    apply in_flat_map. exists x. split; [assumption|]. apply min_list_in. now apply Hf.
  - intros y Hy. apply in_flat_map in Hy. destruct Hy as (x & Hin & Hy).
    pose proof (min_list_le (f x) y Hy).
    pose proof (min_list_le (map (fun x => min_list (f x)) l) (min_list (f x))) as M.
    assert (In (min_list (f x)) (map (fun x => min_list (f x)) l)) by (apply in_map_iff; eauto).
    specialize (M H0). lia.
Qed.

Lemma max_list_flat_map {A} (f : A -> list Z) l :
  l <> [] -> (forall x, In x l -> f x <> []) ->
  max_list (flat_map f l) = max_list (map (fun x => max_list (f x)) l).
Proof.
  intros Hl Hf. apply max_list_char.
  - pose proof (max_list_in (map (fun x => max_list (f x)) l)) as M.
    assert (map (fun x => max_list (f x)) l <> []) by (destruct l; cbn; congruence).
    specialize (M H). apply in_map_iff in M. destruct M as (x & Hx & Hin). rewrite <- Hx.
    apply in_flat_map. exists x. split; [assumption|]. apply max_list_in. now apply Hf.
  - intros y Hy. apply in_flat_map in Hy. destruct Hy as (x & Hin & Hy).
    pose proof (max_list_le (f x) y Hy).
    pose proof (max_list_le (map (fun x => max_list (f x)) l) (max_list (f x))) as M.
    assert (In (max_list (f x)) (map (fun x => max_list (f x)) l)) by (apply in_map_iff; eauto).
    specialize (M H0). lia.
Qed.

Lemma blockds_nonempty start ex bl : 1 <= bl -> blockds start ex bl <> [].
Proof.
  intros H E. assert (In (start + 0 * ex) (blockds start ex bl)) by (apply In_blockds; exists 0; lia).
  rewrite E in H0. destruct H0.
Qed.

(** lb/ub of one struct member: a block of bl copies at displacement d *)
Lemma block_bounds start ex bl l u : 1 <= bl -> 0 <= ex ->
  min_list (map (fun d => d + l) (blockds start ex bl)) = start + l /\
  max_list (map (fun d => d + u) (blockds start ex bl)) = start + (bl - 1) * ex + u.
Proof.
  intros Hb He. split.
  - apply min_list_char.
    + apply in_map_iff. exists start. split; [lia|]. apply In_blockds. exists 0. lia.
    + intros y Hy. apply in_map_iff in Hy. destruct Hy as (d & <- & Hd).
      apply In_blockds in Hd. destruct Hd as (k & Hk & ->). nia.
  - apply max_list_char.
    + apply in_map_iff. exists (start + (bl - 1) * ex). split; [lia|]. apply In_blockds. exists (bl - 1). lia.
    + intros y Hy. apply in_map_iff in Hy. destruct Hy as (d & <- & Hd).
      apply In_blockds in Hd. destruct Hd as (k & Hk & ->). nia.
Qed.

Definition frel (c : Z * Z * ctype) (f : Z * Z * sem) : Prop :=
  match c, f with (bl, d, old), (bl', d', s) => bl = bl' /\ d = d' /\ 1 <= bl /\ Rel old s end.

Definition flb (c : Z * Z * ctype) : Z := match c with (bl, d, old) => d + clb old end.
Definition fub (c : Z * Z * ctype) : Z := match c with (bl, d, old) => d + (bl - 1) * cext old + cub old end.

Lemma frel_bounds c f : frel c f -> slb (field_sem f) = flb c /\ sub (field_sem f) = fub c.
Proof.
  destruct c as [[bl d] old], f as [[bl' d'] s]. intros (-> & -> & Hb & R). cbn.
  destruct (block_bounds d' (sext s) bl' (slb s) (sub s) Hb (r_ext _ _ R)) as [-> ->].
  rewrite (Rel_cext _ _ R), (r_lb _ _ R), (r_ub _ _ R). split; reflexivity.
Qed.

Lemma struct_bounds_char fields : forall lb ub L U,
  struct_bounds fields (lb, ub) = (L, U) ->
  (L <= lb /\ (L = lb \/ exists f, In f fields /\ L = flb f) /\ (forall f, In f fields -> L <= flb f)) /\
  (ub <= U /\ (U = ub \/ exists f, In f fields /\ U = fub f) /\ (forall f, In f fields -> fub f <= U)).
Proof.
  induction fields as [|[[bl d] old] r IH]; intros lb ub L U H; cbn in H.
  - inv H. repeat split; auto; try lia; intros f [].
  - unfold upd_bounds in H. apply IH in H. destruct H as [(A1 & A2 & A3) (B1 & B2 & B3)].
    split; (split; [|split]).
    + destruct (d + clb old <? lb) eqn:E; lia.
    + destruct A2 as [->|(f & Hf & ->)]; [|right; exists f; split; [now right | reflexivity]].
      destruct (d + clb old <? lb) eqn:E; [right; exists (bl, d, old); split; [now left | reflexivity] | now left].
    + intros f [<-|Hf]; [cbn; destruct (d + clb old <? lb) eqn:E; lia | now apply A3].
    + destruct (ub <? d + (bl - 1) * cext old + cub old) eqn:E; lia.
    + destruct B2 as [->|(f & Hf & ->)]; [|right; exists f; split; [now right | reflexivity]].
      destruct (ub <? d + (bl - 1) * cext old + cub old) eqn:E; [right; exists (bl, d, old); split; [now left | reflexivity] | now left].
    + intros f [<-|Hf]; [cbn; destruct (ub <? d + (bl - 1) * cext old + cub old) eqn:E; lia | now apply B3].
Qed.

Definition struct_init (fields : list (Z * Z * ctype)) : Z * Z :=
  match fields with [] => (0, 0) | (bl, d, old) :: _ => (d + clb old, d + (bl - 1) * cext old + cub old) end.

Lemma struct_bounds_minmax fields L U : fields <> [] ->
  struct_bounds fields (struct_init fields) = (L, U) ->
  L = min_list (map flb fields) /\ U = max_list (map fub fields).
Proof.
  intros Hne H. destruct fields as [|f0 r]; [congruence|].
  assert (Hi : struct_init (f0 :: r) = (flb f0, fub f0)) by (destruct f0 as [[bl d] old]; reflexivity).
  rewrite Hi in H. apply struct_bounds_char in H. destruct H as [(A1 & A2 & A3) (B1 & B2 & B3)]. split.
  - symmetry. apply min_list_char.
    + apply in_map_iff. destruct A2 as [->|(f & Hf & ->)]; [exists f0; split; [reflexivity | now left] | eauto].
    + intros y Hy. apply in_map_iff in Hy. destruct Hy as (f & <- & Hf). now apply A3.
  - symmetry. apply max_list_char.
    + apply in_map_iff. destruct B2 as [->|(f & Hf & ->)]; [exists f0; split; [reflexivity | now left] | eauto].
    + intros y Hy. apply in_map_iff in Hy. destruct Hy as (f & <- & Hf). now apply B3.
Qed.

Lemma Forall2_map_eq {A B C} (R : A -> B -> Prop) (f : A -> C) (g : B -> C) l1 l2 :
  Forall2 R l1 l2 -> (forall a b, R a b -> f a = g b) -> map f l1 = map g l2.
Proof. induction 1; intros H'; cbn; [reflexivity|]. f_equal; auto. Qed.

Lemma Forall2_flat_map_eq {A B C} (R : A -> B -> Prop) (f : A -> list C) (g : B -> list C) l1 l2 :
  Forall2 R l1 l2 -> (forall a b, R a b -> f a = g b) -> flat_map f l1 = flat_map g l2.
Proof. induction 1; intros H'; cbn; [reflexivity|]. f_equal; auto. Qed.

Lemma struct_size_spec cf sf : Forall2 frel cf sf ->
  struct_size cf = tmsize (flat_map (fun f => tm (field_sem f)) sf).
Proof.
  induction 1 as [|[[bl d] old] [[bl' d'] s] cf sf (-> & -> & Hb & R) F IH]; [reflexivity|].
  cbn [struct_size fold_right flat_map]. rewrite tmsize_app. unfold struct_size in IH. rewrite IH.
  cbn [field_sem replicate tm]. rewrite tmsize_place. pose proof (blockds_length d' (sext s) bl').
  rewrite (r_size _ _ R). lia.
Qed.

Lemma tmbytes_shift_flat_map {A} q (g : A -> list (Z * Z)) l :
  tmbytes (shift q (flat_map g l)) = flat_map (fun f => tmbytes (shift q (g f))) l.
Proof.
  induction l as [|a l IH]; [reflexivity|]. cbn [flat_map]. now rewrite shift_app, tmbytes_app, IH.
Qed.

(** bytes of one member at element start q *)
Lemma field_bytes q bl d old s : Rel old s -> 1 <= bl ->
  tmbytes (shift q (tm (field_sem (bl, d, s)))) = blk old (q + d) bl.
Proof.
  intros R Hb. cbn [field_sem replicate tm]. rewrite shift_place, tmbytes_place, flat_map_map.
  rewrite (blk_bytes _ _ _ _ R) by lia. unfold blockds. rewrite flat_map_map.
  apply flat_map_ext_in. intros k _. do 2 f_equal. lia.
Qed.

Lemma struct_min_spec cf sf : Forall2 frel cf sf ->
  map flb cf = map (fun f => slb (field_sem f)) sf /\ map fub cf = map (fun f => sub (field_sem f)) sf.
Proof.
  intros F. split; apply (Forall2_map_eq frel _ _ _ _ F); intros a b Hab; destruct (frel_bounds a b Hab); congruence.
Qed.

Lemma struct_ext_nonneg cf sf : Forall2 frel cf sf -> cf <> [] ->
  min_list (map flb cf) <= max_list (map fub cf).
Proof.
  intros F Hne. destruct F as [|c f cf sf Hcf F]; [congruence|].
  pose proof (min_list_le (map flb (c :: cf)) (flb c) (or_introl eq_refl)).
  pose proof (max_list_le (map fub (c :: cf)) (fub c) (or_introl eq_refl)).
  destruct c as [[bl d] old], f as [[bl' d'] s]. destruct Hcf as (-> & -> & Hb & R).
  pose proof (r_ext _ _ R). pose proof (Rel_cext _ _ R). cbn [flb fub] in *. unfold cext in *. nia.
Qed.

Lemma struct_size_nonneg cf sf : Forall2 frel cf sf -> 0 <= struct_size cf.
Proof.
  induction 1 as [|[[bl d] old] [[bl' d'] s] cf sf (-> & -> & Hb & R) F IH]; cbn; [lia|].
  unfold struct_size in IH. pose proof (r_pos _ _ R). nia.
Qed.

Lemma struct_ser cf sf E base count : Forall2 frel cf sf ->
  flat_map (fun j => tmbytes (shift (base + j * E) (flat_map (fun f => tm (field_sem f)) sf))) (iota count) =
  flat_map (fun j => flat_map (fun f => match f with (bl, disp, old) => blk old (base + j * E + disp) bl end) cf) (iota count).
Proof.
  intros F. apply flat_map_ext_in. intros j _. rewrite tmbytes_shift_flat_map. symmetry.
  apply (Forall2_flat_map_eq frel _ _ _ _ F).
  intros [[bl d] old] [[bl' d'] s] (-> & -> & Hb & R). symmetry. now apply field_bytes.
Qed.

(** Type_Struct built with the bounds of the loop *)
Lemma Rel_struct_obj cf sf L U : Forall2 frel cf sf -> cf <> [] ->
  struct_bounds cf (struct_init cf) = (L, U) ->
  Rel (CStruct (struct_size cf) L U cf) (sem_struct sf).
Proof.
  intros F Hne HB. destruct (struct_bounds_minmax cf L U Hne HB) as [HL HU].
  destruct (struct_min_spec cf sf F) as [Hm1 Hm2].
  pose proof (struct_ext_nonneg cf sf F Hne) as Hext.
  apply Rel_derived; cbn [csize clb cub cderived sem_struct tm slb sub]; auto.
  - now apply struct_size_spec.
  - now rewrite <- Hm1.
  - now rewrite <- Hm2.
  - unfold sext, sem_struct; cbn [slb sub]. rewrite <- Hm1, <- Hm2. lia.
  - now apply (struct_size_nonneg cf sf).
  - intros base count Hc. unfold sbytes, sext, sem_struct. cbn [tm slb sub cser].
    rewrite (struct_ser cf sf _ base count F). rewrite <- Hm1, <- Hm2, <- HL, <- HU.
    apply flat_map_ext_in. intros j _. apply flat_map_ext_in. intros [[bl d] old] _. reflexivity.
Qed.
