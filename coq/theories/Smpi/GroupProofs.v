(** C32 — proofs about the model of Smpi/Group.v: union, intersection, difference, incl, excl, translate, rank *)
From SGV Require Import Base.Tactics Smpi.Group.
From Coq Require Import Permutation.
Local Open Scope Z_scope.

Definition mem (a : Z) (g : list Z) : bool := existsb (Z.eqb a) g.
Lemma mem_In : forall a g, mem a g = true <-> In a g.
Proof.
  intros a g. unfold mem. rewrite existsb_exists. split.
  - intros [x [Hx E]]. apply Z.eqb_eq in E. subst. assumption.
  - intros H. exists a. split; [assumption|apply Z.eqb_refl].
Qed.
Lemma mem_false : forall a g, mem a g = false <-> ~ In a g.
Proof. intros a g. rewrite <- mem_In. destruct (mem a g); split; congruence. Qed.

(** * rank / actor *)
Lemma g_rank_from_notin : forall g i a, ~ In a g -> g_rank_from i g a = UNDEF.
Proof.
  induction g as [|x g IH]; intros i a H; cbn [g_rank_from]; [reflexivity|].
  destruct (x =? a) eqn:E; [apply Z.eqb_eq in E; subst; exfalso; apply H; left; reflexivity|].
  apply IH. intros Hin. apply H. right. assumption.
Qed.
Lemma g_rank_from_in : forall g i a, In a g ->
  i <= g_rank_from i g a < i + g_size g /\ nth (Z.to_nat (g_rank_from i g a - i)) g (-1) = a.
Proof.
  induction g as [|x g IH]; intros i a H; [destruct H|]. cbn [g_rank_from]. unfold g_size. cbn [length].
  destruct (x =? a) eqn:E.
  - apply Z.eqb_eq in E. subst. rewrite Z.sub_diag. cbn. split; [lia|reflexivity].
  - destruct H as [H|H]; [apply Z.eqb_neq in E; congruence|].
    destruct (IH (i + 1) a H) as [H1 H2]. unfold g_size in H1. split; [lia|].
    replace (Z.to_nat (g_rank_from (i + 1) g a - i)) with (S (Z.to_nat (g_rank_from (i + 1) g a - (i + 1)))) by lia.
    cbn [nth]. assumption.
Qed.

Lemma g_actor_nth : forall g r, 0 <= r < g_size g -> g_actor g r = nth (Z.to_nat r) g (-1).
Proof. intros g r H. unfold g_actor. replace ((0 <=? r) && (r <? g_size g)) with true by lia. reflexivity. Qed.

(* what Group::rank answers *)
Lemma g_rank_spec : forall g a,
  (In a g -> 0 <= g_rank g a < g_size g /\ g_actor g (g_rank g a) = a) /\ (~ In a g -> g_rank g a = UNDEF).
Proof.
  intros g a. split; [|apply g_rank_from_notin].
  intros H. destruct (g_rank_from_in g 0 a H) as [H1 H2]. unfold g_rank. split; [lia|].
  rewrite g_actor_nth by lia. rewrite Z.sub_0_r in H2. assumption.
Qed.

Lemma g_rank_undef : forall g a, (g_rank g a =? UNDEF) = negb (mem a g).
Proof.
  intros g a. destruct (mem a g) eqn:E.
  - apply mem_In in E. destruct (proj1 (g_rank_spec g a) E) as [H _]. unfold UNDEF in *. cbn [negb]. lia.
  - apply mem_false in E. rewrite (proj2 (g_rank_spec g a) E). reflexivity.
Qed.

Lemma g_rank_from_nth : forall g k i, NoDup g -> (i < length g)%nat -> g_rank_from k g (nth i g (-1)) = k + Z.of_nat i.
Proof.
  induction g as [|x g IH]; intros k i Hn Hi; cbn [length] in Hi; [lia|]. inv Hn. cbn [g_rank_from].
  destruct i as [|i]; cbn [nth].
  - rewrite Z.eqb_refl. lia.
  - destruct (x =? nth i g (-1)) eqn:E.
    + apply Z.eqb_eq in E. exfalso. apply H1. rewrite E. apply nth_In. lia.
    + rewrite IH by (try assumption; lia). lia.
Qed.
(* rank and actor are inverse on a duplicate-free group *)
Lemma g_rank_actor : forall g i, NoDup g -> 0 <= i < g_size g -> g_rank g (g_actor g i) = i.
Proof.
  intros g i Hn Hi. rewrite g_actor_nth by assumption. unfold g_rank, g_size in *.
  rewrite g_rank_from_nth by (try assumption; lia). lia.
Qed.

(** * index lists *)
Lemma zseq_succ : forall n, 0 <= n -> zseq (n + 1) = 0 :: map Z.succ (zseq n).
Proof.
  intros n Hn. unfold zseq. replace (Z.to_nat (n + 1)) with (S (Z.to_nat n)) by lia.
  cbn [seq map]. f_equal. rewrite <- seq_shift, !map_map. apply map_ext. intros. lia.
Qed.
Lemma indices_cons : forall x g, indices (x :: g) = 0 :: map Z.succ (indices g).
Proof.
  intros x g. unfold indices, g_size. cbn [length]. rewrite Nat2Z.inj_succ, <- Z.add_1_r. apply zseq_succ. lia.
Qed.
Lemma In_zseq : forall n x, In x (zseq n) <-> 0 <= x < n.
Proof.
  intros n x. unfold zseq. rewrite in_map_iff. split.
  - intros [k [Hk Hin]]. apply in_seq in Hin. lia.
  - intros Hx. exists (Z.to_nat x). split; [lia|]. apply in_seq. lia.
Qed.
Lemma NoDup_zseq : forall n, NoDup (zseq n).
Proof.
  intros n. unfold zseq. apply FinFun.Injective_map_NoDup; [|apply seq_NoDup]. intros a b H. lia.
Qed.
Lemma In_indices : forall g i, In i (indices g) <-> 0 <= i < g_size g.
Proof. intros. apply In_zseq. Qed.
Lemma filter_map_comm : forall (f : Z -> bool) (h : Z -> Z) l, filter f (map h l) = map h (filter (fun x => f (h x)) l).
Proof. induction l as [|x l IH]; cbn [map filter]; [reflexivity|]. destruct (f (h x)); cbn [map]; rewrite IH; reflexivity. Qed.
Lemma g_actor_succ : forall x g i, 0 <= i -> g_actor (x :: g) (Z.succ i) = g_actor g i.
Proof.
  intros x g i Hi. unfold g_actor, g_size. cbn [length].
  replace ((0 <=? Z.succ i) && (Z.succ i <? Z.of_nat (S (length g)))) with ((0 <=? i) && (i <? Z.of_nat (length g))) by lia.
  destruct ((0 <=? i) && (i <? Z.of_nat (length g))); [|reflexivity].
  replace (Z.to_nat (Z.succ i)) with (S (Z.to_nat i)) by lia. reflexivity.
Qed.

(* selecting ranks by a predicate on the member = filtering the member list *)
Lemma map_actor_filter : forall (P : Z -> bool) g,
  map (g_actor g) (filter (fun i => P (g_actor g i)) (indices g)) = filter P g.
Proof.
  intros P. induction g as [|x g IH]; [reflexivity|].
  rewrite indices_cons. cbn [filter]. change (g_actor (x :: g) 0) with x.
  rewrite filter_map_comm.
  assert (E : filter (fun i => P (g_actor (x :: g) (Z.succ i))) (indices g) = filter (fun i => P (g_actor g i)) (indices g)).
  { apply filter_ext_in. intros i Hi. apply In_indices in Hi. rewrite g_actor_succ by lia. reflexivity. }
  rewrite E.
  assert (E2 : map (g_actor (x :: g)) (map Z.succ (filter (fun i => P (g_actor g i)) (indices g)))
               = map (g_actor g) (filter (fun i => P (g_actor g i)) (indices g))).
  { rewrite map_map. apply map_ext_in. intros i Hi. apply filter_In in Hi. destruct Hi as [Hi _].
    apply In_indices in Hi. apply g_actor_succ. lia. }
  destruct (P x); cbn [map filter]; change (g_actor (x :: g) 0) with x; rewrite E2, IH; reflexivity.
Qed.
Lemma map_actor_all : forall g, map (g_actor g) (indices g) = g.
Proof.
  intros g. pose proof (map_actor_filter (fun _ => true) g) as H.
  assert (E : forall (l : list Z), filter (fun _ => true) l = l) by (induction l; cbn; congruence).
  rewrite !E in H. assumption.
Qed.

(* selecting ranks by a predicate on the rank *)
Fixpoint keep_from (i : Z) (Q : Z -> bool) (g : list Z) : list Z :=
  match g with [] => [] | x :: r => if Q i then x :: keep_from (i + 1) Q r else keep_from (i + 1) Q r end.
Lemma keep_from_shift : forall g i Q, keep_from i (fun j => Q (Z.succ j)) g = keep_from (i + 1) Q g.
Proof.
  induction g as [|x g IH]; intros i Q; cbn [keep_from]; [reflexivity|].
  rewrite IH. replace (Z.succ i) with (i + 1) by lia. reflexivity.
Qed.
Lemma map_actor_keep : forall g Q, map (g_actor g) (filter Q (indices g)) = keep_from 0 Q g.
Proof.
  induction g as [|x g IH]; intros Q; [reflexivity|].
  rewrite indices_cons. cbn [filter keep_from]. rewrite filter_map_comm.
  assert (E2 : map (g_actor (x :: g)) (map Z.succ (filter (fun i => Q (Z.succ i)) (indices g)))
               = map (g_actor g) (filter (fun i => Q (Z.succ i)) (indices g))).
  { rewrite map_map. apply map_ext_in. intros i Hi. apply filter_In in Hi. destruct Hi as [Hi _].
    apply In_indices in Hi. apply g_actor_succ. lia. }
  destruct (Q 0); cbn [map]; change (g_actor (x :: g) 0) with x; rewrite E2, IH, keep_from_shift; reflexivity.
Qed.

(** * union, intersection, difference: members and order *)
Lemma union_spec : forall g1 g2, group_union g1 g2 = g1 ++ filter (fun a => negb (mem a g1)) g2.
Proof.
  intros g1 g2. unfold group_union. rewrite map_actor_all.
  rewrite (map_actor_filter (fun a => g_rank g1 a =? UNDEF) g2). f_equal.
  apply filter_ext. intros a. apply g_rank_undef.
Qed.
Lemma intersection_spec : forall g1 g2, intersection g1 g2 = filter (fun a => mem a g2) g1.
Proof.
  intros g1 g2. unfold intersection, incl.
  rewrite (map_actor_filter (fun a => negb (g_rank g2 a =? UNDEF)) g1).
  apply filter_ext. intros a. rewrite g_rank_undef. apply negb_involutive.
Qed.
Lemma difference_spec : forall g1 g2, difference g1 g2 = filter (fun a => negb (mem a g2)) g1.
Proof.
  intros g1 g2. unfold difference, incl.
  rewrite (map_actor_filter (fun a => g_rank g2 a =? UNDEF) g1).
  apply filter_ext. intros a. apply g_rank_undef.
Qed.
Lemma intersection_orig_spec : forall g1 g2, intersection_orig g1 g2 = filter (fun a => mem a g1) g2.
Proof.
  intros g1 g2. unfold intersection_orig, incl.
  rewrite (map_actor_filter (fun a => negb (g_rank g1 a =? UNDEF)) g2).
  apply filter_ext. intros a. rewrite g_rank_undef. apply negb_involutive.
Qed.

Lemma NoDup_app_disj : forall (a b : list Z), NoDup a -> NoDup b -> (forall x, In x a -> ~ In x b) -> NoDup (a ++ b).
Proof.
  induction a as [|x a IH]; intros b Ha Hb Hd; [assumption|]. inv Ha. cbn [app]. constructor.
  - rewrite in_app_iff. intros [H|H]; [contradiction|]. apply (Hd x); [left; reflexivity|assumption].
  - apply IH; try assumption. intros y Hy. apply Hd. right. assumption.
Qed.
Lemma union_NoDup : forall g1 g2, NoDup g1 -> NoDup g2 -> NoDup (group_union g1 g2).
Proof.
  intros g1 g2 H1 H2. rewrite union_spec. apply NoDup_app_disj; [assumption|apply NoDup_filter; assumption|].
  intros x Hx Hf. apply filter_In in Hf. destruct Hf as [_ Hf]. apply mem_In in Hx. rewrite Hx in Hf. discriminate.
Qed.
Lemma union_members : forall g1 g2 a, In a (group_union g1 g2) <-> In a g1 \/ In a g2.
Proof.
  intros g1 g2 a. rewrite union_spec, in_app_iff, filter_In. split.
  - intros [H|[H _]]; auto.
  - intros [H|H]; [left; assumption|]. destruct (mem a g1) eqn:E; [left; apply mem_In; assumption|right; split; [assumption|reflexivity]].
Qed.

(** * incl *)
Definition valid_ranks (g : group) (ranks : list Z) : Prop :=
  NoDup ranks /\ Forall (fun r => 0 <= r < g_size g) ranks.
Lemma incl_spec : forall g ranks, valid_ranks g ranks ->
  g_size (incl g ranks) = Z.of_nat (length ranks) /\
  (forall i, 0 <= i < Z.of_nat (length ranks) -> g_actor (incl g ranks) i = g_actor g (nth (Z.to_nat i) ranks (-1))).
Proof.
  intros g ranks [Hn Hf]. unfold incl, g_size. rewrite map_length. split; [reflexivity|].
  intros i Hi. rewrite g_actor_nth by (unfold g_size; rewrite map_length; lia).
  change (-1) with (g_actor g (-1)) at 1. rewrite map_nth. reflexivity.
Qed.
Lemma incl_NoDup : forall g ranks, NoDup g -> valid_ranks g ranks -> NoDup (incl g ranks).
Proof.
  intros g ranks Hg [Hn Hf]. unfold incl. induction ranks as [|r ranks IH]; [constructor|].
  inv Hn. inv Hf. cbn [map]. constructor; [|apply IH; assumption].
  intros Hin. apply in_map_iff in Hin. destruct Hin as [r' [E Hr']].
  rewrite Forall_forall in H4. specialize (H4 r' Hr').
  apply (f_equal (g_rank g)) in E. rewrite !g_rank_actor in E by assumption. subst. contradiction.
Qed.
Lemma incl_members : forall g ranks a, valid_ranks g ranks ->
  (In a (incl g ranks) <-> exists r, In r ranks /\ g_actor g r = a).
Proof.
  intros g ranks a _. unfold incl. rewrite in_map_iff. split; intros [r [H1 H2]]; exists r; tauto.
Qed.

(** * excl *)
Lemma excl_spec : forall g ranks, excl g ranks = keep_from 0 (fun i => negb (mem i ranks)) g.
Proof. intros g ranks. unfold excl, excl_map, incl. apply map_actor_keep. Qed.

Lemma keep_all : forall g i Q, (forall j, Q j = true) -> keep_from i Q g = g.
Proof. induction g as [|x g IH]; intros i Q H; cbn [keep_from]; [reflexivity|]. rewrite H, IH by assumption. reflexivity. Qed.
Lemma keep_none : forall g i Q, (forall j, i <= j < i + g_size g -> Q j = false) -> keep_from i Q g = [].
Proof.
  induction g as [|x g IH]; intros i Q H; cbn [keep_from]; [reflexivity|]. unfold g_size in *. cbn [length] in H.
  rewrite H by lia. apply IH. intros j Hj. apply H. lia.
Qed.
(* the binding's shortcuts (n = 0, n = size) agree with the general rule *)
Lemma p_excl_spec : forall g ranks, valid_ranks g ranks ->
  p_excl g ranks = keep_from 0 (fun i => negb (mem i ranks)) g.
Proof.
  intros g ranks [Hn Hf]. unfold p_excl.
  destruct (Z.of_nat (length ranks) =? 0) eqn:E0.
  - destruct ranks; [|cbn [length] in E0; lia]. symmetry. apply keep_all. reflexivity.
  - destruct (Z.of_nat (length ranks) =? g_size g) eqn:E1; [|apply excl_spec].
    symmetry. apply keep_none. intros j Hj. apply negb_false_iff. apply mem_In.
    assert (Hincl : List.incl (indices g) ranks).
    { apply NoDup_length_incl; [assumption| |].
      - unfold indices, zseq. rewrite map_length, seq_length. unfold g_size in *. lia.
      - intros r Hr. rewrite Forall_forall in Hf. apply In_indices. apply Hf. assumption. }
    apply Hincl. apply In_indices. lia.
Qed.

(** * translate_ranks *)
Lemma translate_spec : forall g1 g2 ranks,
  Forall (fun r => r = PNULL \/ 0 <= r < g_size g1) ranks ->
  translate g1 ranks g2 = Some (map (fun r => if r =? PNULL then PNULL else g_rank g2 (g_actor g1 r)) ranks).
Proof.
  intros g1 g2 ranks H. induction ranks as [|r rs IH]; [reflexivity|]. inv H. cbn [translate map].
  rewrite IH by assumption. unfold PNULL in *.
  replace (negb (r =? -1000) && ((r <? 0) || (g_size g1 <=? r))) with false by lia. reflexivity.
Qed.

(** * the pinned intersection is ordered as the second group *)
Lemma intersection_orig_refuted :
  exists g1 g2, NoDup g1 /\ NoDup g2 /\ intersection_orig g1 g2 <> filter (fun a => mem a g2) g1.
Proof.
  exists [0; 1; 2], [2; 1; 0]. repeat split.
  - repeat constructor; cbn; lia.
  - repeat constructor; cbn; lia.
  - vm_compute. discriminate.
Qed.
