(** C32 — range_incl / range_excl: the ranks denoted by (first, last, stride) triplets *)
From SGV Require Import Base.Tactics Smpi.Group Smpi.GroupProofs.
Local Open Scope Z_scope.

(* MPI: first, first+stride, ..., first + floor((last-first)/stride)*stride *)
Definition range_spec (t : rng3) : list Z :=
  let '(first, last, stride) := t in
  map (fun k => first + k * stride) (zseq ((last - first) / stride + 1)).
Definition valid_range (size : Z) (t : rng3) : Prop :=
  let '(first, last, stride) := t in
  0 <= first < size /\ 0 <= last < size /\ ((first <= last /\ 0 < stride) \/ (last <= first /\ stride < 0)).

Lemma zseq_S : forall n : nat, zseq (Z.of_nat (S n)) = 0 :: map Z.succ (zseq (Z.of_nat n)).
Proof. intros n. rewrite Nat2Z.inj_succ, <- Z.add_1_r. apply zseq_succ. lia. Qed.

Lemma shifted_cons : forall first stride k (n : nat),
  map (fun k' => first + k' * stride) (map (Z.add k) (zseq (Z.of_nat (S n)))) =
  (first + k * stride) :: map (fun k' => first + k' * stride) (map (Z.add (k + 1)) (zseq (Z.of_nat n))).
Proof.
  intros. rewrite zseq_S. cbn [map]. f_equal; [f_equal; lia|]. rewrite !map_map. apply map_ext. intros a. f_equal. lia.
Qed.

Lemma range_loop_pos : forall size first last stride, 0 < stride -> 0 <= first -> first <= last < size ->
  forall (n : nat) fuel k, 0 <= k -> k + Z.of_nat n = (last - first) / stride + 1 -> (n < fuel)%nat ->
  range_loop fuel size (first + k * stride) first last stride =
  Some (map (fun k' => first + k' * stride) (map (Z.add k) (zseq (Z.of_nat n)))).
Proof.
  intros size first last stride Hs Hf Hl.
  pose proof (Z.div_mod (last - first) stride ltac:(lia)) as Hdm.
  pose proof (Z.mod_pos_bound (last - first) stride Hs) as Hmb.
  set (m := (last - first) / stride) in *. set (rr := (last - first) mod stride) in *.
  induction n as [|n IH]; intros fuel k Hk Hkn Hfu; (destruct fuel as [|fuel]; [lia|]); cbn [range_loop].
  - assert (Hj : last < first + k * stride) by nia.
    unfold in_range. replace ((0 <=? first + k * stride) && (first + k * stride <? size) &&
      ((first <=? first + k * stride) && (first + k * stride <=? last) || (first + k * stride <=? first) && (last <=? first + k * stride)))
      with false by nia. reflexivity.
  - assert (Hkm : k <= m) by lia.
    assert (Hj : first <= first + k * stride <= last) by nia.
    unfold in_range. replace ((0 <=? first + k * stride) && (first + k * stride <? size) &&
      ((first <=? first + k * stride) && (first + k * stride <=? last) || (first + k * stride <=? first) && (last <=? first + k * stride)))
      with true by lia.
    replace (first + k * stride + stride) with (first + (k + 1) * stride) by lia.
    rewrite IH by lia. cbn [option_map]. rewrite shifted_cons. reflexivity.
Qed.

Lemma range_loop_neg : forall size first last stride, stride < 0 -> 0 <= last -> last <= first < size ->
  forall (n : nat) fuel k, 0 <= k -> k + Z.of_nat n = (last - first) / stride + 1 -> (n < fuel)%nat ->
  range_loop fuel size (first + k * stride) first last stride =
  Some (map (fun k' => first + k' * stride) (map (Z.add k) (zseq (Z.of_nat n)))).
Proof.
  intros size first last stride Hs Hf Hl.
  pose proof (Z.div_mod (last - first) stride ltac:(lia)) as Hdm.
  pose proof (Z.mod_neg_bound (last - first) stride Hs) as Hmb.
  set (m := (last - first) / stride) in *. set (rr := (last - first) mod stride) in *.
  induction n as [|n IH]; intros fuel k Hk Hkn Hfu; (destruct fuel as [|fuel]; [lia|]); cbn [range_loop].
  - assert (Hj : first + k * stride < last) by nia.
    unfold in_range. replace ((0 <=? first + k * stride) && (first + k * stride <? size) &&
      ((first <=? first + k * stride) && (first + k * stride <=? last) || (first + k * stride <=? first) && (last <=? first + k * stride)))
      with false by nia. reflexivity.
  - assert (Hkm : k <= m) by lia.
    assert (Hj : last <= first + k * stride <= first) by nia.
    unfold in_range. replace ((0 <=? first + k * stride) && (first + k * stride <? size) &&
      ((first <=? first + k * stride) && (first + k * stride <=? last) || (first + k * stride <=? first) && (last <=? first + k * stride)))
      with true by lia.
    replace (first + k * stride + stride) with (first + (k + 1) * stride) by lia.
    rewrite IH by lia. cbn [option_map]. rewrite shifted_cons. reflexivity.
Qed.

Lemma range_one : forall size t, valid_range size t ->
  let '(first, last, stride) := t in
  range_loop (S (Z.to_nat size)) size first first last stride = Some (range_spec t).
Proof.
  intros size [[first last] stride] [Hf [Hl Hs]]. unfold range_spec.
  assert (Hm0 : 0 <= (last - first) / stride).
  { destruct Hs as [[H1 H2]|[H1 H2]]; [apply Z.div_pos; lia|].
    rewrite <- Z.div_opp_opp by lia. apply Z.div_pos; lia. }
  assert (Hmsz : (last - first) / stride < size).
  { destruct Hs as [[H1 H2]|[H1 H2]].
    - apply Z.div_lt_upper_bound; nia.
    - rewrite <- Z.div_opp_opp by lia. apply Z.div_lt_upper_bound; nia. }
  set (m := (last - first) / stride) in *.
  assert (E : map (fun k => first + k * stride) (zseq (m + 1)) =
              map (fun k' => first + k' * stride) (map (Z.add 0) (zseq (Z.of_nat (Z.to_nat (m + 1)))))).
  { rewrite Z2Nat.id by lia. rewrite map_map. apply map_ext. intros. reflexivity. }
  rewrite E. replace first with (first + 0 * stride) at 1 by lia.
  destruct Hs as [[H1 H2]|[H1 H2]]; [apply range_loop_pos|apply range_loop_neg]; fold m; lia.
Qed.

Lemma range_ranks_spec : forall size ranges, Forall (valid_range size) ranges ->
  range_ranks size ranges = Some (flat_map range_spec ranges).
Proof.
  intros size. induction ranges as [|t ranges IH]; intros H; [reflexivity|]. inv H.
  pose proof (range_one size t H2) as H1. destruct t as [[first last] stride].
  cbn [range_ranks flat_map]. rewrite H1, IH by assumption. reflexivity.
Qed.

(* range_incl = incl of the denoted ranks, in triplet order; range_excl = excl of them *)
Lemma range_incl_spec : forall g ranges, Forall (valid_range (g_size g)) ranges ->
  range_incl g ranges = Some (incl g (flat_map range_spec ranges)).
Proof. intros g ranges H. unfold range_incl. rewrite range_ranks_spec by assumption. reflexivity. Qed.
Lemma range_excl_spec : forall g ranges, Forall (valid_range (g_size g)) ranges ->
  range_excl g ranges = Some (keep_from 0 (fun i => negb (mem i (flat_map range_spec ranges))) g).
Proof. intros g ranges H. unfold range_excl. rewrite range_ranks_spec by assumption. cbn [option_map]. rewrite excl_spec. reflexivity. Qed.

(* every denoted rank is a rank of the group *)
Lemma range_spec_in : forall size t r, valid_range size t -> In r (range_spec t) -> 0 <= r < size.
Proof.
  intros size [[first last] stride] r [Hf [Hl Hs]] Hin. unfold range_spec in Hin.
  apply in_map_iff in Hin. destruct Hin as [k [Ek Hk]]. apply In_zseq in Hk. subst r.
  destruct Hs as [[H1 H2]|[H1 H2]].
  - pose proof (Z.div_mod (last - first) stride ltac:(lia)). pose proof (Z.mod_pos_bound (last - first) stride H2). nia.
  - pose proof (Z.div_mod (last - first) stride ltac:(lia)). pose proof (Z.mod_neg_bound (last - first) stride H2). nia.
Qed.
