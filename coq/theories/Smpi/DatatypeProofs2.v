(** C30 — proofs, second part: contiguity shortcuts, struct, hindexed/indexed, resized, subarray, main theorems. *)
From SGV Require Import Base.Tactics Smpi.Datatype Smpi.DatatypeProofs.
Local Open Scope Z_scope.

Definition fdisp (c : Z * Z * ctype) : Z := match c with (_, d, _) => d end.
Definition fold_t (c : Z * Z * ctype) : ctype := match c with (_, _, o) => o end.
Definition first_disp (cf : list (Z * Z * ctype)) : Z := match cf with [] => 0 | c :: _ => fdisp c end.
Definition fblk (q : Z) (c : Z * Z * ctype) : list Z := match c with (bl, d, old) => blk old (q + d) bl end.

(** members of non-derived types that touch each other tile one contiguous range *)
Lemma tiles cf sf : Forall2 frel cf sf -> cf <> [] ->
  (forall c, In c cf -> cderived (fold_t c) = false) -> struct_chain cf = true ->
  (forall q, flat_map (fblk q) cf = range (q + first_disp cf) (struct_size cf)) /\
  (forall c, In c cf -> first_disp cf <= flb c /\ fub c <= first_disp cf + struct_size cf) /\
  (exists c, In c cf /\ fub c = first_disp cf + struct_size cf) /\
  (exists c, In c cf /\ flb c = first_disp cf) /\ 0 < struct_size cf.
Proof.
  induction 1 as [|[[bl d] old] [[bl' d'] s] cf sf (-> & -> & Hb & R) F IH]; intros Hne Hnd Hch; [congruence|].
  assert (Hd : cderived old = false) by (apply (Hnd (bl', d', old)); now left).
  destruct (r_plain _ _ R Hd) as (Hl0 & Hu0 & Hs0).
  assert (Hme : forall q, fblk q (bl', d', old) = range (q + d') (bl' * csize old)).
  { intros q. cbn. unfold blk. now rewrite Hd. }
  assert (Hflb : flb (bl', d', old) = d') by (cbn; lia).
  assert (Hfub : fub (bl', d', old) = d' + bl' * csize old) by (cbn; unfold cext; nia).
  destruct cf as [|c2 cf'].
  - inv F. cbn [first_disp fdisp struct_size fold_right flat_map]. repeat split.
    + intros q. rewrite Hme, app_nil_r. f_equal. lia.
    + destruct H as [<-|[]]. lia.
    + destruct H as [<-|[]]. lia.
    + exists (bl', d', old). split; [now left | lia].
    + exists (bl', d', old). split; [now left | lia].
    + nia.
  - assert (Hch2 : d' + csize old * bl' = fdisp c2 /\ struct_chain (c2 :: cf') = true).
    { destruct c2 as [[bl2 d2] o2]. cbn in Hch. apply andb_true_iff in Hch. destruct Hch as [E Hc]. split; [cbn; lia | exact Hc]. }
    destruct Hch2 as [Hd2 Hch2].
    destruct IH as (I1 & I2 & (cl & Hcl & I3) & _ & I5); [congruence | intros; apply Hnd; now right | assumption |].
    change (first_disp (c2 :: cf')) with (fdisp c2) in *.
    assert (HS : struct_size ((bl', d', old) :: c2 :: cf') = bl' * csize old + struct_size (c2 :: cf')) by reflexivity.
    rewrite HS. cbn [first_disp fdisp]. repeat split.
    + intros q.
      assert (E : flat_map (fblk q) ((bl', d', old) :: c2 :: cf') = fblk q (bl', d', old) ++ flat_map (fblk q) (c2 :: cf')) by reflexivity.
      rewrite E, Hme, I1. rewrite range_app by nia. do 2 f_equal. lia.
    + destruct H as [<-|H]; [lia | destruct (I2 _ H); nia].
    + destruct H as [<-|H]; [nia | destruct (I2 _ H); nia].
    + exists cl. split; [now right | lia].
    + exists (bl', d', old). split; [now left | lia].
    + nia.
Qed.

Lemma Rel_tiled c cf sf : Forall2 frel cf sf -> cf <> [] ->
  (forall c, In c cf -> cderived (fold_t c) = false) -> struct_chain cf = true ->
  cderived c = true -> csize c = struct_size cf -> clb c = first_disp cf -> cub c = first_disp cf + struct_size cf ->
  (forall base count, 0 <= count -> cser c base count = range (base + first_disp cf) (count * struct_size cf)) ->
  Rel c (sem_struct sf).
Proof.
  intros F Hne Hnd Hch Hd Hsz Hlb Hub Hser.
  destruct (tiles cf sf F Hne Hnd Hch) as (T1 & T2 & (cu & Hcu & T3) & (cl & Hcl & T4) & T5).
  destruct (struct_min_spec cf sf F) as [Hm1 Hm2].
  assert (HL : min_list (map flb cf) = first_disp cf).
  { apply min_list_char; [apply in_map_iff; eauto|]. intros y Hy. apply in_map_iff in Hy.
    destruct Hy as (f & <- & Hf). now destruct (T2 _ Hf). }
  assert (HU : max_list (map fub cf) = first_disp cf + struct_size cf).
  { apply max_list_char; [apply in_map_iff; eauto|]. intros y Hy. apply in_map_iff in Hy.
    destruct Hy as (f & <- & Hf). now destruct (T2 _ Hf). }
  apply Rel_derived; auto.
  - rewrite Hsz. now apply struct_size_spec.
  - cbn [sem_struct slb]. now rewrite <- Hm1, HL.
  - cbn [sem_struct sub]. now rewrite <- Hm2, HU.
  - unfold sext, sem_struct; cbn [slb sub]. rewrite <- Hm1, <- Hm2, HL, HU. lia.
  - lia.
  - intros base count Hc. rewrite Hser by assumption.
    unfold sbytes, sext, sem_struct. cbn [tm slb sub]. rewrite <- Hm1, <- Hm2, HL, HU.
    rewrite (struct_ser cf sf _ base count F).
    replace (first_disp cf + struct_size cf - first_disp cf) with (struct_size cf) by lia.
    rewrite range_blocks by lia. apply flat_map_ext_in. intros j _.
    change (flat_map (fun f => match f with (bl, disp, old) => blk old (base + j * struct_size cf + disp) bl end) cf)
      with (flat_map (fblk (base + j * struct_size cf)) cf).
    rewrite T1. f_equal. lia.
Qed.

Lemma forallb_nonderived cf :
  forallb (fun f => match f with (_, _, old) => negb (cderived old) end) cf = true ->
  forall c, In c cf -> cderived (fold_t c) = false.
Proof.
  intros H c Hc. rewrite forallb_forall in H. specialize (H c Hc). destruct c as [[bl d] o]. cbn. now destruct (cderived o).
Qed.

Lemma Rel_struct cf sf : Forall2 frel cf sf -> cf <> [] -> Rel (create_struct cf) (sem_struct sf).
Proof.
  intros F Hne. unfold create_struct.
  change (match cf with [] => (0, 0) | (bl, d, old) :: _ => (d + clb old, d + (bl - 1) * cext old + cub old) end)
    with (struct_init cf).
  destruct (struct_bounds cf (struct_init cf)) as [L U] eqn:HB.
  destruct (struct_chain cf && forallb (fun f => match f with (_, _, old) => negb (cderived old) end) cf) eqn:Hc.
  - apply andb_true_iff in Hc. destruct Hc as [Hch Hnd]. pose proof (forallb_nonderived cf Hnd) as Hnd'.
    destruct (tiles cf sf F Hne Hnd' Hch) as (T1 & T2 & (cu & Hcu & T3) & (cl & Hcl & T4) & T5).
    destruct (struct_bounds_minmax cf L U Hne HB) as [HL HU].
    assert (HL' : L = first_disp cf).
    { rewrite HL. apply min_list_char; [apply in_map_iff; eauto|]. intros y Hy. apply in_map_iff in Hy.
      destruct Hy as (f & <- & Hf). now destruct (T2 _ Hf). }
    unfold create_contiguous. cbn [cderived c_char csize]. replace (0 <? struct_size cf) with true by lia.
    apply (Rel_tiled _ cf sf); auto; cbn [csize clb cub cderived]; try lia.
    intros base count Hcnt. cbn [cser csize c_char]. f_equal; lia.
  - now apply Rel_struct_obj.
Qed.

(* ------------------------------------------------------------------------------------------------ hindexed / indexed *)
Definition asf (old : ctype) (blocks : list (Z * Z)) : list (Z * Z * ctype) := map (fun b => (fst b, snd b, old)) blocks.
Definition ass (s : sem) (blocks : list (Z * Z)) : list (Z * Z * sem) := map (fun b => (fst b, snd b, s)) blocks.

Lemma hidx_bounds_struct old blocks lbub :
  hidx_bounds (cext old) (clb old) (cub old) blocks lbub = struct_bounds (asf old blocks) lbub.
Proof. revert lbub. induction blocks as [|[bl d] r IH]; intros lbub; cbn; [reflexivity | apply IH]. Qed.

Lemma first_bounds_struct old blocks :
  first_bounds blocks (cext old) (clb old) (cub old) = struct_init (asf old blocks).
Proof. destruct blocks as [|[bl d] r]; reflexivity. Qed.

Lemma chain_ok_struct old blocks : chain_ok (fun bl => csize old * bl) blocks = struct_chain (asf old blocks).
Proof.
  induction blocks as [|[bl d] r IH]; [reflexivity|]. destruct r as [|[bl2 d2] r']; [reflexivity|].
  cbn [chain_ok asf map struct_chain fst snd] in *. now rewrite IH.
Qed.

Lemma sum_bl_struct old blocks : sum_bl blocks * csize old = struct_size (asf old blocks).
Proof. unfold sum_bl, struct_size, asf. induction blocks as [|[bl d] r IH]; cbn [map fold_right fst snd]; [reflexivity|]. rewrite <- IH. lia. Qed.

Lemma frel_asf old s blocks : Rel old s -> Forall (fun b => 1 <= fst b) blocks -> Forall2 frel (asf old blocks) (ass s blocks).
Proof. intros R. induction 1 as [|[bl d] r Hb F IH]; cbn; constructor; cbn; auto. Qed.

Lemma hidx_spec_struct s blocks : blocks <> [] -> Forall (fun b => 1 <= fst b) blocks ->
  sem_struct (ass s blocks) = replicate (ds_hindexed (sext s) blocks) s.
Proof.
  intros Hne Hb. unfold sem_struct, replicate, ass, ds_hindexed. f_equal.
  - rewrite flat_map_map, place_flat_map. reflexivity.
  - rewrite map_map, map_flat_map. rewrite min_list_flat_map; auto.
    intros x Hx. rewrite Forall_forall in Hb. specialize (Hb x Hx).
    pose proof (blockds_nonempty (snd x) (sext s) (fst x) Hb). destruct (blockds (snd x) (sext s) (fst x)); cbn; congruence.
  - rewrite map_map, map_flat_map. rewrite max_list_flat_map; auto.
    intros x Hx. rewrite Forall_forall in Hb. specialize (Hb x Hx).
    pose proof (blockds_nonempty (snd x) (sext s) (fst x) Hb). destruct (blockds (snd x) (sext s) (fst x)); cbn; congruence.
Qed.

Lemma cser_hidx_struct sz sz' L U blocks old base count :
  cser (CHidx sz L U blocks old) base count = cser (CStruct sz' L U (asf old blocks)) base count.
Proof. cbn [cser]. apply flat_map_ext_in. intros j _. unfold asf. rewrite flat_map_map. reflexivity. Qed.

Lemma Rel_transfer c1 c2 s : Rel c1 s -> cderived c1 = true -> cderived c2 = true ->
  csize c2 = csize c1 -> clb c2 = clb c1 -> cub c2 = cub c1 ->
  (forall base count, cser c2 base count = cser c1 base count) -> Rel c2 s.
Proof.
  intros R H1 H2 Hs Hl Hu Hser. apply Rel_derived; auto.
  - rewrite Hs. apply (r_size _ _ R).
  - rewrite Hl. apply (r_lb _ _ R).
  - rewrite Hu. apply (r_ub _ _ R).
  - apply (r_ext _ _ R).
  - rewrite Hs. apply (r_pos _ _ R).
  - intros base count Hc. rewrite Hser. now apply (r_ser _ _ R).
Qed.

Lemma asf_nonempty old blocks : blocks <> [] -> asf old blocks <> [].
Proof. destruct blocks; cbn; congruence. Qed.

Lemma Rel_hidx_core old s bb L U : Rel old s -> bb <> [] -> Forall (fun b => 1 <= fst b) bb ->
  hidx_bounds (cext old) (clb old) (cub old) bb (first_bounds bb (cext old) (clb old) (cub old)) = (L, U) ->
  Rel (CHidx (sum_bl bb * csize old) L U bb old) (replicate (ds_hindexed (sext s) bb) s) /\
  (cderived old = false -> chain_ok (fun bl => csize old * bl) bb = true ->
   Rel (CContig (sum_bl bb * csize old) L (L + sum_bl bb * csize old) (sum_bl bb) old) (replicate (ds_hindexed (sext s) bb) s)).
Proof.
  intros R Hne Hb HB. rewrite first_bounds_struct, hidx_bounds_struct in HB.
  pose proof (frel_asf old s bb R Hb) as F. pose proof (asf_nonempty old bb Hne) as Hne'.
  rewrite <- (hidx_spec_struct s bb Hne Hb). split.
  - apply (Rel_transfer (CStruct (struct_size (asf old bb)) L U (asf old bb))); auto.
    + now apply Rel_struct_obj.
    + cbn. apply sum_bl_struct.
    + intros. apply cser_hidx_struct.
  - intros Hd Hch. rewrite chain_ok_struct in Hch.
    assert (Hnd : forall c, In c (asf old bb) -> cderived (fold_t c) = false).
    { intros c Hc. unfold asf in Hc. apply in_map_iff in Hc. destruct Hc as (b & <- & _). exact Hd. }
    destruct (tiles _ _ F Hne' Hnd Hch) as (T1 & T2 & (cu & Hcu & T3) & (cl & Hcl & T4) & T5).
    destruct (struct_bounds_minmax _ L U Hne' HB) as [HL HU].
    assert (HL' : L = first_disp (asf old bb)).
    { rewrite HL. apply min_list_char; [apply in_map_iff; eauto|]. intros y Hy. apply in_map_iff in Hy.
      destruct Hy as (f & <- & Hf). now destruct (T2 _ Hf). }
    pose proof (sum_bl_struct old bb) as HS.
    apply (Rel_tiled _ (asf old bb)); auto; cbn [csize clb cub cderived]; try lia.
    intros base count Hcnt. cbn [cser]. f_equal; [lia|].
    destruct (r_plain _ _ R Hd) as (_ & _ & Hp). nia.
Qed.

Lemma sum_bl_pos bb : bb <> [] -> Forall (fun b => 1 <= fst b) bb -> 0 < sum_bl bb.
Proof.
  intros Hne Hb. destruct Hb as [|b r H1 Hr]; [congruence|]. cbn.
  assert (0 <= sum_bl r) by (clear -Hr; induction Hr; cbn; [lia | unfold sum_bl in *; lia]). unfold sum_bl in *. lia.
Qed.

Lemma Rel_hindexed old s bb : Rel old s -> bb <> [] -> Forall (fun b => 1 <= fst b) bb ->
  Rel (create_hindexed bb old) (replicate (ds_hindexed (sext s) bb) s).
Proof.
  intros R Hne Hb. unfold create_hindexed.
  destruct (hidx_bounds (cext old) (clb old) (cub old) bb (first_bounds bb (cext old) (clb old) (cub old))) as [L U] eqn:HB.
  destruct (Rel_hidx_core old s bb L U R Hne Hb HB) as [RH RC].
  destruct (chain_ok (fun bl => csize old * bl) bb && negb (cderived old || negb (L =? 0))) eqn:Hc; [|exact RH].
  apply andb_true_iff in Hc. destruct Hc as [Hch Hn]. apply negb_true_iff, orb_false_iff in Hn. destruct Hn as [Hd _].
  unfold create_contiguous. rewrite Hd. pose proof (sum_bl_pos bb Hne Hb). replace (0 <? sum_bl bb) with true by lia.
  now apply RC.
Qed.

Lemma sum_bl_scale ex blocks : sum_bl (map (fun b => (fst b, snd b * ex)) blocks) = sum_bl blocks.
Proof. induction blocks as [|[bl d] r IH]; cbn; [reflexivity|]. unfold sum_bl in IH. cbn in IH. now rewrite IH. Qed.

Lemma chain_ok_scale sz blocks : 0 < sz ->
  chain_ok (fun bl => bl) blocks = true ->
  chain_ok (fun bl => sz * bl) (map (fun b => (fst b, snd b * sz)) blocks) = true.
Proof.
  intros Hs. induction blocks as [|[bl d] r IH]; [reflexivity|]. destruct r as [|[bl2 d2] r']; [reflexivity|].
  cbn [chain_ok map fst snd] in *. intros H. apply andb_true_iff in H. destruct H as [E H].
  apply andb_true_iff. split; [nia | now apply IH].
Qed.

Lemma Rel_indexed old s blocks : Rel old s -> blocks <> [] -> Forall (fun b => 1 <= fst b) blocks ->
  Rel (create_indexed blocks old) (replicate (ds_hindexed (sext s) (map (fun b => (fst b, snd b * sext s)) blocks)) s).
Proof.
  intros R Hne Hb. unfold create_indexed. rewrite (Rel_cext _ _ R).
  set (bb := map (fun b => (fst b, snd b * sext s)) blocks).
  assert (Hne' : bb <> []) by (subst bb; destruct blocks; cbn; congruence).
  assert (Hb' : Forall (fun b => 1 <= fst b) bb).
  { subst bb. rewrite Forall_map. cbn. exact Hb. }
  destruct (hidx_bounds (sext s) (clb old) (cub old) bb (first_bounds bb (sext s) (clb old) (cub old))) as [L U] eqn:HB.
  rewrite <- (Rel_cext _ _ R) in HB.
  destruct (Rel_hidx_core old s bb L U R Hne' Hb' HB) as [RH RC].
  assert (Hsum : sum_bl bb = sum_bl blocks) by apply sum_bl_scale.
  rewrite Hsum in RH, RC.
  destruct (chain_ok (fun bl => bl) blocks && negb (cderived old)) eqn:Hc; [|exact RH].
  apply andb_true_iff in Hc. destruct Hc as [Hch Hd]. apply negb_true_iff in Hd.
  unfold create_contiguous. rewrite Hd. pose proof (sum_bl_pos blocks Hne Hb). replace (0 <? sum_bl blocks) with true by lia.
  apply RC; [assumption|].
  destruct (r_plain _ _ R Hd) as (Hl & Hu & Hp).
  assert (Hex : sext s = csize old) by (rewrite <- (Rel_cext _ _ R); unfold cext; lia).
  subst bb. rewrite Hex. now apply chain_ok_scale.
Qed.

(* ------------------------------------------------------------------------------------------------ resized *)
Lemma Rel_resized old s lb ext : Rel old s -> 0 <= ext ->
  Rel (create_resized old lb ext) (mkSem (tm s) lb (lb + ext)).
Proof.
  intros R He. unfold create_resized.
  apply Rel_derived; cbn [csize clb cub cderived tm slb sub]; auto.
  - apply (r_size _ _ R).
  - unfold sext; cbn. lia.
  - apply (r_pos _ _ R).
  - intros base count Hc. unfold sbytes, sext. cbn [cser tm slb sub].
    apply flat_map_ext_in. intros j _. cbn [flat_map c_marker cderived csize].
    rewrite !Z.mul_0_r. rewrite (range_nonpos _ 0) by lia. cbn [app]. rewrite app_nil_r.
    change (if cderived old then cser old (base + j * (lb + ext - lb) + 0) 1 else range (base + j * (lb + ext - lb) + 0) (1 * csize old))
      with (blk old (base + j * (lb + ext - lb) + 0) 1).
    rewrite (r_blk _ _ R) by lia. unfold sbytes. rewrite iota_1. cbn [flat_map]. rewrite app_nil_r.
    do 2 f_equal. lia.
Qed.

(* ------------------------------------------------------------------------------------------------ subarray *)
Lemma place_shift ds d m : place ds (shift d m) = shift d (place ds m).
Proof.
  rewrite shift_place. unfold place. rewrite flat_map_map. apply flat_map_ext_in. intros x _.
  rewrite shift_shift. f_equal. lia.
Qed.

Lemma place_blockds_start a E n m : place (blockds a E n) m = shift a (place (blockds 0 E n) m).
Proof.
  rewrite shift_place. f_equal. unfold blockds. rewrite map_map. apply map_ext. intros; lia.
Qed.

Lemma ds_hvector_bl1 X n stride : ds_hvector X n 1 stride = blockds 0 stride n.
Proof.
  unfold ds_hvector, blockds. rewrite iota_1. cbn [map]. rewrite flat_map_single. apply map_ext. intros; lia.
Qed.

Lemma Rel_eq c s s' : Rel c s -> s = s' -> Rel c s'.
Proof. now intros R <-. Qed.

Definition dimok (d : Z * Z * Z) : Prop := let '(sz, sb, st) := d in 1 <= sb /\ 0 <= st /\ st + sb <= sz.

(** invariant of the loop of create_subarray: the object built so far, moved to index lb, is the subarray of the
    dimensions handled so far *)
Definition sub_inv (ex : Z) (t : ctype) (size lb : Z) (sk : sem) : Prop :=
  exists v, Rel t v /\ tm sk = shift (lb * ex) (tm v) /\ slb sk = 0 /\ sub sk = size * ex /\ 0 <= size.

Lemma sub_inv_step ex t size lb sk sz sb st : 0 <= ex -> sub_inv ex t size lb sk -> dimok (sz, sb, st) ->
  sub_inv ex (create_hvector sb 1 (size * ex) t) (size * sz) (lb + size * st) (sub1 (sz, sb, st) sk).
Proof.
  intros Hex (v & R & Htm & Hl & Hu & Hs) (Hsb & Hst & Hsz).
  exists (replicate (ds_hvector (sext v) sb 1 (size * ex)) v).
  assert (HE : sext sk = size * ex) by (unfold sext; lia).
  split; [apply Rel_hvector; auto; nia|]. cbn [sub1 tm slb sub replicate]. rewrite HE. repeat split; try nia.
  rewrite Htm, place_shift, place_blockds_start, shift_shift, ds_hvector_bl1. f_equal. lia.
Qed.

Lemma sub_inv_fold ex rest : 0 <= ex -> Forall dimok rest -> forall t size lb sk, sub_inv ex t size lb sk ->
  let '(t', size', lb') :=
    fold_left (fun acc d => match acc, d with (t, size, lb), (sz, sb, st) =>
                              (create_hvector sb 1 (size * ex) t, size * sz, lb + size * st) end) rest (t, size, lb) in
  sub_inv ex t' size' lb' (fold_left (fun s d => sub1 d s) rest sk).
Proof.
  intros Hex. induction 1 as [|[[sz sb] st] rest Hd F IH]; intros t size lb sk Hinv; cbn [fold_left]; [exact Hinv|].
  apply IH. now apply sub_inv_step.
Qed.

Lemma sub_inv_finish ex t size lb sk : 0 <= ex -> 0 <= lb -> sub_inv ex t size lb sk -> Rel (sub_finish t size lb ex) sk.
Proof.
  intros Hex Hlb (v & R & Htm & Hl & Hu & Hs). unfold sub_finish.
  pose proof (Rel_hindexed t v [(1, lb * ex)] R ltac:(congruence) ltac:(constructor; [cbn; lia | constructor])) as RH.
  pose proof (Rel_resized _ _ 0 (size * ex) RH ltac:(nia)) as RR.
  apply (Rel_eq _ _ _ RR). destruct sk as [m l u]. cbn [tm slb sub] in Htm, Hl, Hu. subst m l u.
  cbn [replicate tm]. f_equal.
  unfold ds_hindexed, blockds. cbn [flat_map fst snd]. rewrite iota_1. cbn [map app]. unfold place. cbn [flat_map].
  rewrite app_nil_r. f_equal. lia.
Qed.

Lemma sub_inv_1 old s sz sb st : Rel old s -> dimok (sz, sb, st) ->
  sub_inv (sext s) (create_contiguous sb old 0) sz st (sub1 (sz, sb, st) s).
Proof.
  intros R (Hsb & Hst & Hsz). exists (replicate (blockds 0 (sext s) sb) s).
  split; [now apply Rel_contiguous|]. cbn [sub1 tm slb sub replicate]. repeat split; try lia.
  apply place_blockds_start.
Qed.

Lemma sub_inv_2 old s sz0 sb0 st0 sz1 sb1 st1 : Rel old s -> dimok (sz0, sb0, st0) -> dimok (sz1, sb1, st1) ->
  sub_inv (sext s) (create_vector sb1 sb0 sz0 old) (sz0 * sz1) (st0 + st1 * sz0) (sub1 (sz1, sb1, st1) (sub1 (sz0, sb0, st0) s)).
Proof.
  intros R (Hsb0 & Hst0 & Hsz0) (Hsb1 & Hst1 & Hsz1).
  exists (replicate (ds_hvector (sext s) sb1 sb0 (sz0 * sext s)) s).
  split; [apply Rel_vector; auto; lia|].
  assert (HE : sext (sub1 (sz0, sb0, st0) s) = sz0 * sext s) by (unfold sext at 1; cbn [sub1 slb sub]; lia).
  set (s1 := sub1 (sz0, sb0, st0) s) in *. cbn [sub1]. rewrite HE. subst s1.
  cbn [sub1 tm slb sub replicate]. repeat split; try nia.
  rewrite (place_blockds_start (st0 * sext s)), place_shift, (place_blockds_start (st1 * (sz0 * sext s))), shift_shift.
  replace (st1 * (sz0 * sext s) + st0 * sext s) with ((st0 + st1 * sz0) * sext s) by lia. f_equal.
  unfold ds_hvector. rewrite place_flat_map.
  assert (PB : forall a E n m, place (blockds a E n) m = flat_map (fun i => shift (a + i * E) m) (iota n)).
  { intros. unfold place, blockds. now rewrite flat_map_map. }
  rewrite PB. apply flat_map_ext_in. intros i _. rewrite (place_blockds_start (i * (sz0 * sext s))). reflexivity.
Qed.

Lemma Rel_subarray old s c_order dims : Rel old s -> dims <> [] -> Forall dimok dims ->
  Rel (create_subarray c_order dims old) (fold_left (fun s d => sub1 d s) (if c_order then rev dims else dims) s).
Proof.
  intros R Hne Hd. unfold create_subarray. rewrite (Rel_cext _ _ R).
  set (ds := if c_order then rev dims else dims).
  assert (Hds : Forall dimok ds).
  { subst ds. destruct c_order; [|assumption]. apply Forall_forall. intros x Hx. apply in_rev in Hx.
    rewrite Forall_forall in Hd. now apply Hd. }
  assert (Hne' : ds <> []).
  { subst ds. destruct c_order; [|assumption]. intros E. apply Hne. destruct dims; [reflexivity|]. cbn in E.
    destruct (rev dims); discriminate. }
  clearbody ds. pose proof (r_ext _ _ R) as Hex.
  destruct ds as [|[[sz0 sb0] st0] [|[[sz1 sb1] st1] rest]]; [congruence | |].
  - inv Hds. cbn [fold_left]. apply sub_inv_finish; auto; [destruct H1; lia | now apply sub_inv_1].
  - inv Hds. inv H2. cbn [fold_left].
    pose proof (sub_inv_fold (sext s) rest Hex H4 _ _ _ _ (sub_inv_2 old s sz0 sb0 st0 sz1 sb1 st1 R H1 H3)) as HF.
    destruct (fold_left _ rest (create_vector sb1 sb0 sz0 old, sz0 * sz1, st0 + st1 * sz0)) as [[t' size'] lb'] eqn:E.
    apply sub_inv_finish; auto.
    (* 0 <= lb' *)
    clear HF. revert E. generalize (create_vector sb1 sb0 sz0 old) as t0.
    assert (H0 : 0 <= st0 + st1 * sz0 /\ 0 <= sz0 * sz1) by (destruct H1 as (? & ? & ?), H3 as (? & ? & ?); nia).
    revert H0. generalize (st0 + st1 * sz0) as l0. generalize (sz0 * sz1) as s0. clear -H4.
    induction H4 as [|[[sz sb] st] rest (A & B & C) F IH]; intros s0 l0 H0 t0 E; cbn [fold_left] in E.
    + inv E. lia.
    + eapply IH; [|exact E]. nia.
Qed.

(* ------------------------------------------------------------------------------------------------ trees *)
Scheme dt_mut := Induction for dt Sort Prop
  with flds_mut := Induction for flds Sort Prop.

Lemma build_flds_nonempty f : f <> FNil -> build_flds f <> [].
Proof. destruct f; cbn; congruence. Qed.

Theorem Rel_build : forall t, wf t -> Rel (build t) (sem_of t).
Proof.
  apply (dt_mut (fun t => wf t -> Rel (build t) (sem_of t))
                (fun f => wf_flds f -> Forall2 frel (build_flds f) (sem_flds f)));
    cbn [wf wf_flds build build_flds sem_of sem_flds].
  - intros s Hs. now apply Rel_basic.
  - intros n t IH (Hn & Hw). apply Rel_contiguous; auto.
  - intros n bl st t IH (Hn & Hb & Hs & Hw). apply Rel_vector; auto.
  - intros n bl st t IH (Hn & Hb & Hs & Hw). apply Rel_hvector; auto.
  - intros blocks t IH (Hne & Hb & Hw). apply Rel_indexed; auto.
  - intros blocks t IH (Hne & Hb & Hw). apply Rel_hindexed; auto.
  - intros bl idxs t IH (Hne & Hb & Hw).
    pose proof (Rel_indexed (build t) (sem_of t) (map (fun i => (bl, i)) idxs) (IH Hw)) as H.
    rewrite map_map in H. cbn [fst snd] in H. apply H.
    + destruct idxs; cbn; congruence.
    + rewrite Forall_map. cbn. apply Forall_forall. intros; assumption.
  - intros f IH (Hne & Hw). apply Rel_struct; auto. now apply build_flds_nonempty.
  - intros lb ext t IH (He & Hw). apply Rel_resized; auto.
  - intros c_order dims t IH (Hne & Hd & Hw). apply Rel_subarray; auto.
  - intros _. constructor.
  - intros bl d t IHt r IHr (Hb & Hw & Hwr). constructor; [cbn; auto | auto].
Qed.

(** the statements of Props/Properties_C30.v *)
Theorem layout_correct t : wf t ->
  csize (build t) = tmsize (tm (sem_of t)) /\ clb (build t) = slb (sem_of t) /\ cub (build t) = sub (sem_of t).
Proof. intros H. pose proof (Rel_build t H) as R. repeat split; [apply (r_size _ _ R) | apply (r_lb _ _ R) | apply (r_ub _ _ R)]. Qed.

Theorem bytes_correct t base count : wf t -> 0 <= count ->
  cser (build t) base count = sbytes (sem_of t) base count.
Proof. intros H Hc. now apply (r_ser _ _ (Rel_build t H)). Qed.

(** the pinned formula for the upper bound of a block (bl * ub_old) disagrees with the type map *)
Lemma pinned_ub_refuted : exists bl d s,
  1 <= bl /\ 0 <= sext s /\ pinned_block_ub bl d (sub s) <> sub (replicate (blockds d (sext s) bl) s).
Proof. exists 2, 0, (mkSem [(4, 4)] 4 8). vm_compute. repeat split; congruence. Qed.
