(** C33 — proofs about the model of Smpi/Topo.v *)
From SGV Require Import Base.Tactics Smpi.Topo.
Local Open Scope Z_scope.
Ltac Zify.zify_post_hook ::= Z.to_euclidean_division_equations.

(** * products, mixed radix *)
Lemma prodl_pos : forall dims, allpos dims -> 0 < prodl dims.
Proof. induction dims as [|d ds IH]; cbn [allpos prodl]; intros H; [lia|]. destruct H as [Hd Hs]. apply IH in Hs. nia. Qed.

Lemma prodl_app : forall a b, prodl (a ++ b) = prodl a * prodl b.
Proof. induction a as [|x a IH]; intros b; cbn [app prodl]; [lia|]. rewrite IH. ring. Qed.

Lemma coords_cons : forall d P ds r, 0 < d -> 0 < P -> 0 <= r ->
  coords (d * P) (d :: ds) r = r / P :: coords P ds (r mod P).
Proof.
  intros d P ds r Hd HP Hr. cbn [coords].
  replace (Z.quot (d * P) d) with P by (rewrite Z.mul_comm, Z.quot_mul; lia).
  rewrite Z.quot_div_nonneg, Z.rem_mod_nonneg by lia. reflexivity.
Qed.

Lemma inrange_length : forall dims cs, inrange dims cs -> length cs = length dims.
Proof. induction dims as [|d ds IH]; destruct cs as [|c cs]; cbn [inrange length]; intros H; try tauto. f_equal. apply IH. tauto. Qed.

Lemma lin_range : forall dims cs, allpos dims -> inrange dims cs -> 0 <= lin dims cs < prodl dims.
Proof.
  induction dims as [|d ds IH]; destruct cs as [|c cs]; cbn [allpos inrange lin prodl]; intros Hp Hr; try tauto; try lia.
  destruct Hp as [Hd Hs], Hr as [Hc Hr]. specialize (IH cs Hs Hr). pose proof (prodl_pos ds Hs). nia.
Qed.

Lemma coords_lin : forall dims cs, allpos dims -> inrange dims cs -> coords (prodl dims) dims (lin dims cs) = cs.
Proof.
  induction dims as [|d ds IH]; destruct cs as [|c cs]; cbn [allpos inrange]; intros Hp Hr; try tauto.
  destruct Hp as [Hd Hs], Hr as [Hc Hr].
  pose proof (prodl_pos ds Hs) as HP. pose proof (lin_range ds cs Hs Hr) as Hl.
  cbn [prodl lin]. rewrite coords_cons by nia.
  rewrite Z.div_add_l by lia. rewrite Z.div_small by lia.
  rewrite (Z.add_comm (c * prodl ds)), Z.mod_add by lia. rewrite Z.mod_small by lia.
  rewrite IH by assumption. f_equal. lia.
Qed.

Lemma coords_inrange : forall dims r, allpos dims -> 0 <= r < prodl dims ->
  inrange dims (coords (prodl dims) dims r) /\ lin dims (coords (prodl dims) dims r) = r.
Proof.
  induction dims as [|d ds IH]; cbn [allpos]; intros r Hp Hr.
  - cbn in *. split; [exact I|lia].
  - destruct Hp as [Hd Hs]. pose proof (prodl_pos ds Hs) as HP. cbn [prodl] in *.
    rewrite coords_cons by lia. cbn [inrange lin].
    assert (Hm : 0 <= r mod prodl ds < prodl ds) by (apply Z.mod_pos_bound; lia).
    destruct (IH (r mod prodl ds) Hs Hm) as [Hi Hl]. rewrite Hl.
    assert (0 <= r / prodl ds < d).
    { split; [apply Z.div_pos; lia|]. apply Z.div_lt_upper_bound; lia. }
    pose proof (Z.div_mod r (prodl ds)).
    repeat split; try assumption; try lia.
Qed.

(** * Cart_rank *)
Lemma rem_mod : forall x d, 0 < d -> (Z.rem x d) mod d = x mod d.
Proof.
  intros x d Hd. pose proof (Z.quot_rem' x d) as H.
  replace (Z.rem x d) with (x + (- (Z.quot x d)) * d) by lia. apply Z.mod_add. lia.
Qed.
Lemma rem_neg : forall c d, c < 0 -> 0 < d ->
  (if Z.rem c d =? 0 then Z.rem c d else d + Z.rem c d) = c mod d.
Proof.
  intros c d Hc Hd.
  assert (Hr : Z.rem c d = - ((- c) mod d)).
  { replace c with (- - c) at 1 by lia. rewrite Z.rem_opp_l' . rewrite Z.rem_mod_nonneg by lia. reflexivity. }
  pose proof (Z.mod_opp_l_z (- c) d) as Hz. pose proof (Z.mod_opp_l_nz (- c) d) as Hnz.
  rewrite Z.opp_involutive in Hz, Hnz.
  destruct (Z.rem c d =? 0) eqn:E.
  - rewrite Hz; lia.
  - rewrite Hnz; lia.
Qed.
Lemma fix_coord_spec : forall d p c, 0 < d ->
  fix_coord d p c = if p then Some (c mod d) else if (0 <=? c) && (c <? d) then Some c else None.
Proof.
  intros d p c Hd. unfold fix_coord.
  destruct (d <=? c) eqn:E1; destruct p.
  - f_equal. apply Z.rem_mod_nonneg; lia.
  - destruct ((0 <=? c) && (c <? d)) eqn:E2; [lia|reflexivity].
  - destruct (c <? 0) eqn:E3.
    + f_equal. apply rem_neg; lia.
    + f_equal. rewrite Z.mod_small; lia.
  - destruct (c <? 0) eqn:E3; destruct ((0 <=? c) && (c <? d)) eqn:E2; try reflexivity; lia.
Qed.

Lemma norm_inrange : forall dims pers cs l, allpos dims -> norm dims pers cs = Some l ->
  length pers = length dims -> length cs = length dims -> inrange dims l.
Proof.
  induction dims as [|d ds IH]; intros pers cs l Hp Hn Hl1 Hl2.
  - destruct pers, cs; cbn in *; try discriminate. inv Hn. exact I.
  - destruct pers as [|p ps], cs as [|c cs]; cbn [length] in *; try discriminate.
    cbn [norm] in Hn. cbn [allpos] in Hp. destruct Hp as [Hd Hs].
    destruct (norm ds ps cs) as [l'|] eqn:E; [|discriminate].
    assert (inrange ds l') by (eapply IH; eauto).
    destruct p.
    + inv Hn. cbn [inrange]. split; [apply Z.mod_pos_bound; lia|assumption].
    + destruct ((0 <=? c) && (c <? d)) eqn:E2; [|discriminate]. inv Hn. cbn [inrange]. split; [lia|assumption].
Qed.

Lemma rank_aux_spec : forall dims pers cs, allpos dims -> length pers = length dims -> length cs = length dims ->
  rank_aux dims pers cs = match norm dims pers cs with Some l => Some (lin dims l, prodl dims) | None => None end.
Proof.
  induction dims as [|d ds IH]; intros pers cs Hp Hl1 Hl2.
  - destruct pers, cs; cbn in *; try discriminate. reflexivity.
  - destruct pers as [|p ps], cs as [|c cs]; cbn [length] in *; try discriminate.
    cbn [allpos] in Hp. destruct Hp as [Hd Hs].
    cbn [rank_aux norm]. rewrite IH by (try assumption; lia).
    destruct (norm ds ps cs) as [l'|]; [|reflexivity].
    rewrite fix_coord_spec by assumption.
    destruct p.
    + cbn [lin prodl]. f_equal. f_equal; ring.
    + destruct ((0 <=? c) && (c <? d)); [|reflexivity]. cbn [lin prodl]. f_equal. f_equal; ring.
Qed.

Lemma rank_norm : forall dims pers cs, allpos dims -> length pers = length dims -> length cs = length dims ->
  rank dims pers cs = option_map (lin dims) (norm dims pers cs).
Proof.
  intros. unfold rank. rewrite rank_aux_spec by assumption. destruct (norm dims pers cs); reflexivity.
Qed.

Lemma norm_id : forall dims pers cs, inrange dims cs -> length pers = length dims -> norm dims pers cs = Some cs.
Proof.
  induction dims as [|d ds IH]; intros pers cs Hr Hl; destruct cs as [|c cs]; cbn [inrange] in Hr.
  - destruct pers; reflexivity.
  - tauto.
  - tauto.
  - destruct pers as [|p ps]; cbn [length] in Hl; [discriminate|]. destruct Hr as [Hc Hr].
    cbn [norm]. rewrite IH by (try assumption; lia).
    destruct p; [rewrite Z.mod_small by lia; reflexivity|].
    replace ((0 <=? c) && (c <? d)) with true by lia. reflexivity.
Qed.

(* coords then rank *)
Lemma rank_coords : forall dims pers r, allpos dims -> length pers = length dims -> 0 <= r < prodl dims ->
  rank dims pers (coords (prodl dims) dims r) = Some r.
Proof.
  intros dims pers r Hp Hl Hr. destruct (coords_inrange dims r Hp Hr) as [Hi Hlin].
  rewrite rank_norm by (try assumption; apply inrange_length; assumption).
  rewrite norm_id by assumption. cbn. f_equal. assumption.
Qed.

(* rank then coords *)
Lemma coords_rank : forall dims pers cs, allpos dims -> length pers = length dims -> inrange dims cs ->
  exists r, rank dims pers cs = Some r /\ 0 <= r < prodl dims /\ coords (prodl dims) dims r = cs.
Proof.
  intros dims pers cs Hp Hl Hi. exists (lin dims cs).
  rewrite rank_norm by (try assumption; apply inrange_length; assumption).
  rewrite norm_id by assumption. split; [reflexivity|]. split; [apply lin_range; assumption|apply coords_lin; assumption].
Qed.

(* out-of-range coordinates: periodic dimensions wrap, others are refused; the answer is a valid rank whose
   coordinates are the wrapped ones *)
Lemma rank_wrap : forall dims pers cs, allpos dims -> length pers = length dims -> length cs = length dims ->
  match rank dims pers cs with
  | Some r => exists l, norm dims pers cs = Some l /\ 0 <= r < prodl dims /\ coords (prodl dims) dims r = l
  | None => norm dims pers cs = None
  end.
Proof.
  intros dims pers cs Hp Hl1 Hl2. rewrite rank_norm by assumption.
  destruct (norm dims pers cs) as [l|] eqn:E; cbn; [|reflexivity].
  exists l. pose proof (norm_inrange _ _ _ _ Hp E Hl1 Hl2) as Hi.
  split; [reflexivity|]. split; [apply lin_range; assumption|apply coords_lin; assumption].
Qed.

(** * Cart_shift *)
Lemma upd_length : forall k x l, length (upd k x l) = length l.
Proof. induction k; destruct l; cbn; intros; try reflexivity. f_equal. apply IHk. Qed.

Lemma norm_upd : forall dims pers cs k y, allpos dims -> inrange dims cs -> length pers = length dims ->
  (k < length dims)%nat -> (nth k pers false = true \/ 0 <= y < nth k dims 0) ->
  norm dims pers (upd k y cs) = Some (upd k (y mod nth k dims 0) cs).
Proof.
  induction dims as [|d ds IH]; intros pers cs k y Hp Hr Hl Hk Hy; cbn [length] in Hk; [lia|].
  destruct cs as [|c cs]; cbn [inrange] in Hr; [tauto|]. destruct Hr as [Hc Hr].
  destruct pers as [|p ps]; cbn [length] in Hl; [discriminate|]. cbn [allpos] in Hp. destruct Hp as [Hd Hs].
  destruct k as [|k]; cbn [upd nth norm] in *.
  - rewrite norm_id by (try assumption; lia).
    destruct p; [reflexivity|]. destruct Hy as [Hy|Hy]; [discriminate|].
    replace ((0 <=? y) && (y <? d)) with true by lia. rewrite Z.mod_small by lia. reflexivity.
  - rewrite IH by (try assumption; lia).
    destruct p; [rewrite Z.mod_small by lia; reflexivity|].
    replace ((0 <=? c) && (c <? d)) with true by lia. reflexivity.
Qed.

Lemma nth_pos : forall dims k, allpos dims -> (k < length dims)%nat -> 0 < nth k dims 0.
Proof.
  induction dims as [|d ds IH]; intros k Hp Hk; cbn [length] in Hk; [lia|]. cbn [allpos] in Hp.
  destruct k; cbn [nth]; [tauto|]. apply IH; [tauto|lia].
Qed.

(* what MPI prescribes for one neighbour: coordinate k moved to x *)
Definition target (dims : list Z) (pers : list bool) (cs : list Z) (k : nat) (x : Z) : Z :=
  let d := nth k dims 0 in
  if nth k pers false then lin dims (upd k (x mod d) cs)
  else if (0 <=? x) && (x <? d) then lin dims (upd k x cs) else PROC_NULL.

Lemma shift_to_spec : forall dims pers pos cs k x, allpos dims -> length pers = length dims ->
  inrange dims cs -> (k < length dims)%nat ->
  shift_to {| c_nn := prodl dims; c_dims := dims; c_pers := pers; c_pos := pos |} cs k x = target dims pers cs k x.
Proof.
  intros dims pers pos cs k x Hp Hl Hi Hk. unfold shift_to, target. cbn [c_dims c_pers].
  pose proof (nth_pos dims k Hp Hk) as Hd. set (d := nth k dims 0) in *.
  pose proof (inrange_length _ _ Hi) as Hlc.
  destruct ((x <? 0) || (d <=? x)) eqn:E1.
  - destruct (nth k pers false) eqn:E2.
    + unfold rank_or_err. rewrite rank_norm by (try assumption; rewrite upd_length; assumption).
      rewrite norm_upd by (try assumption; left; assumption). cbn. fold d. rewrite rem_mod by assumption. reflexivity.
    + replace ((0 <=? x) && (x <? d)) with false by lia. reflexivity.
  - unfold rank_or_err. rewrite rank_norm by (try assumption; rewrite upd_length; assumption).
    rewrite norm_upd by (try assumption; right; fold d; lia). cbn. fold d.
    rewrite Z.mod_small by lia.
    destruct (nth k pers false); [reflexivity|].
    replace ((0 <=? x) && (x <? d)) with true by lia. reflexivity.
Qed.

Lemma shift_spec : forall dims pers r t k disp, allpos dims -> length pers = length dims ->
  0 <= r < prodl dims -> (k < length dims)%nat -> cart_create dims pers r = Some t ->
  let cs := coords (prodl dims) dims r in
  shift t r k disp = Some (target dims pers cs k (nth k cs 0 - disp), target dims pers cs k (nth k cs 0 + disp)).
Proof.
  intros dims pers r t k disp Hp Hl Hr Hk Hc cs. unfold cart_create in Hc.
  destruct (prodl dims <=? r) eqn:E; [lia|]. inv Hc. unfold shift. cbn [c_dims c_nn c_pos].
  destruct (length dims =? 0)%nat eqn:E1; [apply Nat.eqb_eq in E1; lia|].
  destruct (length dims <? k)%nat eqn:E2; [apply Nat.ltb_lt in E2; lia|].
  fold cs. destruct (coords_inrange dims r Hp Hr) as [Hi _]. fold cs in Hi.
  rewrite !shift_to_spec by assumption. reflexivity.
Qed.

(* the neighbour is a valid rank with the expected coordinates *)
Lemma target_coords : forall dims pers cs k x, allpos dims -> inrange dims cs -> (k < length dims)%nat ->
  (nth k pers false = true \/ 0 <= x < nth k dims 0) ->
  let r' := target dims pers cs k x in
  0 <= r' < prodl dims /\ coords (prodl dims) dims r' = upd k (x mod nth k dims 0) cs.
Proof.
  intros dims pers cs k x Hp Hi Hk Hx r'. subst r'. unfold target.
  pose proof (nth_pos dims k Hp Hk) as Hd.
  assert (Hu : forall y, 0 <= y < nth k dims 0 -> inrange dims (upd k y cs)).
  { clear Hx. revert cs k Hi Hk Hd. induction dims as [|d ds IH]; intros cs k Hi Hk Hd y Hy; cbn [length] in Hk; [lia|].
    destruct cs as [|c cs]; cbn [inrange] in Hi; [tauto|]. cbn [allpos] in Hp.
    destruct k; cbn [upd nth inrange] in *; [tauto|]. split; [tauto|]. apply IH; try tauto. lia. }
  destruct (nth k pers false).
  - assert (Hm : 0 <= x mod nth k dims 0 < nth k dims 0) by (apply Z.mod_pos_bound; lia).
    split; [apply lin_range|apply coords_lin]; auto.
  - destruct Hx as [Hx|Hx]; [discriminate|].
    replace ((0 <=? x) && (x <? nth k dims 0)) with true by lia. rewrite Z.mod_small by lia.
    split; [apply lin_range|apply coords_lin]; auto.
Qed.
