(** C31 — predefined reduction operators (src/smpi/mpi/smpi_op.cpp).  Model and specification, no proofs.
    The (operator x datatype) tables come from Gen/OpTable.v, regenerated from the source on every run.
    LP64 C types.  An element is a pair of integers (value, index); scalars use (v, 0); floating-point and complex
    elements are restricted to small integer values, on which the machine operations are exact. *)
From Coq Require Import String.
From SGV Require Import Base.Tactics Gen.OpTable.
Local Open Scope string_scope.
Local Open Scope Z_scope.

Fixpoint assoc {A : Type} (k : string) (l : list (string * A)) : option A :=
  match l with [] => None | (k', v) :: r => if String.eqb k k' then Some v else assoc k r end.
Definition mems (k : string) (l : list string) : bool := existsb (String.eqb k) l.

(** * which pairs are accepted (CHECK_OP) and how they are dispatched (the if/else chains) *)
Definition rma_only (op : string) : bool := mems op ["MPI_REPLACE"; "MPI_NO_OP"]%string.
Definition accepted (op dt : string) : bool :=
  match assoc op op_decl, assoc dt dt_decl with
  | Some (_, fams), Some (_, fam) => negb (rma_only op) && match fams with [] => true | _ => mems fam fams end
  | _, _ => false
  end.
Definition dispatch (op dt : string) : option (string * string) :=
  match assoc op op_decl with
  | Some (f, _) => match assoc f func_loops with Some l => assoc dt l | None => None end
  | None => None
  end.

(** * C types *)
Inductive kind := KInt (bits : Z) (signed : bool) | KBool | KFloat | KCplx | KPair (v i : kind) | KOther.
Definition ctype_kind (c : string) : kind :=
  let is := String.eqb c in
  if is "char" || is "signed char" || is "int8_t" then KInt 8 true
  else if is "unsigned char" || is "uint8_t" then KInt 8 false
  else if is "short" || is "int16_t" then KInt 16 true
  else if is "unsigned short" || is "uint16_t" then KInt 16 false
  else if is "int" || is "int32_t" || is "wchar_t" then KInt 32 true
  else if is "unsigned int" || is "uint32_t" then KInt 32 false
  else if is "long" || is "long long" || is "int64_t" || is "MPI_Aint" || is "MPI_Offset" then KInt 64 true
  else if is "unsigned long" || is "unsigned long long" || is "uint64_t" then KInt 64 false
  else if is "bool" then KBool
  else if is "float" || is "double" || is "long double" then KFloat
  else if is "float _Complex" || is "double _Complex" || is "long double _Complex"
          || is "std::complex<float>" || is "std::complex<double>" || is "std::complex<long double>" then KCplx
  else if is "float_int" || is "double_int" || is "long_double_int" then KPair KFloat (KInt 32 true)
  else if is "long_int" then KPair (KInt 64 true) (KInt 32 true)
  else if is "short_int" then KPair (KInt 16 true) (KInt 32 true)
  else if is "int_int" then KPair (KInt 32 true) (KInt 32 true)
  else if is "long_long" then KPair (KInt 64 true) (KInt 64 true)
  else if is "float_float" || is "double_double" then KPair KFloat KFloat
  else KOther.

Definition wrap (bits : Z) (signed : bool) (z : Z) : Z :=
  let m := 2 ^ bits in let r := z mod m in
  if signed && (2 ^ (bits - 1) <=? r) then r - m else r.
Definition wrapk (k : kind) (z : Z) : Z :=
  match k with KInt b s => wrap b s z | KBool => if z =? 0 then 0 else 1 | _ => z end.
Definition vk (k : kind) : kind := match k with KPair v _ => v | _ => k end.
Definition ik (k : kind) : kind := match k with KPair _ i => i | _ => k end.
Definition bz (b : bool) : Z := if b then 1 else 0.
Definition nz (z : Z) : bool := negb (z =? 0).

(** * the element macros *)
Definition elt := (Z * Z)%type.
Definition cprod (a b : elt) : elt := (fst a * fst b - snd a * snd b, fst a * snd b + snd a * fst b).
(* [fixed] selects the repaired PROD_OP_COMPLEX (complex product) or the pinned one (component-wise) *)
Definition elem_op (fixed : bool) (mac : string) (k : kind) (a b : elt) : elt :=
  let is := String.eqb mac in
  let '(va, ia) := a in let '(vb, ib) := b in
  if is "MAX_OP" then (if va <? vb then vb else va, 0)
  else if is "MIN_OP" then (if va <? vb then va else vb, 0)
  else if is "SUM_OP" then match k with KCplx => (va + vb, ia + ib) | _ => (wrapk k (vb + va), 0) end
  else if is "PROD_OP" then match k with KCplx => cprod a b | _ => (wrapk k (vb * va), 0) end
  else if is "SUM_OP_COMPLEX" then (wrapk (vk k) (vb + va), wrapk (ik k) (ib + ia))
  else if is "PROD_OP_COMPLEX" then
    (if fixed then let '(r, i) := cprod a b in (wrapk (vk k) r, wrapk (ik k) i)
     else (wrapk (vk k) (vb * va), wrapk (ik k) (ib * ia)))
  else if is "LAND_OP" then (wrapk k (bz (nz va && nz vb)), 0)
  else if is "LOR_OP" then (wrapk k (bz (nz va || nz vb)), 0)
  else if is "LXOR_OP" then (wrapk k (bz (xorb (nz va) (nz vb))), 0)
  else if is "BAND_OP" then (Z.land vb va, 0)
  else if is "BOR_OP" then (Z.lor vb va, 0)
  else if is "BXOR_OP" then (Z.lxor vb va, 0)
  else if is "MAXLOC_OP" then (if va <? vb then b else if va =? vb then (if ia <? ib then a else b) else a)
  else if is "MINLOC_OP" then (if va <? vb then a else if va =? vb then (if ia <? ib then a else b) else b)
  else b.

(** * what MPI prescribes (MPI-3.1 section 5.9.2): classes of datatypes and the operators allowed on them *)
Inductive mclass := CInt | FInt | Fp | Logical | Cplx | Byte | Multi | LocPair | NoClass.
Definition mpi_class (dt : string) : mclass :=
  let m := mems dt in
  if m ["MPI_INT"; "MPI_LONG"; "MPI_SHORT"; "MPI_UNSIGNED_SHORT"; "MPI_UNSIGNED"; "MPI_UNSIGNED_LONG"; "MPI_LONG_LONG";
        "MPI_UNSIGNED_LONG_LONG"; "MPI_SIGNED_CHAR"; "MPI_UNSIGNED_CHAR"; "MPI_INT8_T"; "MPI_INT16_T"; "MPI_INT32_T";
        "MPI_INT64_T"; "MPI_UINT8_T"; "MPI_UINT16_T"; "MPI_UINT32_T"; "MPI_UINT64_T"]%string then CInt
  else if m ["MPI_INTEGER1"; "MPI_INTEGER2"; "MPI_INTEGER4"; "MPI_INTEGER8"; "MPI_INTEGER16"]%string then FInt
  else if m ["MPI_FLOAT"; "MPI_DOUBLE"; "MPI_LONG_DOUBLE"; "MPI_REAL"; "MPI_REAL4"; "MPI_REAL8"; "MPI_REAL16"]%string then Fp
  else if m ["MPI_C_BOOL"; "MPI_CXX_BOOL"]%string then Logical
  else if m ["MPI_C_FLOAT_COMPLEX"; "MPI_C_DOUBLE_COMPLEX"; "MPI_C_LONG_DOUBLE_COMPLEX"; "MPI_CXX_FLOAT_COMPLEX";
             "MPI_CXX_DOUBLE_COMPLEX"; "MPI_CXX_LONG_DOUBLE_COMPLEX"; "MPI_COMPLEX8"; "MPI_COMPLEX16"; "MPI_COMPLEX32"]%string then Cplx
  else if m ["MPI_BYTE"]%string then Byte
  else if m ["MPI_AINT"; "MPI_OFFSET"; "MPI_COUNT"]%string then Multi
  else if m ["MPI_FLOAT_INT"; "MPI_DOUBLE_INT"; "MPI_LONG_INT"; "MPI_2INT"; "MPI_SHORT_INT"; "MPI_LONG_DOUBLE_INT";
             "MPI_2FLOAT"; "MPI_2DOUBLE"; "MPI_2LONG"]%string then LocPair   (* 2FLOAT/2DOUBLE/2LONG: SMPI's names of the Fortran pairs *)
  else NoClass.
Definition mpi_allows (op dt : string) : bool :=
  let c := mpi_class dt in
  let o := mems op in
  if o ["MPI_MAX"; "MPI_MIN"]%string then match c with CInt | FInt | Fp | Multi => true | _ => false end
  else if o ["MPI_SUM"; "MPI_PROD"]%string then match c with CInt | FInt | Fp | Cplx | Multi => true | _ => false end
  else if o ["MPI_LAND"; "MPI_LOR"; "MPI_LXOR"]%string then match c with CInt | Logical => true | _ => false end
  else if o ["MPI_BAND"; "MPI_BOR"; "MPI_BXOR"]%string then match c with CInt | FInt | Byte | Multi => true | _ => false end
  else if o ["MPI_MAXLOC"; "MPI_MINLOC"]%string then match c with LocPair => true | _ => false end
  else false.
(* pairs SimGrid accepts beyond the standard (recorded in KNOWN_FINDINGS.txt, signature accepts-unsupported) *)
Definition extension (op dt : string) : bool :=
  (String.eqb dt "MPI_CHAR" && mems op ["MPI_MAX"; "MPI_MIN"; "MPI_SUM"; "MPI_PROD"; "MPI_LAND"; "MPI_LOR"; "MPI_LXOR"; "MPI_BAND"; "MPI_BOR"; "MPI_BXOR"]%string)
  || (mems op ["MPI_LAND"; "MPI_LOR"; "MPI_LXOR"]%string && match mpi_class dt with Fp | Multi => true | _ => false end).
(* accepted by CHECK_OP but absent from the if/else chain: the simulation aborts (signature accepted-then-abort) *)
Definition aborts (op dt : string) : bool :=
  String.eqb dt "MPI_INTEGER16" && mems op ["MPI_MAX"; "MPI_MIN"; "MPI_SUM"; "MPI_PROD"; "MPI_BAND"; "MPI_BOR"; "MPI_BXOR"]%string.

(* the macro each operator must be dispatched to, per kind of C type *)
Definition expected_macro (op : string) (k : kind) : string :=
  let base := match assoc op [("MPI_MAX", "MAX_OP"); ("MPI_MIN", "MIN_OP"); ("MPI_SUM", "SUM_OP"); ("MPI_PROD", "PROD_OP");
                               ("MPI_LAND", "LAND_OP"); ("MPI_LOR", "LOR_OP"); ("MPI_LXOR", "LXOR_OP"); ("MPI_BAND", "BAND_OP");
                               ("MPI_BOR", "BOR_OP"); ("MPI_BXOR", "BXOR_OP"); ("MPI_MAXLOC", "MAXLOC_OP");
                               ("MPI_MINLOC", "MINLOC_OP")]%string with Some m => m | None => ""%string end in
  match k with
  | KPair _ _ => if mems op ["MPI_SUM"; "MPI_PROD"]%string then (base ++ "_COMPLEX")%string else base
  | _ => base
  end.

Definition all_ops : list string := map fst op_decl.
Definition all_dts : list string := map fst dt_decl.
Definition pairs : list (string * string) := flat_map (fun o => map (fun d => (o, d)) all_dts) all_ops.

(* the finite facts the theorems of Properties_C31 state, as boolean checks over the generated tables *)
Definition table_types_ok : bool :=
  forallb (fun fl => forallb (fun e => match assoc (fst e) dt_decl with
                                       | Some (c, _) => String.eqb c (fst (snd e))
                                       | None => false end) (snd fl)) func_loops.
Definition supported_ok : bool :=
  forallb (fun p => Bool.eqb (accepted (fst p) (snd p)) (mpi_allows (fst p) (snd p) || extension (fst p) (snd p))) pairs.
Definition dispatched_ok : bool :=
  forallb (fun p => let '(o, d) := p in
     if accepted o d then
       match dispatch o d with
       | Some (c, mac) => negb (aborts o d) && String.eqb mac (expected_macro o (ctype_kind c))
                          && match ctype_kind c with KOther => false | _ => true end
       | None => aborts o d
       end
     else true) pairs.



(** * the C type MPI associates with each datatype NAME (independent of SimGrid's declarations) *)
Definition spec_kind (dt : string) : kind :=
  let m := mems dt in
  if m ["MPI_CHAR"; "MPI_SIGNED_CHAR"; "MPI_INT8_T"; "MPI_INTEGER1"] then KInt 8 true
  else if m ["MPI_UNSIGNED_CHAR"; "MPI_UINT8_T"] then KInt 8 false
  else if m ["MPI_SHORT"; "MPI_INT16_T"; "MPI_INTEGER2"] then KInt 16 true
  else if m ["MPI_UNSIGNED_SHORT"; "MPI_UINT16_T"] then KInt 16 false
  else if m ["MPI_INT"; "MPI_INT32_T"; "MPI_INTEGER4"; "MPI_WCHAR"] then KInt 32 true
  else if m ["MPI_UNSIGNED"; "MPI_UINT32_T"] then KInt 32 false
  else if m ["MPI_LONG"; "MPI_LONG_LONG"; "MPI_INT64_T"; "MPI_INTEGER8"; "MPI_AINT"; "MPI_OFFSET"; "MPI_COUNT"] then KInt 64 true
  else if m ["MPI_UNSIGNED_LONG"; "MPI_UNSIGNED_LONG_LONG"; "MPI_UINT64_T"] then KInt 64 false
  else if m ["MPI_C_BOOL"; "MPI_CXX_BOOL"] then KBool
  else if m ["MPI_FLOAT"; "MPI_DOUBLE"; "MPI_LONG_DOUBLE"; "MPI_REAL"; "MPI_REAL4"; "MPI_REAL8"; "MPI_REAL16"] then KFloat
  else if m ["MPI_C_FLOAT_COMPLEX"; "MPI_C_DOUBLE_COMPLEX"; "MPI_C_LONG_DOUBLE_COMPLEX"; "MPI_CXX_FLOAT_COMPLEX";
             "MPI_CXX_DOUBLE_COMPLEX"; "MPI_CXX_LONG_DOUBLE_COMPLEX"] then KCplx
  else if m ["MPI_COMPLEX8"; "MPI_COMPLEX16"; "MPI_COMPLEX32"; "MPI_2FLOAT"; "MPI_2DOUBLE"] then KPair KFloat KFloat
  else if m ["MPI_FLOAT_INT"; "MPI_DOUBLE_INT"; "MPI_LONG_DOUBLE_INT"] then KPair KFloat (KInt 32 true)
  else if m ["MPI_LONG_INT"] then KPair (KInt 64 true) (KInt 32 true)
  else if m ["MPI_SHORT_INT"] then KPair (KInt 16 true) (KInt 32 true)
  else if m ["MPI_2INT"] then KPair (KInt 32 true) (KInt 32 true)
  else if m ["MPI_2LONG"] then KPair (KInt 64 true) (KInt 64 true)
  else KOther.
Fixpoint kind_eqb (a b : kind) : bool :=
  match a, b with
  | KInt x s, KInt y t => (x =? y) && Bool.eqb s t
  | KBool, KBool | KFloat, KFloat | KCplx, KCplx | KOther, KOther => true
  | KPair v i, KPair w j => kind_eqb v w && kind_eqb i j
  | _, _ => false
  end.
(* every datatype MPI gives a C type to is declared with a C type of that kind (MPI_BYTE: any 8-bit type) *)
Definition declared_kinds_ok : bool :=
  forallb (fun d => match spec_kind (fst d) with
                    | KOther => true
                    | k => kind_eqb (ctype_kind (fst (snd d))) k
                    end) dt_decl.

(** * sizes: C types (LP64, x86-64) and the sizes MPI mandates for the sized datatypes *)
Definition ctype_size (c : string) : Z :=
  let is := String.eqb c in
  if is "char" || is "signed char" || is "unsigned char" || is "int8_t" || is "uint8_t" || is "bool" then 1
  else if is "short" || is "unsigned short" || is "int16_t" || is "uint16_t" then 2
  else if is "int" || is "unsigned int" || is "int32_t" || is "uint32_t" || is "float" || is "wchar_t" then 4
  else if is "long" || is "unsigned long" || is "long long" || is "unsigned long long" || is "int64_t" || is "uint64_t"
          || is "double" || is "MPI_Aint" || is "MPI_Offset" || is "void*" then 8
  else if is "long double" || is "integer128_t" then 16
  else if is "float _Complex" || is "std::complex<float>" || is "float_int" || is "short_int" || is "int_int" || is "float_float" then 8
  else if is "double _Complex" || is "std::complex<double>" || is "double_int" || is "long_int" || is "long_long" || is "double_double" then 16
  else if is "long double _Complex" || is "std::complex<long double>" || is "long_double_int" then 32
  else 0.
Definition mandated_size (dt : string) : option Z :=
  assoc dt [("MPI_BYTE", 1); ("MPI_INT8_T", 1); ("MPI_INT16_T", 2); ("MPI_INT32_T", 4); ("MPI_INT64_T", 8);
            ("MPI_UINT8_T", 1); ("MPI_UINT16_T", 2); ("MPI_UINT32_T", 4); ("MPI_UINT64_T", 8);
            ("MPI_INTEGER1", 1); ("MPI_INTEGER2", 2); ("MPI_INTEGER4", 4); ("MPI_INTEGER8", 8); ("MPI_INTEGER16", 16);
            ("MPI_REAL4", 4); ("MPI_REAL8", 8); ("MPI_REAL16", 16);
            ("MPI_COMPLEX8", 8); ("MPI_COMPLEX16", 16); ("MPI_COMPLEX32", 32)].
(* declared with a C type of another size (recorded in KNOWN_FINDINGS.txt, signature wrong-size) *)
Definition size_exception (dt : string) : bool := String.eqb dt "MPI_COMPLEX32".
Definition sizes_ok : bool :=
  forallb (fun d => match mandated_size (fst d) with
                    | Some n => Bool.eqb (ctype_size (fst (snd d)) =? n) (negb (size_exception (fst d)))
                    | None => true end) dt_decl.

(** * executable entry point.  input: fixed opidx dtidx n  a1v a1i .. anv ani  b1v b1i ..
    output: status (0 computed, 1 rejected, 2 accepted then aborts) followed by the n result elements *)
Fixpoint map2e (f : elt -> elt -> elt) (a b : list (Z * Z)) : list Z :=
  match a, b with x :: a', y :: b' => let '(v, i) := f x y in v :: i :: map2e f a' b' | _, _ => [] end.
Definition run_c31 (inp : list Z) : list Z :=
  match inp with
  | fixed :: oi :: di :: n :: r =>
      let op := nth (Z.to_nat oi) all_ops ""%string in
      let dt := nth (Z.to_nat di) all_dts ""%string in
      let '(a, r1) := take_pairs (Z.to_nat n) r in
      let '(b, _) := take_pairs (Z.to_nat n) r1 in
      if negb (accepted op dt) then [1]
      else match dispatch op dt with
           | None => [2]
           | Some _ =>
               (* the values are MPI's: the operator's own macro on the C type MPI associates with the datatype name (for
                  the current tables these are the dispatched ones: C31_accepted_dispatched, C31_table_types, C31_declared_kinds) *)
               let k := match spec_kind dt with KOther => match assoc dt dt_decl with Some (c, _) => ctype_kind c | None => KOther end | k => k end in
               0 :: map2e (elem_op (negb (fixed =? 0)) (expected_macro op k) k) a b
           end
  | _ => [-1]
  end.

(* input: opidx dtidx ; output: accepted mpi_allows extension aborts size_exception dispatched *)
Definition run_c31_info (inp : list Z) : list Z :=
  match inp with
  | oi :: di :: _ =>
      let op := nth (Z.to_nat oi) all_ops ""%string in
      let dt := nth (Z.to_nat di) all_dts ""%string in
      [bz (accepted op dt); bz (mpi_allows op dt); bz (extension op dt); bz (aborts op dt); bz (size_exception dt);
       bz (match dispatch op dt with Some _ => true | None => false end)]
  | _ => [-1]
  end.
