(** C33 — Cart_sub (counting argument for Comm::split) and Dims_create *)
From SGV Require Import Base.Tactics Smpi.Topo Smpi.TopoProofs.
Local Open Scope Z_scope.

(** * counting over [0,n) *)
Lemma map_seq_shift : forall n s t,
  map Z.of_nat (seq (s + t) n) = map (Z.add (Z.of_nat t)) (map Z.of_nat (seq s n)).
Proof.
  induction n as [|n IH]; intros s t; cbn [seq map]; [reflexivity|]. f_equal; [lia|]. apply (IH (S s) t).
Qed.

Lemma zseq_app : forall a b, 0 <= a -> 0 <= b -> zseq (a + b) = zseq a ++ map (Z.add a) (zseq b).
Proof.
  intros a b Ha Hb. unfold zseq. rewrite Z2Nat.inj_add by lia. rewrite seq_app, map_app. f_equal.
  rewrite (map_seq_shift (Z.to_nat b) 0 (Z.to_nat a)). rewrite Z2Nat.id by lia. reflexivity.
Qed.

Lemma filter_map_len : forall (f : Z -> bool) (g : Z -> Z) l,
  length (filter f (map g l)) = length (filter (fun x => f (g x)) l).
Proof. induction l as [|x l IH]; cbn [map filter]; [reflexivity|]. destruct (f (g x)); cbn [length]; rewrite IH; reflexivity. Qed.

Lemma cnt_add : forall f a b, 0 <= a -> 0 <= b -> cnt f (a + b) = cnt f a + cnt (fun j => f (a + j)) b.
Proof.
  intros f a b Ha Hb. unfold cnt. rewrite zseq_app by assumption. rewrite filter_app, app_length, filter_map_len. lia.
Qed.

Lemma In_zseq : forall n x, In x (zseq n) <-> 0 <= x < n.
Proof.
  intros n x. unfold zseq. rewrite in_map_iff. split.
  - intros [k [Hk Hin]]. apply in_seq in Hin. lia.
  - intros Hx. exists (Z.to_nat x). split; [lia|]. apply in_seq. lia.
Qed.

Lemma cnt_ext : forall f g n, (forall j, 0 <= j < n -> f j = g j) -> cnt f n = cnt g n.
Proof.
  intros f g n H. unfold cnt. f_equal. f_equal. apply filter_ext_in. intros a Ha. apply H. apply In_zseq. assumption.
Qed.

Lemma cnt_false : forall n, cnt (fun _ => false) n = 0.
Proof. intros n. unfold cnt. induction (zseq n); cbn; [reflexivity|assumption]. Qed.

Lemma cnt_zero : forall f, cnt f 0 = 0.
Proof. reflexivity. Qed.

Lemma cnt_blocks_kept : forall P f g, 0 < P -> forall c, 0 <= c ->
  (forall i j, 0 <= i < c -> 0 <= j < P -> f (i * P + j) = g j) -> cnt f (c * P) = c * cnt g P.
Proof.
  intros P f g HP c Hc. pattern c. apply natlike_ind; [| |assumption]; clear c Hc.
  - intros _. reflexivity.
  - intros c Hc IH H. replace (Z.succ c * P) with (c * P + P) by lia. rewrite cnt_add by nia.
    rewrite IH by (intros; apply H; lia).
    rewrite (cnt_ext (fun j => f (c * P + j)) g) by (intros; apply H; lia). lia.
Qed.

Lemma cnt_blocks_drop : forall P f g c0, 0 < P -> forall c, 0 <= c ->
  (forall i j, 0 <= i < c -> 0 <= j < P -> f (i * P + j) = (i =? c0) && g j) ->
  cnt f (c * P) = if (0 <=? c0) && (c0 <? c) then cnt g P else 0.
Proof.
  intros P f g c0 HP c Hc. pattern c. apply natlike_ind; [| |assumption]; clear c Hc.
  - intros _. replace ((0 <=? c0) && (c0 <? 0)) with false by lia. reflexivity.
  - intros c Hc IH H. replace (Z.succ c * P) with (c * P + P) by lia. rewrite cnt_add by nia.
    rewrite IH by (intros; apply H; lia).
    destruct (c =? c0) eqn:E.
    + rewrite (cnt_ext (fun j => f (c * P + j)) g).
      * replace ((0 <=? c0) && (c0 <? c)) with false by lia.
        replace ((0 <=? c0) && (c0 <? Z.succ c)) with true by lia. lia.
      * intros j Hj. rewrite H by lia. rewrite E. reflexivity.
    + rewrite (cnt_ext (fun j => f (c * P + j)) (fun _ => false)).
      * rewrite cnt_false. replace ((0 <=? c0) && (c0 <? Z.succ c)) with ((0 <=? c0) && (c0 <? c)) by lia. lia.
      * intros j Hj. rewrite H by lia. rewrite E. reflexivity.
Qed.

(** * colours *)
Definition PD (rem : list bool) (dims : list Z) : Z := prodl (select (map negb rem) dims).

Lemma color_lin : forall rem dims cs acc, length cs = length dims ->
  color_of acc rem dims cs = acc * PD rem dims + color_of 0 rem dims cs.
Proof.
  induction rem as [|b rem IH]; intros dims cs acc Hl.
  - cbn. lia.
  - destruct dims as [|d ds], cs as [|c cs]; cbn [length] in Hl; try discriminate.
    + cbn. lia.
    + unfold PD. cbn [color_of map select]. destruct b; cbn [negb].
      * apply IH. lia.
      * rewrite (IH ds cs (acc * d + c)) by lia. rewrite (IH ds cs (0 * d + c)) by lia.
        cbn [prodl]. unfold PD. ring.
Qed.

Lemma PD_pos : forall rem dims, allpos dims -> 0 < PD rem dims.
Proof.
  unfold PD. induction rem as [|b rem IH]; intros dims Hp; [cbn; lia|].
  destruct dims as [|d ds]; [cbn; lia|]. cbn [allpos] in Hp. cbn [map select].
  destruct b; cbn [negb prodl]; [apply IH; tauto|]. specialize (IH ds (proj2 Hp)). nia.
Qed.

Lemma color_range : forall rem dims cs, allpos dims -> inrange dims cs ->
  0 <= color_of 0 rem dims cs < PD rem dims.
Proof.
  induction rem as [|b rem IH]; intros dims cs Hp Hi.
  - cbn. lia.
  - destruct dims as [|d ds], cs as [|c cs]; cbn [inrange] in Hi; try tauto.
    + cbn. lia.
    + cbn [allpos] in Hp. destruct Hp as [Hd Hs], Hi as [Hc Hi].
      specialize (IH ds cs Hs Hi). unfold PD in *. cbn [color_of map select]. destruct b; cbn [negb].
      * assumption.
      * rewrite color_lin by (apply inrange_length; assumption). unfold PD. cbn [prodl]. nia.
Qed.

Lemma colr_step : forall d ds b rem i j, 0 < d -> allpos ds -> 0 <= i < d -> 0 <= j < prodl ds ->
  colr (d :: ds) (b :: rem) (i * prodl ds + j) =
  if b then colr ds rem j else i * PD rem ds + colr ds rem j.
Proof.
  intros d ds b rem i j Hd Hs Hi Hj. pose proof (prodl_pos ds Hs) as HP.
  unfold colr. cbn [prodl]. rewrite coords_cons by nia.
  rewrite Z.div_add_l by lia. rewrite Z.div_small by lia.
  rewrite (Z.add_comm (i * prodl ds)), Z.mod_add by lia. rewrite Z.mod_small by lia.
  cbn [color_of]. replace (i + 0) with i by lia. destruct b; [reflexivity|].
  destruct (coords_inrange ds j Hs Hj) as [Hin _].
  rewrite color_lin by (apply inrange_length; assumption). lia.
Qed.

Lemma eqb_radix : forall i c0 x y M, 0 <= x < M -> 0 <= y < M ->
  (i * M + x =? c0 * M + y) = (i =? c0) && (x =? y).
Proof.
  intros i c0 x y M Hx Hy. destruct (i =? c0) eqn:E1; destruct (x =? y) eqn:E2; cbn [andb].
  - apply Z.eqb_eq. apply Z.eqb_eq in E1. lia.
  - apply Z.eqb_neq. apply Z.eqb_eq in E1. subst. lia.
  - apply Z.eqb_neq. apply Z.eqb_neq in E1. nia.
  - apply Z.eqb_neq. apply Z.eqb_neq in E1. nia.
Qed.

Lemma same_step : forall d ds b rem c0 j0 i j, 0 < d -> allpos ds ->
  0 <= c0 < d -> 0 <= j0 < prodl ds -> 0 <= i < d -> 0 <= j < prodl ds ->
  same (d :: ds) (b :: rem) (c0 * prodl ds + j0) (i * prodl ds + j) =
  if b then same ds rem j0 j else (i =? c0) && same ds rem j0 j.
Proof.
  intros d ds b rem c0 j0 i j Hd Hs Hc Hj0 Hi Hj. unfold same.
  rewrite !colr_step by assumption. destruct b; [reflexivity|].
  apply eqb_radix; unfold colr; apply color_range; try assumption; apply coords_inrange; assumption.
Qed.

Lemma sub_count : forall dims, allpos dims -> forall rem r0, length rem = length dims -> 0 <= r0 < prodl dims ->
  cnt (same dims rem r0) r0 = lin (select rem dims) (select rem (coords (prodl dims) dims r0))
  /\ cnt (same dims rem r0) (prodl dims) = prodl (select rem dims).
Proof.
  induction dims as [|d ds IH]; intros Hp rem r0 Hl Hr.
  - destruct rem; cbn [length] in Hl; [|discriminate]. cbn [prodl] in Hr. assert (r0 = 0) by lia. subst r0.
    split; reflexivity.
  - destruct rem as [|b rem]; cbn [length] in Hl; [discriminate|]. cbn [allpos] in Hp. destruct Hp as [Hd Hs].
    pose proof (prodl_pos ds Hs) as HP. cbn [prodl] in Hr |- *.
    set (P := prodl ds) in *. set (c0 := r0 / P). set (j0 := r0 mod P).
    assert (Hj0 : 0 <= j0 < P) by (apply Z.mod_pos_bound; lia).
    assert (Hc0 : 0 <= c0 < d).
    { split; [apply Z.div_pos; lia|]. apply Z.div_lt_upper_bound; lia. }
    assert (Er : r0 = c0 * P + j0) by (pose proof (Z.div_mod r0 P); unfold c0, j0; lia).
    destruct (IH Hs rem j0 ltac:(lia) Hj0) as [IH1 IH2]. fold P in IH1, IH2.
    rewrite coords_cons by lia. fold P c0 j0.
    assert (Hstep : forall i j, 0 <= i < d -> 0 <= j < P ->
              same (d :: ds) (b :: rem) r0 (i * P + j) = if b then same ds rem j0 j else (i =? c0) && same ds rem j0 j).
    { intros i j Hi Hj. rewrite Er. apply same_step; assumption. }
    split.
    + rewrite Er at 2. rewrite cnt_add by nia.
      rewrite (cnt_ext (fun j => same (d :: ds) (b :: rem) r0 (c0 * P + j)) (same ds rem j0)).
      2:{ intros j Hj. rewrite Hstep by lia. destruct b; [reflexivity|]. rewrite Z.eqb_refl. reflexivity. }
      destruct b; cbn [select lin].
      * rewrite (cnt_blocks_kept P _ (same ds rem j0)) by (try lia; intros; rewrite Hstep by lia; reflexivity).
        rewrite IH1, IH2. reflexivity.
      * rewrite (cnt_blocks_drop P _ (same ds rem j0) c0) by (try lia; intros; rewrite Hstep by lia; reflexivity).
        replace ((0 <=? c0) && (c0 <? c0)) with false by lia. rewrite IH1. lia.
    + destruct b; cbn [select prodl].
      * rewrite (cnt_blocks_kept P _ (same ds rem j0)) by (try lia; intros; rewrite Hstep by lia; reflexivity).
        rewrite IH2. reflexivity.
      * rewrite (cnt_blocks_drop P _ (same ds rem j0) c0) by (try lia; intros; rewrite Hstep by lia; reflexivity).
        replace ((0 <=? c0) && (c0 <? d)) with true by lia. assumption.
Qed.

Lemma select_allpos : forall rem dims, allpos dims -> allpos (select rem dims).
Proof.
  induction rem as [|b rem IH]; intros dims Hp; [exact I|]. destruct dims as [|d ds]; [exact I|].
  cbn [allpos] in Hp. destruct Hp as [Hd Hs]. cbn [select].
  destruct b; [cbn [allpos]; split; [assumption|]|]; apply IH; assumption.
Qed.
Lemma select_inrange : forall rem dims cs, inrange dims cs -> inrange (select rem dims) (select rem cs).
Proof.
  induction rem as [|b rem IH]; intros dims cs Hi.
  - destruct dims, cs; cbn [inrange] in Hi; try tauto; exact I.
  - destruct dims as [|d ds]; destruct cs as [|c cs]; cbn [inrange] in Hi.
    + exact I.
    + tauto.
    + tauto.
    + destruct Hi as [Hc Hi]. cbn [select]. destruct b; [cbn [inrange]; split; [assumption|]|]; apply IH; assumption.
Qed.

Lemma sub_spec : forall dims pers rem r, allpos dims -> length rem = length dims -> 0 <= r < prodl dims ->
  let nd := select rem dims in
  let cs := select rem (coords (prodl dims) dims r) in
  sub dims pers rem r = Some {| c_nn := prodl nd; c_dims := nd; c_pers := select rem pers; c_pos := cs |}
  /\ sub_size dims rem r = prodl nd
  /\ 0 <= sub_rank dims rem r < prodl nd
  /\ coords (prodl nd) nd (sub_rank dims rem r) = cs.
Proof.
  intros dims pers rem r Hp Hl Hr nd cs.
  destruct (sub_count dims Hp rem r Hl Hr) as [H1 H2]. fold nd cs in H1, H2.
  destruct (coords_inrange dims r Hp Hr) as [Hi _].
  pose proof (select_allpos rem dims Hp) as Hp'. fold nd in Hp'.
  pose proof (select_inrange rem _ _ Hi) as Hi'. fold nd cs in Hi'.
  pose proof (lin_range nd cs Hp' Hi') as Hlr.
  unfold sub, sub_size, sub_rank, cart_create. fold nd. rewrite H1, H2.
  replace (prodl nd <=? lin nd cs) with false by lia.
  rewrite coords_lin by assumption. repeat split; try lia.
Qed.

(* the code as pinned: a 2x3 grid, keep dimension 0: rank 1 gets coordinate 1 in a communicator where its rank is 0,
   rank 2 gets an uninitialised topology *)
Lemma sub_orig_refuted :
  exists dims pers rem r, allpos dims /\ 0 <= r < prodl dims /\
    option_map c_dims (sub_orig dims pers rem r) <> Some (select rem dims).
Proof. exists [2; 3], [false; true], [true; false], 2. vm_compute. repeat split; try discriminate. Qed.
Lemma sub_orig_refuted_coords :
  exists dims pers rem r, allpos dims /\ 0 <= r < prodl dims /\
    option_map c_pos (sub_orig dims pers rem r) <> Some (select rem (coords (prodl dims) dims r)).
Proof. exists [2; 3], [false; true], [true; false], 1. vm_compute. repeat split; try discriminate. Qed.

(** * Dims_create *)
Lemma divs_inv : forall fuel num d acc n' a', d <> 0 ->
  divs fuel num d acc = Some (n', a') -> n' * prodl a' = num * prodl acc.
Proof.
  induction fuel as [|f IH]; intros num d acc n' a' Hd H; cbn [divs] in H; [discriminate|].
  destruct (Z.rem num d =? 0) eqn:E.
  - apply IH in H; [|assumption]. rewrite prodl_app in H. cbn [prodl] in H.
    pose proof (Z.quot_rem' num d). apply Z.eqb_eq in E. rewrite H. nia.
  - inv H. reflexivity.
Qed.

Lemma divs_total : forall fuel num d acc, 2 <= d -> 0 < num <= Z.of_nat fuel ->
  exists n' a', divs fuel num d acc = Some (n', a') /\ 0 < n' <= num.
Proof.
  induction fuel as [|f IH]; intros num d acc Hd Hn; [lia|]. cbn [divs].
  destruct (Z.rem num d =? 0) eqn:E.
  - apply Z.eqb_eq in E. pose proof (Z.quot_rem' num d) as Hq.
    assert (0 < Z.quot num d < num) by nia.
    destruct (IH (Z.quot num d) d (acc ++ [d]) Hd ltac:(lia)) as [n' [a' [H1 H2]]].
    exists n', a'. split; [assumption|lia].
  - exists num, acc. split; [reflexivity|lia].
Qed.

Lemma odds_inv : forall fuel num d acc n' a', 0 < d ->
  odds fuel num d acc = Some (n', a') -> n' * prodl a' = num * prodl acc.
Proof.
  induction fuel as [|f IH]; intros num d acc n' a' Hd H; cbn [odds] in H; [discriminate|].
  destruct ((1 <? num) && (d * d <? num)).
  - destruct (divs (Z.to_nat num) num d acc) as [[n1 a1]|] eqn:E; [|discriminate].
    apply divs_inv in E; [|lia]. apply IH in H; [|lia]. lia.
  - inv H. reflexivity.
Qed.

Lemma odds_total : forall fuel num d acc, 3 <= d -> 0 < num -> (0 < fuel)%nat -> num - d < Z.of_nat fuel ->
  exists r, odds fuel num d acc = Some r.
Proof.
  induction fuel as [|f IH]; intros num d acc Hd Hn Hf0 Hf; [lia|].
  cbn [odds]. destruct ((1 <? num) && (d * d <? num)) eqn:E; [|eexists; reflexivity].
  destruct (divs_total (Z.to_nat num) num d acc ltac:(lia) ltac:(lia)) as [n1 [a1 [H1 H2]]].
  rewrite H1. apply IH; nia.
Qed.

Lemma getfactors_total : forall num, getfactors num <> None.
Proof.
  intros num. unfold getfactors. destruct (num <? 2) eqn:E; [discriminate|].
  destruct (divs_total (Z.to_nat num) num 2 [] ltac:(lia) ltac:(lia)) as [n1 [a1 [H1 H2]]]. rewrite H1.
  destruct (odds_total (Z.to_nat n1) n1 3 a1 ltac:(lia) ltac:(lia) ltac:(lia) ltac:(lia)) as [[n2 a2] H3].
  rewrite H3. discriminate.
Qed.

Lemma getfactors_prod : forall num fs, 2 <= num -> getfactors num = Some fs -> prodl fs = num.
Proof.
  intros num fs Hn H. unfold getfactors in H. replace (num <? 2) with false in H by lia.
  destruct (divs (Z.to_nat num) num 2 []) as [[n1 a1]|] eqn:E1; [|discriminate].
  destruct (odds (Z.to_nat n1) n1 3 a1) as [[n2 a2]|] eqn:E2; [|discriminate].
  apply divs_inv in E1; [|lia]. apply odds_inv in E2; [|lia]. cbn [prodl] in E1.
  inv H. destruct (n2 =? 1) eqn:E3.
  - apply Z.eqb_eq in E3. lia.
  - rewrite prodl_app. cbn [prodl]. lia.
Qed.

(* assignnodes *)
Lemma minl_in : forall l, l <> [] -> In (minl l) l.
Proof.
  induction l as [|a l IH]; intros H; [congruence|]. destruct l as [|b l]; [left; reflexivity|].
  assert (Hi : In (minl (b :: l)) (b :: l)) by (apply IH; discriminate).
  change (minl (a :: b :: l)) with (Z.min a (minl (b :: l))).
  destruct (Z.min_spec a (minl (b :: l))) as [[_ E]|[_ E]]; rewrite E; [left; reflexivity|right; assumption].
Qed.
Lemma mul_first_prod : forall m f l, In m l -> prodl (mul_first m f l) = f * prodl l.
Proof.
  induction l as [|a l IH]; intros H; [destruct H|]. cbn [mul_first].
  destruct (a =? m) eqn:E; cbn [prodl]; [ring|]. rewrite IH; [ring|]. destruct H as [H|H]; [lia|assumption].
Qed.
Lemma mul_first_length : forall m f l, length (mul_first m f l) = length l.
Proof. induction l as [|a l IH]; cbn [mul_first]; [reflexivity|]. destruct (a =? m); cbn [length]; congruence. Qed.

Lemma assign_fold : forall fs bins, bins <> [] ->
  let r := fold_left (fun bins f => mul_first (minl bins) f bins) fs bins in
  prodl r = prodl fs * prodl bins /\ length r = length bins.
Proof.
  induction fs as [|f fs IH]; intros bins Hb; cbn [fold_left prodl]; [split; [lia|reflexivity]|].
  assert (Hn : mul_first (minl bins) f bins <> []).
  { intros E. apply (f_equal (@length Z)) in E. rewrite mul_first_length in E. destruct bins; [congruence|discriminate]. }
  destruct (IH _ Hn) as [H1 H2]. cbn zeta in H1, H2. rewrite H1, H2.
  rewrite mul_first_prod by (apply minl_in; assumption). rewrite mul_first_length. split; [ring|reflexivity].
Qed.

Lemma insert_desc_prod : forall x l, prodl (insert_desc x l) = x * prodl l /\ length (insert_desc x l) = S (length l).
Proof.
  induction l as [|a l [IH1 IH2]]; cbn [insert_desc]; [split; reflexivity|].
  destruct (a <=? x); cbn [prodl length]; [split; reflexivity|]. rewrite IH1, IH2. split; [ring|reflexivity].
Qed.
Lemma sort_desc_prod : forall l, prodl (sort_desc l) = prodl l /\ length (sort_desc l) = length l.
Proof.
  induction l as [|a l [IH1 IH2]]; [split; reflexivity|]. unfold sort_desc in *. cbn [fold_right].
  destruct (insert_desc_prod a (fold_right insert_desc [] l)) as [H1 H2]. rewrite H1, H2, IH1, IH2. split; reflexivity.
Qed.
Lemma prodl_rev : forall l, prodl (rev l) = prodl l.
Proof. induction l as [|a l IH]; [reflexivity|]. cbn [rev]. rewrite prodl_app, IH. cbn [prodl]. ring. Qed.
Lemma prodl_repeat1 : forall n, prodl (repeat 1 n) = 1.
Proof. induction n; cbn [repeat prodl]; lia. Qed.

Lemma assignnodes_prod : forall n fs, (0 < n)%nat ->
  prodl (assignnodes n fs) = prodl fs /\ length (assignnodes n fs) = n.
Proof.
  intros n fs Hn. unfold assignnodes.
  destruct (sort_desc_prod (fold_left (fun bins f => mul_first (minl bins) f bins) (rev fs) (repeat 1 n))) as [H1 H2].
  assert (Hne : repeat 1 n <> []) by (destruct n; [lia|discriminate]).
  destruct (assign_fold (rev fs) (repeat 1 n) Hne) as [H3 H4]. cbn zeta in H3, H4.
  rewrite H1, H2, H3, H4, prodl_rev, prodl_repeat1, repeat_length. split; [ring|reflexivity].
Qed.

(* the given (non-zero) entries *)
Fixpoint given (dims : list Z) : list Z :=
  match dims with [] => [] | d :: r => if d =? 0 then given r else d :: given r end.
Fixpoint zeros (dims : list Z) : nat :=
  match dims with [] => O | d :: r => if d =? 0 then S (zeros r) else zeros r end.
(* res keeps every given entry *)
Fixpoint respects (dims res : list Z) : Prop :=
  match dims, res with
  | d :: ds, r :: rs => (d <> 0 -> r = d) /\ respects ds rs
  | [], [] => True
  | _, _ => False
  end.

Lemma dc_scan_fixed : forall dims nn fp fd fp' fd',
  dc_scan true nn dims fp fd = Some (fp', fd') ->
  fp = fp' * prodl (given dims) /\ fd' = (fd + zeros dims)%nat /\ 0 < prodl (given dims).
Proof.
  induction dims as [|d ds IH]; intros nn fp fd fp' fd' H; cbn [dc_scan given zeros prodl] in *.
  - inv H. repeat split; lia.
  - destruct (d =? 0) eqn:E0.
    + apply IH in H. destruct H as [H1 [H2 H3]]. repeat split; [assumption|lia|assumption].
    + destruct ((d <? 0) || negb (Z.rem fp d =? 0)) eqn:E1; [discriminate|].
      apply IH in H. destruct H as [H1 [H2 H3]]. cbn [prodl]. repeat split; [|assumption|nia].
      pose proof (Z.quot_rem' fp d). assert (Z.rem fp d = 0) by lia. nia.
Qed.

Lemma fill_spec : forall dims procs, length procs = zeros dims ->
  prodl (fill dims procs) = prodl (given dims) * prodl procs /\ respects dims (fill dims procs).
Proof.
  induction dims as [|d ds IH]; intros procs Hl; cbn [fill given zeros] in *.
  - destruct procs; [|discriminate]. cbn. split; [lia|exact I].
  - destruct (d =? 0) eqn:E.
    + destruct procs as [|p ps]; [discriminate|]. cbn [length] in Hl.
      destruct (IH ps ltac:(lia)) as [H1 H2]. cbn [prodl respects]. rewrite H1. split; [ring|]. split; [lia|assumption].
    + destruct (IH procs Hl) as [H1 H2]. cbn [prodl respects]. rewrite H1. split; [ring|]. split; [reflexivity|assumption].
Qed.

Lemma respects_refl : forall dims, respects dims dims.
Proof. induction dims; cbn [respects]; auto. Qed.
Lemma given_nozero : forall dims, zeros dims = O -> given dims = dims.
Proof. induction dims as [|d ds IH]; cbn [zeros given]; [reflexivity|]. destruct (d =? 0); [discriminate|]. intros. f_equal. auto. Qed.
Lemma ones_spec : forall dims,
  prodl (map (fun d => if d =? 0 then 1 else d) dims) = prodl (given dims)
  /\ respects dims (map (fun d => if d =? 0 then 1 else d) dims).
Proof.
  induction dims as [|d ds [IH1 IH2]]; cbn [map given prodl respects]; [split; [reflexivity|exact I]|].
  destruct (d =? 0) eqn:E; cbn [prodl]; rewrite IH1; split; try lia; split; try assumption; lia.
Qed.

Lemma dims_create_ok : forall nnodes dims res, 1 <= nnodes ->
  dims_create nnodes dims = DC_ok res -> prodl res = nnodes /\ respects dims res.
Proof.
  intros nnodes dims res Hnn H. unfold dims_create, dims_create_gen in H.
  destruct (dc_scan true nnodes dims nnodes 0) as [[fp fd]|] eqn:E; [|discriminate].
  apply dc_scan_fixed in E. destruct E as [E1 [E2 Hg]]. cbn [Nat.add] in E2. subst fd.
  destruct (zeros dims) eqn:Ez.
  - destruct (fp =? 1) eqn:E3; [|discriminate]. injection H as Hres; subst res. rewrite given_nozero in E1 by assumption.
    split; [lia|apply respects_refl].
  - destruct (fp =? 1) eqn:E3.
    + injection H as Hres; subst res. destruct (ones_spec dims) as [H1 H2]. split; [lia|assumption].
    + destruct (getfactors fp) as [fs|] eqn:E4; [|discriminate]. injection H as Hres; subst res.
      destruct (assignnodes_prod (S n) fs ltac:(lia)) as [H1 H2].
      destruct (fill_spec dims (assignnodes (S n) fs) ltac:(congruence)) as [H3 H4].
      split; [|assumption]. rewrite H3, H1.
      assert (Hs : 2 <= fp) by (apply Z.eqb_neq in E3; nia).
      rewrite (getfactors_prod fp fs Hs E4). lia.
Qed.

Lemma dims_create_no_fuel : forall fixed nnodes dims, dims_create_gen fixed nnodes dims <> DC_fuel.
Proof.
  intros fixed nnodes dims. unfold dims_create_gen.
  destruct (dc_scan fixed nnodes dims nnodes 0) as [[fp fd]|]; [|discriminate].
  destruct fd; [destruct (fp =? 1); discriminate|].
  destruct (fp =? 1); [discriminate|].
  destruct (getfactors fp) eqn:E; [discriminate|]. exfalso. exact (getfactors_total fp E).
Qed.

(* the code as pinned tests divisibility against nnodes instead of what is left: 12 nodes, dims (4,6,0) *)
Lemma dims_create_orig_refuted :
  exists nnodes dims res, 1 <= nnodes /\ dims_create_orig nnodes dims = DC_ok res /\ prodl res <> nnodes.
Proof. exists 12, [4; 6; 0], [4; 6; 1]. vm_compute. repeat split; discriminate. Qed.
