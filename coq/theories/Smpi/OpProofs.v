(** C31 — proofs: fixed-width wrap, the element macros against MPI's definitions, the finite table facts *)
From Coq Require Import String.
From SGV Require Import Base.Tactics Gen.OpTable Smpi.Op.
Local Open Scope string_scope.
Local Open Scope Z_scope.

(** * fixed-width integers *)
Definition in_width (bits : Z) (signed : bool) (z : Z) : Prop :=
  if signed then - 2 ^ (bits - 1) <= z < 2 ^ (bits - 1) else 0 <= z < 2 ^ bits.

Lemma pow_half : forall bits, 1 <= bits -> 2 ^ bits = 2 * 2 ^ (bits - 1).
Proof. intros bits H. replace bits with (Z.succ (bits - 1)) at 1 by lia. rewrite Z.pow_succ_r by lia. reflexivity. Qed.

Lemma wrap_spec : forall bits signed z, 1 <= bits ->
  in_width bits signed (wrap bits signed z) /\ (wrap bits signed z) mod 2 ^ bits = z mod 2 ^ bits.
Proof.
  intros bits signed z Hb. unfold wrap, in_width. pose proof (pow_half bits Hb) as Hh.
  assert (Hp : 0 < 2 ^ (bits - 1)) by (apply Z.pow_pos_nonneg; lia).
  pose proof (Z.mod_pos_bound z (2 ^ bits) ltac:(lia)) as Hm.
  destruct signed; cbn [andb].
  - destruct (2 ^ (bits - 1) <=? z mod 2 ^ bits) eqn:E.
    + split; [lia|]. replace (z mod 2 ^ bits - 2 ^ bits) with (z mod 2 ^ bits + (-1) * 2 ^ bits) by lia.
      rewrite Z.mod_add by lia. apply Z.mod_mod. lia.
    + split; [lia|]. apply Z.mod_mod. lia.
  - split; [lia|]. apply Z.mod_mod. lia.
Qed.

Lemma wrap_id : forall bits signed z, 1 <= bits -> in_width bits signed z -> wrap bits signed z = z.
Proof.
  intros bits signed z Hb Hz. unfold wrap, in_width in *. pose proof (pow_half bits Hb) as Hh.
  destruct signed; cbn [andb].
  - destruct (Z_lt_le_dec z 0) as [Hn|Hn].
    + assert (E : z mod 2 ^ bits = z + 2 ^ bits).
      { symmetry. apply (Z.mod_unique z (2 ^ bits) (-1)); lia. }
      rewrite E. replace (2 ^ (bits - 1) <=? z + 2 ^ bits) with true by lia. lia.
    + rewrite Z.mod_small by lia. replace (2 ^ (bits - 1) <=? z) with false by lia. reflexivity.
  - apply Z.mod_small. lia.
Qed.

(** * the element macros compute MPI's element-wise results *)
Lemma max_spec : forall f k a ia b ib, elem_op f "MAX_OP" k (a, ia) (b, ib) = (Z.max a b, 0).
Proof. intros. cbn. destruct (a <? b) eqn:E; f_equal; lia. Qed.
Lemma min_spec : forall f k a ia b ib, elem_op f "MIN_OP" k (a, ia) (b, ib) = (Z.min a b, 0).
Proof. intros. cbn. destruct (a <? b) eqn:E; f_equal; lia. Qed.

(* SUM / PROD on a w-bit integer type: the exact result reduced modulo 2^w into the type's range
   (for signed types this is what the machine does; C leaves signed overflow undefined) *)
Lemma sum_int_spec : forall f bits s a ia b ib, 1 <= bits ->
  let r := fst (elem_op f "SUM_OP" (KInt bits s) (a, ia) (b, ib)) in
  in_width bits s r /\ r mod 2 ^ bits = (a + b) mod 2 ^ bits /\ (in_width bits s (a + b) -> r = a + b).
Proof.
  intros f bits s a ia b ib Hb. cbn. destruct (wrap_spec bits s (b + a) Hb) as [H1 H2].
  repeat split; [assumption|rewrite H2; f_equal; lia|]. intros Hin. rewrite wrap_id; [lia|assumption|].
  replace (b + a) with (a + b) by lia. assumption.
Qed.
Lemma prod_int_spec : forall f bits s a ia b ib, 1 <= bits ->
  let r := fst (elem_op f "PROD_OP" (KInt bits s) (a, ia) (b, ib)) in
  in_width bits s r /\ r mod 2 ^ bits = (a * b) mod 2 ^ bits /\ (in_width bits s (a * b) -> r = a * b).
Proof.
  intros f bits s a ia b ib Hb. cbn. destruct (wrap_spec bits s (b * a) Hb) as [H1 H2].
  repeat split; [assumption|rewrite H2; f_equal; lia|]. intros Hin. rewrite wrap_id; [lia|assumption|].
  replace (b * a) with (a * b) by lia. assumption.
Qed.

(* logical operators: non-zero is true, the result is 1 or 0 *)
Lemma logical_spec : forall f bits s a ia b ib, 2 <= bits ->
  elem_op f "LAND_OP" (KInt bits s) (a, ia) (b, ib) = (bz (nz a && nz b), 0) /\
  elem_op f "LOR_OP" (KInt bits s) (a, ia) (b, ib) = (bz (nz a || nz b), 0) /\
  elem_op f "LXOR_OP" (KInt bits s) (a, ia) (b, ib) = (bz (xorb (nz a) (nz b)), 0).
Proof.
  intros f bits s a ia b ib Hb.
  assert (H : forall x : bool, wrap bits s (bz x) = bz x).
  { intros x. apply wrap_id; [lia|]. unfold in_width.
    assert (2 <= 2 ^ (bits - 1)) by (replace 2 with (2 ^ 1) at 1 by reflexivity; apply Z.pow_le_mono_r; lia).
    pose proof (pow_half bits ltac:(lia)). destruct s, x; cbn [bz]; lia. }
  cbn. rewrite !H. repeat split.
Qed.

(* bitwise operators are the two's-complement bitwise operations (Z.land/lor/lxor are exactly that) *)
Lemma bitwise_spec : forall f k a ia b ib,
  elem_op f "BAND_OP" k (a, ia) (b, ib) = (Z.land a b, 0) /\
  elem_op f "BOR_OP" k (a, ia) (b, ib) = (Z.lor a b, 0) /\
  elem_op f "BXOR_OP" k (a, ia) (b, ib) = (Z.lxor a b, 0).
Proof. intros. cbn. rewrite Z.land_comm, Z.lor_comm, Z.lxor_comm. repeat split. Qed.

(* MINLOC / MAXLOC: the extreme value, and on equal values the lowest index *)
Lemma minloc_spec : forall f k a ia b ib,
  let r := elem_op f "MINLOC_OP" k (a, ia) (b, ib) in
  fst r = Z.min a b /\ (a < b -> snd r = ia) /\ (b < a -> snd r = ib) /\ (a = b -> snd r = Z.min ia ib).
Proof.
  intros. subst r. cbn. destruct (a <? b) eqn:E1; cbn [fst snd].
  - repeat split; lia.
  - destruct (a =? b) eqn:E2; [destruct (ia <? ib) eqn:E3|]; cbn [fst snd]; repeat split; lia.
Qed.
Lemma maxloc_spec : forall f k a ia b ib,
  let r := elem_op f "MAXLOC_OP" k (a, ia) (b, ib) in
  fst r = Z.max a b /\ (a < b -> snd r = ib) /\ (b < a -> snd r = ia) /\ (a = b -> snd r = Z.min ia ib).
Proof.
  intros. subst r. cbn. destruct (a <? b) eqn:E1; cbn [fst snd].
  - repeat split; lia.
  - destruct (a =? b) eqn:E2; [destruct (ia <? ib) eqn:E3|]; cbn [fst snd]; repeat split; lia.
Qed.

(* complex numbers: C/C++ complex types and (repaired) the Fortran complex pairs multiply as complex numbers *)
Lemma complex_spec : forall a b,
  elem_op true "SUM_OP" KCplx a b = (fst a + fst b, snd a + snd b) /\
  elem_op true "PROD_OP" KCplx a b = cprod a b /\
  elem_op true "SUM_OP_COMPLEX" (KPair KFloat KFloat) a b = (fst a + fst b, snd a + snd b) /\
  elem_op true "PROD_OP_COMPLEX" (KPair KFloat KFloat) a b = cprod a b.
Proof. intros [ar ai] [br bi]. cbn. repeat split; f_equal; lia. Qed.
Lemma prod_complex_pinned_refuted :
  exists a b, elem_op false "PROD_OP_COMPLEX" (KPair KFloat KFloat) a b <> cprod a b.
Proof. exists (0, 1), (0, 1). vm_compute. discriminate. Qed.

(** * the generated tables *)
Lemma table_types : table_types_ok = true. Proof. vm_compute. reflexivity. Qed.
Lemma supported : supported_ok = true. Proof. vm_compute. reflexivity. Qed.
Lemma dispatched : dispatched_ok = true. Proof. vm_compute. reflexivity. Qed.
Lemma sizes : sizes_ok = true. Proof. vm_compute. reflexivity. Qed.
Lemma declared_kinds : declared_kinds_ok = true. Proof. vm_compute. reflexivity. Qed.

Lemma supported_iff : forall op dt, In op all_ops -> In dt all_dts ->
  accepted op dt = mpi_allows op dt || extension op dt.
Proof.
  intros op dt Ho Hd. pose proof supported as H. unfold supported_ok in H. rewrite forallb_forall in H.
  specialize (H (op, dt)). cbn [fst snd] in H. apply eqb_prop. apply H.
  unfold pairs. apply in_flat_map. exists op. split; [assumption|]. apply in_map. assumption.
Qed.
Lemma dispatched_all : forall op dt, In op all_ops -> In dt all_dts -> accepted op dt = true ->
  match dispatch op dt with
  | Some (c, mac) => aborts op dt = false /\ mac = expected_macro op (ctype_kind c) /\ ctype_kind c <> KOther
  | None => aborts op dt = true
  end.
Proof.
  intros op dt Ho Hd Ha. pose proof dispatched as H. unfold dispatched_ok in H. rewrite forallb_forall in H.
  specialize (H (op, dt)). cbn beta iota in H. rewrite Ha in H.
  assert (Hin : In (op, dt) pairs).
  { unfold pairs. apply in_flat_map. exists op. split; [assumption|]. apply in_map. assumption. }
  specialize (H Hin). destruct (dispatch op dt) as [[c mac]|]; [|assumption].
  apply andb_prop in H. destruct H as [H H3]. apply andb_prop in H. destruct H as [H1 H2].
  repeat split.
  - destruct (aborts op dt); [discriminate|reflexivity].
  - apply String.eqb_eq. assumption.
  - intros E. rewrite E in H3. discriminate.
Qed.
Lemma table_types_all : forall f l dt c mac, In (f, l) func_loops -> In (dt, (c, mac)) l ->
  exists fam, assoc dt dt_decl = Some (c, fam).
Proof.
  intros f l dt c mac Hf Hl. pose proof table_types as H. unfold table_types_ok in H. rewrite forallb_forall in H.
  specialize (H (f, l) Hf). cbn [snd] in H. rewrite forallb_forall in H. specialize (H (dt, (c, mac)) Hl).
  cbn [fst snd] in H. destruct (assoc dt dt_decl) as [[c' fam]|]; [|discriminate].
  apply String.eqb_eq in H. subst. eauto.
Qed.
