(** Proofs about the mmap privatization model (C36). *)
From SGV Require Import Base.Tactics Smpi.Priv.
Local Open Scope Z_scope.

Definition Inv (init : mem) (st : state) (hist : list obs) (c : Z) (ok : bool) : Prop :=
  cur st = c /\ (forall r a, store st r a = own_last hist r a init) /\ (ok = true -> loaded st = Some c).

Lemma switch_seg_props : forall st r,
  cur (switch_seg st r) = cur st /\ store (switch_seg st r) = store st /\ loaded (switch_seg st r) = Some r.
Proof.
  intros st r. unfold switch_seg. destruct (loaded st) as [p|] eqn:E.
  - destruct (p =? r) eqn:Epr.
    + apply Z.eqb_eq in Epr. subst p. auto.
    + cbn. auto.
  - cbn. auto.
Qed.

Lemma run_from_spec : forall init t st hist c ok,
  Inv init st hist c ok -> disc_from ok t = true -> run_from st t = spec_from init hist c t.
Proof.
  intros init. induction t as [|e t IH]; intros st hist c ok HI HD; [reflexivity|].
  destruct HI as [Hc [Hs Hl]].
  destruct e as [r|r|p|a v|a]; cbn [run_from step spec_from disc_from] in *.
  - (* ESwitch *)
    destruct (switch_seg_props (set_cur st r) r) as [P1 [P2 P3]].
    apply (IH _ hist r true); [|exact HD].
    split; [rewrite P1; reflexivity|]. split; [|intros _; exact P3].
    intros r0 a0. rewrite P2. cbn. apply Hs.
  - (* ESkip *)
    apply (IH _ hist r false); [|exact HD].
    split; [reflexivity|]. split; [exact Hs|discriminate].
  - (* EForeign *)
    destruct (switch_seg_props st p) as [P1 [P2 P3]].
    apply (IH _ hist c false); [|exact HD].
    split; [rewrite P1; exact Hc|]. split; [|discriminate].
    intros r0 a0. rewrite P2. apply Hs.
  - (* EWrite *)
    apply andb_true_iff in HD. destruct HD as [Hok HD]. subst ok. specialize (Hl eq_refl).
    apply (IH _ ((c, a, v) :: hist) c true); [|exact HD].
    unfold write_window. rewrite Hl. split; [exact Hc|]. split; [|intros _; reflexivity].
    intros r0 a0. cbn [store own_last]. unfold upd.
    destruct (r0 =? c) eqn:E1.
    + apply Z.eqb_eq in E1. subst r0. rewrite Z.eqb_refl. cbn [andb].
      rewrite (Z.eqb_sym a a0). destruct (a0 =? a); [reflexivity|apply Hs].
    + rewrite (Z.eqb_sym c r0), E1. cbn [andb]. apply Hs.
  - (* ERead *)
    apply andb_true_iff in HD. destruct HD as [Hok HD]. subst ok. specialize (Hl eq_refl).
    unfold window. rewrite Hl, Hc, Hs. f_equal. apply (IH _ hist c true); [|exact HD].
    split; [exact Hc|]. split; [exact Hs|intros _; exact Hl].
Qed.

Theorem read_own_last_write : forall init t, disciplined t = true -> run_impl init t = run_spec init t.
Proof.
  intros init t HD. unfold run_impl, run_spec. apply (run_from_spec init t _ [] (-1) false); [|exact HD].
  split; [reflexivity|]. split; [reflexivity|discriminate].
Qed.


(** other ranks' writes are invisible: the value r reads does not depend on what any other rank wrote *)
Lemma own_last_other : forall hist r' a' v r a init, r' <> r -> own_last ((r', a', v) :: hist) r a init = own_last hist r a init.
Proof. intros. cbn [own_last]. replace (r' =? r) with false by lia. reflexivity. Qed.

Lemma own_last_same : forall hist r a v init, own_last ((r, a, v) :: hist) r a init = v.
Proof. intros. cbn [own_last]. rewrite !Z.eqb_refl. reflexivity. Qed.

Lemma own_last_never : forall hist r a init, (forall v, ~ In (r, a, v) hist) -> own_last hist r a init = init a.
Proof.
  induction hist as [|[[r' a'] v'] h IH]; intros r a init H; [reflexivity|].
  cbn [own_last]. destruct ((r' =? r) && (a' =? a)) eqn:E.
  - exfalso. apply andb_true_iff in E. destruct E as [E1 E2]. apply Z.eqb_eq in E1. apply Z.eqb_eq in E2. subst.
    apply (H v'). left. reflexivity.
  - apply IH. intros v Hin. apply (H v). right. exact Hin.
Qed.

(** the hypothesis is needed: with ONE hook skipped, a rank reads another rank's value *)
Lemma skipped_hook_refuted :
  exists t, run_impl (fun _ => 0) t <> run_spec (fun _ => 0) t /\
            run_impl (fun _ => 0) t = [(0, 1, 20)] /\ run_spec (fun _ => 0) t = [(0, 1, 10)].
Proof.
  exists [ESwitch 0; EWrite 1 10; ESwitch 1; EWrite 1 20; ESkip 0; ERead 1].
  split; [vm_compute; discriminate|split; vm_compute; reflexivity].
Qed.

(** so is "switch back after touching another actor's segment" (copy callback / finish_wait) *)
Lemma foreign_not_restored_refuted :
  exists t, run_impl (fun _ => 0) t = [(0, 1, 20)] /\ run_spec (fun _ => 0) t = [(0, 1, 10)].
Proof.
  exists [ESwitch 1; EWrite 1 20; ESwitch 0; EWrite 1 10; EForeign 1; ERead 1].
  split; vm_compute; reflexivity.
Qed.

Lemma obs_eqb_sound : forall x y, obs_eqb x y = true -> x = y.
Proof.
  induction x as [|[[r a] v] x IH]; intros [|[[r' a'] v'] y] H; cbn in H; try discriminate; [reflexivity|].
  apply andb_true_iff in H. destruct H as [H H4]. apply andb_true_iff in H. destruct H as [H H3].
  apply andb_true_iff in H. destruct H as [H1 H2].
  apply Z.eqb_eq in H1. apply Z.eqb_eq in H2. apply Z.eqb_eq in H3. subst. f_equal. apply IH. exact H4.
Qed.
