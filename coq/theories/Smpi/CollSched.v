(** C29 — collectives as data-oblivious schedules over a commutative monoid.

    A collective algorithm whose control flow depends only on (np, rank, root, counts) performs, whatever the data, the
    same sequence of elementary steps on cells (buffer elements of all ranks, temporaries, messages in flight):
      Copy d s      cell d := cell s                (local copy, send/receive)
      Red d s       cell d := cell d (+) cell s     (op->apply(in, inout))
      Red3 d a b    cell d := cell a (+) cell b
    Cells hold elements of an arbitrary commutative monoid (setoid equality).  The free commutative monoid over
    provenance labels (rank, index) is lists of labels up to permutation. *)
From SGV Require Import Base.Tactics.
From Coq Require Import Permutation.
Local Open Scope Z_scope.

Definition label := (Z * Z)%type.
Definition cell := Z.

Record CMonoid := {
  car : Type;
  eqv : car -> car -> Prop;
  op : car -> car -> car;
  unit : car;
  eqv_refl : forall x, eqv x x;
  eqv_sym : forall x y, eqv x y -> eqv y x;
  eqv_trans : forall x y z, eqv x y -> eqv y z -> eqv x z;
  op_proper : forall x x' y y', eqv x x' -> eqv y y' -> eqv (op x y) (op x' y');
  op_assoc : forall x y z, eqv (op (op x y) z) (op x (op y z));
  op_comm : forall x y, eqv (op x y) (op y x);
  op_unit_l : forall x, eqv (op unit x) x }.

Inductive step := Copy (d s : cell) | Red (d s : cell) | Red3 (d a b : cell).

Definition state (M : CMonoid) := cell -> car M.

Definition upd {M : CMonoid} (st : state M) (d : cell) (x : car M) : state M :=
  fun c => if c =? d then x else st c.

Definition exec {M : CMonoid} (st : state M) (s : step) : state M :=
  match s with
  | Copy d s => upd st d (st s)
  | Red d s => upd st d (op M (st d) (st s))
  | Red3 d a b => upd st d (op M (st a) (st b))
  end.

Definition run_sched {M : CMonoid} (S : list step) (st : state M) : state M := fold_left exec S st.

(** the monoid homomorphism determined by the images of the generators *)
Fixpoint hom (M : CMonoid) (v : label -> car M) (l : list label) : car M :=
  match l with
  | [] => unit M
  | x :: r => op M (v x) (hom M v r)
  end.

(** the free commutative monoid: multisets of labels *)
Definition Free : CMonoid.
Proof.
  refine {| car := list label; eqv := @Permutation label; op := @app label; unit := [] |}.
  - apply Permutation_refl.
  - apply Permutation_sym.
  - apply Permutation_trans.
  - intros; now apply Permutation_app.
  - intros; now rewrite app_assoc.
  - intros; apply Permutation_app_comm.
  - intros; apply Permutation_refl.
Defined.

(** instances used for the direct samples: (Z,+,0), (Z,*,1), (Z,xor,0) with Leibniz equality *)
Definition Zsum : CMonoid.
Proof.
  refine {| car := Z; eqv := @eq Z; op := Z.add; unit := 0 |}; intros; subst; try reflexivity; try lia.
Defined.
Definition Zprod : CMonoid.
Proof.
  refine {| car := Z; eqv := @eq Z; op := Z.mul; unit := 1 |}; intros; subst; try reflexivity; try lia.
Defined.
Definition Zxor : CMonoid.
Proof.
  refine {| car := Z; eqv := @eq Z; op := Z.lxor; unit := 0 |}; intros; subst; try reflexivity;
    first [apply Z.lxor_assoc | apply Z.lxor_comm].
Defined.
(** max and min have no unit in Z: adjoin one (None) *)
Definition omax (a b : option Z) : option Z :=
  match a, b with None, x => x | x, None => x | Some x, Some y => Some (Z.max x y) end.
Definition omin (a b : option Z) : option Z :=
  match a, b with None, x => x | x, None => x | Some x, Some y => Some (Z.min x y) end.
Definition Zmax : CMonoid.
Proof.
  refine {| car := option Z; eqv := @eq (option Z); op := omax; unit := None |}; intros; subst; try reflexivity.
  - destruct x, y, z; cbn; try reflexivity; f_equal; lia.
  - destruct x, y; cbn; try reflexivity; f_equal; lia.
Defined.
Definition Zmin : CMonoid.
Proof.
  refine {| car := option Z; eqv := @eq (option Z); op := omin; unit := None |}; intros; subst; try reflexivity.
  - destruct x, y, z; cbn; try reflexivity; f_equal; lia.
  - destruct x, y; cbn; try reflexivity; f_equal; lia.
Defined.
(** MAXLOC on (value, location): larger value wins, smaller location among equal values *)
Definition maxloc (a b : Z * Z) : Z * Z :=
  if fst b <? fst a then a else if fst a <? fst b then b else (fst a, Z.min (snd a) (snd b)).
Definition omaxloc (a b : option (Z * Z)) : option (Z * Z) :=
  match a, b with None, x => x | x, None => x | Some x, Some y => Some (maxloc x y) end.
Lemma maxloc_assoc : forall a b c, maxloc (maxloc a b) c = maxloc a (maxloc b c).
Proof.
  intros [a1 a2] [b1 b2] [c1 c2]; unfold maxloc; cbn [fst snd].
  destruct (Z.ltb_spec b1 a1), (Z.ltb_spec a1 b1), (Z.ltb_spec c1 b1), (Z.ltb_spec b1 c1); cbn [fst snd];
    try lia;
    destruct (Z.ltb_spec c1 a1), (Z.ltb_spec a1 c1); cbn [fst snd]; try lia; try reflexivity;
    repeat match goal with |- context [?a <? ?b] => destruct (Z.ltb_spec a b); cbn [fst snd] end;
    try lia; try reflexivity; f_equal; lia.
Qed.
Lemma maxloc_comm : forall a b, maxloc a b = maxloc b a.
Proof.
  intros [a1 a2] [b1 b2]; unfold maxloc; cbn [fst snd].
  destruct (Z.ltb_spec b1 a1), (Z.ltb_spec a1 b1); cbn [fst snd]; try lia; try reflexivity; f_equal; lia.
Qed.
Definition Zmaxloc : CMonoid.
Proof.
  refine {| car := option (Z * Z); eqv := @eq (option (Z * Z)); op := omaxloc; unit := None |}; intros; subst; try reflexivity.
  - destruct x, y, z; cbn; try reflexivity; f_equal; apply maxloc_assoc.
  - destruct x, y; cbn; try reflexivity; f_equal; apply maxloc_comm.
Defined.
