(** C35 — private blocks of partially shared buffers (src/smpi/internals/smpi_shared.cpp).
    [shift_orig] is the function as it stood at the pinned commit (size_t arithmetic written as mod 2^64);
    [shift] is the repaired function (fix: commit); [merge] is merge_private_blocks. *)
From SGV Require Import Base.Tactics.
Local Open Scope Z_scope.

Definition W : Z := 2 ^ 64.
Definition wsub (a b : Z) : Z := (a - b) mod W.
Definition clamp (x lo hi : Z) : Z := if x <? lo then lo else if hi <? x then hi else x.

Definition blocks := list (Z * Z).

(* pinned code: std::clamp(block_begin - offset, 0, buff_size) on size_t *)
Definition shift_orig (vec : blocks) (off size : Z) : blocks :=
  flat_map (fun be => let nb := clamp (wsub (fst be) off) 0 size in
                      let ne := clamp (wsub (snd be) off) 0 size in
                      if (0 <? ne) && (nb <? size) then [(nb, ne)] else []) vec.

(* repaired code: no unsigned underflow *)
Definition rel (p off size : Z) : Z := if off <? p then Z.min (p - off) size else 0.
Definition shift (vec : blocks) (off size : Z) : blocks :=
  flat_map (fun be => let nb := rel (fst be) off size in
                      let ne := rel (snd be) off size in
                      if (0 <? ne) && (nb <? size) then [(nb, ne)] else []) vec.

(* merge_private_blocks: two indices walking two sorted lists; fuel = total length *)
Fixpoint merge_fuel (n : nat) (s d : blocks) : blocks :=
  match n with
  | O => []
  | S n' =>
    match s, d with
    | (sb, se) :: s', (db, de) :: d' =>
      if se <=? db then merge_fuel n' s' d
      else if de <=? sb then merge_fuel n' s d'
      else (Z.max sb db, Z.min se de) ::
           (if se <? de then merge_fuel n' s' d else merge_fuel n' s d')
    | _, _ => []
    end
  end.
Definition merge (s d : blocks) : blocks := merge_fuel (length s + length d) s d.

(** the bytes a block list denotes *)
Definition covered (l : blocks) (x : Z) : Prop := exists b e, In (b, e) l /\ b <= x < e.
Definition covered_b (l : blocks) (x : Z) : bool := existsb (fun be => (fst be <=? x) && (x <? snd be)) l.

(** what the copy callback copies: framed source blocks ∩ framed destination blocks *)
Definition copied (src dst : blocks) (soff doff size : Z) : blocks :=
  merge (shift src soff size) (shift dst doff size).

(* sorted, pairwise disjoint, non-empty blocks: what shared_malloc builds *)
Inductive sorted : blocks -> Prop :=
| sorted_nil : sorted []
| sorted_cons b e l : b < e -> (forall b' e', In (b', e') l -> e <= b') -> sorted l -> sorted ((b, e) :: l).

(* smpi_shared_malloc_partial: the private blocks are the complement of the shared blocks inside [0,size) *)
Fixpoint priv_from (cur size : Z) (shared : blocks) : blocks :=
  match shared with
  | [] => if cur <? size then [(cur, size)] else []
  | (b, e) :: r => (if cur <? b then [(cur, b)] else []) ++ priv_from e size r
  end.
Definition priv_blocks (size : Z) (shared : blocks) : blocks := priv_from 0 size shared.

(* an MPI transfer between two partially shared allocations: what must arrive *)
Definition e2e (ssize : Z) (sshared : blocks) (dsize : Z) (dshared : blocks) (soff doff size : Z) : blocks :=
  copied (priv_blocks ssize sshared) (priv_blocks dsize dshared) soff doff size.

(** executable entry points for the driver.  input: off size n b1 e1 ... bn en *)
Definition run_c35_shift (inp : list Z) : list Z :=
  match inp with
  | off :: size :: n :: r => flat_pairs (shift (fst (take_pairs (Z.to_nat n) r)) off size)
  | _ => [-1]
  end.
Definition run_c35_shift_orig (inp : list Z) : list Z :=
  match inp with
  | off :: size :: n :: r => flat_pairs (shift_orig (fst (take_pairs (Z.to_nat n) r)) off size)
  | _ => [-1]
  end.
(* input: ns s... nd d... *)
Definition run_c35_merge (inp : list Z) : list Z :=
  match inp with
  | ns :: r => let '(s, r1) := take_pairs (Z.to_nat ns) r in
               match r1 with
               | nd :: r2 => flat_pairs (merge s (fst (take_pairs (Z.to_nat nd) r2)))
               | _ => [-1]
               end
  | _ => [-1]
  end.
(* input: soff doff size ns s... nd d...  -> the private bytes (as blocks) that must be copied *)
Definition run_c35_copied (inp : list Z) : list Z :=
  match inp with
  | soff :: doff :: size :: ns :: r =>
      let '(s, r1) := take_pairs (Z.to_nat ns) r in
      match r1 with
      | nd :: r2 => flat_pairs (copied s (fst (take_pairs (Z.to_nat nd) r2)) soff doff size)
      | _ => [-1]
      end
  | _ => [-1]
  end.

(* input: soff doff size ssize ns sshared... dsize nd dshared... *)
Definition run_c35_e2e (inp : list Z) : list Z :=
  match inp with
  | soff :: doff :: size :: ssize :: ns :: r =>
      let '(s, r1) := take_pairs (Z.to_nat ns) r in
      match r1 with
      | dsize :: nd :: r2 => flat_pairs (e2e ssize s dsize (fst (take_pairs (Z.to_nat nd) r2)) soff doff size)
      | _ => [-1]
      end
  | _ => [-1]
  end.
