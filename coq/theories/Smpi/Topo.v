(** C33 — Cartesian topologies (src/smpi/mpi/smpi_topo.cpp).  Model only (no proofs).
    [int] arithmetic is written with [Z.quot]/[Z.rem] (C truncation); overflow of [int] is not modelled
    (the property bounds the number of nodes by 64; the theorems assume nothing about sizes).
    Functions suffixed [_orig] mirror the code as pinned; the others the repaired code (fix: commits). *)
From SGV Require Import Base.Tactics.
Local Open Scope Z_scope.

Definition PROC_NULL : Z := -1000.          (* protocol encoding of MPI_PROC_NULL *)

Fixpoint prodl (l : list Z) : Z := match l with [] => 1 | d :: r => d * prodl r end.

(** Topo_Cart::coords, and the same loop in the constructor (position_) *)
Fixpoint coords (nn : Z) (dims : list Z) (r : Z) : list Z :=
  match dims with
  | [] => []
  | d :: ds => let nn' := Z.quot nn d in Z.quot r nn' :: coords nn' ds (Z.rem r nn')
  end.

(** Topo_Cart::rank: one coordinate *)
Definition fix_coord (d : Z) (p : bool) (c : Z) : option Z :=
  if d <=? c then (if p then Some (Z.rem c d) else None)
  else if c <? 0 then
    (if p then let c' := Z.rem c d in Some (if c' =? 0 then c' else d + c') else None)
  else Some c.

(* the loop runs from the last dimension to the first with a growing multiplier: the recursion returns
   (rank of the tail, multiplier of the tail) *)
Fixpoint rank_aux (dims : list Z) (pers : list bool) (cs : list Z) : option (Z * Z) :=
  match dims, pers, cs with
  | d :: ds, p :: ps, c :: cs' =>
      match rank_aux ds ps cs' with
      | None => None
      | Some (r, m) =>
          match fix_coord d p c with None => None | Some c' => Some (r + m * c', m * d) end
      end
  | _, _, _ => Some (0, 1)
  end.
Definition rank (dims : list Z) (pers : list bool) (cs : list Z) : option Z :=
  option_map fst (rank_aux dims pers cs).
Definition rank_or_err dims pers cs : Z := match rank dims pers cs with Some r => r | None => -1 end.

Record cart := { c_nn : Z; c_dims : list Z; c_pers : list bool; c_pos : list Z }.

(* the constructor, seen from the process of rank [myrank] of the communicator it is built from.
   None: the early return (rank >= newSize): MPI_COMM_NULL / members left uninitialised *)
Definition cart_create (dims : list Z) (pers : list bool) (myrank : Z) : option cart :=
  let nn := prodl dims in
  if nn <=? myrank then None
  else Some {| c_nn := nn; c_dims := dims; c_pers := pers; c_pos := coords nn dims myrank |}.
Definition cart_uninit (n : nat) : cart :=
  {| c_nn := 0; c_dims := repeat 0 n; c_pers := repeat false n; c_pos := repeat 0 n |}.

Fixpoint upd (k : nat) (x : Z) (l : list Z) : list Z :=
  match l with
  | [] => []
  | a :: r => match k with O => x :: r | S k' => a :: upd k' x r end
  end.

(** Topo_Cart::shift, one of the two halves: coordinate [k] of [position] is set to [x] *)
Definition shift_to (t : cart) (position : list Z) (k : nat) (x : Z) : Z :=
  let d := nth k (c_dims t) 0 in
  if (x <? 0) || (d <=? x) then
    if nth k (c_pers t) false
    then rank_or_err (c_dims t) (c_pers t) (upd k (Z.rem x d) position)
    else PROC_NULL
  else rank_or_err (c_dims t) (c_pers t) (upd k x position).

(* (source, dest); None = an error code *)
Definition shift (t : cart) (myrank : Z) (k : nat) (disp : Z) : option (Z * Z) :=
  let nd := length (c_dims t) in
  if (nd =? 0)%nat then None
  else if (nd <? k)%nat then None
  else
    let position := coords (c_nn t) (c_dims t) myrank in
    let dest := shift_to t position k (nth k position 0 + disp) in
    let src := shift_to t position k (nth k (c_pos t) 0 - disp) in
    Some (src, dest).

(** Cart_sub *)
Fixpoint select {A : Type} (rem : list bool) (l : list A) : list A :=
  match rem, l with
  | b :: r, x :: l' => if b then x :: select r l' else select r l'
  | _, _ => []
  end.
Fixpoint color_of (acc : Z) (rem : list bool) (dims pos : list Z) : Z :=
  match rem, dims, pos with
  | b :: r, d :: ds, p :: ps => color_of (if b then acc else acc * d + p) r ds ps
  | _, _, _ => acc
  end.

Definition zseq (n : Z) : list Z := map Z.of_nat (seq 0 (Z.to_nat n)).
Definition cnt (f : Z -> bool) (n : Z) : Z := Z.of_nat (length (filter f (zseq n))).

(* colour of the process of rank r of a cart communicator built by cart_create *)
Definition colr (dims : list Z) (rem : list bool) (r : Z) : Z :=
  color_of 0 rem dims (coords (prodl dims) dims r).
Definition same (dims : list Z) (rem : list bool) (r0 : Z) : Z -> bool :=
  fun r' => colr dims rem r' =? colr dims rem r0.
(* Comm::split(color, key = old rank): members of one colour ordered by old rank *)
Definition sub_rank (dims : list Z) (rem : list bool) (r : Z) : Z := cnt (same dims rem r) r.
Definition sub_size (dims : list Z) (rem : list bool) (r : Z) : Z := cnt (same dims rem r) (prodl dims).

(* repaired code: every process gets the topology built from ITS rank in the NEW communicator
   (also when no dimension is kept: a zero-dimensional communicator of one process) *)
Definition sub (dims : list Z) (pers : list bool) (rem : list bool) (r : Z) : option cart :=
  match cart_create (select rem dims) (select rem pers) (sub_rank dims rem r) with
  | Some t => Some t
  | None => Some (cart_uninit (length (select rem dims)))
  end.
(* pinned code: built from the OLD communicator (its rank r); with no kept dimension only rank 0 gets a communicator *)
Definition sub_orig (dims : list Z) (pers : list bool) (rem : list bool) (r : Z) : option cart :=
  match select rem dims with
  | [] => if r =? 0 then Some {| c_nn := 0; c_dims := []; c_pers := []; c_pos := [] |} else None
  | nd => match cart_create nd (select rem pers) r with
          | Some t => Some t
          | None => Some (cart_uninit (length nd))
          end
  end.

(** Dims_create *)
Inductive dc_res := DC_ok (l : list Z) | DC_err | DC_fuel.

(* while (num % 2 == 0) { num /= 2; push 2 } *)
Fixpoint divs (fuel : nat) (num d : Z) (acc : list Z) : option (Z * list Z) :=
  match fuel with
  | O => None
  | S f => if Z.rem num d =? 0 then divs f (Z.quot num d) d (acc ++ [d]) else Some (num, acc)
  end.
(* while (num > 1 && d*d < num) { inner loop; d += 2 } *)
Fixpoint odds (fuel : nat) (num d : Z) (acc : list Z) : option (Z * list Z) :=
  match fuel with
  | O => None
  | S f =>
      if (1 <? num) && (d * d <? num) then
        match divs (Z.to_nat num) num d acc with
        | None => None
        | Some (num', acc') => odds f num' (d + 2) acc'
        end
      else Some (num, acc)
  end.
Definition getfactors (num : Z) : option (list Z) :=
  if num <? 2 then Some []
  else match divs (Z.to_nat num) num 2 [] with
       | None => None
       | Some (n1, a1) =>
           match odds (Z.to_nat n1) n1 3 a1 with
           | None => None
           | Some (n2, a2) => Some (if n2 =? 1 then a2 else a2 ++ [n2])
           end
       end.

(* *std::min_element(bins) *= f : the first minimum *)
Fixpoint minl (l : list Z) : Z := match l with [] => 0 | [a] => a | a :: r => Z.min a (minl r) end.
Fixpoint mul_first (m f : Z) (l : list Z) : list Z :=
  match l with [] => [] | a :: r => if a =? m then a * f :: r else a :: mul_first m f r end.
Fixpoint insert_desc (x : Z) (l : list Z) : list Z :=
  match l with [] => [x] | a :: r => if a <=? x then x :: l else a :: insert_desc x r end.
Definition sort_desc (l : list Z) : list Z := fold_right insert_desc [] l.
Definition assignnodes (ndim : nat) (factors : list Z) : list Z :=
  sort_desc (fold_left (fun bins f => mul_first (minl bins) f bins) (rev factors) (repeat 1 ndim)).

(* first loop; [fixed] = divisibility is tested on what is left (repaired) / on nnodes (pinned) *)
Fixpoint dc_scan (fixed : bool) (nnodes : Z) (dims : list Z) (freeprocs : Z) (freedims : nat) : option (Z * nat) :=
  match dims with
  | [] => Some (freeprocs, freedims)
  | d :: r =>
      if d =? 0 then dc_scan fixed nnodes r freeprocs (S freedims)
      else if (d <? 0) || negb (Z.rem (if fixed then freeprocs else nnodes) d =? 0) then None
      else dc_scan fixed nnodes r (Z.quot freeprocs d) freedims
  end.
Fixpoint fill (dims procs : list Z) : list Z :=
  match dims with
  | [] => []
  | d :: r => if d =? 0 then match procs with p :: ps => p :: fill r ps | [] => 0 :: fill r [] end
              else d :: fill r procs
  end.
Definition dims_create_gen (fixed : bool) (nnodes : Z) (dims : list Z) : dc_res :=
  match dc_scan fixed nnodes dims nnodes 0 with
  | None => DC_err
  | Some (freeprocs, freedims) =>
      match freedims with
      | O => if freeprocs =? 1 then DC_ok dims else DC_err
      | _ =>
          if freeprocs =? 1 then DC_ok (map (fun d => if d =? 0 then 1 else d) dims)
          else match getfactors freeprocs with
               | None => DC_fuel
               | Some factors => DC_ok (fill dims (assignnodes freedims factors))
               end
      end
  end.
Definition dims_create := dims_create_gen true.
Definition dims_create_orig := dims_create_gen false.

(** specification-side helpers *)
Fixpoint lin (dims cs : list Z) : Z :=
  match dims, cs with d :: ds, c :: cs' => c * prodl ds + lin ds cs' | _, _ => 0 end.
(* MPI: coordinates of periodic dimensions are taken modulo the extent; others must be in range *)
Fixpoint norm (dims : list Z) (pers : list bool) (cs : list Z) : option (list Z) :=
  match dims, pers, cs with
  | d :: ds, p :: ps, c :: cs' =>
      match norm ds ps cs' with
      | None => None
      | Some l => if p then Some (c mod d :: l) else if (0 <=? c) && (c <? d) then Some (c :: l) else None
      end
  | _, _, _ => Some []
  end.
Fixpoint inrange (dims cs : list Z) : Prop :=
  match dims, cs with
  | d :: ds, c :: cs' => 0 <= c < d /\ inrange ds cs'
  | [], [] => True
  | _, _ => False
  end.
Fixpoint allpos (dims : list Z) : Prop := match dims with [] => True | d :: ds => 0 < d /\ allpos ds end.

(** executable entry points.  input: nd d1..dn p1..pn r1..rn nq q.. *)
Definition bz (b : bool) : Z := if b then 1 else 0.
Definition zb (z : Z) : bool := negb (z =? 0).
Record case := { k_dims : list Z; k_pers : list bool; k_rem : list bool; k_q : list Z }.
Definition decode (inp : list Z) : case :=
  match inp with
  | nd :: r =>
      let n := Z.to_nat nd in
      let '(ds, r1) := take_n n r in
      let '(ps, r2) := take_n n r1 in
      let '(rs, r3) := take_n n r2 in
      {| k_dims := ds; k_pers := map zb ps; k_rem := map zb rs; k_q := tl r3 |}
  | [] => {| k_dims := []; k_pers := []; k_rem := []; k_q := [] |}
  end.

Definition run_c33_coords (inp : list Z) : list Z :=
  let c := decode inp in
  let nn := prodl (k_dims c) in
  flat_map (fun r => match cart_create (k_dims c) (k_pers c) r with
                     | None => [-1]
                     | Some t => c_pos t ++ coords (c_nn t) (c_dims t) r ++
                                 match rank (c_dims t) (c_pers t) (coords (c_nn t) (c_dims t) r) with
                                 | Some x => [0; x] | None => [1; -1] end
                     end) (zseq nn).

Definition disps (d : Z) : list Z := map (fun i => i - 2 * d) (zseq (4 * d + 1)).
Definition run_c33_shift (inp : list Z) : list Z :=
  let c := decode inp in
  let nn := prodl (k_dims c) in
  flat_map (fun r =>
    match cart_create (k_dims c) (k_pers c) r with
    | None => [-1]
    | Some t =>
        flat_map (fun k => flat_map (fun disp => match shift t r k disp with
                                                 | Some (s, d) => [s; d] | None => [-2000; -2000] end)
                                    (disps (nth k (k_dims c) 0)))
                 (seq 0 (length (k_dims c)))
    end) (zseq nn).

Fixpoint chunks (fuel : nat) (n : nat) (l : list Z) : list (list Z) :=
  match fuel with
  | O => []
  | S f => match l with [] => [] | _ => let '(a, r) := take_n n l in a :: chunks f n r end
  end.
Definition run_c33_rankq (inp : list Z) : list Z :=
  let c := decode inp in
  let n := length (k_dims c) in
  flat_map (fun q => match rank (k_dims c) (k_pers c) q with Some x => [0; x] | None => [1; -1] end)
           (match n with O => [] | _ => chunks (length (k_q c)) n (k_q c) end).

Definition sub_out (dims : list Z) (rem : list bool) (r : Z) (o : option cart) : list Z :=
  match o with
  | None => [0]
  | Some t => [1; sub_rank dims rem r; sub_size dims rem r; Z.of_nat (length (c_dims t))] ++
              c_dims t ++ map bz (c_pers t) ++ c_pos t
  end.
Definition run_c33_sub (inp : list Z) : list Z :=
  let c := decode inp in
  flat_map (fun r => sub_out (k_dims c) (k_rem c) r (sub (k_dims c) (k_pers c) (k_rem c) r)) (zseq (prodl (k_dims c))).
Definition run_c33_sub_orig (inp : list Z) : list Z :=
  let c := decode inp in
  flat_map (fun r => sub_out (k_dims c) (k_rem c) r (sub_orig (k_dims c) (k_pers c) (k_rem c) r)) (zseq (prodl (k_dims c))).

(* input: nnodes nd d1..dn   output: rc dims   (rc 0 ok, 1 error, 2 fuel) *)
Definition dc_out (r : dc_res) : list Z :=
  match r with DC_ok l => 0 :: l | DC_err => [1] | DC_fuel => [2] end.
Definition run_c33_dims (inp : list Z) : list Z :=
  match inp with
  | nnodes :: nd :: r => dc_out (dims_create nnodes (fst (take_n (Z.to_nat nd) r)))
  | _ => [-1]
  end.
Definition run_c33_dims_orig (inp : list Z) : list Z :=
  match inp with
  | nnodes :: nd :: r => dc_out (dims_create_orig nnodes (fst (take_n (Z.to_nat nd) r)))
  | _ => [-1]
  end.
