Require Import ExtrOcamlBasic.
Require Import SGV.Kernel.AddrOrder.
Extraction "c01_model.ml" run_c01_iter run_c01_kill.
