Require Import ExtrOcamlBasic.
Require Import SGV.Res.Energy.
Extraction "c23_model.ml" run_c23_host run_c23_link.
