Require Import ExtrOcamlBasic.
Require Import SGV.Kernel.Restart.
Extraction "c11_model.ml" run_c11_restart.
