Require Import ExtrOcamlBasic.
Require Import SGV.Kernel.MQueue.
Extraction "c09_model.ml" run_c09 run_c09_oracle run_c09x run_c09x_oracle.
