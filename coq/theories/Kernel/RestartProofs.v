(** Proofs about SGV.Kernel.Restart (auto-restart after host reboot and on_exit lists), for every history of kernel events. *)
From SGV Require Import Base.Tactics Kernel.Restart.
Local Open Scope Z_scope.

(* a living actor points to the vector its own constructor allocated (named by its pid); a dead one to nothing *)
Definition owns (a : actor) := a_list a = if a_alive a then Some (a_pid a) else None.
Definition wf (s : kstate) :=
  Forall (fun a => a_pid a < next_pid s /\ owns a) (actors s) /\ NoDup (map a_pid (actors s)).
(* what the log tells about the end of every actor *)
Definition told (s : kstate) :=
  (forall a, In a (actors s) ->
     exits (a_pid a) (log s) = if a_alive a then [] else map (fun c => (c, a_end a)) (lookup (a_pid a) (heap s)))
  /\ (forall p, next_pid s <= p -> exits p (log s) = []).
Definition inv (s : kstate) := wf s /\ told s.
Definition core (a : actor) := (a_pid a, a_alive a, a_list a, a_end a).

Lemma exits_app p l1 l2 : exits p (l1 ++ l2) = exits p l1 ++ exits p l2.
Proof.
  induction l1 as [|e l1 IH]; [reflexivity|].
  destruct e as [? ? ? ?|q c d|? ?]; cbn; try apply IH.
  destruct (q =? p); cbn; now rewrite IH.
Qed.

Lemma exits_cbs p q d cbs :
  exits p (map (fun c => EExit q c d) cbs) = if q =? p then map (fun c => (c, d)) cbs else [].
Proof.
  induction cbs as [|c r IH]; cbn; [now destruct (q =? p)|].
  rewrite IH. now destruct (q =? p).
Qed.

Lemma get_actor_some p l a : get_actor p l = Some a -> In a l /\ a_pid a = p.
Proof.
  unfold get_actor. intros H. apply find_some in H. destruct H as [H1 H2]. split; [assumption|lia].
Qed.

Lemma pid_unique l a b : NoDup (map a_pid l) -> In a l -> In b l -> a_pid a = a_pid b -> a = b.
Proof.
  induction l as [|x l IH]; cbn; intros ND Ha Hb E; [contradiction|].
  inversion ND as [|? ? Hn Hd]; subst.
  destruct Ha as [->|Ha], Hb as [->|Hb]; auto.
  - exfalso. apply Hn. rewrite E. now apply in_map.
  - exfalso. apply Hn. rewrite <- E. now apply in_map.
Qed.

Lemma in_upd a' p f l : In a' (upd_actor p f l) -> exists a, In a l /\ a' = if a_pid a =? p then f a else a.
Proof. unfold upd_actor. intros H. apply in_map_iff in H. destruct H as [a [E H]]. exists a. auto. Qed.

Lemma pids_upd p f l : (forall a, a_pid (f a) = a_pid a) -> map a_pid (upd_actor p f l) = map a_pid l.
Proof. intros Hf. unfold upd_actor. rewrite map_map. apply map_ext. intros a. destruct (a_pid a =? p); auto. Qed.

Lemma cores_upd p f l : (forall a, core (f a) = core a) -> map core (upd_actor p f l) = map core l.
Proof. intros Hf. unfold upd_actor. rewrite map_map. apply map_ext. intros a. destruct (a_pid a =? p); auto. Qed.

Lemma pids_core l : map a_pid l = map (fun c => fst (fst (fst c))) (map core l).
Proof. rewrite map_map. reflexivity. Qed.

Lemma core_back l l' a' : map core l' = map core l -> In a' l' -> exists a, In a l /\ core a = core a'.
Proof.
  intros E H. apply (in_map core) in H. rewrite E in H. apply in_map_iff in H. destruct H as [a [E1 H]]. eauto.
Qed.

(* the invariant only reads pid, alive, list and end of the actors, the next pid, the heap and the log *)
Lemma inv_ext s s' :
  next_pid s' = next_pid s -> heap s' = heap s -> log s' = log s -> map core (actors s') = map core (actors s) ->
  inv s -> inv s'.
Proof.
  intros En Eh El Ec [[Hf Hnd] [Ht1 Ht2]]. split; split.
  - apply Forall_forall. intros a' Ha'. destruct (core_back _ _ _ Ec Ha') as [a [Ha Eco]].
    rewrite Forall_forall in Hf. specialize (Hf a Ha). unfold core in Eco. injection Eco as E1 E2 E3 E4.
    unfold owns in *. rewrite En, <- E1, <- E2, <- E3. exact Hf.
  - rewrite pids_core, Ec, <- pids_core. exact Hnd.
  - intros a' Ha'. destruct (core_back _ _ _ Ec Ha') as [a [Ha Eco]].
    specialize (Ht1 a Ha). unfold core in Eco. injection Eco as E1 E2 E3 E4.
    rewrite El, Eh, <- E1, <- E2, <- E4. exact Ht1.
  - intros p Hp. rewrite El. apply Ht2. lia.
Qed.

Lemma kend_inv s p : inv s -> inv (kend s p).
Proof.
  intros Hi. unfold kend. destruct (get_actor p (actors s)) as [a0|] eqn:Eg; [|exact Hi].
  destruct (a_alive a0) eqn:Eal; [|exact Hi].
  destruct (get_actor_some _ _ _ Eg) as [Hin0 Ep0].
  destruct Hi as [[Hf Hnd] [Ht1 Ht2]].
  assert (Hown0 : a_list a0 = Some p).
  { rewrite Forall_forall in Hf. destruct (Hf a0 Hin0) as [_ Ho]. unfold owns in Ho. rewrite Eal, Ep0 in Ho. exact Ho. }
  assert (Hlt0 : p < next_pid s).
  { rewrite Forall_forall in Hf. destruct (Hf a0 Hin0) as [Hl _]. lia. }
  rewrite Hown0. split; split; cbn [actors next_pid log heap].
  - apply Forall_forall. intros a' Ha'. destruct (in_upd _ _ _ _ Ha') as [a [Ha ->]].
    rewrite Forall_forall in Hf. specialize (Hf a Ha). destruct (a_pid a =? p); [|exact Hf].
    unfold owns, dead_at in *. cbn. split; [tauto|reflexivity].
  - rewrite pids_upd; [exact Hnd|reflexivity].
  - intros a' Ha'. destruct (in_upd _ _ _ _ Ha') as [a [Ha ->]].
    destruct (a_pid a =? p) eqn:Epp.
    + assert (a = a0) by (apply (pid_unique (actors s)); auto; lia). subst a.
      cbn [exits]. rewrite exits_app, exits_cbs. cbn [dead_at a_pid a_alive a_end].
      replace (p =? a_pid a0) with true by lia.
      specialize (Ht1 a0 Hin0). rewrite Eal in Ht1. rewrite Ht1, app_nil_r. rewrite Ep0. reflexivity.
    + cbn [exits]. rewrite exits_app, exits_cbs. replace (p =? a_pid a) with false by lia. cbn [app].
      exact (Ht1 a Ha).
  - intros q Hq. cbn [exits]. rewrite exits_app, exits_cbs. replace (p =? q) with false by lia. cbn [app].
    apply Ht2. exact Hq.
Qed.

Lemma fold_kend_inv ps : forall s, inv s -> inv (fold_left kend ps s).
Proof. induction ps as [|p ps IH]; cbn; intros s Hi; [exact Hi|]. apply IH. now apply kend_inv. Qed.

Lemma nodup_snoc (l : list Z) x : NoDup l -> ~ In x l -> NoDup (l ++ [x]).
Proof.
  induction l as [|y l IH]; cbn; intros ND Hn.
  - constructor; [intros []|constructor].
  - inversion ND as [|? ? Hy Hd]; subst. constructor.
    + intro Hin. apply in_app_or in Hin. destruct Hin as [Hin|[E|[]]]; [contradiction|]. subst. apply Hn. now left.
    + apply IH; auto.
Qed.

Lemma lookup_store k k' v h : lookup k (store k' v h) = if k' =? k then v else lookup k h.
Proof. reflexivity. Qed.

Lemma create_plain_inv s h code : inv s -> inv (create_plain s h code).
Proof.
  intros [[Hf Hnd] [Ht1 Ht2]]. unfold create_plain. destruct (host_is_on h s); split; split; cbn [actors next_pid log heap].
  - apply Forall_app. split.
    + eapply Forall_impl; [|exact Hf]. cbn. intros a [H1 H2]. split; [lia|exact H2].
    + constructor; [|constructor]. cbn. split; [lia|reflexivity].
  - rewrite map_app. cbn. apply nodup_snoc.
    + exact Hnd.
    + intros Hin. apply in_map_iff in Hin. destruct Hin as [a [E Ha]]. rewrite Forall_forall in Hf.
      destruct (Hf a Ha). lia.
  - intros a Ha. apply in_app_or in Ha. cbn [exits]. destruct Ha as [Ha|[<-|[]]].
    + rewrite lookup_store. rewrite Forall_forall in Hf. destruct (Hf a Ha) as [Hl _].
      replace (next_pid s =? a_pid a) with false by lia. exact (Ht1 a Ha).
    + cbn. apply Ht2. lia.
  - intros p Hp. cbn [exits]. apply Ht2. lia.
  - eapply Forall_impl; [|exact Hf]. cbn. intros a [H1 H2]. split; [lia|exact H2].
  - exact Hnd.
  - exact Ht1.
  - intros p Hp. apply Ht2. lia.
Qed.

Lemma set_kill_inv s p t : inv s -> inv (set_kill s p t).
Proof.
  intros Hi. unfold set_kill. destruct (t <=? now s); [exact Hi|].
  eapply inv_ext; [..|exact Hi]; try reflexivity. cbn. apply cores_upd. reflexivity.
Qed.

Lemma set_auto_inv s p b : inv s -> inv (set_actors s (upd_actor p (with_auto b) (actors s))).
Proof. intros Hi. eapply inv_ext; [..|exact Hi]; try reflexivity. cbn. apply cores_upd. reflexivity. Qed.

Lemma set_hosts_inv s l : inv s -> inv (set_hosts s l).
Proof. intros Hi. eapply inv_ext; [..|exact Hi]; reflexivity. Qed.

(* writing into the vector of a living actor changes nothing about the dead *)
Lemma store_alive_inv s p v a0 :
  inv s -> In a0 (actors s) -> a_pid a0 = p -> a_alive a0 = true -> inv (set_heap s (store p v (heap s))).
Proof.
  intros [[Hf Hnd] [Ht1 Ht2]] Hin0 Ep0 Eal. split; split; cbn [actors next_pid log heap set_heap]; auto.
  intros a Ha. rewrite (Ht1 a Ha). destruct (a_alive a) eqn:Ea; [reflexivity|].
  rewrite lookup_store. destruct (p =? a_pid a) eqn:Epp; [|reflexivity].
  assert (a = a0) by (apply (pid_unique (actors s)); auto; lia). subst a. congruence.
Qed.

Lemma create_plain_new s h code :
  host_is_on h s = true ->
  In (mkA (next_pid s) h code true (Some (next_pid s)) false 0 0) (actors (create_plain s h code)) /\
  next_pid (create_plain s h code) = next_pid s + 1.
Proof. intros E. unfold create_plain. rewrite E. cbn. split; [|reflexivity]. apply in_or_app. right. now left. Qed.

Lemma create_arg_inv s g : inv s -> inv (create_arg false s g).
Proof.
  intros Hi. unfold create_arg. pose proof (create_plain_inv s (g_host g) (g_code g) Hi) as H1.
  destruct (host_is_on (g_host g) s) eqn:Eon; [|exact H1].
  destruct (create_plain_new s (g_host g) (g_code g) Eon) as [Hnew _].
  set (s1 := create_plain s (g_host g) (g_code g)) in *.
  assert (H2 : inv (match g_list g with
                    | Some o => set_heap s1 (store (next_pid s) (lookup o (heap s1)) (heap s1))
                    | None => s1 end)).
  { destruct (g_list g) as [o|]; [|exact H1]. eapply store_alive_inv; [exact H1|exact Hnew|reflexivity|reflexivity]. }
  set (s2 := match g_list g with Some o => _ | None => s1 end) in *.
  assert (H3 : inv (if g_kill g >=? 0 then set_kill s2 (next_pid s) (g_kill g) else s2)).
  { destruct (g_kill g >=? 0); [now apply set_kill_inv|exact H2]. }
  destruct (g_auto g); [now apply set_auto_inv|exact H3].
Qed.

Lemma fold_create_arg_inv gs : forall s, inv s -> inv (fold_left (create_arg false) gs s).
Proof. induction gs as [|g gs IH]; cbn; intros s Hi; [exact Hi|]. apply IH. now apply create_arg_inv. Qed.

Lemma owner_of_list s p a addr :
  inv s -> get_actor p (actors s) = Some a -> a_list a = Some addr -> In a (actors s) /\ a_pid a = p /\ a_alive a = true /\ addr = p.
Proof.
  intros [[Hf _] _] Eg El. destruct (get_actor_some _ _ _ Eg) as [Hin Ep].
  rewrite Forall_forall in Hf. destruct (Hf a Hin) as [_ Ho]. unfold owns in Ho. rewrite El in Ho.
  destruct (a_alive a); [|discriminate]. injection Ho as Ho. repeat split; auto. lia.
Qed.

Lemma kstep_inv s e : inv s -> inv (kstep false s e).
Proof.
  intros Hi. destruct e as [t|h code|h code auto kill|p tag|p t|p|p|h|h]; cbn [kstep].
  - eapply inv_ext; [..|exact Hi]; reflexivity.
  - now apply create_plain_inv.
  - apply create_arg_inv. now apply set_hosts_inv.
  - destruct (get_actor p (actors s)) as [a|] eqn:Eg; [|exact Hi].
    destruct (a_list a) as [addr|] eqn:El; [|exact Hi].
    destruct (owner_of_list _ _ _ _ Hi Eg El) as [Hin [Ep [Eal ->]]].
    eapply store_alive_inv; eauto.
  - destruct (get_actor p (actors s)) as [a|]; [|exact Hi]. destruct (a_alive a); [|exact Hi]. now apply set_kill_inv.
  - destruct (get_actor p (actors s)) as [a|]; [|exact Hi]. destruct (a_alive a && negb (a_auto a)); [|exact Hi].
    apply set_hosts_inv. now apply set_auto_inv.
  - now apply kend_inv.
  - destruct (host_is_on h s); [|exact Hi]. apply set_hosts_inv. apply fold_kend_inv. now apply set_hosts_inv.
  - destruct (get_host h (hosts s)) as [x|]; [|exact Hi]. destruct (h_on x); [exact Hi|].
    apply fold_create_arg_inv. now apply set_hosts_inv.
Qed.

Lemma krun_inv evs : forall s, inv s -> inv (krun false s evs).
Proof. unfold krun. induction evs as [|e evs IH]; cbn; intros s Hi; [exact Hi|]. apply IH. now apply kstep_inv. Qed.

Lemma kinit_inv nh : inv (kinit nh).
Proof.
  split; split; cbn.
  - constructor.
  - constructor.
  - intros a [].
  - reflexivity.
Qed.

Definition reachable (s : kstate) := exists nh evs, s = krun false (kinit nh) evs.

Lemma reachable_inv s : reachable s -> inv s.
Proof. intros [nh [evs ->]]. apply krun_inv. apply kinit_inv. Qed.

Lemma reachable_step s e : reachable s -> reachable (kstep false s e).
Proof.
  intros [nh [evs ->]]. exists nh, (evs ++ [e]). unfold krun. rewrite fold_left_app. reflexivity.
Qed.

(** what every history tells: the callbacks of an actor run only at its end, all at the date of the end, each once, the
    most recently registered first; nothing about actors that are alive or were never created *)
Lemma restart_exits s a :
  reachable s -> In a (actors s) ->
  rev (exits (a_pid a) (log s)) =
    if a_alive a then [] else map (fun c => (c, a_end a)) (rev (lookup (a_pid a) (heap s))).
Proof.
  intros Hr Ha. destruct (reachable_inv _ Hr) as [_ [Ht1 _]]. rewrite (Ht1 a Ha).
  destruct (a_alive a); [reflexivity|]. now rewrite map_rev.
Qed.

Lemma restart_no_exit_of_unborn s p : reachable s -> next_pid s <= p -> exits p (log s) = [].
Proof. intros Hr Hp. destruct (reachable_inv _ Hr) as [_ [_ Ht2]]. now apply Ht2. Qed.

Lemma restart_no_sharing s :
  reachable s ->
  NoDup (map a_pid (actors s)) /\
  forall a, In a (actors s) -> a_list a = if a_alive a then Some (a_pid a) else None.
Proof.
  intros Hr. destruct (reachable_inv _ Hr) as [[Hf Hnd] _]. split; [exact Hnd|].
  intros a Ha. rewrite Forall_forall in Hf. now destruct (Hf a Ha).
Qed.

(** frame: the vector of an existing actor changes only by a registration on that very actor while it lives *)
Definition alive_in (s : kstate) (p : Z) := match get_actor p (actors s) with Some a => a_alive a | None => false end.

Lemma kend_heap s p : heap (kend s p) = heap s /\ next_pid (kend s p) = next_pid s.
Proof. unfold kend. destruct (get_actor p (actors s)) as [a|]; [|auto]. destruct (a_alive a); auto. Qed.

Lemma fold_kend_heap ps : forall s, heap (fold_left kend ps s) = heap s /\ next_pid (fold_left kend ps s) = next_pid s.
Proof.
  induction ps as [|p ps IH]; cbn; intros s; [auto|]. destruct (IH (kend s p)) as [E1 E2]. destruct (kend_heap s p) as [E3 E4].
  split; congruence.
Qed.

Lemma set_kill_heap s p t : heap (set_kill s p t) = heap s /\ next_pid (set_kill s p t) = next_pid s.
Proof. unfold set_kill. destruct (t <=? now s); auto. Qed.

Lemma create_plain_heap s h code p :
  p < next_pid s -> lookup p (heap (create_plain s h code)) = lookup p (heap s) /\ next_pid s <= next_pid (create_plain s h code).
Proof.
  intros Hp. unfold create_plain. destruct (host_is_on h s); cbn [heap next_pid]; [|split; [reflexivity|lia]].
  rewrite lookup_store. replace (next_pid s =? p) with false by lia. split; [reflexivity|lia].
Qed.

Lemma create_arg_heap s g p :
  p < next_pid s -> lookup p (heap (create_arg false s g)) = lookup p (heap s) /\ next_pid s <= next_pid (create_arg false s g).
Proof.
  intros Hp. unfold create_arg. destruct (create_plain_heap s (g_host g) (g_code g) p Hp) as [E1 E2].
  destruct (host_is_on (g_host g) s); [|auto].
  set (s1 := create_plain s (g_host g) (g_code g)) in *.
  set (s2 := match g_list g with Some o => set_heap s1 (store (next_pid s) (lookup o (heap s1)) (heap s1)) | None => s1 end).
  assert (H2 : lookup p (heap s2) = lookup p (heap s) /\ next_pid s <= next_pid s2).
  { subst s2. destruct (g_list g) as [o|]; [|auto]. cbn [heap set_heap next_pid]. rewrite lookup_store.
    replace (next_pid s =? p) with false by lia. auto. }
  set (s3 := if g_kill g >=? 0 then set_kill s2 (next_pid s) (g_kill g) else s2).
  assert (H3 : lookup p (heap s3) = lookup p (heap s) /\ next_pid s <= next_pid s3).
  { subst s3. destruct (g_kill g >=? 0); [|exact H2]. destruct (set_kill_heap s2 (next_pid s) (g_kill g)) as [-> ->]. exact H2. }
  destruct (g_auto g); exact H3.
Qed.

Lemma fold_create_arg_heap gs p : forall s,
  p < next_pid s -> lookup p (heap (fold_left (create_arg false) gs s)) = lookup p (heap s).
Proof.
  induction gs as [|g gs IH]; cbn; intros s Hp; [reflexivity|].
  destruct (create_arg_heap s g p Hp) as [E1 E2]. rewrite IH; [exact E1|lia].
Qed.

Lemma restart_private s e p :
  reachable s -> p < next_pid s ->
  lookup p (heap (kstep false s e)) =
    match e with
    | KOnExit q tag => if (q =? p) && alive_in s p then lookup p (heap s) ++ [tag] else lookup p (heap s)
    | _ => lookup p (heap s)
    end.
Proof.
  intros Hr Hp. pose proof (reachable_inv _ Hr) as Hi.
  destruct e as [t|h code|h code auto kill|q tag|q t|q|q|h|h]; cbn [kstep].
  - reflexivity.
  - now destruct (create_plain_heap s h code p Hp).
  - match goal with |- lookup p (heap (create_arg false ?s' ?g)) = _ => destruct (create_arg_heap s' g p Hp) as [E _]; exact E end.
  - unfold alive_in. destruct (get_actor q (actors s)) as [a|] eqn:Eg.
    + destruct (a_list a) as [addr|] eqn:El.
      * destruct (owner_of_list _ _ _ _ Hi Eg El) as [Hin [Ep [Eal ->]]].
        cbn [heap set_heap]. rewrite lookup_store. destruct (q =? p) eqn:Eqp; [|reflexivity].
        assert (Eq' : q = p) by lia. rewrite Eq' in *. rewrite Eg, Eal. reflexivity.
      * destruct (q =? p) eqn:Eqp; [|reflexivity]. assert (Eq' : q = p) by lia. rewrite Eq' in *. rewrite Eg.
        destruct Hi as [[Hf _] _]. destruct (get_actor_some _ _ _ Eg) as [Hin _]. rewrite Forall_forall in Hf.
        destruct (Hf a Hin) as [_ Ho]. unfold owns in Ho. rewrite El in Ho. destruct (a_alive a); [discriminate|reflexivity].
    + destruct (q =? p) eqn:Eqp; [|reflexivity]. assert (Eq' : q = p) by lia. rewrite Eq' in *. rewrite Eg. reflexivity.
  - destruct (get_actor q (actors s)) as [a|]; [|reflexivity]. destruct (a_alive a); [|reflexivity].
    now destruct (set_kill_heap s q t) as [-> _].
  - destruct (get_actor q (actors s)) as [a|]; [|reflexivity]. destruct (a_alive a && negb (a_auto a)); reflexivity.
  - now destruct (kend_heap s q) as [-> _].
  - destruct (host_is_on h s); [|reflexivity]. cbn [heap set_hosts].
    match goal with |- lookup p (heap (fold_left kend ?ps ?s')) = _ => destruct (fold_kend_heap ps s') as [-> _] end. reflexivity.
  - destruct (get_host h (hosts s)) as [x|]; [|reflexivity]. destruct (h_on x); [reflexivity|].
    rewrite fold_create_arg_heap; [reflexivity|exact Hp].
Qed.

Lemma get_actor_new p l n : Forall (fun a => a_pid a < p) l -> a_pid n = p -> get_actor p (l ++ [n]) = Some n.
Proof.
  intros Hf En. unfold get_actor. induction l as [|x l IH]; cbn.
  - replace (a_pid n =? p) with true by lia. reflexivity.
  - inversion Hf as [|? ? Hx Hl]; subst. replace (a_pid x =? a_pid n) with false by lia. now apply IH.
Qed.

Lemma get_actor_upd p f l :
  (forall a, a_pid (f a) = a_pid a) -> get_actor p (upd_actor p f l) = option_map f (get_actor p l).
Proof.
  intros Hf. unfold get_actor, upd_actor. induction l as [|x l IH]; cbn; [reflexivity|].
  destruct (a_pid x =? p) eqn:E.
  - rewrite Hf, E. reflexivity.
  - rewrite E. exact IH.
Qed.

(** a re-created actor starts with a copy of the recorded vector (empty when the record has none), in a vector of its own *)
Lemma restart_recreate s g :
  reachable s -> host_is_on (g_host g) s = true -> (forall o, g_list g = Some o -> o < next_pid s) ->
  let s' := create_arg false s g in
  lookup (next_pid s) (heap s') = match g_list g with Some o => lookup o (heap s) | None => [] end /\
  exists a, get_actor (next_pid s) (actors s') = Some a /\ a_alive a = true /\ a_list a = Some (next_pid s) /\
            a_code a = g_code g /\ a_host a = g_host g /\ (g_auto g = true -> a_auto a = true).
Proof.
  intros Hr Eon Ho. destruct (reachable_inv _ Hr) as [[Hf _] _]. cbn zeta. unfold create_arg. rewrite Eon.
  set (p := next_pid s).
  assert (E1 : create_plain s (g_host g) (g_code g) =
               mkK (now s) (p + 1) (store p [] (heap s)) (actors s ++ [mkA p (g_host g) (g_code g) true (Some p) false 0 0])
                   (hosts s) (ECreate p (g_code g) (g_host g) (now s) :: log s)).
  { unfold create_plain. rewrite Eon. reflexivity. }
  rewrite E1. clear E1.
  set (n := mkA p (g_host g) (g_code g) true (Some p) false 0 0).
  assert (Eg : get_actor p (actors s ++ [n]) = Some n).
  { apply get_actor_new; [|reflexivity]. eapply Forall_impl; [|exact Hf]. cbn. intros a [H _]. exact H. }
  destruct (g_list g) as [o|] eqn:El.
  - specialize (Ho o eq_refl). cbn [heap actors set_heap].
    set (s2 := set_heap _ _).
    assert (A2 : actors s2 = actors s ++ [n]) by reflexivity.
    assert (H2 : lookup p (heap s2) = lookup o (heap s)).
    { subst s2. cbn [heap set_heap]. rewrite !lookup_store. replace (p =? p) with true by lia. replace (p =? o) with false by lia. reflexivity. }
    clearbody s2.
    set (s3 := if g_kill g >=? 0 then set_kill s2 p (g_kill g) else s2).
    assert (H3 : lookup p (heap s3) = lookup o (heap s) /\ exists a, get_actor p (actors s3) = Some a /\ core a = core n /\ a_code a = a_code n /\ a_host a = a_host n).
    { subst s3. destruct (g_kill g >=? 0).
      - unfold set_kill. destruct (g_kill g <=? now s2).
        + split; [exact H2|]. exists n. rewrite A2. auto.
        + split; [exact H2|]. cbn [actors set_actors]. rewrite get_actor_upd by reflexivity. rewrite A2, Eg. cbn. eauto.
      - split; [exact H2|]. exists n. rewrite A2. auto. }
    clearbody s3. destruct H3 as [H3 [a [Ea [Ec [Ecode Ehost]]]]]. unfold core in Ec. injection Ec as Ec1 Ec2 Ec3 Ec4.
    destruct (g_auto g).
    + cbn [heap actors set_actors]. split; [exact H3|]. rewrite get_actor_upd by reflexivity. rewrite Ea. cbn.
      eexists. split; [reflexivity|]. cbn. repeat split; auto.
    + split; [exact H3|]. exists a. repeat split; auto. discriminate.
  - set (s2 := mkK _ _ _ _ _ _).
    assert (A2 : actors s2 = actors s ++ [n]) by reflexivity.
    assert (H2 : lookup p (heap s2) = []).
    { subst s2. cbn [heap]. rewrite lookup_store. replace (p =? p) with true by lia. reflexivity. }
    clearbody s2.
    set (s3 := if g_kill g >=? 0 then set_kill s2 p (g_kill g) else s2).
    assert (H3 : lookup p (heap s3) = [] /\ exists a, get_actor p (actors s3) = Some a /\ core a = core n /\ a_code a = a_code n /\ a_host a = a_host n).
    { subst s3. destruct (g_kill g >=? 0).
      - unfold set_kill. destruct (g_kill g <=? now s2).
        + split; [exact H2|]. exists n. rewrite A2. auto.
        + split; [exact H2|]. cbn [actors set_actors]. rewrite get_actor_upd by reflexivity. rewrite A2, Eg. cbn. eauto.
      - split; [exact H2|]. exists n. rewrite A2. auto. }
    clearbody s3. destruct H3 as [H3 [a [Ea [Ec [Ecode Ehost]]]]]. unfold core in Ec. injection Ec as Ec1 Ec2 Ec3 Ec4.
    destruct (g_auto g).
    + cbn [heap actors set_actors]. split; [exact H3|]. rewrite get_actor_upd by reflexivity. rewrite Ea. cbn.
      eexists. split; [reflexivity|]. cbn. repeat split; auto.
    + split; [exact H3|]. exists a. repeat split; auto. discriminate.
Qed.

Lemma get_host_upd h f l :
  (forall x, h_id (f x) = h_id x) -> get_host h (upd_host h f l) = option_map f (get_host h l).
Proof.
  intros Hf. unfold get_host, upd_host. induction l as [|x l IH]; cbn; [reflexivity|].
  destruct (h_id x =? h) eqn:E.
  - rewrite Hf, E. reflexivity.
  - rewrite E. exact IH.
Qed.

(** set_auto_restart records the code, host and kill time of the caller and SHARES its vector (as ProcessArg(host, actor)) *)
Lemma restart_record s p a x :
  reachable s -> get_actor p (actors s) = Some a -> a_alive a = true -> a_auto a = false ->
  get_host (a_host a) (hosts s) = Some x ->
  get_host (a_host a) (hosts (kstep false s (KSetAuto p))) =
    Some (mkH (h_id x) (h_on x) (h_boot x ++ [mkG (a_code a) (a_host a) true (Some p) (a_kill a)])).
Proof.
  intros Hr Eg Eal Eau Eh. cbn [kstep]. rewrite Eg, Eal, Eau. cbn [andb negb hosts set_hosts].
  rewrite get_host_upd by reflexivity. rewrite Eh. cbn [option_map].
  destruct (get_actor_some _ _ _ Eg) as [Hin Ep]. destruct (restart_no_sharing s Hr) as [_ Ho].
  rewrite (Ho a Hin), Eal, Ep. reflexivity.
Qed.
