(** C04 — proofs about SGV.Kernel.Mutex: every history of lock/try_lock/unlock calls, any number of actors. *)
From SGV Require Import Base.Tactics Kernel.Mutex.
Local Open Scope Z_scope.

Definition expected (m : mutex) (p : pid) : Z :=
  if is_owner m p then (if recursive m then depth m else 1) else 0.

Definition Inv (m : mutex) : Prop :=
  (forall p, held m p = expected m p) /\
  (owner m = None -> queue m = []) /\
  (recursive m = true -> owner m <> None -> 1 <= depth m) /\
  Forall (fun a => a_depth a = 1) (queue m).

Lemma inv_init : forall rec, Inv (init rec).
Proof. intros rec. unfold Inv, init, expected, is_owner. cbn. repeat split; auto; congruence. Qed.

Lemma bump_none : forall p q, in_queue p q = false -> bump p q = None.
Proof.
  induction q as [|a r IH]; cbn; [reflexivity|]. intros H. apply orb_false_iff in H. destruct H as [H1 H2].
  rewrite H1, (IH H2). reflexivity.
Qed.

Lemma is_owner_spec : forall m p, is_owner m p = true <-> owner m = Some p.
Proof.
  intros m p. unfold is_owner. destruct (owner m) as [o|]; [|split; discriminate].
  rewrite Z.eqb_eq. split; [intros ->; reflexivity | intros H; inv H; reflexivity].
Qed.

Lemma is_owner_false : forall m p, is_owner m p = false <-> owner m <> Some p.
Proof. intros m p. rewrite <- is_owner_spec. destruct (is_owner m p); split; congruence. Qed.

Ltac owner_cases :=
  repeat match goal with
  | |- context [?a =? ?b] => destruct (Z.eqb_spec a b); subst
  | H : context [?a =? ?b] |- _ => destruct (Z.eqb_spec a b); subst
  end.

Ltac perq Ha p :=
  let q := fresh "q" in
  intros q; pose proof (Ha q); pose proof (Ha p);
  try match goal with a : acq |- _ => pose proof (Ha (a_issuer a)) end;
  try match goal with Hr : recursive _ = _ |- _ => rewrite Hr in * end;
  owner_cases; first [lia | congruence].

Ltac close Ha p :=
  repeat split;
  first [ solve [auto] | solve [congruence] | solve [lia] | solve [intros; discriminate] | solve [intros; congruence]
        | solve [intros; match goal with Hc : _ -> _ -> 1 <= depth _ |- _ => apply Hc; congruence end] | solve [intros; lia]
        | solve [apply Forall_app; split; [assumption | constructor; [reflexivity | constructor]]]
        | solve [perq Ha p] | idtac ].

Lemma inv_lock : forall m p, Inv m -> in_queue p (queue m) = false -> undefined_region m (Lock p) = false ->
  Inv (fst (lock_code m p)).
Proof.
  intros m p (Ha & Hb & Hc & Hd) Hq Hu. unfold lock_code. cbn [undefined_region] in Hu.
  destruct (recursive m) eqn:Hr.
  - destruct (is_owner m p) eqn:Ho.
    + apply is_owner_spec in Ho. assert (Hdp : 1 <= depth m) by (apply Hc; congruence).
      cbn [fst]. unfold Inv, expected, is_owner, upd in *. cbn. rewrite Ho in *. close Ha p.
    + destruct (owner m) as [o|] eqn:Hown.
      * rewrite (bump_none p (queue m) Hq). cbn [fst]. unfold Inv, expected, is_owner in *. cbn. rewrite Hown in *. close Ha p.
      * cbn [fst]. unfold Inv, expected, is_owner, upd in *. cbn. rewrite Hown in *. close Ha p.
  - cbn [negb andb] in Hu. destruct (owner m) as [o|] eqn:Hown.
    + assert (Hop : (o =? p) = false) by (unfold is_owner in Hu; now rewrite Hown in Hu).
      rewrite Hop. cbn [fst]. unfold Inv, expected, is_owner in *. cbn. rewrite Hown in *. close Ha p.
    + cbn [fst]. unfold Inv, expected, is_owner, upd in *. cbn. rewrite Hown in *. close Ha p.
Qed.

Lemma inv_try : forall m p, Inv m -> Inv (fst (try_code true m p)).
Proof.
  intros m p (Ha & Hb & Hc & Hd). unfold try_code.
  destruct (is_owner m p) eqn:Ho; cbn [andb].
  - destruct (recursive m) eqn:Hr.
    + apply is_owner_spec in Ho. assert (Hdp : 1 <= depth m) by (apply Hc; congruence).
      cbn [fst]. unfold Inv, expected, is_owner, upd in *. cbn. rewrite Ho in *. close Ha p.
    + apply is_owner_spec in Ho. rewrite Ho. cbn [fst]. unfold Inv. close Ha p.
  - destruct (owner m) as [o|] eqn:Hown.
    + cbn [fst]. unfold Inv. close Ha p.
    + cbn [fst]. unfold Inv, expected, is_owner, upd in *. cbn. rewrite Hown in *.
      destruct (recursive m); close Ha p.
Qed.

Lemma inv_unlock : forall m p, Inv m -> in_queue p (queue m) = false -> Inv (fst (unlock_code m p)).
Proof.
  intros m p (Ha & Hb & Hc & Hd) Hq. unfold unlock_code.
  destruct (is_owner m p) eqn:Ho; cbn [negb]; [|cbn [fst]; unfold Inv; auto].
  apply is_owner_spec in Ho.
  assert (Hdp : recursive m = true -> 1 <= depth m) by (intros Hr; apply Hc; [assumption | congruence]).
  destruct (recursive m) eqn:Hr; cbn [andb].
  - specialize (Hdp eq_refl). destruct (0 <? depth m - 1) eqn:Hd0.
    + cbn [fst]. unfold Inv, expected, is_owner, upd in *. cbn. rewrite Ho in *. close Ha p.
    + destruct (queue m) as [|a r] eqn:Hqm.
      * cbn [fst]. unfold Inv, expected, is_owner, upd in *. cbn. rewrite Ho in *. close Ha p.
      * cbn [in_queue existsb] in Hq. apply orb_false_iff in Hq. destruct Hq as [Hq1 Hq2].
        inv Hd. cbn [fst]. unfold Inv, expected, is_owner, upd in *. cbn. rewrite Ho in *. close Ha p.
  - destruct (queue m) as [|a r] eqn:Hqm.
    + cbn [fst]. unfold Inv, expected, is_owner, upd in *. cbn. rewrite Ho in *. close Ha p.
    + cbn [in_queue existsb] in Hq. apply orb_false_iff in Hq. destruct Hq as [Hq1 Hq2].
      inv Hd. cbn [fst]. unfold Inv, expected, is_owner, upd in *. cbn. rewrite Ho in *. close Ha p.
Qed.

Lemma inv_step : forall m o, Inv m -> Inv (fst (step true m o)).
Proof.
  intros m o HI. unfold step.
  destruct (in_queue (issuer_of o) (queue m)) eqn:Hq; [assumption|].
  destruct (undefined_region m o) eqn:Hu; [assumption|].
  destruct o; cbn [issuer_of] in Hq.
  - now apply inv_lock.
  - now apply inv_try.
  - now apply inv_unlock.
Qed.

Lemma exec_from_inv : forall ops m, Inv m -> Inv (exec_from true m ops).
Proof.
  induction ops as [|o r IH]; intros m HI; cbn; [assumption|]. apply IH. now apply inv_step.
Qed.

Lemma exec_inv : forall rec ops, Inv (exec true rec ops).
Proof. intros. apply exec_from_inv, inv_init. Qed.

(** exclusion, ownership = outstanding acquisitions *)
Theorem owner_iff_held : forall rec ops p,
  let m := exec true rec ops in (owner m = Some p <-> 0 < held m p).
Proof.
  intros rec ops p m. destruct (exec_inv rec ops) as (Ha & _ & Hc & _). fold m in Ha, Hc.
  rewrite (Ha p). unfold expected. destruct (is_owner m p) eqn:Ho.
  - apply is_owner_spec in Ho. split; [intros _ | auto].
    destruct (recursive m) eqn:Hr; [|lia]. assert (1 <= depth m) by (apply Hc; congruence). lia.
  - apply is_owner_false in Ho. split; [congruence | lia].
Qed.

Theorem exclusion : forall rec ops p q,
  let m := exec true rec ops in 0 < held m p -> 0 < held m q -> p = q.
Proof.
  intros rec ops p q m Hp Hq. apply (owner_iff_held rec ops p) in Hp. apply (owner_iff_held rec ops q) in Hq.
  fold m in Hp, Hq. congruence.
Qed.

Lemma step_recursive : forall fx m o, recursive (fst (step fx m o)) = recursive m.
Proof.
  intros fx m0 o. unfold step. destruct (in_queue (issuer_of o) (queue m0)); [reflexivity|].
  destruct (undefined_region m0 o); [reflexivity|].
  destruct o as [p0|p0|p0]; cbn [issuer_of].
  - unfold lock_code. destruct (recursive m0) eqn:Hr.
    + destruct (is_owner m0 p0); [cbn; congruence|]. destruct (owner m0); [destruct (bump p0 (queue m0))|]; cbn; congruence.
    + destruct (owner m0) as [o|]; [destruct (o =? p0)|]; cbn; congruence.
  - unfold try_code. destruct (is_owner m0 p0 && recursive m0); [cbn; congruence|]. destruct (owner m0); cbn; congruence.
  - unfold unlock_code. destruct (negb (is_owner m0 p0)); [reflexivity|].
    destruct (recursive m0 && (0 <? (if recursive m0 then depth m0 - 1 else depth m0))); [cbn; congruence|].
    destruct (queue m0); cbn; congruence.
Qed.

Lemma exec_from_recursive : forall fx ops m, recursive (exec_from fx m ops) = recursive m.
Proof.
  intros fx. induction ops as [|o r IH]; intros m; cbn; [reflexivity|].
  change (fold_left (fun m0 o0 => fst (step fx m0 o0)) r (fst (step fx m o))) with (exec_from fx (fst (step fx m o)) r).
  now rewrite IH, step_recursive.
Qed.

Theorem held_bounds : forall rec ops p,
  let m := exec true rec ops in 0 <= held m p /\ (rec = false -> held m p <= 1).
Proof.
  intros rec ops p m. destruct (exec_inv rec ops) as (Ha & _ & Hc & _). fold m in Ha, Hc.
  assert (Hrec : recursive m = rec) by (unfold m, exec; now rewrite exec_from_recursive).
  rewrite (Ha p). unfold expected. destruct (is_owner m p) eqn:Ho; [|lia].
  apply is_owner_spec in Ho. destruct (recursive m) eqn:Hr.
  - assert (1 <= depth m) by (apply Hc; congruence). split; [lia | congruence].
  - lia.
Qed.

(** the ghost counter is the trace quantity: acquisitions obtained minus unlocks done *)
Lemma step_held : forall fx m o p,
  held (fst (step fx m o)) p = held m p + gets p (o, snd (step fx m o)) - gives p (o, snd (step fx m o)).
Proof.
  intros fx m o p. unfold step.
  destruct (in_queue (issuer_of o) (queue m)) eqn:Hq; [destruct o; cbn; lia|].
  destruct (undefined_region m o); [destruct o; cbn; lia|].
  destruct o as [q|q|q]; cbn [issuer_of] in Hq.
  - unfold lock_code. destruct (recursive m).
    + destruct (is_owner m q); [cbn; unfold upd; owner_cases; lia|].
      destruct (owner m); [destruct (bump q (queue m)); cbn; lia | cbn; unfold upd; owner_cases; lia].
    + destruct (owner m) as [o|]; [destruct (o =? q)|]; cbn; unfold upd; owner_cases; lia.
  - unfold try_code. destruct (is_owner m q && recursive m); [cbn; unfold upd; owner_cases; lia|].
    destruct (owner m); cbn; unfold upd; owner_cases; lia.
  - unfold unlock_code. destruct (negb (is_owner m q)); [cbn; lia|].
    destruct (recursive m && (0 <? (if recursive m then depth m - 1 else depth m))); [cbn; unfold upd; owner_cases; lia|].
    destruct (queue m) as [|a r] eqn:Hqm; [cbn; unfold upd; owner_cases; lia|].
    cbn [in_queue existsb] in Hq. apply orb_false_iff in Hq. destruct Hq as [Hq1 _].
    cbn. unfold upd. owner_cases; lia.
Qed.

Lemma held_counts_gen : forall fx ops m p,
  held (exec_from fx m ops) p = held m p + total (gets p) (run fx m ops) - total (gives p) (run fx m ops).
Proof.
  intros fx. induction ops as [|o r IH]; intros m p; cbn [exec_from fold_left run total]; [lia|].
  pose proof (step_held fx m o p) as Hs. destruct (step fx m o) as [m' x] eqn:Hst. cbn [fst snd] in *.
  change (fold_left (fun m0 o0 => fst (step fx m0 o0)) r m') with (exec_from fx m' r).
  rewrite IH. cbn [total]. lia.
Qed.

Theorem held_counts : forall fx rec ops p,
  held (exec fx rec ops) p = total (gets p) (run fx (init rec) ops) - total (gives p) (run fx (init rec) ops).
Proof. intros. unfold exec. rewrite held_counts_gen. cbn. lia. Qed.

(** recursion: p owns the mutex exactly while it has obtained it more often than it has unlocked it *)
Theorem recursive_depth : forall rec ops p,
  let tr := run true (init rec) ops in
  (owner (exec true rec ops) = Some p <-> total (gives p) tr < total (gets p) tr).
Proof.
  intros rec ops p tr. rewrite (owner_iff_held rec ops p). rewrite held_counts. fold tr. lia.
Qed.

(** only the owner can release *)
Theorem only_owner_unlocks : forall fx m p, in_queue p (queue m) = false ->
  (owner m <> Some p -> step fx m (Unlock p) = (m, Error)) /\
  (owner m = Some p -> exists m' w, step fx m (Unlock p) = (m', Released w)).
Proof.
  intros fx m p Hq. unfold step. cbn [issuer_of undefined_region]. rewrite Hq. unfold unlock_code. split.
  - intros Ho. apply is_owner_false in Ho. now rewrite Ho.
  - intros Ho. apply is_owner_spec in Ho. rewrite Ho. cbn [negb].
    destruct (recursive m && (0 <? (if recursive m then depth m - 1 else depth m))); [eauto|].
    destruct (queue m); eauto.
Qed.

(** try_lock never blocks and succeeds iff free, or held by the caller on a recursive mutex *)
Theorem trylock : forall fx m p, in_queue p (queue m) = false ->
  let r := step fx m (TryLock p) in
  (snd r = TryOk \/ snd r = TryFail) /\ queue (fst r) = queue m /\
  (snd r = TryOk <-> owner m = None \/ (owner m = Some p /\ recursive m = true)) /\
  (snd r = TryOk -> owner (fst r) = Some p) /\ (snd r = TryFail -> fst r = m).
Proof.
  intros fx m p Hq. unfold step. cbn [issuer_of undefined_region]. rewrite Hq. unfold try_code.
  destruct (is_owner m p) eqn:Ho; cbn [andb].
  - apply is_owner_spec in Ho. destruct (recursive m) eqn:Hr.
    + cbn. repeat split; auto; try discriminate.
    + rewrite Ho. cbn. repeat split; auto; try discriminate. intros [H|[_ H]]; discriminate.
  - apply is_owner_false in Ho. destruct (owner m) as [o|] eqn:Hown.
    + cbn. repeat split; auto; try discriminate. intros [H|[H _]]; [discriminate | congruence].
    + cbn. repeat split; auto; try discriminate.
Qed.

(** FIFO: the lockers that had to wait are served in the order of their requests *)
Lemma step_fifo : forall fx m o,
  map a_issuer (queue m) ++ blocked_of (o, snd (step fx m o)) =
  granted_of (o, snd (step fx m o)) ++ map a_issuer (queue (fst (step fx m o))).
Proof.
  intros fx m o. unfold step.
  destruct (in_queue (issuer_of o) (queue m)) eqn:Hq; [destruct o; cbn; now rewrite app_nil_r|].
  destruct (undefined_region m o) eqn:Hu; [destruct o; cbn; now rewrite app_nil_r|].
  destruct o as [q|q|q]; cbn [issuer_of undefined_region] in Hq, Hu.
  - unfold lock_code. destruct (recursive m) eqn:Hr.
    + destruct (is_owner m q); [cbn; now rewrite app_nil_r|].
      destruct (owner m); [|cbn; now rewrite app_nil_r].
      rewrite (bump_none q (queue m) Hq). cbn. now rewrite map_app.
    + cbn [negb andb] in Hu. destruct (owner m) as [o|] eqn:Hown; [|cbn; now rewrite app_nil_r].
      assert (Hop : (o =? q) = false) by (unfold is_owner in Hu; now rewrite Hown in Hu).
      rewrite Hop. cbn. now rewrite map_app.
  - unfold try_code. destruct (is_owner m q && recursive m); [cbn; now rewrite app_nil_r|].
    destruct (owner m); cbn; now rewrite app_nil_r.
  - unfold unlock_code. destruct (negb (is_owner m q)); [cbn; now rewrite app_nil_r|].
    destruct (recursive m && (0 <? (if recursive m then depth m - 1 else depth m))); [cbn; now rewrite app_nil_r|].
    destruct (queue m) as [|a r]; cbn; [reflexivity | now rewrite app_nil_r].
Qed.

Lemma fifo_gen : forall fx ops m,
  map a_issuer (queue m) ++ blocked_seq (run fx m ops) =
  granted_seq (run fx m ops) ++ map a_issuer (queue (exec_from fx m ops)).
Proof.
  intros fx. induction ops as [|o r IH]; intros m; cbn [run exec_from fold_left].
  - cbn. now rewrite app_nil_r.
  - pose proof (step_fifo fx m o) as Hs. destruct (step fx m o) as [m' x] eqn:Hst. cbn [fst snd] in *.
    change (fold_left (fun m0 o0 => fst (step fx m0 o0)) r m') with (exec_from fx m' r).
    unfold blocked_seq, granted_seq in *. cbn [flat_map].
    rewrite app_assoc, Hs, <- app_assoc, IH, app_assoc. reflexivity.
Qed.

Theorem fifo : forall fx rec ops,
  let tr := run fx (init rec) ops in
  blocked_seq tr = granted_seq tr ++ map a_issuer (queue (exec fx rec ops)).
Proof. intros fx rec ops tr. pose proof (fifo_gen fx ops (init rec)) as H. cbn [init queue map app] in H. exact H. Qed.

(** hand-off is immediate: a free mutex has no waiter; the unlock that frees it serves the head of the queue *)
Theorem free_no_waiter : forall rec ops, owner (exec true rec ops) = None -> queue (exec true rec ops) = [].
Proof. intros rec ops. destruct (exec_inv rec ops) as (_ & Hb & _). exact Hb. Qed.

Theorem handoff : forall fx m p m' q, step fx m (Unlock p) = (m', Released (Some q)) ->
  exists a r, queue m = a :: r /\ a_issuer a = q /\ queue m' = r /\ owner m' = Some q.
Proof.
  intros fx m p m' q. unfold step. cbn [issuer_of undefined_region].
  destruct (in_queue p (queue m)); [discriminate|]. unfold unlock_code.
  destruct (negb (is_owner m p)); [discriminate|].
  destruct (recursive m && (0 <? (if recursive m then depth m - 1 else depth m))); [discriminate|].
  destruct (queue m) as [|a r]; [discriminate|]. intros H. inv H. exists a, r. cbn. auto.
Qed.

(** a call is rejected only when its issuer is blocked in this mutex *)
Theorem rejected_iff_blocked : forall fx m o m',
  step fx m o = (m', Rejected) <-> in_queue (issuer_of o) (queue m) = true /\ m' = m.
Proof.
  intros fx m o m'. unfold step. destruct (in_queue (issuer_of o) (queue m)).
  - split; [intros H; inv H; auto | intros [_ ->]; reflexivity].
  - split; [|intros [H _]; discriminate].
    destruct (undefined_region m o); [discriminate|].
    destruct o as [q|q|q].
    + unfold lock_code. destruct (recursive m); [destruct (is_owner m q); [discriminate|]; destruct (owner m); [destruct (bump q (queue m))|]; discriminate|].
      destruct (owner m) as [o|]; [destruct (o =? q)|]; discriminate.
    + unfold try_code. destruct (is_owner m q && recursive m); [discriminate|]. destruct (owner m); discriminate.
    + unfold unlock_code. destruct (negb (is_owner m q)); [discriminate|].
      destruct (recursive m && (0 <? (if recursive m then depth m - 1 else depth m))); [discriminate|].
      destruct (queue m); discriminate.
Qed.

(** the pinned code (try_lock leaves recursive_depth alone on a free mutex) violates the statement *)
Theorem pinned_try_lock_refuted :
  let ops := [TryLock 1; Lock 1; Unlock 1] in
  let tr := run false (init true) ops in
  total (gets 1) tr - total (gives 1) tr = 1 /\ owner (exec false true ops) = None /\
  snd (step false (exec false true ops) (Lock 2)) = Acquired.
Proof. vm_compute. repeat split; reflexivity. Qed.

(** what the code does outside the domain (owner re-locks a non-recursive mutex): the call returns, a stale acquisition
    stays queued, and the next unlock hands the mutex back to the same actor *)
Lemma relock_nonrecursive_code :
  let m1 := fst (lock_code (init false) 1) in
  let r := lock_code m1 1 in
  snd r = Acquired /\ map a_issuer (queue (fst r)) = [1] /\ owner (fst (unlock_code (fst r) 1)) = Some 1.
Proof. vm_compute. repeat split; reflexivity. Qed.

(** lock() returns at once iff the mutex is free or (recursive and) already held by the caller; otherwise the caller is
    appended to the queue and nothing else changes *)
Theorem lock_outcome : forall fx m p, in_queue p (queue m) = false -> undefined_region m (Lock p) = false ->
  let r := step fx m (Lock p) in
  (snd r = Acquired <-> owner m = None \/ owner m = Some p) /\
  (snd r = Blocked <-> exists o, owner m = Some o /\ o <> p) /\
  (snd r = Acquired \/ snd r = Blocked) /\
  (snd r = Acquired -> owner (fst r) = Some p /\ queue (fst r) = queue m) /\
  (snd r = Blocked -> map a_issuer (queue (fst r)) = map a_issuer (queue m) ++ [p] /\ owner (fst r) = owner m /\ depth (fst r) = depth m).
Proof.
  intros fx m p Hq Hu. unfold step. cbn [issuer_of]. rewrite Hq, Hu. cbn [undefined_region] in Hu. unfold lock_code.
  destruct (recursive m) eqn:Hr.
  - destruct (is_owner m p) eqn:Ho.
    + apply is_owner_spec in Ho. cbn. rewrite Ho. repeat split; auto; try discriminate.
      intros (o & H1 & H2). congruence.
    + apply is_owner_false in Ho. destruct (owner m) as [o|] eqn:Hown.
      * rewrite (bump_none p (queue m) Hq). cbn. repeat split; auto; try discriminate.
        -- intros [H|H]; congruence.
        -- intros _. exists o. split; [reflexivity | congruence].
        -- now rewrite map_app.
      * cbn. repeat split; auto; try discriminate. intros (o & H1 & _). discriminate.
  - cbn [negb andb] in Hu. destruct (owner m) as [o|] eqn:Hown.
    + assert (Hop : (o =? p) = false) by (unfold is_owner in Hu; now rewrite Hown in Hu).
      rewrite Hop. apply Z.eqb_neq in Hop. cbn. repeat split; auto; try discriminate.
      * intros [H|H]; congruence.
      * intros _. exists o. auto.
      * now rewrite map_app.
    + cbn. repeat split; auto; try discriminate. intros (o & H1 & _). discriminate.
Qed.
