(** C13 — proofs about SGV.Kernel.Dag *)
From SGV Require Import Base.Tactics Kernel.Dag.
Local Open Scope Z_scope.

(** * 1. The trace monitor only accepts logs that satisfy the property *)

Lemma assign_date_in : forall past b t, assign_date past b = Some t -> In (EvOp (Assign b) t) past.
Proof.
  induction past as [|e r IH]; cbn [assign_date]; intros b t H; [discriminate|].
  destruct e as [o d| |]; try (right; auto; fail).
  destruct o; try (right; auto; fail).
  destruct (assign_date r b) eqn:E.
  - inv H. right; auto.
  - destruct (Nat.eqb b b0) eqn:Eb; [|discriminate]. apply Nat.eqb_eq in Eb. inv H. left; reflexivity.
Qed.

Lemma finish_date_in : forall past a t, finish_date past a = Some t -> In (EvFinish a t) past.
Proof.
  induction past as [|e r IH]; cbn [finish_date]; intros a t H; [discriminate|].
  destruct e as [o d|b d|b d]; try (right; auto; fail).
  destruct (finish_date r a) eqn:E.
  - inv H. right; auto.
  - destruct (Nat.eqb a b) eqn:Eb; [|discriminate]. apply Nat.eqb_eq in Eb. inv H. left; reflexivity.
Qed.

Lemma edge_eqb_eq : forall x y, edge_eqb x y = true <-> x = y.
Proof.
  intros [a b] [c d]; unfold edge_eqb; cbn. rewrite andb_true_iff, !Nat.eqb_eq. split; [intros [-> ->]; reflexivity|intros H; inv H; auto].
Qed.

(** a dependency declared by add_successor and not removed since is among the predecessors the monitor checks *)
Lemma preds_in_add : forall newer a b t older,
  (forall t', ~ In (EvOp (RemoveSucc a b) t') newer) ->
  In a (preds_in (newer ++ EvOp (AddSucc a b) t :: older) b).
Proof.
  intros newer a b t older Hno. unfold preds_in.
  assert (H : In (a, b) (edges_rev (newer ++ EvOp (AddSucc a b) t :: older))).
  { induction newer as [|e r IH]; cbn [app edges_rev].
    - left; reflexivity.
    - assert (Hr : forall t', ~ In (EvOp (RemoveSucc a b) t') r) by (intros t' Hin; apply (Hno t'); right; exact Hin).
      specialize (IH Hr).
      destruct e as [o d| |]; auto. destruct o; auto.
      + right; exact IH.
      + apply filter_In. split; [exact IH|].
        destruct (edge_eqb (a, b) (a0, b0)) eqn:E; [|reflexivity].
        apply edge_eqb_eq in E. inv E. exfalso. apply (Hno d). left; reflexivity. }
  apply in_map_iff. exists (a, b). split; [reflexivity|]. apply filter_In. split; [exact H|]. cbn. apply Nat.eqb_refl.
Qed.

Definition start_spec (past : list ev) (b : nat) (d : Z) : Prop :=
  (exists ta, assign_date past b = Some ta /\
     (has_remove past = false ->
      d = Z.max (Z.max (max_list (map (fun a => odef (finish_date past a)) (preds_in past b))) ta) (odef (req_date past b)))) /\
  (forall a, In a (preds_in past b) -> exists f, finish_date past a = Some f /\ f <= d).

Lemma start_verdict_spec : forall past b d, start_verdict past b d = 0 -> start_spec past b d.
Proof.
  unfold start_verdict, start_spec. intros past b d H.
  destruct (assign_date past b) as [ta|] eqn:Ea; [|discriminate].
  destruct (forallb _ (preds_in past b)) eqn:Ef; cbn [negb] in H; [|discriminate].
  split.
  - exists ta. split; [reflexivity|]. intros Hr. rewrite Hr in H.
    destruct (d =? _) eqn:Ed; [|discriminate]. lia.
  - intros a Ha. rewrite forallb_forall in Ef. specialize (Ef a Ha).
    destruct (finish_date past a) as [f|]; [|discriminate]. exists f. split; [reflexivity|lia].
Qed.

Lemma monitor_sound_gen : forall todo past,
  monitor past todo = [] ->
  forall pre b d post, todo = pre ++ EvStart b d :: post -> start_spec (rev pre ++ past) b d.
Proof.
  induction todo as [|e r IH]; intros past Hm pre b d post Heq.
  - destruct pre; discriminate.
  - cbn [monitor] in Hm. destruct (ev_verdict past e =? 0) eqn:Ev; [|discriminate].
    destruct pre as [|e' pre'].
    + cbn in Heq. inv Heq. cbn [rev app]. apply start_verdict_spec. cbn [ev_verdict] in Ev. lia.
    + cbn in Heq. inv Heq. cbn [rev]. rewrite <- app_assoc. cbn [app]. eapply IH; [exact Hm|reflexivity].
Qed.

Theorem monitor_sound : forall tr, trace_ok tr = true ->
  forall pre b d post, tr = pre ++ EvStart b d :: post -> start_spec (rev pre) b d.
Proof.
  intros tr H pre b d post Heq. unfold trace_ok in H.
  destruct (monitor [] tr) eqn:Em; [|discriminate].
  pose proof (monitor_sound_gen tr [] Em pre b d post Heq) as Hs. rewrite app_nil_r in Hs. exact Hs.
Qed.

(** * 2. State invariants of the model *)

Lemma upd_eq : forall f b x, upd f b x b = x.
Proof. intros; unfold upd; rewrite Nat.eqb_refl; reflexivity. Qed.
Lemma upd_neq : forall f b x i, i <> b -> upd f b x i = f i.
Proof. intros f b x i H; unfold upd. apply Nat.eqb_neq in H. rewrite H. reflexivity. Qed.

Lemma memb_In : forall a l, memb a l = true <-> In a l.
Proof.
  intros a l; unfold memb. rewrite existsb_exists. split.
  - intros [x [Hx He]]. apply Nat.eqb_eq in He. subst; exact Hx.
  - intros H. exists a. split; [exact H|apply Nat.eqb_refl].
Qed.
Lemma memb_false : forall a l, memb a l = false <-> ~ In a l.
Proof. intros a l. rewrite <- memb_In. destruct (memb a l); split; intros H; try discriminate; try tauto; try (intro; discriminate). Qed.
Lemma set_add_In : forall a x l, In x (set_add a l) <-> x = a \/ In x l.
Proof.
  intros a x l; unfold set_add. destruct (memb a l) eqn:E.
  - apply memb_In in E. split; [auto|intros [->|H]; auto].
  - cbn. split; intros [H|H]; auto.
Qed.
Lemma set_del_In : forall a x l, In x (set_del a l) <-> x <> a /\ In x l.
Proof.
  intros a x l; unfold set_del. rewrite filter_In. split.
  - intros [H1 H2]. split; [|exact H1]. intros ->. rewrite Nat.eqb_refl in H2. discriminate.
  - intros [H1 H2]. split; [exact H2|]. destruct (Nat.eqb_spec a x); [subst; contradiction|reflexivity].
Qed.
Lemma del_first_In : forall a x l, In x (del_first a l) -> In x l.
Proof.
  induction l as [|y r IH]; cbn; [auto|]. destruct (Nat.eqb_spec a y); cbn; intros H; [auto|]. destruct H; auto.
Qed.
Lemma del_first_other : forall a x l, x <> a -> In x l -> In x (del_first a l).
Proof.
  induction l as [|y r IH]; cbn; [auto|]. intros Hn [->|H].
  - destruct (Nat.eqb_spec a x); [subst; contradiction|left; reflexivity].
  - destruct (Nat.eqb_spec a y); [exact H|right; auto].
Qed.
Lemma del_first_NoDup : forall a l, NoDup l -> NoDup (del_first a l) /\ ~ In a (del_first a l).
Proof.
  induction l as [|y r IH]; cbn; intros H; [split; [constructor|auto]|].
  inv H. destruct (Nat.eqb_spec a y).
  - subst. split; assumption.
  - destruct (IH H3) as [I1 I2]. split.
    + constructor; [|exact I1]. intros Hin. apply H2. eapply del_first_In; eauto.
    + intros [->|Hin]; [contradiction|auto].
Qed.
Lemma is_nil_true : forall A (l : list A), is_nil l = true <-> l = [].
Proof. intros A [|x r]; cbn; split; intros; try reflexivity; discriminate. Qed.

(** outcomes of Activity::start() on one activity *)
Lemma start_act_cases : forall t x,
  (start_act t x = set_state x STARTING /\ (a_deps x <> [] \/ a_assigned x = false)) \/
  (start_act t x = set_started (set_state x STARTING) t /\ a_deps x = [] /\ a_assigned x = true).
Proof.
  intros t x. unfold start_act. cbn [set_state a_deps a_assigned].
  destruct (a_deps x) eqn:Ed; cbn [is_nil andb].
  - destruct (a_assigned x); [right; auto|left; auto].
  - left. split; [reflexivity|left; discriminate].
Qed.

Definition started_or_done (x : act) : Prop := a_state x = STARTED \/ a_state x = FINISHED.
Definition guard_ok (s : st) (b : nat) : Prop :=
  a_assigned (acts s b) = true /\
  exists ts, a_tstart (acts s b) = Some ts /\ ts <= now s /\
    forall p, In p (a_gpreds (acts s b)) ->
      a_state (acts s p) = FINISHED /\ exists tf, a_tfinish (acts s p) = Some tf /\ tf <= ts.
Definition fresh (x : act) : Prop := a_state x = INITED /\ a_deps x = [] /\ a_succs x = [] /\ a_gpreds x = [].

Record inv (s : st) : Prop := {
  i_fin : forall p, a_state (acts s p) = FINISHED -> exists t, a_tfinish (acts s p) = Some t /\ t <= now s;
  i_A : forall b p, In p (a_gpreds (acts s b)) -> In p (a_deps (acts s b)) \/ a_state (acts s p) = FINISHED;
  i_guard : forall b, started_or_done (acts s b) -> guard_ok s b;
  i_sd : forall b, startable (acts s b) = false -> a_deps (acts s b) = [];
  i_E2 : forall a b, In b (a_succs (acts s a)) -> In a (a_deps (acts s b));
  i_nd : forall a, NoDup (a_succs (acts s a));
  i_bnd : forall b p, In p (a_gpreds (acts s b)) -> (p < nacts s)%nat;
  i_fresh : forall i, (nacts s <= i)%nat -> fresh (acts s i) }.

Lemma inv_init : inv init_st.
Proof.
  constructor; cbn; intros; try contradiction; try discriminate;
    try (match goal with H : started_or_done _ |- _ => destruct H; discriminate end); try constructor; auto.
Qed.

Lemma startable_states : forall x, startable x = true <-> a_state x = INITED \/ a_state x = STARTING.
Proof. intros x; unfold startable; destruct (a_state x); split; intros H; auto; try discriminate; destruct H; discriminate. Qed.
Lemma startable_false : forall x, startable x = false -> a_state x <> INITED /\ a_state x <> STARTING.
Proof. intros x; unfold startable; destruct (a_state x); intros H; try discriminate; split; discriminate. Qed.
Lemma sod_not_startable : forall x, started_or_done x -> startable x = false.
Proof. intros x [H|H]; unfold startable; rewrite H; reflexivity. Qed.
Lemma deps_dg : forall s, inv s -> forall a b, In a (a_deps (acts s b)) -> startable (acts s b) = true.
Proof.
  intros s I a b H. destruct (startable (acts s b)) eqn:E; [reflexivity|].
  rewrite (i_sd s I b E) in H. contradiction.
Qed.

(** a single activity b, not yet started, is replaced by x' which differs only by state / assignment / dates and is
    either still not started, or has just been do_start()ed with no dependency left *)
Lemma upd_inv_startable : forall s s' b x',
  inv s -> (forall i, acts s' i = upd (acts s) b x' i) -> nacts s' = nacts s -> now s' = now s ->
  (b < nacts s)%nat -> startable (acts s b) = true ->
  a_succs x' = a_succs (acts s b) -> a_gpreds x' = a_gpreds (acts s b) -> a_deps x' = a_deps (acts s b) ->
  a_tfinish x' = a_tfinish (acts s b) ->
  (startable x' = true \/
   (a_state x' = STARTED /\ a_deps (acts s b) = [] /\ a_assigned x' = true /\ a_tstart x' = Some (now s))) ->
  inv s'.
Proof.
  intros s s' b x' I Ha Hn Hnow Hb Hst Hsu Hgp Hdp Htf Hx.
  assert (Hnf : a_state x' <> FINISHED).
  { destruct Hx as [Hx|[Hx _]]; [apply startable_states in Hx; destruct Hx as [Hx|Hx]; rewrite Hx; discriminate|rewrite Hx; discriminate]. }
  assert (Hfin : forall p, a_state (acts s p) = FINISHED -> p <> b).
  { intros p Hp ->. apply startable_states in Hst. destruct Hst as [Hst|Hst]; rewrite Hst in Hp; discriminate. }
  assert (Hgp' : forall i, a_gpreds (acts s' i) = a_gpreds (acts s i)).
  { intros i. rewrite Ha. destruct (Nat.eq_dec i b) as [->|Hne]; [rewrite upd_eq; exact Hgp|rewrite upd_neq by exact Hne; reflexivity]. }
  assert (Hdp' : forall i, a_deps (acts s' i) = a_deps (acts s i)).
  { intros i. rewrite Ha. destruct (Nat.eq_dec i b) as [->|Hne]; [rewrite upd_eq; exact Hdp|rewrite upd_neq by exact Hne; reflexivity]. }
  assert (Hsu' : forall i, a_succs (acts s' i) = a_succs (acts s i)).
  { intros i. rewrite Ha. destruct (Nat.eq_dec i b) as [->|Hne]; [rewrite upd_eq; exact Hsu|rewrite upd_neq by exact Hne; reflexivity]. }
  assert (Hkeep : forall p, a_state (acts s p) = FINISHED -> acts s' p = acts s p).
  { intros p Hp. rewrite Ha. apply upd_neq. apply Hfin; exact Hp. }
  constructor.
  - intros p Hp. rewrite Ha in Hp |- *. destruct (Nat.eq_dec p b) as [->|Hne].
    + rewrite upd_eq in Hp. contradiction.
    + rewrite upd_neq in Hp |- * by exact Hne. rewrite Hnow. apply (i_fin s I); exact Hp.
  - intros b0 p Hp. rewrite Hgp' in Hp. rewrite Hdp'. destruct (i_A s I b0 p Hp) as [H|H]; [left; exact H|right].
    rewrite (Hkeep p H). exact H.
  - intros b0 Hsod. unfold guard_ok. rewrite Hgp', Hnow.
    assert (Hps : forall p, a_state (acts s p) = FINISHED -> forall ts, (exists tf, a_tfinish (acts s p) = Some tf /\ tf <= ts) ->
                  a_state (acts s' p) = FINISHED /\ exists tf, a_tfinish (acts s' p) = Some tf /\ tf <= ts).
    { intros p Hp ts Htf'. rewrite (Hkeep p Hp). split; assumption. }
    destruct (Nat.eq_dec b0 b) as [->|Hne].
    + rewrite Ha, upd_eq in Hsod |- *.
      destruct Hx as [Hx|[Hx1 [Hx2 [Hx3 Hx4]]]].
      { apply sod_not_startable in Hsod. congruence. }
      split; [exact Hx3|]. exists (now s). split; [exact Hx4|]. split; [lia|].
      intros p Hp. destruct (i_A s I b p Hp) as [H|H]; [rewrite Hx2 in H; contradiction|].
      apply Hps; [exact H|]. destruct (i_fin s I p H) as [t [Ht1 Ht2]]. exists t; auto.
    + rewrite Ha, upd_neq in Hsod |- * by exact Hne.
      destruct (i_guard s I b0 Hsod) as [G1 [ts [G2 [G3 G4]]]].
      split; [exact G1|]. exists ts. split; [exact G2|]. split; [exact G3|].
      intros p Hp. destruct (G4 p Hp) as [Q1 Q2]. apply Hps; assumption.
  - intros b0 Hs. rewrite Hdp'. destruct (Nat.eq_dec b0 b) as [->|Hne].
    + rewrite Ha, upd_eq in Hs. destruct Hx as [Hx|[_ [Hx _]]]; [congruence|exact Hx].
    + rewrite Ha, upd_neq in Hs by exact Hne. apply (i_sd s I); exact Hs.
  - intros a b0 H. rewrite Hsu' in H. rewrite Hdp'. apply (i_E2 s I); exact H.
  - intros a. rewrite Hsu'. apply (i_nd s I).
  - intros b0 p H. rewrite Hgp' in H. rewrite Hn. apply (i_bnd s I b0); exact H.
  - intros i Hi. rewrite Hn in Hi. rewrite Ha, upd_neq by lia. apply (i_fresh s I); exact Hi.
Qed.

Lemma put_started_inv : forall s b x,
  inv s -> (b < nacts s)%nat -> startable (acts s b) = true -> startable x = true ->
  a_succs x = a_succs (acts s b) -> a_gpreds x = a_gpreds (acts s b) -> a_deps x = a_deps (acts s b) ->
  a_tfinish x = a_tfinish (acts s b) ->
  inv (put_started s b (start_act (now s) x)).
Proof.
  intros s b x I Hb Hst Hx Hsu Hgp Hdp Htf.
  eapply (upd_inv_startable s _ b (start_act (now s) x) I); try reflexivity; try assumption;
    destruct (start_act_cases (now s) x) as [[E _]|[E [E1 E2]]]; rewrite E; cbn; try assumption.
  - left; reflexivity.
  - right. repeat split; try assumption. rewrite <- Hdp; exact E1.
Qed.

Lemma with_act_inv : forall s b x,
  inv s -> (b < nacts s)%nat -> startable (acts s b) = true -> startable x = true ->
  a_succs x = a_succs (acts s b) -> a_gpreds x = a_gpreds (acts s b) -> a_deps x = a_deps (acts s b) ->
  a_tfinish x = a_tfinish (acts s b) ->
  inv (with_act s b x).
Proof.
  intros s b x I Hb Hst Hx Hsu Hgp Hdp Htf.
  eapply (upd_inv_startable s _ b x I); try reflexivity; try assumption. left; exact Hx.
Qed.

Lemma log_op_inv : forall s o, inv s -> inv (log_op s o).
Proof. intros s o I. destruct I. constructor; cbn; assumption. Qed.

Lemma create_inv : forall s k dur, inv s -> inv (mkSt (upd (acts s) (nacts s) (new_act k dur)) (S (nacts s)) (now s) (trace s)).
Proof.
  intros s k dur I. set (n := nacts s).
  assert (Fr : fresh (acts s n)) by (apply (i_fresh s I); lia).
  assert (Hlt : forall b p, In p (a_gpreds (acts s b)) -> p <> n).
  { intros b p H. pose proof (i_bnd s I b p H). lia. }
  assert (Hfn : forall p, a_state (acts s p) = FINISHED -> p <> n).
  { intros p Hp ->. destruct Fr as [F _]. fold n in Hp. congruence. }
  constructor; cbn [acts nacts now].
  - intros p Hp. destruct (Nat.eq_dec p n) as [->|Hne]; [rewrite upd_eq in Hp; discriminate|].
    rewrite upd_neq in Hp |- * by exact Hne. apply (i_fin s I); exact Hp.
  - intros b p Hp. destruct (Nat.eq_dec b n) as [->|Hne]; [rewrite upd_eq in Hp; contradiction|].
    rewrite upd_neq in Hp |- * by exact Hne. rewrite (upd_neq _ _ _ p) by (eapply Hlt; eauto). apply (i_A s I); exact Hp.
  - intros b Hs. unfold guard_ok; cbn [acts now]. destruct (Nat.eq_dec b n) as [->|Hne].
    + rewrite upd_eq in Hs. destruct Hs; discriminate.
    + rewrite upd_neq in Hs |- * by exact Hne. destruct (i_guard s I b Hs) as [G1 [ts [G2 [G3 G4]]]].
      split; [exact G1|]. exists ts. repeat split; try assumption; rewrite (upd_neq _ _ _ p) by (eapply Hlt; eauto); apply G4; assumption.
  - intros b Hs. destruct (Nat.eq_dec b n) as [->|Hne]; [rewrite upd_eq; reflexivity|].
    rewrite upd_neq in Hs |- * by exact Hne. apply (i_sd s I); exact Hs.
  - intros a b H. destruct (Nat.eq_dec a n) as [->|Hne]; [rewrite upd_eq in H; contradiction|].
    rewrite upd_neq in H by exact Hne. pose proof (i_E2 s I a b H) as H2.
    destruct (Nat.eq_dec b n) as [->|Hnb]; [destruct Fr as [_ [F _]]; fold n in H2; rewrite F in H2; contradiction|].
    rewrite upd_neq by exact Hnb. exact H2.
  - intros a. destruct (Nat.eq_dec a n) as [->|Hne]; [rewrite upd_eq; constructor|rewrite upd_neq by exact Hne; apply (i_nd s I)].
  - intros b p H. destruct (Nat.eq_dec b n) as [->|Hne]; [rewrite upd_eq in H; contradiction|].
    rewrite upd_neq in H by exact Hne. pose proof (i_bnd s I b p H). fold n in H0. lia.
  - intros i Hi. rewrite upd_neq by (fold n in Hi; lia). apply (i_fresh s I). fold n. lia.
Qed.

(** add_successor / remove_successor: a's successor list and b's dependency sets change, nothing else *)
Lemma edge_inv : forall s a b sa db gb,
  inv s -> a <> b -> (a < nacts s)%nat -> (b < nacts s)%nat ->
  NoDup sa ->
  (forall b0, In b0 sa -> b0 <> b -> In b0 (a_succs (acts s a))) ->
  (In b sa -> In a db) ->
  (forall p, In p db -> p <> a -> In p (a_deps (acts s b))) ->
  (forall p, In p (a_deps (acts s b)) -> p <> a -> In p db) ->
  (forall p, In p gb -> p = a \/ In p (a_gpreds (acts s b))) ->
  (In a gb -> In a db) ->
  (In a gb -> startable (acts s b) = true) ->
  (In a db -> startable (acts s b) = true) ->
  inv (with_act (with_act s a (set_succs (acts s a) sa)) b
         (set_gpreds (set_deps (acts s b) db) gb)).
Proof.
  intros s a b sa db gb I Hab Ha Hb Hnd Hsa Hbd Hd1 Hd2 Hg1 Hgd Hgst Hdst.
  set (s' := with_act _ _ _).
  assert (Hst : forall i, a_state (acts s' i) = a_state (acts s i) /\ a_tfinish (acts s' i) = a_tfinish (acts s i) /\
                          a_tstart (acts s' i) = a_tstart (acts s i) /\ a_assigned (acts s' i) = a_assigned (acts s i)).
  { intros i. unfold s', with_act; cbn [acts]. destruct (Nat.eq_dec i b) as [->|Hib].
    - rewrite upd_eq. cbn. auto.
    - rewrite upd_neq by exact Hib. destruct (Nat.eq_dec i a) as [->|Hia]; [rewrite upd_eq; cbn; auto|rewrite upd_neq by exact Hia; auto]. }
  assert (Hb' : acts s' b = set_gpreds (set_deps (acts s b) db) gb).
  { unfold s', with_act; cbn [acts]. rewrite upd_eq. reflexivity. }
  assert (Ha' : acts s' a = set_succs (acts s a) sa).
  { unfold s', with_act; cbn [acts]. rewrite upd_neq by exact Hab. rewrite upd_eq. reflexivity. }
  assert (Ho : forall i, i <> a -> i <> b -> acts s' i = acts s i).
  { intros i H1 H2. unfold s', with_act; cbn [acts]. rewrite !upd_neq by assumption. reflexivity. }
  assert (Hdeps : forall i, i <> b -> a_deps (acts s' i) = a_deps (acts s i)).
  { intros i H. destruct (Nat.eq_dec i a) as [->|Hia]; [rewrite Ha'; reflexivity|rewrite Ho by assumption; reflexivity]. }
  assert (Hgps : forall i, i <> b -> a_gpreds (acts s' i) = a_gpreds (acts s i)).
  { intros i H. destruct (Nat.eq_dec i a) as [->|Hia]; [rewrite Ha'; reflexivity|rewrite Ho by assumption; reflexivity]. }
  assert (Hsus : forall i, i <> a -> a_succs (acts s' i) = a_succs (acts s i)).
  { intros i H. destruct (Nat.eq_dec i b) as [->|Hib]; [rewrite Hb'; reflexivity|rewrite Ho by assumption; reflexivity]. }
  assert (Hstb : forall i, startable (acts s' i) = startable (acts s i)).
  { intros i. unfold startable. destruct (Hst i) as [E _]. rewrite E. reflexivity. }
  constructor.
  - intros p Hp. destruct (Hst p) as [E1 [E2 _]]. rewrite E1 in Hp. rewrite E2. apply (i_fin s I); exact Hp.
  - intros b0 p Hp. destruct (Hst p) as [E1 _]. rewrite E1.
    destruct (Nat.eq_dec b0 b) as [->|Hne].
    + rewrite Hb' in Hp |- *. cbn in Hp |- *. destruct (Nat.eq_dec p a) as [->|Hpa]; [left; apply Hgd; exact Hp|].
      destruct (Hg1 p Hp) as [H|H]; [contradiction|].
      destruct (i_A s I b p H) as [H2|H2]; [left; apply Hd2; assumption|right; exact H2].
    + rewrite Hgps in Hp by exact Hne. rewrite Hdeps by exact Hne. apply (i_A s I); exact Hp.
  - intros b0 Hs. unfold started_or_done in Hs. destruct (Hst b0) as [E1 [E2 [E3 E4]]]. rewrite E1 in Hs.
    destruct (i_guard s I b0 Hs) as [G1 [ts [G2 [G3 G4]]]]. unfold guard_ok. rewrite E4, E3.
    split; [exact G1|]. exists ts. split; [exact G2|]. split; [exact G3|].
    intros p Hp. destruct (Hst p) as [F1 [F2 _]]. rewrite F1, F2. apply G4.
    destruct (Nat.eq_dec b0 b) as [->|Hne].
    + rewrite Hb' in Hp. cbn in Hp. pose proof (sod_not_startable _ Hs) as Hns.
      destruct (Hg1 p Hp) as [->|H]; [|exact H]. rewrite (Hgst Hp) in Hns. discriminate.
    + rewrite Hgps in Hp by exact Hne. exact Hp.
  - intros b0 Hs. rewrite Hstb in Hs. destruct (Nat.eq_dec b0 b) as [->|Hne].
    + rewrite Hb'. cbn. destruct db as [|d r]; [reflexivity|]. exfalso.
      destruct (Nat.eq_dec d a) as [->|Hda].
      * rewrite Hdst in Hs by (left; reflexivity). discriminate.
      * pose proof (Hd1 d (or_introl eq_refl) Hda) as H. rewrite (i_sd s I b Hs) in H. contradiction.
    + rewrite Hdeps by exact Hne. apply (i_sd s I); exact Hs.
  - intros a0 b0 H. destruct (Nat.eq_dec a0 a) as [->|Hne].
    + rewrite Ha' in H. cbn in H. destruct (Nat.eq_dec b0 b) as [->|Hnb].
      * rewrite Hb'. cbn. apply Hbd; exact H.
      * rewrite Hdeps by exact Hnb. apply (i_E2 s I). apply Hsa; assumption.
    + rewrite Hsus in H by exact Hne. pose proof (i_E2 s I a0 b0 H) as H2.
      destruct (Nat.eq_dec b0 b) as [->|Hnb]; [rewrite Hb'; cbn; apply Hd2; assumption|rewrite Hdeps by exact Hnb; exact H2].
  - intros a0. destruct (Nat.eq_dec a0 a) as [->|Hne]; [rewrite Ha'; exact Hnd|rewrite Hsus by exact Hne; apply (i_nd s I)].
  - intros b0 p H. change (nacts s') with (nacts s). destruct (Nat.eq_dec b0 b) as [->|Hne].
    + rewrite Hb' in H. cbn in H. destruct (Hg1 p H) as [->|H1]; [exact Ha|apply (i_bnd s I b); exact H1].
    + rewrite Hgps in H by exact Hne. apply (i_bnd s I b0); exact H.
  - intros i Hi. change (nacts s') with (nacts s) in Hi. rewrite Ho by lia. apply (i_fresh s I); exact Hi.
Qed.

(** * 3. complete(): pointwise characterisation of release_dependencies *)
Lemma start_acts : forall s b i, acts (start s b) i = upd (acts s) b (start_act (now s) (acts s b)) i.
Proof. reflexivity. Qed.

Lemma rel_act_eq : forall a t x,
  rel_act a t x = (if is_nil (set_del a (a_deps x)) then start_act t (set_deps x (set_del a (a_deps x)))
                   else set_deps x (set_del a (a_deps x))).
Proof. reflexivity. Qed.

Lemma relstep_facts : forall a s b,
  now (relstep a s b) = now s /\ nacts (relstep a s b) = nacts s /\
  forall i, acts (relstep a s b) i = upd (acts s) b (rel_act a (now s) (acts s b)) i.
Proof.
  intros a s b. unfold relstep. rewrite rel_act_eq. cbn [a_deps set_deps].
  destruct (is_nil (set_del a (a_deps (acts s b)))) eqn:E.
  - split; [reflexivity|]. split; [reflexivity|]. intros i. rewrite start_acts. cbn [with_act acts now].
    unfold upd. rewrite Nat.eqb_refl. destruct (Nat.eqb i b) eqn:Ei; reflexivity.
  - split; [reflexivity|]. split; [reflexivity|]. reflexivity.
Qed.

Lemma release_facts : forall a l s, NoDup l ->
  now (fold_left (relstep a) l s) = now s /\ nacts (fold_left (relstep a) l s) = nacts s /\
  (forall i, In i l -> acts (fold_left (relstep a) l s) i = rel_act a (now s) (acts s i)) /\
  (forall i, ~ In i l -> acts (fold_left (relstep a) l s) i = acts s i).
Proof.
  induction l as [|b r IH]; intros s Hnd; cbn [fold_left].
  - repeat split; auto. intros i [].
  - inv Hnd. destruct (relstep_facts a s b) as [R1 [R2 R3]].
    destruct (IH (relstep a s b) H2) as [I1 [I2 [I3 I4]]].
    split; [congruence|]. split; [congruence|]. split.
    + intros i [->|Hi].
      * rewrite I4 by exact H1. rewrite R3, upd_eq. reflexivity.
      * rewrite I3 by exact Hi. rewrite R1, R3. rewrite upd_neq; [reflexivity|]. intros ->. contradiction.
    + intros i Hi. rewrite I4 by (intros H; apply Hi; right; exact H). rewrite R3. apply upd_neq. intros ->. apply Hi. left; reflexivity.
Qed.

Lemma complete_facts : forall s a, NoDup (a_succs (acts s a)) -> ~ In a (a_succs (acts s a)) ->
  now (complete s a) = now s /\ nacts (complete s a) = nacts s /\
  acts (complete s a) a = set_succs (set_finished (acts s a) (now s)) [] /\
  (forall i, i <> a -> In i (a_succs (acts s a)) -> acts (complete s a) i = rel_act a (now s) (acts s i)) /\
  (forall i, i <> a -> ~ In i (a_succs (acts s a)) -> acts (complete s a) i = acts s i).
Proof.
  intros s a Hnd Hself. unfold complete.
  set (s0 := mkSt (upd (acts s) a (set_finished (acts s a) (now s))) (nacts s) (now s) (EvFinish a (now s) :: trace s)).
  assert (Hnd' : NoDup (rev (a_succs (acts s a)))) by (apply NoDup_rev; exact Hnd).
  destruct (release_facts a (rev (a_succs (acts s a))) s0 Hnd') as [R1 [R2 [R3 R4]]].
  cbn [now nacts acts]. split; [exact R1|]. split; [exact R2|]. split.
  - rewrite upd_eq. rewrite R4 by (rewrite <- in_rev; exact Hself). unfold s0; cbn [acts]. rewrite upd_eq. reflexivity.
  - split; intros i Hia Hi; rewrite upd_neq by exact Hia.
    + rewrite R3 by (rewrite <- in_rev; exact Hi). unfold s0; cbn [acts now]. rewrite upd_neq by exact Hia. reflexivity.
    + rewrite R4 by (rewrite <- in_rev; exact Hi). unfold s0; cbn [acts]. rewrite upd_neq by exact Hia. reflexivity.
Qed.

(** outcomes of one release step on a successor *)
Lemma rel_act_cases : forall a t x,
  let d := set_del a (a_deps x) in
  (d <> [] /\ rel_act a t x = set_deps x d) \/
  (d = [] /\ a_assigned x = false /\ rel_act a t x = set_state (set_deps x []) STARTING) \/
  (d = [] /\ a_assigned x = true /\ rel_act a t x = set_started (set_state (set_deps x []) STARTING) t).
Proof.
  intros a t x d. rewrite rel_act_eq. fold d. destruct d as [|y r] eqn:Ed; cbn [is_nil].
  - right. unfold start_act. cbn. destruct (a_assigned x); [right|left]; auto.
  - left. split; [discriminate|reflexivity].
Qed.

Lemma set_now_inv : forall s t, inv s -> now s <= t -> inv (set_now s t).
Proof.
  intros s t I Ht. constructor; unfold guard_ok; cbn [set_now acts nacts now].
  - intros p Hp. destruct (i_fin s I p Hp) as [x [H1 H2]]. exists x. split; [exact H1|lia].
  - apply (i_A s I).
  - intros b Hs. destruct (i_guard s I b Hs) as [G1 [ts [G2 [G3 G4]]]]. split; [exact G1|]. exists ts.
    split; [exact G2|]. split; [lia|exact G4].
  - apply (i_sd s I).
  - apply (i_E2 s I).
  - apply (i_nd s I).
  - apply (i_bnd s I).
  - apply (i_fresh s I).
Qed.

Lemma complete_inv : forall s a, inv s -> a_state (acts s a) = STARTED -> inv (complete s a).
Proof.
  intros s a I Hsa.
  assert (Hda : a_deps (acts s a) = []) by (apply (i_sd s I); unfold startable; rewrite Hsa; reflexivity).
  assert (Hself : ~ In a (a_succs (acts s a))).
  { intros H. apply (i_E2 s I) in H. rewrite Hda in H. contradiction. }
  destruct (complete_facts s a (i_nd s I a) Hself) as [C1 [C2 [C3 [C4 C5]]]].
  set (s' := complete s a) in *.
  assert (Hsuc : forall i, In i (a_succs (acts s a)) -> i <> a /\ startable (acts s i) = true /\ In a (a_deps (acts s i))).
  { intros i Hi. pose proof (i_E2 s I a i Hi) as H. split; [intros ->; contradiction|]. split; [eapply deps_dg; eauto|exact H]. }
  assert (Hcls : forall i, i = a \/ (i <> a /\ In i (a_succs (acts s a))) \/ (i <> a /\ ~ In i (a_succs (acts s a)))).
  { intros i. destruct (Nat.eq_dec i a); [left; assumption|right].
    destruct (in_dec Nat.eq_dec i (a_succs (acts s a))); [left|right]; auto. }
  assert (Hgp : forall i, a_gpreds (acts s' i) = a_gpreds (acts s i)).
  { intros i. destruct (Hcls i) as [->|[[H1 H2]|[H1 H2]]].
    - rewrite C3. reflexivity.
    - rewrite C4 by assumption. destruct (rel_act_cases a (now s) (acts s i)) as [[_ E]|[[_ [_ E]]|[_ [_ E]]]]; rewrite E; reflexivity.
    - rewrite C5 by assumption. reflexivity. }
  assert (Hkeep : forall p, a_state (acts s p) = FINISHED -> acts s' p = acts s p).
  { intros p Hp. apply C5.
    - intros ->. congruence.
    - intros Hin. destruct (Hsuc p Hin) as [_ [H _]]. apply startable_states in H. destruct H as [H|H]; congruence. }
  assert (Hfa : a_state (acts s' a) = FINISHED /\ a_tfinish (acts s' a) = Some (now s)) by (rewrite C3; split; reflexivity).
  constructor.
  - (* i_fin *) intros p Hp. rewrite C1. destruct (Hcls p) as [->|[[H1 H2]|[H1 H2]]].
    + exists (now s). split; [apply Hfa|lia].
    + exfalso. destruct (Hsuc p H2) as [_ [Hst _]]. apply startable_states in Hst. rewrite C4 in Hp by assumption.
      destruct (rel_act_cases a (now s) (acts s p)) as [[_ E]|[[_ [_ E]]|[_ [_ E]]]]; rewrite E in Hp; cbn in Hp; try discriminate.
      destruct Hst; congruence.
    + rewrite C5 in Hp |- * by assumption. apply (i_fin s I); exact Hp.
  - (* i_A *) intros b p Hp. rewrite Hgp in Hp. destruct (i_A s I b p Hp) as [H|H].
    2:{ right. rewrite (Hkeep p H). exact H. }
    destruct (Hcls b) as [->|[[H1 H2]|[H1 H2]]].
    + rewrite Hda in H. contradiction.
    + destruct (Nat.eq_dec p a) as [->|Hpa]; [right; apply Hfa|]. left. rewrite C4 by assumption.
      assert (Hin : In p (set_del a (a_deps (acts s b)))) by (apply set_del_In; auto).
      destruct (rel_act_cases a (now s) (acts s b)) as [[_ E]|[[E0 _]|[E0 _]]]; [rewrite E; exact Hin| |]; cbn zeta in E0; rewrite E0 in Hin; contradiction.
    + left. rewrite C5 by assumption. exact H.
  - (* i_guard *) intros b Hs. unfold guard_ok. rewrite Hgp, C1.
    assert (Hps : forall p ts, a_state (acts s p) = FINISHED -> (exists tf, a_tfinish (acts s p) = Some tf /\ tf <= ts) ->
                  a_state (acts s' p) = FINISHED /\ exists tf, a_tfinish (acts s' p) = Some tf /\ tf <= ts).
    { intros p ts Hp Ht. rewrite (Hkeep p Hp). auto. }
    destruct (Hcls b) as [->|[[H1 H2]|[H1 H2]]].
    + destruct (i_guard s I a (or_introl Hsa)) as [G1 [ts [G2 [G3 G4]]]]. rewrite C3. cbn.
      split; [exact G1|]. exists ts. repeat split; try assumption; destruct (G4 p H) as [Q1 Q2]; apply (Hps p ts Q1 Q2).
    + destruct (Hsuc b H2) as [_ [Hst _]]. rewrite C4 in Hs |- * by assumption. unfold started_or_done in Hs.
      destruct (rel_act_cases a (now s) (acts s b)) as [[_ E]|[[_ [_ E]]|[E0 [E1 E]]]]; rewrite E in Hs |- *; cbn in Hs |- *.
      * apply startable_states in Hst. destruct Hs, Hst; congruence.
      * destruct Hs; discriminate.
      * split; [exact E1|]. exists (now s). split; [reflexivity|]. split; [lia|]. intros p Hp.
        destruct (i_A s I b p Hp) as [H|H].
        -- destruct (Nat.eq_dec p a) as [->|Hpa].
           ++ split; [apply Hfa|]. exists (now s). split; [apply Hfa|lia].
           ++ exfalso. assert (Hin : In p (set_del a (a_deps (acts s b)))) by (apply set_del_In; auto).
              cbn zeta in E0. rewrite E0 in Hin. contradiction.
        -- apply Hps; [exact H|]. destruct (i_fin s I p H) as [t [T1 T2]]. exists t; auto.
    + rewrite C5 in Hs |- * by assumption. destruct (i_guard s I b Hs) as [G1 [ts [G2 [G3 G4]]]].
      split; [exact G1|]. exists ts. repeat split; try assumption; destruct (G4 p H) as [Q1 Q2]; apply (Hps p ts Q1 Q2).
  - (* i_sd *) intros b Hs. destruct (Hcls b) as [->|[[H1 H2]|[H1 H2]]].
    + rewrite C3. cbn. exact Hda.
    + destruct (Hsuc b H2) as [_ [Hst _]]. rewrite C4 in Hs |- * by assumption.
      destruct (rel_act_cases a (now s) (acts s b)) as [[_ E]|[[_ [_ E]]|[E0 [E1 E]]]]; rewrite E in Hs |- *; cbn in Hs |- *;
        try reflexivity; try discriminate.
      unfold startable in Hs, Hst. cbn in Hs. congruence.
    + rewrite C5 in Hs |- * by assumption. apply (i_sd s I); exact Hs.
  - (* i_E2 *) intros a0 b0 H. destruct (Nat.eq_dec a0 a) as [->|Hne]; [rewrite C3 in H; contradiction|].
    assert (Hsu0 : a_succs (acts s' a0) = a_succs (acts s a0)).
    { destruct (Hcls a0) as [->|[[H1 H2]|[H1 H2]]]; [contradiction| |rewrite C5 by assumption; reflexivity].
      rewrite C4 by assumption. destruct (rel_act_cases a (now s) (acts s a0)) as [[_ E]|[[_ [_ E]]|[_ [_ E]]]]; rewrite E; reflexivity. }
    rewrite Hsu0 in H. pose proof (i_E2 s I a0 b0 H) as H2.
    destruct (Hcls b0) as [->|[[H3 H4]|[H3 H4]]].
    + rewrite Hda in H2. contradiction.
    + rewrite C4 by assumption. assert (Hin : In a0 (set_del a (a_deps (acts s b0)))) by (apply set_del_In; auto).
      destruct (rel_act_cases a (now s) (acts s b0)) as [[_ E]|[[E0 _]|[E0 _]]]; [rewrite E; exact Hin| |]; cbn zeta in E0; rewrite E0 in Hin; contradiction.
    + rewrite C5 by assumption. exact H2.
  - (* i_nd *) intros a0. destruct (Hcls a0) as [->|[[H1 H2]|[H1 H2]]].
    + rewrite C3. constructor.
    + rewrite C4 by assumption. destruct (rel_act_cases a (now s) (acts s a0)) as [[_ E]|[[_ [_ E]]|[_ [_ E]]]]; rewrite E; apply (i_nd s I).
    + rewrite C5 by assumption. apply (i_nd s I).
  - intros b p H. rewrite Hgp in H. rewrite C2. apply (i_bnd s I b); exact H.
  - intros i Hi. rewrite C2 in Hi. destruct (i_fresh s I i Hi) as [F1 [F2 _]]. rewrite C5; [apply (i_fresh s I); exact Hi| |].
    + intros ->. congruence.
    + intros Hin. destruct (Hsuc i Hin) as [_ [_ H]]. rewrite F2 in H. contradiction.
Qed.

(** * 4. the event loop and the script operations preserve the invariant *)
Lemma next_ev_spec : forall f ids a d, next_ev f ids = Some (a, d) -> In a ids /\ fin_date (f a) = Some d.
Proof.
  induction ids as [|i r IH]; cbn [next_ev]; intros a d H; [discriminate|].
  destruct (fin_date (f i)) as [di|] eqn:Ei.
  - destruct (next_ev f r) as [[j e]|] eqn:En.
    + destruct (di <=? e); inv H; [split; [left; reflexivity|exact Ei]|].
      destruct (IH a d eq_refl) as [H1 H2]. split; [right; exact H1|exact H2].
    + inv H. split; [left; reflexivity|exact Ei].
  - destruct (IH a d H) as [H1 H2]. split; [right; exact H1|exact H2].
Qed.
Lemma fin_date_started : forall x d, fin_date x = Some d -> a_state x = STARTED.
Proof. intros x d; unfold fin_date. destruct (a_state x); try discriminate. reflexivity. Qed.

Lemma release_now : forall a l s, now (fold_left (relstep a) l s) = now s /\ nacts (fold_left (relstep a) l s) = nacts s.
Proof.
  induction l as [|b r IH]; intros s; cbn [fold_left]; [split; reflexivity|].
  destruct (relstep_facts a s b) as [R1 [R2 _]]. destruct (IH (relstep a s b)) as [I1 I2]. split; congruence.
Qed.
Lemma complete_now : forall s a, now (complete s a) = now s /\ nacts (complete s a) = nacts s.
Proof. intros s a. unfold complete. cbn [now nacts]. match goal with |- now (fold_left _ ?l ?s0) = _ /\ _ => destruct (release_now a l s0) as [R1 R2] end. rewrite R1, R2. split; reflexivity. Qed.

Lemma complete_keeps_started : forall s a b, inv s -> a_state (acts s a) = STARTED -> b <> a ->
  a_state (acts s b) = STARTED -> a_state (acts (complete s a) b) = STARTED.
Proof.
  intros s a b I Ha Hne Hb.
  assert (Hda : a_deps (acts s a) = []) by (apply (i_sd s I); unfold startable; rewrite Ha; reflexivity).
  assert (Hself : ~ In a (a_succs (acts s a))) by (intros H; apply (i_E2 s I) in H; rewrite Hda in H; contradiction).
  destruct (complete_facts s a (i_nd s I a) Hself) as [_ [_ [_ [_ C5]]]].
  rewrite C5; [exact Hb|exact Hne|].
  intros Hin. apply (i_E2 s I) in Hin. rewrite (i_sd s I b) in Hin; [contradiction|]. unfold startable; rewrite Hb; reflexivity.
Qed.

Lemma batch_fold_inv : forall l s, inv s -> NoDup l -> (forall a, In a l -> a_state (acts s a) = STARTED) ->
  inv (fold_left complete l s) /\ now (fold_left complete l s) = now s /\ nacts (fold_left complete l s) = nacts s.
Proof.
  induction l as [|a r IH]; intros s I Hnd Hst; cbn [fold_left]; [auto|].
  inv Hnd. assert (Ha : a_state (acts s a) = STARTED) by (apply Hst; left; reflexivity).
  destruct (complete_now s a) as [C1 C2].
  destruct (IH (complete s a)) as [J1 [J2 J3]].
  - apply complete_inv; assumption.
  - exact H2.
  - intros b Hb. apply complete_keeps_started; auto; [intros ->; contradiction|apply Hst; right; exact Hb].
  - split; [exact J1|split; congruence].
Qed.

Lemma due_list : forall s t, let l := filter (fun i => due t (acts s i)) (seq 0 (nacts s)) in
  NoDup l /\ forall a, In a l -> a_state (acts s a) = STARTED.
Proof.
  intros s t l. split; [apply NoDup_filter; apply seq_NoDup|].
  intros a Ha. apply filter_In in Ha. destruct Ha as [_ Hd]. unfold due in Hd.
  destruct (fin_date (acts s a)) eqn:E; [|discriminate]. eapply fin_date_started; eauto.
Qed.

Lemma batch_inv : forall s t, inv s -> inv (batch s t) /\ now (batch s t) = Z.max (now s) t /\ nacts (batch s t) = nacts s.
Proof.
  intros s t I. unfold batch. destruct (due_list s t) as [D1 D2].
  assert (I1 : inv (set_now s (Z.max (now s) t))) by (apply set_now_inv; [exact I|lia]).
  destruct (batch_fold_inv _ (set_now s (Z.max (now s) t)) I1 D1 D2) as [J1 [J2 J3]].
  split; [exact J1|]. split; [exact J2|exact J3].
Qed.

Lemma drain_le : forall fuel t s, now s <= t -> now (drain fuel (Some t) s) <= t.
Proof.
  induction fuel as [|f IH]; intros t s Hs; cbn [drain]; [exact Hs|].
  destruct (next_ev (acts s) (seq 0 (nacts s))) as [[a d]|]; [|exact Hs].
  destruct (d <? t) eqn:E1.
  - apply IH. destruct (complete_now (set_now s (Z.max (now s) d)) a) as [C _]. rewrite C. cbn. lia.
  - destruct (d =? t); [|exact Hs]. unfold batch.
    match goal with |- now (fold_left complete ?l ?s0) <= _ => assert (E : now (fold_left complete l s0) = now s0) end.
    { generalize (set_now s (Z.max (now s) t)). generalize (filter (fun i => due t (acts s i)) (seq 0 (nacts s))).
      induction l as [|x r IHl]; intros s0; cbn [fold_left]; [reflexivity|]. rewrite IHl. apply complete_now. }
    rewrite E. cbn. lia.
Qed.

Lemma drain_inv : forall fuel lim s, inv s -> inv (drain fuel lim s) /\ now s <= now (drain fuel lim s) /\ nacts (drain fuel lim s) = nacts s.
Proof.
  induction fuel as [|f IH]; intros lim s I; cbn [drain]; [split; [exact I|split; [lia|reflexivity]]|].
  destruct (next_ev (acts s) (seq 0 (nacts s))) as [[a d]|] eqn:En; [|split; [exact I|split; [lia|reflexivity]]].
  destruct (next_ev_spec _ _ _ _ En) as [_ Hf]. apply fin_date_started in Hf.
  assert (I1 : inv (set_now s (Z.max (now s) d))) by (apply set_now_inv; [exact I|lia]).
  assert (I2 : inv (complete (set_now s (Z.max (now s) d)) a)) by (apply complete_inv; [exact I1|exact Hf]).
  destruct (complete_now (set_now s (Z.max (now s) d)) a) as [C1 C2]. cbn [set_now now nacts] in C1, C2.
  assert (Step : inv (drain f lim (complete (set_now s (Z.max (now s) d)) a)) /\
                 now s <= now (drain f lim (complete (set_now s (Z.max (now s) d)) a)) /\
                 nacts (drain f lim (complete (set_now s (Z.max (now s) d)) a)) = nacts s).
  { destruct (IH lim _ I2) as [J1 [J2 J3]]. split; [exact J1|]. split; [lia|congruence]. }
  destruct lim as [t|]; [|exact Step].
  destruct (d <? t); [exact Step|].
  destruct (d =? t); [|split; [exact I|split; [lia|reflexivity]]].
  destruct (batch_inv s t I) as [B1 [B2 B3]]. split; [exact B1|]. split; [lia|exact B3].
Qed.

Lemma step_inv : forall s o s', inv s -> step s o = Ok s' -> inv s' /\ now s <= now s'.
Proof.
  intros s0 o s' I0 H. pose proof (log_op_inv s0 o I0) as I. unfold step in H.
  set (s := log_op s0 o) in *. change (now s0) with (now s).
  destruct o as [k dur|a b|a b|b|b|t|]; cbn zeta in H.
  - destruct (_ || _); [discriminate|]. injection H as <-. split; [exact (create_inv s k dur I)|cbn; lia].
  - destruct ((a <? nacts s)%nat && (b <? nacts s)%nat) eqn:Eb; cbn [negb] in H; [|discriminate].
    apply andb_true_iff in Eb. destruct Eb as [Ea Eb]. apply Nat.ltb_lt in Ea, Eb.
    destruct (Nat.eqb_spec a b) as [|Hab]; [discriminate|].
    destruct (memb b (a_succs (acts s a))) eqn:Em; [discriminate|]. apply memb_false in Em.
    destruct (startable (acts s b)) eqn:Es; cbn [negb] in H; [|discriminate].
    injection H as <-. split; [|cbn; lia].
    rewrite !(upd_neq (acts s0) a _ b) by auto. apply (edge_inv s); try assumption; try (intros; assumption).
    + apply NoDup_rev in Em || idtac. rewrite <- (rev_involutive (_ ++ [b])). apply NoDup_rev. rewrite rev_app_distr. cbn.
      constructor; [rewrite <- in_rev; exact Em|apply NoDup_rev; apply (i_nd s I)].
    + intros b0 Hin Hne. apply in_app_or in Hin. destruct Hin as [Hin|[Hin|[]]]; [exact Hin|congruence].
    + intros _. apply set_add_In. left; reflexivity.
    + intros p Hp Hne. apply set_add_In in Hp. destruct Hp; [contradiction|assumption].
    + intros p Hp _. apply set_add_In. right; exact Hp.
    + intros p Hp. apply set_add_In in Hp. exact Hp.
    + intros _. apply set_add_In. left; reflexivity.
  - destruct ((a <? nacts s)%nat && (b <? nacts s)%nat) eqn:Eb; cbn [negb] in H; [|discriminate].
    apply andb_true_iff in Eb. destruct Eb as [Ea Eb]. apply Nat.ltb_lt in Ea, Eb.
    destruct (Nat.eqb_spec a b) as [|Hab]; [discriminate|].
    destruct (memb b (a_succs (acts s a))) eqn:Em; cbn [negb] in H; [|discriminate]. apply memb_In in Em.
    injection H as <-. split; [|cbn; lia].
    rewrite !(upd_neq (acts s0) a _ b) by auto. destruct (del_first_NoDup b _ (i_nd s I a)) as [D1 D2].
    apply (edge_inv s); try assumption.
    + intros b0 Hin _. eapply del_first_In; eauto.
    + intros Hin. contradiction.
    + intros p Hp _. apply set_del_In in Hp. tauto.
    + intros p Hp Hne. apply set_del_In. auto.
    + intros p Hp. apply set_del_In in Hp. tauto.
    + intros Hp. apply set_del_In in Hp. tauto.
    + intros Hp. apply set_del_In in Hp. tauto.
    + intros Hp. apply set_del_In in Hp. tauto.
  - destruct (b <? nacts s)%nat eqn:Eb; cbn [negb] in H; [|discriminate]. apply Nat.ltb_lt in Eb.
    destruct (startable (acts s b)) eqn:Es; cbn [negb] in H; [|discriminate].
    destruct (match a_kind (acts s b) with KComm => a_assigned (acts s b) | _ => false end); [discriminate|].
    assert (Hx : startable (set_assigned (acts s b) (now s)) = true) by exact Es.
    cbn [a_kind set_assigned] in H.
    destruct (a_kind (acts s b)).
    + destruct (astate_eqb _ STARTING); injection H as <-; (split; [|cbn; lia]).
      * apply (put_started_inv s b _ I Eb Es); auto.
      * apply (with_act_inv s b _ I Eb Es); auto.
    + injection H as <-. split; [|cbn; lia]. apply (put_started_inv s b _ I Eb Es); auto.
    + destruct (astate_eqb _ STARTING); injection H as <-; (split; [|cbn; lia]).
      * apply (put_started_inv s b _ I Eb Es); auto.
      * apply (with_act_inv s b _ I Eb Es); auto.
  - destruct (b <? nacts s)%nat eqn:Eb; cbn [negb] in H; [|discriminate]. apply Nat.ltb_lt in Eb.
    destruct (startable (acts s b)) eqn:Es; cbn [negb] in H; [|discriminate].
    injection H as <-. split; [|cbn; lia]. apply (put_started_inv s b _ I Eb Es); auto.
  - destruct (t <? now s) eqn:Et; [discriminate|]. injection H as <-.
    destruct (drain_inv (nacts s) (Some t) s I) as [J1 [J2 J3]].
    assert (now s <= t) by lia.
    split; [|cbn [set_now now]; exact H].
    apply (set_now_inv (drain (nacts s) (Some t) s)); [exact J1|]. apply drain_le; exact H.
  - injection H as <-. destruct (drain_inv (nacts s) None s I) as [J1 [J2 J3]]. split; [exact J1|exact J2].
Qed.

Lemma run_from_inv : forall ops s s' k, inv s -> run_from s ops = (Ok s', k) -> inv s' /\ now s <= now s'.
Proof.
  induction ops as [|o r IH]; intros s s' k I H; cbn [run_from] in H.
  - inv H. split; [exact I|lia].
  - destruct (step s o) as [s1| |] eqn:Es; try (inv H; fail).
    destruct (step_inv s o s1 I Es) as [I1 L1].
    destruct (run_from s1 r) as [x k'] eqn:Er. inv H.
    destruct (IH s1 s' k' I1 Er) as [I2 L2]. split; [exact I2|lia].
Qed.

(** C13, first sentence: whatever the script, an activity that is started (or finished) is assigned, and every
    predecessor declared for it (and not removed) has finished, no later than it started. *)
Theorem start_guard : forall ops s, run ops = Ok s -> forall b,
  a_state (acts s b) = STARTED \/ a_state (acts s b) = FINISHED ->
  a_assigned (acts s b) = true /\
  exists ts, a_tstart (acts s b) = Some ts /\ ts <= now s /\
    forall p, In p (a_gpreds (acts s b)) ->
      a_state (acts s p) = FINISHED /\ exists tf, a_tfinish (acts s p) = Some tf /\ tf <= ts.
Proof.
  intros ops s H b Hb. unfold run in H. destruct (run_from init_st ops) as [x k] eqn:E. cbn in H. subst x.
  destruct (run_from_inv ops init_st s k inv_init E) as [I _]. exact (i_guard s I b Hb).
Qed.


(** * 5. Start dates: an activity starts at the date of the event that made it ready *)
Definition trigger_ok (s : st) (b : nat) (ts : Z) : Prop :=
  0 <= ts /\ started_or_done (acts s b) /\
  (forall t, a_tassign (acts s b) = Some t -> t <= ts) /\ (forall t, a_treq (acts s b) = Some t -> t <= ts) /\
  (a_tassign (acts s b) = Some ts \/ a_treq (acts s b) = Some ts \/
   exists p, In p (a_gpreds (acts s b)) /\ a_tfinish (acts s p) = Some ts).

Record kinv (s : st) : Prop := {
  k_now : 0 <= now s;
  k_dates : forall b t, a_tassign (acts s b) = Some t \/ a_treq (acts s b) = Some t -> t <= now s;
  k_dg : forall a b, In a (a_deps (acts s b)) -> In a (a_gpreds (acts s b));
  k_start : forall b ts, a_tstart (acts s b) = Some ts -> trigger_ok s b ts;
  k_tf : forall p t, a_tfinish (acts s p) = Some t -> a_state (acts s p) = FINISHED }.

Lemma kinv_init : kinv init_st.
Proof. constructor; cbn; intros; try lia; try contradiction; try discriminate. destruct H; discriminate. Qed.

Lemma startable_not_sod : forall x, startable x = true -> ~ started_or_done x.
Proof. intros x H S. apply sod_not_startable in S. congruence. Qed.

Lemma k_upd : forall s s' b x',
  kinv s -> (forall i, acts s' i = upd (acts s) b x' i) -> now s' = now s ->
  startable (acts s b) = true ->
  a_gpreds x' = a_gpreds (acts s b) -> a_deps x' = a_deps (acts s b) -> a_tfinish x' = a_tfinish (acts s b) ->
  (forall t, a_tassign x' = Some t -> a_tassign (acts s b) = Some t \/ t = now s) ->
  (forall t, a_treq x' = Some t -> a_treq (acts s b) = Some t \/ t = now s) ->
  (a_tstart x' = a_tstart (acts s b) \/
   (a_state x' = STARTED /\ a_tstart x' = Some (now s) /\ (a_tassign x' = Some (now s) \/ a_treq x' = Some (now s)))) ->
  kinv s'.
Proof.
  intros s s' b x' K Ha Hnow Hst Hgp Hdp Htf Hta Htr Hx.
  assert (Hnone : a_tstart (acts s b) = None).
  { destruct (a_tstart (acts s b)) as [ts|] eqn:E; [|reflexivity]. destruct (k_start s K b ts E) as [_ [S _]].
    exfalso. eapply startable_not_sod; eauto. }
  assert (Htfn : forall t, a_tfinish (acts s b) <> Some t).
  { intros t E. apply (k_tf s K) in E. apply startable_states in Hst. destruct Hst; congruence. }
  assert (Htf' : forall p, a_tfinish (acts s' p) = a_tfinish (acts s p)).
  { intros p. rewrite Ha. destruct (Nat.eq_dec p b) as [->|Hne]; [rewrite upd_eq; exact Htf|rewrite upd_neq by exact Hne; reflexivity]. }
  assert (Hgp' : forall p, a_gpreds (acts s' p) = a_gpreds (acts s p)).
  { intros p. rewrite Ha. destruct (Nat.eq_dec p b) as [->|Hne]; [rewrite upd_eq; exact Hgp|rewrite upd_neq by exact Hne; reflexivity]. }
  pose proof (k_now s K) as H0.
  constructor.
  - rewrite Hnow. exact H0.
  - intros b0 t H. rewrite Hnow. rewrite Ha in H. destruct (Nat.eq_dec b0 b) as [->|Hne].
    + rewrite upd_eq in H. destruct H as [H|H]; [destruct (Hta t H) as [H1|H1]|destruct (Htr t H) as [H1|H1]]; try lia;
        apply (k_dates s K b); auto.
    + rewrite upd_neq in H by exact Hne. apply (k_dates s K b0); exact H.
  - intros a b0 H. rewrite Hgp'. rewrite Ha in H. destruct (Nat.eq_dec b0 b) as [->|Hne].
    + rewrite upd_eq, Hdp in H. apply (k_dg s K); exact H.
    + rewrite upd_neq in H by exact Hne. apply (k_dg s K); exact H.
  - intros b0 ts H. unfold trigger_ok. rewrite Hgp'. rewrite Ha in H |- *. destruct (Nat.eq_dec b0 b) as [->|Hne].
    + rewrite upd_eq in H |- *. destruct Hx as [Hx|[X1 [X2 X3]]]; [rewrite Hx, Hnone in H; discriminate|].
      rewrite X2 in H. inv H. split; [exact H0|]. split; [left; exact X1|].
      split; [|split].
      * intros t Ht. destruct (Hta t Ht) as [H1|H1]; [apply (k_dates s K b); auto|lia].
      * intros t Ht. destruct (Htr t Ht) as [H1|H1]; [apply (k_dates s K b); auto|lia].
      * destruct X3; auto.
    + rewrite upd_neq in H |- * by exact Hne. destruct (k_start s K b0 ts H) as [T0 [T1 [T2 [T3 T4]]]].
      repeat split; try assumption. destruct T4 as [T|[T|[p [P1 P2]]]]; auto. right; right. exists p. split; [exact P1|].
      rewrite Htf'. exact P2.
  - intros p t H. rewrite Htf' in H. pose proof (k_tf s K p t H) as Hf. rewrite Ha. rewrite upd_neq; [exact Hf|].
    intros ->. apply startable_states in Hst. destruct Hst; congruence.
Qed.

Lemma k_put_started : forall s b x, kinv s -> startable (acts s b) = true ->
  a_gpreds x = a_gpreds (acts s b) -> a_deps x = a_deps (acts s b) -> a_tfinish x = a_tfinish (acts s b) ->
  a_tstart x = a_tstart (acts s b) ->
  (forall t, a_tassign x = Some t -> a_tassign (acts s b) = Some t \/ t = now s) ->
  (forall t, a_treq x = Some t -> a_treq (acts s b) = Some t \/ t = now s) ->
  (a_tassign x = Some (now s) \/ a_treq x = Some (now s)) ->
  kinv (put_started s b (start_act (now s) x)).
Proof.
  intros s b x K Hst Hgp Hdp Htf Hts Hta Htr Hone.
  eapply (k_upd s _ b (start_act (now s) x) K); try reflexivity; try assumption;
    destruct (start_act_cases (now s) x) as [[E _]|[E _]]; rewrite E; cbn; try assumption.
  - left; exact Hts.
  - right. auto.
Qed.

Lemma k_edge : forall s a b sa db gb, inv s -> kinv s -> a <> b -> startable (acts s b) = true ->
  (forall p, In p db -> In p gb) ->
  kinv (with_act (with_act s a (set_succs (acts s a) sa)) b (set_gpreds (set_deps (acts s b) db) gb)).
Proof.
  intros s a b sa db gb I K Hab Hst Hsub. set (s' := with_act _ _ _).
  assert (Hb' : acts s' b = set_gpreds (set_deps (acts s b) db) gb) by (unfold s', with_act; cbn [acts]; rewrite upd_eq; reflexivity).
  assert (Ha' : acts s' a = set_succs (acts s a) sa) by (unfold s', with_act; cbn [acts]; rewrite upd_neq by exact Hab; rewrite upd_eq; reflexivity).
  assert (Ho : forall i, i <> a -> i <> b -> acts s' i = acts s i) by (intros i H1 H2; unfold s', with_act; cbn [acts]; rewrite !upd_neq by assumption; reflexivity).
  assert (Hsame : forall i, a_state (acts s' i) = a_state (acts s i) /\ a_tfinish (acts s' i) = a_tfinish (acts s i) /\
            a_tstart (acts s' i) = a_tstart (acts s i) /\ a_tassign (acts s' i) = a_tassign (acts s i) /\ a_treq (acts s' i) = a_treq (acts s i)).
  { intros i. destruct (Nat.eq_dec i b) as [->|Hib]; [rewrite Hb'; cbn; auto 6|].
    destruct (Nat.eq_dec i a) as [->|Hia]; [rewrite Ha'; cbn; auto 6|rewrite Ho by assumption; auto 6]. }
  assert (Hnone : a_tstart (acts s b) = None).
  { destruct (a_tstart (acts s b)) as [ts|] eqn:E; [|reflexivity]. destruct (k_start s K b ts E) as [_ [S _]].
    exfalso. eapply startable_not_sod; eauto. }
  constructor.
  - exact (k_now s K).
  - intros b0 t H. destruct (Hsame b0) as [_ [_ [_ [E1 E2]]]]. rewrite E1, E2 in H. apply (k_dates s K b0); exact H.
  - intros a0 b0 H. destruct (Nat.eq_dec b0 b) as [->|Hne].
    + rewrite Hb' in H |- *. cbn in H |- *. apply Hsub; exact H.
    + destruct (Nat.eq_dec b0 a) as [->|Hna]; [rewrite Ha' in H |- *|rewrite Ho in H |- * by assumption]; cbn in H |- *; apply (k_dg s K); exact H.
  - intros b0 ts H. destruct (Hsame b0) as [E0 [_ [E1 [E2 E3]]]]. rewrite E1 in H.
    destruct (Nat.eq_dec b0 b) as [->|Hne]; [rewrite Hnone in H; discriminate|].
    destruct (k_start s K b0 ts H) as [T0 [T1 [T2 [T3 T4]]]]. unfold trigger_ok, started_or_done. rewrite E0, E2, E3.
    repeat split; try assumption. destruct T4 as [T|[T|[p [P1 P2]]]]; auto. right; right. exists p.
    destruct (Hsame p) as [_ [F _]]. rewrite F. split; [|exact P2].
    destruct (Nat.eq_dec b0 a) as [->|Hna]; [rewrite Ha'|rewrite Ho by assumption]; exact P1.
  - intros p t H. destruct (Hsame p) as [E0 [E1 _]]. rewrite E1 in H. rewrite E0. apply (k_tf s K p t); exact H.
Qed.

Lemma k_set_now : forall s t, kinv s -> now s <= t -> kinv (set_now s t).
Proof.
  intros s t K Ht. constructor; cbn [set_now acts now].
  - pose proof (k_now s K). lia.
  - intros b x H. pose proof (k_dates s K b x H). lia.
  - apply (k_dg s K).
  - intros b ts H. exact (k_start s K b ts H).
  - apply (k_tf s K).
Qed.

Lemma k_complete : forall s a, inv s -> kinv s -> a_state (acts s a) = STARTED -> kinv (complete s a).
Proof.
  intros s a I K Hsa.
  assert (Hda : a_deps (acts s a) = []) by (apply (i_sd s I); unfold startable; rewrite Hsa; reflexivity).
  assert (Hself : ~ In a (a_succs (acts s a))).
  { intros H. apply (i_E2 s I) in H. rewrite Hda in H. contradiction. }
  destruct (complete_facts s a (i_nd s I a) Hself) as [C1 [C2 [C3 [C4 C5]]]].
  set (s' := complete s a) in *.
  assert (Hsuc : forall i, In i (a_succs (acts s a)) -> i <> a /\ startable (acts s i) = true /\ In a (a_deps (acts s i))).
  { intros i Hi. pose proof (i_E2 s I a i Hi) as H. split; [intros ->; contradiction|]. split; [eapply deps_dg; eauto|exact H]. }
  assert (Hcls : forall i, i = a \/ (i <> a /\ In i (a_succs (acts s a))) \/ (i <> a /\ ~ In i (a_succs (acts s a)))).
  { intros i. destruct (Nat.eq_dec i a); [left; assumption|right].
    destruct (in_dec Nat.eq_dec i (a_succs (acts s a))); [left|right]; auto. }
  assert (Hsame : forall i, a_gpreds (acts s' i) = a_gpreds (acts s i) /\ a_tassign (acts s' i) = a_tassign (acts s i) /\
                            a_treq (acts s' i) = a_treq (acts s i) /\ (i <> a -> a_tfinish (acts s' i) = a_tfinish (acts s i))).
  { intros i. destruct (Hcls i) as [->|[[H1 H2]|[H1 H2]]].
    - rewrite C3. cbn. repeat split; auto. intros H; contradiction.
    - rewrite C4 by assumption. destruct (rel_act_cases a (now s) (acts s i)) as [[_ E]|[[_ [_ E]]|[_ [_ E]]]]; rewrite E; cbn; auto.
    - rewrite C5 by assumption. auto. }
  assert (Hkeep : forall p t, a_tfinish (acts s p) = Some t -> a_tfinish (acts s' p) = Some t).
  { intros p t H. destruct (Hsame p) as [_ [_ [_ E]]]. rewrite E; [exact H|]. intros ->. apply (k_tf s K) in H. congruence. }
  constructor.
  - rewrite C1. exact (k_now s K).
  - intros b t H. rewrite C1. destruct (Hsame b) as [_ [E1 [E2 _]]]. rewrite E1, E2 in H. apply (k_dates s K b); exact H.
  - intros a0 b H. destruct (Hsame b) as [E _]. rewrite E. apply (k_dg s K).
    destruct (Hcls b) as [->|[[H1 H2]|[H1 H2]]].
    + rewrite C3 in H. cbn in H. exact H.
    + rewrite C4 in H by assumption.
      destruct (rel_act_cases a (now s) (acts s b)) as [[_ E0]|[[_ [_ E0]]|[_ [_ E0]]]]; rewrite E0 in H; cbn in H; try contradiction.
      apply set_del_In in H. tauto.
    + rewrite C5 in H by assumption. exact H.
  - intros b ts H. unfold trigger_ok. destruct (Hsame b) as [E1 [E2 [E3 _]]]. rewrite E1, E2, E3.
    assert (Hold : a_tstart (acts s b) = Some ts -> (a_state (acts s' b) = a_state (acts s b) \/ b = a) ->
                   0 <= ts /\ started_or_done (acts s' b) /\ (forall t, a_tassign (acts s b) = Some t -> t <= ts) /\
                   (forall t, a_treq (acts s b) = Some t -> t <= ts) /\
                   (a_tassign (acts s b) = Some ts \/ a_treq (acts s b) = Some ts \/
                    exists p, In p (a_gpreds (acts s b)) /\ a_tfinish (acts s' p) = Some ts)).
    { intros Hts Hstate. destruct (k_start s K b ts Hts) as [T0 [T1 [T2 [T3 T4]]]]. split; [exact T0|]. split.
      - destruct Hstate as [Hs| ->]; [unfold started_or_done; rewrite Hs; exact T1|right; rewrite C3; reflexivity].
      - repeat split; try assumption. destruct T4 as [T|[T|[p [P1 P2]]]]; auto. right; right. exists p. split; [exact P1|apply Hkeep; exact P2]. }
    destruct (Hcls b) as [->|[[H1 H2]|[H1 H2]]].
    + rewrite C3 in H. cbn in H. apply Hold; auto.
    + destruct (Hsuc b H2) as [_ [Hst Hin]]. rewrite C4 in H by assumption.
      assert (Hnone : a_tstart (acts s b) = None).
      { destruct (a_tstart (acts s b)) as [t0|] eqn:E; [|reflexivity]. destruct (k_start s K b t0 E) as [_ [S _]].
        exfalso. eapply startable_not_sod; eauto. }
      destruct (rel_act_cases a (now s) (acts s b)) as [[_ E]|[[_ [_ E]]|[_ [_ E]]]]; rewrite E in H; cbn in H; try congruence.
      inv H. pose proof (k_now s K). split; [assumption|]. split.
      * left. rewrite C4 by assumption. rewrite E. reflexivity.
      * split; [intros t Ht; apply (k_dates s K b); auto|]. split; [intros t Ht; apply (k_dates s K b); auto|].
        right; right. exists a. split; [apply (k_dg s K); exact Hin|rewrite C3; reflexivity].
    + rewrite C5 in H by assumption. apply Hold; [exact H|]. left. rewrite C5 by assumption. reflexivity.
  - intros p t H. destruct (Hcls p) as [->|[[H1 H2]|[H1 H2]]].
    + rewrite C3. reflexivity.
    + destruct (Hsuc p H2) as [_ [Hst _]]. destruct (Hsame p) as [_ [_ [_ E]]]. rewrite E in H by assumption.
      apply (k_tf s K) in H. apply startable_states in Hst. destruct Hst; congruence.
    + rewrite C5 in H |- * by assumption. apply (k_tf s K p t); exact H.
Qed.

Lemma batch_fold_kinv : forall l s, inv s -> kinv s -> NoDup l -> (forall a, In a l -> a_state (acts s a) = STARTED) ->
  kinv (fold_left complete l s).
Proof.
  induction l as [|a r IH]; intros s I K Hnd Hst; cbn [fold_left]; [exact K|].
  inv Hnd. assert (Ha : a_state (acts s a) = STARTED) by (apply Hst; left; reflexivity).
  apply IH.
  - apply complete_inv; assumption.
  - apply k_complete; assumption.
  - exact H2.
  - intros b Hb. apply complete_keeps_started; auto; [intros ->; contradiction|apply Hst; right; exact Hb].
Qed.

Lemma k_drain : forall fuel lim s, inv s -> kinv s -> kinv (drain fuel lim s).
Proof.
  induction fuel as [|f IH]; intros lim s I K; cbn [drain]; [exact K|].
  destruct (next_ev (acts s) (seq 0 (nacts s))) as [[a d]|] eqn:En; [|exact K].
  destruct (next_ev_spec _ _ _ _ En) as [_ Hf]. apply fin_date_started in Hf.
  assert (I1 : inv (set_now s (Z.max (now s) d))) by (apply set_now_inv; [exact I|lia]).
  assert (K1 : kinv (set_now s (Z.max (now s) d))) by (apply k_set_now; [exact K|lia]).
  assert (Step : kinv (drain f lim (complete (set_now s (Z.max (now s) d)) a))).
  { apply IH; [apply complete_inv; assumption|apply k_complete; assumption]. }
  destruct lim as [t|]; [|exact Step].
  destruct (d <? t); [exact Step|]. destruct (d =? t); [|exact K].
  unfold batch. destruct (due_list s t) as [D1 D2].
  apply batch_fold_kinv; [apply set_now_inv; [exact I|lia]|apply k_set_now; [exact K|lia]|exact D1|exact D2].
Qed.

Lemma k_step : forall s o s', inv s -> kinv s -> step s o = Ok s' -> kinv s'.
Proof.
  intros s0 o s' I0 K0 H. pose proof (log_op_inv s0 o I0) as I.
  assert (K : kinv (log_op s0 o)) by (destruct K0; constructor; cbn; assumption).
  unfold step in H. set (s := log_op s0 o) in *.
  destruct o as [k dur|a b|a b|b|b|t|]; cbn zeta in H.
  - destruct (_ || _); [discriminate|]. injection H as <-.
    assert (Fr : fresh (acts s (nacts s))) by (apply (i_fresh s I); lia).
    assert (Hlt : forall b p, In p (a_gpreds (acts s b)) -> p <> nacts s) by (intros b p Hp; pose proof (i_bnd s I b p Hp); lia).
    constructor; cbn [acts now].
    + exact (k_now s K).
    + intros b t H. destruct (Nat.eq_dec b (nacts s)) as [->|Hne]; [rewrite upd_eq in H; cbn in H; destruct H; discriminate|].
      rewrite upd_neq in H by exact Hne. apply (k_dates s K b); exact H.
    + intros a b H. destruct (Nat.eq_dec b (nacts s)) as [->|Hne]; [rewrite upd_eq in H; contradiction|].
      rewrite upd_neq in H |- * by exact Hne. apply (k_dg s K); exact H.
    + intros b ts H. destruct (Nat.eq_dec b (nacts s)) as [->|Hne]; [rewrite upd_eq in H; discriminate|].
      rewrite upd_neq in H by exact Hne. destruct (k_start s K b ts H) as [T0 [T1 [T2 [T3 T4]]]].
      unfold trigger_ok; cbn [acts]. rewrite upd_neq by exact Hne. repeat split; try assumption.
      destruct T4 as [T|[T|[p [P1 P2]]]]; auto. right; right. exists p. split; [exact P1|].
      rewrite upd_neq by (eapply Hlt; eauto). exact P2.
    + intros p t H. destruct (Nat.eq_dec p (nacts s)) as [->|Hne]; [rewrite upd_eq in H; discriminate|].
      rewrite upd_neq in H |- * by exact Hne. apply (k_tf s K p t); exact H.
  - destruct ((a <? nacts s)%nat && (b <? nacts s)%nat) eqn:Eb; cbn [negb] in H; [|discriminate].
    destruct (Nat.eqb_spec a b) as [|Hab]; [discriminate|].
    destruct (memb b (a_succs (acts s a))) eqn:Em; [discriminate|].
    destruct (startable (acts s b)) eqn:Es; cbn [negb] in H; [|discriminate].
    injection H as <-. rewrite !(upd_neq (acts s0) a _ b) by auto. apply (k_edge s); try assumption.
    intros p Hp. apply set_add_In in Hp. apply set_add_In. destruct Hp as [->|Hp]; [left; reflexivity|right; apply (k_dg s K); exact Hp].
  - destruct ((a <? nacts s)%nat && (b <? nacts s)%nat) eqn:Eb; cbn [negb] in H; [|discriminate].
    destruct (Nat.eqb_spec a b) as [|Hab]; [discriminate|].
    destruct (memb b (a_succs (acts s a))) eqn:Em; cbn [negb] in H; [|discriminate]. apply memb_In in Em.
    injection H as <-. rewrite !(upd_neq (acts s0) a _ b) by auto. apply (k_edge s); try assumption.
    + eapply deps_dg; [exact I|]. apply (i_E2 s I a b); exact Em.
    + intros p Hp. apply set_del_In in Hp. apply set_del_In. split; [tauto|apply (k_dg s K); tauto].
  - destruct (b <? nacts s)%nat eqn:Eb; cbn [negb] in H; [|discriminate].
    destruct (startable (acts s b)) eqn:Es; cbn [negb] in H; [|discriminate].
    destruct (match a_kind (acts s b) with KComm => a_assigned (acts s b) | _ => false end); [discriminate|].
    cbn [a_kind set_assigned] in H.
    assert (P : kinv (put_started s b (start_act (now s) (set_assigned (acts s b) (now s))))).
    { apply (k_put_started s b _ K Es); cbn; auto. intros t Ht. inv Ht. auto. }
    assert (W : kinv (with_act s b (set_assigned (acts s b) (now s)))).
    { eapply (k_upd s _ b _ K); try reflexivity; try assumption; cbn; auto. intros t Ht. inv Ht. auto. }
    destruct (a_kind (acts s b)); [destruct (astate_eqb _ STARTING)| |destruct (astate_eqb _ STARTING)]; injection H as <-; assumption.
  - destruct (b <? nacts s)%nat eqn:Eb; cbn [negb] in H; [|discriminate].
    destruct (startable (acts s b)) eqn:Es; cbn [negb] in H; [|discriminate].
    injection H as <-. apply (k_put_started s b _ K Es); cbn; auto. intros t Ht. inv Ht. auto.
  - destruct (t <? now s) eqn:Et; [discriminate|]. injection H as <-.
    apply (k_set_now (drain (nacts s) (Some t) s)); [apply k_drain; assumption|apply drain_le; lia].
  - injection H as <-. apply k_drain; assumption.
Qed.

Lemma max_list_ub : forall l m, 0 <= m -> (forall x, In x l -> x <= m) -> max_list l <= m.
Proof. induction l as [|y r IH]; cbn; intros m H0 H; [exact H0|]. pose proof (H y (or_introl eq_refl)). assert (max_list r <= m) by (apply IH; auto). unfold max_list in *. lia. Qed.
Lemma max_list_ge : forall l x, In x l -> x <= max_list l.
Proof. induction l as [|y r IH]; cbn; intros x H; [contradiction|]. destruct H as [->|H]; [unfold max_list; lia|]. specialize (IH x H). unfold max_list in *. lia. Qed.
Lemma max_list_nonneg : forall l, 0 <= max_list l.
Proof. induction l as [|y r IH]; cbn; unfold max_list in *; lia. Qed.

Lemma run_from_kinv : forall ops s s' k, inv s -> kinv s -> run_from s ops = (Ok s', k) -> kinv s'.
Proof.
  induction ops as [|o r IH]; intros s s' k I K H; cbn [run_from] in H.
  - inv H. exact K.
  - destruct (step s o) as [s1| |] eqn:Es; try (inv H; fail).
    destruct (step_inv s o s1 I Es) as [I1 _]. pose proof (k_step s o s1 I K Es) as K1.
    destruct (run_from s1 r) as [x k'] eqn:Er. inv H. eapply IH; eauto.
Qed.

(** C13, third sentence, for every script (remove_successor included): an activity starts exactly at the latest of the
    finish dates of its declared predecessors, its (latest) assignment and its (latest) start request. *)
Theorem start_at_max : forall ops s, run ops = Ok s -> forall b ts, a_tstart (acts s b) = Some ts ->
  ts = Z.max (Z.max (max_list (map (fun p => odef (a_tfinish (acts s p))) (a_gpreds (acts s b))))
                    (odef (a_tassign (acts s b)))) (odef (a_treq (acts s b))).
Proof.
  intros ops s H b ts Hts. unfold run in H. destruct (run_from init_st ops) as [x k] eqn:E. cbn in H. subst x.
  destruct (run_from_inv ops init_st s k inv_init E) as [I _].
  pose proof (run_from_kinv ops init_st s k inv_init kinv_init E) as K.
  destruct (k_start s K b ts Hts) as [T0 [T1 [T2 [T3 T4]]]].
  destruct (i_guard s I b T1) as [_ [ts' [G2 [_ G4]]]]. rewrite Hts in G2. inv G2.
  set (l := map (fun p => odef (a_tfinish (acts s p))) (a_gpreds (acts s b))).
  assert (Hub : max_list l <= ts').
  { apply max_list_ub; [exact T0|]. intros x Hx. apply in_map_iff in Hx. destruct Hx as [p [<- Hp]].
    destruct (G4 p Hp) as [_ [tf [F1 F2]]]. rewrite F1. exact F2. }
  assert (Ha : odef (a_tassign (acts s b)) <= ts') by (destruct (a_tassign (acts s b)) as [t|] eqn:Et; cbn; [apply T2; reflexivity|exact T0]).
  assert (Hr : odef (a_treq (acts s b)) <= ts') by (destruct (a_treq (acts s b)) as [t|] eqn:Et; cbn; [apply T3; reflexivity|exact T0]).
  destruct T4 as [T|[T|[p [P1 P2]]]].
  - rewrite T in *. cbn in *. lia.
  - rewrite T in *. cbn in *. lia.
  - assert (ts' <= max_list l).
    { apply max_list_ge. apply in_map_iff. exists p. split; [rewrite P2; reflexivity|exact P1]. }
    lia.
Qed.

(** * 6. Liveness: in an acyclic workflow where everything is assigned, Engine::run() finishes every activity *)
Definition good_state (x : act) : Prop :=
  a_state x = INITED \/ a_state x = STARTING \/ a_state x = STARTED \/ a_state x = FINISHED.
Record settled (s : st) (rank : nat -> nat) : Prop := {
  s_asg : forall b, (b < nacts s)%nat -> a_assigned (acts s b) = true;
  s_ready : forall b, (b < nacts s)%nat -> startable (acts s b) = true -> a_deps (acts s b) <> [];
  s_deps : forall b p, In p (a_deps (acts s b)) ->
             (p < nacts s)%nat /\ a_state (acts s p) <> FINISHED /\ (rank p < rank b)%nat /\ In b (a_succs (acts s p));
  s_states : forall b, good_state (acts s b) }.

Definition is_fin (x : act) : bool := astate_eqb (a_state x) FINISHED.
Lemma is_fin_true : forall x, is_fin x = true <-> a_state x = FINISHED.
Proof. intros x; unfold is_fin; destruct (a_state x); cbn; split; intros; try discriminate; reflexivity. Qed.
Definition nf (s : st) : nat := length (filter (fun i => negb (is_fin (acts s i))) (seq 0 (nacts s))).

Lemma count_flip : forall (f g : nat -> bool) l a, NoDup l -> In a l -> f a = true -> g a = false ->
  (forall i, i <> a -> g i = f i) -> (length (filter g l) < length (filter f l))%nat.
Proof.
  induction l as [|x r IH]; intros a Hnd Hin Hf Hg Hsame; [contradiction|]. inv Hnd. cbn [filter].
  destruct (Nat.eq_dec x a) as [->|Hne].
  - rewrite Hf, Hg. cbn [length].
    assert (E : filter g r = filter f r).
    { apply filter_ext_in. intros i Hi. apply Hsame. intros ->. contradiction. }
    rewrite E. lia.
  - destruct Hin as [->|Hin]; [contradiction|]. rewrite (Hsame x Hne). specialize (IH a H2 Hin Hf Hg Hsame).
    destruct (f x); cbn [length]; lia.
Qed.

Lemma next_ev_some : forall f ids c d, In c ids -> fin_date (f c) = Some d -> next_ev f ids <> None.
Proof.
  induction ids as [|i r IH]; intros c d Hin Hd; [contradiction|]. cbn [next_ev]. destruct Hin as [->|Hin].
  - rewrite Hd. destruct (next_ev f r) as [[j e]|]; [destruct (d <=? e)|]; discriminate.
  - specialize (IH c d Hin Hd). destruct (fin_date (f i)); [|exact IH].
    destruct (next_ev f r) as [[j e]|]; [destruct (_ <=? _); discriminate|contradiction].
Qed.

Lemma some_started : forall s rank, inv s -> settled s rank ->
  forall k b, (rank b <= k)%nat -> (b < nacts s)%nat -> a_state (acts s b) <> FINISHED ->
  exists c, (c < nacts s)%nat /\ a_state (acts s c) = STARTED.
Proof.
  intros s rank I S. induction k as [|k IH]; intros b Hk Hb Hnf.
  - destruct (s_states s rank S b) as [H|[H|[H|H]]]; [| |exists b; auto|contradiction];
      (assert (Hst : startable (acts s b) = true) by (unfold startable; rewrite H; reflexivity);
       pose proof (s_ready s rank S b Hb Hst) as Hd; destruct (a_deps (acts s b)) as [|p r] eqn:Ed; [contradiction|];
       destruct (s_deps s rank S b p) as [_ [_ [Hr _]]]; [rewrite Ed; left; reflexivity|lia]).
  - destruct (s_states s rank S b) as [H|[H|[H|H]]]; [| |exists b; auto|contradiction];
      (assert (Hst : startable (acts s b) = true) by (unfold startable; rewrite H; reflexivity);
       pose proof (s_ready s rank S b Hb Hst) as Hd; destruct (a_deps (acts s b)) as [|p r] eqn:Ed; [contradiction|];
       destruct (s_deps s rank S b p) as [Hp [Hpf [Hr _]]]; [rewrite Ed; left; reflexivity|];
       apply (IH p); [lia|exact Hp|exact Hpf]).
Qed.

Lemma settled_set_now : forall s rank t, settled s rank -> settled (set_now s t) rank.
Proof. intros s rank t S. destruct S. constructor; cbn [set_now acts nacts]; assumption. Qed.

Lemma complete_settled : forall s rank a, inv s -> settled s rank -> (a < nacts s)%nat -> a_state (acts s a) = STARTED ->
  settled (complete s a) rank /\ (nf (complete s a) < nf s)%nat.
Proof.
  intros s rank a I S Han Hsa.
  assert (Hda : a_deps (acts s a) = []) by (apply (i_sd s I); unfold startable; rewrite Hsa; reflexivity).
  assert (Hself : ~ In a (a_succs (acts s a))).
  { intros H. apply (i_E2 s I) in H. rewrite Hda in H. contradiction. }
  destruct (complete_facts s a (i_nd s I a) Hself) as [C1 [C2 [C3 [C4 C5]]]].
  set (s' := complete s a) in *.
  assert (Hsuc : forall i, In i (a_succs (acts s a)) -> i <> a /\ startable (acts s i) = true /\ In a (a_deps (acts s i))).
  { intros i Hi. pose proof (i_E2 s I a i Hi) as H. split; [intros ->; contradiction|]. split; [eapply deps_dg; eauto|exact H]. }
  assert (Hcls : forall i, i = a \/ (i <> a /\ In i (a_succs (acts s a))) \/ (i <> a /\ ~ In i (a_succs (acts s a)))).
  { intros i. destruct (Nat.eq_dec i a); [left; assumption|right].
    destruct (in_dec Nat.eq_dec i (a_succs (acts s a))); [left|right]; auto. }
  (* what happens to an activity other than a *)
  assert (Hoth : forall i, i <> a ->
            a_assigned (acts s' i) = a_assigned (acts s i) /\ a_succs (acts s' i) = a_succs (acts s i) /\
            (forall p, In p (a_deps (acts s' i)) -> p <> a /\ In p (a_deps (acts s i))) /\
            (a_state (acts s i) <> FINISHED -> a_state (acts s' i) <> FINISHED) /\
            (a_state (acts s i) = FINISHED -> a_state (acts s' i) = FINISHED) /\
            good_state (acts s' i) /\
            (startable (acts s' i) = true -> (i < nacts s)%nat -> a_deps (acts s' i) <> [])).
  { intros i Hia. destruct (Hcls i) as [->|[[H1 H2]|[H1 H2]]]; [contradiction| |].
    - destruct (Hsuc i H2) as [_ [Hst Hin]]. rewrite C4 by assumption. pose proof Hst as Hst2. apply startable_states in Hst2.
      destruct (rel_act_cases a (now s) (acts s i)) as [[E0 E]|[[E0 [E1 E]]|[E0 [E1 E]]]]; rewrite E; cbn;
        (split; [reflexivity|]); (split; [reflexivity|]).
      + split; [intros p Hp; apply set_del_In in Hp; tauto|]. split; [auto|]. split; [auto|]. split; [apply (s_states s rank S)|]. intros _ _. exact E0.
      + split; [intros p []|]. split; [intros _; discriminate|]. split; [intros Hf; destruct Hst2; congruence|].
        split; [right; left; reflexivity|]. intros _ Hi. rewrite (s_asg s rank S i Hi) in E1. discriminate.
      + split; [intros p []|]. split; [intros _; discriminate|]. split; [intros Hf; destruct Hst2; congruence|].
        split; [right; right; left; reflexivity|]. intros Hs _. discriminate.
    - rewrite C5 by assumption. split; [reflexivity|]. split; [reflexivity|]. split.
      + intros p Hp. split; [|exact Hp]. intros ->. destruct (s_deps s rank S i a Hp) as [_ [_ [_ Hin]]]. contradiction.
      + split; [auto|]. split; [auto|]. split; [apply (s_states s rank S)|]. intros Hs Hi. apply (s_ready s rank S i Hi Hs). }
  split.
  - constructor.
    + intros b Hb. rewrite C2 in Hb. destruct (Nat.eq_dec b a) as [->|Hne].
      * rewrite C3. cbn. apply (s_asg s rank S a Han).
      * destruct (Hoth b Hne) as [E _]. rewrite E. apply (s_asg s rank S b Hb).
    + intros b Hb Hst. rewrite C2 in Hb. destruct (Nat.eq_dec b a) as [->|Hne].
      * rewrite C3 in Hst. discriminate.
      * destruct (Hoth b Hne) as [_ [_ [_ [_ [_ [_ H]]]]]]. apply H; assumption.
    + intros b p Hp. destruct (Nat.eq_dec b a) as [->|Hne].
      * rewrite C3 in Hp. cbn in Hp. rewrite Hda in Hp. contradiction.
      * destruct (Hoth b Hne) as [_ [_ [Hd _]]]. destruct (Hd p Hp) as [Hpa Hp0].
        destruct (s_deps s rank S b p Hp0) as [D1 [D2 [D3 D4]]]. rewrite C2.
        destruct (Hoth p Hpa) as [_ [Esu [_ [Hnf _]]]]. rewrite Esu. auto.
    + intros b. destruct (Nat.eq_dec b a) as [->|Hne]; [rewrite C3; right; right; right; reflexivity|apply (Hoth b Hne)].
  - unfold nf. rewrite C2. apply (count_flip _ _ (seq 0 (nacts s)) a).
    + apply seq_NoDup.
    + apply in_seq. lia.
    + unfold is_fin. rewrite Hsa. reflexivity.
    + rewrite C3. reflexivity.
    + intros i Hne. f_equal. destruct (Hoth i Hne) as [_ [_ [_ [H1 [H2 _]]]]].
      destruct (is_fin (acts s i)) eqn:E.
      * apply is_fin_true. apply H2. apply is_fin_true. exact E.
      * destruct (is_fin (acts s' i)) eqn:E'; [|reflexivity]. apply is_fin_true in E'. exfalso. apply H1; [|exact E'].
        intros Hf. apply is_fin_true in Hf. congruence.
Qed.

Lemma drain_all_finish : forall fuel s rank, inv s -> settled s rank -> (nf s <= fuel)%nat ->
  forall b, (b < nacts s)%nat -> a_state (acts (drain fuel None s) b) = FINISHED.
Proof.
  induction fuel as [|f IH]; intros s rank I S Hnf b Hb.
  - cbn [drain]. destruct (is_fin (acts s b)) eqn:E; [apply is_fin_true; exact E|]. exfalso.
    assert (Hin : In b (filter (fun i => negb (is_fin (acts s i))) (seq 0 (nacts s)))).
    { apply filter_In. split; [apply in_seq; lia|rewrite E; reflexivity]. }
    unfold nf in Hnf. destruct (filter _ _); [contradiction|cbn in Hnf; lia].
  - cbn [drain]. destruct (next_ev (acts s) (seq 0 (nacts s))) as [[a d]|] eqn:En.
    + destruct (next_ev_spec _ _ _ _ En) as [Hin Hf]. apply fin_date_started in Hf. apply in_seq in Hin.
      set (s1 := set_now s (Z.max (now s) d)).
      assert (I1 : inv s1) by (apply set_now_inv; [exact I|lia]).
      assert (S1 : settled s1 rank) by (apply settled_set_now; exact S).
      destruct (complete_settled s1 rank a I1 S1) as [S2 N2]; [cbn; lia|exact Hf|].
      destruct (complete_now s1 a) as [_ Cn].
      apply (IH (complete s1 a) rank); [apply complete_inv; assumption|exact S2| |rewrite Cn; exact Hb].
      change (nf s1) with (nf s) in N2. lia.
    + destruct (a_state (acts s b)) eqn:Eb; try reflexivity; exfalso;
        (destruct (some_started s rank I S (rank b) b) as [c [Hc Hcs]]; [lia|exact Hb|congruence|]);
        (destruct (i_guard s I c (or_introl Hcs)) as [_ [ts [Hts _]]]);
        (apply (next_ev_some (acts s) (seq 0 (nacts s)) c (ts + a_dur (acts s c))); [apply in_seq; lia|unfold fin_date; rewrite Hcs, Hts; reflexivity|exact En]).
Qed.

Lemma nf_le : forall s, (nf s <= nacts s)%nat.
Proof.
  intros s. unfold nf. rewrite <- (seq_length (nacts s) 0) at 2. generalize (seq 0 (nacts s)). intros l.
  induction l as [|x r IH]; cbn; [lia|]. destruct (negb _); cbn; lia.
Qed.

(** C13, second sentence: from any state a script reaches in which every activity is assigned, every activity that is not
    started still waits for some dependency, dependencies point to unfinished activities that know their successor, and
    the dependency relation is acyclic (it decreases some rank), Engine::run() finishes every activity. *)
Theorem acyclic_all_finish : forall ops s rank, run ops = Ok s -> settled s rank ->
  forall s', step s Run = Ok s' -> forall b, (b < nacts s')%nat -> a_state (acts s' b) = FINISHED.
Proof.
  intros ops s rank H S s' Hs b Hb. unfold run in H. destruct (run_from init_st ops) as [x k] eqn:E. cbn in H. subst x.
  destruct (run_from_inv ops init_st s k inv_init E) as [I _].
  cbn in Hs. injection Hs as <-.
  pose proof (log_op_inv s Run I) as I'.
  assert (S' : settled (log_op s Run) rank) by (destruct S; constructor; cbn; assumption).
  destruct (drain_inv (nacts s) None (log_op s Run) I') as [_ [_ Hn]]. cbn [log_op nacts] in Hn.
  change (nacts (log_op s Run)) with (nacts s) in Hb. rewrite Hn in Hb.
  apply (drain_all_finish (nacts s) (log_op s Run) rank I' S'); [apply (nf_le (log_op s Run))|exact Hb].
Qed.
