(** C13 — proofs about SGV.Kernel.Dag *)
From SGV Require Import Base.Tactics Kernel.Dag.
Local Open Scope Z_scope.

(** * 1. The trace monitor only accepts logs that satisfy the property *)

Lemma assign_date_in : forall past b t, assign_date past b = Some t -> In (EvOp (Assign b) t) past.
Proof.
  induction past as [|e r IH]; cbn [assign_date]; intros b t H; [discriminate|].
  destruct e as [o d| |]; try (right; auto; fail).
  destruct o; try (right; auto; fail).
  destruct (assign_date r b) eqn:E.
  - inv H. right; auto.
  - destruct (Nat.eqb b b0) eqn:Eb; [|discriminate]. apply Nat.eqb_eq in Eb. inv H. left; reflexivity.
Qed.

Lemma finish_date_in : forall past a t, finish_date past a = Some t -> In (EvFinish a t) past.
Proof.
  induction past as [|e r IH]; cbn [finish_date]; intros a t H; [discriminate|].
  destruct e as [o d|b d|b d]; try (right; auto; fail).
  destruct (finish_date r a) eqn:E.
  - inv H. right; auto.
  - destruct (Nat.eqb a b) eqn:Eb; [|discriminate]. apply Nat.eqb_eq in Eb. inv H. left; reflexivity.
Qed.

Lemma edge_eqb_eq : forall x y, edge_eqb x y = true <-> x = y.
Proof.
  intros [a b] [c d]; unfold edge_eqb; cbn. rewrite andb_true_iff, !Nat.eqb_eq. split; [intros [-> ->]; reflexivity|intros H; inv H; auto].
Qed.

(** a dependency declared by add_successor and not removed since is among the predecessors the monitor checks *)
Lemma preds_in_add : forall newer a b t older,
  (forall t', ~ In (EvOp (RemoveSucc a b) t') newer) ->
  In a (preds_in (newer ++ EvOp (AddSucc a b) t :: older) b).
Proof.
  intros newer a b t older Hno. unfold preds_in.
  assert (H : In (a, b) (edges_rev (newer ++ EvOp (AddSucc a b) t :: older))).
  { induction newer as [|e r IH]; cbn [app edges_rev].
    - left; reflexivity.
    - assert (Hr : forall t', ~ In (EvOp (RemoveSucc a b) t') r) by (intros t' Hin; apply (Hno t'); right; exact Hin).
      specialize (IH Hr).
      destruct e as [o d| |]; auto. destruct o; auto.
      + right; exact IH.
      + apply filter_In. split; [exact IH|].
        destruct (edge_eqb (a, b) (a0, b0)) eqn:E; [|reflexivity].
        apply edge_eqb_eq in E. inv E. exfalso. apply (Hno d). left; reflexivity. }
  apply in_map_iff. exists (a, b). split; [reflexivity|]. apply filter_In. split; [exact H|]. cbn. apply Nat.eqb_refl.
Qed.

Definition start_spec (past : list ev) (b : nat) (d : Z) : Prop :=
  (exists ta, assign_date past b = Some ta /\
     (has_remove past = false ->
      d = Z.max (Z.max (max_list (map (fun a => odef (finish_date past a)) (preds_in past b))) ta) (odef (req_date past b)))) /\
  (forall a, In a (preds_in past b) -> exists f, finish_date past a = Some f /\ f <= d).

Lemma start_verdict_spec : forall past b d, start_verdict past b d = 0 -> start_spec past b d.
Proof.
  unfold start_verdict, start_spec. intros past b d H.
  destruct (assign_date past b) as [ta|] eqn:Ea; [|discriminate].
  destruct (forallb _ (preds_in past b)) eqn:Ef; cbn [negb] in H; [|discriminate].
  split.
  - exists ta. split; [reflexivity|]. intros Hr. rewrite Hr in H.
    destruct (d =? _) eqn:Ed; [|discriminate]. lia.
  - intros a Ha. rewrite forallb_forall in Ef. specialize (Ef a Ha).
    destruct (finish_date past a) as [f|]; [|discriminate]. exists f. split; [reflexivity|lia].
Qed.

Lemma monitor_sound_gen : forall todo past,
  monitor past todo = [] ->
  forall pre b d post, todo = pre ++ EvStart b d :: post -> start_spec (rev pre ++ past) b d.
Proof.
  induction todo as [|e r IH]; intros past Hm pre b d post Heq.
  - destruct pre; discriminate.
  - cbn [monitor] in Hm. destruct (ev_verdict past e =? 0) eqn:Ev; [|discriminate].
    destruct pre as [|e' pre'].
    + cbn in Heq. inv Heq. cbn [rev app]. apply start_verdict_spec. cbn [ev_verdict] in Ev. lia.
    + cbn in Heq. inv Heq. cbn [rev]. rewrite <- app_assoc. cbn [app]. eapply IH; [exact Hm|reflexivity].
Qed.

Theorem monitor_sound : forall tr, trace_ok tr = true ->
  forall pre b d post, tr = pre ++ EvStart b d :: post -> start_spec (rev pre) b d.
Proof.
  intros tr H pre b d post Heq. unfold trace_ok in H.
  destruct (monitor [] tr) eqn:Em; [|discriminate].
  pose proof (monitor_sound_gen tr [] Em pre b d post Heq) as Hs. rewrite app_nil_r in Hs. exact Hs.
Qed.

(** * 2. State invariants of the model *)

Lemma upd_eq : forall f b x, upd f b x b = x.
Proof. intros; unfold upd; rewrite Nat.eqb_refl; reflexivity. Qed.
Lemma upd_neq : forall f b x i, i <> b -> upd f b x i = f i.
Proof. intros f b x i H; unfold upd. apply Nat.eqb_neq in H. rewrite H. reflexivity. Qed.

Lemma memb_In : forall a l, memb a l = true <-> In a l.
Proof.
  intros a l; unfold memb. rewrite existsb_exists. split.
  - intros [x [Hx He]]. apply Nat.eqb_eq in He. subst; exact Hx.
  - intros H. exists a. split; [exact H|apply Nat.eqb_refl].
Qed.
Lemma memb_false : forall a l, memb a l = false <-> ~ In a l.
Proof. intros a l. rewrite <- memb_In. destruct (memb a l); split; intros H; try discriminate; try tauto; try (intro; discriminate). Qed.
Lemma set_add_In : forall a x l, In x (set_add a l) <-> x = a \/ In x l.
Proof.
  intros a x l; unfold set_add. destruct (memb a l) eqn:E.
  - apply memb_In in E. split; [auto|intros [->|H]; auto].
  - cbn. split; intros [H|H]; auto.
Qed.
Lemma set_del_In : forall a x l, In x (set_del a l) <-> x <> a /\ In x l.
Proof.
  intros a x l; unfold set_del. rewrite filter_In. split.
  - intros [H1 H2]. split; [|exact H1]. intros ->. rewrite Nat.eqb_refl in H2. discriminate.
  - intros [H1 H2]. split; [exact H2|]. destruct (Nat.eqb_spec a x); [subst; contradiction|reflexivity].
Qed.
Lemma del_first_In : forall a x l, In x (del_first a l) -> In x l.
Proof.
  induction l as [|y r IH]; cbn; [auto|]. destruct (Nat.eqb_spec a y); cbn; intros H; [auto|]. destruct H; auto.
Qed.
Lemma del_first_other : forall a x l, x <> a -> In x l -> In x (del_first a l).
Proof.
  induction l as [|y r IH]; cbn; [auto|]. intros Hn [->|H].
  - destruct (Nat.eqb_spec a x); [subst; contradiction|left; reflexivity].
  - destruct (Nat.eqb_spec a y); [exact H|right; auto].
Qed.
Lemma del_first_NoDup : forall a l, NoDup l -> NoDup (del_first a l) /\ ~ In a (del_first a l).
Proof.
  induction l as [|y r IH]; cbn; intros H; [split; [constructor|auto]|].
  inv H. destruct (Nat.eqb_spec a y).
  - subst. split; assumption.
  - destruct (IH H3) as [I1 I2]. split.
    + constructor; [|exact I1]. intros Hin. apply H2. eapply del_first_In; eauto.
    + intros [->|Hin]; [contradiction|auto].
Qed.
Lemma is_nil_true : forall A (l : list A), is_nil l = true <-> l = [].
Proof. intros A [|x r]; cbn; split; intros; try reflexivity; discriminate. Qed.

(** outcomes of Activity::start() on one activity *)
Lemma start_act_cases : forall t x,
  (start_act t x = set_state x STARTING /\ (a_deps x <> [] \/ a_assigned x = false)) \/
  (start_act t x = set_started (set_state x STARTING) t /\ a_deps x = [] /\ a_assigned x = true).
Proof.
  intros t x. unfold start_act. cbn [set_state a_deps a_assigned].
  destruct (a_deps x) eqn:Ed; cbn [is_nil andb].
  - destruct (a_assigned x); [right; auto|left; auto].
  - left. split; [reflexivity|left; discriminate].
Qed.

Definition started_or_done (x : act) : Prop := a_state x = STARTED \/ a_state x = FINISHED.
Definition guard_ok (s : st) (b : nat) : Prop :=
  a_assigned (acts s b) = true /\
  exists ts, a_tstart (acts s b) = Some ts /\ ts <= now s /\
    forall p, In p (a_gpreds (acts s b)) ->
      a_state (acts s p) = FINISHED /\ exists tf, a_tfinish (acts s p) = Some tf /\ tf <= ts.
Definition fresh (x : act) : Prop := a_state x = INITED /\ a_deps x = [] /\ a_succs x = [] /\ a_gpreds x = [].

Record inv (s : st) : Prop := {
  i_fin : forall p, a_state (acts s p) = FINISHED -> exists t, a_tfinish (acts s p) = Some t /\ t <= now s;
  i_A : forall b p, In p (a_gpreds (acts s b)) -> In p (a_deps (acts s b)) \/ a_state (acts s p) = FINISHED;
  i_guard : forall b, started_or_done (acts s b) -> guard_ok s b;
  i_sd : forall b, startable (acts s b) = false -> a_deps (acts s b) = [];
  i_E2 : forall a b, In b (a_succs (acts s a)) -> In a (a_deps (acts s b));
  i_nd : forall a, NoDup (a_succs (acts s a));
  i_bnd : forall b p, In p (a_gpreds (acts s b)) -> (p < nacts s)%nat;
  i_fresh : forall i, (nacts s <= i)%nat -> fresh (acts s i) }.

Lemma inv_init : inv init_st.
Proof.
  constructor; cbn; intros; try contradiction; try discriminate; try constructor; auto.
  Show.
Qed.

Lemma startable_states : forall x, startable x = true <-> a_state x = INITED \/ a_state x = STARTING.
Proof. intros x; unfold startable; destruct (a_state x); split; intros H; auto; try discriminate; destruct H; discriminate. Qed.
Lemma startable_false : forall x, startable x = false -> a_state x <> INITED /\ a_state x <> STARTING.
Proof. intros x; unfold startable; destruct (a_state x); intros H; try discriminate; split; discriminate. Qed.
Lemma sod_not_startable : forall x, started_or_done x -> startable x = false.
Proof. intros x [H|H]; unfold startable; rewrite H; reflexivity. Qed.
Lemma deps_dg : forall s, inv s -> forall a b, In a (a_deps (acts s b)) -> startable (acts s b) = true.
Proof.
  intros s I a b H. destruct (startable (acts s b)) eqn:E; [reflexivity|].
  rewrite (i_sd s I b E) in H. contradiction.
Qed.
