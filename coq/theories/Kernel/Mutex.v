(** C04 — Mutex (src/kernel/activity/MutexImpl.cpp, src/s4u/s4u_Mutex.cpp, non-MC path).

    Outside the model checker [s4u::Mutex::lock] is ONE blocking simcall  lock_async(issuer)->wait_for(issuer, -1),
    [try_lock] and [unlock] are one answered simcall each.  An actor whose acquisition sits in
    [ongoing_acquisitions_] is therefore blocked in its lock() (it is in its [waiting_synchros_], so the hand-off in
    [unlock] always calls finish()) and cannot issue anything: its operations are [Rejected] by the model.
    The two-simcall MC path (MUTEX_ASYNC_LOCK / MUTEX_WAIT) is NOT modelled.

    Outside the domain: lock() of a NON-recursive mutex by its current owner (POSIX: undefined).  The code lets the call
    return at once (wait_for tests owner_ == issuer_, see the TODO in MutexImpl.hpp) and leaves a stale acquisition in
    the queue; [lock_code] mirrors that, [step] answers [Undefined] without changing the state.

    [fx = true] is the code after the fix (try_lock sets recursive_depth = 1 when it takes a free mutex);
    [fx = false] is the pinned code.

    Ghost state: [held p] = acquisitions obtained by p minus unlocks done by p.  No branch reads it. *)
From SGV Require Import Base.Tactics.
Local Open Scope Z_scope.

Definition pid := Z.

Record acq := mkAcq { a_issuer : pid; a_depth : Z }.          (* MutexAcquisitionImpl: issuer_, recursive_depth_ *)

Record mutex := mkMutex {
  recursive : bool;                                            (* is_recursive_ *)
  owner : option pid;                                          (* owner_ *)
  depth : Z;                                                   (* recursive_depth *)
  queue : list acq;                                            (* ongoing_acquisitions_ *)
  held : pid -> Z                                              (* ghost *)
}.

Inductive op := Lock (p : pid) | TryLock (p : pid) | Unlock (p : pid).

Inductive out :=
| Rejected            (* the issuer is blocked in a lock() on this mutex: the call cannot exist *)
| Undefined           (* owner re-locks a non-recursive mutex *)
| Acquired            (* lock() returns at once *)
| Blocked             (* lock() blocks *)
| TryOk | TryFail
| Released (woken : option pid)   (* unlock() done; Some q: ownership handed to q, whose lock() returns now *)
| Error.              (* xbt_assert(issuer == owner_) fails: the simulation aborts *)

Definition issuer_of (o : op) : pid := match o with Lock p | TryLock p | Unlock p => p end.

Definition upd (f : pid -> Z) (p : pid) (v : Z) : pid -> Z := fun q => if q =? p then v else f q.
Definition in_queue (p : pid) (q : list acq) : bool := existsb (fun a => a_issuer a =? p) q.
Definition is_owner (m : mutex) (p : pid) : bool := match owner m with Some o => o =? p | None => false end.

(* for (auto acq : ongoing_acquisitions_) if (acq->get_issuer() == issuer) { acq->recursive_depth_++; return acq; } *)
Fixpoint bump (p : pid) (q : list acq) : option (list acq) :=
  match q with
  | [] => None
  | a :: r => if a_issuer a =? p then Some (mkAcq (a_issuer a) (a_depth a + 1) :: r)
              else match bump p r with Some r' => Some (a :: r') | None => None end
  end.

(* MutexImpl::lock_async followed by MutexAcquisitionImpl::wait_for *)
Definition lock_code (m : mutex) (p : pid) : mutex * out :=
  if recursive m then
    if is_owner m p then
      (mkMutex true (owner m) (depth m + 1) (queue m) (upd (held m) p (held m p + 1)), Acquired)
    else match owner m with
    | None => (mkMutex true (Some p) 1 (queue m) (upd (held m) p (held m p + 1)), Acquired)
    | Some _ =>
      match bump p (queue m) with
      | Some q' => (mkMutex true (owner m) (depth m) q' (held m), Blocked)
      | None => (mkMutex true (owner m) (depth m) (queue m ++ [mkAcq p 1]) (held m), Blocked)
      end
    end
  else
    match owner m with
    | None => (mkMutex false (Some p) 1 (queue m) (upd (held m) p (held m p + 1)), Acquired)
    | Some o =>
      let m' := mkMutex false (owner m) (depth m) (queue m ++ [mkAcq p 1]) (held m) in
      if o =? p then (mkMutex false (owner m) (depth m) (queue m ++ [mkAcq p 1]) (upd (held m) p (held m p + 1)), Acquired)
      else (m', Blocked)                                       (* wait_for: owner_ == issuer_ ? finish() : stay queued *)
    end.

(* MutexImpl::try_lock *)
Definition try_code (fx : bool) (m : mutex) (p : pid) : mutex * out :=
  if is_owner m p && recursive m then
    (mkMutex (recursive m) (owner m) (depth m + 1) (queue m) (upd (held m) p (held m p + 1)), TryOk)
  else match owner m with
  | Some _ => (m, TryFail)
  | None => (mkMutex (recursive m) (Some p) (if fx then 1 else depth m) (queue m) (upd (held m) p (held m p + 1)), TryOk)
  end.

(* MutexImpl::unlock *)
Definition unlock_code (m : mutex) (p : pid) : mutex * out :=
  if negb (is_owner m p) then (m, Error)
  else
    let h := upd (held m) p (held m p - 1) in
    let d := if recursive m then depth m - 1 else depth m in
    if recursive m && (0 <? d) then (mkMutex (recursive m) (owner m) d (queue m) h, Released None)
    else match queue m with
    | a :: r => (mkMutex (recursive m) (Some (a_issuer a)) (a_depth a) r
                         (upd h (a_issuer a) (h (a_issuer a) + 1)), Released (Some (a_issuer a)))
    | [] => (mkMutex (recursive m) None d [] h, Released None)
    end.

Definition undefined_region (m : mutex) (o : op) : bool :=
  match o with Lock p => negb (recursive m) && is_owner m p | _ => false end.

Definition step (fx : bool) (m : mutex) (o : op) : mutex * out :=
  if in_queue (issuer_of o) (queue m) then (m, Rejected)
  else if undefined_region m o then (m, Undefined)
  else match o with
       | Lock p => lock_code m p
       | TryLock p => try_code fx m p
       | Unlock p => unlock_code m p
       end.

Definition init (rec : bool) : mutex := mkMutex rec None 0 [] (fun _ => 0).

Definition exec_from (fx : bool) (m : mutex) (ops : list op) : mutex := fold_left (fun m o => fst (step fx m o)) ops m.
Definition exec (fx rec : bool) (ops : list op) : mutex := exec_from fx (init rec) ops.

Fixpoint run (fx : bool) (m : mutex) (ops : list op) : list (op * out) :=
  match ops with
  | [] => []
  | o :: r => let '(m', x) := step fx m o in (o, x) :: run fx m' r
  end.

(** quantities of a trace the property talks about *)
Definition gets (p : pid) (e : op * out) : Z :=          (* 1 when this step gives the mutex (once more) to p *)
  match e with
  | (Lock q, Acquired) | (TryLock q, TryOk) => if q =? p then 1 else 0
  | (Unlock _, Released (Some q)) => if q =? p then 1 else 0
  | _ => 0
  end.
Definition gives (p : pid) (e : op * out) : Z :=         (* 1 when this step is a successful unlock by p *)
  match e with
  | (Unlock q, Released _) => if q =? p then 1 else 0
  | _ => 0
  end.
Fixpoint total (f : op * out -> Z) (tr : list (op * out)) : Z :=
  match tr with [] => 0 | e :: r => f e + total f r end.

Definition blocked_of (e : op * out) : list pid := match e with (Lock p, Blocked) => [p] | _ => [] end.
Definition granted_of (e : op * out) : list pid := match e with (_, Released (Some q)) => [q] | _ => [] end.
Definition blocked_seq (tr : list (op * out)) : list pid := flat_map blocked_of tr.   (* lockers that had to wait, in request order *)
Definition granted_seq (tr : list (op * out)) : list pid := flat_map granted_of tr.   (* waiters that were served, in service order *)

(** ------------------------------------------------------------------------------------------------------------
    Executable entry point.  Input: fx rec (op pid)*   op: 1 lock 2 try_lock 3 unlock 9 get_owner 10 peek
    Output per op: code k x1..xk
      0 rejected, 1 acquired, 2 blocked, 3 try ok, 4 try failed, 5 released (k=0 nobody woken, k=1 the woken pid),
      7 error, 8 undefined, 9 owner (k=1: pid or 0), 10 peek (owner depth q1..qn) *)
Definition owner_z (m : mutex) : Z := match owner m with Some p => p | None => 0 end.
Fixpoint run_io (fx : bool) (m : mutex) (l : list Z) (fuel : nat) : list Z :=
  match fuel with
  | O => []
  | S f =>
    match l with
    | c :: p :: r =>
      if c =? 9 then 9 :: 1 :: owner_z m :: run_io fx m r f
      else if c =? 10 then 10 :: Z.of_nat (2 + length (queue m)) :: owner_z m :: depth m :: map a_issuer (queue m) ++ run_io fx m r f
      else
        let o := if c =? 1 then Lock p else if c =? 2 then TryLock p else Unlock p in
        let '(m', x) := step fx m o in
        match x with
        | Rejected => 0 :: 0 :: run_io fx m' r f
        | Acquired => 1 :: 0 :: run_io fx m' r f
        | Blocked => 2 :: 0 :: run_io fx m' r f
        | TryOk => 3 :: 0 :: run_io fx m' r f
        | TryFail => 4 :: 0 :: run_io fx m' r f
        | Released None => 5 :: 0 :: run_io fx m' r f
        | Released (Some q) => 5 :: 1 :: q :: run_io fx m' r f
        | Error => 7 :: 0 :: run_io fx m' r f
        | Undefined => 8 :: 0 :: run_io fx m' r f
        end
    | _ => []
    end
  end.
Definition run_c04 (inp : list Z) : list Z :=
  match inp with
  | fx :: rec :: r => run_io (negb (fx =? 0)) (init (negb (rec =? 0))) r (length r)
  | _ => [-1]
  end.
