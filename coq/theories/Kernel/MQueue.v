(** C09 — message queues (src/kernel/activity/MessageQueueImpl.cpp, MessImpl.cpp::iput/iget).
    Model only.  One queue [queue_] holding PUT and GET requests; [find_matching_message] takes the first queued
    request of the opposite type; a matched pair completes at once (MessImpl::start -> finish copies the payload).
    Blocking, asynchronous and detached puts are the same kernel request (MessImpl::iput). *)
From SGV Require Import Base.Tactics.
Local Open Scope Z_scope.

Record mess := mkMess {
  mid : Z;        (* issue number of the request *)
  mactor : Z;     (* issuing actor *)
  mpayload : Z    (* puts: identity of the payload *)
}.
(* queue entry: true = PUT, false = GET *)
Definition mqent := (bool * mess)%type.

(* MessageQueueImpl::find_matching_message: std::find_if on the type + erase *)
Fixpoint find_first (ty : bool) (q : list mqent) : option (mess * list mqent) :=
  match q with
  | [] => None
  | e :: r => if Bool.eqb (fst e) ty then Some (snd e, r)
              else match find_first ty r with
                   | Some (c, r') => Some (c, e :: r')
                   | None => None
                   end
  end.

Inductive qop := QPut (m : mess) | QGet (m : mess).

(* MessImpl::iput / MessImpl::iget: the pair (put, get) formed, if any *)
Definition iput (q : list mqent) (p : mess) : list mqent * list (mess * mess) :=
  match find_first false q with
  | Some (g, q') => (q', [(p, g)])
  | None => (q ++ [(true, p)], [])
  end.
Definition iget (q : list mqent) (g : mess) : list mqent * list (mess * mess) :=
  match find_first true q with
  | Some (p, q') => (q', [(p, g)])
  | None => (q ++ [(false, g)], [])
  end.
Definition qstep (q : list mqent) (o : qop) : list mqent * list (mess * mess) :=
  match o with QPut p => iput q p | QGet g => iget q g end.
Fixpoint qrun (q : list mqent) (ops : list qop) : list mqent * list (mess * mess) :=
  match ops with
  | [] => (q, [])
  | o :: t => let '(q1, ev) := qstep q o in let '(q2, evs) := qrun q1 t in (q2, ev ++ evs)
  end.

Fixpoint puts_of (ops : list qop) : list mess :=
  match ops with [] => [] | QPut m :: t => m :: puts_of t | QGet _ :: t => puts_of t end.
Fixpoint gets_of (ops : list qop) : list mess :=
  match ops with [] => [] | QGet m :: t => m :: gets_of t | QPut _ :: t => gets_of t end.
Definition qpending (ty : bool) (q : list mqent) : list mess :=
  map snd (filter (fun e => Bool.eqb (fst e) ty) q).

(** oracle on an observed log: puts and gets in issue order, and (get id, payload) for every served get, in get order.
    The property text pins the pairing completely: the k-th get obtains the k-th put. *)
Fixpoint zeq_list (a b : list Z) : bool :=
  match a, b with
  | [], [] => true
  | x :: a', y :: b' => (x =? y) && zeq_list a' b'
  | _, _ => false
  end.
Definition expected_log (ops : list qop) : list Z :=
  flat_map (fun pg => [mid (snd pg); mpayload (fst pg)]) (combine (puts_of ops) (gets_of ops)).
Definition mq_log_ok (ops : list qop) (obs : list Z) : bool := zeq_list obs (expected_log ops).

(** executable entry points. one request = 4 integers: kind(1 put | 2 get) id actor payload *)
Fixpoint decode_qops (n : nat) (l : list Z) : list qop * list Z :=
  match n with
  | O => ([], l)
  | S n' => match l with
            | kind :: id :: actor :: payload :: r =>
                let m := mkMess id actor payload in
                let '(os, rest) := decode_qops n' r in ((if kind =? 1 then QPut m else QGet m) :: os, rest)
            | _ => ([], l)
            end
  end.
(* input: nops ops...   output: (get id, payload)* in the order the pairs are formed *)
Definition run_c09 (inp : list Z) : list Z :=
  match inp with
  | n :: r => flat_map (fun pg => [mid (snd pg); mpayload (fst pg)]) (snd (qrun [] (fst (decode_qops (Z.to_nat n) r))))
  | _ => [-1]
  end.
(* input: nops ops... (get id, payload)* in get order   output: 1 | 0 *)
Definition run_c09_oracle (inp : list Z) : list Z :=
  match inp with
  | n :: r => let '(ops, obs) := decode_qops (Z.to_nat n) r in [if mq_log_ok ops obs then 1 else 0]
  | _ => [-1]
  end.
