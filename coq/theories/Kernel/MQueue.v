(** C09 — message queues (src/kernel/activity/MessageQueueImpl.cpp, MessImpl.cpp::iput/iget).
    Model only.  One queue [queue_] holding PUT and GET requests; [find_matching_message] takes the first queued
    request of the opposite type; a matched pair completes at once (MessImpl::start -> finish copies the payload).
    Blocking, asynchronous and detached puts are the same kernel request (MessImpl::iput). *)
From SGV Require Import Base.Tactics.
Local Open Scope Z_scope.

Record mess := mkMess {
  mid : Z;        (* issue number of the request *)
  mactor : Z;     (* issuing actor *)
  mpayload : Z    (* puts: identity of the payload *)
}.
(* queue entry: true = PUT, false = GET *)
Definition mqent := (bool * mess)%type.

(* MessageQueueImpl::find_matching_message: std::find_if on the type + erase *)
Fixpoint find_first (ty : bool) (q : list mqent) : option (mess * list mqent) :=
  match q with
  | [] => None
  | e :: r => if Bool.eqb (fst e) ty then Some (snd e, r)
              else match find_first ty r with
                   | Some (c, r') => Some (c, e :: r')
                   | None => None
                   end
  end.

Inductive qop := QPut (m : mess) | QGet (m : mess).

(* MessImpl::iput / MessImpl::iget: the pair (put, get) formed, if any *)
Definition iput (q : list mqent) (p : mess) : list mqent * list (mess * mess) :=
  match find_first false q with
  | Some (g, q') => (q', [(p, g)])
  | None => (q ++ [(true, p)], [])
  end.
Definition iget (q : list mqent) (g : mess) : list mqent * list (mess * mess) :=
  match find_first true q with
  | Some (p, q') => (q', [(p, g)])
  | None => (q ++ [(false, g)], [])
  end.
Definition qstep (q : list mqent) (o : qop) : list mqent * list (mess * mess) :=
  match o with QPut p => iput q p | QGet g => iget q g end.
Fixpoint qrun (q : list mqent) (ops : list qop) : list mqent * list (mess * mess) :=
  match ops with
  | [] => (q, [])
  | o :: t => let '(q1, ev) := qstep q o in let '(q2, evs) := qrun q1 t in (q2, ev ++ evs)
  end.

Fixpoint puts_of (ops : list qop) : list mess :=
  match ops with [] => [] | QPut m :: t => m :: puts_of t | QGet _ :: t => puts_of t end.
Fixpoint gets_of (ops : list qop) : list mess :=
  match ops with [] => [] | QGet m :: t => m :: gets_of t | QPut _ :: t => gets_of t end.
Definition qpending (ty : bool) (q : list mqent) : list mess :=
  map snd (filter (fun e => Bool.eqb (fst e) ty) q).

(** oracle on an observed log: puts and gets in issue order, and (get id, payload) for every served get, in get order.
    The property text pins the pairing completely: the k-th get obtains the k-th put. *)
Fixpoint zeq_list (a b : list Z) : bool :=
  match a, b with
  | [], [] => true
  | x :: a', y :: b' => (x =? y) && zeq_list a' b'
  | _, _ => false
  end.
Definition expected_log (ops : list qop) : list Z :=
  flat_map (fun pg => [mid (snd pg); mpayload (fst pg)]) (combine (puts_of ops) (gets_of ops)).
Definition mq_log_ok (ops : list qop) (obs : list Z) : bool := zeq_list obs (expected_log ops).

(** executable entry points. one request = 4 integers: kind(1 put | 2 get) id actor payload *)
Fixpoint decode_qops (n : nat) (l : list Z) : list qop * list Z :=
  match n with
  | O => ([], l)
  | S n' => match l with
            | kind :: id :: actor :: payload :: r =>
                let m := mkMess id actor payload in
                let '(os, rest) := decode_qops n' r in ((if kind =? 1 then QPut m else QGet m) :: os, rest)
            | _ => ([], l)
            end
  end.
(* input: nops ops...   output: (get id, payload)* in the order the pairs are formed *)
Definition run_c09 (inp : list Z) : list Z :=
  match inp with
  | n :: r => flat_map (fun pg => [mid (snd pg); mpayload (fst pg)]) (snd (qrun [] (fst (decode_qops (Z.to_nat n) r))))
  | _ => [-1]
  end.
(* input: nops ops... (get id, payload)* in get order   output: 1 | 0 *)
Definition run_c09_oracle (inp : list Z) : list Z :=
  match inp with
  | n :: r => let '(ops, obs) := decode_qops (Z.to_nat n) r in [if mq_log_ok ops obs then 1 else 0]
  | _ => [-1]
  end.

(** ------------------------------------------------------------------------------------------------------------
    Withdrawal of a request that is still queued.
    MessImpl::cancel(): [if (get_state() == State::WAITING) { queue_->remove(this); set_state(CANCELED); }] -- a message
    is WAITING exactly while it sits in the queue, so cancel() of a paired (DONE) message leaves the queue alone.
    MessageQueueImpl::remove(): [it = std::find(queue_.begin(), queue_.end(), mess); queue_.erase(it)] -- that one
    element goes, the others keep their relative order.
    Callers: s4u::Mess::cancel() (one message); ActorImpl::cleanup_from_self()/exit() when the issuer ends or is killed
    ([while (not activities_.empty()) activities_.begin()->get()->cancel()]: every non-detached message of the actor,
    in the order of the std::set, i.e. by address -- an arbitrary order, hence a *list* of ids here). *)
Definition zmem (i : Z) (l : list Z) : bool := existsb (Z.eqb i) l.
Definition qids (q : list mqent) : list Z := map (fun e => mid (snd e)) q.

(* MessageQueueImpl::remove: std::find + erase; None = not queued *)
Fixpoint remove_id (i : Z) (q : list mqent) : option (list mqent) :=
  match q with
  | [] => None
  | e :: r => if mid (snd e) =? i then Some r
              else match remove_id i r with
                   | Some r' => Some (e :: r')
                   | None => None
                   end
  end.
(* MessImpl::cancel on message i; the second component accumulates the messages actually withdrawn *)
Definition cancel1 (st : list mqent * list Z) (i : Z) : list mqent * list Z :=
  match remove_id i (fst st) with
  | Some q' => (q', snd st ++ [i])
  | None => st
  end.
Definition cancel_all (q : list mqent) (ids : list Z) : list mqent * list Z := fold_left cancel1 ids (q, []).

(* histories with withdrawals: a request, or cancel() called on the messages [ids] one after the other *)
Inductive xop := XReq (o : qop) | XCancel (ids : list Z).

(* result: final queue, pairs formed (in order), messages withdrawn while queued (in order) *)
Fixpoint xrun (q : list mqent) (xops : list xop) : list mqent * list (mess * mess) * list Z :=
  match xops with
  | [] => (q, [], [])
  | XReq o :: t => let '(q1, ev) := qstep q o in let '(q2, evs, w) := xrun q1 t in (q2, ev ++ evs, w)
  | XCancel ids :: t => let '(q1, w1) := cancel_all q ids in let '(q2, evs, w) := xrun q1 t in (q2, evs, w1 ++ w)
  end.
Definition withdrawn (xops : list xop) : list Z := snd (xrun [] xops).

Definition op_mess (o : qop) : mess := match o with QPut m => m | QGet m => m end.
Fixpoint req_ids (xops : list xop) : list Z :=
  match xops with [] => [] | XReq o :: t => mid (op_mess o) :: req_ids t | XCancel _ :: t => req_ids t end.
Fixpoint xputs_of (xops : list xop) : list mess :=
  match xops with [] => [] | XReq (QPut m) :: t => m :: xputs_of t | _ :: t => xputs_of t end.
Fixpoint xgets_of (xops : list xop) : list mess :=
  match xops with [] => [] | XReq (QGet m) :: t => m :: xgets_of t | _ :: t => xgets_of t end.
(* the requests that were not withdrawn *)
Definition surv (w : list Z) (l : list mess) : list mess := filter (fun m => negb (zmem (mid m) w)) l.
(* the same history as if the withdrawn requests had never been issued *)
Fixpoint erase (w : list Z) (xops : list xop) : list qop :=
  match xops with
  | [] => []
  | XReq o :: t => if zmem (mid (op_mess o)) w then erase w t else o :: erase w t
  | XCancel _ :: t => erase w t
  end.

(** oracle for logs of histories with withdrawals: the k-th surviving get obtains the k-th surviving put *)
Definition expected_xlog (xops : list xop) : list Z :=
  let w := withdrawn xops in
  flat_map (fun pg => [mid (snd pg); mpayload (fst pg)]) (combine (surv w (xputs_of xops)) (surv w (xgets_of xops))).
Definition mq_xlog_ok (xops : list xop) (obs : list Z) : bool := zeq_list obs (expected_xlog xops).

(** one record = kind(1 put | 2 get) id actor payload, or 3 n id_1 .. id_n (cancel() on these messages, in that order) *)
Fixpoint decode_xops (n : nat) (l : list Z) : list xop * list Z :=
  match n with
  | O => ([], l)
  | S n' =>
      match l with
      | kind :: r0 =>
          if kind =? 3 then
            match r0 with
            | k :: r1 => let '(ids, r2) := take_n (Z.to_nat k) r1 in
                         let '(os, rest) := decode_xops n' r2 in (XCancel ids :: os, rest)
            | [] => ([], l)
            end
          else
            match r0 with
            | id :: actor :: payload :: r =>
                let m := mkMess id actor payload in
                let '(os, rest) := decode_xops n' r in (XReq (if kind =? 1 then QPut m else QGet m) :: os, rest)
            | _ => ([], l)
            end
      | [] => ([], l)
      end
  end.
(* input: nops records...   output: (get id, payload)* in the order the pairs are formed, -1, withdrawn ids, -1, ids left queued *)
Definition run_c09x (inp : list Z) : list Z :=
  match inp with
  | n :: r => let '(q, pairs, w) := xrun [] (fst (decode_xops (Z.to_nat n) r)) in
              flat_map (fun pg => [mid (snd pg); mpayload (fst pg)]) pairs ++ [-1] ++ w ++ [-1] ++ qids q
  | _ => [-1]
  end.
(* input: nops records... (get id, payload)* in get order   output: 1 | 0 *)
Definition run_c09x_oracle (inp : list Z) : list Z :=
  match inp with
  | n :: r => let '(xops, obs) := decode_xops (Z.to_nat n) r in [if mq_xlog_ok xops obs then 1 else 0]
  | _ => [-1]
  end.

(** ------------------------------------------------------------------------------------------------------------
    MessImpl::finish(): the hand-over of the payload to the receive buffer.  finish() runs when the pair is formed
    (start()) and again for every later wait()/test() on the message by either side (ActivityImpl::wait_for calls
    finish() at once when the state is neither WAITING nor RUNNING).
      pinned code :  [if (state == DONE && payload_ && dst_buff_) *(void** )dst_buff_ = payload_;]
      repaired    :  the same, followed by [dst_buff_ = nullptr;]  (the payload is handed over once)
    0 stands for nullptr; an event (d, p) = "payload p written to buffer d". *)
Record mobj := mkMobj { mo_done : bool; mo_payload : Z; mo_dst : Z }.
Definition finish_copy (repaired : bool) (m : mobj) : mobj * list (Z * Z) :=
  if mo_done m && negb (mo_payload m =? 0) && negb (mo_dst m =? 0)
  then ((if repaired then mkMobj (mo_done m) (mo_payload m) 0 else m), [(mo_dst m, mo_payload m)])
  else (m, []).
Fixpoint finish_n (repaired : bool) (n : nat) (m : mobj) : list (Z * Z) :=
  match n with
  | O => []
  | S n' => let '(m', ev) := finish_copy repaired m in ev ++ finish_n repaired n' m'
  end.
