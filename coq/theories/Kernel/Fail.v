(** C10 — resource failures: model of what turning a host or link off does to the actors, given the kernel's view of
    what each actor is blocked on (HostImpl::turn_off -> kill -> ActorImpl::exit; CpuImpl/StandardLinkImpl::turn_off ->
    cancel_actions -> handle_ended_actions -> CommImpl/ExecImpl/SleepImpl::finish -> exception per registered simcall),
    and the oracle that judges an observed run.  No proofs here. *)
From SGV Require Import Base.Tactics.
Local Open Scope Z_scope.

Inductive fault := FHost (h : Z) | FLink (l : Z).

(** what an actor waits for: kind 0 nothing, 1 sleep (on w_src), 2 exec (on host w_src), 3 comm not matched yet
    (in a mailbox, uses no resource), 4 comm started (from host w_src to host w_dst over w_links) *)
Record wait := mkWait { w_kind : Z; w_src : Z; w_dst : Z; w_links : list Z }.
Record actor := mkActor { a_host : Z; a_alive : bool; a_wait : wait }.

Definition memz (x : Z) (l : list Z) : bool := existsb (Z.eqb x) l.

(** does the activity use the resource that goes off? *)
Definition uses (f : fault) (w : wait) : bool :=
  match f with
  | FHost h => if w_kind w =? 4 then (w_src w =? h) || (w_dst w =? h)
               else if (w_kind w =? 1) || (w_kind w =? 2) then w_src w =? h else false
  | FLink l => (w_kind w =? 4) && memz l (w_links w)
  end.
Definition on_failed_host (f : fault) (a : actor) : bool :=
  match f with FHost h => a_host a =? h | FLink _ => false end.

(** outcome for one actor: 0 nothing happens to it, 1 killed (on_exit sees failed = true), 2 NetworkFailureException,
    3 HostFailureException.
    - HostImpl::turn_off kills every actor of the host (ActorImpl::exit: its activities are cancelled and finish()ed);
    - CommImpl::finish: SRC/DST_HOST_FAILURE, LINK_FAILURE and FAILED all raise NetworkFailureException in every
      registered waiter that is not itself dying (unregister_first_simcall returns nullptr for those);
    - ExecImpl::finish: a host of the execution is off -> FAILED -> HostFailureException;
    - SleepImpl::finish: only the sleeper itself waits for it, on its own host, so it is killed. *)
Definition expected (f : fault) (a : actor) : Z :=
  if negb (a_alive a) then 0
  else if on_failed_host f a then 1
  else if uses f (a_wait a) then (if w_kind (a_wait a) =? 4 then 2 else 3)
  else 0.

Definition no_wait := mkWait 0 (-1) (-1) [].
(** the actor after the failure has been handled *)
Definition post (f : fault) (a : actor) : actor :=
  match expected f a with
  | 1 => mkActor (a_host a) false no_wait
  | 2 | 3 => mkActor (a_host a) true no_wait
  | _ => a
  end.

(** what was observed for one actor in a run where the resource went off at date T (and stays off until the end):
    o_killed / o_failed: an on_exit callback ran at date T / with failed = true; o_exc: exception caught at date T
    (0 none, 1 NetworkFailure, 2 HostFailure, 3 other); o_done: the operation the actor was blocked on when the resource
    went off returned successfully afterwards (at any later date: the resource is off during the whole of
    [T, completion]); o_end: what the actor is blocked on when the engine reports a deadlock at the end (kind 0 when it
    is not blocked or there is no deadlock).  An actor that is suspended at date T makes no step until it is resumed: for
    it o_exc is what the operation it was blocked on raises at that point (the checker resumes every suspended actor) *)
Record obs := mkObs { o_actor : actor; o_killed : bool; o_failed : bool; o_exc : Z; o_done : bool; o_end : wait }.

(** verdict for one actor: 0 fine, 1 an actor of the failed host survives, 2 its on_exit saw failed = false,
    3 a surviving waiter got no exception, 4 it got the wrong exception, 5 it stays blocked for ever on an activity
    that uses the failed resource, 6 the activity it was blocked on used the resource that went off and nevertheless
    completed successfully (through a resource that is off from T to the completion) *)
Definition verdict (f : fault) (o : obs) : Z :=
  let a := o_actor o in
  if uses f (o_end o) && negb (w_kind (o_end o) =? 0) then 5
  else if negb (a_alive a) then 0
  else if uses f (a_wait a) && o_done o then 6
  else if on_failed_host f a then (if negb (o_killed o) then 1 else if negb (o_failed o) then 2 else 0)
  else if uses f (a_wait a) then
    (if o_exc o =? 0 then 3
     else if w_kind (a_wait a) =? 4 then (if o_exc o =? 1 then 0 else 4)
     else (if o_exc o =? 2 then 0 else 4))
  else 0.
Definition failure_log_ok (f : fault) (l : list obs) : bool := forallb (fun o => verdict f o =? 0) l.

(** ---- integer-list entry points:  fk fid n  then per actor:
    host alive kind src dst nl links..  killed failed exc done  ekind esrc edst enl elinks.. *)
Definition fault_of (fk fid : Z) : fault := if fk =? 1 then FHost fid else FLink fid.
Definition dec_wait (l : list Z) : wait * list Z :=
  match l with
  | k :: s :: d :: n :: r => let '(ls, rest) := take_n (Z.to_nat n) r in (mkWait k s d ls, rest)
  | _ => (no_wait, [])
  end.
Fixpoint dec_obs (fuel : nat) (l : list Z) : list obs :=
  match fuel with
  | O => []
  | S f => match l with
           | h :: al :: r =>
               let '(w, r1) := dec_wait r in
               match r1 with
               | k :: fl :: e :: dn :: r2 =>
                   let '(we, r3) := dec_wait r2 in
                   mkObs (mkActor h (al =? 1) w) (k =? 1) (fl =? 1) e (dn =? 1) we :: dec_obs f r3
               | _ => []
               end
           | _ => []
           end
  end.
(* model: expected outcome of every actor *)
Definition run_c10_model (l : list Z) : list Z :=
  match l with
  | fk :: fid :: _ :: r => map (fun o => expected (fault_of fk fid) (o_actor o)) (dec_obs (length r) r)
  | _ => []
  end.
(* oracle: verdict per actor *)
Definition run_c10_oracle (l : list Z) : list Z :=
  match l with
  | fk :: fid :: _ :: r => map (verdict (fault_of fk fid)) (dec_obs (length r) r)
  | _ => []
  end.
