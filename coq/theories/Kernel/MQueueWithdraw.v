(** C09 — proofs about histories with withdrawals (SGV.Kernel.MQueue: remove_id, cancel1, cancel_all, xrun).
    Main result [as_never_issued]: a history in which some queued requests are withdrawn (cancel(), issuer ended or
    killed) forms the same pairs and leaves the same queue as the history in which the withdrawn requests were never
    issued; everything proved for put/get histories (MQueueProofs) then transfers to the surviving requests. *)
From SGV Require Import Base.Tactics Kernel.MQueue Kernel.MQueueProofs.
Local Open Scope Z_scope.

Definition keep (w : list Z) (e : mqent) : bool := negb (zmem (mid (snd e)) w).

Lemma zmem_In : forall i w, zmem i w = true <-> In i w.
Proof.
  intros i w. unfold zmem. rewrite existsb_exists. split.
  - intros (x & I & E). apply Z.eqb_eq in E. subst. exact I.
  - intros I. exists i. split; [exact I|apply Z.eqb_refl].
Qed.
Lemma zmem_false : forall i w, zmem i w = false <-> ~ In i w.
Proof.
  intros i w. split.
  - intros H I. apply zmem_In in I. congruence.
  - intros H. destruct (zmem i w) eqn:E; [|reflexivity]. exfalso. apply H. apply zmem_In. exact E.
Qed.
Lemma zmem_app : forall i a b, zmem i (a ++ b) = zmem i a || zmem i b.
Proof. intros. unfold zmem. apply existsb_app. Qed.

Lemma filter_filter : forall {A} (f g : A -> bool) l, filter f (filter g l) = filter (fun x => g x && f x) l.
Proof.
  induction l as [|x l IH]; [reflexivity|]. cbn. destruct (g x); cbn; [destruct (f x)|]; rewrite ?IH; reflexivity.
Qed.
Lemma filter_all : forall {A} (f : A -> bool) l, (forall x, In x l -> f x = true) -> filter f l = l.
Proof.
  induction l as [|x l IH]; intros H; [reflexivity|]. cbn. rewrite (H x (or_introl eq_refl)). f_equal.
  apply IH. intros y I. apply H. right. exact I.
Qed.
Lemma nodup_app_l : forall {A} (a b : list A), NoDup (a ++ b) -> NoDup a.
Proof.
  induction a as [|x a IH]; intros b H; [constructor|]. cbn in H. inv H. constructor.
  - intros I. apply H2. apply in_or_app. left. exact I.
  - apply (IH b). exact H3.
Qed.
Lemma nodup_app_disj : forall {A} (a b : list A) x, NoDup (a ++ b) -> In x a -> In x b -> False.
Proof.
  induction a as [|y a IH]; intros b x H Ia Ib; [destruct Ia|]. cbn in H. inv H. destruct Ia as [E|Ia].
  - subst. apply H2. apply in_or_app. right. exact Ib.
  - apply (IH b x); assumption.
Qed.
Lemma qids_filter_in : forall (f : mqent -> bool) (q : list mqent) i, In i (qids (filter f q)) -> In i (qids q).
Proof.
  intros f q i I. unfold qids in *. apply in_map_iff in I. destruct I as (e & E & I). apply filter_In in I.
  apply in_map_iff. exists e. split; [exact E|apply I].
Qed.
Lemma nodup_filter_app : forall (f : mqent -> bool) (q : list mqent) r, NoDup (qids q ++ r) -> NoDup (qids (filter f q) ++ r).
Proof.
  induction q as [|e q IH]; intros r H; [exact H|]. cbn in H. inv H. specialize (IH r H3). cbn. destruct (f e); [|exact IH].
  cbn. constructor; [|exact IH]. intros I. apply H2. apply in_app_or in I. apply in_or_app. destruct I as [I|I]; [left|right; exact I].
  apply (qids_filter_in f). exact I.
Qed.

(** find_matching_message on a queue from which some entries are filtered out *)
Lemma find_first_filter_some : forall (f : mqent -> bool) ty (q : list mqent) c q',
  find_first ty q = Some (c, q') -> f (ty, c) = true -> find_first ty (filter f q) = Some (c, filter f q').
Proof.
  induction q as [|e r IH]; intros c q' H K; [discriminate|]. destruct e as [t m]. cbn [find_first fst snd] in H.
  destruct (Bool.eqb t ty) eqn:E.
  - inv H. apply Bool.eqb_prop in E. subst t. cbn [filter]. rewrite K.
    cbn [find_first fst snd]. rewrite Bool.eqb_reflx. reflexivity.
  - destruct (find_first ty r) as [[c0 r0]|] eqn:F; [|discriminate]. inv H. specialize (IH c r0 eq_refl K).
    cbn [filter]. destruct (f (t, m)) eqn:Fe.
    + cbn [find_first fst snd]. rewrite E, IH. reflexivity.
    + exact IH.
Qed.
Lemma find_first_filter_none : forall (f : mqent -> bool) ty (q : list mqent), find_first ty q = None -> find_first ty (filter f q) = None.
Proof.
  induction q as [|e r IH]; intros H; [reflexivity|]. cbn in H. destruct (Bool.eqb (fst e) ty) eqn:E; [discriminate|].
  destruct (find_first ty r) as [[c0 r0]|] eqn:F; [discriminate|]. specialize (IH eq_refl). cbn [filter].
  destruct (f e); [|exact IH]. cbn [find_first]. rewrite E, IH. reflexivity.
Qed.
Lemma find_first_nodup : forall ty q c q', find_first ty q = Some (c, q') -> forall r, NoDup (qids q ++ r) ->
  NoDup (qids q' ++ r) /\ ~ In (mid c) (qids q' ++ r) /\ (forall i, In i (qids q') -> In i (qids q)).
Proof.
  induction q as [|e q IH]; intros c q' H r N; [discriminate|]. cbn in H. cbn in N. inv N.
  destruct (Bool.eqb (fst e) ty) eqn:E.
  - inv H. split; [exact H3|]. split; [exact H2|]. intros i I. right. exact I.
  - destruct (find_first ty q) as [[c0 r0]|] eqn:F; [|discriminate]. inv H. destruct (IH c r0 eq_refl r H3) as (A & B & C).
    split; [|split].
    + cbn. constructor; [|exact A]. intros I. apply H2. apply in_app_or in I. apply in_or_app.
      destruct I as [I|I]; [left; apply C; exact I|right; exact I].
    + cbn. intros [I|I]; [|apply B; exact I]. apply H2. rewrite I.
      (* mid c is in qids q: c was found in q *)
      clear - F. revert c r0 F. induction q as [|x q IHq]; intros c r0 F; [discriminate|]. cbn in F.
      destruct (Bool.eqb (fst x) ty).
      * inv F. cbn. left. reflexivity.
      * destruct (find_first ty q) as [[c1 r1]|] eqn:G; [|discriminate]. inv F. cbn. right. apply (IHq c r1 eq_refl).
    + intros i [I|I]; [left; exact I|right; apply C; exact I].
Qed.

(** MessageQueueImpl::remove *)
Lemma remove_id_some : forall i q q', remove_id i q = Some q' -> NoDup (qids q) ->
  q' = filter (fun e => negb (mid (snd e) =? i)) q /\ In i (qids q).
Proof.
  induction q as [|e q IH]; intros q' H N; [discriminate|]. cbn in H. cbn in N. inv N. destruct (mid (snd e) =? i) eqn:E.
  - inv H. apply Z.eqb_eq in E. split; [|left; exact E]. cbn [filter]. rewrite (proj2 (Z.eqb_eq _ _) E). cbn [negb].
    symmetry. apply filter_all. intros x I. destruct (mid (snd x) =? i) eqn:X; [|reflexivity]. exfalso. apply H2.
    apply Z.eqb_eq in X. rewrite E, <- X. apply in_map_iff. exists x. split; [reflexivity|exact I].
  - destruct (remove_id i q) as [r'|] eqn:R; [|discriminate]. inv H. destruct (IH r' eq_refl H3) as [A B].
    split; [|right; exact B]. cbn [filter]. rewrite E. cbn [negb]. f_equal. exact A.
Qed.
Lemma remove_id_none : forall i q, remove_id i q = None -> ~ In i (qids q).
Proof.
  induction q as [|e q IH]; intros H; [intros []|]. cbn in H. destruct (mid (snd e) =? i) eqn:E; [discriminate|].
  destruct (remove_id i q) eqn:R; [discriminate|]. intros [I|I]; [lia|apply IH; [reflexivity|exact I]].
Qed.

Lemma keep_cons : forall i ids e, keep (i :: ids) e = negb (mid (snd e) =? i) && keep ids e.
Proof. intros. unfold keep, zmem. cbn [existsb]. rewrite negb_orb. reflexivity. Qed.

Lemma cancel_fold_fst : forall ids q w0, NoDup (qids q) -> fst (fold_left cancel1 ids (q, w0)) = filter (keep ids) q.
Proof.
  induction ids as [|i ids IH]; intros q w0 N.
  - cbn. symmetry. apply filter_all. reflexivity.
  - cbn [fold_left]. unfold cancel1 at 2. cbn [fst snd]. destruct (remove_id i q) as [q'|] eqn:R.
    + destruct (remove_id_some _ _ _ R N) as [A _]. rewrite IH.
      * rewrite A, filter_filter. apply filter_ext. intros e. rewrite keep_cons. reflexivity.
      * rewrite A. apply (nodup_app_l _ []). apply nodup_filter_app. rewrite app_nil_r. exact N.
    + rewrite (IH q w0 N). apply filter_ext_in. intros e I. rewrite keep_cons.
      destruct (mid (snd e) =? i) eqn:E; [|reflexivity]. exfalso. apply (remove_id_none _ _ R).
      apply Z.eqb_eq in E. rewrite <- E. apply in_map_iff. exists e. split; [reflexivity|exact I].
Qed.
Lemma cancel_fold_snd : forall ids q w0, NoDup (qids q) ->
  forall x, In x (snd (fold_left cancel1 ids (q, w0))) <-> In x w0 \/ (In x ids /\ In x (qids q)).
Proof.
  induction ids as [|i ids IH]; intros q w0 N x.
  - cbn. split; [intros H; left; exact H|intros [H|[[] _]]; exact H].
  - cbn [fold_left]. unfold cancel1 at 2. cbn [fst snd]. destruct (remove_id i q) as [q'|] eqn:R.
    + destruct (remove_id_some _ _ _ R N) as [A B].
      assert (N' : NoDup (qids q')).
      { rewrite A. apply (nodup_app_l _ []). apply nodup_filter_app. rewrite app_nil_r. exact N. }
      rewrite (IH q' (w0 ++ [i]) N' x). rewrite in_app_iff. cbn [In]. split.
      * intros [[H|[H|[]]]|[H1 H2]].
        -- left. exact H.
        -- right. subst. split; [left; reflexivity|exact B].
        -- right. split; [right; exact H1|]. rewrite A in H2. apply qids_filter_in in H2. exact H2.
      * intros [H|[[H1|H1] H2]].
        -- left. left. exact H.
        -- left. right. left. exact H1.
        -- destruct (Z.eq_dec x i) as [E|NE]; [left; right; left; symmetry; exact E|]. right. split; [exact H1|].
           rewrite A. unfold qids in *. apply in_map_iff in H2. destruct H2 as (e & E & I). apply in_map_iff. exists e.
           split; [exact E|]. apply filter_In. split; [exact I|]. rewrite E. destruct (x =? i) eqn:X; [lia|reflexivity].
    + rewrite (IH q w0 N x). cbn [In]. split.
      * intros [H|[H1 H2]]; [left; exact H|right; split; [right; exact H1|exact H2]].
      * intros [H|[[H1|H1] H2]]; [left; exact H| |right; split; assumption].
        exfalso. subst. apply (remove_id_none _ _ R). exact H2.
Qed.

(* MessImpl::cancel removes exactly the named messages that are still queued; the others keep their relative order;
   the order in which the cancels are issued does not matter *)
Theorem cancel_exact : forall q ids, NoDup (qids q) ->
  fst (cancel_all q ids) = filter (keep ids) q /\
  (forall i, In i (snd (cancel_all q ids)) <-> In i ids /\ In i (qids q)).
Proof.
  intros q ids N. unfold cancel_all. split; [apply cancel_fold_fst; exact N|]. intros i.
  rewrite (cancel_fold_snd ids q [] N i). cbn [In]. tauto.
Qed.

(** histories *)
Lemma xrun_req : forall q o t, xrun q (XReq o :: t) =
  (fst (fst (xrun (fst (qstep q o)) t)), snd (qstep q o) ++ snd (fst (xrun (fst (qstep q o)) t)), snd (xrun (fst (qstep q o)) t)).
Proof. intros. cbn [xrun]. destruct (qstep q o) as [q1 ev]. cbn [fst snd]. destruct (xrun q1 t) as [[a b] c]. reflexivity. Qed.
Lemma xrun_cancel : forall q ids t, xrun q (XCancel ids :: t) =
  (fst (fst (xrun (fst (cancel_all q ids)) t)), snd (fst (xrun (fst (cancel_all q ids)) t)),
   snd (cancel_all q ids) ++ snd (xrun (fst (cancel_all q ids)) t)).
Proof. intros. cbn [xrun]. destruct (cancel_all q ids) as [q1 w1]. cbn [fst snd]. destruct (xrun q1 t) as [[a b] c]. reflexivity. Qed.

Lemma qstep_ids : forall q o, let q1 := fst (qstep q o) in forall r, NoDup (qids q ++ mid (op_mess o) :: r) ->
  NoDup (qids q1 ++ r) /\ (forall i, In i (qids q1) -> In i (qids q) \/ i = mid (op_mess o)).
Proof.
  intros q o q1 r N. unfold q1. destruct o as [p|g]; cbn [qstep op_mess] in *.
  - unfold iput. destruct (find_first false q) as [[c q']|] eqn:F; cbn [fst].
    + destruct (find_first_nodup _ _ _ _ F _ N) as (A & _ & C). split; [|intros i I; left; apply C; exact I].
      apply NoDup_remove_1 in A. exact A.
    + unfold qids. rewrite map_app, <- app_assoc. cbn. split; [exact N|]. intros i I. apply in_app_or in I.
      destruct I as [I|[I|[]]]; [left; exact I|right; symmetry; exact I].
  - unfold iget. destruct (find_first true q) as [[c q']|] eqn:F; cbn [fst].
    + destruct (find_first_nodup _ _ _ _ F _ N) as (A & _ & C). split; [|intros i I; left; apply C; exact I].
      apply NoDup_remove_1 in A. exact A.
    + unfold qids. rewrite map_app, <- app_assoc. cbn. split; [exact N|]. intros i I. apply in_app_or in I.
      destruct I as [I|[I|[]]]; [left; exact I|right; symmetry; exact I].
Qed.

(* only requests that are queued at some point can be withdrawn *)
Lemma withdrawn_sub : forall xops q0, NoDup (qids q0 ++ req_ids xops) ->
  forall i, In i (snd (xrun q0 xops)) -> In i (qids q0) \/ In i (req_ids xops).
Proof.
  induction xops as [|[o|ids] t IH]; intros q0 N i I.
  - destruct I.
  - rewrite xrun_req in I. cbn [snd] in I. cbn [req_ids] in N. destruct (qstep_ids q0 o _ N) as [N1 S].
    destruct (IH _ N1 i I) as [H|H]; [|right; right; exact H]. destruct (S i H) as [H'|H']; [left; exact H'|right; left; symmetry; exact H'].
  - rewrite xrun_cancel in I. cbn [snd] in I. cbn [req_ids] in N. pose proof (nodup_app_l _ _ N) as Nq.
    destruct (cancel_exact q0 ids Nq) as [A B]. apply in_app_or in I. destruct I as [I|I].
    + left. apply B in I. apply I.
    + assert (N1 : NoDup (qids (fst (cancel_all q0 ids)) ++ req_ids t)) by (rewrite A; apply nodup_filter_app; exact N).
      destruct (IH _ N1 i I) as [H|H]; [left|right; exact H]. rewrite A in H. apply qids_filter_in in H. exact H.
Qed.

Lemma erase_ext : forall a b t, (forall i, In i (req_ids t) -> zmem i a = zmem i b) -> erase a t = erase b t.
Proof.
  induction t as [|[o|ids] t IH]; intros H; [reflexivity| |].
  - cbn [erase]. rewrite (H (mid (op_mess o))) by (left; reflexivity). rewrite IH; [reflexivity|].
    intros i I. apply H. right. exact I.
  - cbn [erase]. apply IH. exact H.
Qed.

Lemma keep_nil : forall q, filter (keep []) q = q.
Proof. intros. apply filter_all. reflexivity. Qed.

(* the simulation: started from q0, the run with withdrawals W equals the cancel-free run of the requests not in W,
   started from q0 without the entries in W *)
Lemma sim : forall xops q0, NoDup (qids q0 ++ req_ids xops) ->
  let res := xrun q0 xops in
  qrun (filter (keep (snd res)) q0) (erase (snd res) xops) = fst res.
Proof.
  induction xops as [|[o|ids] t IH]; intros q0 N res; unfold res; clear res.
  - cbn. rewrite keep_nil. reflexivity.
  - rewrite xrun_req. cbn [fst snd]. cbn [req_ids] in N. destruct (qstep_ids q0 o _ N) as [N1 S].
    specialize (IH _ N1). cbn zeta in IH. pose proof (withdrawn_sub t _ N1) as WS.
    set (q1 := fst (qstep q0 o)) in *. set (w := snd (xrun q1 t)) in *.
    destruct (xrun q1 t) as [[q2 evs] w'] eqn:R. cbn [fst snd] in *.
    destruct o as [p|g]; cbn [qstep op_mess erase] in *.
    + unfold iput in *. destruct (find_first false q0) as [[c q']|] eqn:F; cbn [fst snd] in *.
      * destruct (find_first_nodup _ _ _ _ F _ N) as (A & B & C).
        assert (Pw : ~ In (mid p) w).
        { intros I. apply NoDup_remove_2 in A. apply A. apply in_or_app. apply WS. exact I. }
        assert (Cw : ~ In (mid c) w).
        { intros I. apply B. apply WS in I. apply in_or_app. destruct I as [I|I]; [left; exact I|right; right; exact I]. }
        rewrite (proj2 (zmem_false _ _) Pw). rewrite qrun_cons. cbn [qstep]. unfold iput.
        rewrite (find_first_filter_some (keep w) false q0 c q' F) by (unfold keep; cbn [snd]; rewrite (proj2 (zmem_false _ _) Cw); reflexivity).
        cbn [fst snd]. subst q1. rewrite IH. reflexivity.
      * subst q1. rewrite filter_app in IH. cbn [filter] in IH. unfold keep at 2 in IH. cbn [snd] in IH.
        destruct (zmem (mid p) w) eqn:Zm; cbn [negb] in IH.
        -- rewrite app_nil_r in IH. exact IH.
        -- rewrite qrun_cons. cbn [qstep]. unfold iput. rewrite (find_first_filter_none (keep w) false q0 F). cbn [fst snd].
           f_equal; [exact (f_equal fst IH)|exact (f_equal (fun x => [] ++ snd x) IH)].
    + unfold iget in *. destruct (find_first true q0) as [[c q']|] eqn:F; cbn [fst snd] in *.
      * destruct (find_first_nodup _ _ _ _ F _ N) as (A & B & C).
        assert (Pw : ~ In (mid g) w).
        { intros I. apply NoDup_remove_2 in A. apply A. apply in_or_app. apply WS. exact I. }
        assert (Cw : ~ In (mid c) w).
        { intros I. apply B. apply WS in I. apply in_or_app. destruct I as [I|I]; [left; exact I|right; right; exact I]. }
        rewrite (proj2 (zmem_false _ _) Pw). rewrite qrun_cons. cbn [qstep]. unfold iget.
        rewrite (find_first_filter_some (keep w) true q0 c q' F) by (unfold keep; cbn [snd]; rewrite (proj2 (zmem_false _ _) Cw); reflexivity).
        cbn [fst snd]. subst q1. rewrite IH. reflexivity.
      * subst q1. rewrite filter_app in IH. cbn [filter] in IH. unfold keep at 2 in IH. cbn [snd] in IH.
        destruct (zmem (mid g) w) eqn:Zm; cbn [negb] in IH.
        -- rewrite app_nil_r in IH. exact IH.
        -- rewrite qrun_cons. cbn [qstep]. unfold iget. rewrite (find_first_filter_none (keep w) true q0 F). cbn [fst snd].
           f_equal; [exact (f_equal fst IH)|exact (f_equal (fun x => [] ++ snd x) IH)].
  - rewrite xrun_cancel. cbn [fst snd]. cbn [req_ids erase] in *. pose proof (nodup_app_l _ _ N) as Nq.
    destruct (cancel_exact q0 ids Nq) as [A B].
    assert (N1 : NoDup (qids (fst (cancel_all q0 ids)) ++ req_ids t)) by (rewrite A; apply nodup_filter_app; exact N).
    specialize (IH _ N1). cbn zeta in IH.
    set (w1 := snd (cancel_all q0 ids)) in *. set (w := snd (xrun (fst (cancel_all q0 ids)) t)) in *.
    rewrite (erase_ext (w1 ++ w) w).
    + rewrite <- surjective_pairing, <- IH. f_equal. rewrite A, filter_filter. apply filter_ext_in. intros e I. unfold keep. rewrite zmem_app, negb_orb.
      f_equal. f_equal. assert (Ie : In (mid (snd e)) (qids q0)) by (apply in_map_iff; exists e; split; [reflexivity|exact I]).
      destruct (zmem (mid (snd e)) ids) eqn:Z.
      * apply zmem_In. apply B. split; [apply zmem_In; exact Z|exact Ie].
      * apply zmem_false. intros H. apply B in H. apply (proj1 (zmem_false _ _) Z). apply H.
    + intros i I. rewrite zmem_app. replace (zmem i w1) with false; [reflexivity|]. symmetry. apply zmem_false. intros H.
      apply B in H. apply (nodup_app_disj _ _ i N); [apply H|exact I].
Qed.

(** a history with withdrawals behaves as if the withdrawn requests had never been issued *)
Theorem as_never_issued : forall xops, NoDup (req_ids xops) ->
  qrun [] (erase (withdrawn xops) xops) = fst (xrun [] xops).
Proof. intros xops N. exact (sim xops [] N). Qed.

Lemma puts_of_erase : forall w xops, puts_of (erase w xops) = surv w (xputs_of xops).
Proof.
  induction xops as [|[[m|m]|ids] t IH]; [reflexivity| | |exact IH]; cbn [erase op_mess xputs_of]; unfold surv in *; cbn [filter];
    destruct (zmem (mid m) w); cbn [negb puts_of]; rewrite ?IH; reflexivity.
Qed.
Lemma gets_of_erase : forall w xops, gets_of (erase w xops) = surv w (xgets_of xops).
Proof.
  induction xops as [|[[m|m]|ids] t IH]; [reflexivity| | |exact IH]; cbn [erase op_mess xgets_of]; unfold surv in *; cbn [filter];
    destruct (zmem (mid m) w); cbn [negb gets_of]; rewrite ?IH; reflexivity.
Qed.

Theorem withdraw_fifo : forall xops, NoDup (req_ids xops) ->
  let w := withdrawn xops in
  snd (fst (xrun [] xops)) = combine (surv w (xputs_of xops)) (surv w (xgets_of xops)).
Proof.
  intros xops N w. unfold w. rewrite <- (as_never_issued xops N), fifo, puts_of_erase, gets_of_erase. reflexivity.
Qed.

Theorem withdraw_exactly_once : forall xops, NoDup (req_ids xops) ->
  let res := xrun [] xops in let w := withdrawn xops in
  surv w (xputs_of xops) = map fst (snd (fst res)) ++ qpending true (fst (fst res)) /\
  surv w (xgets_of xops) = map snd (snd (fst res)) ++ qpending false (fst (fst res)).
Proof.
  intros xops N res w. unfold res, w. rewrite <- (as_never_issued xops N), <- puts_of_erase, <- gets_of_erase.
  apply exactly_once.
Qed.

Theorem withdraw_homogeneous : forall xops, NoDup (req_ids xops) ->
  let q := fst (fst (xrun [] xops)) in (forall e, In e q -> fst e = true) \/ (forall e, In e q -> fst e = false).
Proof. intros xops N q. unfold q. rewrite <- (as_never_issued xops N). apply homogeneous. Qed.

Theorem withdraw_final_queue : forall xops, NoDup (req_ids xops) ->
  let w := withdrawn xops in let P := surv w (xputs_of xops) in let G := surv w (xgets_of xops) in
  fst (fst (xrun [] xops)) = tagq true (skipn (length G) P) ++ tagq false (skipn (length P) G).
Proof.
  intros xops N w P G. unfold P, G, w. rewrite <- (as_never_issued xops N), final_queue, puts_of_erase, gets_of_erase. reflexivity.
Qed.

(** which requests are withdrawn: exactly those named by a cancel while they are queued *)
Lemma xrun_queue_ids : forall xops q0, NoDup (qids q0 ++ req_ids xops) -> forall r, NoDup (qids q0 ++ req_ids xops ++ r) ->
  NoDup (qids (fst (fst (xrun q0 xops))) ++ r).
Proof.
  induction xops as [|[o|ids] t IH]; intros q0 N r Nr.
  - cbn in *. exact Nr.
  - rewrite xrun_req. cbn [fst]. cbn [req_ids] in *. destruct (qstep_ids q0 o _ N) as [N1 _].
    cbn [app] in Nr. destruct (qstep_ids q0 o _ Nr) as [N2 _]. apply IH; assumption.
  - rewrite xrun_cancel. cbn [fst]. cbn [req_ids] in *. pose proof (nodup_app_l _ _ N) as Nq.
    destruct (cancel_exact q0 ids Nq) as [A _]. apply IH; rewrite A; apply nodup_filter_app; assumption.
Qed.

Theorem withdrawn_iff_gen : forall xops q0, NoDup (qids q0 ++ req_ids xops) -> forall i,
  In i (snd (xrun q0 xops)) <->
  exists pre ids post, xops = pre ++ XCancel ids :: post /\ In i ids /\ In i (qids (fst (fst (xrun q0 pre)))).
Proof.
  induction xops as [|[o|ids0] t IH]; intros q0 N i.
  - cbn. split; [intros []|]. intros (pre & ids & post & E & _). destruct pre; discriminate.
  - rewrite xrun_req. cbn [snd]. cbn [req_ids] in N. destruct (qstep_ids q0 o _ N) as [N1 _]. rewrite (IH _ N1 i). split.
    + intros (pre & ids & post & E & I1 & I2). exists (XReq o :: pre), ids, post. split; [cbn; rewrite E; reflexivity|].
      split; [exact I1|]. rewrite xrun_req. cbn [fst]. exact I2.
    + intros (pre & ids & post & E & I1 & I2). destruct pre as [|x pre]; [discriminate|]. cbn in E. inv E.
      exists pre, ids, post. split; [reflexivity|]. split; [exact I1|]. rewrite xrun_req in I2. cbn [fst] in I2. exact I2.
  - rewrite xrun_cancel. cbn [snd]. cbn [req_ids] in N. pose proof (nodup_app_l _ _ N) as Nq.
    destruct (cancel_exact q0 ids0 Nq) as [A B].
    assert (N1 : NoDup (qids (fst (cancel_all q0 ids0)) ++ req_ids t)) by (rewrite A; apply nodup_filter_app; exact N).
    rewrite in_app_iff, (B i), (IH _ N1 i). split.
    + intros [[I1 I2]|(pre & ids & post & E & I1 & I2)].
      * exists [], ids0, t. split; [reflexivity|]. split; [exact I1|exact I2].
      * exists (XCancel ids0 :: pre), ids, post. split; [cbn; rewrite E; reflexivity|]. split; [exact I1|].
        rewrite xrun_cancel. cbn [fst]. exact I2.
    + intros (pre & ids & post & E & I1 & I2). destruct pre as [|x pre].
      * cbn in E. inv E. left. split; [exact I1|exact I2].
      * cbn in E. inv E. right. exists pre, ids, post. split; [reflexivity|]. split; [exact I1|].
        rewrite xrun_cancel in I2. cbn [fst] in I2. exact I2.
Qed.
Theorem withdrawn_iff : forall xops, NoDup (req_ids xops) -> forall i,
  In i (withdrawn xops) <->
  exists pre ids post, xops = pre ++ XCancel ids :: post /\ In i ids /\ In i (qids (fst (fst (xrun [] pre)))).
Proof. intros xops N i. exact (withdrawn_iff_gen xops [] N i). Qed.

(** histories without withdrawals: xrun is qrun *)
Theorem xrun_conservative : forall ops q, xrun q (map XReq ops) = (qrun q ops, []).
Proof.
  induction ops as [|o t IH]; intros q; [reflexivity|]. cbn [map]. rewrite xrun_req, IH, qrun_cons. reflexivity.
Qed.

Theorem xoracle_sound : forall xops obs, mq_xlog_ok xops obs = true ->
  obs = flat_map (fun pg => [mid (snd pg); mpayload (fst pg)])
          (combine (surv (withdrawn xops) (xputs_of xops)) (surv (withdrawn xops) (xgets_of xops))).
Proof. intros xops obs H. apply zeq_list_sound in H. exact H. Qed.
(* the log the oracle expects is the log of the model *)
Theorem xoracle_is_model : forall xops, NoDup (req_ids xops) ->
  expected_xlog xops = flat_map (fun pg => [mid (snd pg); mpayload (fst pg)]) (snd (fst (xrun [] xops))).
Proof. intros xops N. unfold expected_xlog. rewrite (withdraw_fifo xops N). reflexivity. Qed.

(** the payload is written to the receive buffer once, however often finish() runs afterwards *)
Lemma finish_n_nodst : forall n d p, finish_n true n (mkMobj d p 0) = [].
Proof.
  induction n as [|n IH]; intros d p; [reflexivity|]. cbn [finish_n]. unfold finish_copy. cbn [mo_done mo_payload mo_dst].
  rewrite Z.eqb_refl, andb_false_r. cbn [app]. apply IH.
Qed.
Theorem delivered_once : forall n m, mo_done m = true -> mo_payload m <> 0 -> mo_dst m <> 0 ->
  finish_n true (S n) m = [(mo_dst m, mo_payload m)].
Proof.
  intros n m D P B. cbn [finish_n]. unfold finish_copy. rewrite D.
  destruct (mo_payload m =? 0) eqn:E1; [lia|]. destruct (mo_dst m =? 0) eqn:E2; [lia|]. cbn [andb negb app].
  rewrite finish_n_nodst. reflexivity.
Qed.
Theorem delivered_once_pinned_refuted : exists m, finish_n false 2 m = [(mo_dst m, mo_payload m); (mo_dst m, mo_payload m)].
Proof. exists (mkMobj true 7 9). vm_compute. reflexivity. Qed.
