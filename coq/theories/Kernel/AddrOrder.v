(** C01 — address-ordered containers with an address oracle (model only; proofs in AddrOrderProofs.v).

    Objects are identified by their allocation number (for actors: the pid); [addr : nat -> Z] is the address the
    allocator gave them.  A std::set<T*> / std::map<T*,..> iterates in increasing address order, the future event set
    (std::priority_queue<pair<double,Event*>, .., std::greater<>>) pops in lexicographic (date, address) order, the kernel
    heaps (ActionHeap, Timer) compare the date only (xbt::HeapComparator: a.first > b.first). *)
From SGV Require Import Base.Tactics.
From Coq Require Import String.
Local Open Scope Z_scope.

Section Sort.
  Context {A : Type} (le : A -> A -> bool).
  Fixpoint insert (x : A) (l : list A) : list A :=
    match l with [] => [x] | y :: r => if le x y then x :: l else y :: insert x r end.
  Fixpoint isort (l : list A) : list A := match l with [] => [] | x :: r => insert x (isort r) end.
End Sort.

Definition addr_le (addr : nat -> Z) (x y : nat) : bool := addr x <=? addr y.
(** iteration order of a pointer-keyed ordered container holding the objects [s] *)
Definition iter_set (addr : nat -> Z) (s : list nat) : list nat := isort (addr_le addr) s.
Definition mem (x : nat) (l : list nat) : bool := existsb (Nat.eqb x) l.

(** future event set: events (date, event object) popped smallest first; ties on the date are broken by the address *)
Definition fes_le (addr : nat -> Z) (a b : Z * nat) : bool :=
  (fst a <? fst b) || ((fst a =? fst b) && (addr (snd a) <=? addr (snd b))).
Definition fes_order (addr : nat -> Z) (evs : list (Z * nat)) : list (Z * nat) := isort (fes_le addr) evs.

(** EngineImpl::run, "only daemons remain": the daemons are killed one after the other; each kill appends the victim to
    actors_to_run_, so the on_exit callbacks run (and log) in kill order. *)
(* pinned code:  for (auto const& dmon : daemons_) maestro_->kill(dmon);         daemons_ : std::set<ActorImpl*> *)
Definition kill_order_pinned (addr : nat -> Z) (daemons : list nat) : list nat := iter_set addr daemons.
(* repaired code: for (auto const& [pid, actor] : actor_list_) maestro_->kill(actor);   actor_list_ : std::map<aid_t,..>,
   reached only when every remaining actor is a daemon; the set is still used for membership (find/erase/size) *)
Definition kill_order_fixed (addr : nat -> Z) (actor_list daemons : list nat) : list nat :=
  filter (fun a => mem a (iter_set addr daemons)) (isort Nat.leb actor_list).

Definition alloc_monotone (addr : nat -> Z) : Prop := forall i j, (i < j)%nat -> addr i < addr j.
Definition injective (addr : nat -> Z) : Prop := forall i j, addr i = addr j -> i = j.

(** Reviewed sites: how each pointer-keyed container found by gen/ptrorder.py is used.
    Lookup  = only find/insert/erase/size/membership: the address order is never observed ([mem_iter_set]);
    Oracle  = iterated (or handed to user code that may iterate): modelled by [iter_set]/[fes_order], independent of the
              layout only under [alloc_monotone] (or distinct dates for the event set);
    DateOnly = heap whose comparator looks at the date only: no address is compared. *)
Inductive treatment := Lookup | Oracle | DateOnly.
Local Open Scope string_scope.
Definition reviewed_sites : list (string * string * string * nat * treatment) := [
  ("include/simgrid/kernel/Timer.hpp", "boost::heap::fibonacci_heap/HeapComparator", "std::pair<double,Timer*>", 1%nat, DateOnly);
  ("include/simgrid/kernel/resource/Action.hpp", "boost::heap::pairing_heap/HeapComparator", "std::pair<double,Action*>", 1%nat, DateOnly);
  ("include/simgrid/kernel/routing/NetZoneImpl.hpp", "std::map", "std::pair<NetPoint*,NetPoint*>", 1%nat, Lookup);
  ("include/simgrid/kernel/routing/NetZoneImpl.hpp", "std::unordered_set", "NetZoneImpl*", 2%nat, Oracle);
  ("include/simgrid/kernel/routing/StarZone.hpp", "std::unordered_set", "resource::StandardLinkImpl*", 1%nat, Lookup);
  ("include/simgrid/plugins/battery.hpp", "std::map", "s4u::Host*", 1%nat, Oracle);
  ("include/simgrid/plugins/chiller.hpp", "std::set", "s4u::Host*", 1%nat, Oracle);
  ("include/simgrid/plugins/file_system.h", "std::map", "Host*", 1%nat, Lookup);
  ("include/simgrid/s4u/Activity.hpp", "std::set", "Activity*", 3%nat, Oracle);
  ("include/simgrid/s4u/Activity.hpp", "std::set", "ActivityPtr", 2%nat, Oracle);
  ("include/simgrid/s4u/Engine.hpp", "std::set", "Activity*", 1%nat, Oracle);
  ("include/simgrid/s4u/NetZone.hpp", "std::unordered_set", "s4u::NetZone*", 2%nat, Oracle);
  ("include/simgrid/s4u/Task.hpp", "std::map", "Task*", 1%nat, Oracle);
  ("include/simgrid/s4u/Task.hpp", "std::map", "TaskPtr", 1%nat, Oracle);
  ("include/simgrid/s4u/Task.hpp", "std::set", "Task*", 2%nat, Oracle);
  ("src/kernel/EngineImpl.cpp", "std::set", "s4u::Activity*", 1%nat, Lookup);
  ("src/kernel/EngineImpl.hpp", "std::set", "actor::ActorImpl*", 1%nat, Lookup);   (* daemons_: after the repair only find/erase/size *)
  ("src/kernel/actor/ActorImpl.hpp", "std::set", "activity::ActivityImplPtr", 1%nat, Oracle);
  ("src/kernel/actor/SimcallObserver.hpp", "std::unordered_map", "A*", 1%nat, Lookup);
  ("src/kernel/lmm/bmf.hpp", "std::unordered_map", "Constraint*", 1%nat, Lookup);
  ("src/kernel/resource/NetworkModelFactors.cpp", "std::unordered_set", "s4u::NetZone*", 2%nat, Oracle);
  ("src/kernel/resource/NetworkModelFactors.hpp", "std::unordered_set", "s4u::NetZone*", 3%nat, Oracle);
  ("src/kernel/resource/models/network_cm02.cpp", "std::unordered_set", "kernel::routing::NetZoneImpl*", 3%nat, Oracle);
  ("src/kernel/resource/models/network_cm02.cpp", "std::unordered_set", "s4u::NetZone*", 1%nat, Oracle);
  ("src/kernel/resource/models/network_cm02.hpp", "std::unordered_set", "kernel::routing::NetZoneImpl*", 2%nat, Oracle);
  ("src/kernel/resource/models/network_ib.hpp", "std::map", "IBNode*", 1%nat, Oracle);
  ("src/kernel/resource/models/network_ib.hpp", "std::unordered_map", "NetworkAction*", 1%nat, Lookup);
  ("src/kernel/resource/models/ptask_L07.cpp", "std::unordered_set", "char*", 1%nat, Lookup);
  ("src/kernel/resource/profile/FutureEvtSet.hpp", "std::priority_queue/std::greater", "std::pair<double,Event*>", 1%nat, Oracle);
  ("src/kernel/routing/NetZoneImpl.cpp", "std::unordered_set", "NetZoneImpl*", 3%nat, Oracle);
  ("src/kernel/routing/StarZone.cpp", "std::unordered_set", "resource::StandardLinkImpl*", 2%nat, Lookup);
  ("src/s4u/s4u_Activity.cpp", "std::set", "Activity*", 1%nat, Oracle);
  ("src/s4u/s4u_Engine.cpp", "std::set", "Activity*", 1%nat, Oracle);
  ("src/s4u/s4u_Netzone.cpp", "std::unordered_set", "s4u::NetZone*", 2%nat, Oracle)
].
Definition reviewed_comparators : list (string * string * string) :=
  [("include/xbt/utility.hpp", "HeapComparator", "return a.first > b.first;")].

(* places where a pointer-keyed container is iterated (range-for / begin()); all of them are [Oracle] uses.
   EngineImpl.cpp is absent on purpose: the end-of-simulation loop over daemons_ was the exhibited leak (see C01.py) and now
   goes through the pid-ordered actor_list_. *)
Definition reviewed_iterations : list (string * string * nat) := [
  ("include/simgrid/s4u/Activity.hpp", "std::set<Task*>", 1%nat);
  ("src/kernel/actor/ActorImpl.cpp", "std::set<activity::ActivityImplPtr>", 4%nat);
  ("src/kernel/actor/WaitTestObserver.cpp", "std::set<activity::ActivityImplPtr>", 4%nat);
  ("src/kernel/resource/HostImpl.cpp", "std::set<activity::ActivityImplPtr>", 1%nat);
  ("src/kernel/resource/models/network_cm02.cpp", "std::unordered_set<NetZoneImpl*>", 1%nat);
  ("src/kernel/resource/models/network_ib.cpp", "std::map<IBNode*>", 1%nat);
  ("src/kernel/routing/NetZoneImpl.cpp", "std::map<std::pair<NetPoint*,NetPoint*>>", 1%nat);
  ("src/kernel/routing/NetZoneImpl.cpp", "std::set<s4u::Host*>", 3%nat);
  ("src/s4u/s4u_Activity.cpp", "std::set<ActivityPtr>", 1%nat);
  ("src/s4u/s4u_ActivitySet.cpp", "std::set<activity::ActivityImplPtr>", 3%nat);
  ("src/s4u/s4u_Actor.cpp", "std::set<activity::ActivityImplPtr>", 1%nat);
  ("src/s4u/s4u_Task.cpp", "std::map<Task*>", 2%nat);
  ("src/s4u/s4u_Task.cpp", "std::set<Task*>", 2%nat)
].
Definition iteration_covered (s : string * string * nat) : bool :=
  let '(f, t, n) := s in
  existsb (fun r => let '(f', t', n') := r in String.eqb f f' && String.eqb t t' && Nat.leb n n') reviewed_iterations.

Definition site_covered (s : string * string * string * nat) : bool :=
  let '(f, c, k, n) := s in
  existsb (fun r => let '(f', c', k', n', _) := r in
                    String.eqb f f' && String.eqb c c' && String.eqb k k' && Nat.leb n n') reviewed_sites.
Definition comparator_covered (s : string * string * string) : bool :=
  let '(f, c, b) := s in
  existsb (fun r => let '(f', c', b') := r in String.eqb f f' && String.eqb c c' && String.eqb b b') reviewed_comparators.

(** integer-list protocol: run_c01_iter : n a_0..a_{n-1} m s_1..s_m  ->  iteration order of the set {s_i} under the
    addresses a_i;  run_c01_kill : same with actor list = 0..n-1 -> repaired kill order *)
Definition table_addr (t : list Z) (i : nat) : Z := nth i t (Z.of_nat i + 1000000).
Definition run_c01_iter (l : list Z) : list Z :=
  match l with
  | n :: r => let '(t, r1) := take_n (Z.to_nat n) r in
              match r1 with
              | m :: r2 => map Z.of_nat (iter_set (table_addr t) (map Z.to_nat (fst (take_n (Z.to_nat m) r2))))
              | [] => []
              end
  | [] => []
  end.
Definition run_c01_kill (l : list Z) : list Z :=
  match l with
  | n :: r => let '(t, r1) := take_n (Z.to_nat n) r in
              match r1 with
              | m :: r2 => map Z.of_nat (kill_order_fixed (table_addr t) (seq 0 (Z.to_nat n)) (map Z.to_nat (fst (take_n (Z.to_nat m) r2))))
              | [] => []
              end
  | [] => []
  end.
